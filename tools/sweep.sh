#!/bin/bash
# usage: tools/sweep.sh <tier> <seed>...  — run every claimed check on the unchanged tree for the given seeds; report non-zero exits
tier=$1; shift
cd /verif
ids=$(python3 -c "import json;print(' '.join(c['property_id'] for c in json.load(open('MANIFEST.json'))['checks']))")
for sd in "$@"; do
  for p in $ids; do
    ( VERIF_SEED=$sd ./check $p $tier > .work/sw_${p}_$sd.log 2>&1; rc=$?; if [ $rc -ne 0 ]; then echo "seed=$sd $p rc=$rc $(grep -m1 VIOLATION .work/sw_${p}_$sd.log | cut -c1-120)"; fi ) &
    if (( $(jobs -r | wc -l) >= 6 )); then wait -n; fi
  done
  wait
  echo "seed $sd done"
done
