#!/bin/bash
# usage: confirm_seed.sh <outdir e.g. /tmp/mut/C20.out> <k> <seed-id e.g. C20-1>
# Confirms in a scratch worktree that the seeded change compiles, passes the existing suite, and that its
# demonstration fails with the change and passes without it; then stores it under /verif/seeded/<seed-id>/.
out=$1; k=$2; id=$3
export GOFLAGS=-mod=mod GOPROXY=off GOSUMDB=off
wt=/tmp/seedconfirm.$id
rm -rf $wt; git -C /repo worktree prune; git -C /repo worktree add -q --detach $wt HEAD || exit 2
demo=$out/demo_${k}_test.go
pkgdir=$(head -5 $demo | grep -oE '(packets1|packets|gateway|client|topics|transactions|util|cmd/[a-z-]+)' | head -1)
[ -d "$wt/$pkgdir" ] || pkgdir=$(python3 -c "import json;print(json.load(open('$out/meta_$k.json')).get('demo_dir',''))")
[ -d "$wt/$pkgdir" ] || { echo "$id: cannot find demo package dir ($pkgdir)"; exit 2; }
cd $wt
cp $demo $pkgdir/zz_demo_${k}_test.go
base=$(go test -count=1 -run 'Demo|demo' ./$pkgdir/ 2>&1 | tail -3)
echo "$base" | grep -q '^ok' && r_base=pass || r_base=FAIL
git apply $out/patch_$k.diff || { echo "$id: patch does not apply"; exit 2; }
go build ./... 2>&1 | tail -3
mut=$(go test -count=1 -run 'Demo|demo' ./$pkgdir/ 2>&1 | tail -3)
echo "$mut" | grep -q '^ok' && r_mut=pass || r_mut=FAIL
rm $pkgdir/zz_demo_${k}_test.go
suite=$(go test -count=1 ./... 2>&1 | grep -v '^ok\|no test files' | head -5)
[ -z "$suite" ] && r_suite=pass || r_suite="FAIL: $suite"
echo "$id: demo_without_change=$r_base demo_with_change=$r_mut existing_suite_with_change=$r_suite"
cd /; git -C /repo worktree remove --force $wt
if [ "$r_base" = pass ] && [ "$r_mut" = FAIL ] && [ "$r_suite" = pass ]; then
  d=/verif/seeded/$id; mkdir -p $d
  cp $out/patch_$k.diff $d/patch.diff; cp $demo $d/demo_test.go
  python3 - "$out/meta_$k.json" "$d/meta.json" "$id" "$pkgdir" <<'PY'
import json,sys
m=json.load(open(sys.argv[1])); m['seed_id']=sys.argv[3]; m['demo_package_dir']=sys.argv[4]
m['confirmed']='tools/confirm_seed.sh in a scratch worktree of /repo HEAD: demo passes without the change, fails with it; go build ./... and go test ./... (existing suite, demo removed) pass with it'
json.dump(m,open(sys.argv[2],'w'),indent=1)
PY
  echo "$id: stored"
fi
