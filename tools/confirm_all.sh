#!/bin/bash
# usage: confirm_all.sh <P> <n>   (runs confirm for k=1..n of /tmp/mut/<P>.out sequentially)
P=$1; n=$2
for k in $(seq 1 $n); do /verif/tools/confirm_seed.sh /tmp/mut/$P.out $k $P-$k; done > /verif/.work/confirm_$P.log 2>&1
