#!/usr/bin/env python3
"""Regenerates /verif/MANIFEST.json from lib/props.py (claimed checks) and properties.jsonl."""
import json, os, sys
V = os.path.dirname(os.path.dirname(os.path.abspath(__file__)))
sys.path.insert(0, os.path.join(V, "lib"))
from props import PROPS
NA_REASONS = json.load(open(os.path.join(V, "lib", "not_applicable.json"))) if os.path.exists(os.path.join(V, "lib", "not_applicable.json")) else {}
props = [json.loads(l) for l in open(os.path.join(V, "properties.jsonl"))]
checks = []
for p in props:
    pid = p["id"]
    if pid not in PROPS:
        continue
    sp = PROPS[pid]
    checks.append({
        "property_id": pid,
        "quick_cmd": "./check %s quick" % pid,
        "thorough_cmd": "./check %s thorough" % pid,
        "evidence_file": "/verif/evidence/%s.json" % pid,
        "replay_cmd_template": "./check %s replay {path}" % pid,
        "engine": "lean-proof+correspondence",
        "level_claimed": {"category": "proof", "text": sp["level_text"], "design_ref": "DESIGN.md section 5 " + pid},
        "level_note": sp.get("level_note", "Trusted: Lean kernel (axioms per theorem listed in the evidence), factgen, the correspondence harness and its generators, the hand-written model as far as the correspondence checks it; see DESIGN.md section 4"),
        "technique": sp["technique"],
    })
na = [{"property_id": p["id"], "reason": NA_REASONS.get(p["id"], "check not built yet in this round (work in progress, see DESIGN.md section 8)")}
      for p in props if p["id"] not in PROPS]
m = {"version": 1,
     "setup_cmd": "./check setup",
     "hooks": {"guard": "verif",
               "enable": "go1.26.8 test -tags verif -overlay <generated json mapping /repo/<pkg>/zz_verif_*.go to /verif/harness/*.go> (no file of /repo is modified; every injected file carries //go:build verif)",
               "baseline_off_cmd": "cd /repo && go build ./... && go test -vet=off -count=1 -timeout 25m ./...",
               "source_commits": [], "add_only": True},
     "engines": [{"name": "lean-proof+correspondence", "path": "/verif/check", "serves_properties": [c["property_id"] for c in checks],
                  "kind_free_text": "Lean 4 theorems about an executable model (lean/), regenerated facts (factgen/), differential correspondence harness in Go (harness/) and the compiled Lean driver running model + monitors"}],
     "checks": checks,
     "not_applicable": na,
     "notes": "See DESIGN.md. Fixes made to /repo are listed in known_findings.json (kind=fixed)."}
json.dump(m, open(os.path.join(V, "MANIFEST.json"), "w"), indent=1)
print("claimed:", " ".join(c["property_id"] for c in checks))
