#!/bin/bash
# usage: gwmut.sh <patch> [n] — apply a seeded change to /repo, run the gateway suite, report which properties alarm
patch=$1; n=${2:-3000}
cd /repo || exit 2
git diff --quiet || { echo "repo dirty"; exit 2; }
git apply "$patch" || { echo "patch does not apply"; exit 2; }
cd /verif
python3 lib/gen_gateway.py 7 $n mix > .work/gwm_cases.txt
cat corpus/gateway.corpus >> .work/gwm_cases.txt
(cd /repo && export GOFLAGS=-mod=mod GOPROXY=off GOSUMDB=off GOTOOLCHAIN=local GODEBUG=asynctimerchan=0; VERIF_OUT=/verif/.work/gwm.out VERIF_CASES=/verif/.work/gwm_cases.txt timeout 300 go1.26.8 test -tags verif -overlay /verif/.work/overlay_gw.json -count=1 -timeout 4m -run 'TestVerifGateway$' ./gateway/ 2>&1 | grep -v '^ok' | grep -E 'panic|FAIL|fatal' | head -3)
lean/.lake/build/bin/bisq gateway < .work/gwm.out > .work/gwm.rep
echo "  MON: $(grep '^MON' .work/gwm.rep | grep -v mqtt-disconnect-before-connect | awk '{print $2"/"$3}' | sort | uniq -c | sort -rn | head -6 | awk '{printf "%s(%s) ", $2, $1}')"
echo "  DIFF: $(grep '^DIFF' .work/gwm.rep | awk '{print $2}' | sort | uniq -c | sort -rn | head -20 | awk '{printf "%s(%s) ", $2, $1}')"
git -C /repo checkout -- . ; git -C /repo clean -fdq
