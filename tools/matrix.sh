#!/bin/bash
# usage: tools/matrix.sh [tier] [seed-id ...] — for every stored seeded change: apply it to /repo, run the check of its
# property (and of related properties given in meta.json "also"), undo it; writes .work/matrix.txt
tier=${1:-quick}; shift
cd /verif
ids="$@"; [ -z "$ids" ] && ids=$(ls seeded)
claimed=$(python3 -c "import json;print(' '.join(c['property_id'] for c in json.load(open('MANIFEST.json'))['checks']))")
for id in $ids; do
  prop=${id%%-*}
  patch=/verif/seeded/$id/patch.diff
  git -C /repo diff --quiet || { echo "repo dirty"; exit 2; }
  if ! git -C /repo apply --check $patch 2>/dev/null; then echo "$id: PATCH-DOES-NOT-APPLY"; continue; fi
  git -C /repo apply $patch
  res=""
  for p in $prop $(python3 -c "import json;print(' '.join(json.load(open('/verif/seeded/$id/meta.json')).get('also',[])))"); do
    if echo " $claimed " | grep -q " $p "; then
      out=$(./check $p $tier 2>&1); rc=$?
      v=$(echo "$out" | grep -c '^VIOLATION')
      nf=$(echo "$out" | grep -c 'no-failing-input-found')
      rf=$(echo "$out" | grep -o 'replay=[^ ]*' | head -1 | cut -d= -f2)
      first=""; [ -n "$rf" ] && first=$(grep -m1 -E '^# signature|^broken|^correspondence' $rf | cut -c1-160)
      res="$res [$p rc=$rc viol=$v nfi=$nf $first]"
    else
      res="$res [$p not-claimed]"
    fi
  done
  git -C /repo checkout -- . ; git -C /repo clean -fdq
  echo "$id:$res"
done | tee .work/matrix.txt
