#!/bin/bash
# usage: showcase.sh <outfile> <caseid>
awk -v id="$2" '$1=="case"&&$2==id{p=1;print;next} p&&$1=="case"{exit} p' "$1" | cut -c1-${3:-170}
