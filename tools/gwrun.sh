#!/bin/bash
# usage: tools/gwrun.sh <seed> <n> <profile>  — generate, run the real gateway, diff against the model
seed=$1; n=$2; prof=${3:-mix}
python3 /verif/lib/gen_gateway.py $seed $n $prof > /verif/.work/gw_cases_$seed.txt
cat > /verif/.work/overlay_gw.json <<EOT
{"Replace": {"/repo/gateway/zz_verif_drv_test.go": "/verif/harness/gateway_drv_test.go", "/repo/packets1/zz_verif_canon.go": "/verif/harness/packets1_canon.go"}}
EOT
(cd /repo && export GOFLAGS=-mod=mod GOPROXY=off GOSUMDB=off GOTOOLCHAIN=local GODEBUG=asynctimerchan=0; VERIF_OUT=/verif/.work/gw_$seed.out VERIF_CASES=/verif/.work/gw_cases_$seed.txt timeout 300 go1.26.8 test -tags verif -overlay /verif/.work/overlay_gw.json -count=1 -timeout 4m -run 'TestVerifGateway$' ./gateway/ 2>&1 | grep -v '^ok' | head -5)
/verif/lean/.lake/build/bin/bisq gateway < /verif/.work/gw_$seed.out > /verif/.work/gw_$seed.rep
tail -1 /verif/.work/gw_$seed.rep
