#!/bin/bash
# usage: tools/clrun.sh <seed> <n> <profile>  — generate, run the real client, diff against the model
seed=$1; n=$2; prof=${3:-mix}
python3 /verif/lib/gen_client.py $seed $n $prof > /verif/.work/cl_cases_$seed.txt
cat > /verif/.work/overlay_cl.json <<EOT
{"Replace": {"/repo/client/zz_verif_client_test.go": "/verif/harness/client_drv_test.go"}}
EOT
(cd /repo && export GOFLAGS=-mod=mod GOPROXY=off GOSUMDB=off GOTOOLCHAIN=local GODEBUG=asynctimerchan=0; VERIF_OUT=/verif/.work/cl_$seed.out VERIF_CASES=/verif/.work/cl_cases_$seed.txt timeout 600 go1.26.8 test -tags verif -overlay /verif/.work/overlay_cl.json -count=1 -timeout 9m -run 'TestVerifClient$' ./client/ 2>&1 | grep -v '^ok' | head -5)
/verif/lean/.lake/build/bin/bisq client < /verif/.work/cl_$seed.out > /verif/.work/cl_$seed.rep
tail -1 /verif/.work/cl_$seed.rep
