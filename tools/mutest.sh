#!/bin/bash
# usage: tools/mutest.sh <patch.diff> <tier> <prop> [<prop>...]  — apply a seeded change to /repo, run checks, undo it.
patch=$1; tier=$2; shift 2
cd /repo || exit 2
if ! git diff --quiet; then echo "repo dirty"; exit 2; fi
git apply "$patch" || { echo "patch does not apply"; exit 2; }
for p in "$@"; do
  out=$(cd /verif && ./check $p $tier 2>&1); rc=$?
  echo "[$p rc=$rc] $(echo "$out" | grep -E 'VIOLATION|KNOWN' | head -2 | tr '\n' ' ')"
  if [ $rc -ne 0 ]; then f=$(echo "$out" | grep -o 'replay=[^ ]*' | head -1 | cut -d= -f2); [ -n "$f" ] && sed -n '3,4p' "$f" | cut -c1-230; fi
done
git -C /repo checkout -- . ; git -C /repo clean -fdq
