// factgen: extracts constants and small syntactic facts from /repo's Go sources into a
// Lean file (Bisquitt/Gen/Facts.lean).  Standard library only (go/parser, go/ast).
// It is a fact extractor, not a translator: everything it emits is plain data.
package main

import (
	"fmt"
	"go/ast"
	"go/parser"
	"go/printer"
	"go/token"
	"math/big"
	"os"
	"path/filepath"
	"sort"
	"strings"
)

type constVal struct {
	val *big.Int
	typ string // "", "uint8", "uint16", "byte", "PacketType", "ReturnCode", "Duration", ...
}

type pkgConsts struct {
	name   string
	consts map[string]constVal
	order  []string
}

var durUnits = map[string]int64{
	"Nanosecond": 1, "Microsecond": 1e3, "Millisecond": 1e6, "Second": 1e9,
	"Minute": 60e9, "Hour": 3600e9,
}

func (p *pkgConsts) eval(e ast.Expr, iota int64) (constVal, error) {
	switch x := e.(type) {
	case *ast.BasicLit:
		if x.Kind == token.INT {
			v, ok := new(big.Int).SetString(x.Value, 0)
			if !ok {
				return constVal{}, fmt.Errorf("bad int %s", x.Value)
			}
			return constVal{val: v}, nil
		}
		return constVal{}, fmt.Errorf("unsupported literal %s", x.Value)
	case *ast.Ident:
		if x.Name == "iota" {
			return constVal{val: big.NewInt(iota)}, nil
		}
		if c, ok := p.consts[x.Name]; ok {
			return c, nil
		}
		return constVal{}, fmt.Errorf("unknown ident %s", x.Name)
	case *ast.ParenExpr:
		return p.eval(x.X, iota)
	case *ast.SelectorExpr:
		if id, ok := x.X.(*ast.Ident); ok && id.Name == "time" {
			if u, ok := durUnits[x.Sel.Name]; ok {
				return constVal{val: big.NewInt(u), typ: "Duration"}, nil
			}
		}
		return constVal{}, fmt.Errorf("unsupported selector")
	case *ast.CallExpr: // type conversion
		if len(x.Args) == 1 {
			v, err := p.eval(x.Args[0], iota)
			if err != nil {
				return v, err
			}
			switch f := x.Fun.(type) {
			case *ast.Ident:
				v.typ = f.Name
			case *ast.SelectorExpr:
				v.typ = f.Sel.Name
			}
			return v, nil
		}
		return constVal{}, fmt.Errorf("unsupported call")
	case *ast.BinaryExpr:
		a, err := p.eval(x.X, iota)
		if err != nil {
			return a, err
		}
		b, err := p.eval(x.Y, iota)
		if err != nil {
			return b, err
		}
		r := constVal{val: new(big.Int), typ: a.typ}
		if r.typ == "" {
			r.typ = b.typ
		}
		switch x.Op {
		case token.ADD:
			r.val.Add(a.val, b.val)
		case token.SUB:
			r.val.Sub(a.val, b.val)
		case token.MUL:
			r.val.Mul(a.val, b.val)
		case token.SHL:
			r.val.Lsh(a.val, uint(b.val.Int64()))
		case token.OR:
			r.val.Or(a.val, b.val)
		default:
			return r, fmt.Errorf("unsupported op %s", x.Op)
		}
		return r, nil
	}
	return constVal{}, fmt.Errorf("unsupported expr %T", e)
}

func (p *pkgConsts) addDecl(d *ast.GenDecl) {
	var lastExprs []ast.Expr
	var lastType ast.Expr
	for i, s := range d.Specs {
		vs := s.(*ast.ValueSpec)
		exprs := vs.Values
		typ := vs.Type
		if len(exprs) == 0 {
			exprs = lastExprs
			typ = lastType
		} else {
			lastExprs = exprs
			lastType = typ
		}
		for j, n := range vs.Names {
			if j >= len(exprs) || n.Name == "_" {
				continue
			}
			v, err := p.eval(exprs[j], int64(i))
			if err != nil {
				continue // strings, errors.New, ...
			}
			if typ != nil {
				switch t := typ.(type) {
				case *ast.Ident:
					v.typ = t.Name
				case *ast.SelectorExpr:
					v.typ = t.Sel.Name
				}
			}
			if _, dup := p.consts[n.Name]; !dup {
				p.order = append(p.order, n.Name)
			}
			p.consts[n.Name] = v
		}
	}
}

func loadPkg(dir string) (*pkgConsts, []*ast.File, *token.FileSet) {
	fset := token.NewFileSet()
	pkgs, err := parser.ParseDir(fset, dir, func(fi os.FileInfo) bool {
		return !strings.HasSuffix(fi.Name(), "_test.go") && !strings.HasPrefix(fi.Name(), "zz_verif")
	}, parser.ParseComments)
	if err != nil {
		fmt.Fprintln(os.Stderr, "factgen: parse error:", err)
		os.Exit(2)
	}
	p := &pkgConsts{name: filepath.Base(dir), consts: map[string]constVal{}}
	var files []*ast.File
	for _, pk := range pkgs {
		names := make([]string, 0, len(pk.Files))
		for n := range pk.Files {
			names = append(names, n)
		}
		sort.Strings(names)
		// two passes so that constants may refer to ones declared in later files
		for pass := 0; pass < 2; pass++ {
			for _, n := range names {
				f := pk.Files[n]
				if pass == 0 {
					files = append(files, f)
				}
				ast.Inspect(f, func(nd ast.Node) bool {
					if d, ok := nd.(*ast.GenDecl); ok && d.Tok == token.CONST {
						p.addDecl(d)
					}
					return true
				})
			}
		}
	}
	return p, files, fset
}

var typeMap = map[string]string{
	"uint8": "UInt8", "byte": "UInt8", "PacketType": "UInt8", "ReturnCode": "UInt8",
	"uint16": "UInt16", "uint": "Nat", "int": "Nat", "": "Nat", "transactionState": "Nat",
	"ClientState": "Nat",
}

// untyped Go constants get the type of the context the code uses them in
var typeOverride = map[string]string{
	"shortHeaderLength": "uint16", "longHeaderLength": "uint16",
	"flagsTopicIDTypeBits": "uint8", "flagsCleanSessionBit": "uint8", "flagsWillBit": "uint8",
	"flagsRetainBit": "uint8", "flagsQOSBits": "uint8", "flagsDUPBit": "uint8",
}

var toNatLemmas []string

func emitConst(sb *strings.Builder, leanName string, c constVal) {
	if t, ok := typeOverride[leanName]; ok && c.typ == "" {
		c.typ = t
	}
	defer func() {
		if lt := typeMap[c.typ]; c.typ != "Duration" && (lt == "UInt8" || lt == "UInt16") {
			fmt.Fprintf(sb, "theorem %s_toNat : %s.toNat = %s := rfl\n", leanName, leanName, c.val.String())
			toNatLemmas = append(toNatLemmas, leanName+"_toNat")
		}
	}()
	if c.typ == "Duration" {
		ms := new(big.Int).Div(c.val, big.NewInt(1e6))
		fmt.Fprintf(sb, "abbrev %s : Nat := %s -- milliseconds\n", leanName, ms.String())
		return
	}
	lt, ok := typeMap[c.typ]
	if !ok {
		lt = "Nat"
	}
	fmt.Fprintf(sb, "abbrev %s : %s := %s\n", leanName, lt, c.val.String())
}

// caseNames returns, for the first switch statement inside function fn (optionally the
// one whose tag/assign mentions `hint`), the identifiers/type names of its case clauses.
func findFunc(files []*ast.File, name string) *ast.FuncDecl {
	for _, f := range files {
		for _, d := range f.Decls {
			if fd, ok := d.(*ast.FuncDecl); ok && fd.Name.Name == name {
				return fd
			}
		}
	}
	return nil
}

func exprName(e ast.Expr) string {
	switch x := e.(type) {
	case *ast.Ident:
		return x.Name
	case *ast.SelectorExpr:
		return x.Sel.Name
	case *ast.StarExpr:
		return exprName(x.X)
	}
	return "?"
}

func switchCases(fd *ast.FuncDecl) (cases []string, hasDefault bool) {
	if fd == nil {
		return nil, false
	}
	done := false
	ast.Inspect(fd.Body, func(n ast.Node) bool {
		if done {
			return false
		}
		var body *ast.BlockStmt
		switch s := n.(type) {
		case *ast.SwitchStmt:
			body = s.Body
		case *ast.TypeSwitchStmt:
			body = s.Body
		default:
			return true
		}
		for _, c := range body.List {
			cc := c.(*ast.CaseClause)
			if cc.List == nil {
				hasDefault = true
			}
			for _, e := range cc.List {
				cases = append(cases, exprName(e))
			}
		}
		done = true
		return false
	})
	return
}

// lockFacts: for every method with receiver type `typ` in `files`: (method, lock discipline, writes shared state).
// lock discipline is "Lock" / "RLock" when the body starts with `recv[.mu].Lock()` (or RLock) immediately
// followed by `defer recv[.mu].Unlock()` (RUnlock), else "none".
func lockFacts(files []*ast.File, typ string) string {
	var rows []string
	for _, f := range files {
		for _, d := range f.Decls {
			fd, ok := d.(*ast.FuncDecl)
			if !ok || fd.Recv == nil || len(fd.Recv.List) == 0 || fd.Body == nil {
				continue
			}
			if exprName(fd.Recv.List[0].Type) != typ {
				continue
			}
			recv := ""
			if len(fd.Recv.List[0].Names) > 0 {
				recv = fd.Recv.List[0].Names[0].Name
			}
			lock := "none"
			if len(fd.Body.List) >= 2 {
				if es, ok := fd.Body.List[0].(*ast.ExprStmt); ok {
					if ce, ok := es.X.(*ast.CallExpr); ok {
						if se, ok := ce.Fun.(*ast.SelectorExpr); ok && (se.Sel.Name == "Lock" || se.Sel.Name == "RLock") && rootIdent(se.X) == recv {
							if ds, ok := fd.Body.List[1].(*ast.DeferStmt); ok {
								if se2, ok := ds.Call.Fun.(*ast.SelectorExpr); ok && rootIdent(se2.X) == recv {
									if (se.Sel.Name == "Lock" && se2.Sel.Name == "Unlock") || (se.Sel.Name == "RLock" && se2.Sel.Name == "RUnlock") {
										lock = se.Sel.Name
									}
								}
							}
						}
					}
				}
			}
			writes := false
			ast.Inspect(fd.Body, func(n ast.Node) bool {
				switch x := n.(type) {
				case *ast.AssignStmt:
					for _, l := range x.Lhs {
						if rootIdent(l) == recv && recv != "" {
							if _, isIdent := l.(*ast.Ident); !isIdent {
								writes = true
							}
						}
					}
				case *ast.IncDecStmt:
					if rootIdent(x.X) == recv {
						writes = true
					}
				case *ast.CallExpr:
					if id, ok := x.Fun.(*ast.Ident); ok && id.Name == "delete" && len(x.Args) > 0 && rootIdent(x.Args[0]) == recv {
						writes = true
					}
				}
				return true
			})
			rows = append(rows, fmt.Sprintf("(%q, %q, %v)", fd.Name.Name, lock, writes))
		}
	}
	sort.Strings(rows)
	return "[" + strings.Join(rows, ", ") + "]"
}

func rootIdent(e ast.Expr) string {
	switch x := e.(type) {
	case *ast.Ident:
		return x.Name
	case *ast.SelectorExpr:
		return rootIdent(x.X)
	case *ast.IndexExpr:
		return rootIdent(x.X)
	case *ast.StarExpr:
		return rootIdent(x.X)
	case *ast.ParenExpr:
		return rootIdent(x.X)
	}
	return ""
}

func leanStrList(xs []string) string {
	q := make([]string, len(xs))
	for i, x := range xs {
		q[i] = fmt.Sprintf("%q", x)
	}
	return "[" + strings.Join(q, ", ") + "]"
}


// ---- command-line tools: the predefined-topics pipeline and the plaintext-credentials guard

func nodeText(fset *token.FileSet, n ast.Node) string {
	var b strings.Builder
	printer.Fprint(&b, fset, n)
	return strings.Join(strings.Fields(b.String()), " ")
}

// cliFacts walks handleAction's closure: for every statement that (a) calls into package topics,
// (b) calls .Merge / .GetTopicID, or (c) assigns to predefinedTopics, it records the chain of
// enclosing if-conditions and the statement; for every `return` of an error mentioning
// "insecure" it records the chain of enclosing if-conditions.
func cliFacts(dir string) (pipeline []string, guard []string) {
	fset := token.NewFileSet()
	f, err := parser.ParseFile(fset, filepath.Join(dir, "actions.go"), nil, 0)
	if err != nil {
		return []string{"PARSE-ERROR"}, []string{"PARSE-ERROR"}
	}
	interesting := func(n ast.Node) (bool, bool) {
		pipe, grd := false, false
		ast.Inspect(n, func(x ast.Node) bool {
			switch v := x.(type) {
			case *ast.CallExpr:
				if sel, ok := v.Fun.(*ast.SelectorExpr); ok {
					if id, ok := sel.X.(*ast.Ident); ok && id.Name == "topics" {
						pipe = true
					}
					if sel.Sel.Name == "Merge" || sel.Sel.Name == "GetTopicID" {
						pipe = true
					}
				}
			case *ast.BasicLit:
				if v.Kind == token.STRING && strings.Contains(strings.ToLower(v.Value), "insecure") && strings.Contains(strings.ToLower(v.Value), "plain") {
					grd = true
				}
			}
			return true
		})
		return pipe, grd
	}
	var walk func(stmts []ast.Stmt, conds []string)
	walkStmt := func(st ast.Stmt, conds []string) {}
	walkStmt = func(st ast.Stmt, conds []string) {
		switch v := st.(type) {
		case *ast.BlockStmt:
			walk(v.List, conds)
		case *ast.IfStmt:
			c := nodeText(fset, v.Cond)
			if v.Init != nil {
				pipe, _ := interesting(v.Init)
				if pipe {
					pipeline = append(pipeline, strings.Join(conds, " && ")+" :: "+nodeText(fset, v.Init))
				}
			}
			walk(v.Body.List, append(append([]string{}, conds...), c))
			if v.Else != nil {
				walkStmt(v.Else, append(append([]string{}, conds...), "!("+c+")"))
			}
		case *ast.ForStmt:
			walk(v.Body.List, append(append([]string{}, conds...), "for"))
		case *ast.RangeStmt:
			walk(v.Body.List, append(append([]string{}, conds...), "range "+nodeText(fset, v.X)))
		case *ast.ReturnStmt:
			_, grd := interesting(v)
			if grd {
				guard = append(guard, strings.Join(conds, " && "))
			}
		default:
			pipe, _ := interesting(st)
			if as, ok := st.(*ast.AssignStmt); ok {
				for _, l := range as.Lhs {
					if id, ok := l.(*ast.Ident); ok && id.Name == "predefinedTopics" {
						pipe = true
					}
				}
			}
			if pipe {
				pipeline = append(pipeline, strings.Join(conds, " && ")+" :: "+nodeText(fset, st))
			}
		}
	}
	walk = func(stmts []ast.Stmt, conds []string) {
		for _, st := range stmts {
			walkStmt(st, conds)
		}
	}
	ast.Inspect(f, func(n ast.Node) bool {
		if fl, ok := n.(*ast.FuncLit); ok {
			// the action closure: func(c *cli.Context) error
			if fl.Type.Params != nil && len(fl.Type.Params.List) == 1 && strings.Contains(nodeText(fset, fl.Type.Params.List[0].Type), "cli.Context") {
				walk(fl.Body.List, nil)
				return false
			}
		}
		return true
	})
	return
}

// uncheckedAsserts lists every single-value type assertion x.(T) (the form that panics when the
// dynamic type differs) in the non-test files of a package, as "file:func:T", sorted.
func uncheckedAsserts(dir string) []string {
	fset := token.NewFileSet()
	pkgs, err := parser.ParseDir(fset, dir, func(fi os.FileInfo) bool { return !strings.HasSuffix(fi.Name(), "_test.go") }, 0)
	if err != nil {
		return []string{"PARSE-ERROR"}
	}
	var out []string
	for _, pkg := range pkgs {
		for fname, f := range pkg.Files {
			for _, d := range f.Decls {
				fd, ok := d.(*ast.FuncDecl)
				if !ok || fd.Body == nil {
					continue
				}
				checked := map[*ast.TypeAssertExpr]bool{}
				ast.Inspect(fd.Body, func(n ast.Node) bool {
					switch v := n.(type) {
					case *ast.AssignStmt:
						if len(v.Lhs) == 2 && len(v.Rhs) == 1 {
							if ta, ok := v.Rhs[0].(*ast.TypeAssertExpr); ok {
								checked[ta] = true
							}
						}
					case *ast.ValueSpec:
						if len(v.Names) == 2 && len(v.Values) == 1 {
							if ta, ok := v.Values[0].(*ast.TypeAssertExpr); ok {
								checked[ta] = true
							}
						}
					}
					return true
				})
				ast.Inspect(fd.Body, func(n ast.Node) bool {
					if ta, ok := n.(*ast.TypeAssertExpr); ok && ta.Type != nil && !checked[ta] {
						out = append(out, filepath.Base(fname)+":"+fd.Name.Name+":"+nodeText(fset, ta.Type))
					}
					return true
				})
			}
		}
	}
	sort.Strings(out)
	return out
}

// emissionSites lists every call of one of the handler's send functions in the non-test files of a
// package as "file:func:callee", sorted (one entry per call): the inventory of places where the code
// can put a packet on either link.  The model's emission sites (Lemmas/GwEmits.lean `Sites`, and the
// frame lemmas of the all-runs theorems) are written against this inventory.
func emissionSites(dir string, callees map[string]bool) []string {
	fset := token.NewFileSet()
	pkgs, err := parser.ParseDir(fset, dir, func(fi os.FileInfo) bool { return !strings.HasSuffix(fi.Name(), "_test.go") }, 0)
	if err != nil {
		return []string{"PARSE-ERROR"}
	}
	var out []string
	for _, pkg := range pkgs {
		for fname, f := range pkg.Files {
			for _, d := range f.Decls {
				fd, ok := d.(*ast.FuncDecl)
				if !ok || fd.Body == nil {
					continue
				}
				ast.Inspect(fd.Body, func(n ast.Node) bool {
					ce, ok := n.(*ast.CallExpr)
					if !ok {
						return true
					}
					if se, ok := ce.Fun.(*ast.SelectorExpr); ok && callees[se.Sel.Name] {
						out = append(out, filepath.Base(fname)+":"+fd.Name.Name+":"+se.Sel.Name)
					}
					return true
				})
			}
		}
	}
	sort.Strings(out)
	return out
}

// packageVars lists the package-level variables of a package (non-test files) as "name = init", sorted:
// state shared by all sessions would have to live there (or behind a pointer handed to every handler).
func packageVars(dir string) []string {
	fset := token.NewFileSet()
	pkgs, err := parser.ParseDir(fset, dir, func(fi os.FileInfo) bool { return !strings.HasSuffix(fi.Name(), "_test.go") }, 0)
	if err != nil {
		return []string{"PARSE-ERROR"}
	}
	var out []string
	for _, pkg := range pkgs {
		for _, f := range pkg.Files {
			for _, d := range f.Decls {
				gd, ok := d.(*ast.GenDecl)
				if !ok || gd.Tok != token.VAR {
					continue
				}
				for _, sp := range gd.Specs {
					vs := sp.(*ast.ValueSpec)
					for i, n := range vs.Names {
						init := ""
						if i < len(vs.Values) {
							init = nodeText(fset, vs.Values[i])
						}
						out = append(out, n.Name+" = "+init)
					}
				}
			}
		}
	}
	sort.Strings(out)
	return out
}

func main() {
	if len(os.Args) != 3 {
		fmt.Fprintln(os.Stderr, "usage: factgen <repo> <out.lean>")
		os.Exit(2)
	}
	repo, out := os.Args[1], os.Args[2]
	var sb strings.Builder
	sb.WriteString("-- GENERATED by /verif/factgen from the repository working tree. DO NOT EDIT.\n")
	sb.WriteString("namespace Bisquitt.Gen\n\n")

	pk, _, _ := loadPkg(filepath.Join(repo, "packets"))
	sb.WriteString("-- packets/\n")
	for _, n := range pk.order {
		c := pk.consts[n]
		name := n
		if c.typ == "PacketType" {
			if n == "CONNECT2" {
				continue
			}
			name = "t" + n
		}
		emitConst(&sb, name, c)
	}

	p1, files1, _ := loadPkg(filepath.Join(repo, "packets1"))
	sb.WriteString("\n-- packets1/\n")
	for _, n := range p1.order {
		if strings.HasPrefix(n, "AUTH_") {
			continue
		}
		emitConst(&sb, n, p1.consts[n])
	}
	cases, def := switchCases(findFunc(files1, "NewPacketWithHeader"))
	fmt.Fprintf(&sb, "def newPacketWithHeaderCases : List String := %s\n", leanStrList(cases))
	fmt.Fprintf(&sb, "def newPacketWithHeaderHasDefault : Bool := %v\n", def)

	gw, filesGw, _ := loadPkg(filepath.Join(repo, "gateway"))
	sb.WriteString("\n-- gateway/\n")
	for _, n := range []string{"connTimeout", "connectTransactionTimeout", "dtlsConnectTimeout"} {
		if c, ok := gw.consts[n]; ok {
			emitConst(&sb, n, c)
		} else {
			fmt.Fprintf(&sb, "-- MISSING %s\n", n)
		}
	}
	for _, fn := range []string{"handleMqttSn", "handleMqtt", "checkPacketLegal", "handleClientPublish", "handleSubscribe", "handleUnsubscribe"} {
		// the first switch in checkPacketLegal/handleMqttSn/handleMqtt is the dispatch
		cases, def := switchCases(findFunc(filesGw, fn))
		fmt.Fprintf(&sb, "def %sCases : List String := %s\n", fn, leanStrList(cases))
		fmt.Fprintf(&sb, "def %sHasDefault : Bool := %v\n", fn, def)
	}

	cl, filesCl, _ := loadPkg(filepath.Join(repo, "client"))
	sb.WriteString("\n-- client/\n")
	for _, n := range []string{"readTimeout", "maxPingrespWait"} {
		if c, ok := cl.consts[n]; ok {
			emitConst(&sb, n, c)
		} else {
			fmt.Fprintf(&sb, "-- MISSING %s\n", n)
		}
	}
	for _, fn := range []string{"handlePacket", "topicForPublish"} {
		cases, def := switchCases(findFunc(filesCl, fn))
		fmt.Fprintf(&sb, "def client_%sCases : List String := %s\n", fn, leanStrList(cases))
		fmt.Fprintf(&sb, "def client_%sHasDefault : Bool := %v\n", fn, def)
	}

	_, filesUtil, _ := loadPkg(filepath.Join(repo, "util"))
	_, filesTx, _ := loadPkg(filepath.Join(repo, "transactions"))
	sb.WriteString("\n-- lock discipline: (method, \"Lock\"|\"RLock\"|\"none\", method writes receiver state)\n")
	fmt.Fprintf(&sb, "def lockFacts_IDSequence : List (String × String × Bool) := %s\n", lockFacts(filesUtil, "IDSequence"))
	fmt.Fprintf(&sb, "def lockFacts_TransactionStore : List (String × String × Bool) := %s\n", lockFacts(filesTx, "TransactionStore"))
	fmt.Fprintf(&sb, "def lockFacts_TransactionBase : List (String × String × Bool) := %s\n", lockFacts(filesTx, "TransactionBase"))
	fmt.Fprintf(&sb, "def lockFacts_RetryTransaction : List (String × String × Bool) := %s\n", lockFacts(filesTx, "RetryTransaction"))

	sb.WriteString("\n-- single-value type assertions (they panic on a mismatch) in the packages a peer can reach\n")
	for _, pk := range []string{"gateway", "client", "transactions"} {
		fmt.Fprintf(&sb, "def uncheckedAsserts_%s : List String := %s\n", pk, leanStrList(uncheckedAsserts(filepath.Join(repo, pk))))
	}

	fmt.Fprintf(&sb, "def packageVars_gateway : List String := %s\n", leanStrList(packageVars(filepath.Join(repo, "gateway"))))

	sb.WriteString("\n-- every place where the gateway can put a packet on the broker link / the client link\n")
	fmt.Fprintf(&sb, "def mqttSendSites_gateway : List String := %s\n", leanStrList(emissionSites(filepath.Join(repo, "gateway"),
		map[string]bool{"mqttSend": true, "pingBroker": true, "ProceedMQTT": true})))
	fmt.Fprintf(&sb, "def snSendSites_gateway : List String := %s\n", leanStrList(emissionSites(filepath.Join(repo, "gateway"),
		map[string]bool{"snSend": true, "snSendNow": true, "ProceedSN": true, "flushPktBuffer": true})))

	sb.WriteString("\n-- cmd/: predefined-topics pipeline and plaintext-credentials guard of each tool\n")
	for _, tool := range []string{"bisquitt", "bisquitt-pub", "bisquitt-sub"} {
		pipe, grd := cliFacts(filepath.Join(repo, "cmd", tool))
		name := strings.ReplaceAll(tool, "-", "_")
		fmt.Fprintf(&sb, "def cliPipeline_%s : List String := %s\n", name, leanStrList(pipe))
		fmt.Fprintf(&sb, "def cliGuard_%s : List String := %s\n", name, leanStrList(grd))
	}

	sb.WriteString("\n/-- rewrites `c.toNat` to its literal for every extracted UInt8/UInt16 constant -/\n")
	sb.WriteString("macro \"gen_norm\" : tactic => `(tactic| simp only [\n  " + strings.Join(toNatLemmas, ",\n  ") + "] at *)\n")
	sb.WriteString("\nend Bisquitt.Gen\n")
	if err := os.WriteFile(out, []byte(sb.String()), 0o644); err != nil {
		fmt.Fprintln(os.Stderr, err)
		os.Exit(2)
	}
}
