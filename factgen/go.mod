module factgen

go 1.23
