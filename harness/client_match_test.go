//go:build verif

// Injected into /repo/client by `go test -overlay`. Exhaustive correspondence driver for the
// topic-filter matching used by the client's dispatch (split + match).
package client

import (
	"bufio"
	"encoding/hex"
	"fmt"
	"os"
	"testing"
)

func vmHex(s string) string {
	if s == "" {
		return "-"
	}
	return hex.EncodeToString([]byte(s))
}

func TestVerifMatch(t *testing.T) {
	outPath := os.Getenv("VERIF_OUT")
	if outPath == "" {
		t.Skip("VERIF_OUT not set")
	}
	thorough := os.Getenv("VERIF_TIER") == "thorough"
	f, err := os.Create(outPath)
	if err != nil {
		t.Fatal(err)
	}
	defer f.Close()
	w := bufio.NewWriterSize(f, 1<<20)
	defer w.Flush()
	alphabet := []byte("ab/+#")
	maxLen := 4
	if thorough {
		maxLen = 5
	}
	var all []string
	var gen func(prefix []byte)
	gen = func(prefix []byte) {
		all = append(all, string(prefix))
		if len(prefix) == maxLen {
			return
		}
		for _, c := range alphabet {
			gen(append(append([]byte{}, prefix...), c))
		}
	}
	gen(nil)
	for _, flt := range all {
		fr := split(flt)
		for _, name := range all {
			nr := split(name)
			r := 0
			if match(fr, nr) {
				r = 1
			}
			fmt.Fprintf(w, "K %s %s => %d %d %d\n", vmHex(flt), vmHex(name), r, len(fr), len(nr))
		}
	}
	// join/split as used for the handler key
	for _, flt := range all {
		fmt.Fprintf(w, "L %s => %s\n", vmHex(flt), vmHex(join(split(flt))))
	}
}
