//go:build verif

// Injected into /repo/packets1 by `go test -overlay` (never committed to /repo).
// Canonical one-line rendering of packets, shared by all verif drivers.
package packets1

import (
	"encoding/hex"
	"fmt"

	pkts "github.com/energomonitor/bisquitt/packets"
)

func vhex(b []byte) string {
	if len(b) == 0 {
		return "-"
	}
	return hex.EncodeToString(b)
}

func vb(b bool) int {
	if b {
		return 1
	}
	return 0
}

// VerifCanon renders a packet as "<type> <fields...>" (see /verif/lean/Driver/Canon.lean).
func VerifCanon(pktx pkts.Packet) string {
	switch p := pktx.(type) {
	case *Advertise:
		return fmt.Sprintf("advertise %d %d", p.GatewayID, p.Duration)
	case *SearchGw:
		return fmt.Sprintf("searchgw %d", p.Radius)
	case *GwInfo:
		return fmt.Sprintf("gwinfo %d %s", p.GatewayID, vhex(p.GatewayAddress))
	case *Auth:
		return fmt.Sprintf("auth %d %s %s", p.Reason, vhex([]byte(p.Method)), vhex(p.Data))
	case *Connect:
		return fmt.Sprintf("connect %d %d %d %d %s", vb(p.Will), vb(p.CleanSession), p.ProtocolID, p.Duration, vhex(p.ClientID))
	case *Connack:
		return fmt.Sprintf("connack %d", uint8(p.ReturnCode))
	case *WillTopicReq:
		return "willtopicreq"
	case *WillTopic:
		return fmt.Sprintf("willtopic %d %d %s", p.QOS, vb(p.Retain), vhex([]byte(p.WillTopic)))
	case *WillMsgReq:
		return "willmsgreq"
	case *WillMsg:
		return fmt.Sprintf("willmsg %s", vhex(p.WillMsg))
	case *Register:
		return fmt.Sprintf("register %d %d %s", p.TopicID, p.MessageID(), vhex([]byte(p.TopicName)))
	case *Regack:
		return fmt.Sprintf("regack %d %d %d", p.TopicID, p.MessageID(), uint8(p.ReturnCode))
	case *Publish:
		return fmt.Sprintf("publish %d %d %d %d %d %d %s", vb(p.DUP()), p.QOS, vb(p.Retain), p.TopicIDType, p.TopicID, p.MessageID(), vhex(p.Data))
	case *Puback:
		return fmt.Sprintf("puback %d %d %d", p.TopicID, p.MessageID(), uint8(p.ReturnCode))
	case *Pubcomp:
		return fmt.Sprintf("pubcomp %d", p.MessageID())
	case *Pubrec:
		return fmt.Sprintf("pubrec %d", p.MessageID())
	case *Pubrel:
		return fmt.Sprintf("pubrel %d", p.MessageID())
	case *Subscribe:
		return fmt.Sprintf("subscribe %d %d %d %d %d %s", vb(p.DUP()), p.QOS, p.TopicIDType, p.MessageID(), p.TopicID, vhex([]byte(p.TopicName)))
	case *Suback:
		return fmt.Sprintf("suback %d %d %d %d", p.QOS, p.TopicID, p.MessageID(), uint8(p.ReturnCode))
	case *Unsubscribe:
		return fmt.Sprintf("unsubscribe %d %d %d %s", p.TopicIDType, p.MessageID(), p.TopicID, vhex([]byte(p.TopicName)))
	case *Unsuback:
		return fmt.Sprintf("unsuback %d", p.MessageID())
	case *Pingreq:
		return fmt.Sprintf("pingreq %s", vhex(p.ClientID))
	case *Pingresp:
		return "pingresp"
	case *Disconnect:
		return fmt.Sprintf("disconnect %d", p.Duration)
	case *WillTopicUpd:
		return fmt.Sprintf("willtopicupd %d %d %s", p.QOS, vb(p.Retain), vhex([]byte(p.WillTopic)))
	case *WillTopicResp:
		return fmt.Sprintf("willtopicresp %d", uint8(p.ReturnCode))
	case *WillMsgUpd:
		return fmt.Sprintf("willmsgupd %s", vhex(p.WillMsg))
	case *WillMsgResp:
		return fmt.Sprintf("willmsgresp %d", uint8(p.ReturnCode))
	}
	return fmt.Sprintf("unknown %T", pktx)
}

// VerifHeader renders the embedded header as "<announced length> <header length>".
func VerifHeader(pktx pkts.Packet) string {
	type hdr interface {
		PacketLength() uint16
		HeaderLength() uint16
	}
	if h, ok := pktx.(hdr); ok {
		return fmt.Sprintf("%d %d", h.PacketLength(), h.HeaderLength())
	}
	return "? ?"
}
