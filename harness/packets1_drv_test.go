//go:build verif

// Injected into /repo/packets1 by `go test -overlay`. Codec correspondence driver:
// runs the real ReadPacket / Pack on generated inputs and writes one line per case.
package packets1

import (
	"bufio"
	"encoding/hex"
	"fmt"
	"math/rand"
	"os"
	"strconv"
	"strings"
	"testing"

	pkts "github.com/energomonitor/bisquitt/packets"
)

type dgramReader struct{ b []byte }

func (r *dgramReader) Read(p []byte) (int, error) { return copy(p, r.b), nil }

func vSafeRead(b []byte) (pkt pkts.Packet, err error, panicMsg string) {
	defer func() {
		if r := recover(); r != nil {
			panicMsg = fmt.Sprint(r)
		}
	}()
	pkt, err = ReadPacket(&dgramReader{b})
	return
}

func vSafePack(p pkts.Packet) (out []byte, panicMsg string) {
	defer func() {
		if r := recover(); r != nil {
			panicMsg = fmt.Sprint(r)
		}
	}()
	out, _ = p.Pack()
	return
}

func vDecodeResult(b []byte) string {
	pkt, err, pm := vSafeRead(b)
	if pm != "" {
		return "PANIC " + strings.ReplaceAll(pm, "\n", " ")
	}
	if err != nil {
		return "ERR"
	}
	hdr := VerifHeader(pkt)
	canon := VerifCanon(pkt)
	re, pm2 := vSafePack(pkt)
	if pm2 != "" {
		return "OK " + hdr + " | " + canon + " | PANIC"
	}
	return "OK " + hdr + " | " + canon + " | " + vhex(re)
}

var vLens = []int{0, 0, 1, 1, 2, 2, 3, 5, 8, 16, 60, 200, 245, 246, 247, 248, 249, 250, 251, 252, 253, 254, 255, 256, 257, 258, 300, 1000, 7167, 7168, 7169, 8183, 8184, 8185, 8188, 8192}

func vBytes(r *rand.Rand, n int) []byte {
	b := make([]byte, n)
	alphabet := []byte("ab/+#\x00\x01\xff")
	for i := range b {
		if r.Intn(3) == 0 {
			b[i] = byte(r.Intn(256))
		} else {
			b[i] = alphabet[r.Intn(len(alphabet))]
		}
	}
	return b
}

func vLen(r *rand.Rand) int {
	if r.Intn(40) == 0 {
		return []int{65530, 65531, 65533, 65534, 65535, 65536, 65540, 70000}[r.Intn(8)]
	}
	return vLens[r.Intn(len(vLens))]
}

func vU16(r *rand.Rand) uint16 {
	switch r.Intn(6) {
	case 0:
		return 0
	case 1:
		return 1
	case 2:
		return 0xFFFF
	case 3:
		return 0xFFFE
	case 4:
		return uint16(r.Intn(600))
	}
	return uint16(r.Intn(65536))
}

func vU8(r *rand.Rand) uint8 {
	if r.Intn(2) == 0 {
		return uint8(r.Intn(5))
	}
	return uint8(r.Intn(256))
}

// vRandPacket builds a packet with its constructor (the way gateway and client do).
func vRandPacket(r *rand.Rand, kind int) pkts.Packet {
	b := func() bool { return r.Intn(2) == 0 }
	switch kind {
	case 0:
		return NewAdvertise(vU8(r), vU16(r))
	case 1:
		return NewSearchGw(vU8(r))
	case 2:
		return NewGwInfo(vU8(r), vBytes(r, vLen(r)))
	case 3:
		p := NewAuthPlain(string(vBytes(r, vLens[r.Intn(12)])), vBytes(r, vLen(r)))
		if r.Intn(3) == 0 {
			p.Method = string(vBytes(r, []int{0, 1, 5, 253, 254, 255, 256, 300}[r.Intn(8)]))
			p.Reason = vU8(r)
		}
		return p
	case 4:
		p := NewConnect(vU16(r), vBytes(r, vLen(r)), b(), b())
		if r.Intn(10) == 0 {
			p.ProtocolID = vU8(r)
		}
		return p
	case 5:
		return NewConnack(ReturnCode(vU8(r)))
	case 6:
		return NewWillTopicReq()
	case 7:
		return NewWillTopic(string(vBytes(r, vLen(r))), vU8(r), b())
	case 8:
		return NewWillMsgReq()
	case 9:
		return NewWillMsg(vBytes(r, vLen(r)))
	case 10:
		p := NewRegister(vU16(r), string(vBytes(r, vLen(r))))
		p.SetMessageID(vU16(r))
		return p
	case 11:
		p := NewRegack(vU16(r), ReturnCode(vU8(r)))
		p.SetMessageID(vU16(r))
		return p
	case 12:
		p := NewPublish(vU16(r), vBytes(r, vLen(r)), b(), vU8(r), b(), vU8(r))
		p.SetMessageID(vU16(r))
		return p
	case 13:
		p := NewPuback(vU16(r), ReturnCode(vU8(r)))
		p.SetMessageID(vU16(r))
		return p
	case 14:
		p := NewPubcomp()
		p.SetMessageID(vU16(r))
		return p
	case 15:
		p := NewPubrec()
		p.SetMessageID(vU16(r))
		return p
	case 16:
		p := NewPubrel()
		p.SetMessageID(vU16(r))
		return p
	case 17:
		p := NewSubscribe(string(vBytes(r, vLen(r))), vU16(r), b(), vU8(r), vU8(r))
		p.SetMessageID(vU16(r))
		return p
	case 18:
		p := NewSuback(vU16(r), ReturnCode(vU8(r)), vU8(r))
		p.SetMessageID(vU16(r))
		return p
	case 19:
		p := NewUnsubscribe(string(vBytes(r, vLen(r))), vU16(r), vU8(r))
		p.SetMessageID(vU16(r))
		return p
	case 20:
		p := NewUnsuback()
		p.SetMessageID(vU16(r))
		return p
	case 21:
		return NewPingreq(vBytes(r, vLen(r)))
	case 22:
		return NewPingresp()
	case 23:
		return NewDisconnect(vU16(r))
	case 24:
		return NewWillTopicUpd(string(vBytes(r, vLen(r))), vU8(r), b())
	case 25:
		return NewWillTopicResp(ReturnCode(vU8(r)))
	case 26:
		return NewWillMsgUpd(vBytes(r, vLen(r)))
	default:
		return NewWillMsgResp(ReturnCode(vU8(r)))
	}
}

func TestVerifCodec(t *testing.T) {
	outPath := os.Getenv("VERIF_OUT")
	if outPath == "" {
		t.Skip("VERIF_OUT not set")
	}
	seed, _ := strconv.ParseInt(os.Getenv("VERIF_SEED"), 10, 64)
	thorough := os.Getenv("VERIF_TIER") == "thorough"
	f, err := os.Create(outPath)
	if err != nil {
		t.Fatal(err)
	}
	defer f.Close()
	w := bufio.NewWriterSize(f, 1<<20)
	defer w.Flush()

	emitD := func(b []byte) {
		if len(b) > MaxPacketLen {
			b = b[:MaxPacketLen] // the transport never delivers more than this
		}
		fmt.Fprintf(w, "D %s => %s\n", vhex(b), vDecodeResult(b))
	}

	// 0. corpus (lines "D <hex>") first
	if cp := os.Getenv("VERIF_CORPUS"); cp != "" {
		if cf, err := os.Open(cp); err == nil {
			sc := bufio.NewScanner(cf)
			sc.Buffer(make([]byte, 1<<20), 1<<26)
			for sc.Scan() {
				fs := strings.Fields(sc.Text())
				if len(fs) >= 2 && fs[0] == "D" {
					var b []byte
					if fs[1] != "-" {
						b, _ = hex.DecodeString(fs[1])
					}
					emitD(b)
				}
			}
			cf.Close()
		}
	}

	// 1. exhaustive short datagrams: lengths 0..2 fully; length 3 for the interesting
	//    first bytes (quick) or fully (thorough: only decoded here, no model diff -> "X" lines)
	emitD(nil)
	for a := 0; a < 256; a++ {
		emitD([]byte{byte(a)})
	}
	for a := 0; a < 256; a++ {
		for b := 0; b < 256; b++ {
			emitD([]byte{byte(a), byte(b)})
		}
	}
	firsts := []int{0, 1, 2, 3, 4, 5, 6, 255}
	for _, a := range firsts {
		for b := 0; b < 256; b++ {
			for c := 0; c < 256; c++ {
				emitD([]byte{byte(a), byte(b), byte(c)})
			}
		}
	}
	if thorough {
		// full length-3 space and the long-header length-4 space: crash check only
		npanic := 0
		buf := make([]byte, 4)
		for a := 0; a < 256; a++ {
			for b := 0; b < 256; b++ {
				for c := 0; c < 256; c++ {
					buf[0], buf[1], buf[2] = byte(a), byte(b), byte(c)
					if _, _, pm := vSafeRead(buf[:3]); pm != "" {
						npanic++
						emitD(append([]byte{}, buf[:3]...))
					}
					if a == 1 && b == 0 {
						for d := 0; d < 256; d++ {
							buf[3] = byte(d)
							if _, _, pm := vSafeRead(buf[:4]); pm != "" {
								npanic++
								emitD(append([]byte{}, buf[:4]...))
							}
						}
					}
				}
			}
		}
		fmt.Fprintf(w, "# exhaustive3 evaluated=16842752 panics=%d\n", npanic)
	}

	// 2. structured: valid packets, then mutations
	r := rand.New(rand.NewSource(seed*7919 + 1))
	n := 1500
	if thorough {
		n = 40000
	}
	for i := 0; i < n; i++ {
		kind := i % 28
		p := vRandPacket(r, kind)
		canon := VerifCanon(p)
		packed, pm := vSafePack(p)
		if pm != "" {
			fmt.Fprintf(w, "E %s => PANIC\n", canon)
			continue
		}
		if len(packed) > 20000 { // huge ones: compare bytes only through a digest-free prefix
			fmt.Fprintf(w, "E %s => %s | SKIP\n", canon, vhex(packed))
			continue
		}
		rd := packed
		if len(rd) > MaxPacketLen {
			rd = rd[:MaxPacketLen] // what a datagram read would deliver
		}
		fmt.Fprintf(w, "E %s => %s | %s\n", canon, vhex(packed), vDecodeResult(rd))

		if len(packed) > 600 && r.Intn(4) != 0 {
			continue
		}
		// mutations of the valid datagram
		m := func(b []byte) { emitD(b) }
		for cut := 0; cut <= len(packed) && cut < 12; cut++ {
			m(packed[:cut])
		}
		if len(packed) > 12 {
			m(packed[:len(packed)-1])
			m(packed[:len(packed)/2])
		}
		m(append(append([]byte{}, packed...), byte(r.Intn(256))))
		m(append(append([]byte{}, packed...), vBytes(r, 1+r.Intn(4))...))
		// perturb a byte
		if len(packed) > 0 {
			q := append([]byte{}, packed...)
			q[r.Intn(len(q))] ^= byte(1 << uint(r.Intn(8)))
			m(q)
			q = append([]byte{}, packed...)
			q[0] = byte(r.Intn(256))
			m(q)
		}
		// same body behind a long-form header (announcing the true or a random length)
		if len(packed) >= 2 && packed[0] != 1 {
			body := packed[2:]
			l := len(body) + 4
			if r.Intn(3) == 0 {
				l = r.Intn(300)
			}
			q := append([]byte{1, byte(l >> 8), byte(l), packed[1]}, body...)
			m(q)
			m(q[:3])
			m(q[:2])
		}
		// reserved / other type byte
		if len(packed) >= 2 && packed[0] != 1 {
			q := append([]byte{}, packed...)
			q[1] = byte(r.Intn(256))
			m(q)
		}
	}
	// 2b. every combination of the flag fields in their legal ranges, for each packet type that has flags
	//     (the random stream above reaches a given combination of four fields only now and then)
	emitE := func(p pkts.Packet) {
		canon := VerifCanon(p)
		packed, pm := vSafePack(p)
		if pm != "" {
			fmt.Fprintf(w, "E %s => PANIC\n", canon)
			return
		}
		fmt.Fprintf(w, "E %s => %s | %s\n", canon, vhex(packed), vDecodeResult(packed))
	}
	bools := []bool{false, true}
	for _, dup := range bools {
		for qos := uint8(0); qos <= 3; qos++ {
			for _, retain := range bools {
				for tit := uint8(0); tit <= 2; tit++ {
					p := NewPublish(vU16(r), vBytes(r, r.Intn(6)), dup, qos, retain, tit)
					p.SetMessageID(vU16(r))
					emitE(p)
				}
			}
			for tit := uint8(0); tit <= 2; tit++ {
				if qos <= 2 {
					sp := NewSubscribe(string(vBytes(r, 1+r.Intn(5))), vU16(r), dup, qos, tit)
					sp.SetMessageID(vU16(r))
					emitE(sp)
				}
			}
		}
	}
	for qos := uint8(0); qos <= 2; qos++ {
		for _, retain := range bools {
			emitE(NewWillTopic(string(vBytes(r, 1+r.Intn(5))), qos, retain))
			emitE(NewWillTopicUpd(string(vBytes(r, 1+r.Intn(5))), qos, retain))
		}
		sa := NewSuback(vU16(r), ReturnCode(uint8(r.Intn(4))), qos)
		sa.SetMessageID(vU16(r))
		emitE(sa)
	}
	for tit := uint8(0); tit <= 2; tit++ {
		up := NewUnsubscribe(string(vBytes(r, 1+r.Intn(5))), vU16(r), tit)
		up.SetMessageID(vU16(r))
		emitE(up)
	}
	for _, will := range bools {
		for _, clean := range bools {
			emitE(NewConnect(vU16(r), vBytes(r, 1+r.Intn(8)), will, clean))
		}
	}
	// AUTH method-length edge cases
	for _, ml := range []int{0, 1, 2, 5, 252, 253, 254, 255} {
		for _, bl := range []int{0, 1, 2, 3, 4, 5, 6, 7, 250, 251, 252, 253, 254, 255, 256, 257, 258, 259, 260} {
			body := append([]byte{0, byte(ml)}, vBytes(r, bl)...)
			l := len(body) + 2
			var d []byte
			if l <= 255 {
				d = append([]byte{byte(l), 3}, body...)
			} else {
				l += 2
				d = append([]byte{1, byte(l >> 8), byte(l), 3}, body...)
			}
			emitD(d)
			emitD(append([]byte{byte(bl + 4), 3, 0, byte(ml)}, body[2:]...))
		}
	}
	// short-topic coding (packets.EncodeShortTopic / DecodeShortTopic / IsShortTopic)
	emitS := func(id uint16) {
		name := pkts.DecodeShortTopic(id)
		fmt.Fprintf(w, "S %d => %s %d %d\n", id, vhex([]byte(name)), pkts.EncodeShortTopic(name), vb(pkts.IsShortTopic(name)))
	}
	if thorough {
		for i := 0; i < 65536; i++ {
			emitS(uint16(i))
		}
	} else {
		for _, i := range []int{0, 1, 0x7f, 0x80, 0xff, 0x100, 0x7fff, 0x8000, 0x80ff, 0xff80, 0xfffe, 0xffff, 0x2b23, 0x6162} {
			emitS(uint16(i))
		}
		for i := 0; i < 3000; i++ {
			emitS(uint16(r.Intn(65536)))
		}
	}
	for i := 0; i < 300; i++ {
		nm := vBytes(r, r.Intn(5))
		fmt.Fprintf(w, "N %s => %d %s %d\n", vhex(nm), pkts.EncodeShortTopic(string(nm)),
			vhex([]byte(pkts.DecodeShortTopic(pkts.EncodeShortTopic(string(nm))))), vb(pkts.IsShortTopic(string(nm))))
	}
	// 3. random noise
	for i := 0; i < n; i++ {
		l := r.Intn(14)
		b := vBytes(r, l)
		if l > 1 && r.Intn(2) == 0 {
			b[1] = byte(r.Intn(0x20))
		}
		if l > 0 && r.Intn(4) == 0 {
			b[0] = 1
		}
		if l > 3 && b[0] == 1 && r.Intn(2) == 0 {
			b[3] = byte(r.Intn(0x20))
		}
		emitD(b)
	}
}
