//go:build verif

// Injected into /repo/transactions by `go test -overlay`. Correspondence driver for
// TransactionStore: random sequential op sequences, and concurrent ones in which every
// goroutine owns its keys (its own history must then read like a sequential map).
package transactions

import (
	"bufio"
	"fmt"
	"math/rand"
	"os"
	"strconv"
	"strings"
	"sync"
	"testing"

	pkts "github.com/energomonitor/bisquitt/packets"
)

type vDummyTx struct {
	TransactionBase
	n int
}

func vStoreOps(r *rand.Rand, ts *TransactionStore, keys []uint16, types []pkts.PacketType, n int, tag int) string {
	var sb strings.Builder
	for i := 0; i < n; i++ {
		if i > 0 {
			sb.WriteString(";")
		}
		switch r.Intn(6) {
		case 0:
			k := keys[r.Intn(len(keys))]
			v := tag*1000 + i
			ts.Store(k, &vDummyTx{n: v})
			fmt.Fprintf(&sb, "s %d %d", k, v)
		case 1:
			k := keys[r.Intn(len(keys))]
			x, ok := ts.Get(k)
			if ok {
				fmt.Fprintf(&sb, "g %d=%d", k, x.(*vDummyTx).n)
			} else {
				fmt.Fprintf(&sb, "g %d=-", k)
			}
		case 2:
			k := keys[r.Intn(len(keys))]
			ts.Delete(k)
			fmt.Fprintf(&sb, "d %d", k)
		case 3:
			k := types[r.Intn(len(types))]
			v := tag*1000 + i
			ts.StoreByType(k, &vDummyTx{n: v})
			fmt.Fprintf(&sb, "S %d %d", k, v)
		case 4:
			k := types[r.Intn(len(types))]
			x, ok := ts.GetByType(k)
			if ok {
				fmt.Fprintf(&sb, "G %d=%d", k, x.(*vDummyTx).n)
			} else {
				fmt.Fprintf(&sb, "G %d=-", k)
			}
		case 5:
			k := types[r.Intn(len(types))]
			ts.DeleteByType(k)
			fmt.Fprintf(&sb, "D %d", k)
		}
	}
	return sb.String()
}

func TestVerifStore(t *testing.T) {
	outPath := os.Getenv("VERIF_OUT")
	if outPath == "" {
		t.Skip("VERIF_OUT not set")
	}
	seed, _ := strconv.ParseInt(os.Getenv("VERIF_SEED"), 10, 64)
	thorough := os.Getenv("VERIF_TIER") == "thorough"
	f, err := os.Create(outPath)
	if err != nil {
		t.Fatal(err)
	}
	defer f.Close()
	w := bufio.NewWriterSize(f, 1<<20)
	defer w.Flush()
	r := rand.New(rand.NewSource(seed*911 + 5))
	n := 500
	if thorough {
		n = 20000
	}
	for i := 0; i < n; i++ {
		ts := NewTransactionStore()
		// message IDs and packet types deliberately share numeric values (4, 22, 24)
		fmt.Fprintf(w, "T %s\n", vStoreOps(r, ts, []uint16{0, 1, 4, 22, 24, 65535}, []pkts.PacketType{4, 22, 24}, 1+r.Intn(25), 1))
	}
	// concurrent: goroutine g owns message IDs {10g, 10g+1} and packet type g
	reps := 20
	if thorough {
		reps = 400
	}
	for rep := 0; rep < reps; rep++ {
		ts := NewTransactionStore()
		const G = 8
		lines := make([]string, G)
		var wg sync.WaitGroup
		for g := 0; g < G; g++ {
			wg.Add(1)
			go func(g int) {
				defer wg.Done()
				rr := rand.New(rand.NewSource(seed + int64(rep*100+g)))
				lines[g] = vStoreOps(rr, ts, []uint16{uint16(10 * g), uint16(10*g + 1)}, []pkts.PacketType{pkts.PacketType(g)}, 200, g+1)
			}(g)
		}
		wg.Wait()
		for _, l := range lines {
			fmt.Fprintf(w, "T %s\n", l)
		}
	}
}
