//go:build verif

// Injected into /repo/transactions by `go test -overlay`.
// Mode 1 ("X" cases): the real RetryTransaction / TimedTransaction under testing/synctest
// (exact virtual time), driven by a script of timed operations; every observable event is
// logged with its virtual timestamp.
// Mode 2 ("Y" cases): real-time schedule forcing — a retry callback blocks (so the timer
// goroutine sits inside timeout()) while Success/Fail/Proceed/cancel run concurrently.
// Mode 3 ("Z"): zero/minimal timeouts in a tight real-time loop (nil-timer race).
package transactions

import (
	"bufio"
	"context"
	"errors"
	"fmt"
	"math/rand"
	"os"
	"sort"
	"strconv"
	"strings"
	"sync"
	"testing"
	"testing/synctest"
	"time"
)

type vUserErr struct{ n int }

func (e vUserErr) Error() string { return fmt.Sprintf("user%d", e.n) }

func vErrClass(e error) string {
	var u vUserErr
	switch {
	case e == nil:
		return "nil"
	case e == ErrTimeout:
		return "timeout"
	case e == ErrNoMoreRetries:
		return "nomoreretries"
	case errors.As(e, &u):
		return fmt.Sprintf("user%d", u.n)
	}
	return "other"
}

type vOp struct {
	t    int // ms
	kind string
	arg  int
}

// script syntax: P@t S@t F@t:n C@t end@t ; callback behaviour: E:k:n (k-th callback returns user n)
func vParseOps(s string) (ops []vOp, cbErr map[int]int) {
	cbErr = map[int]int{}
	for _, f := range strings.Split(s, ";") {
		f = strings.TrimSpace(f)
		if f == "" {
			continue
		}
		if strings.HasPrefix(f, "E:") {
			p := strings.Split(f, ":")
			k, _ := strconv.Atoi(p[1])
			n, _ := strconv.Atoi(p[2])
			cbErr[k] = n
			continue
		}
		at := strings.Index(f, "@")
		kind := f[:at]
		rest := f[at+1:]
		arg := 0
		if c := strings.Index(rest, ":"); c >= 0 {
			arg, _ = strconv.Atoi(rest[c+1:])
			rest = rest[:c]
		}
		tt, _ := strconv.Atoi(rest)
		ops = append(ops, vOp{tt, kind, arg})
	}
	sort.SliceStable(ops, func(i, j int) bool { return ops[i].t < ops[j].t })
	return
}

func vRunTimedCase(t *testing.T, kind string, a, b int, script string) []string {
	var mu sync.Mutex
	var out []string
	synctest.Test(t, func(t *testing.T) {
		base := time.Now()
		closed := false // set after the "final" line: the driver's own teardown is not part of the case
		logf := func(format string, args ...interface{}) {
			ms := time.Since(base).Milliseconds()
			mu.Lock()
			if !closed {
				out = append(out, fmt.Sprintf("> %d ", ms)+fmt.Sprintf(format, args...))
			}
			mu.Unlock()
		}
		ops, cbErr := vParseOps(script)
		ctx, cancel := context.WithCancel(context.Background())
		defer cancel()
		nfinally, ncb := 0, 0
		finally := func() { nfinally++; logf("finally") }
		var tx Transaction
		var rt *RetryTransaction
		if kind == "retry" {
			rt = NewRetryTransaction(ctx, time.Duration(b)*time.Millisecond, uint(a), func(data interface{}) error {
				ncb++
				logf("cb %d", ncb)
				if n, ok := cbErr[ncb]; ok {
					return vUserErr{n}
				}
				return nil
			}, finally)
			tx = rt
		} else {
			tx = NewTimedTransaction(ctx, time.Duration(a)*time.Millisecond, finally)
		}
		go func() {
			<-tx.Done()
			logf("done %s", vErrClass(tx.Err()))
		}()
		synctest.Wait()
		lastErr := "nil"
		for _, op := range ops {
			if d := time.Duration(op.t)*time.Millisecond - time.Since(base); d > 0 {
				time.Sleep(d)
			}
			synctest.Wait()
			switch op.kind {
			case "P":
				if rt != nil {
					rt.Proceed(nil, nil)
				}
			case "S":
				tx.Success()
			case "F":
				tx.Fail(vUserErr{op.arg})
			case "C":
				cancel()
			case "end":
			}
			synctest.Wait()
			if e := vErrClass(tx.Err()); e != lastErr {
				logf("err %s", e)
				lastErr = e
			}
		}
		done := false
		select {
		case <-tx.Done():
			done = true
		default:
		}
		logf("final done=%v err=%s finally=%d cbs=%d", done, vErrClass(tx.Err()), nfinally, ncb)
		mu.Lock()
		closed = true
		mu.Unlock()
		cancel()
		if rt != nil {
			rt.retryNumMutex.Lock()
			rt.stopTimer()
			rt.retryNumMutex.Unlock()
		}
		if !done {
			tx.Fail(ErrTimeout) // let the Done watcher of this driver exit
		}
		synctest.Wait()
	})
	return out
}

// Mode 2: real time. The k-th callback blocks until released; while it is blocked (timer
// goroutine inside timeout()) the given operation is started concurrently.
func vRunBlockedCase(count int, delayMs int, during string, cbFail bool) []string {
	var mu sync.Mutex
	var out []string
	logf := func(format string, args ...interface{}) {
		mu.Lock()
		out = append(out, "> "+fmt.Sprintf(format, args...))
		mu.Unlock()
	}
	ctx, cancel := context.WithCancel(context.Background())
	defer cancel()
	blocked := make(chan struct{})
	release := make(chan struct{})
	var doneSeen bool
	ncb, nfinally := 0, 0
	var rt *RetryTransaction
	rt = NewRetryTransaction(ctx, time.Duration(delayMs)*time.Millisecond, uint(count), func(data interface{}) error {
		mu.Lock()
		ncb++
		k := ncb
		after := doneSeen
		mu.Unlock()
		if after {
			logf("cbstart %d afterdone", k)
		} else {
			logf("cbstart %d", k)
		}
		if k == 1 {
			close(blocked)
			<-release
			if cbFail {
				return vUserErr{7}
			}
		}
		return nil
	}, func() {
		mu.Lock()
		nfinally++
		mu.Unlock()
		logf("finally")
	})
	var errAtDone string
	doneLogged := make(chan struct{})
	go func() {
		<-rt.Done()
		errAtDone = vErrClass(rt.Err())
		mu.Lock()
		doneSeen = true
		mu.Unlock()
		logf("done %s", errAtDone)
		close(doneLogged)
	}()
	rt.Proceed(nil, nil)
	<-blocked
	opDone := make(chan struct{})
	go func() {
		switch during {
		case "S":
			rt.Success()
		case "F":
			rt.Fail(vUserErr{3})
		case "P":
			rt.Proceed(nil, nil)
		case "C":
			cancel()
		case "SF":
			rt.Success()
			rt.Fail(vUserErr{4})
		case "FS":
			rt.Fail(vUserErr{5})
			rt.Success()
		}
		close(opDone)
	}()
	time.Sleep(time.Duration(delayMs/2) * time.Millisecond)
	close(release)
	<-opDone
	// observation window: several retry delays
	time.Sleep(time.Duration(delayMs*(count+3)) * time.Millisecond)
	select {
	case <-doneLogged:
		if e := vErrClass(rt.Err()); e != errAtDone {
			logf("errchanged %s->%s", errAtDone, e)
		}
	default:
	}
	mu.Lock()
	nf, nc := nfinally, ncb
	mu.Unlock()
	logf("final finally=%d cbs=%d", nf, nc)
	cancel()
	rt.retryNumMutex.Lock()
	rt.stopTimer()
	rt.retryNumMutex.Unlock()
	return out
}

// vRunSlowFinally: Success / Fail is called shortly before the retry deadline and its `finally`
// callback (which runs under the transaction's mutex) is still running when the retry timer fires:
// the timer callback waits for the mutex and then finds the transaction finished - it must do nothing.
func vRunSlowFinally(count int, delayMs int, op string) []string {
	var mu sync.Mutex
	var out []string
	logf := func(format string, args ...interface{}) {
		mu.Lock()
		out = append(out, "> "+fmt.Sprintf(format, args...))
		mu.Unlock()
	}
	ctx, cancel := context.WithCancel(context.Background())
	defer cancel()
	var doneSeen bool
	ncb, nfinally := 0, 0
	d := time.Duration(delayMs) * time.Millisecond
	var rt *RetryTransaction
	rt = NewRetryTransaction(ctx, d, uint(count), func(data interface{}) error {
		mu.Lock()
		ncb++
		k := ncb
		after := doneSeen
		mu.Unlock()
		if after {
			logf("cbstart %d afterdone", k)
		} else {
			logf("cbstart %d", k)
		}
		return nil
	}, func() {
		mu.Lock()
		nfinally++
		doneSeen = true // Done is closed before `finally` runs
		mu.Unlock()
		logf("finally")
		time.Sleep(2 * d)
	})
	rt.Proceed(nil, nil)
	switch op {
	case "S":
		time.Sleep(d - d/4)
		rt.Success()
	case "F":
		time.Sleep(d - d/4)
		rt.Fail(vUserErr{3})
	case "raceS", "raceF":
		// Success / Fail wins the race for the mutex against a timer callback that has already been
		// started: the body of Success / Fail is executed with the mutex taken before the deadline
		rt.retryNumMutex.Lock()
		time.Sleep(d + d/2)
		rt.stopTimer()
		if op == "raceS" {
			rt.TransactionBase.Success()
		} else {
			rt.TransactionBase.Fail(vUserErr{3})
		}
		rt.retryNumMutex.Unlock()
	}
	errAtDone := vErrClass(rt.Err())
	logf("done %s", errAtDone)
	time.Sleep(d * time.Duration(count+3))
	if e := vErrClass(rt.Err()); e != errAtDone {
		logf("errchanged %s->%s", errAtDone, e)
	}
	mu.Lock()
	nf, nc := nfinally, ncb
	mu.Unlock()
	logf("final finally=%d cbs=%d", nf, nc)
	return out
}

func TestVerifTx(t *testing.T) {
	outPath := os.Getenv("VERIF_OUT")
	if outPath == "" {
		t.Skip("VERIF_OUT not set")
	}
	seed, _ := strconv.ParseInt(os.Getenv("VERIF_SEED"), 10, 64)
	thorough := os.Getenv("VERIF_TIER") == "thorough"
	f, err := os.Create(outPath)
	if err != nil {
		t.Fatal(err)
	}
	defer f.Close()
	w := bufio.NewWriterSize(f, 1<<20)
	defer w.Flush()

	emit := func(kind string, a, b int, script string) {
		fmt.Fprintf(w, "X %s %d %d | %s\n", kind, a, b, script)
		for _, l := range vRunTimedCase(t, kind, a, b, script) {
			fmt.Fprintln(w, l)
		}
	}

	// --- mode 1a: budgets with no progress: all N in 0..6, D in {1,10,1000,10000} (C19)
	for n := 0; n <= 6; n++ {
		for _, d := range []int{1, 10, 1000, 10000} {
			emit("retry", n, d, fmt.Sprintf("P@0;end@%d", (n+3)*d+5))
			// progress (a second Proceed) at every multiple and off-multiple of D
			for k := 0; k <= n+1; k++ {
				if d >= 10 {
					emit("retry", n, d, fmt.Sprintf("P@0;P@%d;end@%d", k*d+d/2, (k+n+3)*d+d))
					emit("retry", n, d, fmt.Sprintf("P@0;S@%d;end@%d", k*d+d/2, (k+n+3)*d+d))
					emit("retry", n, d, fmt.Sprintf("P@0;F@%d:1;end@%d", k*d+d/2, (k+n+3)*d+d))
					emit("retry", n, d, fmt.Sprintf("P@0;C@%d;end@%d", k*d+d/2, (k+n+3)*d+d))
				}
			}
		}
	}
	for _, T := range []int{1, 10, 5000} {
		emit("timed", T, 0, fmt.Sprintf("end@%d", 2*T+5))
		if T >= 10 {
			emit("timed", T, 0, fmt.Sprintf("S@%d;end@%d", T/2, 2*T+5))
			emit("timed", T, 0, fmt.Sprintf("F@%d:2;end@%d", T/2, 2*T+5))
			emit("timed", T, 0, fmt.Sprintf("C@%d;end@%d", T/2, 2*T+5))
			emit("timed", T, 0, fmt.Sprintf("S@%d;F@%d:2;end@%d", T/2, T/2+1, 2*T+5))
			emit("timed", T, 0, fmt.Sprintf("S@%d;end@%d", T+T/2, 2*T+5))
			emit("timed", T, 0, fmt.Sprintf("F@%d:2;S@%d;F@%d:3;end@%d", T/2, T/2+1, T/2+2, 2*T+5))
		}
	}
	// --- mode 1b: random scripts; operation times are ≡ 5 (mod 10), delays multiples of 10: no ties
	r := rand.New(rand.NewSource(seed*6151 + 11))
	n := 400
	if thorough {
		n = 20000
	}
	for i := 0; i < n; i++ {
		cnt := r.Intn(4)
		d := []int{10, 20, 50, 100}[r.Intn(4)]
		nops := 1 + r.Intn(6)
		var parts []string
		tt := 0
		first := true
		for j := 0; j < nops; j++ {
			tt += 10*r.Intn(3*d/10+1) + 5
			if tt%10 != 5 {
				tt = tt/10*10 + 5
			}
			var k string
			if first || r.Intn(3) == 0 {
				k = "P"
				first = false
			} else {
				k = []string{"S", "F", "C", "P", "S", "F"}[r.Intn(6)]
			}
			if k == "F" {
				parts = append(parts, fmt.Sprintf("F@%d:%d", tt, 1+r.Intn(3)))
			} else {
				parts = append(parts, fmt.Sprintf("%s@%d", k, tt))
			}
		}
		if r.Intn(3) == 0 {
			parts = append(parts, fmt.Sprintf("E:%d:9", 1+r.Intn(3)))
		}
		parts = append(parts, fmt.Sprintf("end@%d", tt+(cnt+3)*d+5))
		emit("retry", cnt, d, strings.Join(parts, ";"))
		if i%4 == 0 {
			T := []int{10, 30, 100}[r.Intn(3)]
			var tp []string
			tt = 0
			for j := 0; j < 1+r.Intn(4); j++ {
				tt += 10*r.Intn(2*T/10+1) + 5
				k := []string{"S", "F", "C"}[r.Intn(3)]
				if k == "F" {
					tp = append(tp, fmt.Sprintf("F@%d:%d", tt, 1+r.Intn(3)))
				} else {
					tp = append(tp, fmt.Sprintf("%s@%d", k, tt))
				}
			}
			tp = append(tp, fmt.Sprintf("end@%d", tt+2*T+5))
			emit("timed", T, 0, strings.Join(tp, ";"))
		}
	}
	// zero delays under the virtual clock: the whole retry cascade happens at one instant
	for cnt := 0; cnt <= 3; cnt++ {
		emit("retry", cnt, 0, "P@5;end@15")
		emit("retry", cnt, 0, "P@5;S@6;end@15")
	}
	emit("timed", 0, 0, "end@5")
	emit("timed", 0, 0, "S@1;end@5")

	// --- mode 2: forced interleavings in real time
	reps := 2
	if thorough {
		reps = 10
	}
	type yc struct {
		during string
		cbFail bool
	}
	var wg sync.WaitGroup
	var ymu sync.Mutex
	for rep := 0; rep < reps; rep++ {
		for _, c := range []yc{{"S", false}, {"F", false}, {"P", false}, {"C", false}, {"SF", false}, {"FS", false}, {"S", true}, {"F", true}} {
			for _, cnt := range []int{1, 3} {
				wg.Add(1)
				go func(c yc, cnt int) {
					defer wg.Done()
					lines := vRunBlockedCase(cnt, 40, c.during, c.cbFail)
					ymu.Lock()
					fmt.Fprintf(w, "Y %d 40 %s %v\n", cnt, c.during, c.cbFail)
					for _, l := range lines {
						fmt.Fprintln(w, l)
					}
					ymu.Unlock()
				}(c, cnt)
			}
		}
		wg.Wait()
	}

	// --- mode 2b: the retry timer fires while Success / Fail is still inside its `finally` callback
	for rep := 0; rep < reps; rep++ {
		for _, op := range []string{"S", "F", "raceS", "raceF"} {
			for _, cnt := range []int{1, 3} {
				wg.Add(1)
				go func(op string, cnt int) {
					defer wg.Done()
					lines := vRunSlowFinally(cnt, 40, op)
					ymu.Lock()
					fmt.Fprintf(w, "Y %d 40 slowfinally-%s false\n", cnt, op)
					for _, l := range lines {
						fmt.Fprintln(w, l)
					}
					ymu.Unlock()
				}(op, cnt)
			}
		}
		wg.Wait()
	}

	// --- mode 3: timers that fire immediately, real time, many iterations (nil-timer race)
	iters := 200000
	if thorough {
		iters = 2000000
	}
	w.Flush() // a crash below must not lose what was written so far
	for i := 0; i < iters; i++ {
		tr := NewTimedTransaction(context.Background(), time.Duration(i%2), nil)
		if i%3 == 0 {
			tr.Success()
		}
	}
	for i := 0; i < iters/10; i++ {
		rt := NewRetryTransaction(context.Background(), time.Duration(i%2), 1, func(interface{}) error { return nil }, nil)
		rt.Proceed(nil, nil)
		if i%2 == 0 {
			rt.Success()
		}
	}
	time.Sleep(50 * time.Millisecond)
	fmt.Fprintf(w, "Z %d immediate-timer iterations without crash\n", iters)
}
