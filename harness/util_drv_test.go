//go:build verif

// Injected into /repo/util by `go test -overlay`. Correspondence driver for IDSequence:
// sequential runs over many ranges and concurrent runs (the multiset of results of N
// concurrent calls must be the first N values of the sequential sequence).
package util

import (
	"bufio"
	"fmt"
	"math/rand"
	"os"
	"sort"
	"strconv"
	"strings"
	"sync"
	"testing"
)

type vRes struct {
	id uint16
	ov bool
}

func vFmt(rs []vRes) string {
	ps := make([]string, len(rs))
	for i, r := range rs {
		o := 0
		if r.ov {
			o = 1
		}
		ps[i] = fmt.Sprintf("%d:%d", r.id, o)
	}
	return strings.Join(ps, ",")
}

func TestVerifIDSeq(t *testing.T) {
	outPath := os.Getenv("VERIF_OUT")
	if outPath == "" {
		t.Skip("VERIF_OUT not set")
	}
	seed, _ := strconv.ParseInt(os.Getenv("VERIF_SEED"), 10, 64)
	thorough := os.Getenv("VERIF_TIER") == "thorough"
	f, err := os.Create(outPath)
	if err != nil {
		t.Fatal(err)
	}
	defer f.Close()
	w := bufio.NewWriterSize(f, 1<<20)
	defer w.Flush()

	seq := func(mn, mx uint16, k int) {
		s := NewIDSequence(mn, mx)
		rs := make([]vRes, k)
		for i := range rs {
			id, ov := s.Next()
			rs[i] = vRes{id, ov}
		}
		fmt.Fprintf(w, "I %d %d %d => %s\n", mn, mx, k, vFmt(rs))
	}
	// all ranges of width <= 7 at the interesting positions, three cycles (+2 calls)
	mins := []int{0, 1, 2, 100, 255, 256, 32767, 65520, 65527, 65528, 65529, 65530, 65531, 65532, 65533, 65534, 65535}
	for _, mn := range mins {
		for wd := 0; wd <= 7; wd++ {
			mx := mn + wd
			if mx > 65535 {
				continue
			}
			seq(uint16(mn), uint16(mx), 3*(wd+1)+2)
		}
	}
	// the ranges the code base uses, across one full wrap: only the window around the wrap is printed
	wrap := func(mn, mx uint16) {
		s := NewIDSequence(mn, mx)
		n := int(mx) - int(mn) + 1
		skip := n - 3
		for i := 0; i < skip; i++ {
			s.Next()
		}
		rs := make([]vRes, 8)
		for i := range rs {
			id, ov := s.Next()
			rs[i] = vRes{id, ov}
		}
		fmt.Fprintf(w, "W %d %d %d => %s\n", mn, mx, skip, vFmt(rs))
	}
	wrap(1, 0xFFFE)
	wrap(1, 0xFFFF)
	wrap(0, 0xFFFF)
	wrap(0x8000, 0xFFFF)
	// random ranges
	r := rand.New(rand.NewSource(seed*2053 + 7))
	n := 300
	if thorough {
		n = 20000
	}
	for i := 0; i < n; i++ {
		mn := r.Intn(65536)
		mx := mn + r.Intn(40)
		if mx > 65535 {
			mx = 65535
		}
		seq(uint16(mn), uint16(mx), r.Intn(3*(mx-mn+1)+3))
	}
	// concurrent use: G goroutines, C calls each
	conc := func(mn, mx uint16, g, c int) {
		s := NewIDSequence(mn, mx)
		all := make([][]vRes, g)
		var wg sync.WaitGroup
		start := make(chan struct{})
		for gi := 0; gi < g; gi++ {
			wg.Add(1)
			go func(gi int) {
				defer wg.Done()
				<-start
				rs := make([]vRes, c)
				for i := range rs {
					id, ov := s.Next()
					rs[i] = vRes{id, ov}
				}
				all[gi] = rs
			}(gi)
		}
		close(start)
		wg.Wait()
		var flat []vRes
		for _, rs := range all {
			flat = append(flat, rs...)
		}
		sort.Slice(flat, func(i, j int) bool {
			if flat[i].id != flat[j].id {
				return flat[i].id < flat[j].id
			}
			return !flat[i].ov && flat[j].ov
		})
		fmt.Fprintf(w, "J %d %d %d => %s\n", mn, mx, g*c, vFmt(flat))
	}
	reps := 10
	if thorough {
		reps = 200
	}
	for i := 0; i < reps; i++ {
		conc(1, 5, 16, 50)
		conc(65530, 65535, 16, 40)
		conc(7, 7, 8, 20)
		conc(1, 0xFFFE, 16, 200)
		conc(10, 300, 16, 100)
	}
}
