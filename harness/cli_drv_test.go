//go:build verif

// Correspondence harness for the three command-line tools (C30, C31): the very same file is
// compiled (via -overlay) into cmd/bisquitt, cmd/bisquitt-pub and cmd/bisquitt-sub (all
// `package main`).  It runs the real `Application` with real arguments against a fake MQTT-SN
// gateway (UDP, loopback) or, for the gateway, a fake MQTT broker (TCP, loopback) plus a
// scripted MQTT-SN client, and reports which predefined topic ID / topic name the tool actually
// used for every query, and whether the tool refused to start.
package main

import (
	"bufio"
	"encoding/hex"
	"fmt"
	"net"
	"os"
	"path/filepath"
	"sort"
	"strconv"
	"strings"
	"sync"
	"syscall"
	"testing"
	"time"

	mqPkts "github.com/eclipse/paho.mqtt.golang/packets"

	pkts "github.com/energomonitor/bisquitt/packets"
	pkts1 "github.com/energomonitor/bisquitt/packets1"
)

type cliCase struct {
	kind  string // "case" | "sec"
	id    string
	kv    map[string]string
	line  string
}

func cliUnhex(s string) string {
	if s == "-" || s == "" {
		return ""
	}
	b, err := hex.DecodeString(s)
	if err != nil {
		panic(err)
	}
	return string(b)
}

func cliList(s string) []string {
	if s == "-" || s == "" {
		return nil
	}
	return strings.Split(s, ",")
}

func cliReadCases(path string) []cliCase {
	f, err := os.Open(path)
	if err != nil {
		return nil
	}
	defer f.Close()
	var out []cliCase
	sc := bufio.NewScanner(f)
	sc.Buffer(make([]byte, 1<<20), 1<<24)
	for sc.Scan() {
		fs := strings.Fields(sc.Text())
		if len(fs) < 2 || (fs[0] != "case" && fs[0] != "sec" && fs[0] != "iso") {
			continue
		}
		c := cliCase{kind: fs[0], id: fs[1], kv: map[string]string{}, line: sc.Text()}
		for _, f := range fs[2:] {
			if i := strings.IndexByte(f, '='); i > 0 {
				c.kv[f[:i]] = f[i+1:]
			}
		}
		out = append(out, c)
	}
	return out
}

// yamlQuote writes a YAML double-quoted scalar
func yamlQuote(s string) string {
	var b strings.Builder
	b.WriteByte('"')
	for _, r := range []byte(s) {
		switch {
		case r == '"' || r == '\\':
			b.WriteByte('\\')
			b.WriteByte(r)
		case r < 0x20 || r >= 0x7f:
			fmt.Fprintf(&b, "\\x%02x", r)
		default:
			b.WriteByte(r)
		}
	}
	b.WriteByte('"')
	return b.String()
}

// cliYAML renders the structured entries as a YAML file: client: {id: name}
func cliYAML(entries, nulls []string) string {
	type e struct {
		id   string
		name string
	}
	by := map[string][]e{}
	var order []string
	for _, x := range entries {
		p := strings.Split(x, ":")
		c := cliUnhex(p[0])
		if _, ok := by[c]; !ok {
			order = append(order, c)
		}
		by[c] = append(by[c], e{p[1], cliUnhex(p[2])})
	}
	var b strings.Builder
	for _, c := range order {
		fmt.Fprintf(&b, "%s:\n", yamlQuote(c))
		for _, x := range by[c] {
			fmt.Fprintf(&b, "  %s: %s\n", x.id, yamlQuote(x.name))
		}
	}
	for _, c := range nulls {
		fmt.Fprintf(&b, "%s:\n", yamlQuote(cliUnhex(c)))
	}
	return b.String()
}

func cliErrClass(err error) string {
	if err == nil {
		return "ok"
	}
	s := err.Error()
	switch {
	case strings.Contains(s, "insecure"):
		return "insecure-refused"
	case strings.Contains(s, "predefined-topic\" failed") || strings.Contains(s, "invalid format") || strings.Contains(s, "parsing"):
		return "options-parse"
	case strings.Contains(s, "yaml"):
		return "yaml"
	case strings.Contains(s, "PANIC"):
		return "panic"
	}
	return "other:" + strings.ReplaceAll(s, " ", "_")
}

// runApp runs the tool's Application with a hard time limit; a panic inside is reported as an error
func runApp(args []string, limit time.Duration) (err error, finished bool) {
	done := make(chan error, 1)
	go func() {
		defer func() {
			if r := recover(); r != nil {
				done <- fmt.Errorf("PANIC %v", r)
			}
		}()
		done <- Application.Run(args)
	}()
	select {
	case e := <-done:
		return e, true
	case <-time.After(limit):
		return nil, false
	}
}

type fakeGw struct {
	conn net.PacketConn
	mu   sync.Mutex
	seen []string // "P<id>" | "N<hexname>" | "S<hex short>" for SUBSCRIBE / PUBLISH / REGISTER
	auth int
	conn1 int
}

func newFakeGw() *fakeGw {
	conn, err := net.ListenPacket("udp", "127.0.0.1:0")
	if err != nil {
		panic(err)
	}
	g := &fakeGw{conn: conn}
	go g.loop()
	return g
}

func (g *fakeGw) port() int { return g.conn.LocalAddr().(*net.UDPAddr).Port }

func (g *fakeGw) note(s string) {
	g.mu.Lock()
	g.seen = append(g.seen, s)
	g.mu.Unlock()
}

func (g *fakeGw) loop() {
	buf := make([]byte, 9000)
	for {
		n, addr, err := g.conn.ReadFrom(buf)
		if err != nil {
			return
		}
		raw := append([]byte(nil), buf[:n]...)
		var h pkts.Header
		if err := h.Unpack(raw); err != nil {
			continue
		}
		pkt, err := pkts1.NewPacketWithHeader(h)
		if err != nil {
			continue
		}
		if err := pkt.Unpack(raw[h.HeaderLength():]); err != nil {
			continue
		}
		var reply pkts.Packet
		switch p := pkt.(type) {
		case *pkts1.Connect:
			g.mu.Lock()
			g.conn1++
			g.mu.Unlock()
			reply = pkts1.NewConnack(pkts1.RC_ACCEPTED)
		case *pkts1.Auth:
			g.mu.Lock()
			g.auth++
			g.mu.Unlock()
		case *pkts1.Subscribe:
			switch p.TopicIDType {
			case pkts1.TIT_PREDEFINED:
				g.note(fmt.Sprintf("P%d", p.TopicID))
			case pkts1.TIT_STRING:
				g.note("N" + hex.EncodeToString([]byte(p.TopicName)))
			default:
				g.note(fmt.Sprintf("S%04x", p.TopicID))
			}
			tid := p.TopicID
			if p.TopicIDType == pkts1.TIT_STRING {
				tid = 1000
			}
			sa := pkts1.NewSuback(tid, pkts1.RC_ACCEPTED, p.QOS)
			sa.SetMessageID(p.MessageID())
			reply = sa
		case *pkts1.Register:
			g.note("N" + hex.EncodeToString([]byte(p.TopicName)))
			ra := pkts1.NewRegack(1001, pkts1.RC_ACCEPTED)
			ra.SetMessageID(p.MessageID())
			reply = ra
		case *pkts1.Publish:
			switch p.TopicIDType {
			case pkts1.TIT_PREDEFINED:
				g.note(fmt.Sprintf("P%d", p.TopicID))
			case pkts1.TIT_SHORT:
				g.note(fmt.Sprintf("S%04x", p.TopicID))
			}
		case *pkts1.Pingreq:
			reply = pkts1.NewPingresp()
		case *pkts1.Disconnect:
			reply = pkts1.NewDisconnect(0)
		}
		if reply != nil {
			if data, err := reply.Pack(); err == nil {
				g.conn.WriteTo(data, addr)
			}
		}
	}
}

func (g *fakeGw) waitSeen(n int, limit time.Duration) []string {
	dl := time.Now().Add(limit)
	for time.Now().Before(dl) {
		g.mu.Lock()
		k := len(g.seen)
		g.mu.Unlock()
		if k >= n {
			break
		}
		time.Sleep(2 * time.Millisecond)
	}
	g.mu.Lock()
	defer g.mu.Unlock()
	return append([]string(nil), g.seen...)
}

// predefined-topics arguments shared by all tools
func cliTopicArgs(t *testing.T, c cliCase, dir string, n int) []string {
	var args []string
	entries, nulls := cliList(c.kv["yaml"]), cliList(c.kv["nulls"])
	if c.kv["yaml"] != "-" || len(nulls) > 0 {
		file := filepath.Join(dir, fmt.Sprintf("topics-%d.yaml", n))
		if err := os.WriteFile(file, []byte(cliYAML(entries, nulls)), 0o600); err != nil {
			t.Fatal(err)
		}
		args = append(args, "--predefined-topics-file", file)
	}
	for _, o := range cliList(c.kv["opts"]) {
		args = append(args, "--predefined-topic", cliUnhex(o))
	}
	return args
}

func TestVerifCLI(t *testing.T) {
	outPath := os.Getenv("VERIF_OUT")
	if outPath == "" {
		t.Skip("VERIF_OUT not set")
	}
	tool := map[string]string{"bisquitt": "gw", "bisquitt-pub": "pub", "bisquitt-sub": "sub"}[Application.Name]
	f, err := os.Create(outPath + "." + tool)
	if err != nil {
		t.Fatal(err)
	}
	defer f.Close()
	w := bufio.NewWriter(f)
	defer w.Flush()
	dir := t.TempDir()
	cases := cliReadCases(os.Getenv("VERIF_CASES"))
	for n, c := range cases {
		// the case is echoed before its results, for the model driver
		fmt.Fprintln(w, c.line)
		switch {
		case c.kind == "sec":
			cliSecurity(t, w, tool, c)
		case c.kind == "iso":
			if tool == "gw" {
				cliIsolation(t, w, c)
			}
		case tool == "sub":
			cliSub(t, w, c, dir, n)
		case tool == "pub":
			cliPub(t, w, c, dir, n)
		case tool == "gw":
			cliGateway(t, w, c, dir, n)
		}
		w.Flush()
	}
}

func cliAnswers(names []string, seen []string) string {
	var parts []string
	for i, nm := range names {
		a := "-"
		if i < len(seen) {
			a = seen[i]
			if strings.HasPrefix(a, "N") {
				if a[1:] == nm {
					a = "N"
				} else {
					a = "N!" + a[1:]
				}
			}
		}
		parts = append(parts, nm+"="+a)
	}
	return strings.Join(parts, ",")
}

func cliSub(t *testing.T, w *bufio.Writer, c cliCase, dir string, n int) {
	names := cliList(c.kv["names"])
	if len(names) == 0 {
		return
	}
	g := newFakeGw()
	defer g.conn.Close()
	args := []string{"bisquitt-sub", "--host", "127.0.0.1", "--port", strconv.Itoa(g.port()), "--client-id", cliUnhex(c.kv["cid"])}
	args = append(args, cliTopicArgs(t, c, dir, n)...)
	for _, nm := range names {
		args = append(args, "--topic", cliUnhex(nm))
	}
	errc := make(chan error, 1)
	fin := make(chan bool, 1)
	go func() {
		e, ok := runApp(args, 20*time.Second)
		errc <- e
		fin <- ok
	}()
	// the tool subscribes and then waits for messages: give it until all SUBSCRIBEs arrived, then
	// tell it to quit (SIGTERM, as an operator would)
	var seen []string
	select {
	case e := <-errc:
		<-fin
		fmt.Fprintf(w, "R %s sub err %s\n", c.id, cliErrClass(e))
		return
	case <-time.After(0):
	}
	dl := time.Now().Add(5 * time.Second)
	for time.Now().Before(dl) {
		seen = g.waitSeen(len(names), 20*time.Millisecond)
		if len(seen) >= len(names) {
			break
		}
		select {
		case e := <-errc:
			<-fin
			fmt.Fprintf(w, "R %s sub err %s\n", c.id, cliErrClass(e))
			return
		default:
		}
	}
	syscall.Kill(os.Getpid(), syscall.SIGTERM)
	select {
	case <-errc:
		<-fin
	case <-time.After(10 * time.Second):
		fmt.Fprintf(w, "R %s sub err hang\n", c.id)
		return
	}
	fmt.Fprintf(w, "R %s sub map %s\n", c.id, cliAnswers(names, seen))
}

func cliPub(t *testing.T, w *bufio.Writer, c cliCase, dir string, n int) {
	names := cliList(c.kv["names"])
	if len(names) == 0 {
		return
	}
	var seenAll []string
	for k, nm := range names {
		g := newFakeGw()
		args := []string{"bisquitt-pub", "--host", "127.0.0.1", "--port", strconv.Itoa(g.port()), "--client-id", cliUnhex(c.kv["cid"]),
			"--topic", cliUnhex(nm), "--message", "m"}
		args = append(args, cliTopicArgs(t, c, dir, n*100+k)...)
		e, ok := runApp(args, 20*time.Second)
		seen := g.waitSeen(1, 50*time.Millisecond)
		g.conn.Close()
		if !ok {
			fmt.Fprintf(w, "R %s pub err hang\n", c.id)
			return
		}
		if e != nil {
			fmt.Fprintf(w, "R %s pub err %s\n", c.id, cliErrClass(e))
			return
		}
		if len(seen) > 0 {
			seenAll = append(seenAll, seen[0])
		} else {
			seenAll = append(seenAll, "-")
		}
	}
	fmt.Fprintf(w, "R %s pub map %s\n", c.id, cliAnswers(names, seenAll))
}

// ---- the gateway: fake broker + scripted client

type fakeBroker struct {
	ln     net.Listener
	mu     sync.Mutex
	topics []string
	conns  []net.Conn
}

func newFakeBroker() *fakeBroker {
	ln, err := net.Listen("tcp", "127.0.0.1:0")
	if err != nil {
		panic(err)
	}
	b := &fakeBroker{ln: ln}
	go func() {
		for {
			c, err := ln.Accept()
			if err != nil {
				return
			}
			b.mu.Lock()
			b.conns = append(b.conns, c)
			b.mu.Unlock()
			go b.serve(c)
		}
	}()
	return b
}

func (b *fakeBroker) serve(c net.Conn) {
	for {
		p, err := mqPkts.ReadPacket(c)
		if err != nil {
			return
		}
		switch m := p.(type) {
		case *mqPkts.ConnectPacket:
			ack := mqPkts.NewControlPacket(mqPkts.Connack).(*mqPkts.ConnackPacket)
			ack.Write(c)
		case *mqPkts.PublishPacket:
			b.mu.Lock()
			b.topics = append(b.topics, m.TopicName)
			b.mu.Unlock()
		case *mqPkts.PingreqPacket:
			mqPkts.NewControlPacket(mqPkts.Pingresp).Write(c)
		}
	}
}

func (b *fakeBroker) publish(topic string) {
	b.mu.Lock()
	defer b.mu.Unlock()
	for _, c := range b.conns {
		p := mqPkts.NewControlPacket(mqPkts.Publish).(*mqPkts.PublishPacket)
		p.TopicName = topic
		p.Payload = []byte("m")
		p.Write(c)
	}
}

func (b *fakeBroker) close() {
	b.ln.Close()
	b.mu.Lock()
	for _, c := range b.conns {
		c.Close()
	}
	b.mu.Unlock()
}

func snRead(conn net.Conn, limit time.Duration) pkts.Packet {
	conn.SetReadDeadline(time.Now().Add(limit))
	p, err := pkts1.ReadPacket(conn)
	if err != nil {
		return nil
	}
	return p
}

func freeUDPPort() int {
	c, err := net.ListenPacket("udp", "127.0.0.1:0")
	if err != nil {
		panic(err)
	}
	defer c.Close()
	return c.LocalAddr().(*net.UDPAddr).Port
}

func cliGateway(t *testing.T, w *bufio.Writer, c cliCase, dir string, n int) {
	names, ids := cliList(c.kv["names"]), cliList(c.kv["ids"])
	br := newFakeBroker()
	defer br.close()
	port := freeUDPPort()
	args := []string{"bisquitt", "--host", "127.0.0.1", "--port", strconv.Itoa(port),
		"--mqtt-host", "127.0.0.1", "--mqtt-port", strconv.Itoa(br.ln.Addr().(*net.TCPAddr).Port)}
	args = append(args, cliTopicArgs(t, c, dir, n)...)
	errc := make(chan error, 1)
	go func() {
		e, _ := runApp(args, 60*time.Second)
		errc <- e
	}()
	stop := func() {
		syscall.Kill(os.Getpid(), syscall.SIGTERM)
		select {
		case <-errc:
		case <-time.After(10 * time.Second):
		}
	}
	// connect a client (retry while the gateway is starting)
	var conn net.Conn
	connected := false
	for try := 0; try < 100 && !connected; try++ {
		select {
		case e := <-errc:
			fmt.Fprintf(w, "R %s gw err %s\n", c.id, cliErrClass(e))
			return
		default:
		}
		cc, err := net.Dial("udp", fmt.Sprintf("127.0.0.1:%d", port))
		if err != nil {
			time.Sleep(20 * time.Millisecond)
			continue
		}
		co := pkts1.NewConnect(60, []byte(cliUnhex(c.kv["cid"])), false, true)
		data, _ := co.Pack()
		cc.Write(data)
		if p := snRead(cc, 100*time.Millisecond); p != nil {
			if ca, ok := p.(*pkts1.Connack); ok && ca.ReturnCode == pkts1.RC_ACCEPTED {
				conn = cc
				connected = true
				break
			}
		}
		cc.Close()
		time.Sleep(20 * time.Millisecond) // the gateway may not be listening yet
	}
	if !connected {
		stop()
		fmt.Fprintf(w, "R %s gw err no-connack\n", c.id)
		return
	}
	defer conn.Close()
	var parts []string
	// client -> broker: PUBLISH QoS 0 with each predefined ID; the broker reports the topic name
	for _, id := range ids {
		v, _ := strconv.Atoi(id)
		before := func() int { br.mu.Lock(); defer br.mu.Unlock(); return len(br.topics) }()
		pub := pkts1.NewPublish(uint16(v), []byte("m"), false, 0, false, pkts1.TIT_PREDEFINED)
		data, _ := pub.Pack()
		conn.Write(data)
		got := "U"
		for k := 0; k < 100; k++ {
			br.mu.Lock()
			if len(br.topics) > before {
				got = hex.EncodeToString([]byte(br.topics[before]))
			}
			br.mu.Unlock()
			if got != "U" {
				break
			}
			time.Sleep(3 * time.Millisecond)
		}
		parts = append(parts, "id"+id+"="+got)
		if got == "U" {
			// the gateway closes the session on an unknown predefined ID: connect again
			conn.Close()
			cc, _ := net.Dial("udp", fmt.Sprintf("127.0.0.1:%d", port))
			co := pkts1.NewConnect(60, []byte(cliUnhex(c.kv["cid"])), false, true)
			data, _ := co.Pack()
			cc.Write(data)
			snRead(cc, 300*time.Millisecond)
			conn = cc
		}
	}
	// broker -> client: a message on each name; the client sees PUBLISH(predefined id) or REGISTER
	for _, nm := range names {
		br.publish(cliUnhex(nm))
		a := "-"
		for k := 0; k < 4 && a == "-"; k++ {
			p := snRead(conn, 300*time.Millisecond)
			switch m := p.(type) {
			case *pkts1.Publish:
				if m.TopicIDType == pkts1.TIT_PREDEFINED {
					a = fmt.Sprintf("P%d", m.TopicID)
				} else {
					a = fmt.Sprintf("T%d:%d", m.TopicIDType, m.TopicID)
				}
			case *pkts1.Register:
				if m.TopicName == cliUnhex(nm) {
					a = "N"
				} else {
					a = "N!" + hex.EncodeToString([]byte(m.TopicName))
				}
				ra := pkts1.NewRegack(m.TopicID, pkts1.RC_ACCEPTED)
				ra.CopyMessageID(m)
				data, _ := ra.Pack()
				conn.Write(data)
				snRead(conn, 300*time.Millisecond) // the PUBLISH that follows
			}
		}
		parts = append(parts, nm+"="+a)
	}
	stop()
	sort.Strings(parts[:0])
	fmt.Fprintf(w, "R %s gw map %s\n", c.id, strings.Join(parts, ","))
}

// ---- C15: sessions are isolated. One observed client runs a fixed conversation through the real
// gateway (Application.Run, accept loop included); the conversation is run alone and again with a
// second, disruptive client in between. What the observed client receives, and what the broker
// receives on ITS connection, must be the same.

type isoBroker struct {
	ln    net.Listener
	mu    sync.Mutex
	conns map[string]net.Conn // MQTT client ID -> connection
	log   map[string][]string // MQTT client ID -> what the broker saw
}

func newIsoBroker() *isoBroker {
	ln, err := net.Listen("tcp", "127.0.0.1:0")
	if err != nil {
		panic(err)
	}
	b := &isoBroker{ln: ln, conns: map[string]net.Conn{}, log: map[string][]string{}}
	go func() {
		for {
			c, err := ln.Accept()
			if err != nil {
				return
			}
			go b.serve(c)
		}
	}()
	return b
}

func (b *isoBroker) note(id, s string) {
	b.mu.Lock()
	b.log[id] = append(b.log[id], s)
	b.mu.Unlock()
}

func (b *isoBroker) serve(c net.Conn) {
	id := "?"
	defer func() { b.note(id, "closed") }()
	for {
		p, err := mqPkts.ReadPacket(c)
		if err != nil {
			return
		}
		switch m := p.(type) {
		case *mqPkts.ConnectPacket:
			id = m.ClientIdentifier
			b.mu.Lock()
			b.conns[id] = c
			b.mu.Unlock()
			b.note(id, fmt.Sprintf("connect user=%q pass=%q will=%v wt=%q wm=%q", m.Username, string(m.Password), m.WillFlag, m.WillTopic, string(m.WillMessage)))
			mqPkts.NewControlPacket(mqPkts.Connack).Write(c)
		case *mqPkts.SubscribePacket:
			b.note(id, fmt.Sprintf("subscribe %v", m.Topics))
			a := mqPkts.NewControlPacket(mqPkts.Suback).(*mqPkts.SubackPacket)
			a.MessageID = m.MessageID
			a.ReturnCodes = []byte{m.Qoss[0]}
			a.Write(c)
		case *mqPkts.PublishPacket:
			b.note(id, fmt.Sprintf("publish %q %q", m.TopicName, string(m.Payload)))
			if m.Qos == 1 {
				a := mqPkts.NewControlPacket(mqPkts.Puback).(*mqPkts.PubackPacket)
				a.MessageID = m.MessageID
				a.Write(c)
			}
		case *mqPkts.PingreqPacket:
			b.note(id, "pingreq")
			mqPkts.NewControlPacket(mqPkts.Pingresp).Write(c)
		case *mqPkts.DisconnectPacket:
			b.note(id, "disconnect")
		}
	}
}

func (b *isoBroker) publishTo(id, topic string) {
	b.mu.Lock()
	c := b.conns[id]
	b.mu.Unlock()
	if c == nil {
		return
	}
	p := mqPkts.NewControlPacket(mqPkts.Publish).(*mqPkts.PublishPacket)
	p.TopicName = topic
	p.Payload = []byte("from-broker")
	p.Write(c)
}

type isoClient struct {
	conn net.Conn
	log  []string
}

func (c *isoClient) send(p pkts.Packet) {
	if data, err := p.Pack(); err == nil {
		c.conn.Write(data)
	}
}

// recv waits for one packet and records it
func (c *isoClient) recv() pkts.Packet {
	p := snRead(c.conn, 700*time.Millisecond)
	if p == nil {
		c.log = append(c.log, "<nothing>")
		return nil
	}
	c.log = append(c.log, fmt.Sprintf("%v", p))
	return p
}

func cliIsolation(t *testing.T, w *bufio.Writer, c cliCase) {
	run := func(withB bool, bFirst bool) (string, bool) {
		br := newIsoBroker()
		defer br.ln.Close()
		port := freeUDPPort()
		args := []string{"bisquitt", "--host", "127.0.0.1", "--port", strconv.Itoa(port), "--auth", "--insecure",
			"--mqtt-host", "127.0.0.1", "--mqtt-port", strconv.Itoa(br.ln.Addr().(*net.TCPAddr).Port),
			"--mqtt-user", "gwuser", "--mqtt-password", "gwpassword0"}
		errc := make(chan error, 1)
		go func() {
			e, _ := runApp(args, 60*time.Second)
			errc <- e
		}()
		defer func() {
			syscall.Kill(os.Getpid(), syscall.SIGTERM)
			select {
			case <-errc:
			case <-time.After(10 * time.Second):
			}
		}()
		dial := func() *isoClient {
			for try := 0; try < 200; try++ {
				cc, err := net.Dial("udp", fmt.Sprintf("127.0.0.1:%d", port))
				if err == nil {
					// probe: the gateway answers a PINGREQ-less nothing; just make sure the port is open
					return &isoClient{conn: cc}
				}
				time.Sleep(10 * time.Millisecond)
			}
			return nil
		}
		time.Sleep(150 * time.Millisecond) // the gateway starts listening
		a, b := dial(), dial()
		defer a.conn.Close()
		defer b.conn.Close()
		pb := cliUnhex(c.kv["pb"])
		bConnect := func() {
			if !withB {
				return
			}
			b.send(pkts1.NewConnect(60, []byte("isoB"), false, true))
			b.send(pkts1.NewAuthPlain("userB", []byte(pb)))
			b.recv()
		}
		bNoise := func() {
			if !withB {
				return
			}
			for _, n := range []string{"iso/a", "x/1", "x/2"} {
				r := pkts1.NewRegister(0, n)
				r.SetMessageID(7)
				b.send(r)
				b.recv()
			}
			s := pkts1.NewSubscribe("#", 0, false, 1, pkts1.TIT_STRING)
			s.SetMessageID(8)
			b.send(s)
			b.recv()
			b.conn.Write([]byte{3, 4, 1})
			b.conn.Write([]byte{1})
		}
		bDie := func() {
			if !withB {
				return
			}
			if c.kv["bdies"] == "disconnect" {
				b.send(pkts1.NewDisconnect(0))
			} else {
				b.send(pkts1.NewPublish(999, []byte("x"), false, 0, false, pkts1.TIT_REGISTERED)) // unknown topic ID: session error
			}
			b.recv()
			time.Sleep(300 * time.Millisecond) // B's session goroutines end
		}
		if bFirst {
			bConnect()
		}
		// --- the observed conversation
		a.send(pkts1.NewConnect(60, []byte("isoA"), true, true))
		a.send(pkts1.NewAuthPlain("userA", []byte("passA")))
		a.recv() // WILLTOPICREQ
		if !bFirst {
			bConnect()
		}
		a.send(pkts1.NewWillTopic("will/a", 1, false))
		a.recv() // WILLMSGREQ
		a.send(pkts1.NewWillMsg([]byte("bye")))
		a.recv() // CONNACK
		r := pkts1.NewRegister(0, "iso/a")
		r.SetMessageID(1)
		a.send(r)
		var tid uint16
		if ra, ok := a.recv().(*pkts1.Regack); ok {
			tid = ra.TopicID
		}
		bNoise()
		s := pkts1.NewSubscribe("iso/+", 0, false, 1, pkts1.TIT_STRING)
		s.SetMessageID(2)
		a.send(s)
		a.recv()
		p := pkts1.NewPublish(tid, []byte("hello"), false, 1, false, pkts1.TIT_REGISTERED)
		p.SetMessageID(3)
		a.send(p)
		a.recv()
		bDie()
		br.publishTo("isoA", "iso/new")
		if rg, ok := a.recv().(*pkts1.Register); ok {
			ack := pkts1.NewRegack(rg.TopicID, pkts1.RC_ACCEPTED)
			ack.CopyMessageID(rg)
			a.send(ack)
			a.recv()
		}
		a.send(pkts1.NewPingreq(nil))
		a.recv()
		a.send(pkts1.NewDisconnect(0))
		a.recv()
		time.Sleep(200 * time.Millisecond)
		br.mu.Lock()
		bl := strings.Join(br.log["isoA"], " ; ")
		br.mu.Unlock()
		return strings.Join(a.log, " ; ") + " || broker: " + bl, true
	}
	alone, _ := run(false, false)
	with, _ := run(true, c.kv["order"] == "bfirst")
	same := 0
	if alone == with {
		same = 1
	}
	fmt.Fprintf(w, "R %s gw iso same=%d alone=%s with=%s\n", c.id, same, hex.EncodeToString([]byte(alone)), hex.EncodeToString([]byte(with)))
}

// ---- C31: refusal to start with plaintext credentials

func cliSecurity(t *testing.T, w *bufio.Writer, tool string, c cliCase) {
	var args []string
	var g *fakeGw
	var br *fakeBroker
	switch tool {
	case "gw":
		br = newFakeBroker()
		defer br.close()
		args = []string{"bisquitt", "--host", "127.0.0.1", "--port", strconv.Itoa(freeUDPPort()),
			"--mqtt-host", "127.0.0.1", "--mqtt-port", strconv.Itoa(br.ln.Addr().(*net.TCPAddr).Port)}
		if c.kv["creds"] == "1" {
			args = append(args, "--auth")
		}
	default:
		g = newFakeGw()
		defer g.conn.Close()
		args = []string{"bisquitt-" + tool, "--host", "127.0.0.1", "--port", strconv.Itoa(g.port()), "--client-id", "sec", "--topic", "ab"}
		if tool == "pub" {
			args = append(args, "--message", "m")
		}
		if c.kv["creds"] == "1" {
			args = append(args, "--user", "u", "--password", "p")
		}
	}
	switch c.kv["dtls"] {
	case "false":
		args = append(args, "--dtls=false")
	}
	if c.kv["insecure"] == "1" {
		args = append(args, "--insecure")
	}
	errc := make(chan error, 1)
	go func() {
		e, _ := runApp(args, 30*time.Second)
		errc <- e
	}()
	// refused: the action returns the "insecure" error at once; started: it begins to talk / listen
	res := ""
	select {
	case e := <-errc:
		if cliErrClass(e) == "insecure-refused" {
			res = "refused"
		} else {
			res = "started:" + cliErrClass(e)
		}
	case <-time.After(400 * time.Millisecond):
		res = "started"
		syscall.Kill(os.Getpid(), syscall.SIGTERM)
		select {
		case <-errc:
		case <-time.After(10 * time.Second):
		}
	}
	if strings.HasPrefix(res, "started") {
		res = "started"
	}
	authSeen := 0
	if g != nil {
		g.mu.Lock()
		authSeen = g.auth
		g.mu.Unlock()
	}
	fmt.Fprintf(w, "R %s %s start %s auth=%d\n", c.id, tool, res, authSeen)
}
