//go:build verif

// Injected into /repo/topics by `go test -overlay`. Correspondence driver for
// PredefinedTopics (Add / GetTopicName / GetTopicID / Merge / ParsePredefinedTopicOptions).
package topics

import (
	"bufio"
	"encoding/hex"
	"fmt"
	"math/rand"
	"os"
	"sort"
	"strconv"
	"strings"
	"testing"
)

func thex(s string) string {
	if len(s) == 0 {
		return "-"
	}
	return hex.EncodeToString([]byte(s))
}

type tAdd struct {
	c, n string
	id   uint16
}

func tAdds(as []tAdd) string {
	if len(as) == 0 {
		return "-"
	}
	ps := make([]string, len(as))
	for i, a := range as {
		ps[i] = fmt.Sprintf("%s:%d:%s", thex(a.c), a.id, thex(a.n))
	}
	return strings.Join(ps, ",")
}

func tBuild(as []tAdd) PredefinedTopics {
	t := PredefinedTopics{}
	for _, a := range as {
		t.Add(a.c, a.n, a.id)
	}
	return t
}

func tCanon(t PredefinedTopics) string {
	var ps []string
	for c, m := range t {
		for id, n := range m {
			ps = append(ps, fmt.Sprintf("%s:%05d:%s", thex(c), id, thex(n)))
		}
	}
	if len(ps) == 0 {
		return "-"
	}
	sort.Strings(ps)
	return strings.Join(ps, ",")
}

func TestVerifTopics(t *testing.T) {
	outPath := os.Getenv("VERIF_OUT")
	if outPath == "" {
		t.Skip("VERIF_OUT not set")
	}
	seed, _ := strconv.ParseInt(os.Getenv("VERIF_SEED"), 10, 64)
	thorough := os.Getenv("VERIF_TIER") == "thorough"
	f, err := os.Create(outPath)
	if err != nil {
		t.Fatal(err)
	}
	defer f.Close()
	w := bufio.NewWriterSize(f, 1<<20)
	defer w.Flush()

	qName := func(as []tAdd, c string, id uint16) {
		n, ok := tBuild(as).GetTopicName(c, id)
		r := "none"
		if ok {
			r = "some " + thex(n)
		}
		fmt.Fprintf(w, "Q %s ; name %s %d => %s\n", tAdds(as), thex(c), id, r)
	}
	qID := func(as []tAdd, c string, n string) {
		// map iteration order varies: ask several times and report every distinct answer
		seen := map[string]bool{}
		var rs []string
		for k := 0; k < 6; k++ {
			id, ok := tBuild(as).GetTopicID(c, n)
			r := "none"
			if ok {
				r = fmt.Sprintf("some %d", id)
			}
			if !seen[r] {
				seen[r] = true
				rs = append(rs, r)
			}
		}
		sort.Strings(rs)
		for _, r := range rs {
			fmt.Fprintf(w, "Q %s ; id %s %s => %s\n", tAdds(as), thex(c), thex(n), r)
		}
	}

	// 1. exhaustive small universe: clients c1, c2, "*"; IDs 1,2; names x,y (3^6 configurations),
	//    every query
	clients := []string{"c1", "c2", "*"}
	names := []string{"x", "y"}
	for code := 0; code < 729; code++ {
		var as []tAdd
		cc := code
		for _, c := range clients {
			for id := uint16(1); id <= 2; id++ {
				v := cc % 3
				cc /= 3
				if v > 0 {
					as = append(as, tAdd{c, names[v-1], id})
				}
			}
		}
		for _, c := range []string{"c1", "c2", "*", "c3"} {
			for id := uint16(1); id <= 3; id++ {
				qName(as, c, id)
			}
			for _, n := range []string{"x", "y", "z"} {
				qID(as, c, n)
			}
		}
	}
	// the repository's own testdata (shadowing of a "*" entry)
	td := []tAdd{{"*", "device/any/data", 1}, {"*", "device/any/status", 2},
		{"client1", "device/000001/data", 1}, {"client1", "device/000001/config", 3}}
	for _, c := range []string{"client1", "client2", "*"} {
		for id := uint16(0); id <= 4; id++ {
			qName(td, c, id)
		}
		for _, n := range []string{"device/any/data", "device/any/status", "device/000001/data", "device/000001/config", "nope"} {
			qID(td, c, n)
		}
	}

	// 2. random larger configurations with overwrites
	r := rand.New(rand.NewSource(seed*104729 + 3))
	cu := []string{"c1", "c2", "*", "", "client/with;semi", "c\x00"}
	nu := []string{"a/b", "ab", "x", "y", "#", "", "a/+/c"}
	n := 1500
	if thorough {
		n = 60000
	}
	rndAdds := func(k int) []tAdd {
		as := make([]tAdd, k)
		for i := range as {
			as[i] = tAdd{cu[r.Intn(len(cu))], nu[r.Intn(len(nu))], uint16(r.Intn(5))}
			if r.Intn(20) == 0 {
				as[i].id = uint16(r.Intn(65536))
			}
		}
		return as
	}
	for i := 0; i < n; i++ {
		as := rndAdds(r.Intn(10))
		for q := 0; q < 3; q++ {
			qName(as, cu[r.Intn(len(cu))], uint16(r.Intn(5)))
			qID(as, cu[r.Intn(len(cu))], nu[r.Intn(len(nu))])
		}
		if i%3 == 0 {
			bs := rndAdds(r.Intn(6))
			t1, t2 := tBuild(as), tBuild(bs)
			t1.Merge(t2)
			fmt.Fprintf(w, "M %s / %s => %s\n", tAdds(as), tAdds(bs), tCanon(t1))
		}
	}
	// 3. option parsing
	fields := []string{"c1", "*", "", "a/b", "x", "1", "2", "65535", "65536", "0", "007", "-1", "+1", "1e3", "0x10", " 1", "99999999999999999999", "t;1"}
	for i := 0; i < n; i++ {
		k := 1 + r.Intn(3)
		opts := make([]string, k)
		for j := range opts {
			nf := []int{1, 2, 2, 2, 3, 3, 3, 4}[r.Intn(8)]
			fs := make([]string, nf)
			for x := range fs {
				fs[x] = fields[r.Intn(len(fields))]
			}
			if nf >= 2 && r.Intn(3) != 0 {
				fs[nf-1] = fields[5+r.Intn(6)]
			}
			opts[j] = strings.Join(fs, ";")
		}
		hs := make([]string, k)
		for j := range opts {
			hs[j] = thex(opts[j])
		}
		res, err := ParsePredefinedTopicOptions(opts...)
		out := "err"
		if err == nil {
			out = "ok " + tCanon(res)
		}
		fmt.Fprintf(w, "P %s => %s\n", strings.Join(hs, ","), out)
	}
}
