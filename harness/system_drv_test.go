//go:build verif

// Injected into /repo/gateway by `go test -overlay`. System harness for C26: the real client library
// talks to the real gateway (Gateway.ListenAndServe, real UDP on loopback) which talks to a small
// conforming MQTT broker (real TCP on loopback) written here.  A case is a sequence of client API
// calls and broker-side injections; everything observable is logged: the result of every call, every
// handler invocation at the client, every PUBLISH the broker received.
package gateway

import (
	"bufio"
	"context"
	"encoding/hex"
	"fmt"
	"net"
	"os"
	"sort"
	"strconv"
	"strings"
	"sync"
	"testing"
	"time"

	mqPkts "github.com/eclipse/paho.mqtt.golang/packets"

	snClient "github.com/energomonitor/bisquitt/client"
	pkts1 "github.com/energomonitor/bisquitt/packets1"
	"github.com/energomonitor/bisquitt/topics"
	"github.com/energomonitor/bisquitt/util"
)

type sysLogger struct{ tag string }

var sysT0 = time.Now()

func (l sysLogger) Debug(format string, a ...interface{}) {
	if os.Getenv("VERIF_SYSLOG") != "" {
		fmt.Fprintf(os.Stderr, "%6d %s "+format+"\n", append([]interface{}{time.Since(sysT0).Milliseconds(), l.tag}, a...)...)
	}
}
func (sysLogger) Info(format string, a ...interface{})  {}
func (sysLogger) Error(format string, a ...interface{}) {}
func (l sysLogger) WithTag(tag string) util.Logger      { return sysLogger{l.tag + "/" + tag} }
func (sysLogger) Sync()                                 {}

func sysHex(b []byte) string {
	if len(b) == 0 {
		return "-"
	}
	return hex.EncodeToString(b)
}

func sysUnhex(s string) []byte {
	if s == "-" || s == "" {
		return nil
	}
	b, _ := hex.DecodeString(s)
	return b
}

func sysMatch(filter, topic string) bool {
	f, t := strings.Split(filter, "/"), strings.Split(topic, "/")
	for i, lv := range f {
		if lv == "#" {
			return true
		}
		if i >= len(t) {
			return false
		}
		if lv != "+" && lv != t[i] {
			return false
		}
	}
	return len(f) == len(t)
}

// ---- a small MQTT 3.1.1 broker for one gateway connection at a time

type sysBroker struct {
	ln   net.Listener
	mu   sync.Mutex
	conn net.Conn
	wmu  sync.Mutex
	subs map[string]byte
	// QoS 2 messages waiting for their PUBREL
	parked map[uint16][2]string
	recv   []string // PUBLISHes received, in order
	mid    uint16
	sent   int
}

func newSysBroker() *sysBroker {
	ln, err := net.Listen("tcp", "127.0.0.1:0")
	if err != nil {
		panic(err)
	}
	b := &sysBroker{ln: ln, subs: map[string]byte{}, parked: map[uint16][2]string{}}
	go func() {
		for {
			c, err := ln.Accept()
			if err != nil {
				return
			}
			b.mu.Lock()
			b.conn = c
			b.mu.Unlock()
			go b.serve(c)
		}
	}()
	return b
}

func (b *sysBroker) write(c net.Conn, p mqPkts.ControlPacket) {
	b.wmu.Lock()
	p.Write(c)
	b.wmu.Unlock()
}

// route delivers a message to the connected session if one of its subscriptions matches (once, at the
// highest QoS of the matching subscriptions, capped by the message's)
func (b *sysBroker) route(topic string, payload []byte, qos byte, retain bool) {
	b.mu.Lock()
	c := b.conn
	best, ok := byte(0), false
	for f, q := range b.subs {
		if sysMatch(f, topic) {
			ok = true
			if q > best {
				best = q
			}
		}
	}
	if best > qos {
		best = qos
	}
	b.mid++
	mid := b.mid
	b.mu.Unlock()
	if !ok || c == nil {
		return
	}
	p := mqPkts.NewControlPacket(mqPkts.Publish).(*mqPkts.PublishPacket)
	p.TopicName, p.Payload, p.Qos, p.Retain = topic, payload, best, false
	if best > 0 {
		p.MessageID = mid
	}
	b.write(c, p)
}

func (b *sysBroker) serve(c net.Conn) {
	for {
		p, err := mqPkts.ReadPacket(c)
		if err != nil {
			return
		}
		switch m := p.(type) {
		case *mqPkts.ConnectPacket:
			b.mu.Lock()
			b.subs = map[string]byte{}
			b.mu.Unlock()
			b.write(c, mqPkts.NewControlPacket(mqPkts.Connack))
		case *mqPkts.SubscribePacket:
			a := mqPkts.NewControlPacket(mqPkts.Suback).(*mqPkts.SubackPacket)
			a.MessageID = m.MessageID
			b.mu.Lock()
			for i, t := range m.Topics {
				b.subs[t] = m.Qoss[i]
				a.ReturnCodes = append(a.ReturnCodes, m.Qoss[i])
			}
			b.mu.Unlock()
			b.write(c, a)
		case *mqPkts.UnsubscribePacket:
			b.mu.Lock()
			for _, t := range m.Topics {
				delete(b.subs, t)
			}
			b.mu.Unlock()
			a := mqPkts.NewControlPacket(mqPkts.Unsuback).(*mqPkts.UnsubackPacket)
			a.MessageID = m.MessageID
			b.write(c, a)
		case *mqPkts.PublishPacket:
			b.mu.Lock()
			b.recv = append(b.recv, fmt.Sprintf("topic=%s payload=%s qos=%d retain=%v", sysHex([]byte(m.TopicName)), sysHex(m.Payload), m.Qos, m.Retain))
			b.mu.Unlock()
			switch m.Qos {
			case 1:
				a := mqPkts.NewControlPacket(mqPkts.Puback).(*mqPkts.PubackPacket)
				a.MessageID = m.MessageID
				b.write(c, a)
			case 2:
				a := mqPkts.NewControlPacket(mqPkts.Pubrec).(*mqPkts.PubrecPacket)
				a.MessageID = m.MessageID
				b.write(c, a)
			}
			if m.Qos < 2 {
				b.route(m.TopicName, m.Payload, m.Qos, m.Retain)
			} else {
				// routed when the PUBREL arrives
				b.pending(m.MessageID, m.TopicName, m.Payload)
			}
		case *mqPkts.PubrelPacket:
			a := mqPkts.NewControlPacket(mqPkts.Pubcomp).(*mqPkts.PubcompPacket)
			a.MessageID = m.MessageID
			b.write(c, a)
			if t, pl, ok := b.takePending(m.MessageID); ok {
				b.route(t, pl, 2, false)
			}
		case *mqPkts.PubrecPacket:
			a := mqPkts.NewControlPacket(mqPkts.Pubrel).(*mqPkts.PubrelPacket)
			a.MessageID = m.MessageID
			b.write(c, a)
		case *mqPkts.PingreqPacket:
			b.write(c, mqPkts.NewControlPacket(mqPkts.Pingresp))
		}
	}
}

func (b *sysBroker) pending(mid uint16, topic string, payload []byte) {
	b.mu.Lock()
	b.parked[mid] = [2]string{topic, string(payload)}
	b.mu.Unlock()
}

func (b *sysBroker) takePending(mid uint16) (string, []byte, bool) {
	b.mu.Lock()
	defer b.mu.Unlock()
	v, ok := b.parked[mid]
	delete(b.parked, mid)
	return v[0], []byte(v[1]), ok
}

func sysErrClass(err error) string {
	if err == nil {
		return "ok"
	}
	s := err.Error()
	switch {
	case strings.Contains(s, "not registered"):
		return "not-registered"
	case strings.Contains(s, "no more retries"):
		return "no-more-retries"
	case strings.Contains(s, "rejected"):
		return "rejected:" + strings.ReplaceAll(s, " ", "_")
	case strings.Contains(s, "terminated"):
		return "terminated"
	case strings.Contains(s, "timeout"):
		return "timeout"
	}
	return "other:" + strings.ReplaceAll(s, " ", "_")
}

type sysCase struct {
	header string
	kv     map[string]string
	ops    []string
}

func sysReadCases(path string) []*sysCase {
	f, err := os.Open(path)
	if err != nil {
		return nil
	}
	defer f.Close()
	var cases []*sysCase
	var cur *sysCase
	sc := bufio.NewScanner(f)
	sc.Buffer(make([]byte, 1<<20), 1<<24)
	for sc.Scan() {
		line := sc.Text()
		switch {
		case strings.HasPrefix(line, "case "):
			fs := strings.Fields(line)
			kv := map[string]string{}
			for _, x := range fs[2:] {
				if i := strings.IndexByte(x, '='); i > 0 {
					kv[x[:i]] = x[i+1:]
				}
			}
			cur = &sysCase{header: line, kv: kv}
			cases = append(cases, cur)
		case strings.HasPrefix(line, "@") && cur != nil:
			cur.ops = append(cur.ops, line)
		}
	}
	return cases
}

func sysRunCase(c *sysCase) []string {
	var mu sync.Mutex
	var out []string
	logf := func(format string, a ...interface{}) {
		mu.Lock()
		out = append(out, "> "+fmt.Sprintf(format, a...))
		mu.Unlock()
	}
	predef := topics.PredefinedTopics{}
	if v, ok := c.kv["predef"]; ok && v != "-" {
		for _, e := range strings.Split(v, ",") {
			p := strings.Split(e, ":")
			id, _ := strconv.Atoi(p[1])
			predef.Add(string(sysUnhex(p[0])), string(sysUnhex(p[2])), uint16(id))
		}
	}
	br := newSysBroker()
	defer br.ln.Close()
	pc, _ := net.ListenPacket("udp", "127.0.0.1:0")
	port := pc.LocalAddr().(*net.UDPAddr).Port
	pc.Close()
	ctx, cancel := context.WithCancel(context.Background())
	defer cancel()
	gw := NewGateway(sysLogger{"gw"}, &GatewayConfig{
		MqttBrokerAddress:     br.ln.Addr().(*net.TCPAddr),
		MqttConnectionTimeout: 2 * time.Second,
		PredefinedTopics:      predef,
		RetryDelay:            500 * time.Millisecond,
		RetryCount:            3,
	})
	go gw.ListenAndServe(ctx, fmt.Sprintf("127.0.0.1:%d", port))
	time.Sleep(30 * time.Millisecond)
	cl := snClient.NewClient(sysLogger{"cl"}, &snClient.ClientConfig{
		ClientID:         string(sysUnhex(c.kv["cid"])),
		CleanSession:     true,
		RetryDelay:       500 * time.Millisecond,
		RetryCount:       3,
		ConnectTimeout:   2 * time.Second,
		KeepAlive:        time.Duration(func() int { n, _ := strconv.Atoi(c.kv["ka"]); return n }()) * time.Second,
		PredefinedTopics: predef,
	})
	for try := 0; try < 50; try++ {
		if err := cl.Dial(fmt.Sprintf("127.0.0.1:%d", port)); err == nil {
			break
		}
		time.Sleep(10 * time.Millisecond)
	}
	handler := func(label string) snClient.MessageHandlerFunc {
		return func(_ *snClient.Client, topic string, p *pkts1.Publish) {
			logf("handler filter=%s topic=%s payload=%s qos=%d", sysHex([]byte(label)), sysHex([]byte(topic)), sysHex(p.Data), p.QOS)
		}
	}
	atoi := func(s string) int { n, _ := strconv.Atoi(s); return n }
	for _, opl := range c.ops {
		fs := strings.Fields(opl)
		id, op, a := fs[0], fs[1], fs[2:]
		var err error
		switch op {
		case "connect":
			err = cl.Connect()
		case "register":
			err = cl.Register(string(sysUnhex(a[0])))
		case "subscribe":
			n := string(sysUnhex(a[0]))
			err = cl.Subscribe(n, uint8(atoi(a[1])), handler(n))
		case "subscribepre":
			err = cl.SubscribePredefined(uint16(atoi(a[0])), uint8(atoi(a[1])), handler("#pre"+a[0]))
		case "unsubscribe":
			err = cl.Unsubscribe(string(sysUnhex(a[0])))
		case "publish", "publishr":
			err = cl.Publish(string(sysUnhex(a[0])), sysUnhex(a[2]), uint8(atoi(a[1])), op == "publishr")
		case "publishpre", "publishprer":
			err = cl.PublishPredefined(uint16(atoi(a[0])), sysUnhex(a[2]), uint8(atoi(a[1])), op == "publishprer")
		case "unsubscribepre":
			err = cl.UnsubscribePredefined(uint16(atoi(a[0])))
		case "ping":
			err = cl.Ping()
		case "inject":
			br.route(string(sysUnhex(a[0])), sysUnhex(a[2]), byte(atoi(a[1])), false)
			time.Sleep(60 * time.Millisecond)
		case "burst":
			// several broker messages back to back: <topic> <qos> <payload>...
			for _, pl := range a[2:] {
				br.route(string(sysUnhex(a[0])), sysUnhex(pl), byte(atoi(a[1])), false)
			}
			time.Sleep(150 * time.Millisecond)
		case "sleep":
			err = cl.Sleep(time.Duration(atoi(a[0])) * time.Second)
		case "sleepinject":
			done := make(chan error, 1)
			go func() { done <- cl.Sleep(time.Duration(atoi(a[0])) * time.Second) }()
			time.Sleep(300 * time.Millisecond)
			br.route(string(sysUnhex(a[1])), sysUnhex(a[3]), byte(atoi(a[2])), false)
			err = <-done
		case "disconnect":
			err = cl.Disconnect()
		}
		if op != "inject" && op != "burst" {
			logf("ret %s %s", id, sysErrClass(err))
		}
		time.Sleep(40 * time.Millisecond) // handler goroutines and the loop-back of own messages settle
	}
	// everything still on its way settles: wait until nothing new has been logged for a while
	for last, quiet := -1, 0; quiet < 4; {
		time.Sleep(50 * time.Millisecond)
		mu.Lock()
		n := len(out)
		mu.Unlock()
		if n == last {
			quiet++
		} else {
			last, quiet = n, 0
		}
	}
	cl.Close()
	br.mu.Lock()
	for _, r := range br.recv {
		out = append(out, "> broker "+r)
	}
	var subs []string
	for f, q := range br.subs {
		subs = append(subs, fmt.Sprintf("%s:%d", sysHex([]byte(f)), q))
	}
	br.mu.Unlock()
	sort.Strings(subs)
	mu.Lock()
	out = append(out, "> subs "+strings.Join(subs, ","))
	mu.Unlock()
	return out
}

func TestVerifSystem(t *testing.T) {
	outPath := os.Getenv("VERIF_OUT")
	if outPath == "" {
		t.Skip("VERIF_OUT not set")
	}
	f, err := os.Create(outPath)
	if err != nil {
		t.Fatal(err)
	}
	defer f.Close()
	w := bufio.NewWriter(f)
	defer w.Flush()
	var cases []*sysCase
	cases = append(cases, sysReadCases(os.Getenv("VERIF_CORPUS"))...)
	cases = append(cases, sysReadCases(os.Getenv("VERIF_CASES"))...)
	// sessions are independent: run several at a time (each has its own broker, gateway and client)
	type res struct {
		i     int
		lines []string
	}
	results := make([][]string, len(cases))
	sem := make(chan struct{}, 8)
	var wg sync.WaitGroup
	for i, c := range cases {
		wg.Add(1)
		sem <- struct{}{}
		go func(i int, c *sysCase) {
			defer wg.Done()
			defer func() { <-sem }()
			results[i] = sysRunCase(c)
		}(i, c)
	}
	wg.Wait()
	for i, c := range cases {
		fmt.Fprintln(w, c.header)
		for _, o := range c.ops {
			fmt.Fprintln(w, o)
		}
		for _, l := range results[i] {
			fmt.Fprintln(w, l)
		}
	}
}
