//go:build verif

// Injected into /repo/gateway by `go test -overlay`. Correspondence driver for one gateway
// session (handler1.run): the real handler runs inside a testing/synctest bubble (exact
// virtual time) between an in-memory datagram connection (the MQTT-SN client side, scripted)
// and a net.Pipe (the MQTT broker side, scripted). Every observable effect is logged with its
// virtual timestamp in milliseconds.
package gateway

import (
	"bufio"
	"bytes"
	"context"
	"encoding/hex"
	"fmt"
	"io"
	"net"
	"os"
	"runtime"
	"sort"
	"strconv"
	"strings"
	"sync"
	"testing"
	"testing/synctest"
	"time"

	mqPkts "github.com/eclipse/paho.mqtt.golang/packets"

	"github.com/energomonitor/bisquitt/topics"
	"github.com/energomonitor/bisquitt/util"
)

func ghex(b []byte) string {
	if len(b) == 0 {
		return "-"
	}
	return hex.EncodeToString(b)
}

func gunhex(s string) []byte {
	if s == "-" || s == "" {
		return nil
	}
	b, _ := hex.DecodeString(s)
	return b
}

func gb(b bool) int {
	if b {
		return 1
	}
	return 0
}

// ---- canonical text for MQTT packets ------------------------------------------------------

func gMqCanon(p mqPkts.ControlPacket) string {
	switch x := p.(type) {
	case *mqPkts.ConnectPacket:
		return fmt.Sprintf("connect cid=%s clean=%d ka=%d uflag=%d user=%s pflag=%d pass=%s will=%d wq=%d wr=%d wt=%s wm=%s pv=%d",
			ghex([]byte(x.ClientIdentifier)), gb(x.CleanSession), x.Keepalive, gb(x.UsernameFlag), ghex([]byte(x.Username)),
			gb(x.PasswordFlag), ghex(x.Password), gb(x.WillFlag), x.WillQos, gb(x.WillRetain), ghex([]byte(x.WillTopic)), ghex(x.WillMessage), x.ProtocolVersion)
	case *mqPkts.ConnackPacket:
		return fmt.Sprintf("connack %d", x.ReturnCode)
	case *mqPkts.PublishPacket:
		return fmt.Sprintf("publish dup=%d qos=%d retain=%d mid=%d topic=%s payload=%s", gb(x.Dup), x.Qos, gb(x.Retain), x.MessageID, ghex([]byte(x.TopicName)), ghex(x.Payload))
	case *mqPkts.PubackPacket:
		return fmt.Sprintf("puback %d", x.MessageID)
	case *mqPkts.PubrecPacket:
		return fmt.Sprintf("pubrec %d", x.MessageID)
	case *mqPkts.PubrelPacket:
		return fmt.Sprintf("pubrel %d", x.MessageID)
	case *mqPkts.PubcompPacket:
		return fmt.Sprintf("pubcomp %d", x.MessageID)
	case *mqPkts.SubscribePacket:
		var ts []string
		for i, t := range x.Topics {
			q := byte(255)
			if i < len(x.Qoss) {
				q = x.Qoss[i]
			}
			ts = append(ts, fmt.Sprintf("%s:%d", ghex([]byte(t)), q))
		}
		return fmt.Sprintf("subscribe mid=%d dup=%d topics=%s", x.MessageID, gb(x.Dup), strings.Join(ts, ","))
	case *mqPkts.SubackPacket:
		var cs []string
		for _, c := range x.ReturnCodes {
			cs = append(cs, strconv.Itoa(int(c)))
		}
		return fmt.Sprintf("suback mid=%d hq=%d codes=%s", x.MessageID, x.Qos, strings.Join(cs, ","))
	case *mqPkts.UnsubscribePacket:
		var ts []string
		for _, t := range x.Topics {
			ts = append(ts, ghex([]byte(t)))
		}
		return fmt.Sprintf("unsubscribe mid=%d topics=%s", x.MessageID, strings.Join(ts, ","))
	case *mqPkts.UnsubackPacket:
		return fmt.Sprintf("unsuback %d", x.MessageID)
	case *mqPkts.PingreqPacket:
		return "pingreq"
	case *mqPkts.PingrespPacket:
		return "pingresp"
	case *mqPkts.DisconnectPacket:
		return "disconnect"
	}
	return fmt.Sprintf("unknown %T", p)
}

func gkv(fs []string) map[string]string {
	m := map[string]string{}
	for _, f := range fs {
		if i := strings.Index(f, "="); i > 0 {
			m[f[:i]] = f[i+1:]
		}
	}
	return m
}

func gatoi(s string) int { n, _ := strconv.Atoi(s); return n }

// gMqParse builds the packet a scripted broker sends (broker -> gateway kinds only, plus a few
// illegal-direction ones for the adversarial stream).
func gMqParse(text string) mqPkts.ControlPacket {
	fs := strings.Fields(text)
	if len(fs) == 0 {
		return nil
	}
	kv := gkv(fs[1:])
	num := func() uint16 {
		if len(fs) > 1 {
			return uint16(gatoi(fs[1]))
		}
		return 0
	}
	switch fs[0] {
	case "connack":
		p := mqPkts.NewControlPacket(mqPkts.Connack).(*mqPkts.ConnackPacket)
		p.ReturnCode = byte(num())
		return p
	case "publish":
		p := mqPkts.NewControlPacket(mqPkts.Publish).(*mqPkts.PublishPacket)
		p.Dup = kv["dup"] == "1"
		p.Qos = byte(gatoi(kv["qos"]))
		p.Retain = kv["retain"] == "1"
		p.MessageID = uint16(gatoi(kv["mid"]))
		p.TopicName = string(gunhex(kv["topic"]))
		p.Payload = gunhex(kv["payload"])
		if n, ok := kv["plen"]; ok { // large payloads: plen=<n> filler byte 0x55
			p.Payload = bytes.Repeat([]byte{0x55}, gatoi(n))
		}
		return p
	case "puback":
		p := mqPkts.NewControlPacket(mqPkts.Puback).(*mqPkts.PubackPacket)
		p.MessageID = num()
		return p
	case "pubrec":
		p := mqPkts.NewControlPacket(mqPkts.Pubrec).(*mqPkts.PubrecPacket)
		p.MessageID = num()
		return p
	case "pubrel":
		p := mqPkts.NewControlPacket(mqPkts.Pubrel).(*mqPkts.PubrelPacket)
		p.MessageID = num()
		return p
	case "pubcomp":
		p := mqPkts.NewControlPacket(mqPkts.Pubcomp).(*mqPkts.PubcompPacket)
		p.MessageID = num()
		return p
	case "suback":
		p := mqPkts.NewControlPacket(mqPkts.Suback).(*mqPkts.SubackPacket)
		p.MessageID = uint16(gatoi(kv["mid"]))
		p.Qos = byte(gatoi(kv["hq"]))
		if kv["codes"] != "" && kv["codes"] != "-" {
			for _, c := range strings.Split(kv["codes"], ",") {
				p.ReturnCodes = append(p.ReturnCodes, byte(gatoi(c)))
			}
		}
		return p
	case "unsuback":
		p := mqPkts.NewControlPacket(mqPkts.Unsuback).(*mqPkts.UnsubackPacket)
		p.MessageID = num()
		return p
	case "pingresp":
		return mqPkts.NewControlPacket(mqPkts.Pingresp)
	case "pingreq":
		return mqPkts.NewControlPacket(mqPkts.Pingreq)
	case "disconnect":
		return mqPkts.NewControlPacket(mqPkts.Disconnect)
	case "subscribe":
		p := mqPkts.NewControlPacket(mqPkts.Subscribe).(*mqPkts.SubscribePacket)
		p.MessageID = uint16(gatoi(kv["mid"]))
		p.Topics = []string{"x"}
		p.Qoss = []byte{0}
		return p
	}
	return nil
}

// ---- in-memory datagram connection (client side) ----------------------------------------------

type gTimeoutErr struct{}

func (gTimeoutErr) Error() string   { return "i/o timeout" }
func (gTimeoutErr) Timeout() bool   { return true }
func (gTimeoutErr) Temporary() bool { return true }

type gAddr struct{}

func (gAddr) Network() string { return "mem" }
func (gAddr) String() string  { return "mem:1" }

type gDgConn struct {
	mu       sync.Mutex
	in       chan []byte
	closed   chan struct{}
	once     sync.Once
	deadline time.Time
	onWrite  func([]byte)
}

func newGDgConn(onWrite func([]byte)) *gDgConn {
	return &gDgConn{in: make(chan []byte, 1024), closed: make(chan struct{}), onWrite: onWrite}
}

func (c *gDgConn) Read(p []byte) (int, error) {
	c.mu.Lock()
	dl := c.deadline
	c.mu.Unlock()
	var timeout <-chan time.Time
	if !dl.IsZero() {
		d := time.Until(dl)
		if d <= 0 {
			return 0, gTimeoutErr{}
		}
		t := time.NewTimer(d)
		defer t.Stop()
		timeout = t.C
	}
	select {
	case b := <-c.in:
		return copy(p, b), nil
	case <-timeout:
		return 0, gTimeoutErr{}
	case <-c.closed:
		return 0, io.EOF
	}
}
func (c *gDgConn) Write(b []byte) (int, error) {
	select {
	case <-c.closed:
		return 0, io.ErrClosedPipe
	default:
	}
	c.onWrite(append([]byte{}, b...))
	return len(b), nil
}
func (c *gDgConn) Close() error                       { c.once.Do(func() { close(c.closed) }); return nil }
func (c *gDgConn) LocalAddr() net.Addr                { return gAddr{} }
func (c *gDgConn) RemoteAddr() net.Addr               { return gAddr{} }
func (c *gDgConn) SetDeadline(t time.Time) error      { return c.SetReadDeadline(t) }
func (c *gDgConn) SetWriteDeadline(t time.Time) error { return nil }
func (c *gDgConn) SetReadDeadline(t time.Time) error {
	c.mu.Lock()
	c.deadline = t
	c.mu.Unlock()
	return nil
}

// gMqConn is the gateway's end of the broker connection: reads come from the pipe (the scripted
// broker), every Write is one whole MQTT packet and is logged synchronously (so that the order
// of MQTT and MQTT-SN outputs is the order in which the handler produced them).
type gMqConn struct {
	net.Conn
	onWrite func([]byte)
	onClose func()
	once    sync.Once
	// a stalled broker (event `mqstall`): nothing can be written any more, every Write runs into its deadline
	smu     sync.Mutex
	stalled bool
	wd      time.Time
}

func (c *gMqConn) SetWriteDeadline(t time.Time) error {
	c.smu.Lock()
	c.wd = t
	c.smu.Unlock()
	return nil
}

func (c *gMqConn) Write(b []byte) (int, error) {
	c.smu.Lock()
	stalled, wd := c.stalled, c.wd
	c.smu.Unlock()
	if stalled {
		d := time.Until(wd)
		if wd.IsZero() {
			d = time.Hour
		}
		if d > 0 {
			time.Sleep(d)
		}
		return 0, os.ErrDeadlineExceeded
	}
	c.onWrite(b)
	return len(b), nil
}
func (c *gMqConn) Close() error {
	c.once.Do(c.onClose)
	return c.Conn.Close()
}

// ---- capturing logger ---------------------------------------------------------------------------

type gLogger struct {
	mu      *sync.Mutex
	lastErr *string
}

func (l gLogger) Debug(format string, a ...interface{}) {}
func (l gLogger) Info(format string, a ...interface{})  {}
func (l gLogger) Error(format string, a ...interface{}) {
	if strings.HasPrefix(format, "Handler quits with error") {
		l.mu.Lock()
		*l.lastErr = fmt.Sprintf(format, a...)
		l.mu.Unlock()
	}
}
func (l gLogger) WithTag(tag string) util.Logger { return l }
func (l gLogger) Sync()                          {}

func gErrClass(msg string) string {
	switch {
	case msg == "":
		return "clean"
	case strings.Contains(msg, "unsupported MQTT-SN packet"):
		return "unsupported-sn"
	case strings.Contains(msg, "unsupported MQTT packet"):
		return "unsupported-mq"
	case strings.Contains(msg, "illegal packet in disconnected state"):
		return "illegal"
	case strings.Contains(msg, "MQTT broker closed connection"):
		return "mqttclosed"
	case strings.Contains(msg, "CONNECT: transaction timeout"):
		return "connect-timeout"
	case strings.Contains(msg, "CONNECT:"), strings.Contains(msg, "CONNECT refused"), strings.Contains(msg, "unknown auth method"),
		strings.Contains(msg, "invalid PLAIN auth data"), strings.Contains(msg, "invalid will QoS"):
		return "connect-failed"
	case strings.Contains(msg, "invalid topic id type"), strings.Contains(msg, "cannot publish to topic"), strings.Contains(msg, "empty topic filter"):
		return "bad-topic"
	case strings.Contains(msg, "bad ") || strings.Contains(msg, "invalid MQTT-SN") || strings.Contains(msg, "invalid TopicIDType"):
		return "sn-decode"
	case strings.Contains(msg, "unknown topic id"):
		return "unknown-topic"
	}
	return "error"
}

// ---- one case -------------------------------------------------------------------------------------

type gCase struct {
	id         string
	auth       bool
	user, pass []byte
	hasUser    bool
	hasPass    bool
	rd         int
	rc         int
	predef     topics.PredefinedTopics
	idMin      int
	idMax      int
	events     []string // "@t kind args"
	header     string
}

func gParseCaseHeader(line string) *gCase {
	fs := strings.Fields(line)
	c := &gCase{id: fs[1], rd: 10000, rc: 4, predef: topics.PredefinedTopics{}, idMin: -1, header: line}
	kv := gkv(fs[2:])
	c.auth = kv["auth"] == "1"
	if v, ok := kv["user"]; ok && v != "none" {
		c.hasUser = true
		c.user = gunhex(v)
	}
	if v, ok := kv["pass"]; ok && v != "none" {
		c.hasPass = true
		c.pass = gunhex(v)
		if c.pass == nil {
			c.pass = []byte{}
		}
	}
	if v, ok := kv["rd"]; ok {
		c.rd = gatoi(v)
	}
	if v, ok := kv["rc"]; ok {
		c.rc = gatoi(v)
	}
	if v, ok := kv["predef"]; ok && v != "-" {
		for _, e := range strings.Split(v, ",") {
			p := strings.Split(e, ":")
			c.predef.Add(string(gunhex(p[0])), string(gunhex(p[2])), uint16(gatoi(p[1])))
		}
	}
	if v, ok := kv["idrange"]; ok {
		p := strings.Split(v, "-")
		c.idMin, c.idMax = gatoi(p[0]), gatoi(p[1])
	}
	return c
}

func gRunCase(t *testing.T, c *gCase) []string {
	var mu sync.Mutex
	var out []string
	synctest.Test(t, func(t *testing.T) {
		base := time.Now()
		closedLog := false
		logf := func(format string, args ...interface{}) {
			ms := time.Since(base).Milliseconds()
			mu.Lock()
			if !closedLog {
				out = append(out, fmt.Sprintf("> %d ", ms)+fmt.Sprintf(format, args...))
			}
			mu.Unlock()
		}
		baseGoroutines := runtime.NumGoroutine()
		var lastErr string
		logger := gLogger{mu: &mu, lastErr: &lastErr}
		cfg := &handlerConfig{AuthEnabled: c.auth, RetryDelay: time.Duration(c.rd) * time.Millisecond, RetryCount: uint(c.rc)}
		if c.hasUser {
			u := string(c.user)
			cfg.MqttUser = &u
		}
		if c.hasPass {
			cfg.MqttPassword = c.pass
		}
		h := newHandler(cfg, c.predef, logger)
		if c.idMin >= 0 {
			h.topicID = util.NewIDSequence(uint16(c.idMin), uint16(c.idMax))
		}
		gwSide, brokerSide := net.Pipe()
		mqc := &gMqConn{Conn: gwSide,
			onWrite: func(b []byte) {
				p, err := mqPkts.ReadPacket(bytes.NewReader(b))
				if err != nil {
					logf("mqgarbage %s", ghex(b))
				} else {
					logf("mq %s", gMqCanon(p))
				}
			},
			onClose: func() { logf("mqclose") }}
		h.mockupDialFunc = func() net.Conn { return mqc }
		sn := newGDgConn(func(b []byte) { logf("sn %s", ghex(b)) })
		ctx, cancel := context.WithCancel(context.Background())
		ended := make(chan struct{})
		go func() {
			defer func() {
				if r := recover(); r != nil {
					logf("panic %v", r)
				}
				close(ended)
			}()
			h.run(ctx, sn)
			mu.Lock()
			cls := gErrClass(lastErr)
			mu.Unlock()
			logf("ended %s", cls)
		}()
		lastState, lastReg, lastBuf := "disconnected", "-", "-"
		sample := func() {
			st := h.state.Get().String()
			var es []string
			h.registeredTopics.Range(func(k, v interface{}) bool {
				es = append(es, fmt.Sprintf("%05d:%s", k.(uint16), ghex([]byte(v.(string)))))
				return true
			})
			sort.Strings(es)
			rg := "-"
			if len(es) > 0 {
				rg = strings.Join(es, ",")
			}
			if st != lastState {
				lastState = st
				logf("state %s", st)
			}
			if rg != lastReg {
				lastReg = rg
				logf("reg %s", rg)
			}
			// packets queued for the sleeping client (read at quiescence)
			var qs []string
			for _, qp := range h.pktBuffer {
				b, _ := qp.Pack()
				qs = append(qs, ghex(b))
			}
			bf := "-"
			if len(qs) > 0 {
				bf = strings.Join(qs, ",")
			}
			if bf != lastBuf {
				lastBuf = bf
				logf("buf %s", bf)
			}
		}
		synctest.Wait()
		isEnded := func() bool {
			select {
			case <-ended:
				return true
			default:
				return false
			}
		}
		for _, ev := range c.events {
			fs := strings.Fields(ev)
			tt := gatoi(strings.TrimPrefix(fs[0], "@"))
			if d := time.Duration(tt)*time.Millisecond - time.Since(base); d > 0 {
				time.Sleep(d)
			}
			synctest.Wait()
			mu.Lock()
			out = append(out, ev) // inputs and outputs in their true order
			mu.Unlock()
			switch fs[1] {
			case "sn":
				if !isEnded() {
					select {
					case sn.in <- gunhex(fs[2]):
					default:
					}
				}
			case "mq":
				if !isEnded() {
					if p := gMqParse(strings.Join(fs[2:], " ")); p != nil {
						var buf bytes.Buffer
						p.Write(&buf)
						brokerSide.SetWriteDeadline(time.Now().Add(50 * time.Millisecond))
						brokerSide.Write(buf.Bytes())
					}
				}
			case "mqraw":
				if !isEnded() {
					brokerSide.SetWriteDeadline(time.Now().Add(50 * time.Millisecond))
					brokerSide.Write(gunhex(fs[2]))
				}
			case "mqstall":
				mqc.smu.Lock()
				mqc.stalled = true
				mqc.smu.Unlock()
			case "mqeof":
				brokerSide.Close()
			case "shutdown":
				cancel()
			case "end":
			}
			synctest.Wait()
			sample()
		}
		// teardown (not part of the case)
		mu.Lock()
		closedLog = true
		mu.Unlock()
		cancel()
		brokerSide.Close()
		time.Sleep(time.Second)
		synctest.Wait()
		<-ended
		sn.Close()
		synctest.Wait()
		if n := runtime.NumGoroutine() - baseGoroutines; n > 0 {
			buf := make([]byte, 1<<20)
			buf = buf[:runtime.Stack(buf, true)]
			var where []string
			for _, gr := range strings.Split(string(buf), "\n\n") {
				if strings.Contains(gr, "bisquitt") && !strings.Contains(gr, "gRunCase") {
					ls := strings.Split(gr, "\n")
					fn := ""
					for _, l := range ls {
						if strings.Contains(l, "bisquitt/") && !strings.HasPrefix(l, "\t") {
							fn = l
							break
						}
					}
					where = append(where, strings.ReplaceAll(strings.TrimSpace(ls[0])+"@"+fn, " ", "_"))
				}
			}
			// only goroutines running the repository's code count (the census is process-wide: a
			// runtime or testing goroutine that happens to start meanwhile is not a leak of the session)
			if len(where) > 0 {
				mu.Lock()
				out = append(out, fmt.Sprintf("> %d leak %d %s", time.Since(base).Milliseconds(), len(where), strings.Join(where, ";")))
				mu.Unlock()
			}
		}
	})
	return out
}

func gReadCases(path string) []*gCase {
	f, err := os.Open(path)
	if err != nil {
		return nil
	}
	defer f.Close()
	var cases []*gCase
	var cur *gCase
	sc := bufio.NewScanner(f)
	sc.Buffer(make([]byte, 1<<20), 1<<26)
	for sc.Scan() {
		line := strings.TrimSpace(sc.Text())
		if line == "" || strings.HasPrefix(line, "#") {
			continue
		}
		if strings.HasPrefix(line, "case ") {
			cur = gParseCaseHeader(line)
			cases = append(cases, cur)
		} else if strings.HasPrefix(line, "@") && cur != nil {
			cur.events = append(cur.events, line)
		}
	}
	return cases
}

func TestVerifGateway(t *testing.T) {
	outPath := os.Getenv("VERIF_OUT")
	if outPath == "" {
		t.Skip("VERIF_OUT not set")
	}
	f, err := os.Create(outPath)
	if err != nil {
		t.Fatal(err)
	}
	defer f.Close()
	w := bufio.NewWriterSize(f, 1<<20)
	defer w.Flush()
	var cases []*gCase
	cases = append(cases, gReadCases(os.Getenv("VERIF_CORPUS"))...)
	cases = append(cases, gReadCases(os.Getenv("VERIF_CASES"))...)
	prog := os.Getenv("VERIF_OUT") + ".running"
	for _, c := range cases {
		os.WriteFile(prog, []byte(c.header+"\n"+strings.Join(c.events, "\n")+"\n"), 0o644)
		lines := gRunCase(t, c)
		fmt.Fprintln(w, c.header)
		for _, l := range lines {
			fmt.Fprintln(w, l)
		}
	}
	os.Remove(prog)
}
