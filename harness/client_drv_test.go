//go:build verif

// Injected into /repo/client by `go test -overlay`. Correspondence driver for the client library:
// the real Client runs inside a testing/synctest bubble (exact virtual time) on top of an
// in-memory datagram connection whose other end (the gateway) is scripted.  API calls are
// started by the script, each in its own goroutine; every observable effect (datagram sent,
// API call returned, subscription handler invoked, client state, end of the client's goroutines)
// is logged with its virtual timestamp in milliseconds.
package client

import (
	"bufio"
	"encoding/hex"
	"errors"
	"fmt"
	"io"
	"net"
	"os"
	"runtime"
	"strconv"
	"strings"
	"sync"
	"testing"
	"testing/synctest"
	"time"

	pkts1 "github.com/energomonitor/bisquitt/packets1"
	"github.com/energomonitor/bisquitt/topics"
	"github.com/energomonitor/bisquitt/transactions"
	"github.com/energomonitor/bisquitt/util"
)

func chex(b []byte) string {
	if len(b) == 0 {
		return "-"
	}
	return hex.EncodeToString(b)
}

func cunhex(s string) []byte {
	if s == "-" || s == "" {
		return nil
	}
	b, _ := hex.DecodeString(s)
	return b
}

func catoi(s string) int { n, _ := strconv.Atoi(s); return n }

func ckv(fs []string) map[string]string {
	m := map[string]string{}
	for _, f := range fs {
		if i := strings.Index(f, "="); i > 0 {
			m[f[:i]] = f[i+1:]
		}
	}
	return m
}

type cTimeoutErr struct{}

func (cTimeoutErr) Error() string   { return "i/o timeout" }
func (cTimeoutErr) Timeout() bool   { return true }
func (cTimeoutErr) Temporary() bool { return true }

type cAddr struct{}

func (cAddr) Network() string { return "mem" }
func (cAddr) String() string  { return "mem:1" }

// cConn is the client's end of the datagram connection
type cConn struct {
	mu       sync.Mutex
	deadline time.Time
	in       chan []byte
	closed   chan struct{}
	once     sync.Once
	onWrite  func([]byte)
}

func (c *cConn) Read(p []byte) (int, error) {
	c.mu.Lock()
	dl := c.deadline
	c.mu.Unlock()
	var timeout <-chan time.Time
	if !dl.IsZero() {
		d := time.Until(dl)
		if d <= 0 {
			return 0, cTimeoutErr{}
		}
		t := time.NewTimer(d)
		defer t.Stop()
		timeout = t.C
	}
	select {
	case b := <-c.in:
		return copy(p, b), nil
	case <-timeout:
		return 0, cTimeoutErr{}
	case <-c.closed:
		return 0, io.EOF
	}
}
func (c *cConn) Write(b []byte) (int, error) {
	select {
	case <-c.closed:
		return 0, io.ErrClosedPipe
	default:
	}
	c.onWrite(append([]byte{}, b...))
	return len(b), nil
}
func (c *cConn) Close() error                       { c.once.Do(func() { close(c.closed) }); return nil }
func (c *cConn) LocalAddr() net.Addr                { return cAddr{} }
func (c *cConn) RemoteAddr() net.Addr               { return cAddr{} }
func (c *cConn) SetDeadline(t time.Time) error      { return c.SetReadDeadline(t) }
func (c *cConn) SetWriteDeadline(t time.Time) error { return nil }
func (c *cConn) SetReadDeadline(t time.Time) error {
	c.mu.Lock()
	c.deadline = t
	c.mu.Unlock()
	return nil
}

type cLogger struct{}

func (cLogger) Debug(format string, a ...interface{}) {}
func (cLogger) Info(format string, a ...interface{})  {}
func (cLogger) Error(format string, a ...interface{}) {}
func (l cLogger) WithTag(tag string) util.Logger      { return l }
func (cLogger) Sync()                                 {}

func cErrClass(err error) string {
	if err == nil {
		return "ok"
	}
	if errors.Is(err, transactions.ErrNoMoreRetries) {
		return "no-more-retries"
	}
	if errors.Is(err, transactions.ErrTimeout) {
		return "timeout"
	}
	s := err.Error()
	switch {
	case s == "client terminated":
		return "terminated"
	case s == "connect timeout":
		return "connect-timeout"
	case strings.Contains(s, "rejected"):
		return "rejected"
	case strings.Contains(s, "not registered"):
		return "not-registered"
	case strings.Contains(s, "cannot call Sleep"):
		return "bad-state"
	case strings.Contains(s, "invalid qos"):
		return "invalid-qos"
	case strings.Contains(s, "did not receive PINGRESP"):
		return "pingresp-timeout"
	case strings.Contains(s, "closed pipe"), strings.Contains(s, "EOF"):
		return "closed"
	case strings.Contains(s, "invalid topic ID"), strings.Contains(s, "invalid predefined topic ID"), strings.Contains(s, "invalid Topic ID Type"):
		return "bad-topic-id"
	case strings.Contains(s, "context canceled"):
		return "cancelled"
	case strings.Contains(s, "unhandled MQTT-SN packet"):
		return "unhandled-packet"
	case strings.Contains(s, "invalid QOS"):
		return "bad-qos"
	case strings.Contains(s, "bad ") || strings.Contains(s, "invalid MQTT-SN") || strings.Contains(s, "invalid TopicIDType") || strings.Contains(s, "packet"):
		return "decode"
	}
	return "other:" + strings.ReplaceAll(s, " ", "_")
}

type cCase struct {
	id     string
	header string
	kv     map[string]string
	events []string
}

func cReadCases(path string) []*cCase {
	f, err := os.Open(path)
	if err != nil {
		return nil
	}
	defer f.Close()
	var cases []*cCase
	var cur *cCase
	sc := bufio.NewScanner(f)
	sc.Buffer(make([]byte, 1<<20), 1<<26)
	for sc.Scan() {
		line := sc.Text()
		switch {
		case strings.HasPrefix(line, "case "):
			fs := strings.Fields(line)
			cur = &cCase{id: fs[1], header: line, kv: ckv(fs[2:])}
			cases = append(cases, cur)
		case strings.HasPrefix(line, "@") && cur != nil:
			cur.events = append(cur.events, line)
		}
	}
	return cases
}

func cRunCase(t *testing.T, c *cCase) (out []string) {
	var mu sync.Mutex
	synctest.Test(t, func(t *testing.T) {
		base := time.Now()
		closedLog := false
		logf := func(format string, args ...interface{}) {
			ms := time.Since(base).Milliseconds()
			mu.Lock()
			if !closedLog {
				out = append(out, fmt.Sprintf("> %d ", ms)+fmt.Sprintf(format, args...))
			}
			mu.Unlock()
		}
		baseGoroutines := runtime.NumGoroutine()
		kv := c.kv
		predef := topics.PredefinedTopics{}
		if v, ok := kv["predef"]; ok && v != "-" {
			for _, e := range strings.Split(v, ",") {
				p := strings.Split(e, ":")
				predef.Add(string(cunhex(p[0])), string(cunhex(p[2])), uint16(catoi(p[1])))
			}
		}
		cfg := &ClientConfig{
			ClientID:         string(cunhex(kv["cid"])),
			CleanSession:     kv["clean"] != "0",
			KeepAlive:        time.Duration(catoi(kv["ka"])) * time.Second,
			ConnectTimeout:   time.Duration(catoi(kv["ct"])) * time.Millisecond,
			RetryDelay:       time.Duration(catoi(kv["rd"])) * time.Millisecond,
			RetryCount:       uint(catoi(kv["rc"])),
			PredefinedTopics: predef,
		}
		if v, ok := kv["user"]; ok && v != "none" {
			cfg.User = string(cunhex(v))
		}
		cfg.Password = cunhex(kv["pass"])
		if v, ok := kv["will"]; ok && v != "-" {
			cfg.WillTopic = string(cunhex(v))
			cfg.WillPayload = cunhex(kv["wmsg"])
			cfg.WillQOS = uint8(catoi(kv["wq"]))
			cfg.WillRetained = kv["wr"] == "1"
		}
		conn := &cConn{in: make(chan []byte, 64), closed: make(chan struct{})}
		conn.onWrite = func(b []byte) { logf("sn %s", chex(b)) }
		cl := NewClient(cLogger{}, cfg)
		cl.mockupDialFunc = func() (net.Conn, error) { return conn, nil }
		if err := cl.Dial("mem"); err != nil {
			logf("dial %s", cErrClass(err))
			return
		}
		doneCh := make(chan struct{})
		go func() {
			err := cl.Wait()
			logf("done %s", cErrClass(err))
			close(doneCh)
		}()
		lastState := util.StateDisconnected
		sample := func() {
			if s := cl.state.Get(); s != lastState {
				lastState = s
				logf("state %s", s.String())
			}
		}
		handler := func(filter string) MessageHandlerFunc {
			return func(_ *Client, topic string, p *pkts1.Publish) {
				r := 0
				if p.Retain {
					r = 1
				}
				logf("handler filter=%s topic=%s qos=%d retain=%d payload=%s", chex([]byte(filter)), chex([]byte(topic)), p.QOS, r, chex(p.Data))
			}
		}
		call := func(id string, f func() error) {
			go func() {
				defer func() {
					if r := recover(); r != nil {
						logf("panic %s %v", id, r)
					}
				}()
				err := f()
				logf("ret %s %s", id, cErrClass(err))
			}()
		}
		for _, ev := range c.events {
			fs := strings.Fields(ev)
			at := catoi(strings.TrimPrefix(fs[0], "@"))
			if d := time.Duration(at)*time.Millisecond - time.Since(base); d > 0 {
				time.Sleep(d)
			}
			synctest.Wait()
			if len(fs) < 2 {
				continue
			}
			// timers that fire at this very instant have run; the event itself is logged in place
			mu.Lock()
			out = append(out, ev)
			mu.Unlock()
			switch fs[1] {
			case "sn":
				select {
				case conn.in <- cunhex(fs[2]):
				default:
				}
			case "api":
				id, op, a := fs[2], fs[3], fs[4:]
				switch op {
				case "connect":
					call(id, cl.Connect)
				case "register":
					call(id, func() error { return cl.Register(string(cunhex(a[0]))) })
				case "subscribe":
					name := string(cunhex(a[0]))
					call(id, func() error { return cl.Subscribe(name, uint8(catoi(a[1])), handler(name)) })
				case "subscribepre":
					call(id, func() error {
						return cl.SubscribePredefined(uint16(catoi(a[0])), uint8(catoi(a[1])), handler("#pre"+a[0]))
					})
				case "unsubscribe":
					call(id, func() error { return cl.Unsubscribe(string(cunhex(a[0]))) })
				case "unsubscribepre":
					call(id, func() error { return cl.UnsubscribePredefined(uint16(catoi(a[0]))) })
				case "publish":
					call(id, func() error {
						return cl.Publish(string(cunhex(a[0])), cunhex(a[3]), uint8(catoi(a[1])), a[2] == "1")
					})
				case "publishpre":
					call(id, func() error {
						return cl.PublishPredefined(uint16(catoi(a[0])), cunhex(a[3]), uint8(catoi(a[1])), a[2] == "1")
					})
				case "ping":
					call(id, cl.Ping)
				case "sleep":
					call(id, func() error { return cl.Sleep(time.Duration(catoi(a[0])) * time.Second) })
				case "disconnect":
					call(id, cl.Disconnect)
				case "close":
					call(id, cl.Close)
				}
			case "end":
			}
			synctest.Wait()
			sample()
		}
		// teardown (not part of the case)
		mu.Lock()
		closedLog = true
		mu.Unlock()
		cl.cancel()
		conn.Close()
		time.Sleep(3 * time.Second)
		synctest.Wait()
		select {
		case <-doneCh:
		default:
			mu.Lock()
			closedLog = false
			mu.Unlock()
			logf("leak wait-never-returned")
		}
		time.Sleep(70 * time.Second) // pending API calls wait at most for maxPingrespWait / the retry budget
		synctest.Wait()
		if n := runtime.NumGoroutine() - baseGoroutines; n > 0 {
			buf := make([]byte, 1<<20)
			buf = buf[:runtime.Stack(buf, true)]
			var where []string
			for _, gr := range strings.Split(string(buf), "\n\n") {
				if strings.Contains(gr, "bisquitt") && !strings.Contains(gr, "cRunCase") {
					ls := strings.Split(gr, "\n")
					fn := ""
					for _, l := range ls {
						if strings.Contains(l, "bisquitt/") && !strings.HasPrefix(l, "\t") {
							fn = l
							break
						}
					}
					where = append(where, strings.ReplaceAll(strings.TrimSpace(ls[0])+"@"+fn, " ", "_"))
				}
			}
			if len(where) > 0 {
				mu.Lock()
				out = append(out, fmt.Sprintf("> %d leak %d %s", time.Since(base).Milliseconds(), len(where), strings.Join(where, ";")))
				mu.Unlock()
			}
		}
	})
	return out
}

func TestVerifClient(t *testing.T) {
	outPath := os.Getenv("VERIF_OUT")
	if outPath == "" {
		t.Skip("VERIF_OUT not set")
	}
	f, err := os.Create(outPath)
	if err != nil {
		t.Fatal(err)
	}
	defer f.Close()
	w := bufio.NewWriterSize(f, 1<<20)
	defer w.Flush()
	var cases []*cCase
	cases = append(cases, cReadCases(os.Getenv("VERIF_CORPUS"))...)
	cases = append(cases, cReadCases(os.Getenv("VERIF_CASES"))...)
	for _, c := range cases {
		os.WriteFile(outPath+".running", []byte(c.header+"\n"+strings.Join(c.events, "\n")+"\n"), 0o644)
		lines := cRunCase(t, c)
		fmt.Fprintln(w, c.header)
		for _, l := range lines {
			fmt.Fprintln(w, l)
		}
		w.Flush()
	}
	os.Remove(outPath + ".running")
}
