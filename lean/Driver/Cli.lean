/-
  Model driver for the cli suite (C30, C31): cases are echoed by the harness, followed by the
  result lines of the three tools.
-/
import Driver.Canon
import Bisquitt.Model.Cli

namespace Driver
open Bisquitt Bisquitt.Cli

structure CliCase where
  id : String
  cid : Bytes
  yaml : List (Bytes × UInt16 × Bytes)
  nulls : List Bytes
  opts : List Bytes
  names : List Bytes
  ids : List UInt16
  deriving Repr

def cliKv (ws : List String) (k : String) : String :=
  match ws.find? (·.startsWith (k ++ "=")) with
  | some w => (w.drop (k.length + 1)).toString
  | none => "-"

def cliListOf (s : String) : List String := if s == "-" || s == "" then [] else s.splitOn ","

def parseCliCase (line : String) : Option CliCase := do
  let ws := words line
  guard (ws.head? == some "case")
  let id ← ws[1]?
  let cid ← parseHex (cliKv ws "cid")
  let yaml ← (cliListOf (cliKv ws "yaml")).mapM fun e => match e.splitOn ":" with
    | [c, i, n] => do
      let c ← parseHex c
      let i ← n16 i
      let n ← parseHex n
      pure (c, i, n)
    | _ => none
  let nulls ← (cliListOf (cliKv ws "nulls")).mapM parseHex
  let opts ← (cliListOf (cliKv ws "opts")).mapM parseHex
  let names ← (cliListOf (cliKv ws "names")).mapM parseHex
  let ids ← (cliListOf (cliKv ws "ids")).mapM n16
  pure { id := id, cid := cid, yaml := yaml, nulls := nulls, opts := opts, names := names, ids := ids }

/-- the statement of C30 as a reference, independent of `merge`: the last option for (client, ID),
    else the file's entry; a client reads its own binding, else the "*" one -/
def specEntry (c : CliCase) (parsed : List (Bytes × Bytes × UInt16)) (cl : Bytes) (id : UInt16) : Option Bytes :=
  match parsed.reverse.find? (fun (x : Bytes × Bytes × UInt16) => x.1 == cl && x.2.2 == id) with
  | some x => some x.2.1
  | none => (c.yaml.reverse.find? (fun (x : Bytes × UInt16 × Bytes) => x.1 == cl && x.2.1 == id)).map (·.2.2)

def specReads (c : CliCase) (parsed : List (Bytes × Bytes × UInt16)) (id : UInt16) : Option Bytes :=
  match specEntry c parsed c.cid id with
  | some n => some n
  | none => specEntry c parsed starId id

/-- all IDs that occur anywhere in the case -/
def allIds (c : CliCase) (parsed : List (Bytes × Bytes × UInt16)) : List UInt16 :=
  ((c.yaml.map (·.2.1)) ++ (parsed.map (·.2.2))).eraseDups

/-- IDs a tool may use for `name` by the specification: IDs this client reads as `name`, its own
    bindings first (`GetTopicID`) -/
def specIdsFor (c : CliCase) (parsed : List (Bytes × Bytes × UInt16)) (name : Bytes) : List UInt16 :=
  let own := (allIds c parsed).filter fun id => specEntry c parsed c.cid id == some name
  if !own.isEmpty then own
  else (allIds c parsed).filter fun id =>
    specEntry c parsed starId id == some name && (specEntry c parsed c.cid id).isNone

def cliCheckAnswers (c : CliCase) (tool : String) (answers : List String) : List String :=
  let parsed? := c.opts.mapM parseOption
  match effective (fromYaml c.yaml c.nulls) c.opts, parsed? with
  | some m, some parsed =>
    answers.flatMap fun a =>
      match a.splitOn "=" with
      | [k, v] =>
        if k.startsWith "id" then
          -- gateway: PUBLISH with a predefined ID arrived at the broker under this name (U = unknown)
          match n16 (k.drop 2).toString with
          | some id =>
            -- a name with wildcards cannot be published to: the gateway refuses (C24), like an unknown ID
            let pub := fun (o : Option Bytes) => match o with
              | some n => if n.contains 0x23 || n.contains 0x2B || n.isEmpty then "U" else hexOf n
              | none => "U"
            let model := pub (m.getTopicName c.cid id)
            let spec := pub (specReads c parsed id)
            (if model == v then [] else [s!"DIFF cli case={c.id} tool={tool} id={id} impl={v} model={model}"]) ++
            (if spec == v then [] else [s!"MON C30 id-means-other-name sig={tool} case={c.id} id={id} impl={v} spec={spec}"])
          | none => [s!"BADLINE {a}"]
        else
          match parseHex k with
          | some name =>
            let set := m.getTopicIdSet c.cid name
            let sset := specIdsFor c parsed name
            let ok (s : List UInt16) : Bool :=
              -- N: by name (SUBSCRIBE / REGISTER); S…: as a short topic — both mean "not predefined"
              if v == "N" || v.startsWith "S" then s.isEmpty
              else if v.startsWith "P" then (match n16 (v.drop 1).toString with | some id => s.contains id | none => false)
              else false
            -- 2-byte names are short topics for pub/sub and the gateway (never looked up by the gateway)
            if name.length == 2 && tool == "gw" then [] else
            (if ok set then [] else [s!"DIFF cli case={c.id} tool={tool} name={hexOf name} impl={v} model-admissible={set}"]) ++
            (if ok sset then [] else [s!"MON C30 name-gets-other-id sig={tool} case={c.id} name={hexOf name} impl={v} spec-admissible={sset}"])
          | none => [s!"BADLINE {a}"]
      | _ => [s!"BADLINE {a}"]
  | none, _ => [s!"DIFF cli case={c.id} tool={tool} impl=started model=refuses-(option-does-not-parse)",
                s!"MON C30 malformed-option-ignored sig={tool} case={c.id}"]
  | some _, none => [s!"BADLINE model/spec disagree on option parsing case={c.id}"]

structure CliState where
  cur : Option CliCase := none
  sec : Option (String × Bool × Bool × Bool) := none   -- id, creds, dtls, insecure

def cliLine (st : CliState) (line : String) : CliState × List String :=
  let ws := words line
  match ws with
  | "case" :: _ =>
    (match parseCliCase line with
     | some c => ({ st with cur := some c }, [])
     | none => (st, [s!"BADLINE {line}"]))
  | "sec" :: id :: _ =>
    ({ st with sec := some (id, cliKv ws "creds" == "1", cliKv ws "dtls" == "true", cliKv ws "insecure" == "1") }, [])
  | ["R", id, tool, "map", answers] =>
    (match st.cur with
     | some c => if c.id == id then (st, cliCheckAnswers c tool (answers.splitOn ",")) else (st, [s!"BADLINE {line}"])
     | none => (st, [s!"BADLINE {line}"]))
  | "iso" :: _ => (st, [])
  | ["R", id, "gw", "iso", same, alone, withB] =>
    if same == "same=1" then (st, [])
    else
      let txt := fun (s : String) => match parseHex ((s.splitOn "=").getD 1 "") with
        | some b => (String.fromUTF8? (ByteArray.mk b.toArray)).getD "?"
        | none => "?"
      let a := txt alone
      let b := txt withB
      -- first position where the two transcripts differ
      let i := ((a.toList.zip b.toList).findIdx fun (x, y) => x != y)
      (st, [s!"MON C15 interference sig=observed-session-differs case={id} alone=[…{(a.drop (i - min i 60)).take 160}] with-second-peer=[…{(b.drop (i - min i 60)).take 160}]"])
  | ["R", id, tool, "err", cls] =>
    (match st.cur with
     | some c =>
       if c.id != id then (st, [s!"BADLINE {line}"]) else
       let refuses := (effective (fromYaml c.yaml c.nulls) c.opts).isNone
       if cls == "options-parse" && refuses then (st, [])
       else if cls == "panic" then
         (st, [s!"DIFF cli case={c.id} tool={tool} impl=panic", s!"MON C30 tool-crashed sig={tool} case={c.id}", s!"MON C25 panic sig=cli-{tool} case={c.id}"])
       else (st, [s!"DIFF cli case={c.id} tool={tool} impl=err-{cls} model={if refuses then "refuses" else "starts"}",
                  s!"MON C30 tool-refused-valid-configuration sig={tool}/{cls} case={c.id}"])
     | none => (st, [s!"BADLINE {line}"]))
  | ["R", id, tool, "start", res, auth] =>
    (match st.sec with
     | some (sid, creds, dtls, insecure) =>
       if sid != id then (st, [s!"BADLINE {line}"]) else
       let model := if refusesToStart creds dtls insecure then "refused" else "started"
       let d := if model == res then [] else [s!"DIFF cli-sec case={id} tool={tool} impl={res} model={model}"]
       let m1 := if creds && !dtls && !insecure && res != "refused" then
           [s!"MON C31 started-with-plaintext-credentials sig={tool} case={id}"] else []
       let m2 := if !(creds && !dtls && !insecure) && res == "refused" then
           [s!"MON C31 refused-without-reason sig={tool} case={id}"] else []
       -- a tool started without --user never sends AUTH; with --user it does (pub / sub)
       let m3 := if tool != "gw" && res == "started" && !creds && auth != "auth=0" then
           [s!"MON C31 auth-sent-without-user sig={tool} case={id}"] else []
       let m4 := if tool != "gw" && res == "started" && creds && auth == "auth=0" then
           [s!"MON C31 no-auth-after-connect sig={tool} case={id}"] else []
       (st, d ++ m1 ++ m2 ++ m3 ++ m4)
     | none => (st, [s!"BADLINE {line}"]))
  | [] => (st, [])
  | _ => if line.startsWith "#" then (st, []) else (st, [s!"BADLINE {line}"])

end Driver
