import Driver.Canon
import Bisquitt.Spec.Topics

namespace Driver
open Bisquitt

def parseAdds (s : String) : Option (List (Bytes × UInt16 × Bytes)) :=
  if s == "-" then some [] else
  (s.splitOn ",").mapM fun e =>
    match e.splitOn ":" with
    | [c, id, n] => do pure (← parseHex c, ← n16 id, ← parseHex n)
    | _ => none

def buildCfg (as : List (Bytes × UInt16 × Bytes)) : Predef :=
  as.foldl (fun t (c, id, n) => t.add c n id) []

def pad5 (n : Nat) : String :=
  let s := toString n
  String.ofList (List.replicate (5 - s.length) '0') ++ s

/-- canonical rendering of the live bindings, same as the Go driver's tCanon -/
def canonCfg (t : Predef) : String :=
  let clients := (t.map (·.1)).eraseDups
  let entries := clients.flatMap fun c =>
    match t.lookup c with
    | some m => (Predef.liveIds m).filterMap fun id =>
        (m.lookup id).map fun n => s!"{hexOf c}:{pad5 id.toNat}:{hexOf n}"
    | none => []
  if entries.isEmpty then "-" else
  String.intercalate "," (entries.toArray.qsort (· < ·)).toList

def optStr : Option Bytes → String
  | some n => s!"some {hexOf n}"
  | none => "none"

def topicsLine (line : String) : List String :=
  match line.splitOn " => " with
  | [lhs, impl] =>
    match words lhs with
    | ["Q", adds, ";", "name", c, id] =>
      match parseAdds adds, parseHex c, n16 id with
      | some as, some cb, some idv =>
        let t := buildCfg as
        let model := optStr (t.getTopicName cb idv)
        let d := if model == impl then [] else [s!"DIFF topics name {lhs} impl=[{impl}] model=[{model}]"]
        let m := if optStr (Spec.specName t cb idv) == impl then [] else
          [s!"MON C05 name-precedence {lhs} impl=[{impl}] spec=[{optStr (Spec.specName t cb idv)}]"]
        d ++ m
      | _, _, _ => [s!"BADLINE {line}"]
    | ["Q", adds, ";", "id", c, n] =>
      match parseAdds adds, parseHex c, parseHex n with
      | some as, some cb, some nb =>
        let t := buildCfg as
        let set := t.getTopicIdSet cb nb
        let ans : Option (Option UInt16) :=
          match words impl with
          | ["none"] => some none
          | ["some", x] => (n16 x).map some
          | _ => none
        match ans with
        | none => [s!"BADLINE {line}"]
        | some a =>
          let agree := match a with
            | none => set.isEmpty
            | some id => set.contains id
          let d := if agree then [] else [s!"DIFF topics id {lhs} impl=[{impl}] model-admissible={set}"]
          let m := if Spec.c05IdOk t cb nb a then [] else [s!"MON C05 id-readback {lhs} impl=[{impl}]"]
          d ++ m
      | _, _, _ => [s!"BADLINE {line}"]
    | ["M", a1, "/", a2] =>
      match parseAdds a1, parseAdds a2 with
      | some x, some y =>
        let model := canonCfg ((buildCfg x).merge (buildCfg y))
        if model == impl then [] else [s!"DIFF topics merge {lhs} impl=[{impl}] model=[{model}]"]
      | _, _ => [s!"BADLINE {line}"]
    | ["P", opts] =>
      match (opts.splitOn ",").mapM parseHex with
      | some os =>
        let model := match parseOptions os with
          | some t => s!"ok {canonCfg t}"
          | none => "err"
        if model == impl then [] else [s!"DIFF topics parse {lhs} impl=[{impl}] model=[{model}]"]
      | none => [s!"BADLINE {line}"]
    | _ => [s!"BADLINE {line}"]
  | _ => if line.startsWith "#" || line.isEmpty then [] else [s!"BADLINE {line}"]

end Driver
