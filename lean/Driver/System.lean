/-
  Model driver for the system suite (C26): a case is a header, the script (`@<i> op …`) and what the
  real client, the real gateway and the harness' broker showed (`> ret`, `> handler`, `> broker`,
  `> subs`).  The composed model runs the same script (correspondence, `DIFF system`); the
  specification's expectations are checked against the implementation's lines (`MON C26`).
-/
import Driver.Client
import Bisquitt.Spec.System

namespace Driver
open Bisquitt Bisquitt.Sys

def parseSysOp (ws : List String) : Option Sys.Op :=
  match ws with
  | _ :: "inject" :: t :: q :: p :: [] => do pure (.inject (← parseHex t) (← parseHex p) (← n8 q))
  | _ :: "burst" :: t :: q :: ps => do pure (.burst (← parseHex t) (← n8 q) (← ps.mapM parseHex))
  | c :: "sleepinject" :: d :: t :: q :: p :: [] =>
    do pure (.sleepInject c (← d.toNat?) (← parseHex t) (← parseHex p) (← n8 q))
  | c :: "publish" :: n :: q :: p :: [] => do pure (.api c (.publish (← parseHex n) (← n8 q) false (← parseHex p)))
  | c :: "publishr" :: n :: q :: p :: [] => do pure (.api c (.publish (← parseHex n) (← n8 q) true (← parseHex p)))
  | c :: "publishpre" :: i :: q :: p :: [] => do pure (.api c (.publishPre (← n16 i) (← n8 q) false (← parseHex p)))
  | c :: "publishprer" :: i :: q :: p :: [] => do pure (.api c (.publishPre (← n16 i) (← n8 q) true (← parseHex p)))
  | c :: rest => (parseApi rest).map fun a => .api c a
  | [] => none

def sysRecvStr (r : Bytes × Bytes × UInt8 × Bool) : String :=
  s!"topic={hexOf r.1} payload={hexOf r.2.1} qos={r.2.2.1} retain={if r.2.2.2 then "true" else "false"}"

def sysSubsStr (l : List (Bytes × UInt8)) : String :=
  String.intercalate "," (sortStrs (l.map fun s => s!"{hexOf s.1}:{s.2}"))

def sysErrNorm (s : String) : String := if s.startsWith "rejected" then "rejected" else s

structure ImplHandler where
  filter : String
  topic : String
  payload : String
  qos : String
  deriving Repr, BEq

def parseImplHandler (ws : List String) : Option ImplHandler :=
  match ws with
  | [f, t, p, q] =>
    if f.startsWith "filter=" && t.startsWith "topic=" && p.startsWith "payload=" && q.startsWith "qos=" then
      some { filter := (f.drop 7).toString, topic := (t.drop 6).toString, payload := (p.drop 8).toString, qos := (q.drop 4).toString }
    else none
  | _ => none

def dedupStrs (l : List String) : List String := (sortStrs l).eraseDups

def systemCase (hdr : String) (lines : List String) : List String :=
  let caseId := (words hdr).getD 1 "?"
  let toks := words hdr
  let nat := fun (k : String) (d : Nat) => ((kvOf toks k).bind String.toNat?).getD d
  match parseHex ((kvOf toks "cid").getD "-"), parsePredef ((kvOf toks "predef").getD "-") with
  | some cid, some predef =>
    let rd := nat "rd" 500
    let rc := nat "rc" 3
    let ccfg : Cl.Cfg := { cid := cid, user := none, pass := [], ka := nat "ka" 30, ct := 2000, rd := rd, rc := rc,
                           clean := true, will := none, predef := predef }
    let gcfg : Gw.Cfg := { auth := false, user := none, pass := none, retryDelay := rd, retryCount := rc, predef := predef }
    let opLines := lines.filter (·.startsWith "@")
    match opLines.mapM (fun l => parseSysOp (words l)) with
    | none => [s!"BADLINE unparsable op in case {caseId}"]
    | some ops =>
      let impl := (lines.filter (·.startsWith "> ")).map fun l => words (l.drop 2).toString
      let iRets := impl.filterMap fun ws => match ws with
        | ["ret", c, e] => some s!"{c} {sysErrNorm e}"
        | _ => none
      let iRecv := impl.filterMap fun ws => match ws with
        | "broker" :: rest => some (String.intercalate " " rest)
        | _ => none
      let iSubs := (impl.filterMap fun ws => match ws with
        | ["subs"] => some ""
        | ["subs", s] => some s
        | _ => none).getLast?.getD "?"
      let iHandlers := impl.filterMap fun ws => match ws with
        | "handler" :: rest => parseImplHandler rest
        | _ => none
      let bad := impl.filter fun ws => match ws with
        | "ret" :: _ => false | "broker" :: _ => false | "subs" :: _ => false
        | "handler" :: rest => (parseImplHandler rest).isNone
        | _ => true
      if !bad.isEmpty then [s!"BADLINE case {caseId}: {String.intercalate " " (bad.head!)}"] else
      -- the composed model
      let s := Sys.run (Sys.init ccfg gcfg) ops
      let mObs := s.obs.reverse
      let mRets := mObs.filterMap fun o => match o with
        | .ret c e => some s!"{c} {clErrStr e}"
        | _ => none
      let mHandlers := mObs.filterMap fun o => match o with
        | .handler fs t p q => some (fs.map hexOf, hexOf t, hexOf p, toString q)
        | _ => none
      let mRecv := s.br.recv.reverse.map sysRecvStr
      let mSubs := sysSubsStr s.br.subs
      let firstDiff := fun (a b : List String) =>
        match (a.zip b).find? (fun p => p.1 != p.2) with
        | some (x, y) => s!"impl=[{x.take 100}] model=[{y.take 100}]"
        | none => s!"impl has {a.length}, model {b.length}"
      let d1 := if iRets == mRets then [] else [s!"DIFF system results case={caseId} {firstDiff iRets mRets}"]
      let d2 := if iRecv == mRecv then [] else [s!"DIFF system broker-received case={caseId} {firstDiff iRecv mRecv}"]
      let d3 := if iSubs == mSubs then [] else [s!"DIFF system broker-subscriptions case={caseId} impl=[{iSubs}] model=[{mSubs}]"]
      let iSet := dedupStrs (iHandlers.map fun h => s!"{h.topic} {h.payload} {h.qos}")
      let mSet := dedupStrs (mHandlers.map fun h => s!"{h.2.1} {h.2.2.1} {h.2.2.2}")
      let d4 := if iSet == mSet then [] else [s!"DIFF system delivered case={caseId} {firstDiff iSet mSet}"]
      let d5 := iHandlers.filterMap fun h =>
        match mHandlers.find? (fun m => m.2.1 == h.topic && m.2.2.1 == h.payload) with
        | some m => if m.1.contains h.filter then none else
            some s!"DIFF system handler case={caseId} topic={h.topic} impl-filter={h.filter} model-admissible={m.1}"
        | none => none
      -- the specification
      let a := Sys.expect cid predef rd rc ops
      let opKind := fun (c : String) =>
        ((opLines.map words).find? (fun ws => ws.head? == some c)).bind (·[1]?) |>.getD "?"
      let eRets := a.exp.rets.map fun r => (r.1, clErrStr r.2)
      let iRetPairs := impl.filterMap fun ws => match ws with
        | ["ret", c, e] => some (c, sysErrNorm e)
        | _ => none
      let m1 := eRets.filterMap fun (c, e) =>
        match iRetPairs.lookup c with
        | some e' => if e' == e then none else
            some s!"MON C26 call-failed/{opKind c} case={caseId} call={c} expected={e} got={e'}"
        | none => some s!"MON C26 call-did-not-return/{opKind c} case={caseId} call={c}"
      let eRecv := a.exp.recv.map sysRecvStr
      let m2 := if iRecv == eRecv then [] else
        [s!"MON C26 broker-effect/publishes-differ case={caseId} {firstDiff iRecv eRecv}"]
      let eSubs := sysSubsStr a.subsTable
      let m3 := if iSubs == eSubs then [] else
        [s!"MON C26 broker-effect/subscriptions-differ case={caseId} broker=[{iSubs}] expected=[{eSubs}]"]
      let m4 := a.exp.deliveries.filterMap fun d =>
        let hits := iHandlers.filter fun h => h.topic == hexOf d.topic && h.payload == hexOf d.payload
        if hits.isEmpty then
          some s!"MON C26 message-not-delivered/{d.ctx} case={caseId} topic={hexOf d.topic} payload={hexOf d.payload}"
        else match hits.find? (fun h => !(d.labels.map hexOf).contains h.filter || h.qos != toString d.qos) with
          | some h => some s!"MON C26 message-misdelivered/{d.ctx} case={caseId} topic={hexOf d.topic} payload={hexOf d.payload} handler={h.filter} qos={h.qos} expected-qos={d.qos}"
          | none => none
      let m5 := iHandlers.filterMap fun h =>
        if a.exp.deliveries.any (fun d => h.topic == hexOf d.topic && h.payload == hexOf d.payload) then none
        else some s!"MON C26 unexpected-delivery case={caseId} topic={h.topic} payload={h.payload} handler={h.filter}"
      d1 ++ d2 ++ d3 ++ d4 ++ d5 ++ m1 ++ m2 ++ m3 ++ m4 ++ m5.eraseDups
  | _, _ => [s!"BADLINE {hdr}"]

end Driver
