/-
  Line-protocol helpers for the model driver: hex, canonical packet rendering/parsing
  (the same format as harness/packets1_canon.go).
-/
import Bisquitt.Model.Wire

namespace Driver
open Bisquitt

def hexDigit (n : Nat) : Char :=
  if n < 10 then Char.ofNat (48 + n) else Char.ofNat (87 + n)

def hexOf (bs : Bytes) : String :=
  if bs.isEmpty then "-" else
  String.ofList (bs.foldr (fun b acc => hexDigit (b.toNat / 16) :: hexDigit (b.toNat % 16) :: acc) [])

def hexVal (c : Char) : Option Nat :=
  if '0' ≤ c ∧ c ≤ '9' then some (c.toNat - 48)
  else if 'a' ≤ c ∧ c ≤ 'f' then some (c.toNat - 87)
  else if 'A' ≤ c ∧ c ≤ 'F' then some (c.toNat - 55)
  else none

def parseHexChars : List Char → Option Bytes
  | [] => some []
  | a :: b :: rest => do
    let x ← hexVal a
    let y ← hexVal b
    let r ← parseHexChars rest
    pure (UInt8.ofNat (x * 16 + y) :: r)
  | _ => none

def parseHex (s : String) : Option Bytes :=
  if s == "-" then some [] else parseHexChars s.toList

def b01 (b : Bool) : String := if b then "1" else "0"

def canon : Pkt → String
  | .advertise g d => s!"advertise {g} {d}"
  | .searchgw r => s!"searchgw {r}"
  | .gwinfo g a => s!"gwinfo {g} {hexOf a}"
  | .auth r m d => s!"auth {r} {hexOf m} {hexOf d}"
  | .connect w c p d cid => s!"connect {b01 w} {b01 c} {p} {d} {hexOf cid}"
  | .connack rc => s!"connack {rc}"
  | .willtopicreq => "willtopicreq"
  | .willtopic q r t => s!"willtopic {q} {b01 r} {hexOf t}"
  | .willmsgreq => "willmsgreq"
  | .willmsg m => s!"willmsg {hexOf m}"
  | .register t m n => s!"register {t} {m} {hexOf n}"
  | .regack t m rc => s!"regack {t} {m} {rc}"
  | .publish dup q r tit t m d => s!"publish {b01 dup} {q} {b01 r} {tit} {t} {m} {hexOf d}"
  | .puback t m rc => s!"puback {t} {m} {rc}"
  | .pubcomp m => s!"pubcomp {m}"
  | .pubrec m => s!"pubrec {m}"
  | .pubrel m => s!"pubrel {m}"
  | .subscribe dup q tit m t n => s!"subscribe {b01 dup} {q} {tit} {m} {t} {hexOf n}"
  | .suback q t m rc => s!"suback {q} {t} {m} {rc}"
  | .unsubscribe tit m t n => s!"unsubscribe {tit} {m} {t} {hexOf n}"
  | .unsuback m => s!"unsuback {m}"
  | .pingreq cid => s!"pingreq {hexOf cid}"
  | .pingresp => "pingresp"
  | .disconnect d => s!"disconnect {d}"
  | .willtopicupd q r t => s!"willtopicupd {q} {b01 r} {hexOf t}"
  | .willtopicresp rc => s!"willtopicresp {rc}"
  | .willmsgupd m => s!"willmsgupd {hexOf m}"
  | .willmsgresp rc => s!"willmsgresp {rc}"

def n8 (s : String) : Option UInt8 := s.toNat?.bind fun n => if n < 256 then some (UInt8.ofNat n) else none
def n16 (s : String) : Option UInt16 := s.toNat?.bind fun n => if n < 65536 then some (UInt16.ofNat n) else none
def nb (s : String) : Option Bool := if s == "1" then some true else if s == "0" then some false else none

def parseCanon (toks : List String) : Option Pkt :=
  match toks with
  | ["advertise", g, d] => do pure (.advertise (← n8 g) (← n16 d))
  | ["searchgw", r] => do pure (.searchgw (← n8 r))
  | ["gwinfo", g, a] => do pure (.gwinfo (← n8 g) (← parseHex a))
  | ["auth", r, m, d] => do pure (.auth (← n8 r) (← parseHex m) (← parseHex d))
  | ["connect", w, c, p, d, cid] => do
      pure (.connect (← nb w) (← nb c) (← n8 p) (← n16 d) (← parseHex cid))
  | ["connack", rc] => do pure (.connack (← n8 rc))
  | ["willtopicreq"] => some .willtopicreq
  | ["willtopic", q, r, t] => do pure (.willtopic (← n8 q) (← nb r) (← parseHex t))
  | ["willmsgreq"] => some .willmsgreq
  | ["willmsg", m] => do pure (.willmsg (← parseHex m))
  | ["register", t, m, n] => do pure (.register (← n16 t) (← n16 m) (← parseHex n))
  | ["regack", t, m, rc] => do pure (.regack (← n16 t) (← n16 m) (← n8 rc))
  | ["publish", dup, q, r, tit, t, m, d] => do
      pure (.publish (← nb dup) (← n8 q) (← nb r) (← n8 tit) (← n16 t) (← n16 m) (← parseHex d))
  | ["puback", t, m, rc] => do pure (.puback (← n16 t) (← n16 m) (← n8 rc))
  | ["pubcomp", m] => do pure (.pubcomp (← n16 m))
  | ["pubrec", m] => do pure (.pubrec (← n16 m))
  | ["pubrel", m] => do pure (.pubrel (← n16 m))
  | ["subscribe", dup, q, tit, m, t, n] => do
      pure (.subscribe (← nb dup) (← n8 q) (← n8 tit) (← n16 m) (← n16 t) (← parseHex n))
  | ["suback", q, t, m, rc] => do pure (.suback (← n8 q) (← n16 t) (← n16 m) (← n8 rc))
  | ["unsubscribe", tit, m, t, n] => do
      pure (.unsubscribe (← n8 tit) (← n16 m) (← n16 t) (← parseHex n))
  | ["unsuback", m] => do pure (.unsuback (← n16 m))
  | ["pingreq", cid] => do pure (.pingreq (← parseHex cid))
  | ["pingresp"] => some .pingresp
  | ["disconnect", d] => do pure (.disconnect (← n16 d))
  | ["willtopicupd", q, r, t] => do pure (.willtopicupd (← n8 q) (← nb r) (← parseHex t))
  | ["willtopicresp", rc] => do pure (.willtopicresp (← n8 rc))
  | ["willmsgupd", m] => do pure (.willmsgupd (← parseHex m))
  | ["willmsgresp", rc] => do pure (.willmsgresp (← n8 rc))
  | _ => none

def words (s : String) : List String := (s.splitOn " ").filter (· ≠ "")

/-- rendering of a decode outcome, same shape as the Go driver's `vDecodeResult` -/
def decodeResult (bs : Bytes) : String :=
  match decode bs with
  | .panic => "PANIC"
  | .err => "ERR"
  | .ok (h, p) =>
    s!"OK {h.pktLength} {h.headerLength} | {canon p} | {hexOf (pack h p)}"

end Driver
