import Driver.Codec
import Driver.Topics

open Driver

partial def loop (h : IO.FS.Stream) (out : IO.FS.Stream) (f : String → List String)
    (n nout : Nat) : IO (Nat × Nat) := do
  let line ← h.getLine
  if line.isEmpty then return (n, nout)
  let line := (line.dropRightWhile (fun c => c == '\n' || c == '\r'))
  let res := f line
  for r in res do out.putStrLn r
  loop h out f (n + 1) (nout + res.length)

def main (args : List String) : IO UInt32 := do
  let stdin ← IO.getStdin
  let stdout ← IO.getStdout
  match args with
  | ["codec"] =>
    let (n, k) ← loop stdin stdout codecLine 0 0
    stdout.putStrLn s!"SUMMARY codec lines={n} reports={k}"
    return 0
  | ["topics"] =>
    let (n, k) ← loop stdin stdout topicsLine 0 0
    stdout.putStrLn s!"SUMMARY topics lines={n} reports={k}"
    return 0
  | _ =>
    IO.eprintln "usage: bisq <suite>"
    return 2
