import Driver.Codec
import Driver.Topics
import Driver.Tx
import Driver.Util
import Driver.Gateway
import Driver.Cli
import Driver.Client
import Driver.System

open Driver

partial def loop (h : IO.FS.Stream) (out : IO.FS.Stream) (f : String → List String)
    (n nout : Nat) : IO (Nat × Nat) := do
  let line ← h.getLine
  if line.isEmpty then return (n, nout)
  let line := (line.dropRightWhile (fun c => c == '\n' || c == '\r'))
  let res := f line
  for r in res do out.putStrLn r
  loop h out f (n + 1) (nout + res.length)

/-- case-structured suites: a header line followed by `> ...` implementation lines -/
partial def caseLoop (h : IO.FS.Stream) (out : IO.FS.Stream) (f : String → List String → List String)
    (cur : Option String) (acc : Array String) (n nout : Nat) : IO (Nat × Nat) := do
  let line ← h.getLine
  let flush : IO Nat := do
    match cur with
    | some hdr =>
      let res := f hdr acc.toList
      for r in res do out.putStrLn r
      pure res.length
    | none => pure 0
  if line.isEmpty then
    let k ← flush
    return (n, nout + k)
  let line := (line.dropRightWhile (fun c => c == '\n' || c == '\r'))
  if line.startsWith ">" || line.startsWith "@" then
    caseLoop h out f cur (acc.push line) n nout
  else if line.startsWith "#" || line.isEmpty then
    caseLoop h out f cur acc n nout
  else
    let k ← flush
    caseLoop h out f (some line) #[] (n + 1) (nout + k)

partial def stLoop {σ} (h : IO.FS.Stream) (out : IO.FS.Stream) (f : σ → String → σ × List String) (st : σ)
    (n nout : Nat) : IO (Nat × Nat) := do
  let line ← h.getLine
  if line.isEmpty then return (n, nout)
  let line := (line.dropRightWhile (fun c => c == '\n' || c == '\r'))
  let (st', res) := f st line
  for r in res do out.putStrLn r
  stLoop h out f st' (n + 1) (nout + res.length)

def main (args : List String) : IO UInt32 := do
  let stdin ← IO.getStdin
  let stdout ← IO.getStdout
  match args with
  | ["codec"] =>
    let (n, k) ← loop stdin stdout codecLine 0 0
    stdout.putStrLn s!"SUMMARY codec lines={n} reports={k}"
    return 0
  | ["topics"] =>
    let (n, k) ← loop stdin stdout topicsLine 0 0
    stdout.putStrLn s!"SUMMARY topics lines={n} reports={k}"
    return 0
  | ["idseq"] =>
    let (n, k) ← loop stdin stdout idseqLine 0 0
    stdout.putStrLn s!"SUMMARY idseq lines={n} reports={k}"
    return 0
  | ["store"] =>
    let (n, k) ← loop stdin stdout storeLine 0 0
    stdout.putStrLn s!"SUMMARY store lines={n} reports={k}"
    return 0
  | ["match"] =>
    let (n, k) ← loop stdin stdout (matchLine Bisquitt.specMatch) 0 0
    stdout.putStrLn s!"SUMMARY match lines={n} reports={k}"
    return 0
  | ["gateway"] =>
    let (n, k) ← caseLoop stdin stdout gatewayCase none #[] 0 0
    stdout.putStrLn s!"SUMMARY gateway cases={n} reports={k}"
    return 0
  | ["client"] =>
    let (n, k) ← caseLoop stdin stdout clientCase none #[] 0 0
    stdout.putStrLn s!"SUMMARY client cases={n} reports={k}"
    return 0
  | ["cli"] =>
    let (n, k) ← stLoop stdin stdout cliLine ({} : CliState) 0 0
    stdout.putStrLn s!"SUMMARY cli lines={n} reports={k}"
    return 0
  | ["system"] =>
    let (n, k) ← caseLoop stdin stdout systemCase none #[] 0 0
    stdout.putStrLn s!"SUMMARY system cases={n} reports={k}"
    return 0
  | ["tx"] =>
    let (n, k) ← caseLoop stdin stdout txCase none #[] 0 0
    stdout.putStrLn s!"SUMMARY tx cases={n} reports={k}"
    return 0
  | _ =>
    IO.eprintln "usage: bisq <suite>"
    return 2
