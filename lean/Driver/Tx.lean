import Driver.Canon
import Bisquitt.Spec.Tx

namespace Driver
open Bisquitt Bisquitt.Tx Bisquitt.Spec

def errStr : Option Err → String
  | none => "nil"
  | some .timeout => "timeout"
  | some .noMoreRetries => "nomoreretries"
  | some .cancelled => "cancelled"
  | some (.user n) => s!"user{n}"

def parseErr (s : String) : Option (Option Err) :=
  if s == "nil" then some none
  else if s == "timeout" then some (some .timeout)
  else if s == "nomoreretries" then some (some .noMoreRetries)
  else if s.startsWith "user" then (s.drop 4).toString.toNat?.map fun n => some (.user n)
  else none

/-- parse the script of an X case -/
def parseScript (s : String) : Option (List TxOp × List (Nat × Nat)) :=
  let parts := (s.splitOn ";").map String.trim |>.filter (· ≠ "")
  parts.foldlM (fun (acc : List TxOp × List (Nat × Nat)) f =>
    if f.startsWith "E:" then
      match f.splitOn ":" with
      | [_, k, n] => do pure (acc.1, acc.2 ++ [(← k.toNat?, ← n.toNat?)])
      | _ => none
    else
      match f.splitOn "@" with
      | [kind, rest] =>
        let (ts, arg) := match rest.splitOn ":" with
          | [a, b] => (a, b.toNat?.getD 0)
          | _ => (rest, 0)
        ts.toNat?.bind fun t =>
          let op? : Option TxOp :=
            if kind == "P" then some (.proceed t) else if kind == "S" then some (.success t)
            else if kind == "F" then some (.fail t arg) else if kind == "C" then some (.cancel t)
            else if kind == "end" then some (.stop t) else none
          op?.map fun op => (acc.1 ++ [op], acc.2)
      | _ => none) ([], [])

def sortOps (ops : List TxOp) : List TxOp :=
  (ops.toArray.insertionSort (fun a b => a.time < b.time)).toList

def obsLines (os : List Obs) : List String :=
  os.reverse.flatMap fun o => match o with
    | .cb t k => [s!"> {t} cb {k}"]
    | .done t e => [s!"> {t} finally", s!"> {t} done {errStr e}"]

/-- model output for a retry X case -/
def modelRetry (count delay : Nat) (ops : List TxOp) (cbErrs : List (Nat × Nat)) : List String :=
  let cbErr := fun k => cbErrs.lookup k
  let fuel := count + 3
  let r0 : Retry := { delay := delay, count := count }
  let (r, lines, _) := ops.foldl (fun (st : Retry × List String × Option Err) op =>
    let (r, lines, lastErr) := st
    let t := op.time
    let r := Retry.runUntil cbErr fuel r t
    let r := match op with
      | .proceed _ => r.proceed t
      | .success _ => r.success t
      | .fail _ n => r.fail t (.user n)
      | .cancel _ => r.cancel
      | .stop _ => r
    let r := Retry.runUntil cbErr fuel r t
    let newLines := obsLines r.log
    let r := { r with log := [] }
    let (errLine, lastErr) := if r.base.err != lastErr then ([s!"> {t} err {errStr r.base.err}"], r.base.err) else ([], lastErr)
    (r, lines ++ newLines ++ errLine, lastErr)) (r0, [], none)
  let tEnd := (ops.getLast?.map TxOp.time).getD 0
  lines ++ [s!"> {tEnd} final done={r.base.done} err={errStr r.base.err} finally={r.base.finallyRuns} cbs={r.cbs}"]

def modelTimed (timeout : Nat) (ops : List TxOp) : List String :=
  let r0 := Timed.new 0 timeout
  let (r, lines, _) := ops.foldl (fun (st : Timed × List String × Option Err) op =>
    let (r, lines, lastErr) := st
    let t := op.time
    let r := r.runUntil t
    let r := match op with
      | .success _ => r.success t
      | .fail _ n => r.fail t (.user n)
      | .cancel _ => r.cancel
      | _ => r
    let newLines := obsLines r.log
    let r := { r with log := [] }
    let (errLine, lastErr) := if r.base.err != lastErr then ([s!"> {t} err {errStr r.base.err}"], r.base.err) else ([], lastErr)
    (r, lines ++ newLines ++ errLine, lastErr)) (r0, [], none)
  let tEnd := (ops.getLast?.map TxOp.time).getD 0
  lines ++ [s!"> {tEnd} final done={r.base.done} err={errStr r.base.err} finally={r.base.finallyRuns} cbs=0"]

def parseBool (s : String) : Option Bool := if s == "true" then some true else if s == "false" then some false else none

def kv (s key : String) : Option String :=
  if s.startsWith (key ++ "=") then some (s.drop (key.length + 1)).toString else none

/-- parse an implementation X-case line `> t kind ...` -/
def parseObs (l : String) : Option TxObs :=
  match words l with
  | [">", t, "cb", k] => do pure (.cb (← t.toNat?) (← k.toNat?))
  | [">", t, "finally"] => do pure (.fin (← t.toNat?))
  | [">", t, "done", e] => do pure (.done (← t.toNat?) (← parseErr e))
  | [">", t, "err", e] => do pure (.err (← t.toNat?) (← parseErr e))
  | [">", _, "final", d, e, f, c] => do
      pure (.final (← (kv d "done").bind parseBool) (← (kv e "err").bind parseErr)
        (← (kv f "finally").bind String.toNat?) (← (kv c "cbs").bind String.toNat?))
  | _ => none

/-- process one complete case (header + implementation lines) -/
def txCase (hdr : String) (impl : List String) : List String :=
  match hdr.splitOn " | " with
  | [h, script] =>
    match words h, parseScript script with
    | ["X", kind, a, b], some (ops, cbErrs) =>
      match a.toNat?, b.toNat? with
      | some av, some bv =>
        let ops := sortOps ops
        let model := if kind == "retry" then modelRetry av bv ops cbErrs else modelTimed av ops
        let d := if model == impl then [] else
          [s!"DIFF tx X [{hdr}] impl=[{String.intercalate " / " impl}] model=[{String.intercalate " / " model}]"]
        match impl.mapM parseObs with
        | none => d ++ [s!"BADLINE {hdr} :: {String.intercalate " / " impl}"]
        | some obs =>
          let m18 := if c18ok obs then [] else [s!"MON C18 finished-not-final [{hdr}] impl=[{String.intercalate " / " impl}]"]
          let m19 :=
            if kind == "retry" then
              (if cbErrs.isEmpty && !c19RetryOk av bv ops obs then
                [s!"MON C19 retry-budget [{hdr}] impl=[{String.intercalate " / " impl}]"] else [])
            else (if !c19TimedOk av ops obs then [s!"MON C19 timeout-budget [{hdr}] impl=[{String.intercalate " / " impl}]"] else [])
          d ++ m18 ++ m19
      | _, _ => [s!"BADLINE {hdr}"]
    | _, _ => [s!"BADLINE {hdr}"]
  | _ =>
    match words hdr with
    | "Y" :: _ =>
      -- forced interleaving, real time: monitor only
      let afterDone := impl.any (fun l => l.endsWith "afterdone")
      let errChanged := impl.any (fun l => l.startsWith "> errchanged")
      let finallys := (impl.filter (· == "> finally")).length
      let dones := (impl.filter (fun l => l.startsWith "> done")).length
      if afterDone || errChanged || finallys != dones || dones > 1 then
        [s!"MON C18 finished-not-final [{hdr}] impl=[{String.intercalate " / " impl}]"] else []
    | "Z" :: _ => []
    | _ => [s!"BADLINE {hdr}"]

end Driver
