import Driver.Canon
import Bisquitt.Model.IdSeq
import Bisquitt.Spec.Match

namespace Driver
open Bisquitt

def fmtRes (rs : List (UInt16 × Bool)) : String :=
  String.intercalate "," (rs.map fun (id, ov) => s!"{id}:{b01 ov}")

def parseRes (s : String) : Option (List (UInt16 × Bool)) :=
  if s.isEmpty then some [] else
  (s.splitOn ",").mapM fun e =>
    match e.splitOn ":" with
    | [id, ov] => do pure (← n16 id, ← nb ov)
    | _ => none

/-- C29 spec, directly from the property text: the k-th call returns min + k mod n and
    reports overflow iff k > 0 and k mod n = 0 -/
def specSeq (mn mx : Nat) (skip k : Nat) : List (UInt16 × Bool) :=
  let n := mx - mn + 1
  (List.range k).map fun j =>
    let i := skip + j
    (UInt16.ofNat (mn + i % n), decide (0 < i ∧ i % n = 0))

def sortRes (rs : List (UInt16 × Bool)) : List (UInt16 × Bool) :=
  (rs.toArray.qsort (fun a b => a.1 < b.1 || (a.1 == b.1 && !a.2 && b.2))).toList

def idseqLine (line : String) : List String :=
  match line.splitOn " => " with
  | [lhs, impl] =>
    match words lhs with
    | [kind, mn, mx, k] =>
      match n16 mn, n16 mx, k.toNat? with
      | some mnv, some mxv, some kv =>
        if kind == "I" then
          let model := fmtRes (IdSeq.steps kv (IdSeq.new mnv mxv)).1
          let d := if model == impl then [] else [s!"DIFF idseq {lhs} impl=[{impl.take 300}] model=[{model.take 300}]"]
          let m := if fmtRes (specSeq mnv.toNat mxv.toNat 0 kv) == impl then [] else
            [s!"MON C29 idseq-sequence {lhs} impl=[{impl.take 300}]"]
          d ++ m
        else if kind == "W" then
          -- kv calls were skipped, then 8 results printed
          let (_, st) := IdSeq.steps kv (IdSeq.new mnv mxv)
          let model := fmtRes (IdSeq.steps 8 st).1
          let d := if model == impl then [] else [s!"DIFF idseq {lhs} impl=[{impl}] model=[{model}]"]
          let m := if fmtRes (specSeq mnv.toNat mxv.toNat kv 8) == impl then [] else
            [s!"MON C29 idseq-wrap {lhs} impl=[{impl}]"]
          d ++ m
        else if kind == "J" then
          -- concurrent: sorted multiset of kv results
          let model := fmtRes (sortRes (IdSeq.steps kv (IdSeq.new mnv mxv)).1)
          if model == impl then [] else
            [s!"DIFF idseq {lhs} impl=[{impl.take 200}] model=[{model.take 200}]",
             s!"MON C29 idseq-not-atomic {lhs} impl=[{impl.take 300}]"]
        else [s!"BADLINE {line.take 200}"]
      | _, _, _ => [s!"BADLINE {line.take 200}"]
    | _ => [s!"BADLINE {line.take 200}"]
  | _ => if line.startsWith "#" || line.isEmpty then [] else [s!"BADLINE {line.take 200}"]

/-- one `T` line: replay the ops on the model store and on the plain-map spec -/
def storeLine (line : String) : List String :=
  if !line.startsWith "T " then (if line.isEmpty then [] else [s!"BADLINE {line.take 200}"]) else
  let ops := ((line.drop 2).toString.splitOn ";").map String.trim
  let step := fun (st : Store Nat × List String) (op : String) =>
    let (s, bad) := st
    match words op with
    | ["s", k, v] => match n16 k, v.toNat? with
      | some kk, some vv => (s.store kk vv, bad)
      | _, _ => (s, bad ++ [op])
    | ["d", k] => match n16 k with
      | some kk => (s.delete kk, bad)
      | none => (s, bad ++ [op])
    | ["S", k, v] => match n8 k, v.toNat? with
      | some kk, some vv => (s.storeByType kk vv, bad)
      | _, _ => (s, bad ++ [op])
    | ["D", k] => match n8 k with
      | some kk => (s.deleteByType kk, bad)
      | none => (s, bad ++ [op])
    | ["g", kv] => match kv.splitOn "=" with
      | [k, v] => match n16 k with
        | some kk =>
          let exp := match s.get kk with | some x => toString x | none => "-"
          if exp == v then (s, bad) else (s, bad ++ [s!"{op} (model {exp})"])
        | none => (s, bad ++ [op])
      | _ => (s, bad ++ [op])
    | ["G", kv] => match kv.splitOn "=" with
      | [k, v] => match n8 k with
        | some kk =>
          let exp := match s.getByType kk with | some x => toString x | none => "-"
          if exp == v then (s, bad) else (s, bad ++ [s!"{op} (model {exp})"])
        | none => (s, bad ++ [op])
      | _ => (s, bad ++ [op])
    | _ => (s, bad ++ [op])
  let (_, bad) := ops.foldl step (Store.empty, [])
  if bad.isEmpty then [] else
    [s!"DIFF store first-mismatch=[{bad.head!}] line=[{line.take 400}]",
     s!"MON C29 store-not-a-map first-mismatch=[{bad.head!}] line=[{line.take 400}]"]

end Driver

namespace Driver
open Bisquitt

def joinLevels (ls : List Bytes) : Bytes :=
  match ls with
  | [] => []
  | l :: rest => rest.foldl (fun acc x => acc ++ [0x2F] ++ x) l

def matchLine (specMatch : List Bytes → List Bytes → Bool) (line : String) : List String :=
  match line.splitOn " => " with
  | [lhs, impl] =>
    match words lhs with
    | ["K", f, n] =>
      match parseHex f, parseHex n with
      | some fb, some nb =>
        let fr := splitTopic fb
        let nr := splitTopic nb
        let model := s!"{b01 (matchRoute fr nr)} {fr.length} {nr.length}"
        let d := if model == impl then [] else [s!"DIFF match {lhs} impl=[{impl}] model=[{model}]"]
        let m := match words impl with
          | [r, _, _] => if r == b01 (specMatch fr nr) then [] else
              [s!"MON C27 filter-match filter={f} topic={n} impl={r} mqtt-rules={b01 (specMatch fr nr)}"]
          | _ => [s!"BADLINE {line}"]
        d ++ m
      | _, _ => [s!"BADLINE {line}"]
    | ["L", f] =>
      match parseHex f with
      | some fb =>
        let model := hexOf (joinLevels (splitTopic fb))
        if model == impl then [] else [s!"DIFF match join {lhs} impl=[{impl}] model=[{model}]"]
      | none => [s!"BADLINE {line}"]
    | _ => [s!"BADLINE {line}"]
  | _ => if line.startsWith "#" || line.isEmpty then [] else [s!"BADLINE {line}"]

end Driver
