import Driver.Canon
import Bisquitt.Model.Gateway

namespace Driver
open Bisquitt Bisquitt.Gw

def kvOf (toks : List String) (key : String) : Option String :=
  toks.findSome? fun t => if t.startsWith (key ++ "=") then some (t.drop (key.length + 1)).toString else none

def mqCanon : MqPkt → String
  | .connect cid clean ka uflag user pflag pass will wq wr wt wm =>
    s!"connect cid={hexOf cid} clean={b01 clean} ka={ka} uflag={b01 uflag} user={hexOf user} pflag={b01 pflag} pass={hexOf pass} will={b01 will} wq={wq} wr={b01 wr} wt={hexOf wt} wm={hexOf wm} pv=4"
  | .connack rc => s!"connack {rc}"
  | .publish dup q r mid topic payload =>
    s!"publish dup={b01 dup} qos={q} retain={b01 r} mid={mid} topic={hexOf topic} payload={hexOf payload}"
  | .puback m => s!"puback {m}" | .pubrec m => s!"pubrec {m}" | .pubrel m => s!"pubrel {m}"
  | .pubcomp m => s!"pubcomp {m}"
  | .subscribe mid dup topic q => s!"subscribe mid={mid} dup={b01 dup} topics={hexOf topic}:{q}"
  | .suback mid hq codes => s!"suback mid={mid} hq={hq} codes={String.intercalate "," (codes.map toString)}"
  | .unsubscribe mid topic => s!"unsubscribe mid={mid} topics={hexOf topic}"
  | .unsuback m => s!"unsuback {m}"
  | .pingreq => "pingreq" | .pingresp => "pingresp" | .disconnect => "disconnect"
  | .other => "other"

/-- broker → gateway packets of a script -/
def parseMq (toks : List String) : Option MqPkt :=
  match toks with
  | ["connack", rc] => do pure (.connack (← n8 rc))
  | "publish" :: rest => do
    let q ← (kvOf rest "qos").bind n8
    let mid ← (kvOf rest "mid").bind n16
    let topic ← (kvOf rest "topic").bind parseHex
    let payload ← match kvOf rest "plen" with
      | some n => n.toNat?.map fun k => List.replicate k (0x55 : UInt8)
      | none => (kvOf rest "payload").bind parseHex
    -- the message ID travels on the wire only for QoS > 0
    pure (.publish (kvOf rest "dup" == some "1") q (kvOf rest "retain" == some "1") (if q == 0 then 0 else mid) topic payload)
  | ["puback", m] => do pure (.puback (← n16 m))
  | ["pubrec", m] => do pure (.pubrec (← n16 m))
  | ["pubrel", m] => do pure (.pubrel (← n16 m))
  | ["pubcomp", m] => do pure (.pubcomp (← n16 m))
  | "suback" :: rest => do
    let mid ← (kvOf rest "mid").bind n16
    let hq ← (kvOf rest "hq").bind n8
    let cs := (kvOf rest "codes").getD ""
    let codes ← if cs == "" || cs == "-" then some [] else (cs.splitOn ",").mapM n8
    pure (.suback mid hq codes)
  | ["unsuback", m] => do pure (.unsuback (← n16 m))
  | ["pingresp"] => some .pingresp
  | ["pingreq"] => some .other
  | ["disconnect"] => some .other
  | "subscribe" :: _ => some .other
  | _ => none

def clsStr : EndCls → String
  | .clean => "clean" | .illegal => "illegal" | .mqttClosed => "mqttclosed"
  | .connectTimeout => "connect-timeout" | .connectFailed => "connect-failed" | .snDecode => "sn-decode"
  | .unknownTopic => "unknown-topic" | .badTopic => "bad-topic" | .unsupportedSn => "unsupported-sn"
  | .unsupportedMq => "unsupported-mq" | .mqDecode => "error" | .error => "error"

def outStr : Nat × Out → String
  | (t, .sn b) => s!"> {t} sn {hexOf b}"
  | (t, .mq p) => s!"> {t} mq {mqCanon p}"
  | (t, .mqClose) => s!"> {t} mqclose"
  | (t, .ended c) => s!"> {t} ended {clsStr c}"

def parsePredef (s : String) : Option Predef :=
  if s == "-" then some [] else
  (s.splitOn ",").foldlM (fun (acc : Predef) e =>
    match e.splitOn ":" with
    | [c, id, n] => do pure (acc.add (← parseHex c) (← parseHex n) (← n16 id))
    | _ => none) []

structure GwCase where
  cfg : Cfg
  idMin : UInt16
  idMax : UInt16

def parseCaseHeader (hdr : String) : Option GwCase :=
  let toks := words hdr
  let optBytes := fun (k : String) => match kvOf toks k with
    | none => some none
    | some "none" => some none
    | some v => (parseHex v).map some
  do
    let user ← optBytes "user"
    let pass ← optBytes "pass"
    let predef ← parsePredef ((kvOf toks "predef").getD "-")
    let (mn, mx) ← match kvOf toks "idrange" with
      | some r => match r.splitOn "-" with
        | [a, b] => do pure (← n16 a, ← n16 b)
        | _ => none
      | none => some (Gen.MinTopicAlias, Gen.MaxTopicAlias)
    pure { cfg := { auth := kvOf toks "auth" == some "1", user := user, pass := pass,
                    retryDelay := ((kvOf toks "rd").bind String.toNat?).getD 10000,
                    retryCount := ((kvOf toks "rc").bind String.toNat?).getD 4, predef := predef },
           idMin := mn, idMax := mx }

def parseEvent (line : String) : Option (Nat × Gw.Event) :=
  match words line with
  | t :: kind :: rest =>
    if !t.startsWith "@" then none else
    (t.drop 1).toString.toNat?.bind fun tt =>
      if kind == "sn" then (rest.head?.bind parseHex).map fun b => (tt, Gw.Event.sn b)
      else if kind == "mq" then (parseMq rest).map fun p => (tt, Gw.Event.mq p)
      else if kind == "mqraw" then some (tt, Gw.Event.mqGarbage)
      else if kind == "mqeof" then some (tt, Gw.Event.mqEof)
      else if kind == "shutdown" then some (tt, Gw.Event.shutdown)
      else if kind == "end" then some (tt, Gw.Event.tick)
      else none
  | _ => none

/-- impl line `> t kind ...` → (t, text after the time) -/
def splitOut (l : String) : Option (Nat × String) :=
  match words l with
  | ">" :: t :: rest => t.toNat?.map fun tt => (tt, String.intercalate " " rest)
  | _ => none

def isEndLine (s : String) : Bool := s.startsWith "ended" || s.startsWith "mqclose"

/-- run the model over a case; returns the model's output lines (time, text) -/
def gwModel (c : GwCase) (evs : List (Nat × Gw.Event)) : Gw :=
  Gw.run (Gw.init c.cfg c.idMin c.idMax) evs

def gwCompare (hdr : String) (lines : List String) : List String × Option (Gw × List (Nat × Gw.Event) × List (Nat × String)) :=
  match parseCaseHeader hdr with
  | none => ([s!"BADLINE {hdr}"], none)
  | some c =>
    let evLines := lines.filter (·.startsWith "@")
    let outLines := lines.filter (·.startsWith ">")
    match evLines.mapM parseEvent, outLines.mapM splitOut with
    | some evs, some implOuts =>
      let g := gwModel c evs
      let modelOuts := g.outs.reverse.map fun (t, o) => (t, ((outStr (t, o)).splitOn " ").drop 2 |> String.intercalate " ")
      let tEnd := (evs.getLast?.map (·.1)).getD 0
      -- ordinary outputs: exact; end-of-session lines: time window, order-insensitive, and
      -- optional when the session ends less than 150 ms before the case does
      let mOrd := modelOuts.filter (fun (_, s) => !isEndLine s)
      let iOrd := implOuts.filter (fun (_, s) => !isEndLine s && !s.startsWith "leak")
      let mEnd := modelOuts.filter (fun (_, s) => isEndLine s)
      let iEnd := implOuts.filter (fun (_, s) => isEndLine s)
      let ordOk := mOrd == iOrd
      let endOk :=
        let tooLate := mEnd.any (fun (t, _) => t + 150 > tEnd)
        if tooLate then iEnd.all (fun (ti, si) => mEnd.any fun (tm, sm) => sm == si && tm ≤ ti && ti ≤ tm + 100)
        else mEnd.length == iEnd.length &&
          mEnd.all (fun (tm, sm) => iEnd.any fun (ti, si) => sm == si && tm ≤ ti && ti ≤ tm + 100)
      let leak := implOuts.filter (fun (_, s) => s.startsWith "leak" || s.startsWith "panic")
      let fmt := fun (l : List (Nat × String)) => String.intercalate " / " (l.map fun (t, s) => s!"{t} {s}")
      let firstDiff :=
        let rec go (a b : List (Nat × String)) (i : Nat) : String :=
          match a, b with
          | x :: xs, y :: ys => if x == y then go xs ys (i + 1) else s!"#{i} impl=[{x.1} {x.2.take 300}] model=[{y.1} {y.2.take 300}]"
          | x :: _, [] => s!"#{i} impl=[{x.1} {x.2.take 300}] model=[nothing]"
          | [], y :: _ => s!"#{i} impl=[nothing] model=[{y.1} {y.2.take 300}]"
          | [], [] => "none"
        go iOrd mOrd 0
      let d1 := if ordOk then [] else [s!"DIFF gateway outputs [{hdr}] first-difference {firstDiff}"]
      let d2 := if endOk then [] else [s!"DIFF gateway end [{hdr}] impl=[{fmt iEnd}] model=[{fmt mEnd}]"]
      let d3 := leak.map fun (t, s) => s!"LEAKPANIC [{hdr}] {t} {s}"
      (d1 ++ d2 ++ d3, some (g, evs, implOuts))
    | _, _ => ([s!"BADLINE {hdr} (event or output line)"], none)

def gatewayCase (hdr : String) (lines : List String) : List String :=
  (gwCompare hdr lines).1

end Driver
