import Driver.Canon
import Bisquitt.Model.Gateway
import Bisquitt.Spec.Gateway

namespace Driver
open Bisquitt Bisquitt.Gw

def kvOf (toks : List String) (key : String) : Option String :=
  toks.findSome? fun t => if t.startsWith (key ++ "=") then some (t.drop (key.length + 1)).toString else none

def mqCanon : MqPkt → String
  | .connect cid clean ka uflag user pflag pass will wq wr wt wm =>
    s!"connect cid={hexOf cid} clean={b01 clean} ka={ka} uflag={b01 uflag} user={hexOf user} pflag={b01 pflag} pass={hexOf pass} will={b01 will} wq={wq} wr={b01 wr} wt={hexOf wt} wm={hexOf wm} pv=4"
  | .connack rc => s!"connack {rc}"
  | .publish dup q r mid topic payload =>
    s!"publish dup={b01 dup} qos={q} retain={b01 r} mid={mid} topic={hexOf topic} payload={hexOf payload}"
  | .puback m => s!"puback {m}" | .pubrec m => s!"pubrec {m}" | .pubrel m => s!"pubrel {m}"
  | .pubcomp m => s!"pubcomp {m}"
  | .subscribe mid dup topic q => s!"subscribe mid={mid} dup={b01 dup} topics={hexOf topic}:{q}"
  | .suback mid hq codes => s!"suback mid={mid} hq={hq} codes={String.intercalate "," (codes.map toString)}"
  | .unsubscribe mid topic => s!"unsubscribe mid={mid} topics={hexOf topic}"
  | .unsuback m => s!"unsuback {m}"
  | .pingreq => "pingreq" | .pingresp => "pingresp" | .disconnect => "disconnect"
  | .other => "other"

/-- broker → gateway packets of a script -/
def parseMq (toks : List String) : Option MqPkt :=
  match toks with
  | ["connack", rc] => do pure (.connack (← n8 rc))
  | "publish" :: rest => do
    let q ← (kvOf rest "qos").bind n8
    let mid ← (kvOf rest "mid").bind n16
    let topic ← (kvOf rest "topic").bind parseHex
    let payload ← match kvOf rest "plen" with
      | some n => n.toNat?.map fun k => List.replicate k (0x55 : UInt8)
      | none => (kvOf rest "payload").bind parseHex
    -- the message ID travels on the wire only for QoS > 0
    pure (.publish (kvOf rest "dup" == some "1") q (kvOf rest "retain" == some "1") (if q == 0 then 0 else mid) topic payload)
  | ["puback", m] => do pure (.puback (← n16 m))
  | ["pubrec", m] => do pure (.pubrec (← n16 m))
  | ["pubrel", m] => do pure (.pubrel (← n16 m))
  | ["pubcomp", m] => do pure (.pubcomp (← n16 m))
  | "suback" :: rest => do
    let mid ← (kvOf rest "mid").bind n16
    let hq ← (kvOf rest "hq").bind n8
    let cs := (kvOf rest "codes").getD ""
    let codes ← if cs == "" || cs == "-" then some [] else (cs.splitOn ",").mapM n8
    pure (.suback mid hq codes)
  | ["unsuback", m] => do pure (.unsuback (← n16 m))
  | ["pingresp"] => some .pingresp
  | ["pingreq"] => some .other
  | ["disconnect"] => some .other
  | "subscribe" :: _ => some .other
  | _ => none

def clsStr : EndCls → String
  | .clean => "clean" | .illegal => "illegal" | .mqttClosed => "mqttclosed"
  | .connectTimeout => "connect-timeout" | .connectFailed => "connect-failed" | .snDecode => "sn-decode"
  | .unknownTopic => "unknown-topic" | .badTopic => "bad-topic" | .unsupportedSn => "unsupported-sn"
  | .unsupportedMq => "unsupported-mq" | .mqDecode => "error" | .error => "error"

def stateStr : CState → String
  | .disconnected => "disconnected" | .active => "active" | .asleep => "asleep" | .awake => "awake"

def regStr (l : List (UInt16 × Bytes)) : String :=
  if l.isEmpty then "-" else
  String.intercalate "," (l.map fun (id, n) =>
    let s := toString id.toNat
    String.ofList (List.replicate (5 - s.length) '0') ++ s ++ ":" ++ hexOf n)

def parseReg (s : String) : Option (List (UInt16 × Bytes)) :=
  if s == "-" then some [] else
  (s.splitOn ",").mapM fun e => match e.splitOn ":" with
    | [id, n] => do pure (← n16 id, ← parseHex n)
    | _ => none

def parseState (s : String) : Option CState :=
  if s == "disconnected" then some .disconnected else if s == "active" then some .active
  else if s == "asleep" then some .asleep else if s == "awake" then some .awake else none

def outStr : Nat × Out → String
  | (t, .sn b) => s!"> {t} sn {hexOf b}"
  | (t, .mq p) => s!"> {t} mq {mqCanon p}"
  | (t, .mqClose) => s!"> {t} mqclose"
  | (t, .ended c) => s!"> {t} ended {clsStr c}"
  | (t, .state st) => s!"> {t} state {stateStr st}"
  | (t, .reg l) => s!"> {t} reg {regStr l}"
  | (t, .buf l) => s!"> {t} buf {if l.isEmpty then "-" else String.intercalate "," (l.map hexOf)}"

def parsePredef (s : String) : Option Predef :=
  if s == "-" then some [] else
  (s.splitOn ",").foldlM (fun (acc : Predef) e =>
    match e.splitOn ":" with
    | [c, id, n] => do pure (acc.add (← parseHex c) (← parseHex n) (← n16 id))
    | _ => none) []

structure GwCase where
  cfg : Cfg
  idMin : UInt16
  idMax : UInt16

def parseCaseHeader (hdr : String) : Option GwCase :=
  let toks := words hdr
  let optBytes := fun (k : String) => match kvOf toks k with
    | none => some none
    | some "none" => some none
    | some v => (parseHex v).map some
  do
    let user ← optBytes "user"
    let pass ← optBytes "pass"
    let predef ← parsePredef ((kvOf toks "predef").getD "-")
    let (mn, mx) ← match kvOf toks "idrange" with
      | some r => match r.splitOn "-" with
        | [a, b] => do pure (← n16 a, ← n16 b)
        | _ => none
      | none => some (Gen.MinTopicAlias, Gen.MaxTopicAlias)
    pure { cfg := { auth := kvOf toks "auth" == some "1", user := user, pass := pass,
                    retryDelay := ((kvOf toks "rd").bind String.toNat?).getD 10000,
                    retryCount := ((kvOf toks "rc").bind String.toNat?).getD 4, predef := predef },
           idMin := mn, idMax := mx }

def parseEvent (line : String) : Option (Nat × Gw.Event) :=
  match words line with
  | t :: kind :: rest =>
    if !t.startsWith "@" then none else
    (t.drop 1).toString.toNat?.bind fun tt =>
      if kind == "sn" then (rest.head?.bind parseHex).map fun b => (tt, Gw.Event.sn b)
      else if kind == "mq" then (parseMq rest).map fun p => (tt, Gw.Event.mq p)
      else if kind == "mqraw" then some (tt, Gw.Event.mqGarbage)
      else if kind == "mqeof" then some (tt, Gw.Event.mqEof)
      -- a broker that stops reading: only in cases marked `nomodel=1` (the blocked write is not modelled)
      else if kind == "mqstall" then some (tt, Gw.Event.tick)
      else if kind == "shutdown" then some (tt, Gw.Event.shutdown)
      else if kind == "end" then some (tt, Gw.Event.tick)
      else none
  | _ => none

/-- impl line `> t kind ...` → (t, text after the time) -/
def splitOut (l : String) : Option (Nat × String) :=
  match words l with
  | ">" :: t :: rest => t.toNat?.map fun tt => (tt, String.intercalate " " rest)
  | _ => none

def isEndLine (s : String) : Bool := s.startsWith "ended" || s.startsWith "mqclose"

/-- run the model over a case; returns the model's output lines (time, text) -/
def gwModel (c : GwCase) (evs : List (Nat × Gw.Event)) : Gw :=
  Gw.run (Gw.init c.cfg c.idMin c.idMax) evs

def gwCompare (hdr : String) (lines : List String) : List String × Option (Gw × List (Nat × Gw.Event) × List (Nat × String)) :=
  match parseCaseHeader hdr with
  | none => ([s!"BADLINE {hdr}"], none)
  | some c =>
    let evLines := lines.filter (·.startsWith "@")
    let outLines := lines.filter (·.startsWith ">")
    match evLines.mapM parseEvent, outLines.mapM splitOut with
    | some evs, some implOuts =>
      let g := gwModel c evs
      let modelOuts := g.outs.reverse.map fun (t, o) => (t, ((outStr (t, o)).splitOn " ").drop 2 |> String.intercalate " ")
      let tEnd := (evs.getLast?.map (·.1)).getD 0
      -- ordinary outputs: exact; end-of-session lines: time window, order-insensitive, and
      -- optional when the session ends less than 150 ms before the case does
      -- input that arrives after the session was cancelled (it takes up to one poll interval to
      -- end) is half-processed by the real handler; the model ignores it, so the instrumentation
      -- (state / registry samples) is not compared from the cancellation on
      let instrLate := fun (p : Nat × String) => (p.2.startsWith "state" || p.2.startsWith "reg" || p.2.startsWith "buf") &&
        (match g.cancelledAt with | some tc => tc ≤ p.1 | none => false)
      let mOrd := modelOuts.filter (fun p => !isEndLine p.2 && !instrLate p)
      let iOrd := implOuts.filter (fun p => !isEndLine p.2 && !p.2.startsWith "leak" && !instrLate p)
      let mEnd := modelOuts.filter (fun (_, s) => isEndLine s)
      let iEnd := implOuts.filter (fun (_, s) => isEndLine s)
      let ordOk := mOrd == iOrd
      let endOk :=
        let tooLate := mEnd.any (fun (t, _) => t + 150 > tEnd)
        if tooLate then iEnd.all (fun (ti, si) => mEnd.any fun (tm, sm) => sm == si && tm ≤ ti && ti ≤ tm + 100)
        else mEnd.length == iEnd.length &&
          mEnd.all (fun (tm, sm) => iEnd.any fun (ti, si) => sm == si && tm ≤ ti && ti ≤ tm + 100)
      let leak := implOuts.filter (fun (_, s) => s.startsWith "leak" || s.startsWith "panic")
      let fmt := fun (l : List (Nat × String)) => String.intercalate " / " (l.map fun (t, s) => s!"{t} {s}")
      let firstDiff :=
        let rec go (a b : List (Nat × String)) (i : Nat) : String :=
          match a, b with
          | x :: xs, y :: ys => if x == y then go xs ys (i + 1) else s!"#{i} impl=[{x.1} {x.2.take 300}] model=[{y.1} {y.2.take 300}]"
          | x :: _, [] => s!"#{i} impl=[{x.1} {x.2.take 300}] model=[nothing]"
          | [], y :: _ => s!"#{i} impl=[nothing] model=[{y.1} {y.2.take 300}]"
          | [], [] => "none"
        go iOrd mOrd 0
      let d1 := if ordOk then [] else [s!"DIFF gateway outputs [{hdr}] first-difference {firstDiff}"]
      let d2 := if endOk then [] else [s!"DIFF gateway end [{hdr}] impl=[{fmt iEnd}] model=[{fmt mEnd}]"]
      let d3 := leak.map fun (t, s) => s!"LEAKPANIC [{hdr}] {t} {s}"
      (d1 ++ d2 ++ d3, some (g, evs, implOuts))
    | _, _ => ([s!"BADLINE {hdr} (event or output line)"], none)


/-- gateway → broker packets in the implementation's log -/
def parseMqOut (toks : List String) : Option MqPkt :=
  match toks with
  | "connect" :: rest => do
    pure (.connect (← (kvOf rest "cid").bind parseHex) (kvOf rest "clean" == some "1") (← (kvOf rest "ka").bind n16)
      (kvOf rest "uflag" == some "1") (← (kvOf rest "user").bind parseHex) (kvOf rest "pflag" == some "1")
      (← (kvOf rest "pass").bind parseHex) (kvOf rest "will" == some "1") (← (kvOf rest "wq").bind n8)
      (kvOf rest "wr" == some "1") (← (kvOf rest "wt").bind parseHex) (← (kvOf rest "wm").bind parseHex))
  | "publish" :: rest => do
    pure (.publish (kvOf rest "dup" == some "1") (← (kvOf rest "qos").bind n8) (kvOf rest "retain" == some "1")
      (← (kvOf rest "mid").bind n16) (← (kvOf rest "topic").bind parseHex) (← (kvOf rest "payload").bind parseHex))
  | ["puback", m] => do pure (.puback (← n16 m))
  | ["pubrec", m] => do pure (.pubrec (← n16 m))
  | ["pubrel", m] => do pure (.pubrel (← n16 m))
  | ["pubcomp", m] => do pure (.pubcomp (← n16 m))
  | "subscribe" :: rest => do
    let mid ← (kvOf rest "mid").bind n16
    match ((kvOf rest "topics").getD "").splitOn ":" with
    | [t, q] => pure (.subscribe mid (kvOf rest "dup" == some "1") (← parseHex t) (← n8 q))
    | _ => some .other
  | "unsubscribe" :: rest => do
    pure (.unsubscribe (← (kvOf rest "mid").bind n16) (← (kvOf rest "topics").bind parseHex))
  | ["pingreq"] => some .pingreq
  | ["disconnect"] => some .disconnect
  | _ => some .other

def parseCls (s : String) : EndCls :=
  if s == "clean" then .clean else if s == "illegal" then .illegal else if s == "mqttclosed" then .mqttClosed
  else if s == "connect-timeout" then .connectTimeout else if s == "connect-failed" then .connectFailed
  else if s == "sn-decode" then .snDecode else if s == "unknown-topic" then .unknownTopic
  else if s == "bad-topic" then .badTopic else if s == "unsupported-sn" then .unsupportedSn
  else if s == "unsupported-mq" then .unsupportedMq else .error

/-- the implementation's log as an observable trace -/
def implTrace (lines : List String) : List Spec.TE :=
  lines.filterMap fun l =>
    if l.startsWith "@" then (parseEvent l).map fun (t, e) => Spec.TE.inp t e
    else match splitOut l with
      | some (t, txt) =>
        match words txt with
        | ["sn", hx] => (parseHex hx).map fun b => Spec.TE.out t (.sn b)
        | "mq" :: rest => (parseMqOut rest).map fun p => Spec.TE.out t (.mq p)
        | ["mqclose"] => some (Spec.TE.out t .mqClose)
        | ["ended", c] => some (Spec.TE.out t (.ended (parseCls c)))
        | ["state", st] => (parseState st).map fun x => Spec.TE.out t (.state x)
        | ["reg", r] => (parseReg r).map fun x => Spec.TE.out t (.reg x)
        | ["buf", b] => (if b == "-" then some [] else (b.splitOn ",").mapM parseHex).map fun x => Spec.TE.out t (.buf x)
        | _ => none
      | none => none

/-- which output lines a property talks about (DESIGN.md 2.6: projection) -/
def projOf (prop : String) (txt : String) : Bool :=
  let w := words txt
  let kind := w.headD ""
  let snType : Option UInt8 := if kind == "sn" then ((w.getD 1 "").toList.take 4 |> fun cs => parseHexChars cs).bind fun bs =>
      match bs with
      | [1, _] => none
      | [_, t] => some t
      | _ => none
    else none
  let longSn := kind == "sn" && (w.getD 1 "").startsWith "01"
  let mqKind := if kind == "mq" then w.getD 1 "" else ""
  match prop with
  | "C01" => mqKind == "publish" || kind == "reg"
  | "C02" | "C05" | "C32" => kind == "buf" || longSn || snType == some Gen.tPUBLISH || snType == some Gen.tREGISTER
  | "C03" => ["subscribe", "unsubscribe", "pubrel", "pingreq", "disconnect"].contains mqKind ||
      [some Gen.tPUBREC, some Gen.tPUBCOMP, some Gen.tUNSUBACK, some Gen.tSUBACK, some Gen.tPINGRESP].contains snType
  | "C04" => [some Gen.tREGACK, some Gen.tSUBACK, some Gen.tREGISTER].contains snType || kind == "reg"
  | "C06" => ["puback", "pubrec", "pubcomp", "pubrel"].contains mqKind ||
      [some Gen.tPUBACK, some Gen.tSUBACK, some Gen.tPUBREC, some Gen.tPUBCOMP, some Gen.tPUBREL, some Gen.tREGACK].contains snType
  | "C07" => snType == some Gen.tCONNACK || kind == "mq" || kind == "ended" || kind == "state"
  | "C08" | "C09" => mqKind == "connect" || [some Gen.tCONNACK, some Gen.tWILLTOPICREQ, some Gen.tWILLMSGREQ].contains snType
  | "C10" | "C34" => kind == "ended" || kind == "mqclose"
  | "C11" => kind == "sn" || kind == "state" || kind == "buf"
  | "C12" => kind == "mq"
  | "C13" => kind == "ended" || kind == "mqclose" || snType == some Gen.tDISCONNECT || kind == "state"
  | "C14" => mqKind == "disconnect" || kind == "mqclose" || kind == "ended"
  | "C23" => kind == "sn"
  | "C24" => kind == "mq"
  | "C16" => kind == "sn" || ["puback", "pubrec", "pubcomp"].contains mqKind
  | _ => true

def gwProps : List String :=
  ["C01", "C02", "C03", "C04", "C06", "C07", "C08", "C09", "C10", "C11", "C12", "C13", "C14", "C16", "C23", "C24", "C34"]

def gatewayCase (hdr : String) (lines : List String) : List String :=
  let (basic, info) := gwCompare hdr lines
  match info, parseCaseHeader hdr with
  | some (g, evs, implOuts), some c =>
    let caseId := (words hdr).getD 1 "?"
    let modelOuts := g.outs.reverse.map fun (t, o) => (t, ((outStr (t, o)).splitOn " ").drop 2 |> String.intercalate " ")
    let tEnd := (evs.getLast?.map (·.1)).getD 0
    -- per-property projected comparison (only when the whole trace differs)
    let projDiffs :=
      if basic.all (fun l => !l.startsWith "DIFF") then [] else
      gwProps.filterMap fun p =>
        let isEnd := fun (s : String) => isEndLine s
        let mi := implOuts.filter (fun (_, s) => projOf p s && !isEnd s)
        let mm := modelOuts.filter (fun (_, s) => projOf p s && !isEnd s)
        let ei := implOuts.filter (fun (_, s) => projOf p s && isEnd s)
        let em := modelOuts.filter (fun (_, s) => projOf p s && isEnd s)
        let tooLate := em.any (fun (t, _) => t + 150 > tEnd)
        let endOk := if tooLate then ei.all (fun (ti, si) => em.any fun (tm, sm) => sm == si && tm ≤ ti && ti ≤ tm + 100)
          else em.length == ei.length && em.all (fun (tm, sm) => ei.any fun (ti, si) => sm == si && tm ≤ ti && ti ≤ tm + 100)
        if mi == mm && endOk then none else
          let fd := (mi.zip mm).find? (fun (a, b) => a != b)
          let d := match fd with
            | some (a, b) => s!"impl=[{a.1} {a.2.take 200}] model=[{b.1} {b.2.take 200}]"
            | none => s!"impl has {mi.length + ei.length} projected outputs, model {mm.length + em.length}"
          some s!"DIFF gateway-{p} case={caseId} {d}"
    -- monitors over the implementation's own trace
    let tr := implTrace lines
    let mon := fun (p : String) (vs : List Spec.Viol) => vs.map fun v => s!"MON {p} {v.sig} case={caseId} {v.detail}"
    let vs0809 := Spec.c0809 c.cfg tr
    -- C05 / C32 on the gateway: predefined and short IDs must read back, on the other side, as the same name
    let vs02 := Spec.c02 c.cfg tr
    let vs01 := Spec.c01 c.cfg tr
    let has := fun (s sub : String) => (s.splitOn sub).length > 1
    let routing := fun (tits : List String) =>
      ((vs02.filter fun v => (v.sig == "client-reads-other-name" || v.sig == "client-cannot-resolve-topic-id") &&
          tits.any fun t => has v.detail s!"tit={t} ").map fun v => { v with sig := "gateway-to-client/" ++ v.sig }) ++
      ((vs01.filter fun v => (v.sig == "wrong-topic-name" || v.sig == "forwarded-undenoted-topic-id") &&
          tits.any fun t => has v.detail s!"tit={t} ").map fun v => { v with sig := "client-to-broker/" ++ v.sig })
    -- cases with a stalled broker are judged on the end of the session alone
    let noModel := kvOf (words hdr) "nomodel" == some "1"
    let endOnly :=
      mon "C13" (Spec.c13 c.cfg tr tEnd) ++
      mon "C34" ((Spec.c13 c.cfg tr tEnd).map fun v => { v with sig := "session-not-reaped/" ++ v.sig })
    let ms := if noModel then endOnly else
      mon "C01" vs01 ++ mon "C02" vs02 ++ mon "C05" (routing ["1"]) ++ mon "C32" (routing ["1", "2"]) ++
      mon "C16" (Spec.c16 c.cfg tr) ++ mon "C03" (Spec.c03 c.cfg tr) ++ mon "C04" (Spec.c04 c.cfg tr) ++
      mon "C06" (Spec.c06 c.cfg tr) ++ mon "C07" (Spec.c07 c.cfg tr) ++
      mon "C08" ((vs0809.filter fun v => v.sig.startsWith "C08:").map fun v => { v with sig := (v.sig.drop 4).toString }) ++
      mon "C09" ((vs0809.filter fun v => v.sig.startsWith "C09:").map fun v => { v with sig := (v.sig.drop 4).toString }) ++
      mon "C10" (Spec.c10 tr tEnd) ++ mon "C11" (Spec.c11 tr) ++ mon "C13" (Spec.c13 c.cfg tr tEnd) ++
      mon "C14" (Spec.c14 tr) ++ mon "C23" (Spec.c23 tr) ++ mon "C24" (Spec.c24 tr) ++
      mon "C12" (Spec.c12 tr tEnd) ++ mon "C34" (Spec.c34 c.cfg tr tEnd) ++
      -- a session that does not end (C13's rules) is a session that is not reaped
      mon "C34" ((Spec.c13 c.cfg tr tEnd).map fun v => { v with sig := "session-not-reaped/" ++ v.sig }) ++
      mon "C34" ((Spec.c10 tr tEnd).map fun v => { v with sig := "session-not-reaped/" ++ v.sig })
    let leaks := implOuts.filterMap fun (t, s) =>
      if s.startsWith "leak" then some s!"MON C13 goroutine-leak case={caseId} t={t} {s.take 300}\nMON C34 session-not-reaped/goroutine-leak case={caseId} t={t} {s.take 300}"
      else if s.startsWith "panic" then some s!"MON C25 panic case={caseId} t={t} {s.take 300}"
      else none
    if noModel then (basic.filter fun l => !l.startsWith "LEAKPANIC" && !l.startsWith "DIFF") ++ ms ++ leaks else
    (basic.filter fun l => !l.startsWith "LEAKPANIC") ++ projDiffs ++ ms ++ leaks
  | _, _ => basic

end Driver
