import Driver.Canon
import Bisquitt.Spec.Codec

namespace Driver
open Bisquitt

/-- One line of the codec suite. Returns output lines (empty = agreement, no monitor hit). -/
def codecLine (line : String) : List String :=
  match line.splitOn " => " with
  | [lhs, impl] =>
    match words lhs with
    | ["D", hx] =>
      match parseHex hx with
      | none => [s!"BADLINE {line}"]
      | some bs =>
        let model := decodeResult bs
        let implPanic := impl.startsWith "PANIC"
        let agree := if implPanic then model == "PANIC" else model == impl
        let diff := if agree then [] else [s!"DIFF codec D {hx} impl=[{impl}] model=[{model}]"]
        let c20 := if implPanic then [s!"MON C20 decode-panic input={hx} [{impl}]"] else []
        let c22 :=
          match impl.splitOn " | " with
          | [_, c, re] =>
            match parseCanon (words c), parseHex re with
            | some p, some reb =>
              if Spec.c22ok bs p reb then [] else [s!"MON C22 unfaithful input={hx} decoded=[{c}] repacked={re}"]
            | _, _ => [s!"MON C22 unparsable-result input={hx} [{impl}]"]
          | _ => []
        diff ++ c20 ++ c22
    | "E" :: ctoks =>
      match parseCanon ctoks with
      | none => [s!"BADLINE {line}"]
      | some p =>
        match impl.splitOn " | " with
        | packed :: rest =>
          if packed == "PANIC" then [s!"MON C21 pack-panic pkt=[{String.intercalate " " ctoks}]"] else
          match parseHex packed with
          | none => [s!"BADLINE {line}"]
          | some out =>
            let mout := encode p
            let d1 := if mout == out then [] else
              [s!"DIFF codec E legal={b01 (Spec.Legal p)} pkt=[{String.intercalate " " ctoks}] impl={packed} model={hexOf mout}"]
            let implDecode := String.intercalate " | " rest
            if implDecode == "SKIP" then d1 else
            let mdec := decodeResult (out.take Gen.MaxPacketLen)
            let implPanic := implDecode.startsWith "PANIC"
            let d2 := if (if implPanic then mdec == "PANIC" else mdec == implDecode) then [] else
              [s!"DIFF codec E-decode legal={b01 (Spec.Legal p)} pkt=[{String.intercalate " " ctoks}] impl=[{implDecode}] model=[{mdec}]"]
            let back : Option Pkt :=
              match rest with
              | [_, c, _] => parseCanon (words c)
              | _ => none
            let c21 := if Spec.Legal p && !Spec.c21ok p out back then
                [s!"MON C21 roundtrip pkt=[{String.intercalate " " ctoks}] packed={packed} decoded=[{implDecode}]"]
              else []
            let c20 := if implPanic then [s!"MON C20 decode-panic input={packed} [{implDecode}]"] else []
            d1 ++ d2 ++ c21 ++ c20
        | [] => [s!"BADLINE {line}"]
    | ["S", ids] =>
      match ids.toNat? with
      | none => [s!"BADLINE {line}"]
      | some n =>
        let id := UInt16.ofNat n
        let name := decodeShortTopic id
        let model := s!"{hexOf name} {encodeShortTopic name} {b01 (isShortTopic name)}"
        let d := if model == impl then [] else [s!"DIFF codec S {ids} impl=[{impl}] model=[{model}]"]
        -- C21 monitor on the implementation's own answer: 2-byte name, maps back to the ID
        let m := match words impl with
          | [hx, back, isS] =>
            match parseHex hx with
            | some nm => if nm.length == 2 && back == ids && isS == "1" then [] else
                [s!"MON C21 short-topic-not-bijective id={ids} impl=[{impl}]"]
            | none => [s!"BADLINE {line}"]
          | _ => [s!"BADLINE {line}"]
        d ++ m
    | ["N", hx] =>
      match parseHex hx with
      | none => [s!"BADLINE {line}"]
      | some nm =>
        let id := encodeShortTopic nm
        let model := s!"{id} {hexOf (decodeShortTopic id)} {b01 (isShortTopic nm)}"
        let d := if model == impl then [] else [s!"DIFF codec N {hx} impl=[{impl}] model=[{model}]"]
        let m := match words impl with
          | [_, back, isS] =>
            if nm.length == 2 then
              (if back == hx && isS == "1" then [] else [s!"MON C21 short-topic-not-bijective name={hx} impl=[{impl}]"])
            else (if isS == "0" then [] else [s!"MON C21 short-topic-wrong-length name={hx} impl=[{impl}]"])
          | _ => [s!"BADLINE {line}"]
        d ++ m
    | _ => [s!"BADLINE {line}"]
  | _ => if line.startsWith "#" || line.isEmpty then [] else [s!"BADLINE {line}"]

end Driver
