/-
  Model driver for the client suite: header + `@` events + `>` implementation outputs.
-/
import Driver.Gateway
import Bisquitt.Model.Client
import Bisquitt.Spec.Gateway
import Bisquitt.Spec.Client

namespace Driver
open Bisquitt Bisquitt.Cl

def clErrStr : Err → String
  | .ok => "ok" | .timeout => "timeout" | .noMoreRetries => "no-more-retries" | .connectTimeout => "connect-timeout"
  | .rejected => "rejected" | .notRegistered => "not-registered" | .badState => "bad-state" | .invalidQos => "invalid-qos"
  | .pingrespTimeout => "pingresp-timeout" | .closed => "closed" | .badTopicId => "bad-topic-id"
  | .unhandledPacket => "unhandled-packet" | .badQos => "bad-qos" | .decode => "decode" | .keepaliveStopped => "keepalive-stopped" | .terminated => "terminated"

def cstateStr : Cl.CState → String
  | .disconnected => "disconnected" | .active => "active" | .asleep => "asleep" | .awake => "awake"

def parseClientCfg (hdr : String) : Option Cl.Cfg :=
  let toks := words hdr
  let nat := fun (k : String) (d : Nat) => ((kvOf toks k).bind String.toNat?).getD d
  do
    let cid ← parseHex ((kvOf toks "cid").getD "-")
    let user ← match kvOf toks "user" with
      | none => some none
      | some "none" => some none
      | some v => (parseHex v).map some
    let pass ← parseHex ((kvOf toks "pass").getD "-")
    let predef ← parsePredef ((kvOf toks "predef").getD "-")
    let will ← match kvOf toks "will" with
      | none => some none
      | some "-" => some none
      | some v => do
        let t ← parseHex v
        let m ← parseHex ((kvOf toks "wmsg").getD "-")
        pure (some (t, m, UInt8.ofNat (nat "wq" 0), kvOf toks "wr" == some "1"))
    -- `User != ""`
    let user := match user with | some [] => none | u => u
    pure { cid := cid, user := user, pass := pass, ka := nat "ka" 0, ct := nat "ct" 1000, rd := nat "rd" 1000,
           rc := nat "rc" 2, clean := kvOf toks "clean" != some "0", will := will, predef := predef }

def parseApi (ws : List String) : Option Cl.Api :=
  match ws with
  | ["connect"] => some .connect
  | ["register", n] => (parseHex n).map .register
  | ["subscribe", n, q] => do pure (.subscribe (← parseHex n) (← n8 q))
  | ["subscribepre", i, q] => do pure (.subscribePre (← n16 i) (← n8 q))
  | ["unsubscribe", n] => (parseHex n).map .unsubscribe
  | ["unsubscribepre", i] => (n16 i).map .unsubscribePre
  | ["publish", n, q, r, p] => do pure (.publish (← parseHex n) (← n8 q) (r == "1") (← parseHex p))
  | ["publishpre", i, q, r, p] => do pure (.publishPre (← n16 i) (← n8 q) (r == "1") (← parseHex p))
  | ["ping"] => some .ping
  | ["sleep", d] => d.toNat?.map .sleep
  | ["disconnect"] => some .disconnect
  | ["close"] => some .close
  | _ => none

def parseClientEvent (line : String) : Option (Nat × Cl.Event) :=
  match words line with
  | t :: kind :: rest =>
    if !t.startsWith "@" then none else
    (t.drop 1).toString.toNat?.bind fun tt =>
      if kind == "sn" then (rest.head?.bind parseHex).map fun b => (tt, Cl.Event.sn b)
      else if kind == "api" then
        match rest with
        | call :: op => (parseApi op).map fun a => (tt, Cl.Event.api call a)
        | _ => none
      else if kind == "end" then some (tt, Cl.Event.tick)
      else none
  | _ => none

/-- model output → the harness' text (handlers without the filter, which is compared apart) -/
def clOutStr : Cl.Out → String
  | .sn b => s!"sn {hexOf b}"
  | .ret call e => s!"ret {call} {clErrStr e}"
  | .retEither call e1 e2 => s!"ret {call} {clErrStr e1}|{clErrStr e2}"
  | .handler _ topic q r p => s!"handler topic={hexOf topic} qos={q} retain={b01 r} payload={hexOf p}"
  | .state s => s!"state {cstateStr s}"
  | .done e => s!"done {clErrStr e}"

/-- implementation line → (comparable text, handler filter if it is a handler line) -/
def implNorm (txt : String) : String × Option String :=
  let ws := words txt
  match ws with
  | "handler" :: f :: rest =>
    if f.startsWith "filter=" then ("handler " ++ String.intercalate " " rest, some (f.drop 7).toString)
    else (txt, none)
  | _ => (txt, none)

def sortStrs (l : List String) : List String := (l.toArray.qsort (· < ·)).toList

def groupByTime (l : List (Nat × String)) : List (Nat × List String) :=
  l.foldl (fun acc (t, s) => match acc.getLast? with
    | some (t', ss) => if t' == t then acc.dropLast ++ [(t, ss ++ [s])] else acc ++ [(t, [s])]
    | none => [(t, [s])]) []

def clientCase (hdr : String) (lines : List String) : List String :=
  let caseId := (words hdr).getD 1 "?"
  match parseClientCfg hdr with
  | none => [s!"BADLINE {hdr}"]
  | some cfg =>
    let evLines := lines.filter (·.startsWith "@")
    let outLines := lines.filter (·.startsWith ">")
    match evLines.mapM parseClientEvent, outLines.mapM splitOut with
    | some evs, some implOuts =>
      let c := Cl.run ({ cfg := cfg } : Cl) evs
      let modelOuts := c.outs.reverse
      let mStr := modelOuts.map fun (t, o) => (t, clOutStr o)
      let iNorm := implOuts.map fun (t, s) => (t, (implNorm s).1)
      -- instrumentation of the harness that the model does not produce
      let iNorm := iNorm.filter fun (_, s) => !(s.startsWith "leak" || s.startsWith "panic")
      -- a model line "ret a e1|e2" accepts an implementation line "ret a e1" or "ret a e2"
      let eithers : List (String × String × String) := mStr.filterMap fun (_, s) =>
        match words s with
        | ["ret", call, es] => (match es.splitOn "|" with
          | [e1, e2] => some (call, e1, e2)
          | _ => none)
        | _ => none
      let iNorm := iNorm.map fun (t, s) =>
        match words s with
        | ["ret", call, e] =>
          (match eithers.find? (fun (c, e1, e2) => c == call && (e == e1 || e == e2)) with
           | some (_, e1, e2) => (t, s!"ret {call} {e1}|{e2}")
           | none => (t, s))
        | _ => (t, s)
      -- after the group has been cancelled, whether a transaction created later still retransmits is a
      -- race between its watcher goroutine and Proceed: repeats of an earlier datagram are dropped on both sides
      let tCancel := c.cancelledAt
      let dropRepeats := fun (l : List (Nat × String)) =>
        (l.foldl (fun (acc : List (Nat × String) × List String) (x : Nat × String) =>
          let (out, seen) := acc
          if x.2.startsWith "sn " then
            let key := match parseHex (x.2.drop 3).toString with
              | some b => hexOf (Spec.ClientSpec.noDup b)
              | none => x.2
            let late := match tCancel with | some tc => x.1 > tc | none => false
            if late && seen.contains key then (out, seen) else (out ++ [x], key :: seen)
          else (out ++ [x], seen)) ([], [])).1
      let iNorm := dropRepeats iNorm
      let mStr := dropRepeats mStr
      -- Close(): whether the receive loop ends by itself (the DISCONNECT reply: nil) or by the connection being
      -- closed under its pending read is a race between two goroutines runnable at the same instant
      let hasClose := evs.any fun (_, e) => match e with | .api _ .close => true | _ => false
      let closeNorm := fun (l : List (Nat × String)) =>
        if hasClose then l.map fun (t, s) => if s == "done ok" || s == "done closed" then (t, "done ok|closed") else (t, s) else l
      let iNorm := closeNorm iNorm
      let mStr := closeNorm mStr
      -- 1. datagrams: exact order and time
      let snI := iNorm.filter fun (_, s) => s.startsWith "sn "
      let snM := mStr.filter fun (_, s) => s.startsWith "sn "
      let d1 := if snI == snM then [] else
        let fd := (snI.zip snM).find? fun (a, b) => a != b
        let detail := match fd with
          | some (a, b) => s!"impl=[{a.1} {a.2.take 120}] model=[{b.1} {b.2.take 120}]"
          | none => s!"impl has {snI.length} datagrams, model {snM.length}"
        [s!"DIFF client datagrams case={caseId} {detail}"]
      -- the end of the group after Disconnect() / Close(): the receive loop looks at its context right after
      -- the packet it has handled — if the returning call has cancelled the group by then it ends at once,
      -- otherwise at its next read deadline (two goroutines runnable at the same instant): the `done` line of the
      -- implementation may come at the instant such a call returned instead of at the model's later instant
      let isDone := fun (x : Nat × String) => x.2.startsWith "done "
      let retTimes : List Nat := iNorm.filterMap fun (t, s) => if s.startsWith "ret " then some t else none
      let hasEndCall := evs.any fun (_, e) => match e with | .api _ .close => true | .api _ .disconnect => true | _ => false
      let dI := iNorm.filter isDone
      let dM := mStr.filter isDone
      let doneEarly := hasEndCall && (match dI, dM with
        | [(ti, si)], [(tm, sm)] => si == sm && ti < tm && retTimes.contains ti
        -- (the same race when the model's later instant — the next read deadline — lies beyond the end of the case)
        | [(ti, _)], [] => retTimes.contains ti
        | _, _ => false)
      let iNorm := if doneEarly then iNorm.filter (!isDone ·) else iNorm
      let mStr := if doneEarly then mStr.filter (!isDone ·) else mStr
      -- 2. everything, as multisets per instant
      let gi := (groupByTime iNorm).map fun (t, ss) => (t, sortStrs ss)
      let gm := (groupByTime mStr).map fun (t, ss) => (t, sortStrs ss)
      let d2 := if gi == gm then [] else
        let fd := (gi.zip gm).find? fun (a, b) => a != b
        let detail := match fd with
          | some (a, b) => s!"impl=[{a.1} {(String.intercalate " | " a.2).take 200}] model=[{b.1} {(String.intercalate " | " b.2).take 200}]"
          | none => s!"impl has {gi.length} instants, model {gm.length}"
        [s!"DIFF client outputs case={caseId} {detail}"]
      -- 3. the callback that ran belongs to a matching subscription
      let hI := implOuts.filterMap fun (t, s) => match implNorm s with
        | (n, some f) => some (t, n, f)
        | _ => none
      let hM := modelOuts.filterMap fun (t, o) => match o with
        | .handler fs .. => some (t, clOutStr o, fs.map hexOf)
        | _ => none
      let d3 := (hI.zip hM).filterMap fun ((ti, ni, f), (tm, nm, fs)) =>
        if ti == tm && ni == nm && !fs.contains f then
          some s!"DIFF client handler case={caseId} t={ti} impl-filter={f} model-admissible={fs}"
        else none
      -- monitors over the implementation's own trace
      let tr : List Spec.ClientSpec.CE := lines.filterMap fun l =>
        if l.startsWith "@" then
          (parseClientEvent l).bind fun (t, e) => match e with
            | .api call a => some (Spec.ClientSpec.CE.api t call a)
            | .sn b => some (Spec.ClientSpec.CE.snIn t b)
            | .tick => none
        else match splitOut l with
          | some (t, txt) =>
            (match words txt with
             | ["sn", hx] => (parseHex hx).map fun b => Spec.ClientSpec.CE.out t (.sn b)
             | ["ret", call, cls] =>
               (([Err.ok, .timeout, .noMoreRetries, .connectTimeout, .rejected, .notRegistered, .badState, .invalidQos,
                  .pingrespTimeout, .closed, .badTopicId, .unhandledPacket, .badQos, .decode, .keepaliveStopped, .terminated].find?
                  fun e => clErrStr e == cls).map fun e => Spec.ClientSpec.CE.out t (.ret call e)).orElse
                  fun _ => some (Spec.ClientSpec.CE.out t (.ret call .closed))
             | ["state", st] =>
               ([Cl.CState.disconnected, .active, .asleep, .awake].find? fun x => cstateStr x == st).map
                 fun x => Spec.ClientSpec.CE.out t (.state x)
             | "done" :: _ => some (Spec.ClientSpec.CE.out t (.done .ok))
             | "handler" :: f :: tp :: rest =>
               let qos : Nat := ((rest.find? (·.startsWith "qos=")).bind fun w => (w.drop 4).toString.toNat?).getD 0
               let payload : Bytes := ((rest.find? (·.startsWith "payload=")).bind fun w => parseHex (w.drop 8).toString).getD []
               (match parseHex (f.drop 7).toString, parseHex (tp.drop 6).toString with
                | some fb, some tb => some (Spec.ClientSpec.CE.handlerRan t fb tb qos payload)
                | _, _ => none)
             | w :: _ => if w == "leak" || w == "panic" then some (Spec.ClientSpec.CE.note t txt) else none
             | [] => none)
          | none => none
      let tEnd := (evs.getLast?.map (·.1)).getD 0
      let mon := fun (p : String) (vs : List Spec.Viol) => vs.map fun v => s!"MON {p} {v.sig} case={caseId} {v.detail}"
      let ms := mon "C17" (Spec.ClientSpec.c17 cfg tr) ++ mon "C23" (Spec.ClientSpec.c23 tr) ++
        mon "C31" (Spec.ClientSpec.c31 cfg tr) ++ mon "C28" (Spec.ClientSpec.c28 cfg tr tEnd) ++
        mon "C25" (Spec.ClientSpec.c25 tr) ++ mon "C27" (Spec.ClientSpec.c27 cfg tr) ++
        mon "C33" (Spec.ClientSpec.c33 cfg tr tEnd) ++ mon "C06" (Spec.ClientSpec.c06 tr) ++
        mon "C16" (Spec.ClientSpec.c16 cfg tr)
      d1 ++ d2 ++ d3 ++ ms
    | none, _ => [s!"BADLINE unparsable event in case {caseId}"]
    | _, none => [s!"BADLINE unparsable output in case {caseId}"]

end Driver
