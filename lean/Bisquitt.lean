import Bisquitt.Model.Bytes
import Bisquitt.Model.Wire
import Bisquitt.Spec.Codec
