-- Root of the `Bisquitt` library: the model, the specifications and the property theorems.
import Bisquitt.Model.Bytes
import Bisquitt.Model.Wire
import Bisquitt.Spec.Codec
import Bisquitt.Props.C20
import Bisquitt.Props.C21
import Bisquitt.Props.C22
import Bisquitt.Props.C05
import Bisquitt.Props.C18
import Bisquitt.Props.C19
import Bisquitt.Props.C29
import Bisquitt.Spec.Tx
import Bisquitt.Props.C27
