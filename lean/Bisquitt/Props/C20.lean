/-
  C20 — Decoding any datagram never crashes.

  `decode` is the model of `packets1.ReadPacket` in which every Go index / slice
  expression is an operation that yields `.panic` when its bounds check would fail.
  The theorem is for *all* byte strings (no length bound, no enumeration).
-/
import Bisquitt.Lemmas.WireTotal

namespace Bisquitt
open Gen

theorem mem_of_lookup {α β} [BEq α] [LawfulBEq α] {l : List (α × β)} {a : α} {b : β}
    (h : l.lookup a = some b) : (a, b) ∈ l := by
  induction l with
  | nil => simp at h
  | cons x xs ih =>
    obtain ⟨k, v⟩ := x
    simp only [List.lookup_cons] at h
    split at h
    · rename_i he
      have : a = k := by simpa using he
      simp_all
    · exact List.mem_cons_of_mem _ (ih h)

theorem unpackTable_total : ∀ e ∈ unpackTable, ∀ buf, e.2 buf ≠ .panic := by
  have hm (mk) (n : UInt16) (hn : 2 ≤ n.toNat) := fun buf => unpackMsgIdOnly_total mk n buf hn
  have hr (mk) (n : UInt16) (hn : 1 ≤ n.toNat) := fun buf => unpackRcOnly_total mk n buf hn
  simp only [unpackTable, List.mem_cons, List.not_mem_nil, or_false, forall_eq_or_imp, forall_eq]
  refine ⟨unpackAdvertise_total, unpackSearchGw_total, unpackGwInfo_total, unpackAuth_total,
    unpackConnect_total, unpackConnack_total, unpackWillTopicReq_total,
    unpackWillTopicLike_total _, unpackWillMsgReq_total, ?_, unpackRegister_total,
    unpackRegack_total, unpackPublish_total, unpackPuback_total, hm _ _ (by decide),
    hm _ _ (by decide), hm _ _ (by decide), unpackSubscribe_total, unpackSuback_total,
    unpackUnsubscribe_total, hm _ _ (by decide), ?_, ?_, unpackDisconnect_total,
    unpackWillTopicLike_total _, hr _ _ (by decide), ?_, hr _ _ (by decide)⟩
  all_goals (intro buf; simp [unpackWillMsg, unpackPingreq, unpackWillMsgUpd, unpackPingresp]; try (split <;> simp))

theorem unpackBody_total (t : UInt8) (buf : Bytes) : unpackBody t buf ≠ .panic := by
  unfold unpackBody
  split
  · rename_i f hf
    exact unpackTable_total (t, f) (mem_of_lookup hf) buf
  · simp

/-- a successfully unpacked header never claims more header bytes than the datagram has -/
theorem headerUnpack_len {bs : Bytes} {h : Header} (hu : Header.unpack bs = .ok h) :
    h.headerLength.toNat ≤ bs.length := by
  unfold Header.unpack at hu
  split at hu
  · simp at hu
  · rename_i h2
    have h0 : 0 < bs.length := by omega
    simp only [getB_ok h0, Res.ok_bind] at hu
    split at hu
    · split at hu
      · simp at hu
      · rename_i h4
        gen_norm
        have h12 : 1 + 1 < bs.length := by omega
        have h3 : 3 < bs.length := by omega
        simp only [get16_ok h12, getB_ok h3, Res.ok_bind, Res.pure_eq, Res.ok.injEq] at hu
        subst hu
        simp [Header.headerLength]; gen_norm; omega
    · have h1 : 1 < bs.length := by omega
      simp only [getB_ok h1, Res.ok_bind, Res.pure_eq, Res.ok.injEq] at hu
      subst hu
      simp [Header.headerLength]; gen_norm; omega

/-- **C20.** `ReadPacket` never panics, whatever the datagram. -/
theorem decode_total (bs : Bytes) : decode bs ≠ .panic := by
  unfold decode
  cases hu : Header.unpack bs with
  | panic => exact absurd hu (headerUnpack_total bs)
  | err => simp
  | ok h =>
    have hl := headerUnpack_len hu
    simp only [Res.ok_bind, sliceFrom_ok hl]
    cases hb : unpackBody h.pktType (bs.drop h.headerLength.toNat) with
    | panic => exact absurd hb (unpackBody_total _ _)
    | err => simp
    | ok p => simp

/-- the statement in the property's own terms: for every datagram of at most
    `MaxPacketLen` bytes decoding returns an error or a packet. -/
theorem c20 (bs : Bytes) (_h : bs.length ≤ Gen.MaxPacketLen) :
    decode bs = .err ∨ ∃ h p, decode bs = .ok (h, p) := by
  cases hd : decode bs with
  | panic => exact absurd hd (decode_total bs)
  | err => exact Or.inl rfl
  | ok hp => exact Or.inr ⟨hp.1, hp.2, rfl⟩

/-- non-vacuity: both outcomes occur. -/
example : decode [0x02, 0x17] = .ok ({ pktLength := 2, pktType := 0x17, long := false }, .pingresp) := by
  decide
example : decode [0x01, 0x05] = .err := by decide

end Bisquitt
