/-
  C24 — Every MQTT packet sent to the broker is valid MQTT 3.1.1.

  `Spec.valid311` is the statement of validity the monitor also uses (QoS 0-2, PUBLISH topic
  non-empty and wildcard-free, filters non-empty, CONNECT will flag ⇔ non-empty will topic, will
  QoS ≤ 2).  Theorem: in EVERY run of the gateway model — any configuration, any sequence of
  datagrams (decodable or not), broker packets, broker EOF/garbage, shutdowns and timer firings at
  any times — every MQTT packet the model emits satisfies it.  The proof goes through the
  per-site permissions of `Lemmas/GwEmits.lean`: packets parked in transactions (for resending)
  and the CONNECT under construction (`ConnInv`) carry the invariant between steps.
-/
import Bisquitt.Lemmas.GwRun
import Bisquitt.Spec.Gateway

namespace Bisquitt.Gw
open Bisquitt Gw Spec

theorem le2_of_not_gt {q : UInt8} (h : q ≤ 2) : decide (q ≤ 2) = true := by simpa using h

theorem sites_c24 : Sites (fun _ => True) (fun p => valid311 p = true) where
  connack := fun _ => trivial
  willtopicreq := trivial
  willmsgreq := trivial
  regack := fun _ _ _ => trivial
  suback := fun _ _ _ _ _ => trivial
  puback := fun _ _ _ => trivial
  pubrec := fun _ => trivial
  pubcomp := fun _ => trivial
  pubrel := fun _ => trivial
  unsuback := fun _ => trivial
  pingresp := trivial
  disconnect0 := trivial
  publish := fun _ _ _ _ _ _ _ _ _ _ => trivial
  register := fun _ _ _ _ _ => trivial
  dup := fun _ _ => trivial
  mqConnect := fun f h => by
    simp only [ConnFields.toPkt, valid311, Bool.and_eq_true, beq_iff_eq, decide_eq_true_eq]
    exact ⟨h.1, h.2⟩
  mqPublish := fun _ q _ _ topic _ hq hne hw => by
    simp only [valid311, Bool.and_eq_true, decide_eq_true_eq, Bool.not_eq_true', hw, and_true]
    refine ⟨hq, ?_⟩
    cases topic with
    | nil => exact absurd rfl hne
    | cons _ _ => rfl
  mqSubscribe := fun _ _ topic q hne hq => by
    simp only [valid311, Bool.and_eq_true, decide_eq_true_eq, Bool.not_eq_true']
    refine ⟨?_, hq⟩
    cases topic with
    | nil => exact absurd rfl hne
    | cons _ _ => rfl
  mqUnsubscribe := fun _ topic hne => by
    simp only [valid311, Bool.not_eq_true']
    cases topic with
    | nil => exact absurd rfl hne
    | cons _ _ => rfl
  mqPuback := fun _ => rfl
  mqPubrec := fun _ => rfl
  mqPubrel := fun _ => rfl
  mqPubcomp := fun _ => rfl
  mqPingreq := rfl

/-- **C24.** Every MQTT packet in the output of every run is valid MQTT 3.1.1. -/
theorem c24 (cfg : Cfg) (idMin idMax : UInt16) (evs : List (Nat × Event)) (t : Nat) (p : MqPkt)
    (h : (t, Out.mq p) ∈ ((Gw.init cfg idMin idMax).run evs).outs) : valid311 p = true := by
  have := run_outs sites_c24 cfg idMin idMax evs _ h
  rcases this with h1 | h1
  · exact h1
  · rw [h1]; rfl

/-- the same, as the monitor the check runs on the implementation's own traces: on a trace
    made of the model's outputs the monitor `Spec.c24` reports nothing -/
theorem c24_monitor (cfg : Cfg) (idMin idMax : UInt16) (evs : List (Nat × Event)) :
    Spec.c24 ((((Gw.init cfg idMin idMax).run evs).outs.reverse).map fun x => TE.out x.1 x.2) = [] := by
  unfold Spec.c24
  rw [List.filterMap_eq_nil_iff]
  intro e he
  simp only [List.mem_map, List.mem_reverse] at he
  obtain ⟨x, hx, rfl⟩ := he
  obtain ⟨t, o⟩ := x
  cases o <;> simp only
  rename_i p
  rw [c24 cfg idMin idMax evs t p hx]
  rfl

/-- non-vacuity: a will CONNECT exchange ends in a CONNECT with the will flag set, a will QoS 3
    is refused (the session ends without a CONNECT) -/
example : ConnOk (ConnFields.mk [0x63] true 10 false [] false [] true 1 false [0x74] [0x6d]) := by
  constructor <;> decide

/-- **C24 (tie of the all-runs theorems).** The inventory of places where the gateway's code writes to the broker
    link — every call of `mqttSend`, `pingBroker`, `ProceedMQTT` in the package, regenerated from the source on every
    run — is the reviewed one the model was written against: `handleClientPublish` (model `handleClientPublish`),
    the PUBREL / PINGREQ / DISCONNECT cases of `handleMqttSn` (`handleSn`, `handlePingreq`, `handlePlainDisconnect`),
    `handleSubscribe` / `handleUnsubscribe` (`forwardSubscribe` / `forwardUnsubscribe`), the connect transaction's
    `authenticated` / `WillMsg` (`connAuthenticated` / `connWillMsg`), `ProceedMQTT` with its three callers
    (`proceedMQ` for PUBACK / PUBREC / PUBCOMP), `resend` (`retryExpire`), and `pingBroker` with its two callers
    (`keepBrokerAlive`, `firePing`).  A change that adds, removes or moves such a call breaks this obligation. -/
theorem c24_emission_sites :
    Gen.mqttSendSites_gateway =
     ["broker_publish_qos1_transaction.go:Puback:ProceedMQTT",
      "broker_publish_qos2_transaction.go:Pubcomp:ProceedMQTT",
      "broker_publish_qos2_transaction.go:Pubrec:ProceedMQTT",
      "broker_publish_transaction.go:ProceedMQTT:mqttSend",
      "broker_publish_transaction.go:resend:mqttSend",
      "connect_transaction.go:WillMsg:mqttSend",
      "connect_transaction.go:authenticated:mqttSend",
      "handler1.go:handleClientPublish:mqttSend",
      "handler1.go:handleMqttSn:mqttSend",
      "handler1.go:handleMqttSn:mqttSend",
      "handler1.go:handleMqttSn:mqttSend",
      "handler1.go:handleSubscribe:mqttSend",
      "handler1.go:handleUnsubscribe:mqttSend",
      "handler1.go:keepBrokerAlive:pingBroker",
      "handler1.go:pingBroker:mqttSend",
      "handler1.go:startSleepPinger:pingBroker"] := rfl

end Bisquitt.Gw
