/-
  Shared lemmas for C08 / C09 / C10: the connect exchange of the model, step by step.
-/
import Bisquitt.Lemmas.GwSt
import Bisquitt.Props.C07

namespace Bisquitt.Gw
open Bisquitt Gw

/-- with a will: only WILLTOPICREQ goes out (when the client is not asleep) -/
theorem connAuthenticated_will (g : Gw) (t : Tx) (f : ConnFields) (hw : f.will = true) (hs : g.st ≠ .asleep) :
    (g.connAuthenticated t f).outs = (g.now, Out.sn (encode .willtopicreq)) :: g.outs := by
  unfold connAuthenticated; simp [hw, snSend, hs, emit, setTx]

end Bisquitt.Gw
