/-
  C33 — Client keep-alive pings only while active.

  Theorems about the keep-alive part of the client model, for ALL states (KeepAlive > 0, the
  keep-alive goroutine and the group running):
  * `c33_ticker_follows_state`: the ticker runs exactly while the client is active — entering
    `active` arms it one period ahead, any other state stops it;
  * `c33_tick`: a tick re-arms the ticker one period ahead and, unless a keep-alive ping is still
    waiting for its PINGRESP, sends one PINGREQ (so while active a PINGREQ goes out, or one is
    outstanding, every period);
  * `c33_stop_on_leaving_active`: when the client leaves `active` (falls asleep, disconnects) the
    keep-alive ping in progress is ended at once — its retry timer is gone, so nothing is
    retransmitted while asleep or disconnected (`c33_no_timer_after_stop`);
  * `c33_state_change_never_blocks`: a state change is one total step of the model (the code's
    `notifyStateChange` never blocks its caller since the repair);
  * `c33_keepalive_result_private`: the end of a keep-alive exchange — success, or stopped because
    the client left `active` — produces no API return and does not cancel the group; only a
    keep-alive exchange that ran out of retries (the gateway is gone) ends the client.
  * `c33_ping_joins` (repaired defect, fix ccdec80): there is one PINGREQ exchange at a time — a ping
    requested while one is in progress (the keep-alive's and the application's can meet) sends its
    PINGREQ (`apiPing_open`: every ping puts exactly one PINGREQ on the wire) and waits for the
    transaction in progress instead of replacing it in the slot.
-/
import Bisquitt.Props.C28

namespace Bisquitt.Cl
open Bisquitt Cl

/-- **C33.** The ticker runs exactly while the client is active. -/
theorem c33_ticker_follows_state (c : Cl) (s : CState) (hk : c.cfg.ka ≠ 0) (ha : c.kaAlive = true) (hl : c.alive = true) :
    (c.notifyState s).kaTick = if s = .active then some (c.now + c.cfg.ka * 1000) else none := by
  unfold notifyState
  simp [hk, ha, hl]
  split <;> rfl

@[simp] theorem proceed_outs (c : Cl) (id : Nat) (k : TxKind) (p : Pkt) : (c.proceed id k p).outs = c.outs := by
  unfold proceed; split <;> (try split) <;> rfl
@[simp] theorem proceed_kaTick (c : Cl) (id : Nat) (k : TxKind) (p : Pkt) : (c.proceed id k p).kaTick = c.kaTick := by
  unfold proceed; split <;> (try split) <;> rfl
@[simp] theorem proceed_connClosed (c : Cl) (id : Nat) (k : TxKind) (p : Pkt) :
    (c.proceed id k p).connClosed = c.connClosed := by
  unfold proceed; split <;> (try split) <;> rfl
@[simp] theorem proceed_now (c : Cl) (id : Nat) (k : TxKind) (p : Pkt) : (c.proceed id k p).now = c.now := by
  unfold proceed; split <;> (try split) <;> rfl

theorem startPing_open (c : Cl) (call : String) (ka : Bool) (ho : c.connClosed = false) :
    (c.startPing call ka).outs = (c.now, Out.sn (encode (.pingreq []))) :: c.outs ∧ (c.startPing call ka).kaTick = c.kaTick := by
  unfold startPing
  simp only [newTx, send]
  have : ((({ c with txs := c.txs ++ [{ id := c.nextTx, kind := .ping ka, key := .ping }], nextTx := c.nextTx + 1 } : Cl).store
      .ping c.nextTx).proceed c.nextTx (.ping ka) (.pingreq [])).connClosed = false := by simp [store, ho]
  simp only [this, Bool.false_eq_true, if_false, if_true]
  simp [emit, store]

theorem joinPing_open (c : Cl) (call : String) (ka : Bool) (t : Tx) (ho : c.connClosed = false) :
    (c.joinPing call ka t).outs = (c.now, Out.sn (encode (.pingreq []))) :: c.outs ∧ (c.joinPing call ka t).kaTick = c.kaTick := by
  unfold joinPing
  simp only [send]
  have h1 : (if ka = true then c else c.setTx { t with kind := .ping false }).connClosed = false := by
    split <;> simpa [setTx] using ho
  simp only [h1, Bool.false_eq_true, if_false, if_true]
  split <;> simp [emit, setTx]

/-- every ping — the application's or the keep-alive's, starting an exchange or joining the one in
    progress — puts exactly one PINGREQ on the wire -/
theorem apiPing_open (c : Cl) (call : String) (ka : Bool) (ho : c.connClosed = false) :
    (c.apiPing call ka).outs = (c.now, Out.sn (encode (.pingreq []))) :: c.outs ∧ (c.apiPing call ka).kaTick = c.kaTick := by
  unfold apiPing
  split
  · exact joinPing_open c call ka _ ho
  · exact startPing_open c call ka ho

/-- **C33.** A tick: next tick one period ahead; one PINGREQ unless the keep-alive's own PINGREQ is
    still outstanding. (A tick that finds an exchange of the application in progress sends its PINGREQ
    and joins that exchange: one PINGRESP answers both.) -/
theorem c33_tick (c : Cl) (t : Nat) (ho : c.connClosed = false) :
    (c.fireDue (.kaTick t)).kaTick = some (t + c.cfg.ka * 1000) ∧
    (c.kaPinging = true → (c.fireDue (.kaTick t)).outs = c.outs) ∧
    (c.kaPinging = false → (c.fireDue (.kaTick t)).outs = (t, Out.sn (encode (.pingreq []))) :: c.outs) := by
  unfold fireDue
  simp only [Due.time]
  refine ⟨?_, ?_, ?_⟩
  · split
    · rfl
    · rw [(apiPing_open _ _ _ (by simpa using ho)).2]
  · intro h; simp [h]
  · intro h
    simp only [h, Bool.false_eq_true, if_false]
    rw [(apiPing_open _ _ _ (by simpa using ho)).1]

/-- **C33.** One PINGREQ exchange at a time: a ping that finds one in progress does not replace it in
    the slot (no new transaction), it waits for the same transaction. -/
theorem c33_ping_joins (c : Cl) (call : String) (ka : Bool) (t : Tx) (h : c.pingInProgress = some t)
    (ho : c.connClosed = false) :
    (c.apiPing call ka).nextTx = c.nextTx ∧ (c.apiPing call ka).slotPing = c.slotPing ∧
    (c.apiPing call ka).waits = c.waits ++ [{ call := call, tx := t.id, kind := .plain }] := by
  unfold apiPing
  rw [h]
  simp only
  unfold joinPing
  simp only [send]
  have h1 : (if ka = true then c else c.setTx { t with kind := .ping false }).connClosed = false := by
    split <;> simpa [setTx] using ho
  simp only [h1, Bool.false_eq_true, if_false, if_true]
  split <;> simp [emit, setTx]

/-- the keep-alive exchange in progress, if any -/
def Cl.kaPingTx (c : Cl) : Option Tx :=
  match c.slotPing.bind c.getTx with
  | some t => (match t.kind with | .ping true => some t | _ => none)
  | none => none

/-- **C33.** Leaving `active` ends the keep-alive ping in progress at once. -/
theorem c33_stop_on_leaving_active (c : Cl) (s : CState) (t : Tx) (hs : s ≠ .active) (hne : c.st ≠ s)
    (hk : c.cfg.ka ≠ 0) (ha : c.kaAlive = true) (hl : c.alive = true) (ht : c.kaPingTx = some t) :
    c.setState s = (({ c with st := s } : Cl).notifyState s).finishTx t.id .keepaliveStopped := by
  unfold setState
  simp only [hne, if_false]
  have hslot : (({ c with st := s } : Cl).notifyState s).slotPing.bind (({ c with st := s } : Cl).notifyState s).getTx =
      c.slotPing.bind c.getTx := by
    unfold notifyState; simp only; split <;> (try split) <;> rfl
  have hka : (({ c with st := s } : Cl).notifyState s).cfg.ka = c.cfg.ka ∧
      (({ c with st := s } : Cl).notifyState s).kaAlive = c.kaAlive ∧
      (({ c with st := s } : Cl).notifyState s).alive = c.alive := by
    unfold notifyState alive; simp only; split <;> (try split) <;> exact ⟨rfl, rfl, rfl⟩
  unfold kaPingTx at ht
  split
  · rw [hslot]
    cases h1 : c.slotPing.bind c.getTx with
    | none => simp [h1] at ht
    | some t' =>
      simp only [h1] at ht ⊢
      split at ht
      · rename_i hkind
        simp only [Option.some.injEq] at ht
        subst ht
        simp [hkind]
      · simp at ht
  · rename_i hcond
    exact absurd ⟨hs, by rw [hka.1]; exact hk, by rw [hka.2.1]; exact ha, by rw [hka.2.2]; exact hl⟩ hcond

/-- **C33.** An ended transaction has no timer: nothing of it is ever retransmitted. -/
theorem c33_no_timer_after_stop (c : Cl) (t : Tx) (e : Err) (ht : c.getTx t.id = some t) (hd : t.done = false) :
    ∀ x ∈ (c.finishTx t.id e).txs, x.id = t.id → x.timer = none ∧ x.done = true := by
  intro x hx hid
  unfold finishTx at hx
  simp only [ht, hd, Bool.false_eq_true, if_false] at hx
  have : x ∈ (c.setTx { t with done := true, err := e, timer := none }).txs := by
    unfold runFinally at hx; split at hx <;> (try split at hx) <;> exact hx
  simp only [setTx, List.mem_map] at this
  obtain ⟨z, hz, rfl⟩ := this
  by_cases hz' : (z.id == t.id) = true
  · simp [hz']
  · simp only [hz', Bool.false_eq_true, if_false] at hid
    exact absurd (by simpa using hid) hz'

/-- **C33.** A state change is one total step: it cannot block. (Stated as: `setState` is a
    function — the content is the correspondence with the repaired `notifyStateChange`.) -/
theorem c33_state_change_never_blocks (c : Cl) (s : CState) : ∃ c', c.setState s = c' := ⟨_, rfl⟩

/-- **C33.** The end of a keep-alive exchange is nobody else's business: no API return, and the
    group is not cancelled — unless the exchange ran out of retries (the gateway is gone). When no
    tick was missed meanwhile nothing at all is sent. -/
theorem c33_keepalive_result_private (c : Cl) (w : Wait) (t : Tx) (hw : w.kind = .plain) (hc : w.call = "#keepalive")
    (ht : c.getTx w.tx = some t) (hd : t.done = true) (he : t.err = .ok ∨ t.err = .keepaliveStopped)
    (hn : w.committed = false) (hm : c.kaMissed = false) :
    (c.settleOne w).outs = c.outs ∧ (c.settleOne w).cancelledAt = c.cancelledAt ∧ (c.settleOne w).kaPinging = false := by
  unfold settleOne
  rcases he with he | he <;> simp [ht, hd, hw, hc, he, hn, hm]

/-- **C33.** A tick that came while the previous keep-alive PINGREQ was unanswered is not lost: when
    that exchange ends successfully and the client is still active, the next PINGREQ goes out at once. -/
theorem c33_missed_tick_served (c : Cl) (w : Wait) (t : Tx) (hw : w.kind = .plain) (hc : w.call = "#keepalive")
    (ht : c.getTx w.tx = some t) (hd : t.done = true) (he : t.err = .ok) (hn : w.committed = false)
    (hm : c.kaMissed = true) (hs : c.st = .active) (ha : c.alive = true) (ho : c.connClosed = false) :
    (c.settleOne w).outs = (c.now, Out.sn (encode (.pingreq []))) :: c.outs := by
  unfold settleOne
  simp only [ht, hd, hn, Bool.not_false, and_self, if_true, hw, hc, he, hm, hs, ha]
  exact (apiPing_open _ _ _ (by simpa using ho)).1

end Bisquitt.Cl
