/-
  C05 — Predefined topic lookups are mutually consistent.
  For every configuration (any number of clients, IDs, names; overlapping freely), client
  ID and name.
-/
import Bisquitt.Spec.Topics

namespace Bisquitt
open Spec Predef

/-- **C05 (lookup by ID).** -/
theorem c05_name (t : Predef) (c : Bytes) (id : UInt16) :
    getTopicName t c id = specName t c id := by
  unfold getTopicName specName
  cases h : (t.lookup c).bind (·.lookup id) <;> simp

theorem mem_idsWithName {m : TopicMap} {name : Bytes} {id : UInt16}
    (h : id ∈ idsWithName m name) : m.lookup id = some name := by
  unfold idsWithName at h
  have := (List.mem_filter.mp h).2
  simpa using this

/-- **C05 (lookup by name is sound).** Every admissible answer of `GetTopicID` reads back, for
    the same client, as exactly that name. -/
theorem c05_id_sound (t : Predef) (c name : Bytes) (id : UInt16)
    (h : id ∈ getTopicIdSet t c name) : getTopicName t c id = some name := by
  unfold getTopicIdSet at h
  cases hc : t.lookup c with
  | none =>
    -- no client-specific map: only the "*" map can answer
    simp only [hc] at h
    cases hs : t.lookup starId with
    | none => simp [hs] at h
    | some all =>
      simp only [hs] at h
      have h1 : id ∈ idsWithName all name := by simpa using h
      simp [getTopicName, hc, hs, mem_idsWithName h1]
  | some m =>
    simp only [hc] at h
    by_cases hown : idsWithName m name = []
    · -- found in the "*" map and not shadowed
      simp only [hown, ne_eq, not_true_eq_false, if_false] at h
      cases hs : t.lookup starId with
      | none => simp [hs] at h
      | some all =>
        simp only [hs] at h
        obtain ⟨h1, h2⟩ := List.mem_filter.mp h
        have hl := mem_idsWithName h1
        have hn : m.lookup id = none := by
          cases hm : m.lookup id with
          | none => rfl
          | some x => simp [hm] at h2
        simp [getTopicName, hc, hs, hl, hn]
    · -- found in the client's own map
      simp only [ne_eq, hown, not_false_eq_true, if_true] at h
      simp [getTopicName, hc, mem_idsWithName h]

/-- **C05 (corollary used by C02/C32).** an ID the gateway derives from a name is read back by
    the client (same configuration, same client ID) as that name. -/
theorem c05_readback (t : Predef) (c name : Bytes) (id : UInt16)
    (h : id ∈ getTopicIdSet t c name) : specName t c id = some name := by
  rw [← c05_name]; exact c05_id_sound t c name id h

/-- non-vacuity on the repository's own testdata shape: `*` maps 1 ↦ device/any/data while
    client1 shadows ID 1; the `*` answer is *not* admissible for client1, but is for others. -/
example :
    let t : Predef := [ ([0x63, 0x31], [(1, [0x78])]), (starId, [(1, [0x79]), (2, [0x7A])]) ]
    getTopicIdSet t [0x63, 0x31] [0x79] = [] ∧ getTopicIdSet t [0x63, 0x32] [0x79] = [1] ∧
    getTopicIdSet t [0x63, 0x31] [0x7A] = [2] := by decide

end Bisquitt
