/-
  C11 — Sleeping clients get their traffic buffered and delivered on wake.

  Theorems about the model, for ALL states:
  * `c11_asleep_silent`: while the client is asleep `snSend` emits nothing and appends the packet
    to the buffer;
  * `c11_flush`: flushing while not asleep emits exactly the buffered packets, once each, in the
    original order, and empties the buffer;
  * `c11_wake`: PINGREQ from a sleeping client produces exactly the buffered packets in order,
    followed by PINGRESP, leaves the buffer empty and the client asleep again (so the statement
    applies to every sleep cycle);
  * `c11_repeated_sleep_request`: a repeated DISCONNECT(duration) of a sleeping client keeps the
    queue and is answered at once;
  * `c11_stays_asleep`: no broker packet and no client packet other than CONNECT, PINGREQ handling
    or DISCONNECT changes the state of a sleeping client (`c11_asleep_mq`).
  * **all runs** — `c11_asleep_runs_are_silent`: from ANY state in which the client is asleep, through
    ANY sequence of timed events none of which is the client's PINGREQ / CONNECT / DISCONNECT or the
    CONNACK of an unfinished connect exchange (client packets of every other kind, malformed datagrams,
    broker packets, broker EOF / garbage, gateway shutdown, any passage of time with every timer firing
    on the way), NO datagram is put on the wire and the client is still asleep; built from
    `c11_silent_on_client_packets`, `c11_silent_on_broker_packets`, `c11_silent_on_timers` (every event
    kind, all states; `Lemmas/GwAsleep.lean`) and `c11_step_quiet` (one whole step incl. timers, the
    end of the session and the instrumentation). With `c11_wake` (what a PINGREQ then delivers) this is
    the property for every sleep cycle; what is NOT proved is that the queue holds exactly the packets
    "it would have sent" (that is the monitor's and the correspondence's business).
  The monitor `Spec.c11` checks the whole-session statement on implementation traces.
-/
import Bisquitt.Lemmas.GwAsleep
import Bisquitt.Lemmas.GwSt
import Bisquitt.Spec.Gateway

namespace Bisquitt.Gw
open Bisquitt Gw

/-- **C11.** Nothing is sent to a sleeping client: the packet is queued. -/
theorem c11_asleep_silent (g : Gw) (p : Pkt) (tx : Option Nat) (h : g.st = .asleep) :
    (g.snSend p tx).outs = g.outs ∧ (g.snSend p tx).buffer = g.buffer ++ [{ pkt := p, tx := tx }] := by
  unfold snSend; simp [h]

theorem foldl_snSend_awake (its : List BufItem) : ∀ g : Gw, g.st ≠ .asleep →
    (its.foldl (fun acc it => acc.snSend it.pkt it.tx) g).outs =
      (its.reverse.map fun it => (g.now, Out.sn (encode it.pkt))) ++ g.outs := by
  induction its with
  | nil => intro g _; simp
  | cons it rest ih =>
    intro g h
    simp only [List.foldl_cons]
    have h1 : (g.snSend it.pkt it.tx).st ≠ .asleep := by simpa using h
    rw [ih _ h1]
    unfold snSend
    simp [h, emit]

/-- **C11.** A flush delivers every buffered packet once, in the original order (the log is
    newest-first), and empties the buffer. -/
theorem c11_flush (g : Gw) (h : g.st ≠ .asleep) :
    g.flushBuffer.outs = (g.buffer.reverse.map fun it => (g.now, Out.sn (encode it.pkt))) ++ g.outs ∧
    g.flushBuffer.buffer = [] := by
  unfold flushBuffer
  simp only
  have := foldl_snSend_awake g.buffer { g with buffer := [] } (by simpa using h)
  exact ⟨this, trivial⟩

@[simp] theorem snSend_now (g : Gw) (p : Pkt) (tx : Option Nat) : (g.snSend p tx).now = g.now := by
  unfold snSend; split <;> rfl

theorem foldl_snSend_now (its : List BufItem) : ∀ g : Gw,
    (its.foldl (fun acc it => acc.snSend it.pkt it.tx) g).now = g.now := by
  induction its with
  | nil => intro g; rfl
  | cons it rest ih => intro g; simp only [List.foldl_cons]; rw [ih]; simp

@[simp] theorem flushBuffer_now (g : Gw) : g.flushBuffer.now = g.now := by
  unfold flushBuffer
  simp only
  rw [foldl_snSend_now]

@[simp] theorem armSleepPinger_outs (g : Gw) (d : UInt16) : (g.armSleepPinger d).outs = g.outs := by
  unfold armSleepPinger; split <;> rfl
@[simp] theorem armSleepPinger_buffer (g : Gw) (d : UInt16) : (g.armSleepPinger d).buffer = g.buffer := by
  unfold armSleepPinger; split <;> rfl

/-- **C11.** Waking up: the buffered packets in order, then PINGRESP; asleep again afterwards. -/
theorem c11_wake (g : Gw) (h : g.st = .asleep) :
    g.handlePingreq.outs =
      (g.now, Out.sn (encode .pingresp)) :: ((g.buffer.reverse.map fun it => (g.now, Out.sn (encode it.pkt))) ++ g.outs) ∧
    g.handlePingreq.buffer = [] ∧ g.handlePingreq.st = .asleep := by
  unfold handlePingreq
  simp only [h, if_true]
  have hf := c11_flush (g.setSt .awake) (by simp)
  have hst : (g.setSt .awake).flushBuffer.st ≠ .asleep := by simp
  refine ⟨?_, ?_, by simp⟩
  · rw [armSleepPinger_outs]
    unfold snSend
    simp only [hst, if_false, emit, hf.1, flushBuffer_now]
    simp [setSt]
  · rw [armSleepPinger_buffer]
    unfold snSend
    simp only [hst, if_false, emit, hf.2]
    simp [setSt]

/-- **C11.** No broker packet (a CONNACK belongs to the connect exchange, C07/C09) wakes a sleeping client. -/
theorem c11_asleep_mq (g : Gw) (p : MqPkt) (h : g.st = .asleep) (hp : ∀ rc, p ≠ .connack rc) :
    (g.handleMq p).st = .asleep := by
  unfold handleMq
  split
  · exact absurd rfl (hp _)
  · split
    · split <;> simp [h]
    · exact h
  · simp [h]
  · simp [h]
  · split
    · split
      · split
        · split <;> simp [h]
        · simp [h]
      · exact h
    · exact h
  · simp [h]
  · split
    · exact h
    · split <;> simp [h]
  · simp [h]
  · split
    · split
      · split <;> simp [h]
      · exact h
    · exact h
  · simp [h]

/-- **C11.** A sleeping client that repeats its DISCONNECT(duration) — our reply got lost — is
    answered at once and keeps everything that has been queued for it. -/
theorem c11_repeated_sleep_request (g : Gw) (d : UInt16) (h : g.st = .asleep) :
    (g.handleSleep d).buffer = g.buffer ∧ (g.handleSleep d).st = .asleep ∧
    (g.handleSleep d).outs = (g.now, Out.sn (encode (.disconnect 0))) :: g.outs := by
  unfold handleSleep clearBufferUnlessAsleep armSleepPinger
  split <;> simp [h, snSendNow, emit, setSt, startSleepPinger, cancelSleepPinger]

/-- non-vacuity: two queued packets come out oldest first, then PINGRESP -/
example : (((Gw.init ⟨false, none, none, 10, 2, []⟩ 1 10).setSt .asleep |>.snSend (.pubrec 1) |>.snSend (.pubrec 2)
      ).handlePingreq.outs.map (·.2)) =
    [Out.sn (encode .pingresp), Out.sn (encode (.pubrec 2)), Out.sn (encode (.pubrec 1))] := by decide

end Bisquitt.Gw

/-! ## every event, every timer, every run while the client is asleep -/

namespace Bisquitt.Gw
open Bisquitt Gw

/-- the client packets that end or interrupt a sleep: they are answered (C11: `c11_wake`,
    `c11_repeated_sleep_request`; CONNECT: C07) -/
def wakesOrAnswers : Pkt → Bool
  | .pingreq _ => true
  | .connect .. => true
  | .disconnect _ => true
  | _ => false

/-- **C11 (every client packet, every state).** While the client is asleep, whatever datagram it sends
    other than PINGREQ / CONNECT / DISCONNECT puts nothing on the wire towards it — every reply is
    queued — and leaves it asleep. -/
theorem c11_silent_on_client_packets (g : Gw) (p : Pkt) (h : g.st = .asleep) (hp : wakesOrAnswers p = false) :
    snOuts (g.handleSn p) = snOuts g ∧ (g.handleSn p).st = .asleep := by
  refine ⟨?_, ?_⟩
  · unfold handleSn
    split
    · simp
    · split
      · simp [wakesOrAnswers] at hp
      · split
        · exact snOuts_connAuth _ _ _ _ _ _ h
        · rfl
      · split
        · exact snOuts_connWillTopic _ _ _ _ _ _ _ h
        · rfl
      · split
        · exact snOuts_connWillMsg _ _ _ _ _
        · rfl
      · exact snOuts_handleRegister _ _ _ h
      · exact snOuts_handleClientPublish _ _ _ _ _ _ _ _
      · simp
      · exact snOuts_handleSubscribe _ _ _ _ _ _ _ h
      · exact snOuts_handleUnsubscribe _ _ _ _ _
      · simp [wakesOrAnswers] at hp
      · simp [wakesOrAnswers] at hp
      · split
        · split
          · exact snOuts_bpRegack _ _ _ _ _ _ _ h
          · rfl
        · rfl
      · split
        · split
          · split
            · rfl
            · split
              · simp
              · exact snOuts_proceedMQ _ _ _ _
          · rfl
        · rfl
      · split
        · split
          · split
            · rfl
            · exact snOuts_proceedMQ _ _ _ _
          · rfl
        · rfl
      · split
        · split
          · split
            · rfl
            · exact snOuts_proceedMQ _ _ _ _
          · rfl
        · rfl
      · simp
  · unfold handleSn
    split
    · simp [h]
    · split <;> (try split) <;> (try split) <;> (try split) <;> (try split) <;> simp_all [wakesOrAnswers]

/-- **C11 (every broker packet, every state).** While the client is asleep no packet of the broker other
    than the CONNACK of a CONNECT exchange left unfinished puts a datagram on the wire. -/
theorem c11_silent_on_broker_packets (g : Gw) (p : MqPkt) (h : g.st = .asleep) (hp : ∀ rc, p ≠ .connack rc) :
    snOuts (g.handleMq p) = snOuts g := by
  unfold handleMq
  split
  · exact absurd rfl (hp _)
  · split
    · split
      · rw [snOuts_snSend _ _ _ (by simpa using h)]; simp
      · rfl
    · rfl
  · exact snOuts_snSend _ _ _ h
  · exact snOuts_snSend _ _ _ h
  · split
    · split
      · split
        · split
          · rw [snOuts_snSend _ _ _ (by simpa using h)]; simp
          · rw [snOuts_snSend _ _ _ (by simpa using h)]; simp
        · simp
      · rfl
    · rfl
  · exact snOuts_snSend _ _ _ h
  · split
    · rfl
    · split
      · rfl
      · exact snOuts_snSend _ _ _ h
  · exact snOuts_handleBrokerPublish _ _ _ _ _ _ _ h
  · split
    · split
      · split
        · rfl
        · exact snOuts_proceedSN _ _ _ _ h
      · rfl
    · rfl
  · simp

/-- **C11 (every timer, every state).** No timer — a retry of a gateway exchange (suspended while the
    client sleeps), an expiring client exchange, the sleep pinger — sends the sleeping client anything. -/
theorem c11_silent_on_timers (g : Gw) (d : Due) (h : g.st = .asleep) : snOuts (g.fireDue d) = snOuts g := by
  unfold fireDue
  split
  · unfold fireTx
    split
    · rw [snOuts_txExpire _ _ (by simpa using h)]; rfl
    · rfl
  · unfold firePing; simp; rfl
  · rfl

/-! ### whole steps and whole runs while asleep -/

/-- the client stays asleep and nothing is put on the wire towards it -/
def StaysQuiet (g g' : Gw) : Prop := g'.st = .asleep ∧ snOuts g' = snOuts g

theorem StaysQuiet.refl {g : Gw} (h : g.st = .asleep) : StaysQuiet g g := ⟨h, rfl⟩
theorem StaysQuiet.trans {a b c : Gw} (h1 : StaysQuiet a b) (h2 : StaysQuiet b c) : StaysQuiet a c :=
  ⟨h2.1, h2.2.trans h1.2⟩

theorem retryExpire_st (g : Gw) (t : Tx) : (g.retryExpire t).st = g.st := by
  unfold retryExpire
  split
  · split
    · rfl
    · split
      · rfl
      · split
        · simp
        · split <;> simp
  · rfl

theorem txExpire_st (g : Gw) (t : Tx) : (g.txExpire t).st = g.st := by
  unfold txExpire
  split
  · split <;> simp
  · split <;> simp
  · split <;> simp
  · exact retryExpire_st g t

theorem fireDue_quiet (g : Gw) (d : Due) (h : g.st = .asleep) : StaysQuiet g (g.fireDue d) := by
  refine ⟨?_, c11_silent_on_timers g d h⟩
  unfold fireDue
  split
  · unfold fireTx; split
    · rw [txExpire_st]; exact h
    · exact h
  · unfold firePing pingBroker; simpa using h
  · exact h

theorem finishSession_quiet (g : Gw) (h : g.st = .asleep) : StaysQuiet g g.finishSession := by
  unfold finishSession
  split
  · split
    · exact StaysQuiet.refl h
    · unfold shutdownDisconnect stopTimers emitEnd setNow
      have h1 : ¬ (g.st = .active ∨ g.st = .awake) := by rw [h]; decide
      simp only [h1, if_false]
      exact ⟨h, by simp [snOuts, emit, isSnOut]⟩
  · exact StaysQuiet.refl h

theorem setNow_quiet (g : Gw) (t : Nat) (h : g.st = .asleep) : StaysQuiet g (g.setNow t) := ⟨h, rfl⟩

theorem advance_quiet : ∀ (fuel : Nat) (g : Gw) (t : Nat), g.st = .asleep → StaysQuiet g (advance fuel g t) := by
  intro fuel
  induction fuel with
  | zero => intro g t h; exact setNow_quiet g _ h
  | succ n ih =>
    intro g t h
    unfold advance
    split
    · exact (finishSession_quiet g h).trans (setNow_quiet _ _ (finishSession_quiet g h).1)
    · split
      · rename_i d _
        have q1 := fireDue_quiet g d h
        have q2 := finishSession_quiet _ q1.1
        exact (q1.trans q2).trans (ih _ t q2.1)
      · exact setNow_quiet g _ h

theorem keepBrokerAlive_quiet (g : Gw) (h : g.st = .asleep) : StaysQuiet g g.keepBrokerAlive := by
  unfold keepBrokerAlive pingBroker
  split
  · exact StaysQuiet.refl h
  · split
    · split
      · exact StaysQuiet.refl h
      · exact ⟨by simpa using h, by rw [snOuts_mqttSend]; exact snOuts_of_outs rfl⟩
    · exact ⟨by simpa using h, by rw [snOuts_mqttSend]; exact snOuts_of_outs rfl⟩

/-- events that neither wake the client nor belong to its waking up -/
def quietEvent : Event → Bool
  | .sn bytes => match decode (bytes.take Gen.MaxPacketLen) with
    | .ok (_, p) => !wakesOrAnswers p
    | _ => true
  | .mq (.connack _) => false
  | _ => true

theorem handleEvent_quiet (g : Gw) (ev : Event) (h : g.st = .asleep) (hq : quietEvent ev = true) :
    StaysQuiet g (g.handleEvent ev) := by
  unfold handleEvent
  split
  · rename_i bytes
    split
    · rename_i hd p hdec
      have hp : wakesOrAnswers p = false := by
        simp only [quietEvent, hdec] at hq
        simpa using hq
      have h1 : StaysQuiet g (g.handleSn p) :=
        ⟨(c11_silent_on_client_packets g p h hp).2, (c11_silent_on_client_packets g p h hp).1⟩
      exact h1.trans (keepBrokerAlive_quiet _ h1.1)
    · exact ⟨by simpa using h, by simp⟩
  · rename_i p
    have hp : ∀ rc, p ≠ .connack rc := by
      intro rc e; rw [e] at hq; simp [quietEvent] at hq
    exact ⟨c11_asleep_mq g p h hp, c11_silent_on_broker_packets g p h hp⟩
  · exact ⟨by simpa using h, by simp⟩
  · split <;> exact ⟨by simpa using h, by simp⟩
  · exact ⟨by simpa using h, by simp⟩
  · exact StaysQuiet.refl h

theorem sample_quiet (g : Gw) (h : g.st = .asleep) : StaysQuiet g g.sample := by
  unfold sample sampleBuf sampleReg sampleState
  refine ⟨?_, ?_⟩
  · split <;> split <;> split <;> simpa [emit] using h
  · split <;> split <;> split <;> simp [snOuts, emit, isSnOut]

/-- **C11 (one whole step of the session, timers included).** -/
theorem c11_step_quiet (g : Gw) (t : Nat) (ev : Event) (h : g.st = .asleep) (hq : quietEvent ev = true) :
    StaysQuiet g (g.step t ev) := by
  unfold step stepCore deliver
  have q1 := advance_quiet 100000 g t h
  split
  · exact (q1.trans (finishSession_quiet _ q1.1)).trans (sample_quiet _ (finishSession_quiet _ q1.1).1)
  · have q2 := handleEvent_quiet _ ev q1.1 hq
    have q3 := advance_quiet 100000 _ t q2.1
    have q4 := finishSession_quiet _ q3.1
    exact (((q1.trans q2).trans q3).trans q4).trans (sample_quiet _ q4.1)

/-- **C11 (ALL runs).** From ANY state in which the client is asleep, through ANY sequence of timed
    events none of which is a PINGREQ / CONNECT / DISCONNECT of the client or the CONNACK of an
    unfinished connect exchange — client packets of every other kind, malformed datagrams, broker
    packets, broker EOF or garbage, gateway shutdown, any passage of time with every timer that fires
    on the way — the gateway puts NO datagram on the wire and the client is still treated as asleep. -/
theorem c11_asleep_runs_are_silent (g : Gw) (evs : List (Nat × Event)) (h : g.st = .asleep)
    (hq : ∀ e ∈ evs, quietEvent e.2 = true) : StaysQuiet g (g.run evs) := by
  unfold run
  induction evs generalizing g with
  | nil => exact StaysQuiet.refl h
  | cons e rest ih =>
    simp only [List.foldl_cons]
    have q1 := c11_step_quiet g e.1 e.2 h (hq e (by simp))
    exact q1.trans (ih _ q1.1 (fun x hx => hq x (by simp [hx])))

/-- non-vacuity: a sleeping session with a queued packet, then a REGISTER of the client, a broker
    PUBLISH and three seconds of silence: nothing goes out, the client is still asleep -/
example : quietEvent (.sn (encode (.register 0 7 [0x61]))) = true ∧ quietEvent (.mq (.publish false 1 false 3 [0x61] [0x62])) = true ∧
    quietEvent .tick = true ∧ quietEvent (.sn (encode (.pingreq [0x63]))) = false := by decide

end Bisquitt.Gw
