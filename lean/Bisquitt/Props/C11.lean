/-
  C11 — Sleeping clients get their traffic buffered and delivered on wake.

  Theorems about the model, for ALL states:
  * `c11_asleep_silent`: while the client is asleep `snSend` emits nothing and appends the packet
    to the buffer;
  * `c11_flush`: flushing while not asleep emits exactly the buffered packets, once each, in the
    original order, and empties the buffer;
  * `c11_wake`: PINGREQ from a sleeping client produces exactly the buffered packets in order,
    followed by PINGRESP, leaves the buffer empty and the client asleep again (so the statement
    applies to every sleep cycle);
  * `c11_repeated_sleep_request`: a repeated DISCONNECT(duration) of a sleeping client keeps the
    queue and is answered at once;
  * `c11_stays_asleep`: no broker packet and no client packet other than CONNECT, PINGREQ handling
    or DISCONNECT changes the state of a sleeping client (`c11_asleep_mq`).
  The monitor `Spec.c11` checks the whole-session statement on implementation traces.
-/
import Bisquitt.Lemmas.GwSt
import Bisquitt.Spec.Gateway

namespace Bisquitt.Gw
open Bisquitt Gw

/-- **C11.** Nothing is sent to a sleeping client: the packet is queued. -/
theorem c11_asleep_silent (g : Gw) (p : Pkt) (tx : Option Nat) (h : g.st = .asleep) :
    (g.snSend p tx).outs = g.outs ∧ (g.snSend p tx).buffer = g.buffer ++ [{ pkt := p, tx := tx }] := by
  unfold snSend; simp [h]

theorem foldl_snSend_awake (its : List BufItem) : ∀ g : Gw, g.st ≠ .asleep →
    (its.foldl (fun acc it => acc.snSend it.pkt it.tx) g).outs =
      (its.reverse.map fun it => (g.now, Out.sn (encode it.pkt))) ++ g.outs := by
  induction its with
  | nil => intro g _; simp
  | cons it rest ih =>
    intro g h
    simp only [List.foldl_cons]
    have h1 : (g.snSend it.pkt it.tx).st ≠ .asleep := by simpa using h
    rw [ih _ h1]
    unfold snSend
    simp [h, emit]

/-- **C11.** A flush delivers every buffered packet once, in the original order (the log is
    newest-first), and empties the buffer. -/
theorem c11_flush (g : Gw) (h : g.st ≠ .asleep) :
    g.flushBuffer.outs = (g.buffer.reverse.map fun it => (g.now, Out.sn (encode it.pkt))) ++ g.outs ∧
    g.flushBuffer.buffer = [] := by
  unfold flushBuffer
  simp only
  have := foldl_snSend_awake g.buffer { g with buffer := [] } (by simpa using h)
  exact ⟨this, trivial⟩

@[simp] theorem snSend_now (g : Gw) (p : Pkt) (tx : Option Nat) : (g.snSend p tx).now = g.now := by
  unfold snSend; split <;> rfl

theorem foldl_snSend_now (its : List BufItem) : ∀ g : Gw,
    (its.foldl (fun acc it => acc.snSend it.pkt it.tx) g).now = g.now := by
  induction its with
  | nil => intro g; rfl
  | cons it rest ih => intro g; simp only [List.foldl_cons]; rw [ih]; simp

@[simp] theorem flushBuffer_now (g : Gw) : g.flushBuffer.now = g.now := by
  unfold flushBuffer
  simp only
  rw [foldl_snSend_now]

/-- **C11.** Waking up: the buffered packets in order, then PINGRESP; asleep again afterwards. -/
theorem c11_wake (g : Gw) (h : g.st = .asleep) :
    g.handlePingreq.outs =
      (g.now, Out.sn (encode .pingresp)) :: ((g.buffer.reverse.map fun it => (g.now, Out.sn (encode it.pkt))) ++ g.outs) ∧
    g.handlePingreq.buffer = [] ∧ g.handlePingreq.st = .asleep := by
  unfold handlePingreq
  simp only [h, if_true]
  have hf := c11_flush (g.setSt .awake) (by simp)
  have hst : (g.setSt .awake).flushBuffer.st ≠ .asleep := by simp
  refine ⟨?_, ?_, by simp⟩
  · unfold snSend
    simp only [hst, if_false, emit, hf.1, flushBuffer_now]
    simp [setSt]
  · unfold snSend
    simp only [hst, if_false, emit, hf.2]
    simp [setSt]

/-- **C11.** No broker packet (a CONNACK belongs to the connect exchange, C07/C09) wakes a sleeping client. -/
theorem c11_asleep_mq (g : Gw) (p : MqPkt) (h : g.st = .asleep) (hp : ∀ rc, p ≠ .connack rc) :
    (g.handleMq p).st = .asleep := by
  unfold handleMq
  split
  · exact absurd rfl (hp _)
  · split
    · split <;> simp [h]
    · exact h
  · simp [h]
  · simp [h]
  · split
    · split
      · split
        · split <;> simp [h]
        · simp [h]
      · exact h
    · exact h
  · simp [h]
  · split <;> simp [h]
  · simp [h]
  · split
    · split
      · split <;> simp [h]
      · exact h
    · exact h
  · simp [h]

/-- **C11.** A sleeping client that repeats its DISCONNECT(duration) — our reply got lost — is
    answered at once and keeps everything that has been queued for it. -/
theorem c11_repeated_sleep_request (g : Gw) (d : UInt16) (h : g.st = .asleep) :
    (g.handleSleep d).buffer = g.buffer ∧ (g.handleSleep d).st = .asleep ∧
    (g.handleSleep d).outs = (g.now, Out.sn (encode (.disconnect 0))) :: g.outs := by
  unfold handleSleep clearBufferUnlessAsleep maybeSleepPinger
  split <;> simp [h, snSendNow, emit, setSt, startSleepPinger, cancelSleepPinger]

/-- non-vacuity: two queued packets come out oldest first, then PINGRESP -/
example : (((Gw.init ⟨false, none, none, 10, 2, []⟩ 1 10).setSt .asleep |>.snSend (.pubrec 1) |>.snSend (.pubrec 2)
      ).handlePingreq.outs.map (·.2)) =
    [Out.sn (encode .pingresp), Out.sn (encode (.pubrec 2)), Out.sn (encode (.pubrec 1))] := by decide

end Bisquitt.Gw
