/-
  C27 — Client dispatch follows MQTT topic-filter matching (the matching function).

  `specMatch` states MQTT 3.1.1 §4.7 positionally: find the first `#` level; the levels
  before it (all levels if there is none) must match the topic's levels one by one, `+`
  matching any single level; with `#` the topic may have any number (including zero) of
  further levels — so `sport/#` matches `sport` — and without `#` the level counts agree.
  Theorem: the code's recursive `match` equals it for ALL filters and topics.
-/
import Bisquitt.Spec.Match
import Bisquitt.Model.Client

namespace Bisquitt

/-- **C27 (matching).** -/
theorem c27_match : ∀ (f t : List Bytes), matchRoute f t = specMatch f t := by
  intro f
  induction f with
  | nil =>
    intro t
    cases t <;> simp [matchRoute, specMatch]
  | cons r rs ih =>
    intro t
    by_cases hr : r = hashLevel
    · subst hr
      cases t <;> simp [matchRoute, specMatch, List.findIdx_cons]
    · have hb : (r == hashLevel) = false := by simpa using hr
      cases t with
      | nil =>
        simp only [matchRoute, specMatch, List.findIdx_cons, hb, cond_false]
        by_cases hk : List.findIdx (· == hashLevel) rs + 1 < (r :: rs).length <;> simp [hk]
      | cons x ts =>
        simp only [matchRoute, hb, Bool.false_eq_true, if_false]
        rw [ih ts]
        simp only [specMatch, List.findIdx_cons, hb, cond_false, List.length_cons]
        by_cases hk : List.findIdx (· == hashLevel) rs < rs.length
        · have hk' : List.findIdx (· == hashLevel) rs + 1 < rs.length + 1 := by omega
          simp only [hk, hk', if_true, List.take_succ_cons, List.zip_cons_cons, List.all_cons, levelOk]
          by_cases hl : (r == plusLevel || r == x) = true
          · simp [hl]
          · simp [hl]
        · have hk' : ¬ (List.findIdx (· == hashLevel) rs + 1 < rs.length + 1) := by omega
          simp only [hk, hk', if_false, List.zip_cons_cons, List.all_cons, levelOk]
          by_cases hl : (r == plusLevel || r == x) = true
          · simp [hl]
          · simp [hl]

/-- examples from the MQTT 3.1.1 text, with `s` for the level "sport", `f` for "finance":
    sport/# ~ sport;  sport/+ ~ sport/ ;  sport/+ !~ sport;  +/+ ~ /finance;  + !~ /finance;
    and `splitTopic` keeps empty levels. -/
example : specMatch [[0x73], hashLevel] [[0x73]] = true := by decide
example : specMatch [[0x73], plusLevel] [[0x73], []] = true := by decide
example : specMatch [[0x73], plusLevel] [[0x73]] = false := by decide
example : specMatch [plusLevel, plusLevel] [[], [0x66]] = true := by decide
example : specMatch [plusLevel] [[], [0x66]] = false := by decide
example : splitTopic [0x73, 0x2F] = [[0x73], []] ∧ splitTopic [0x2F, 0x66] = [[], [0x66]] ∧
    splitTopic [] = [[]] := by decide

/-! ### the history half: which callback runs (client model) -/

namespace Cl
open Cl

theorem lookup_mem {α β} [BEq α] [LawfulBEq α] {l : List (α × β)} {a : α} {b : β} (h : l.lookup a = some b) :
    (a, b) ∈ l := by
  induction l with
  | nil => simp at h
  | cons x xs ih =>
    obtain ⟨k, v⟩ := x
    simp only [List.lookup_cons] at h
    split at h
    · rename_i he
      have : a = k := by simpa using he
      simp_all
    · exact List.mem_cons_of_mem _ (ih h)

/-- **C27 (dispatch).** Every callback that may run for a topic belongs to a stored subscription
    whose filter matches the topic under the MQTT rules (`specMatch`, via `c27_match`). -/
theorem c27_dispatch (c : Cl) (topic label : Bytes) (h : label ∈ c.matching topic) :
    ∃ filter, (filter, label) ∈ c.handlers ∧ c.handlers.lookup filter = some label ∧
      specMatch (splitTopic filter) (splitTopic topic) = true := by
  unfold matching at h
  simp only [List.mem_filterMap] at h
  obtain ⟨k, _, hk⟩ := h
  cases hl : c.handlers.lookup k with
  | none => simp [hl] at hk
  | some l =>
    simp only [hl] at hk
    split at hk
    · rename_i hm
      simp only [Option.some.injEq] at hk
      subst hk
      exact ⟨k, lookup_mem hl, hl, by rw [← c27_match]; exact hm⟩
    · simp at hk

/-- **C27.** Nothing is dispatched when no stored filter matches. -/
theorem c27_no_match_no_callback (c : Cl) (topic : Bytes) (q : UInt8) (r : Bool) (d : Bytes)
    (h : c.matching topic = []) : c.deliver topic q r d = c := by
  unfold deliver; simp [h]

/-- **C27 (unsubscribe).** Once UNSUBACK has been processed for a filter, no subscription with
    that filter is stored any more, so its callback can never be chosen again (until a new
    Subscribe succeeds). -/
theorem c27_unsubscribed (hs : List (Bytes × Bytes)) (n : Bytes) :
    (hs.filter (·.1 != n)).lookup n = none := by
  induction hs with
  | nil => rfl
  | cons x xs ih =>
    obtain ⟨k, v⟩ := x
    by_cases h : k = n
    · subst h; simpa using ih
    · have h1 : (k != n) = true := by simpa using h
      have h2 : (n == k) = false := by simpa using fun e => h e.symm
      simp only [List.filter_cons, h1, if_true, List.lookup_cons, h2]
      exact ih

end Cl

end Bisquitt
