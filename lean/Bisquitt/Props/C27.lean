/-
  C27 — Client dispatch follows MQTT topic-filter matching (the matching function).

  `specMatch` states MQTT 3.1.1 §4.7 positionally: find the first `#` level; the levels
  before it (all levels if there is none) must match the topic's levels one by one, `+`
  matching any single level; with `#` the topic may have any number (including zero) of
  further levels — so `sport/#` matches `sport` — and without `#` the level counts agree.
  Theorem: the code's recursive `match` equals it for ALL filters and topics.
-/
import Bisquitt.Spec.Match

namespace Bisquitt

/-- **C27 (matching).** -/
theorem c27_match : ∀ (f t : List Bytes), matchRoute f t = specMatch f t := by
  intro f
  induction f with
  | nil =>
    intro t
    cases t <;> simp [matchRoute, specMatch]
  | cons r rs ih =>
    intro t
    by_cases hr : r = hashLevel
    · subst hr
      cases t <;> simp [matchRoute, specMatch, List.findIdx_cons]
    · have hb : (r == hashLevel) = false := by simpa using hr
      cases t with
      | nil =>
        simp only [matchRoute, specMatch, List.findIdx_cons, hb, cond_false]
        by_cases hk : List.findIdx (· == hashLevel) rs + 1 < (r :: rs).length <;> simp [hk]
      | cons x ts =>
        simp only [matchRoute, hb, Bool.false_eq_true, if_false]
        rw [ih ts]
        simp only [specMatch, List.findIdx_cons, hb, cond_false, List.length_cons]
        by_cases hk : List.findIdx (· == hashLevel) rs < rs.length
        · have hk' : List.findIdx (· == hashLevel) rs + 1 < rs.length + 1 := by omega
          simp only [hk, hk', if_true, List.take_succ_cons, List.zip_cons_cons, List.all_cons, levelOk]
          by_cases hl : (r == plusLevel || r == x) = true
          · simp [hl]
          · simp [hl]
        · have hk' : ¬ (List.findIdx (· == hashLevel) rs + 1 < rs.length + 1) := by omega
          simp only [hk, hk', if_false, List.zip_cons_cons, List.all_cons, levelOk]
          by_cases hl : (r == plusLevel || r == x) = true
          · simp [hl]
          · simp [hl]

/-- examples from the MQTT 3.1.1 text, with `s` for the level "sport", `f` for "finance":
    sport/# ~ sport;  sport/+ ~ sport/ ;  sport/+ !~ sport;  +/+ ~ /finance;  + !~ /finance;
    and `splitTopic` keeps empty levels. -/
example : specMatch [[0x73], hashLevel] [[0x73]] = true := by decide
example : specMatch [[0x73], plusLevel] [[0x73], []] = true := by decide
example : specMatch [[0x73], plusLevel] [[0x73]] = false := by decide
example : specMatch [plusLevel, plusLevel] [[], [0x66]] = true := by decide
example : specMatch [plusLevel] [[], [0x66]] = false := by decide
example : splitTopic [0x73, 0x2F] = [[0x73], []] ∧ splitTopic [0x2F, 0x66] = [[], [0x66]] ∧
    splitTopic [] = [[]] := by decide

end Bisquitt
