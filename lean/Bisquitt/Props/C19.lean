/-
  C19 — Retry and timeout budgets are exact.
  For ALL retry counts N, delays D and start times t0 (no bounded range): a retry transaction
  that makes no progress after `Proceed` at t0 calls its callback exactly at t0 + k·D,
  k = 1..N, and fails with `noMoreRetries` at t0 + (N+1)·D; a later `Proceed` restarts the
  same schedule from its own time (the statement is about any live transaction state);
  a timed transaction created at t0 fails with `timeout` exactly at t0 + T unless completed
  before.
-/
import Bisquitt.Model.Tx

namespace Bisquitt.Tx
open Retry

def noErr : Nat → Option Nat := fun _ => none

theorem expire_retry (r : Retry) (d : Nat) (hnd : r.base.done = false) (hlt : r.retryNum < r.count) :
    r.expire d noErr = { r with retryNum := r.retryNum + 1, cbs := r.cbs + 1,
                                log := Obs.cb d (r.cbs + 1) :: r.log, timer := some (d + r.delay) } := by
  unfold Retry.expire
  simp [hnd, noErr]
  omega

theorem expire_last (r : Retry) (d : Nat) (hb : r.base = {}) (hge : r.retryNum = r.count) :
    r.expire d noErr = { r with retryNum := r.retryNum + 1, timer := none,
                                base := { done := true, err := some .noMoreRetries, finallyRuns := 1 },
                                log := Obs.done d (some .noMoreRetries) :: r.log } := by
  unfold Retry.expire
  simp [hb, hge, noteDone, Base.fail]

/-- the schedule that remains when `m` retries are left and the live timer expires at `d`
    (log in chronological order) -/
theorem runUntil_budget (D : Nat) : ∀ (m : Nat) (r : Retry) (d T fuel : Nat),
    r.delay = D → r.base = {} → r.retryNum + m = r.count → r.timer = some d →
    d + m * D ≤ T → m + 1 ≤ fuel →
    let r' := runUntil noErr fuel r T
    r'.log.reverse = r.log.reverse ++
        ((List.range m).map fun i => Obs.cb (d + i * D) (r.cbs + i + 1)) ++
        [Obs.done (d + m * D) (some .noMoreRetries)] ∧
    r'.base = { done := true, err := some .noMoreRetries, finallyRuns := 1 } ∧
    r'.cbs = r.cbs + m ∧ r'.timer = none := by
  intro m
  induction m with
  | zero =>
    intro r d T fuel hD hb hn ht hT hf
    obtain ⟨fuel, rfl⟩ : ∃ f, fuel = f + 1 := ⟨fuel - 1, by omega⟩
    simp only [runUntil, ht]
    have hdT : d ≤ T := by omega
    rw [if_pos hdT, expire_last r d hb (by omega)]
    cases fuel <;> simp [runUntil]
  | succ m ih =>
    intro r d T fuel hD hb hn ht hT hf
    obtain ⟨fuel, rfl⟩ : ∃ f, fuel = f + 1 := ⟨fuel - 1, by omega⟩
    simp only [runUntil, ht]
    have hdT : d ≤ T := by
      have : 0 ≤ (m + 1) * D := Nat.zero_le _
      omega
    have hnd : r.base.done = false := by rw [hb]
    rw [if_pos hdT, expire_retry r d hnd (by omega)]
    have hT' : d + r.delay + m * D ≤ T := by
      rw [hD]; rw [Nat.succ_mul] at hT; omega
    have := ih { r with retryNum := r.retryNum + 1, cbs := r.cbs + 1,
                        log := Obs.cb d (r.cbs + 1) :: r.log, timer := some (d + r.delay) }
      (d + r.delay) T fuel hD hb (by simp; omega) rfl hT' (by omega)
    obtain ⟨h1, h2, h3, h4⟩ := this
    refine ⟨?_, h2, ?_, h4⟩
    · rw [h1, List.range_succ_eq_map]
      simp only [List.reverse_cons, List.map_cons, List.map_map, List.append_assoc,
        List.cons_append, List.nil_append, Nat.zero_mul, Nat.add_zero]
      rw [hD]
      congr 2
      congr 1
      · apply List.map_congr_left
        intro i _
        simp only [Function.comp, Nat.succ_eq_add_one]
        congr 1
        · rw [Nat.succ_mul]; omega
        · omega
      · rw [Nat.succ_mul]; congr 2; omega
    · rw [h3]; simp; omega

/-- **C19 (retry budget).** After `Proceed` at `t0` on a live transaction and silence until
    `t0 + (N+1)·D`: callbacks exactly at `t0 + k·D` (k = 1..N) — the `k`-th being the
    (cbs+k)-th callback overall — then `noMoreRetries` at `t0 + (N+1)·D`. -/
theorem c19_retry (N D t0 : Nat) (r : Retry) (hb : r.base = {}) (hc : r.count = N) (hd : r.delay = D) :
    let r' := runUntil noErr (N + 2) (r.proceed t0) (t0 + (N + 1) * D)
    r'.log.reverse = r.log.reverse ++
        ((List.range N).map fun i => Obs.cb (t0 + (i + 1) * D) (r.cbs + i + 1)) ++
        [Obs.done (t0 + (N + 1) * D) (some .noMoreRetries)] ∧
    r'.base = { done := true, err := some .noMoreRetries, finallyRuns := 1 } := by
  have hp : r.proceed t0 = { r with retryNum := 0, timer := some (t0 + D) } := by
    simp [Retry.proceed, hb, hd]
  have := runUntil_budget D N (r.proceed t0) (t0 + D) (t0 + (N + 1) * D) (N + 2)
    (by rw [hp]; exact hd) (by rw [hp]; exact hb) (by rw [hp]; simp [hc]) (by rw [hp])
    (by rw [Nat.succ_mul]; omega) (by omega)
  obtain ⟨h1, h2, _, _⟩ := this
  refine ⟨?_, h2⟩
  have e1 : ∀ i, t0 + D + i * D = t0 + (i + 1) * D := by
    intro i; rw [Nat.succ_mul]; omega
  rw [h1, hp]
  simp only [e1]

/-- nothing happens before the first deadline: a strictly earlier time sees no callback -/
theorem c19_retry_quiet (D t0 t fuel : Nat) (r : Retry) (hb : r.base = {}) (hd : r.delay = D)
    (ht : t < t0 + D) : runUntil noErr fuel (r.proceed t0) t = r.proceed t0 := by
  have hp : r.proceed t0 = { r with retryNum := 0, timer := some (t0 + D) } := by
    simp [Retry.proceed, hb, hd]
  cases fuel with
  | zero => rfl
  | succ f =>
    rw [hp]
    simp only [runUntil]
    rw [if_neg (by omega)]

/-- **C19 (progress resets the budget).** `Proceed` puts the transaction into the same state
    whatever the number of retries already used: the next schedule starts from scratch. -/
theorem c19_proceed_resets (r : Retry) (t : Nat) (hb : r.base.done = false) :
    (r.proceed t).retryNum = 0 ∧ (r.proceed t).timer = some (t + r.delay) := by
  simp [Retry.proceed, hb]

/-- **C19 (timed transaction).** Created at `t0` with timeout `T`: at any time `t`, without a
    completion, the error is `timeout` iff `t ≥ t0 + T`, and the failure is stamped `t0 + T`. -/
theorem c19_timed (t0 T t : Nat) :
    let r := (Timed.new t0 T).runUntil t
    (r.base.err = some .timeout ↔ t0 + T ≤ t) ∧
    (t0 + T ≤ t → r.log = [Obs.done (t0 + T) (some .timeout)]) ∧
    (t < t0 + T → r.base.done = false) := by
  simp only [Timed.new, Timed.runUntil]
  by_cases h : t0 + T ≤ t
  · simp [h, Timed.noteDone, Base.fail]
  · simp [h]

/-- a completion before the deadline wins: no timeout afterwards -/
theorem c19_timed_completed (t0 T ts t : Nat) (hs : ts < t0 + T) :
    (((Timed.new t0 T).runUntil ts).success ts).runUntil t =
      ((Timed.new t0 T).runUntil ts).success ts ∧
    ((((Timed.new t0 T).runUntil ts).success ts).runUntil t).base.err = none := by
  have h1 : (Timed.new t0 T).runUntil ts = Timed.new t0 T := by
    simp [Timed.new, Timed.runUntil]; omega
  rw [h1]
  simp [Timed.new, Timed.success, Timed.runUntil, Timed.noteDone, Base.success]

/-- non-vacuity: N = 2, D = 10 s, t0 = 5 -/
example : ((runUntil noErr 4 (({ delay := 10000, count := 2 } : Retry).proceed 5) 30005).log.reverse) =
    [Obs.cb 10005 1, Obs.cb 20005 2, Obs.done 30005 (some .noMoreRetries)] := by decide

end Bisquitt.Tx
