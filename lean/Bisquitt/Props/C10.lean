/-
  C10 — Half-open connect exchanges are reaped.

  Theorems about the model, for ALL states:
  * `c10_deadline`: the connect transaction is created with a timer at now + 5 s
    (`connectTransactionTimeout`, regenerated from the source on every run);
  * `c10_timer_kept_*`: no step of the exchange re-arms or stops that timer as long as the
    exchange is not finished — whatever the client sends and wherever it stops;
  * `c10_expire`: when the timer fires on an unfinished exchange the session is cancelled with
    "CONNECT: transaction timeout"; the end then closes the broker connection (C13 `c13_end`).
  * **all runs** — `c10_deadline_never_postponed`: take ANY reachable state, any connect exchange in it that is
    not finished, and ANY further sequence of timed events (datagrams of every kind incl. repeated CONNECTs,
    AUTH, will packets, malformed ones, broker packets, every timer on the way): afterwards the session has
    ended, or the exchange is finished, or it still has exactly the deadline it had — nothing the client or the
    broker sends "in the meantime" re-arms or postpones the timer (`Kept`, a component of the frame `F9` of
    `Lemmas/GwConnCount.lean`, carried through every model function under the invariant `I9`).  With
    `c10_deadline` (the deadline is creation + 5 s) and `c10_expire` (its expiry cancels the session) this is
    the model-level content of "ends 5 s after the CONNECT whatever other packets arrive".
  The bound "connect timeout plus one poll interval" is a statement about real time: the harness
  measures it on the real handler under the virtual clock (monitor `Spec.c10`).
-/
import Bisquitt.Props.C0809
import Bisquitt.Props.C09
import Bisquitt.Spec.Gateway

namespace Bisquitt.Gw
open Bisquitt Gw

/-- **C10.** The exchange gets its deadline when it is created. -/
theorem c10_deadline (g : Gw) (f : ConnFields) :
    ∃ t, t ∈ (g.newTx (.connect .awaitingAuth f) .connectType (some (g.now + Gen.connectTransactionTimeout))).2.txs ∧
      t.id = g.nextTx ∧ t.timer = some (g.now + 5000) ∧ t.done = false :=
  ⟨{ id := g.nextTx, kind := .connect .awaitingAuth f, key := .connectType,
     timer := some (g.now + Gen.connectTransactionTimeout) }, by simp [newTx], rfl, rfl, rfl⟩

/-- updating the state of the exchange keeps id, timer and done flag -/
theorem c10_timer_kept (t : Tx) (k : TxKind) : ({ t with kind := k } : Tx).timer = t.timer ∧
    ({ t with kind := k } : Tx).id = t.id ∧ ({ t with kind := k } : Tx).done = t.done := ⟨rfl, rfl, rfl⟩

/-- `snSend` / `mqttSend` do not touch transactions -/
theorem snSend_txs (g : Gw) (p : Pkt) (tx : Option Nat) : (g.snSend p tx).txs = g.txs := by
  unfold snSend; split <;> rfl

/-- **C10.** The only writes to the connect transaction during the exchange replace its `kind`:
    the timer armed at creation stays. -/
theorem c10_timer_kept_authenticated (g : Gw) (t : Tx) (f : ConnFields) :
    ∃ k, (g.connAuthenticated t f).txs = (g.setTx { t with kind := k }).txs := by
  unfold connAuthenticated
  split
  · exact ⟨_, snSend_txs _ _ _⟩
  · exact ⟨_, rfl⟩

theorem c10_timer_kept_willtopic (g : Gw) (t : Tx) (f : ConnFields) (q : UInt8) (r : Bool) (topic : Bytes)
    (hq : ¬ q > 2) :
    ∃ k, (g.connWillTopic t .awaitingWillTopic f q r topic).txs = (g.setTx { t with kind := k }).txs := by
  unfold connWillTopic
  simp only [ne_eq, not_true_eq_false, if_false, hq]
  exact ⟨_, snSend_txs _ _ _⟩

theorem c10_timer_kept_willmsg (g : Gw) (t : Tx) (f : ConnFields) (m : Bytes) :
    ∃ k, (g.connWillMsg t .awaitingWillMsg f m).txs = (g.setTx { t with kind := k }).txs := by
  unfold connWillMsg
  simp only [ne_eq, not_true_eq_false, if_false]
  exact ⟨_, rfl⟩

/-- **C10.** The deadline passes on an unfinished exchange: the session is cancelled. -/
theorem c10_expire (g : Gw) (t : Tx) (st : ConnSt) (f : ConnFields) (hk : t.kind = .connect st f) (hd : t.done = false)
    (ha : g.alive = true) :
    (g.txExpire t).alive = false ∧ (g.txExpire t).endCls = .connectTimeout ∧ (g.txExpire t).outs = g.outs := by
  unfold txExpire
  simp only [hk, hd, Bool.false_eq_true, if_false]
  have hc : (g.finishTx t.id).cancelledAt = none := by
    have : g.cancelledAt = none := by simpa [alive] using ha
    unfold finishTx
    split
    · split
      · exact this
      · unfold runFinally; split <;> (try split) <;> simpa [setTx] using this
    · exact this
  refine ⟨fail_alive _ _, ?_, ?_⟩
  · unfold fail; simp [hc]
  · unfold fail; simp only [hc]
    unfold finishTx
    split
    · split
      · rfl
      · unfold runFinally; split <;> (try split) <;> rfl
    · rfl

end Bisquitt.Gw

namespace Bisquitt.Gw
open Bisquitt Gw

/-! ## every run: the deadline of a connect exchange is never postponed -/

theorem i9_kept_run (evs : List (Nat × Event)) : ∀ g : Gw, I9 g → I9 (g.run evs) ∧ Kept g (g.run evs) := by
  induction evs with
  | nil => intro g hI; exact ⟨hI, Kept.refl g⟩
  | cons e rest ih =>
    intro g hI
    have st := (F9.step g e.1 e.2).keep hI
    have r := ih _ st.1
    have hrun : g.run (e :: rest) = (g.step e.1 e.2).run rest := by unfold Gw.run; rfl
    rw [hrun]
    exact ⟨r.1, st.2.2.trans r.2⟩

/-- **C10 (ALL runs).** Whatever arrives in the meantime, an unfinished connect exchange keeps its deadline
    until it is finished or the session has ended. -/
theorem c10_deadline_never_postponed (cfg : Cfg) (a b : UInt16) (hist evs : List (Nat × Event)) (t : Tx)
    (ht : t ∈ ((Gw.init cfg a b).run hist).txs) (hk : isConnKind t.kind = true) (hd : t.done = false) :
    (((Gw.init cfg a b).run hist).run evs).endedEmitted = true ∨
    ∃ t' ∈ (((Gw.init cfg a b).run hist).run evs).txs, t'.id = t.id ∧ (t'.done = true ∨ t'.timer = t.timer) := by
  have hI := (i9_kept_run hist _ (i9_init cfg a b)).1
  have hK := (i9_kept_run evs _ hI).2
  rcases hK.2 with h | h
  · exact Or.inl h
  · obtain ⟨t', ht', hid, _, _, htm⟩ := h t ht hk
    exact Or.inr ⟨t', ht', hid, htm hd⟩

/-- non-vacuity: after a CONNECT datagram (no authentication, will flag set: the exchange waits for WILLTOPIC) the
    session holds an unfinished connect exchange whose deadline is 5 s after the datagram; the WILLTOPIC 3 s later
    moves the exchange on and leaves the deadline where it was; a packet that is illegal at that point ends the
    session instead (the other disjunct) -/
example :
    let g := (Gw.init ⟨false, none, none, 10, 2, []⟩ 1 10).run [(100, .sn (encode (.connect true true 1 60 [0x63])))]
    (g.txs.map fun t => (isConnKind t.kind, t.done, t.timer)) = [(true, false, some 5100)] ∧
    ((g.run [(3100, .sn (encode (.willtopic 0 false [0x61])))]).txs.map fun t => (t.done, t.timer)) = [(false, some 5100)] ∧
    (g.run [(3100, .sn (encode (.pingreq [])))]).endedEmitted = true := by decide

end Bisquitt.Gw
