/-
  C10 — Half-open connect exchanges are reaped.

  Theorems about the model, for ALL states:
  * `c10_deadline`: the connect transaction is created with a timer at now + 5 s
    (`connectTransactionTimeout`, regenerated from the source on every run);
  * `c10_timer_kept_*`: no step of the exchange re-arms or stops that timer as long as the
    exchange is not finished — whatever the client sends and wherever it stops;
  * `c10_expire`: when the timer fires on an unfinished exchange the session is cancelled with
    "CONNECT: transaction timeout"; the end then closes the broker connection (C13 `c13_end`).
  The bound "connect timeout plus one poll interval" is a statement about real time: the harness
  measures it on the real handler under the virtual clock (monitor `Spec.c10`).
-/
import Bisquitt.Props.C0809
import Bisquitt.Spec.Gateway

namespace Bisquitt.Gw
open Bisquitt Gw

/-- **C10.** The exchange gets its deadline when it is created. -/
theorem c10_deadline (g : Gw) (f : ConnFields) :
    ∃ t, t ∈ (g.newTx (.connect .awaitingAuth f) .connectType (some (g.now + Gen.connectTransactionTimeout))).2.txs ∧
      t.id = g.nextTx ∧ t.timer = some (g.now + 5000) ∧ t.done = false :=
  ⟨{ id := g.nextTx, kind := .connect .awaitingAuth f, key := .connectType,
     timer := some (g.now + Gen.connectTransactionTimeout) }, by simp [newTx], rfl, rfl, rfl⟩

/-- updating the state of the exchange keeps id, timer and done flag -/
theorem c10_timer_kept (t : Tx) (k : TxKind) : ({ t with kind := k } : Tx).timer = t.timer ∧
    ({ t with kind := k } : Tx).id = t.id ∧ ({ t with kind := k } : Tx).done = t.done := ⟨rfl, rfl, rfl⟩

/-- `snSend` / `mqttSend` do not touch transactions -/
theorem snSend_txs (g : Gw) (p : Pkt) (tx : Option Nat) : (g.snSend p tx).txs = g.txs := by
  unfold snSend; split <;> rfl

/-- **C10.** The only writes to the connect transaction during the exchange replace its `kind`:
    the timer armed at creation stays. -/
theorem c10_timer_kept_authenticated (g : Gw) (t : Tx) (f : ConnFields) :
    ∃ k, (g.connAuthenticated t f).txs = (g.setTx { t with kind := k }).txs := by
  unfold connAuthenticated
  split
  · exact ⟨_, snSend_txs _ _ _⟩
  · exact ⟨_, rfl⟩

theorem c10_timer_kept_willtopic (g : Gw) (t : Tx) (f : ConnFields) (q : UInt8) (r : Bool) (topic : Bytes)
    (hq : ¬ q > 2) :
    ∃ k, (g.connWillTopic t .awaitingWillTopic f q r topic).txs = (g.setTx { t with kind := k }).txs := by
  unfold connWillTopic
  simp only [ne_eq, not_true_eq_false, if_false, hq]
  exact ⟨_, snSend_txs _ _ _⟩

theorem c10_timer_kept_willmsg (g : Gw) (t : Tx) (f : ConnFields) (m : Bytes) :
    ∃ k, (g.connWillMsg t .awaitingWillMsg f m).txs = (g.setTx { t with kind := k }).txs := by
  unfold connWillMsg
  simp only [ne_eq, not_true_eq_false, if_false]
  exact ⟨_, rfl⟩

/-- **C10.** The deadline passes on an unfinished exchange: the session is cancelled. -/
theorem c10_expire (g : Gw) (t : Tx) (st : ConnSt) (f : ConnFields) (hk : t.kind = .connect st f) (hd : t.done = false)
    (ha : g.alive = true) :
    (g.txExpire t).alive = false ∧ (g.txExpire t).endCls = .connectTimeout ∧ (g.txExpire t).outs = g.outs := by
  unfold txExpire
  simp only [hk, hd, Bool.false_eq_true, if_false]
  have hc : (g.finishTx t.id).cancelledAt = none := by
    have : g.cancelledAt = none := by simpa [alive] using ha
    unfold finishTx
    split
    · split
      · exact this
      · unfold runFinally; split <;> (try split) <;> simpa [setTx] using this
    · exact this
  refine ⟨fail_alive _ _, ?_, ?_⟩
  · unfold fail; simp [hc]
  · unfold fail; simp only [hc]
    unfold finishTx
    split
    · split
      · rfl
      · unfold runFinally; split <;> (try split) <;> rfl
    · rfl

end Bisquitt.Gw
