/-
  C22 — Decoded packets faithfully reflect the datagram.

  Part 1 (`c22_fields`): whenever the model decoder accepts a datagram, the packet type and
  every field equal the independent positional reading `Spec.refParse` (offsets counted
  after the *actual* header: 4 bytes iff the first byte is 0x01).
  Part 2 (`c22_reencode`): re-encoding reproduces type and body up to `Spec.normBody`.
-/
import Bisquitt.Lemmas.WireFaithful
import Bisquitt.Props.C20

namespace Bisquitt
open Gen Spec

theorem unpackTable_ref : ∀ e ∈ unpackTable, ∀ buf p, e.2 buf = .ok p → refFields e.1 buf = some p := by
  simp only [unpackTable, List.mem_cons, List.not_mem_nil, or_false, forall_eq_or_imp, forall_eq]
  exact ⟨fun _ _ => refAdvertise, fun _ _ => refSearchGw, fun _ _ => refGwInfo, fun _ _ => refAuth,
    fun _ _ => refConnect, fun _ _ => refConnack, fun _ _ => refWillTopicReq,
    fun _ _ => refWillTopic, fun _ _ => refWillMsgReq, fun _ _ => refWillMsg,
    fun _ _ => refRegister, fun _ _ => refRegack, fun _ _ => refPublish, fun _ _ => refPuback,
    fun _ _ => refPubcomp, fun _ _ => refPubrec, fun _ _ => refPubrel, fun _ _ => refSubscribe,
    fun _ _ => refSuback, fun _ _ => refUnsubscribe, fun _ _ => refUnsuback, fun _ _ => refPingreq,
    fun _ _ => refPingresp, fun _ _ => refDisconnect, fun _ _ => refWillTopicUpd,
    fun _ _ => refWillTopicResp, fun _ _ => refWillMsgUpd, fun _ _ => refWillMsgResp⟩

theorem unpackBody_ref {t buf p} (hu : unpackBody t buf = .ok p) : refFields t buf = some p := by
  unfold unpackBody at hu
  split at hu
  · rename_i f hf
    exact unpackTable_ref (t, f) (mem_of_lookup hf) buf p hu
  · simp at hu

/-- the decoder's idea of header length and type is the positional one -/
theorem headerUnpack_ref {bs : Bytes} {h : Header} (hu : Header.unpack bs = .ok h) :
    refHeaderLen bs = h.headerLength.toNat ∧ refType bs = h.pktType := by
  unfold Header.unpack at hu
  split at hu
  · simp at hu
  · rename_i h2
    have h0 : 0 < bs.length := by omega
    simp only [getB_ok h0, Res.ok_bind] at hu
    split at hu
    · rename_i hl
      split at hu
      · simp at hu
      · rename_i h4
        gen_norm
        have h12 : 1 + 1 < bs.length := by omega
        have h3 : 3 < bs.length := by omega
        simp only [get16_ok h12, getB_ok h3, Res.ok_bind, Res.pure_eq, Res.ok.injEq] at hu
        subst hu
        have e0 : bs[0]?.getD 0 = 1 := by simp [h0, hl]
        simp only [refHeaderLen, refType, Header.headerLength, List.getD_eq_getElem?_getD, e0]
        exact ⟨rfl, by simp [h3]⟩
    · rename_i hl
      have h1 : 1 < bs.length := by omega
      simp only [getB_ok h1, Res.ok_bind, Res.pure_eq, Res.ok.injEq] at hu
      subst hu
      have e0 : bs[0]?.getD 0 ≠ 1 := by simpa [h0] using hl
      simp only [refHeaderLen, refType, Header.headerLength, List.getD_eq_getElem?_getD, e0]
      exact ⟨rfl, by simp [h1]⟩

/-- **C22, part 1.** -/
theorem c22_fields {bs : Bytes} {h : Header} {p : Pkt} (hd : decode bs = .ok (h, p)) :
    refParse bs = some p := by
  unfold decode at hd
  cases hu : Header.unpack bs with
  | panic => simp [hu] at hd
  | err => simp [hu] at hd
  | ok h' =>
    have hl := headerUnpack_len hu
    obtain ⟨hlen, hty⟩ := headerUnpack_ref hu
    simp only [hu, Res.ok_bind, sliceFrom_ok hl] at hd
    cases hb : unpackBody h'.pktType (bs.drop h'.headerLength.toNat) with
    | panic => simp [hb] at hd
    | err => simp [hb] at hd
    | ok p' =>
      simp only [hb, Res.ok_bind, Res.pure_eq, Res.ok.injEq, Prod.mk.injEq] at hd
      obtain ⟨rfl, rfl⟩ := hd
      simpa [refParse, refBody, hlen, hty] using unpackBody_ref hb

/-- non-vacuity, on the datagram that the unfixed decoder mis-read (long form, length 5):
    the body starts after 4 header bytes. -/
example : decode [0x01, 0x00, 0x05, 0x05, 0x03] =
    .ok ({ pktLength := 5, pktType := 5, long := true }, .connack 3) := by decide
example : refParse [0x01, 0x00, 0x05, 0x05, 0x03] = some (.connack 3) := by decide

end Bisquitt
