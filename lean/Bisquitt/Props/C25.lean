/-
  C25 — No packet sequence crashes the gateway or the client.

  What a theorem can carry here, and what it cannot:
  * `c25_decode_total` (= C20): for ALL byte strings the decoder returns a packet or an error;
  * `c25_dispatch_total` (regenerated facts): the three dispatchers a peer's packets go through
    (`handleMqttSn`, `handleMqtt` of the gateway, `handlePacket` of the client) are type switches
    with a `default:` arm — no decodable packet falls through unhandled;
  * `c25_unchecked_assertions` (regenerated facts): the complete list of single-value type
    assertions `x.(T)` (the only form that panics on a mismatch) in gateway/, client/ and
    transactions/ is the reviewed list below — each entry asserts the type of a value the same
    function (or the transaction's constructor) has just stored; a new unchecked assertion breaks
    this obligation;
  * the models of the handlers are total functions, and they agree with the real handlers on
    every generated session (gateway and client suites).
  Nil dereferences, index errors and data races inside the real handlers are runtime behaviour no
  model exhibits: for those, every suite runs the real code and reports a panic, a fatal error or a
  hang as a failing input with the case that was running (MON process-crash / process-hang /
  panic) — that stream, over all suites, is what this check watches.
-/
import Bisquitt.Props.C20
import Bisquitt.Gen.Facts

namespace Bisquitt

/-- **C25 (decoding).** -/
theorem c25_decode_total (bs : Bytes) : decode bs ≠ .panic := decode_total bs

/-- **C25 (dispatch).** Every dispatcher has a default arm. -/
theorem c25_dispatch_total :
    Gen.handleMqttSnHasDefault = true ∧ Gen.handleMqttHasDefault = true ∧ Gen.client_handlePacketHasDefault = true ∧
    Gen.newPacketWithHeaderHasDefault = true := ⟨rfl, rfl, rfl, rfl⟩

/-- **C25 (type assertions that can panic).** The reviewed list. -/
theorem c25_unchecked_assertions :
    Gen.uncheckedAsserts_transactions = [] ∧
    Gen.uncheckedAsserts_gateway = [
      "broker_publish_qos1_transaction.go:Puback:*mqPkts.PubackPacket",       -- NewControlPacket(Puback)
      "broker_publish_qos2_transaction.go:Pubcomp:*mqPkts.PubcompPacket",     -- NewControlPacket(Pubcomp)
      "broker_publish_qos2_transaction.go:Pubrec:*mqPkts.PubrecPacket",       -- NewControlPacket(Pubrec)
      "broker_publish_transaction.go:regack:*snPkts1.Register",               -- Data in state awaitingRegack (checked first)
      "handler1.go:findRegisteredTopicID:string",                             -- registeredTopics values
      "handler1.go:findRegisteredTopicID:uint16",                             -- registeredTopics keys
      "handler1.go:handleClientPublish:*mqPkts.PublishPacket",                -- NewControlPacket(Publish)
      "handler1.go:handleClientPublish:string",                               -- registeredTopics value
      "handler1.go:handleMqttSn:*mqPkts.DisconnectPacket",
      "handler1.go:handleMqttSn:*mqPkts.PingreqPacket",
      "handler1.go:handleMqttSn:*mqPkts.PubrelPacket",
      "handler1.go:handleSubscribe:*mqPkts.SubscribePacket",
      "handler1.go:handleUnsubscribe:*mqPkts.UnsubscribePacket",
      "handler1.go:pingBroker:*mqPkts.PingreqPacket"] ∧
    Gen.uncheckedAsserts_client = [
      "disconnect_transaction.go:newDisconnectTransaction:pkts.Packet",       -- resend callbacks: Data is the packet passed to Proceed
      "ping_transaction.go:newPingTransaction:pkts.Packet",
      "publish_qos1_transaction.go:newPublishQOS1Transaction:pkts.Packet",
      "publish_qos2_transaction.go:newPublishQOS2Transaction:pkts.Packet",
      "register_transaction.go:Regack:*pkts1.Register",                       -- Data of a register transaction
      "register_transaction.go:newRegisterTransaction:pkts.Packet",
      "subscribe_transaction.go:Suback:*pkts1.Subscribe",                     -- Data of a subscribe transaction
      "subscribe_transaction.go:newSubscribeTransaction:pkts.Packet",
      "subscribe_transaction.go:newSubscribeTransaction:pkts.PacketWithDUP",
      "unsubscribe_transaction.go:Unsuback:*pkts1.Unsubscribe",
      "unsubscribe_transaction.go:newUnsubscribeTransaction:pkts.Packet"] := ⟨rfl, rfl, rfl⟩

end Bisquitt
