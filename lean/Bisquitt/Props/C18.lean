/-
  C18 — A finished transaction stays finished.

  Schedule quantifier: `Adv` is the retry transaction at method-atomic granularity (every
  method body runs under one mutex — `Mutex.lean` shows any interleaving of such bodies is a
  sequence of them) with an adversarial timer: the callback of ANY timer generation ever
  armed may run at ANY later point, stopped or not.  Theorem `c18` holds for every event
  sequence, hence for every real schedule of Success/Fail/Proceed/expiry/cancel.
-/
import Bisquitt.Model.Tx
import Bisquitt.Gen.Facts

namespace Bisquitt.Tx
open Adv

/-- a completed base never changes again -/
theorem base_done_stable (b : Base) (h : b.done = true) (e : Err) :
    b.success = b ∧ b.fail e = b := by
  simp [Base.success, Base.fail, h]

/-- what C18 demands of a state -/
structure Good (a : Adv) : Prop where
  finallyOnce : a.base.finallyRuns = if a.base.done then 1 else 0
  noCbAfterDone : a.cbAfterDone = 0
  noArmAfterDone : a.armedAfterDone = 0
  errStable : a.errChanged = false
  errRecorded : a.base.done = true → a.errAtDone = some a.base.err

theorem good_init (n : Nat) : Good { count := n } := by
  constructor <;> simp

theorem setBase_good (a : Adv) (b : Base) (ha : Good a)
    (hb : b = a.base ∨ (a.base.done = false ∧ b.done = true ∧ b.finallyRuns = a.base.finallyRuns + 1)) :
    Good (a.setBase b) := by
  rcases hb with rfl | ⟨hnd, hd, hf⟩
  · have : a.setBase a.base = a := by
      unfold setBase; cases a.base.done <;> simp
    rw [this]; exact ha
  · unfold setBase
    simp only [hnd, hd, Bool.not_false, Bool.and_self, if_true]
    constructor <;> simp [hd, hf, ha.finallyOnce, hnd, ha.noCbAfterDone, ha.noArmAfterDone, ha.errStable]

theorem success_cases (b : Base) :
    b.success = b ∨ (b.done = false ∧ b.success.done = true ∧ b.success.finallyRuns = b.finallyRuns + 1) := by
  unfold Base.success; cases h : b.done <;> simp

theorem fail_cases (b : Base) (e : Err) :
    b.fail e = b ∨ (b.done = false ∧ (b.fail e).done = true ∧ (b.fail e).finallyRuns = b.finallyRuns + 1) := by
  unfold Base.fail; cases h : b.done <;> simp

theorem arm_good (a : Adv) (ha : Good a) (hnd : a.base.done = false) : Good a.arm := by
  unfold arm
  constructor <;> simp [hnd, ha.finallyOnce, ha.noCbAfterDone, ha.noArmAfterDone, ha.errStable]

theorem with_retryNum_good (a : Adv) (k : Nat) (ha : Good a) : Good { a with retryNum := k } :=
  ⟨ha.finallyOnce, ha.noCbAfterDone, ha.noArmAfterDone, ha.errStable, ha.errRecorded⟩

theorem fire_good (a : Adv) (cbErr : Option Nat) (ha : Good a) : Good (a.fire cbErr) := by
  unfold fire
  cases hd : a.base.done with
  | true => simpa using ha
  | false =>
    simp only [Bool.false_eq_true, if_false]
    split
    · exact setBase_good _ _ (with_retryNum_good a _ ha) (fail_cases _ _)
    · cases cbErr with
      | some n =>
        exact setBase_good _ _ ⟨ha.finallyOnce, ha.noCbAfterDone, ha.noArmAfterDone, ha.errStable, ha.errRecorded⟩
          (fail_cases _ _)
      | none =>
        exact arm_good _ ⟨ha.finallyOnce, ha.noCbAfterDone, ha.noArmAfterDone, ha.errStable, ha.errRecorded⟩ hd

theorem step_good (a : Adv) (ev : AdvEv) (ha : Good a) : Good (a.step ev) := by
  cases ev with
  | success => exact setBase_good a _ ha (success_cases a.base)
  | fail e => exact setBase_good a _ ha (fail_cases a.base e)
  | cancel => exact ha
  | proceed =>
    show Good (if a.base.done then a else ({ a with retryNum := 0 }).arm)
    cases hd : a.base.done with
    | true => simpa using ha
    | false =>
      simp only [Bool.false_eq_true, if_false]
      exact arm_good _ (with_retryNum_good a 0 ha) hd
  | timeoutCb g cbErr =>
    show Good (if a.armed.contains g then a.fire cbErr else a)
    split
    · exact fire_good a cbErr ha
    · exact ha

/-- **C18.** For every interleaving of Success / Fail / Proceed / cancellation and timer
    callbacks of any generation: the completion callback has run exactly once iff the
    transaction is done (never twice), no retry callback started and no timer was armed after
    `done` closed, and `Err()` never differed from its value at completion. -/
theorem c18 (n : Nat) (evs : List AdvEv) : Good (Adv.run { count := n } evs) := by
  unfold Adv.run
  have : ∀ (a : Adv), Good a → Good (evs.foldl step a) := by
    induction evs with
    | nil => intro a h; exact h
    | cons e es ih => intro a h; exact ih _ (step_good a e h)
  exact this _ (good_init n)

/-- `done` is monotone: once closed, no event changes the result -/
theorem c18_done_monotone (a : Adv) (ev : AdvEv) (hd : a.base.done = true) :
    (a.step ev).base = a.base := by
  have hsb : ∀ b, b = a.base → (a.setBase b).base = a.base := by
    intro b hb; subst hb; unfold setBase; simp [hd]
  cases ev with
  | success => exact hsb _ (base_done_stable a.base hd .timeout).1
  | fail e => exact hsb _ (base_done_stable a.base hd e).2
  | cancel => rfl
  | proceed => show (if a.base.done then a else _).base = _; simp [hd]
  | timeoutCb g c =>
    show (if a.armed.contains g then a.fire c else a).base = _
    split
    · unfold fire; simp [hd]
    · rfl

/-! ### lock discipline of the transaction types (regenerated from the source on every run):
    the exported state-changing methods and the timer callback hold the mutex for their
    whole body, which is what makes the method-atomic model the right granularity. -/
def lockedOnes (facts : List (String × String × Bool)) (names : List String) : Bool :=
  names.all fun n => facts.any fun (m, l, _) => m == n && l != "none"

theorem c18_lock_base : lockedOnes Gen.lockFacts_TransactionBase ["Success", "Fail", "Err"] = true := by decide
theorem c18_lock_retry :
    lockedOnes Gen.lockFacts_RetryTransaction ["Success", "Fail", "Proceed", "timeout"] = true := by decide

/-- non-vacuity / regression witness: the schedule that broke the unfixed code
    (`Proceed; Success; late callback of timer 0`) is an event sequence of this system and
    ends in a state with exactly one `finally` run and no callback after `done`. -/
example : let a := Adv.run { count := 3 } [.proceed, .success, .timeoutCb 0 none]
    a.base.done = true ∧ a.base.finallyRuns = 1 ∧ a.cbStarts = 0 ∧ a.base.err = none := by decide

/-- and a schedule in which callbacks do happen -/
example : let a := Adv.run { count := 1 } [.proceed, .timeoutCb 0 none, .timeoutCb 1 none]
    a.cbStarts = 1 ∧ a.base.err = some .noMoreRetries := by decide

end Bisquitt.Tx
