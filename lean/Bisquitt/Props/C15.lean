/-
  C15 — Client sessions are isolated from each other.

  In the model the gateway is a map from peer addresses to sessions and an event belongs to one
  session (Model/Sessions.lean).  Theorems, for ALL gateways, addresses and event histories:
  * `c15_isolation`: an event of one peer's session leaves every other peer's session untouched;
  * `c15_own`: it acts on its own session exactly as if that session were alone;
  * `c15_projection`: after ANY interleaved history of all peers, the session of a peer is the one
    its own events alone produce — so what it sends and accepts does not depend on the others.
  That is true of the model by construction; the content of the check is the tie:
  * `c15_no_shared_state` (regenerated fact): the gateway package has no package-level variable
    besides its error sentinels, so handlers share only what `ListenAndServe` hands to each of them;
  * the cli suite runs the REAL gateway (Application.Run, accept loop, per-session goroutines)
    with two peers: an observed conversation (will + AUTH connect, REGISTER, SUBSCRIBE, PUBLISH,
    broker message on an unregistered topic, PINGREQ, DISCONNECT) is run alone and again with a
    second peer connecting (before or after), registering, subscribing, sending garbage and dying in
    between; what the observed peer receives and what the broker receives on ITS connection
    (credentials, will, topics) must be identical (`MON C15 interference`).
-/
import Bisquitt.Model.Sessions
import Bisquitt.Gen.Facts

namespace Bisquitt.Gw
open Bisquitt Gw

/-- **C15.** -/
theorem c15_isolation (gw : Gateway) (a b t : Nat) (ev : Gw.Event) (h : b ≠ a) :
    (gw.step a t ev).session b = gw.session b := by
  unfold Gateway.step Gateway.session
  have : (b == a) = false := by simpa using h
  simp [List.lookup_cons, this]

/-- **C15.** -/
theorem c15_own (gw : Gateway) (a t : Nat) (ev : Gw.Event) :
    (gw.step a t ev).session a = (gw.session a).step t ev := by
  unfold Gateway.step Gateway.session
  simp [List.lookup_cons]

theorem step_cfg (gw : Gateway) (a t : Nat) (ev : Gw.Event) :
    (gw.step a t ev).cfg = gw.cfg ∧ (gw.step a t ev).idMin = gw.idMin ∧ (gw.step a t ev).idMax = gw.idMax := ⟨rfl, rfl, rfl⟩

/-- the events of peer `b` in a global history -/
def eventsOf (b : Nat) (evs : List (Nat × Nat × Gw.Event)) : List (Nat × Gw.Event) :=
  (evs.filter (·.1 == b)).map (·.2)

/-- **C15 (projection).** After any interleaved history, a peer's session is what its own events
    alone produce. -/
theorem c15_projection (evs : List (Nat × Nat × Gw.Event)) : ∀ (gw : Gateway) (b : Nat),
    (gw.run evs).session b = (gw.session b).run (eventsOf b evs) := by
  induction evs with
  | nil => intro gw b; rfl
  | cons e rest ih =>
    intro gw b
    obtain ⟨a, t, ev⟩ := e
    unfold Gateway.run
    simp only [List.foldl_cons]
    have := ih (gw.step a t ev) b
    unfold Gateway.run at this
    rw [this]
    by_cases h : b = a
    · subst h
      simp [eventsOf, c15_own, Gw.run]
    · have hb : (a == b) = false := by simpa using fun e => h e.symm
      rw [c15_isolation gw a b t ev h]
      simp [eventsOf, hb]

/-- **C15 (no state shared through the package).** -/
theorem c15_no_shared_state : Gen.packageVars_gateway =
    ["Cancelled = errors.New(\"transaction cancelled\")",
     "ErrIllegalPacketWhenDisconnected = errors.New(\"illegal packet in disconnected state\")",
     "ErrMqttConnClosed = errors.New(\"MQTT broker closed connection\")",
     "ErrTopicIDsExhausted = errors.New(\"no more TopicIDs available\")",
     "Shutdown = errors.New(\"clean shutdown\")"] := rfl

end Bisquitt.Gw
