/-
  C32 — Short-topic and predefined routing is consistent between client and gateway.

  Both sides compute names from IDs with the same two functions over the shared configuration:
  the client library in `topicForPublish` / `Subscribe` / `Publish` (`GetTopicName(ClientID, id)`,
  `EncodeShortTopic`, `DecodeShortTopic`), the gateway in `handlePublish` / `handleSubscribe` /
  `handleBrokerPublish`.  `clientName` below is the client library's reading of a (type, ID) pair.
  Theorems, for ALL configurations, client IDs, IDs and names:
  * `c32_to_broker`: the name under which the gateway forwards a PUBLISH / SUBSCRIBE with a
    predefined or short ID is the name the client reads for that ID (the session's client ID being
    the one the client connected with);
  * `c32_short_roundtrip`: a 2-byte name the client encodes as a short ID is decoded by the gateway
    to the same name, and vice versa;
  * `c32_to_client`: the (type, ID) the gateway chooses for a broker message with a short or
    predefined ID is read by the client as exactly the broker's topic name — in particular a "*"
    entry shadowed by a client-specific one is never used (C05).
  The monitors `Spec.c01` / `Spec.c02` check the same on implementation traces (projected to
  predefined and short IDs); the client library's own reading function is tied by the client suite.
-/
import Bisquitt.Props.C01
import Bisquitt.Props.C02

namespace Bisquitt.Gw
open Bisquitt Gw

/-- the client library's reading of a predefined or short topic ID (`topicForPublish`) -/
def clientName (predef : Predef) (clientId : Bytes) (tit : UInt8) (id : UInt16) : Option Bytes :=
  if tit = Gen.TIT_PREDEFINED then predef.getTopicName clientId id
  else if tit = Gen.TIT_SHORT then some (decodeShortTopic id)
  else none

/-- **C32 (client → broker).** -/
theorem c32_to_broker (g : Gw) (tit : UInt8) (id : UInt16) (h : tit = Gen.TIT_PREDEFINED ∨ tit = Gen.TIT_SHORT) :
    (match g.resolveTopic tit id with | .ok n => some n | _ => none) = clientName g.cfg.predef g.clientId tit id := by
  rcases h with rfl | rfl
  · unfold resolveTopic clientName predefName
    have : ¬ (Gen.TIT_PREDEFINED = Gen.TIT_REGISTERED) := by decide
    simp only [this, if_false, if_true]
    split <;> rename_i h1 <;> split at h1 <;> simp_all
  · unfold resolveTopic clientName
    have h1 : ¬ (Gen.TIT_SHORT = Gen.TIT_REGISTERED) := by decide
    have h2 : ¬ (Gen.TIT_SHORT = Gen.TIT_PREDEFINED) := by decide
    simp [h1, h2]

/-- **C32 (short names).** -/
theorem c32_short_roundtrip (name : Bytes) (h : name.length = 2) (id : UInt16) :
    decodeShortTopic (encodeShortTopic name) = name ∧ encodeShortTopic (decodeShortTopic id) = id :=
  ⟨c21_short_name name h, c21_short_id id⟩

/-- **C32 (broker → client).** -/
theorem c32_to_client (g : Gw) (topic : Bytes) (tid : UInt16) (tit : UInt8) (h : g.brokerTopicId topic = some (tid, tit))
    (ht : tit = Gen.TIT_PREDEFINED ∨ tit = Gen.TIT_SHORT) :
    clientName g.cfg.predef g.clientId tit tid = some topic := by
  rcases c02_resolves g topic tid tit h with ⟨h1, h2⟩ | ⟨h1, _⟩ | ⟨h1, h2⟩
  · subst h1
    have h2' : ¬ (Gen.TIT_SHORT = Gen.TIT_PREDEFINED) := by decide
    simp [clientName, h2', h2]
  · subst h1
    rcases ht with h | h <;> exact absurd h (by decide)
  · subst h1
    simp [clientName, h2]

/-- non-vacuity: with {c1: 1 ↦ "y", *: 1 ↦ "x", *: 2 ↦ "z"} client c1 reads 1 as "y" and 2 as "z",
    and the gateway never picks the shadowed ID 1 for "x" -/
example : clientName [([0x63, 0x31], [(1, [0x79])]), ([0x2A], [(1, [0x78]), (2, [0x7A])])] [0x63, 0x31] 1 1 = some [0x79] ∧
    clientName [([0x63, 0x31], [(1, [0x79])]), ([0x2A], [(1, [0x78]), (2, [0x7A])])] [0x63, 0x31] 1 2 = some [0x7A] ∧
    Predef.getTopicIdSet [([0x63, 0x31], [(1, [0x79])]), ([0x2A], [(1, [0x78]), (2, [0x7A])])] [0x63, 0x31] [0x78] = [] := by
  decide

end Bisquitt.Gw
