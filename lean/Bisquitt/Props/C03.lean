/-
  C03 — Control packets are translated one-to-one with matching IDs and codes.

  Theorems about the model's dispatchers, for ALL states and field values (client active):
  * `c03_sn_simple`: PUBREL and PINGREQ from the client each produce exactly one MQTT packet of
    the same kind with the same message ID; `c03_mq_simple`: PUBREC, PUBCOMP, UNSUBACK and
    PINGRESP from the broker each produce exactly one MQTT-SN packet with the same message ID;
  * `c03_subscribe` / `c03_unsubscribe`: a SUBSCRIBE / UNSUBSCRIBE is forwarded as exactly one
    MQTT packet with the same message ID, DUP flag, requested QoS and the resolved filter, and
    the topic ID for the SUBACK is remembered under the message ID; `c03_filter_*`: how the filter
    and that topic ID are resolved (0 for wildcard and short names);
  * `c03_suback`: the MQTT-SN SUBACK is "accepted" exactly when the broker's return code is 0-2,
    and then carries the granted QoS and the remembered topic ID.
  The plain DISCONNECT is C13 `c13_plain_disconnect`.
  * **all runs** (`Lemmas/GwWatch.lean`: the frame `FW w` for a family `w` of watched MQTT packets, carried
    through every model function): `c03_subscribe_only_for_subscribe_datagram`,
    `c03_unsubscribe_only_for_unsubscribe_datagram`, `c03_pubrel_only_for_pubrel_datagram` — in ANY reachable
    state, an event that is not a datagram of that type (any other datagram, any broker packet, every
    timer and retransmission fired on the way, EOF, shutdown, the session end) writes NO such packet to the
    broker; `c03_*_bounded` — over any run there are at most as many as datagrams of the type ("one-to-one":
    never invented, never repeated; `c03_subscribe` / `c03_unsubscribe` / `c03_sn_simple` say which one).
  * `c03_own_ping_reply_swallowed`: the PINGRESP of a ping of the gateway itself is not passed on.
-/
import Bisquitt.Lemmas.GwSt
import Bisquitt.Lemmas.GwEmits
import Bisquitt.Lemmas.GwWatch
import Bisquitt.Spec.Gateway

namespace Bisquitt.Gw
open Bisquitt Gw

@[simp] theorem runFinally_now (g : Gw) (t : Tx) : (g.runFinally t).now = g.now := by
  unfold runFinally; split <;> (try split) <;> rfl

@[simp] theorem finishTx_now (g : Gw) (id : Nat) : (g.finishTx id).now = g.now := by
  unfold finishTx; split <;> (try split) <;> simp [setTx]

theorem legal_of_active (g : Gw) (p : Pkt) (h : g.st = .active) : (!g.packetLegal p) = false := by
  unfold packetLegal; simp [h]

/-- **C03.** PUBREL and PINGREQ: one MQTT packet each, same message ID. -/
theorem c03_sn_simple (g : Gw) (h : g.st = .active) (mid : UInt16) (cid : Bytes) :
    (g.handleSn (.pubrel mid)).outs = (g.now, Out.mq (.pubrel mid)) :: g.outs ∧
    (g.handleSn (.pingreq cid)).outs = (g.now, Out.mq .pingreq) :: g.outs := by
  constructor
  · unfold handleSn; simp [legal_of_active g _ h, mqttSend, emit]
  · unfold handleSn handlePingreq; simp [legal_of_active g _ h, mqttSend, emit, h]

/-- **C03.** PUBREC, PUBCOMP, UNSUBACK, PINGRESP: one MQTT-SN packet each, same message ID (a PINGRESP
    when no ping of the gateway itself is outstanding: `c03_own_ping_reply_swallowed`). -/
theorem c03_mq_simple (g : Gw) (h : g.st = .active) (mid : UInt16) (ho : g.ownPings = 0) :
    (g.handleMq (.pubrec mid)).outs = (g.now, Out.sn (encode (.pubrec mid))) :: g.outs ∧
    (g.handleMq (.pubcomp mid)).outs = (g.now, Out.sn (encode (.pubcomp mid))) :: g.outs ∧
    (g.handleMq (.unsuback mid)).outs = (g.now, Out.sn (encode (.unsuback mid))) :: g.outs ∧
    (g.handleMq .pingresp).outs = (g.now, Out.sn (encode .pingresp)) :: g.outs := by
  refine ⟨?_, ?_, ?_, ?_⟩ <;> (unfold handleMq; simp [snSend, emit, h, ho])

/-- **C03.** The broker's answer to a PINGREQ of the gateway itself (sleep pinger, `keepBrokerAlive`)
    is not the translation of anything the client sent: it is counted off and not passed on. -/
theorem c03_own_ping_reply_swallowed (g : Gw) (ho : g.ownPings > 0) :
    (g.handleMq .pingresp).outs = g.outs ∧ (g.handleMq .pingresp).ownPings = g.ownPings - 1 := by
  unfold handleMq; simp [ho]

/-- **C03.** A SUBSCRIBE with a usable filter: exactly one MQTT SUBSCRIBE with the same message
    ID, DUP flag, filter and requested QoS; the transaction stored under the message ID
    remembers the topic ID for the SUBACK. -/
theorem c03_subscribe (g : Gw) (dup : Bool) (q : UInt8) (mid : UInt16) (topic : Bytes) (tid : UInt16) (hne : topic ≠ []) :
    (g.forwardSubscribe dup q mid topic tid).outs = (g.now, Out.mq (.subscribe mid dup topic q)) :: g.outs ∧
    (g.forwardSubscribe dup q mid topic tid).byId = (mid, g.nextTx) :: g.byId ∧
    (g.forwardSubscribe dup q mid topic tid).txs =
      g.txs ++ [{ id := g.nextTx, kind := .subscribe tid, key := .byId mid, timer := some (g.now + g.cfg.retryDelay) }] := by
  unfold forwardSubscribe
  have : topic.isEmpty = false := by cases topic <;> simp_all
  simp [this, mqttSend, emit, storeById, newTx]

/-- an empty filter is refused, nothing is forwarded -/
theorem c03_subscribe_empty (g : Gw) (dup : Bool) (q : UInt8) (mid tid : UInt16) :
    (g.forwardSubscribe dup q mid [] tid).outs = g.outs := by
  unfold forwardSubscribe fail; simp; split <;> rfl

/-- **C03.** Filter and SUBACK topic ID by topic-ID type (requested QoS 0-2). -/
theorem c03_filter_wildcard (g : Gw) (dup : Bool) (q : UInt8) (mid tid : UInt16) (name : Bytes) (hq : ¬ q > 2)
    (hw : hasWildcard name = true) :
    g.handleSubscribe dup q Gen.TIT_STRING mid tid name = g.forwardSubscribe dup q mid name 0 := by
  unfold handleSubscribe; simp [hq, hw]

theorem c03_filter_predefined (g : Gw) (dup : Bool) (q : UInt8) (mid tid : UInt16) (name n : Bytes) (hq : ¬ q > 2)
    (hp : g.predefName tid = some n) :
    g.handleSubscribe dup q Gen.TIT_PREDEFINED mid tid name = g.forwardSubscribe dup q mid n tid := by
  unfold handleSubscribe
  have : ¬ (Gen.TIT_PREDEFINED = Gen.TIT_STRING) := by decide
  simp [hq, this, hp]

theorem c03_filter_short (g : Gw) (dup : Bool) (q : UInt8) (mid tid : UInt16) (name : Bytes) (hq : ¬ q > 2) :
    g.handleSubscribe dup q Gen.TIT_SHORT mid tid name = g.forwardSubscribe dup q mid (decodeShortTopic tid) 0 := by
  unfold handleSubscribe
  have h1 : ¬ (Gen.TIT_SHORT = Gen.TIT_STRING) := by decide
  have h2 : ¬ (Gen.TIT_SHORT = Gen.TIT_PREDEFINED) := by decide
  simp [hq, h1, h2]

theorem c03_unsubscribe (g : Gw) (mid : UInt16) (topic : Bytes) (hne : topic ≠ []) :
    (g.forwardUnsubscribe mid topic).outs = (g.now, Out.mq (.unsubscribe mid topic)) :: g.outs := by
  unfold forwardUnsubscribe
  have : topic.isEmpty = false := by cases topic <;> simp_all
  simp [this, mqttSend, emit]

/-- **C03.** The SUBACK: accepted exactly for broker codes 0-2, with the granted QoS and the
    remembered topic ID. -/
theorem c03_suback (g : Gw) (h : g.st ≠ .asleep) (mid : UInt16) (hq c : UInt8) (t : Tx) (tid : UInt16)
    (hl : g.lookupById mid = some t) (hk : t.kind = .subscribe tid) :
    (g.handleMq (.suback mid hq [c])).outs =
      (g.now, Out.sn (encode (if c ≤ 2 then .suback c tid mid Gen.RC_ACCEPTED
                              else .suback 0 tid mid Gen.RC_NOT_SUPPORTED))) :: g.outs := by
  unfold handleMq
  simp only [hl, hk]
  split <;> simp [snSend, emit, h]

end Bisquitt.Gw

namespace Bisquitt.Gw
open Bisquitt Gw

/-! ## every run: SUBSCRIBE / UNSUBSCRIBE / PUBREL are written to the broker only for the client's datagram
    of that type, at most one each (`Lemmas/GwWatch.lean`: the frame `FW w` carried through every model function) -/

section
variable (w : Watch)

theorem FW.stopTimers (g : Gw) : FW w 0 g g.stopTimers := by
  refine ⟨fun hA => ⟨?_, [], rfl, Nat.le_refl _⟩⟩
  intro x hx
  obtain ⟨y, hy, rfl⟩ := List.mem_map.mp hx
  exact hA y hy

theorem FW.finishSession (g : Gw) : FW w 0 g g.finishSession := by
  unfold Gw.finishSession
  split
  · split
    · exact FW.refl w g
    · unfold Gw.shutdownDisconnect Gw.emitEnd
      have h1 : ∀ x : Gw, FW w 0 x (if x.st = .active ∨ x.st = .awake then x.emit (.sn (encode (.disconnect 0))) else x) := by
        intro x; split
        · exact FW.emit w x _ rfl
        · exact FW.refl w x
      have h2 : ∀ x : Gw, FW w 0 x ((x.emit (.ended x.endCls)).emit .mqClose) := fun x => (FW.emit w x _ rfl).trans (FW.emit w _ _ rfl)
      exact (((FW.setNow w g _).trans (h1 _)).trans (h2 _)).trans (FW.stopTimers w _)
  · exact FW.refl w g

theorem FW.advance : ∀ (fuel : Nat) (g : Gw) (t : Nat), FW w 0 g (advance fuel g t) := by
  intro fuel
  induction fuel with
  | zero => intro g t; exact FW.setNow w g _
  | succ n ih =>
    intro g t
    unfold Gw.advance
    split
    · exact (FW.finishSession w g).trans (FW.setNow w _ _)
    · split
      · exact ((FW.fireDue w g _).trans (FW.finishSession w _)).trans (ih _ t)
      · exact FW.setNow w g _

theorem FW.sample (g : Gw) : FW w 0 g g.sample := by
  unfold Gw.sample Gw.sampleBuf Gw.sampleReg Gw.sampleState
  have e : ∀ (x y : Gw) (o : Out), isWatched w (y.now, o) = false → y.outs = x.outs → y.txs = x.txs →
      FW w 0 x (y.emit o) := fun x y o ho hou ht => (FW.of_eq w hou ht).trans (FW.emit w y o ho)
  split <;> split <;> split <;>
    first
    | exact FW.refl w g
    | exact (e _ _ _ rfl rfl rfl)
    | exact (e _ _ _ rfl rfl rfl).trans (e _ _ _ rfl rfl rfl)
    | exact ((e _ _ _ rfl rfl rfl).trans (e _ _ _ rfl rfl rfl)).trans (e _ _ _ rfl rfl rfl)

/-- what a client packet may add: the budget of the packet kind its handler forwards -/
def wBudget (w : Watch) : Pkt → Nat
  | .publish .. => w.nPub
  | .subscribe .. => w.nSub
  | .unsubscribe .. => w.nUnsub
  | .pubrel _ => w.nRel
  | _ => 0

theorem FW.handleSn (g : Gw) (p : Pkt) : FW w (wBudget w p) g (g.handleSn p) := by
  unfold Gw.handleSn
  split
  · exact (FW.fail w g _).mono (Nat.zero_le _)
  · split
    · exact FW.handleConnect w g _ _ _ _
    · split
      · exact FW.connAuth w g _ _ _ _ _
      · exact FW.refl w g
    · split
      · exact FW.connWillTopic w g _ _ _ _ _ _
      · exact FW.refl w g
    · split
      · exact FW.connWillMsg w g _ _ _ _
      · exact FW.refl w g
    · exact FW.handleRegister w g _ _
    · exact FW.handleClientPublish w g _ _ _ _ _ _ _
    · exact (FW.mqttSendC w g _).mono (w.pubrel _)
    · exact FW.handleSubscribe w g _ _ _ _ _ _
    · exact FW.handleUnsubscribe w g _ _ _ _
    · exact FW.handlePingreq w g
    · exact FW.handleDisconnect w g _
    · split
      · split
        · exact FW.bpRegack w g _ _ _ _ _ _
        · exact FW.refl w g
      · exact FW.refl w g
    · split
      · split
        · split
          · exact FW.refl w g
          · split
            · exact FW.finishTx w g _
            · exact FW.proceedMQ w g _ _ _ (w.puback _)
        · exact FW.refl w g
      · exact FW.refl w g
    · split
      · split
        · split
          · exact FW.refl w g
          · exact FW.proceedMQ w g _ _ _ (w.pubrec _)
        · exact FW.refl w g
      · exact FW.refl w g
    · split
      · split
        · split
          · exact FW.refl w g
          · exact FW.proceedMQ w g _ _ _ (w.pubcomp _)
        · exact FW.refl w g
      · exact FW.refl w g
    · exact (FW.fail w g _).mono (Nat.zero_le _)

theorem FW.handleMq (g : Gw) (p : MqPkt) : FW w 0 g (g.handleMq p) := by
  unfold Gw.handleMq
  split
  · split
    · exact FW.connConnack w g _ _ _
    · exact FW.refl w g
  · split
    · split
      · exact (FW.finishTx w g _).trans (FW.snSend w _ _ _)
      · exact FW.refl w g
    · exact FW.refl w g
  · exact FW.snSend w g _ _
  · exact FW.snSend w g _ _
  · split
    · split
      · split
        · split
          · exact (FW.finishTx w g _).trans (FW.snSend w _ _ _)
          · exact (FW.finishTx w g _).trans (FW.snSend w _ _ _)
        · exact (FW.finishTx w g _).trans (FW.fail w _ _)
      · exact FW.refl w g
    · exact FW.refl w g
  · exact FW.snSend w g _ _
  · split
    · exact FW.of_eq w rfl rfl
    · split
      · exact FW.refl w g
      · exact FW.snSend w g _ _
  · exact FW.handleBrokerPublish w g _ _ _ _ _ _
  · split
    · split
      · split
        · exact FW.refl w g
        · exact FW.proceedSN w g _ _ _
      · exact FW.refl w g
    · exact FW.refl w g
  · exact FW.fail w g _

/-- the budget of an event: that of the client packet it decodes to -/
def wEvent (w : Watch) : Event → Nat
  | .sn bytes => match decode (bytes.take Gen.MaxPacketLen) with
    | .ok (_, p) => wBudget w p
    | _ => 0
  | _ => 0

theorem FW.handleEvent (g : Gw) (ev : Event) : FW w (wEvent w ev) g (g.handleEvent ev) := by
  unfold Gw.handleEvent
  split
  · split
    · rename_i hd p hdec
      simp only [wEvent, hdec]
      exact (FW.handleSn w g p).after (FW.keepBrokerAlive w _)
    · exact (FW.fail w g _).mono (Nat.zero_le _)
  · exact FW.handleMq w g _
  · exact FW.fail w g _
  · split <;> exact FW.fail w g _
  · exact FW.fail w g _
  · exact FW.refl w g

theorem FW.step (g : Gw) (t : Nat) (ev : Event) : FW w (wEvent w ev) g (g.step t ev) := by
  unfold Gw.step Gw.stepCore Gw.deliver
  have q1 := FW.advance w 100000 g t
  split
  · exact ((q1.trans (FW.finishSession w _)).trans (FW.sample w _)).mono (Nat.zero_le _)
  · have q2 := FW.handleEvent w (Gw.advance 100000 g t) ev
    exact ((q1.before q2).after (((FW.advance w 100000 _ t).trans (FW.finishSession w _)).trans (FW.sample w _)))


theorem allQuiet_init (cfg : Cfg) (a b : UInt16) : AllQuiet w (Gw.init cfg a b) := by
  intro t ht; simp [Gw.init] at ht

theorem allQuiet_run (cfg : Cfg) (a b : UInt16) (evs : List (Nat × Event)) : AllQuiet w ((Gw.init cfg a b).run evs) := by
  have gen : ∀ (evs : List (Nat × Event)) (g : Gw), AllQuiet w g →
      AllQuiet w (evs.foldl (fun g (te : Nat × Event) => g.step te.1 te.2) g) := by
    intro evs
    induction evs with
    | nil => intro g h; exact h
    | cons e rest ih => intro g h; simp only [List.foldl_cons]; exact ih _ ((FW.step w g e.1 e.2).inv h)
  exact gen evs _ (allQuiet_init w cfg a b)

/-- in any reachable state an event whose budget is 0 writes no watched packet -/
theorem watched_unchanged (cfg : Cfg) (a b : UInt16) (hist : List (Nat × Event)) (t : Nat) (ev : Event)
    (hev : wEvent w ev = 0) :
    watched w (((Gw.init cfg a b).run hist).step t ev) = watched w ((Gw.init cfg a b).run hist) := by
  have h := FW.step w ((Gw.init cfg a b).run hist) t ev
  rw [hev] at h
  exact h.same (allQuiet_run w cfg a b hist)

/-- in any reachable state any event adds at most its budget -/
theorem watched_step (cfg : Cfg) (a b : UInt16) (hist : List (Nat × Event)) (t : Nat) (ev : Event) :
    ∃ new, watched w (((Gw.init cfg a b).run hist).step t ev) = new ++ watched w ((Gw.init cfg a b).run hist) ∧
      new.length ≤ wEvent w ev := by
  obtain ⟨_, new, e, l⟩ := (FW.step w ((Gw.init cfg a b).run hist) t ev).keep (allQuiet_run w cfg a b hist)
  exact ⟨new, e, l⟩

/-- over any run the watched packets are at most the sum of the budgets of the events -/
theorem watched_bounded (cfg : Cfg) (a b : UInt16) (evs : List (Nat × Event)) :
    (watched w ((Gw.init cfg a b).run evs)).length ≤ (evs.map fun e => wEvent w e.2).sum := by
  have gen : ∀ (evs : List (Nat × Event)) (g : Gw), AllQuiet w g →
      (watched w (evs.foldl (fun g (te : Nat × Event) => g.step te.1 te.2) g)).length ≤
        (watched w g).length + (evs.map fun e => wEvent w e.2).sum := by
    intro evs
    induction evs with
    | nil => intro g _; simp
    | cons e rest ih =>
      intro g hA
      simp only [List.foldl_cons, List.map_cons, List.sum_cons]
      obtain ⟨hA', new, e1, l1⟩ := (FW.step w g e.1 e.2).keep hA
      have := ih _ hA'
      rw [e1, List.length_append] at this
      omega
  have h : (watched w ((Gw.init cfg a b).run evs)).length ≤
      (watched w (Gw.init cfg a b)).length + (evs.map fun e => wEvent w e.2).sum := gen evs _ (allQuiet_init w cfg a b)
  have h0 : (watched w (Gw.init cfg a b)).length = 0 := by simp [watched, Gw.init]
  omega

end

/-! ### the three instances -/

def watchSubscribe : Watch where
  W := fun p => match p with | .subscribe .. => true | _ => false
  nPub := 0
  nSub := 1
  nUnsub := 0
  nRel := 0
  connect := fun f => by unfold ConnFields.toPkt; rfl
  pingreq := rfl
  disconnect := rfl
  puback := fun _ => rfl
  pubrec := fun _ => rfl
  pubcomp := fun _ => rfl
  publish := fun _ _ _ _ _ _ => Nat.le_refl _
  subscribe := fun _ _ _ _ => Nat.le_refl _
  unsubscribe := fun _ _ => Nat.le_refl _
  pubrel := fun _ => Nat.le_refl _

def watchUnsubscribe : Watch where
  W := fun p => match p with | .unsubscribe .. => true | _ => false
  nPub := 0
  nSub := 0
  nUnsub := 1
  nRel := 0
  connect := fun f => by unfold ConnFields.toPkt; rfl
  pingreq := rfl
  disconnect := rfl
  puback := fun _ => rfl
  pubrec := fun _ => rfl
  pubcomp := fun _ => rfl
  publish := fun _ _ _ _ _ _ => Nat.le_refl _
  subscribe := fun _ _ _ _ => Nat.le_refl _
  unsubscribe := fun _ _ => Nat.le_refl _
  pubrel := fun _ => Nat.le_refl _

def watchPubrel : Watch where
  W := fun p => match p with | .pubrel _ => true | _ => false
  nPub := 0
  nSub := 0
  nUnsub := 0
  nRel := 1
  connect := fun f => by unfold ConnFields.toPkt; rfl
  pingreq := rfl
  disconnect := rfl
  puback := fun _ => rfl
  pubrec := fun _ => rfl
  pubcomp := fun _ => rfl
  publish := fun _ _ _ _ _ _ => Nat.le_refl _
  subscribe := fun _ _ _ _ => Nat.le_refl _
  unsubscribe := fun _ _ => Nat.le_refl _
  pubrel := fun _ => Nat.le_refl _

/-- the MQTT SUBSCRIBE / UNSUBSCRIBE / PUBREL packets written so far -/
abbrev mqSubscribes (g : Gw) := watched watchSubscribe g
abbrev mqUnsubscribes (g : Gw) := watched watchUnsubscribe g
abbrev mqPubrels (g : Gw) := watched watchPubrel g

/-- 1 for a datagram that decodes as a SUBSCRIBE / UNSUBSCRIBE / PUBREL, 0 for every other event -/
abbrev subscribeDatagram (ev : Event) : Nat := wEvent watchSubscribe ev
abbrev unsubscribeDatagram (ev : Event) : Nat := wEvent watchUnsubscribe ev
abbrev pubrelDatagram (ev : Event) : Nat := wEvent watchPubrel ev

/-- **C03 (ALL runs).** In any reachable state, an event that is not a SUBSCRIBE datagram of the client — any other
    datagram, any broker packet, every timer and retransmission fired on the way, EOF, shutdown, the session
    end — writes no MQTT SUBSCRIBE; a SUBSCRIBE datagram adds at most one; over a run there are at most as many
    as SUBSCRIBE datagrams. -/
theorem c03_subscribe_only_for_subscribe_datagram (cfg : Cfg) (a b : UInt16) (hist : List (Nat × Event)) (t : Nat) (ev : Event)
    (hev : subscribeDatagram ev = 0) :
    mqSubscribes (((Gw.init cfg a b).run hist).step t ev) = mqSubscribes ((Gw.init cfg a b).run hist) :=
  watched_unchanged watchSubscribe cfg a b hist t ev hev
theorem c03_subscribes_bounded (cfg : Cfg) (a b : UInt16) (evs : List (Nat × Event)) :
    (mqSubscribes ((Gw.init cfg a b).run evs)).length ≤ (evs.map fun e => subscribeDatagram e.2).sum :=
  watched_bounded watchSubscribe cfg a b evs

/-- **C03 (ALL runs).** The same for UNSUBSCRIBE. -/
theorem c03_unsubscribe_only_for_unsubscribe_datagram (cfg : Cfg) (a b : UInt16) (hist : List (Nat × Event)) (t : Nat) (ev : Event)
    (hev : unsubscribeDatagram ev = 0) :
    mqUnsubscribes (((Gw.init cfg a b).run hist).step t ev) = mqUnsubscribes ((Gw.init cfg a b).run hist) :=
  watched_unchanged watchUnsubscribe cfg a b hist t ev hev
theorem c03_unsubscribes_bounded (cfg : Cfg) (a b : UInt16) (evs : List (Nat × Event)) :
    (mqUnsubscribes ((Gw.init cfg a b).run evs)).length ≤ (evs.map fun e => unsubscribeDatagram e.2).sum :=
  watched_bounded watchUnsubscribe cfg a b evs

/-- **C03 (ALL runs).** The same for the client's PUBREL (the gateway never retransmits one towards the broker). -/
theorem c03_pubrel_only_for_pubrel_datagram (cfg : Cfg) (a b : UInt16) (hist : List (Nat × Event)) (t : Nat) (ev : Event)
    (hev : pubrelDatagram ev = 0) :
    mqPubrels (((Gw.init cfg a b).run hist).step t ev) = mqPubrels ((Gw.init cfg a b).run hist) :=
  watched_unchanged watchPubrel cfg a b hist t ev hev
theorem c03_pubrels_bounded (cfg : Cfg) (a b : UInt16) (evs : List (Nat × Event)) :
    (mqPubrels ((Gw.init cfg a b).run evs)).length ≤ (evs.map fun e => pubrelDatagram e.2).sum :=
  watched_bounded watchPubrel cfg a b evs

/-- non-vacuity: which datagrams count -/
example : subscribeDatagram (.sn (encode (.subscribe false 1 0 7 0 [0x61]))) = 1 ∧
    subscribeDatagram (.sn (encode (.pingreq []))) = 0 ∧
    unsubscribeDatagram (.sn (encode (.unsubscribe 0 7 0 [0x61]))) = 1 ∧
    pubrelDatagram (.sn (encode (.pubrel 7))) = 1 ∧ pubrelDatagram (.sn (encode (.pubrec 7))) = 0 := by decide

end Bisquitt.Gw
