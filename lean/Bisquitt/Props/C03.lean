/-
  C03 — Control packets are translated one-to-one with matching IDs and codes.

  Theorems about the model's dispatchers, for ALL states and field values (client active):
  * `c03_sn_simple`: PUBREL and PINGREQ from the client each produce exactly one MQTT packet of
    the same kind with the same message ID; `c03_mq_simple`: PUBREC, PUBCOMP, UNSUBACK and
    PINGRESP from the broker each produce exactly one MQTT-SN packet with the same message ID;
  * `c03_subscribe` / `c03_unsubscribe`: a SUBSCRIBE / UNSUBSCRIBE is forwarded as exactly one
    MQTT packet with the same message ID, DUP flag, requested QoS and the resolved filter, and
    the topic ID for the SUBACK is remembered under the message ID; `c03_filter_*`: how the filter
    and that topic ID are resolved (0 for wildcard and short names);
  * `c03_suback`: the MQTT-SN SUBACK is "accepted" exactly when the broker's return code is 0-2,
    and then carries the granted QoS and the remembered topic ID.
  The plain DISCONNECT is C13 `c13_plain_disconnect`.
-/
import Bisquitt.Lemmas.GwSt
import Bisquitt.Lemmas.GwEmits
import Bisquitt.Spec.Gateway

namespace Bisquitt.Gw
open Bisquitt Gw

@[simp] theorem runFinally_now (g : Gw) (t : Tx) : (g.runFinally t).now = g.now := by
  unfold runFinally; split <;> (try split) <;> rfl

@[simp] theorem finishTx_now (g : Gw) (id : Nat) : (g.finishTx id).now = g.now := by
  unfold finishTx; split <;> (try split) <;> simp [setTx]

theorem legal_of_active (g : Gw) (p : Pkt) (h : g.st = .active) : (!g.packetLegal p) = false := by
  unfold packetLegal; simp [h]

/-- **C03.** PUBREL and PINGREQ: one MQTT packet each, same message ID. -/
theorem c03_sn_simple (g : Gw) (h : g.st = .active) (mid : UInt16) (cid : Bytes) :
    (g.handleSn (.pubrel mid)).outs = (g.now, Out.mq (.pubrel mid)) :: g.outs ∧
    (g.handleSn (.pingreq cid)).outs = (g.now, Out.mq .pingreq) :: g.outs := by
  constructor
  · unfold handleSn; simp [legal_of_active g _ h, mqttSend, emit]
  · unfold handleSn handlePingreq; simp [legal_of_active g _ h, mqttSend, emit, h]

/-- **C03.** PUBREC, PUBCOMP, UNSUBACK, PINGRESP: one MQTT-SN packet each, same message ID. -/
theorem c03_mq_simple (g : Gw) (h : g.st = .active) (mid : UInt16) :
    (g.handleMq (.pubrec mid)).outs = (g.now, Out.sn (encode (.pubrec mid))) :: g.outs ∧
    (g.handleMq (.pubcomp mid)).outs = (g.now, Out.sn (encode (.pubcomp mid))) :: g.outs ∧
    (g.handleMq (.unsuback mid)).outs = (g.now, Out.sn (encode (.unsuback mid))) :: g.outs ∧
    (g.handleMq .pingresp).outs = (g.now, Out.sn (encode .pingresp)) :: g.outs := by
  refine ⟨?_, ?_, ?_, ?_⟩ <;> (unfold handleMq; simp [snSend, emit, h])

/-- **C03.** A SUBSCRIBE with a usable filter: exactly one MQTT SUBSCRIBE with the same message
    ID, DUP flag, filter and requested QoS; the transaction stored under the message ID
    remembers the topic ID for the SUBACK. -/
theorem c03_subscribe (g : Gw) (dup : Bool) (q : UInt8) (mid : UInt16) (topic : Bytes) (tid : UInt16) (hne : topic ≠ []) :
    (g.forwardSubscribe dup q mid topic tid).outs = (g.now, Out.mq (.subscribe mid dup topic q)) :: g.outs ∧
    (g.forwardSubscribe dup q mid topic tid).byId = (mid, g.nextTx) :: g.byId ∧
    (g.forwardSubscribe dup q mid topic tid).txs =
      g.txs ++ [{ id := g.nextTx, kind := .subscribe tid, key := .byId mid, timer := some (g.now + g.cfg.retryDelay) }] := by
  unfold forwardSubscribe
  have : topic.isEmpty = false := by cases topic <;> simp_all
  simp [this, mqttSend, emit, storeById, newTx]

/-- an empty filter is refused, nothing is forwarded -/
theorem c03_subscribe_empty (g : Gw) (dup : Bool) (q : UInt8) (mid tid : UInt16) :
    (g.forwardSubscribe dup q mid [] tid).outs = g.outs := by
  unfold forwardSubscribe fail; simp; split <;> rfl

/-- **C03.** Filter and SUBACK topic ID by topic-ID type (requested QoS 0-2). -/
theorem c03_filter_wildcard (g : Gw) (dup : Bool) (q : UInt8) (mid tid : UInt16) (name : Bytes) (hq : ¬ q > 2)
    (hw : hasWildcard name = true) :
    g.handleSubscribe dup q Gen.TIT_STRING mid tid name = g.forwardSubscribe dup q mid name 0 := by
  unfold handleSubscribe; simp [hq, hw]

theorem c03_filter_predefined (g : Gw) (dup : Bool) (q : UInt8) (mid tid : UInt16) (name n : Bytes) (hq : ¬ q > 2)
    (hp : g.predefName tid = some n) :
    g.handleSubscribe dup q Gen.TIT_PREDEFINED mid tid name = g.forwardSubscribe dup q mid n tid := by
  unfold handleSubscribe
  have : ¬ (Gen.TIT_PREDEFINED = Gen.TIT_STRING) := by decide
  simp [hq, this, hp]

theorem c03_filter_short (g : Gw) (dup : Bool) (q : UInt8) (mid tid : UInt16) (name : Bytes) (hq : ¬ q > 2) :
    g.handleSubscribe dup q Gen.TIT_SHORT mid tid name = g.forwardSubscribe dup q mid (decodeShortTopic tid) 0 := by
  unfold handleSubscribe
  have h1 : ¬ (Gen.TIT_SHORT = Gen.TIT_STRING) := by decide
  have h2 : ¬ (Gen.TIT_SHORT = Gen.TIT_PREDEFINED) := by decide
  simp [hq, h1, h2]

theorem c03_unsubscribe (g : Gw) (mid : UInt16) (topic : Bytes) (hne : topic ≠ []) :
    (g.forwardUnsubscribe mid topic).outs = (g.now, Out.mq (.unsubscribe mid topic)) :: g.outs := by
  unfold forwardUnsubscribe
  have : topic.isEmpty = false := by cases topic <;> simp_all
  simp [this, mqttSend, emit]

/-- **C03.** The SUBACK: accepted exactly for broker codes 0-2, with the granted QoS and the
    remembered topic ID. -/
theorem c03_suback (g : Gw) (h : g.st ≠ .asleep) (mid : UInt16) (hq c : UInt8) (t : Tx) (tid : UInt16)
    (hl : g.lookupById mid = some t) (hk : t.kind = .subscribe tid) :
    (g.handleMq (.suback mid hq [c])).outs =
      (g.now, Out.sn (encode (if c ≤ 2 then .suback c tid mid Gen.RC_ACCEPTED
                              else .suback 0 tid mid Gen.RC_NOT_SUPPORTED))) :: g.outs := by
  unfold handleMq
  simp only [hl, hk]
  split <;> simp [snSend, emit, h]

end Bisquitt.Gw
