/-
  C07 — No active session without a broker-accepted CONNECT.

  Theorems about the model's dispatchers, for ALL states and packets:
  * `c07_client_cannot_activate`: whatever datagram a client sends, a disconnected session stays
    disconnected — only the broker's answer can activate it;
  * `c07_activation`: a disconnected session becomes active only on the broker's CONNACK with
    return code 0 while the current connect exchange is awaiting it (the state the model enters
    exactly when it sends the MQTT CONNECT, `c07_connect_sent_*`);
  * `c07_illegal`: before that, a packet outside the connect exchange (and outside the QoS -1
    exception when authentication is disabled) ends the session and forwards nothing;
  * `c07_legal_when_disconnected`: the exact list of packets accepted while disconnected.
  The monitor `Spec.c07` checks the whole-session statement on every implementation trace.
-/
import Bisquitt.Lemmas.GwSt
import Bisquitt.Lemmas.GwRun
import Bisquitt.Spec.Gateway

namespace Bisquitt.Gw
open Bisquitt Gw

theorem fail_alive (g : Gw) (c : EndCls) : (g.fail c).alive = false := by
  unfold fail alive; split <;> simp_all

/-- **C07.** No client datagram activates a disconnected session. -/
theorem c07_client_cannot_activate (g : Gw) (p : Pkt) (h : g.st = .disconnected) :
    (g.handleSn p).st = .disconnected := by
  unfold handleSn
  split
  · simp [h]
  · rename_i hl
    split
    · unfold handleConnect
      simp [h]
      split <;> simp [h]
    · split <;> simp [h]
    · split <;> simp [h]
    · split <;> simp [h]
    · simp [h]
    · simp [h]
    · simp [h]
    · simp [h]
    · simp [h]
    · unfold handlePingreq; simp [h]
    · rename_i d
      unfold handleDisconnect handlePlainDisconnect handleSleep
      split
      · simp
      · rename_i hd
        simp [packetLegal, h] at hl
        exact absurd hl hd
    · split
      · split <;> simp [h]
      · exact h
    · split
      · split
        · split
          · exact h
          · split <;> simp [h]
        · exact h
      · exact h
    · split
      · split
        · split <;> simp [h]
        · exact h
      · exact h
    · split
      · split
        · split <;> simp [h]
        · exact h
      · exact h
    · simp [h]

/-- **C07.** Only the broker's CONNACK 0, answering the CONNECT of the current exchange,
    activates a session. -/
theorem c07_activation (g : Gw) (p : MqPkt) (h : g.st = .disconnected) (ha : (g.handleMq p).st = .active) :
    p = .connack 0 ∧ ∃ t f, g.connTx = some (t, .awaitingConnack, f) := by
  unfold handleMq at ha
  split at ha
  · rename_i rc
    split at ha
    · rename_i t st f hc
      unfold connConnack at ha
      split at ha
      · rw [h] at ha; cases ha
      · rename_i hst
        split at ha
        · simp [h] at ha
        · rename_i hrc
          have : rc = 0 := by simpa using hrc
          have hst' : st = .awaitingConnack := by simpa using hst
          subst this hst'
          exact ⟨rfl, t, f, hc⟩
    · rw [h] at ha; cases ha
  · split at ha
    · split at ha <;> simp [h] at ha
    · rw [h] at ha; cases ha
  · simp [h] at ha
  · simp [h] at ha
  · split at ha
    · split at ha
      · split at ha
        · split at ha <;> simp [h] at ha
        · simp [h] at ha
      · rw [h] at ha; cases ha
    · rw [h] at ha; cases ha
  · simp [h] at ha
  · split at ha
    · rw [h] at ha; cases ha
    · simp [h] at ha
  · simp [h] at ha
  · split at ha
    · split at ha
      · split at ha
        · rw [h] at ha; cases ha
        · simp [h] at ha
      · rw [h] at ha; cases ha
    · rw [h] at ha; cases ha
  · simp [h] at ha

/-- the exchange awaits the broker's CONNACK exactly from the moment the MQTT CONNECT is sent:
    without a will, right after authentication … -/
theorem c07_connect_sent_nowill (g : Gw) (t : Tx) (f : ConnFields) (hw : f.will = false) :
    (g.connAuthenticated t f).outs = (g.now, Out.mq f.toPkt) :: g.outs := by
  unfold connAuthenticated; simp [hw, mqttSend, emit, setTx]

/-- … with a will, on the WILLMSG -/
theorem c07_connect_sent_will (g : Gw) (t : Tx) (f : ConnFields) (m : Bytes) :
    (g.connWillMsg t .awaitingWillMsg f m).outs =
      (g.now, Out.mq (if f.will then { f with wm := m } else f).toPkt) :: g.outs := by
  unfold connWillMsg; simp [mqttSend, emit, setTx]

/-- **C07.** What a disconnected session accepts. -/
theorem c07_legal_when_disconnected (g : Gw) (p : Pkt) (h : g.st = .disconnected) (hl : g.packetLegal p = true) :
    (∃ a b c d e, p = .connect a b c d e) ∨ (∃ a b c, p = .auth a b c) ∨ (∃ a, p = .willmsg a) ∨
    (∃ a b c, p = .willtopic a b c) ∨ p = .disconnect 0 ∨
    (∃ dup r tit tid mid data, p = .publish dup 3 r tit tid mid data ∧ g.cfg.auth = false ∧
      (tit = Gen.TIT_SHORT ∨ tit = Gen.TIT_PREDEFINED)) := by
  unfold packetLegal at hl
  simp only [h, ne_eq, not_true_eq_false, if_false] at hl
  split at hl
  · left; exact ⟨_, _, _, _, _, rfl⟩
  · right; left; exact ⟨_, _, _, rfl⟩
  · right; right; left; exact ⟨_, rfl⟩
  · right; right; right; left; exact ⟨_, _, _, rfl⟩
  · right; right; right; right; left
    simp only [beq_iff_eq] at hl; rw [hl]
  · right; right; right; right; right
    simp only [Bool.and_eq_true, Bool.not_eq_true', beq_iff_eq, Bool.or_eq_true] at hl
    obtain ⟨⟨ha, hq⟩, ht⟩ := hl
    subst hq
    exact ⟨_, _, _, _, _, _, rfl, ha, ht⟩
  · simp at hl

/-- **C07.** Anything else ends the session and forwards nothing. -/
theorem c07_illegal (g : Gw) (p : Pkt) (hl : g.packetLegal p = false) :
    (g.handleSn p).outs = g.outs ∧ (g.handleSn p).alive = false := by
  unfold handleSn
  simp [hl, fail_alive]

end Bisquitt.Gw
