/-
  C07 — No active session without a broker-accepted CONNECT.

  Theorems about the model's dispatchers, for ALL states and packets:
  * `c07_client_cannot_activate`: whatever datagram a client sends, a disconnected session stays
    disconnected — only the broker's answer can activate it;
  * `c07_activation`: a disconnected session becomes active only on the broker's CONNACK with
    return code 0 while the current connect exchange is awaiting it (the state the model enters
    exactly when it sends the MQTT CONNECT, `c07_connect_sent_*`);
  * `c07_illegal`: before that, a packet outside the connect exchange (and outside the QoS -1
    exception when authentication is disabled) ends the session and forwards nothing;
  * `c07_legal_when_disconnected`: the exact list of packets accepted while disconnected.
  * **all runs** — `c07_no_session_without_connack`: after ANY sequence of timed events that does not
    contain the broker's CONNACK 0 — client datagrams of every kind, malformed ones, other broker
    packets (a refusing CONNACK included), every timer on the way, broker EOF, shutdown — the session
    is `disconnected`: never active, asleep or awake (`c07_step_stays_disconnected` for one whole step).
  The monitor `Spec.c07` checks the whole-session statement on every implementation trace.
-/
import Bisquitt.Props.C11
import Bisquitt.Lemmas.GwSt
import Bisquitt.Lemmas.GwRun
import Bisquitt.Spec.Gateway

namespace Bisquitt.Gw
open Bisquitt Gw

theorem fail_alive (g : Gw) (c : EndCls) : (g.fail c).alive = false := by
  unfold fail alive; split <;> simp_all

/-- **C07.** No client datagram activates a disconnected session. -/
theorem c07_client_cannot_activate (g : Gw) (p : Pkt) (h : g.st = .disconnected) :
    (g.handleSn p).st = .disconnected := by
  unfold handleSn
  split
  · simp [h]
  · rename_i hl
    split
    · unfold handleConnect
      simp [h]
      split <;> simp [h]
    · split <;> simp [h]
    · split <;> simp [h]
    · split <;> simp [h]
    · simp [h]
    · simp [h]
    · simp [h]
    · simp [h]
    · simp [h]
    · unfold handlePingreq; simp [h]
    · rename_i d
      unfold handleDisconnect handlePlainDisconnect handleSleep
      split
      · simp
      · rename_i hd
        simp [packetLegal, h] at hl
        exact absurd hl hd
    · split
      · split <;> simp [h]
      · exact h
    · split
      · split
        · split
          · exact h
          · split <;> simp [h]
        · exact h
      · exact h
    · split
      · split
        · split <;> simp [h]
        · exact h
      · exact h
    · split
      · split
        · split <;> simp [h]
        · exact h
      · exact h
    · simp [h]

/-- **C07.** Only the broker's CONNACK 0, answering the CONNECT of the current exchange,
    activates a session. -/
theorem c07_activation (g : Gw) (p : MqPkt) (h : g.st = .disconnected) (ha : (g.handleMq p).st = .active) :
    p = .connack 0 ∧ ∃ t f, g.connTx = some (t, .awaitingConnack, f) := by
  unfold handleMq at ha
  split at ha
  · rename_i rc
    split at ha
    · rename_i t st f hc
      unfold connConnack at ha
      split at ha
      · rw [h] at ha; cases ha
      · rename_i hst
        split at ha
        · simp [h] at ha
        · rename_i hrc
          have : rc = 0 := by simpa using hrc
          have hst' : st = .awaitingConnack := by simpa using hst
          subst this hst'
          exact ⟨rfl, t, f, hc⟩
    · rw [h] at ha; cases ha
  · split at ha
    · split at ha <;> simp [h] at ha
    · rw [h] at ha; cases ha
  · simp [h] at ha
  · simp [h] at ha
  · split at ha
    · split at ha
      · split at ha
        · split at ha <;> simp [h] at ha
        · simp [h] at ha
      · rw [h] at ha; cases ha
    · rw [h] at ha; cases ha
  · simp [h] at ha
  · split at ha
    · rw [h] at ha; cases ha
    · simp [h] at ha
  · simp [h] at ha
  · split at ha
    · split at ha
      · split at ha
        · rw [h] at ha; cases ha
        · simp [h] at ha
      · rw [h] at ha; cases ha
    · rw [h] at ha; cases ha
  · simp [h] at ha

/-- the exchange awaits the broker's CONNACK exactly from the moment the MQTT CONNECT is sent:
    without a will, right after authentication … -/
theorem c07_connect_sent_nowill (g : Gw) (t : Tx) (f : ConnFields) (hw : f.will = false) :
    (g.connAuthenticated t f).outs = (g.now, Out.mq f.toPkt) :: g.outs := by
  unfold connAuthenticated; simp [hw, mqttSend, emit, setTx]

/-- … with a will, on the WILLMSG -/
theorem c07_connect_sent_will (g : Gw) (t : Tx) (f : ConnFields) (m : Bytes) :
    (g.connWillMsg t .awaitingWillMsg f m).outs =
      (g.now, Out.mq (if f.will then { f with wm := m } else f).toPkt) :: g.outs := by
  unfold connWillMsg; simp [mqttSend, emit, setTx]

/-- **C07.** What a disconnected session accepts. -/
theorem c07_legal_when_disconnected (g : Gw) (p : Pkt) (h : g.st = .disconnected) (hl : g.packetLegal p = true) :
    (∃ a b c d e, p = .connect a b c d e) ∨ (∃ a b c, p = .auth a b c) ∨ (∃ a, p = .willmsg a) ∨
    (∃ a b c, p = .willtopic a b c) ∨ p = .disconnect 0 ∨
    (∃ dup r tit tid mid data, p = .publish dup 3 r tit tid mid data ∧ g.cfg.auth = false ∧
      (tit = Gen.TIT_SHORT ∨ tit = Gen.TIT_PREDEFINED)) := by
  unfold packetLegal at hl
  simp only [h, ne_eq, not_true_eq_false, if_false] at hl
  split at hl
  · left; exact ⟨_, _, _, _, _, rfl⟩
  · right; left; exact ⟨_, _, _, rfl⟩
  · right; right; left; exact ⟨_, rfl⟩
  · right; right; right; left; exact ⟨_, _, _, rfl⟩
  · right; right; right; right; left
    simp only [beq_iff_eq] at hl; rw [hl]
  · right; right; right; right; right
    simp only [Bool.and_eq_true, Bool.not_eq_true', beq_iff_eq, Bool.or_eq_true] at hl
    obtain ⟨⟨ha, hq⟩, ht⟩ := hl
    subst hq
    exact ⟨_, _, _, _, _, _, rfl, ha, ht⟩
  · simp at hl

/-- **C07.** Anything else ends the session and forwards nothing. -/
theorem c07_illegal (g : Gw) (p : Pkt) (hl : g.packetLegal p = false) :
    (g.handleSn p).outs = g.outs ∧ (g.handleSn p).alive = false := by
  unfold handleSn
  simp [hl, fail_alive]

end Bisquitt.Gw

namespace Bisquitt.Gw
open Bisquitt Gw

/-! ## every run: no way out of `disconnected` without the broker's CONNACK 0 -/

theorem fireDue_st (g : Gw) (d : Due) : (g.fireDue d).st = g.st := by
  unfold fireDue
  split
  · unfold fireTx; split
    · rw [txExpire_st]; rfl
    · rfl
  · unfold firePing; simp
  · rfl

theorem finishSession_disc (g : Gw) (h : g.st = .disconnected) : g.finishSession.st = .disconnected := by
  unfold finishSession
  split
  · split
    · exact h
    · unfold shutdownDisconnect stopTimers emitEnd setNow
      have h1 : ¬ (g.st = .active ∨ g.st = .awake) := by rw [h]; decide
      simp only [h1, if_false]
      simpa [emit] using h
  · exact h

theorem advance_disc : ∀ (fuel : Nat) (g : Gw) (t : Nat), g.st = .disconnected → (advance fuel g t).st = .disconnected := by
  intro fuel
  induction fuel with
  | zero => intro g t h; simpa [advance, setNow] using h
  | succ n ih =>
    intro g t h
    unfold advance
    split
    · simpa [setNow] using finishSession_disc g h
    · split
      · rename_i d _
        exact ih _ t (finishSession_disc _ (by rw [fireDue_st]; exact h))
      · simpa [setNow] using h

theorem sample_st (g : Gw) : g.sample.st = g.st := by
  unfold sample sampleBuf sampleReg sampleState
  split <;> split <;> split <;> simp [emit]

/-- from `disconnected`, a broker packet either leaves the session disconnected or is the CONNACK 0
    that activates it -/
theorem handleMq_disc (g : Gw) (p : MqPkt) (h : g.st = .disconnected) (hp : p ≠ .connack 0) :
    (g.handleMq p).st = .disconnected := by
  unfold handleMq
  split
  · rename_i rc
    split
    · unfold connConnack
      split
      · exact h
      · split
        · simpa using h
        · rename_i h0
          have : rc = 0 := by simpa using h0
          exact absurd (by rw [this]) hp
    · exact h
  · split
    · split
      · simpa using h
      · exact h
    · exact h
  · simpa using h
  · simpa using h
  · split
    · split
      · split
        · split <;> simpa using h
        · simpa using h
      · exact h
    · exact h
  · simpa using h
  · split
    · exact h
    · split
      · exact h
      · simpa using h
  · simpa using h
  · split
    · split
      · split
        · exact h
        · simpa using h
      · exact h
    · exact h
  · simpa using h

theorem handleEvent_disc (g : Gw) (ev : Event) (h : g.st = .disconnected) (hev : ev ≠ .mq (.connack 0)) :
    (g.handleEvent ev).st = .disconnected := by
  unfold handleEvent
  split
  · split
    · rw [keepBrokerAlive_st]; exact c07_client_cannot_activate g _ h
    · simpa using h
  · rename_i p
    exact handleMq_disc g p h (fun e => hev (by rw [e]))
  · simpa using h
  · split <;> simpa using h
  · simpa using h
  · exact h

/-- **C07 (one whole step, timers included).** -/
theorem c07_step_stays_disconnected (g : Gw) (t : Nat) (ev : Event) (h : g.st = .disconnected)
    (hev : ev ≠ .mq (.connack 0)) : (g.step t ev).st = .disconnected := by
  unfold step stepCore deliver
  rw [sample_st]
  have q1 := advance_disc 100000 g t h
  split
  · exact finishSession_disc _ q1
  · exact finishSession_disc _ (advance_disc 100000 _ t (handleEvent_disc _ ev q1 hev))

/-- **C07 (ALL runs).** A session that has never been sent CONNACK 0 by the broker is `disconnected`,
    whatever the client, the broker and the clock have done: no sequence of client datagrams (CONNECT,
    AUTH, will packets, anything else, malformed ones), broker packets other than CONNACK 0, timers,
    broker EOF or shutdown makes it active, asleep or awake. -/
theorem c07_no_session_without_connack (cfg : Cfg) (a b : UInt16) (evs : List (Nat × Event))
    (h : ∀ e ∈ evs, e.2 ≠ .mq (.connack 0)) : ((Gw.init cfg a b).run evs).st = .disconnected := by
  unfold run
  have gen : ∀ (g : Gw), g.st = .disconnected → (∀ e ∈ evs, e.2 ≠ Event.mq (.connack 0)) →
      (evs.foldl (fun g (te : Nat × Event) => g.step te.1 te.2) g).st = .disconnected := by
    induction evs with
    | nil => intro g hg _; exact hg
    | cons e rest ih =>
      intro g hg hq
      simp only [List.foldl_cons]
      exact ih (fun x hx => h x (by simp [hx])) _ (c07_step_stays_disconnected g e.1 e.2 hg (hq e (by simp)))
        (fun x hx => hq x (by simp [hx]))
  exact gen _ rfl h

end Bisquitt.Gw
