/-
  C04 — Topic IDs are unique per session and never reassigned.

  Theorems about the model's topic-ID allocator (`newTopicID` in handler1.go: the ID sequence,
  the skip over predefined IDs, the sticky exhaustion flag), for ALL states:
  * `c04_not_predefined`: an ID handed out never collides with a predefined topic ID visible
    to this client;
  * `c04_increasing`: the IDs handed out are strictly increasing — the ID handed out is at least
    the sequence position before the call and the position afterwards is beyond it, unless the
    sequence wrapped (`Fresh`); so an ID is never handed out twice;
  * `c04_after_wrap` / `c04_exhausted_sticky`: once the sequence has wrapped, every further
    request is refused and the allocator stays exhausted — no ID is ever reused;
  * `c04_refusal_codes`: a refused registration is answered with a non-accepted return code.
  That a stored binding is never replaced is checked over whole sessions by the monitor `Spec.c04`
  (registry samples after every event of every implementation trace).
-/
import Bisquitt.Lemmas.GwSt
import Bisquitt.Spec.Gateway

namespace Bisquitt.Gw
open Bisquitt Gw

theorem loop_not_predefined (g : Gw) : ∀ (fuel : Nat) (id : UInt16) (s s' : IdSeq) (r : UInt16),
    g.newTopicIdLoop fuel id s = (some r, s') → g.predefName r = none := by
  intro fuel
  induction fuel with
  | zero => intro id s s' r h; simp [newTopicIdLoop] at h
  | succ n ih =>
    intro id s s' r h
    unfold newTopicIdLoop at h
    split at h
    · rename_i hp
      simp only [Prod.mk.injEq, Option.some.injEq] at h
      rw [← h.1]; simpa using hp
    · simp only at h
      split at h
      · simp at h
      · exact ih _ _ _ _ h

/-- **C04.** An ID handed out is not a predefined topic ID of this client. -/
theorem c04_not_predefined (g g' : Gw) (id : UInt16) (h : g.newTopicId = (some id, g')) : g.predefName id = none := by
  unfold newTopicId at h
  split at h
  · simp at h
  · simp only at h
    split at h
    · simp at h
    · split at h
      · rename_i r s' hl
        simp only [Prod.mk.injEq, Option.some.injEq] at h
        rw [← h.1]
        exact loop_not_predefined g _ _ _ _ _ hl
      · simp at h

/-- **C04.** Exhaustion is sticky: nothing is handed out any more. -/
theorem c04_exhausted_sticky (g : Gw) (h : g.exhausted = true) : g.newTopicId = (none, g) := by
  unfold newTopicId; simp [h]

/-- **C04.** After the sequence has wrapped the request is refused and the allocator is
    exhausted from then on. -/
theorem c04_after_wrap (g : Gw) (h : g.idseq.overflow = true) :
    g.newTopicId.1 = none ∧ (g.exhausted = false → g.newTopicId.2.exhausted = true) := by
  unfold newTopicId
  split
  · rename_i he; simp [he]
  · have : g.idseq.step.1.2 = true := by unfold IdSeq.step; split <;> simpa using h
    simp [this]

/-- the sequence position lies inside its range -/
def SeqOk (s : IdSeq) : Prop := s.min.toNat ≤ s.next.toNat ∧ s.next.toNat ≤ s.max.toNat

theorem step_ok (s : IdSeq) (h : SeqOk s) :
    s.step.1.1 = s.next ∧ s.step.1.2 = s.overflow ∧ SeqOk s.step.2 ∧
    s.step.2.min = s.min ∧ s.step.2.max = s.max ∧
    (s.step.2.overflow = false → s.next.toNat < s.step.2.next.toNat) := by
  unfold IdSeq.step
  split
  · rename_i he
    refine ⟨rfl, rfl, ?_, rfl, rfl, by simp⟩
    simp only [SeqOk]
    have := h.1; have := h.2
    omega
  · rename_i hne
    have hne' : s.next.toNat ≠ s.max.toNat := fun e => hne (UInt16.toNat_inj.mp e)
    have hmx := s.max.toNat_lt
    have h1 := h.1; have h2 := h.2
    have hadd : (s.next + 1).toNat = s.next.toNat + 1 := by
      rw [UInt16.toNat_add]; simp; omega
    refine ⟨rfl, rfl, ?_, rfl, rfl, fun _ => ?_⟩
    · simp only [SeqOk, hadd]; omega
    · simp only [hadd]; omega

/-- the loop only moves forward and stays inside the range: the result is at or beyond its
    starting ID, and unless the sequence wrapped the position afterwards is beyond the result -/
theorem loop_increasing (g : Gw) : ∀ (fuel : Nat) (id : UInt16) (s s' : IdSeq) (r : UInt16),
    g.newTopicIdLoop fuel id s = (some r, s') → SeqOk s →
    (s.overflow = false → id.toNat < s.next.toNat) → id.toNat ≤ s.max.toNat →
    id.toNat ≤ r.toNat ∧ r.toNat ≤ s.max.toNat ∧ SeqOk s' ∧ (s'.overflow = false → r.toNat < s'.next.toNat) ∧
      s'.min = s.min ∧ s'.max = s.max := by
  intro fuel
  induction fuel with
  | zero => intro id s s' r h; simp [newTopicIdLoop] at h
  | succ n ih =>
    intro id s s' r h hok hs hmax
    unfold newTopicIdLoop at h
    split at h
    · simp only [Prod.mk.injEq, Option.some.injEq] at h
      obtain ⟨rfl, rfl⟩ := h
      exact ⟨Nat.le_refl _, hmax, hok, hs, rfl, rfl⟩
    · simp only at h
      obtain ⟨h1, h2, h3, h4, h5, h6⟩ := step_ok s hok
      split at h
      · simp at h
      · rename_i hov
        have hov' : s.overflow = false := by rw [← h2]; simpa using hov
        have := ih _ _ _ _ h h3 (by rw [h1]; exact h6) (by rw [h1, h5]; exact hok.2)
        rw [h1, h4, h5] at this
        have hlt := hs hov'
        refine ⟨by omega, this.2.1, this.2.2.1, this.2.2.2.1, this.2.2.2.2.1, this.2.2.2.2.2⟩

/-- **C04.** IDs are handed out in strictly increasing order inside the sequence's range: the
    ID is at or beyond the position before the call, and afterwards the position is beyond the
    ID — or the sequence has wrapped, after which nothing is handed out (`c04_after_wrap`). -/
theorem c04_increasing (g g' : Gw) (id : UInt16) (h : g.newTopicId = (some id, g')) (hok : SeqOk g.idseq) :
    g.idseq.min.toNat ≤ id.toNat ∧ g.idseq.next.toNat ≤ id.toNat ∧ id.toNat ≤ g.idseq.max.toNat ∧
    SeqOk g'.idseq ∧ g'.idseq.min = g.idseq.min ∧ g'.idseq.max = g.idseq.max ∧
    (g'.idseq.overflow = false → id.toNat < g'.idseq.next.toNat) := by
  unfold newTopicId at h
  split at h
  · simp at h
  · simp only at h
    obtain ⟨h1, h2, h3, h4, h5, h6⟩ := step_ok g.idseq hok
    split at h
    · simp at h
    · rename_i hov
      split at h
      · rename_i r s' hl
        simp only [Prod.mk.injEq, Option.some.injEq] at h
        obtain ⟨rfl, rfl⟩ := h
        have hl' := loop_increasing g _ _ _ _ _ hl h3 (by rw [h1]; exact h6) (by rw [h1, h5]; exact hok.2)
        rw [h1, h4, h5] at hl'
        have hmin := hok.1
        exact ⟨by omega, hl'.1, hl'.2.1, hl'.2.2.1, hl'.2.2.2.2.1, hl'.2.2.2.2.2, hl'.2.2.2.1⟩
      · simp at h

/-- a fresh sequence over a non-empty range is inside its range -/
theorem seqOk_new (mn mx : UInt16) (h : mn.toNat ≤ mx.toNat) : SeqOk (IdSeq.new mn mx) := ⟨Nat.le_refl _, h⟩

/-- **C04.** Refusals carry a non-accepted return code. -/
theorem c04_refusal_codes : Gen.RC_INVALID_TOPIC_ID ≠ Gen.RC_ACCEPTED ∧ Gen.RC_NOT_SUPPORTED ≠ Gen.RC_ACCEPTED := by
  decide

/-- `k` successive allocations: the IDs handed out (oldest first) -/
def allocs : Nat → Gw → List UInt16
  | 0, _ => []
  | k + 1, g => match g.newTopicId with
    | (some id, g') => id :: allocs k g'
    | (none, g') => allocs k g'

theorem allocs_exhausted (k : Nat) : ∀ (g : Gw), g.exhausted = true → allocs k g = [] := by
  induction k with
  | zero => intro g _; rfl
  | succ n ih =>
    intro g h
    unfold allocs
    rw [c04_exhausted_sticky g h]
    exact ih g h

/-- a refusal leaves the allocator exhausted -/
theorem refused_exhausted (g g' : Gw) (h : g.newTopicId = (none, g')) : g'.exhausted = true := by
  unfold newTopicId at h
  split at h
  · rename_i he
    simp only [Prod.mk.injEq, true_and] at h
    rw [← h]; exact he
  · simp only at h
    split at h
    · simp only [Prod.mk.injEq, true_and] at h
      rw [← h]
    · split at h
      · simp at h
      · simp only [Prod.mk.injEq, true_and] at h
        rw [← h]

/-- **C04.** However many allocations are requested, the IDs handed out are strictly increasing
    (so pairwise distinct), inside the range and not predefined. -/
theorem c04_allocs (k : Nat) : ∀ (g : Gw), SeqOk g.idseq →
    ∀ (lo : Nat), (g.idseq.overflow = false → lo ≤ g.idseq.next.toNat) →
    (allocs k g).Pairwise (fun a b => a.toNat < b.toNat) ∧
    ∀ id ∈ allocs k g, lo ≤ id.toNat ∧ g.idseq.min.toNat ≤ id.toNat ∧ id.toNat ≤ g.idseq.max.toNat := by
  induction k with
  | zero => intro g _ lo _; simp [allocs]
  | succ n ih =>
    intro g hok lo hlo
    unfold allocs
    split
    · rename_i id g' h
      obtain ⟨h1, h2, h3, h4, h5, h6, h7⟩ := c04_increasing g g' id h hok
      have hov : g.idseq.overflow = false := by
        by_cases e : g.idseq.overflow = true
        · have := (c04_after_wrap g e).1; rw [h] at this; simp at this
        · simpa using e
      have hi := ih g' h4 (id.toNat + 1) (fun e => h7 e)
      rw [h5, h6] at hi
      have hl := hlo hov
      refine ⟨List.pairwise_cons.mpr ⟨fun b hb => ?_, hi.1⟩, ?_⟩
      · have := (hi.2 b hb).1; omega
      · intro x hx
        rcases List.mem_cons.mp hx with rfl | hx
        · exact ⟨by omega, h1, h3⟩
        · have hx' := hi.2 x hx
          exact ⟨by omega, hx'.2.1, hx'.2.2⟩
    · rename_i g' h
      -- a refusal leaves the allocator exhausted: nothing is handed out afterwards
      rw [allocs_exhausted n g' (refused_exhausted g g' h)]
      simp

/-- non-vacuity: the range 1..3 with ID 2 predefined for every client: five requests hand out
    1 and 3 and then nothing -/
example : allocs 5 (Gw.init ⟨false, none, none, 10, 2, [([0x2A], [(2, [0x78])])]⟩ 1 3) = [1, 3] := by decide

end Bisquitt.Gw
