/-
  C04 — Topic IDs are unique per session and never reassigned.

  Theorems about the model's topic-ID allocator (`newTopicID` in handler1.go: the ID sequence,
  the skip over predefined IDs, the sticky exhaustion flag), for ALL states:
  * `c04_not_predefined`: an ID handed out never collides with a predefined topic ID visible
    to this client;
  * `c04_increasing`: the IDs handed out are strictly increasing — the ID handed out is at least
    the sequence position before the call and the position afterwards is beyond it, unless the
    sequence wrapped (`Fresh`); so an ID is never handed out twice;
  * `c04_after_wrap` / `c04_exhausted_sticky`: once the sequence has wrapped, every further
    request is refused and the allocator stays exhausted — no ID is ever reused;
  * `c04_refusal_codes`: a refused registration is answered with a non-accepted return code.
  * **all runs** — `c04_never_reassigned`: whatever the client and the broker send, in any order and with
    any timing (REGISTERs, SUBSCRIBEs, REGACKs for the gateway's own registrations — stray or repeated
    ones too —, broker messages on new topics, exhaustion, everything else, every timer), a TopicID
    that denotes a name in the gateway's registry at some point of a session denotes the same name at
    every later point (invariant `K`, carried through every model function: `F4.*`, `F4.run`).
  The monitor `Spec.c04` checks the same on the registry samples of every implementation trace.
-/
import Bisquitt.Lemmas.GwAuth
import Bisquitt.Lemmas.GwSt
import Bisquitt.Spec.Gateway

namespace Bisquitt.Gw
open Bisquitt Gw

theorem loop_not_predefined (g : Gw) : ∀ (fuel : Nat) (id : UInt16) (s s' : IdSeq) (r : UInt16),
    g.newTopicIdLoop fuel id s = (some r, s') → g.predefName r = none := by
  intro fuel
  induction fuel with
  | zero => intro id s s' r h; simp [newTopicIdLoop] at h
  | succ n ih =>
    intro id s s' r h
    unfold newTopicIdLoop at h
    split at h
    · rename_i hp
      simp only [Prod.mk.injEq, Option.some.injEq] at h
      rw [← h.1]; simpa using hp
    · simp only at h
      split at h
      · simp at h
      · exact ih _ _ _ _ h

/-- **C04.** An ID handed out is not a predefined topic ID of this client. -/
theorem c04_not_predefined (g g' : Gw) (id : UInt16) (h : g.newTopicId = (some id, g')) : g.predefName id = none := by
  unfold newTopicId at h
  split at h
  · simp at h
  · simp only at h
    split at h
    · simp at h
    · split at h
      · rename_i r s' hl
        simp only [Prod.mk.injEq, Option.some.injEq] at h
        rw [← h.1]
        exact loop_not_predefined g _ _ _ _ _ hl
      · simp at h

/-- **C04.** Exhaustion is sticky: nothing is handed out any more. -/
theorem c04_exhausted_sticky (g : Gw) (h : g.exhausted = true) : g.newTopicId = (none, g) := by
  unfold newTopicId; simp [h]

/-- **C04.** After the sequence has wrapped the request is refused and the allocator is
    exhausted from then on. -/
theorem c04_after_wrap (g : Gw) (h : g.idseq.overflow = true) :
    g.newTopicId.1 = none ∧ (g.exhausted = false → g.newTopicId.2.exhausted = true) := by
  unfold newTopicId
  split
  · rename_i he; simp [he]
  · have : g.idseq.step.1.2 = true := by unfold IdSeq.step; split <;> simpa using h
    simp [this]

/-- the sequence position lies inside its range -/
def SeqOk (s : IdSeq) : Prop := s.min.toNat ≤ s.next.toNat ∧ s.next.toNat ≤ s.max.toNat

theorem step_ok (s : IdSeq) (h : SeqOk s) :
    s.step.1.1 = s.next ∧ s.step.1.2 = s.overflow ∧ SeqOk s.step.2 ∧
    s.step.2.min = s.min ∧ s.step.2.max = s.max ∧
    (s.step.2.overflow = false → s.next.toNat < s.step.2.next.toNat) := by
  unfold IdSeq.step
  split
  · rename_i he
    refine ⟨rfl, rfl, ?_, rfl, rfl, by simp⟩
    simp only [SeqOk]
    have := h.1; have := h.2
    omega
  · rename_i hne
    have hne' : s.next.toNat ≠ s.max.toNat := fun e => hne (UInt16.toNat_inj.mp e)
    have hmx := s.max.toNat_lt
    have h1 := h.1; have h2 := h.2
    have hadd : (s.next + 1).toNat = s.next.toNat + 1 := by
      rw [UInt16.toNat_add]; simp; omega
    refine ⟨rfl, rfl, ?_, rfl, rfl, fun _ => ?_⟩
    · simp only [SeqOk, hadd]; omega
    · simp only [hadd]; omega

/-- the loop only moves forward and stays inside the range: the result is at or beyond its
    starting ID, and unless the sequence wrapped the position afterwards is beyond the result -/
theorem loop_increasing (g : Gw) : ∀ (fuel : Nat) (id : UInt16) (s s' : IdSeq) (r : UInt16),
    g.newTopicIdLoop fuel id s = (some r, s') → SeqOk s →
    (s.overflow = false → id.toNat < s.next.toNat) → id.toNat ≤ s.max.toNat →
    id.toNat ≤ r.toNat ∧ r.toNat ≤ s.max.toNat ∧ SeqOk s' ∧ (s'.overflow = false → r.toNat < s'.next.toNat) ∧
      s'.min = s.min ∧ s'.max = s.max := by
  intro fuel
  induction fuel with
  | zero => intro id s s' r h; simp [newTopicIdLoop] at h
  | succ n ih =>
    intro id s s' r h hok hs hmax
    unfold newTopicIdLoop at h
    split at h
    · simp only [Prod.mk.injEq, Option.some.injEq] at h
      obtain ⟨rfl, rfl⟩ := h
      exact ⟨Nat.le_refl _, hmax, hok, hs, rfl, rfl⟩
    · simp only at h
      obtain ⟨h1, h2, h3, h4, h5, h6⟩ := step_ok s hok
      split at h
      · simp at h
      · rename_i hov
        have hov' : s.overflow = false := by rw [← h2]; simpa using hov
        have := ih _ _ _ _ h h3 (by rw [h1]; exact h6) (by rw [h1, h5]; exact hok.2)
        rw [h1, h4, h5] at this
        have hlt := hs hov'
        refine ⟨by omega, this.2.1, this.2.2.1, this.2.2.2.1, this.2.2.2.2.1, this.2.2.2.2.2⟩

/-- **C04.** IDs are handed out in strictly increasing order inside the sequence's range: the
    ID is at or beyond the position before the call, and afterwards the position is beyond the
    ID — or the sequence has wrapped, after which nothing is handed out (`c04_after_wrap`). -/
theorem c04_increasing (g g' : Gw) (id : UInt16) (h : g.newTopicId = (some id, g')) (hok : SeqOk g.idseq) :
    g.idseq.min.toNat ≤ id.toNat ∧ g.idseq.next.toNat ≤ id.toNat ∧ id.toNat ≤ g.idseq.max.toNat ∧
    SeqOk g'.idseq ∧ g'.idseq.min = g.idseq.min ∧ g'.idseq.max = g.idseq.max ∧
    (g'.idseq.overflow = false → id.toNat < g'.idseq.next.toNat) := by
  unfold newTopicId at h
  split at h
  · simp at h
  · simp only at h
    obtain ⟨h1, h2, h3, h4, h5, h6⟩ := step_ok g.idseq hok
    split at h
    · simp at h
    · rename_i hov
      split at h
      · rename_i r s' hl
        simp only [Prod.mk.injEq, Option.some.injEq] at h
        obtain ⟨rfl, rfl⟩ := h
        have hl' := loop_increasing g _ _ _ _ _ hl h3 (by rw [h1]; exact h6) (by rw [h1, h5]; exact hok.2)
        rw [h1, h4, h5] at hl'
        have hmin := hok.1
        exact ⟨by omega, hl'.1, hl'.2.1, hl'.2.2.1, hl'.2.2.2.2.1, hl'.2.2.2.2.2, hl'.2.2.2.1⟩
      · simp at h

/-- a fresh sequence over a non-empty range is inside its range -/
theorem seqOk_new (mn mx : UInt16) (h : mn.toNat ≤ mx.toNat) : SeqOk (IdSeq.new mn mx) := ⟨Nat.le_refl _, h⟩

/-- **C04.** Refusals carry a non-accepted return code. -/
theorem c04_refusal_codes : Gen.RC_INVALID_TOPIC_ID ≠ Gen.RC_ACCEPTED ∧ Gen.RC_NOT_SUPPORTED ≠ Gen.RC_ACCEPTED := by
  decide

/-- `k` successive allocations: the IDs handed out (oldest first) -/
def allocs : Nat → Gw → List UInt16
  | 0, _ => []
  | k + 1, g => match g.newTopicId with
    | (some id, g') => id :: allocs k g'
    | (none, g') => allocs k g'

theorem allocs_exhausted (k : Nat) : ∀ (g : Gw), g.exhausted = true → allocs k g = [] := by
  induction k with
  | zero => intro g _; rfl
  | succ n ih =>
    intro g h
    unfold allocs
    rw [c04_exhausted_sticky g h]
    exact ih g h

/-- a refusal leaves the allocator exhausted -/
theorem refused_exhausted (g g' : Gw) (h : g.newTopicId = (none, g')) : g'.exhausted = true := by
  unfold newTopicId at h
  split at h
  · rename_i he
    simp only [Prod.mk.injEq, true_and] at h
    rw [← h]; exact he
  · simp only at h
    split at h
    · simp only [Prod.mk.injEq, true_and] at h
      rw [← h]
    · split at h
      · simp at h
      · simp only [Prod.mk.injEq, true_and] at h
        rw [← h]

/-- **C04.** However many allocations are requested, the IDs handed out are strictly increasing
    (so pairwise distinct), inside the range and not predefined. -/
theorem c04_allocs (k : Nat) : ∀ (g : Gw), SeqOk g.idseq →
    ∀ (lo : Nat), (g.idseq.overflow = false → lo ≤ g.idseq.next.toNat) →
    (allocs k g).Pairwise (fun a b => a.toNat < b.toNat) ∧
    ∀ id ∈ allocs k g, lo ≤ id.toNat ∧ g.idseq.min.toNat ≤ id.toNat ∧ id.toNat ≤ g.idseq.max.toNat := by
  induction k with
  | zero => intro g _ lo _; simp [allocs]
  | succ n ih =>
    intro g hok lo hlo
    unfold allocs
    split
    · rename_i id g' h
      obtain ⟨h1, h2, h3, h4, h5, h6, h7⟩ := c04_increasing g g' id h hok
      have hov : g.idseq.overflow = false := by
        by_cases e : g.idseq.overflow = true
        · have := (c04_after_wrap g e).1; rw [h] at this; simp at this
        · simpa using e
      have hi := ih g' h4 (id.toNat + 1) (fun e => h7 e)
      rw [h5, h6] at hi
      have hl := hlo hov
      refine ⟨List.pairwise_cons.mpr ⟨fun b hb => ?_, hi.1⟩, ?_⟩
      · have := (hi.2 b hb).1; omega
      · intro x hx
        rcases List.mem_cons.mp hx with rfl | hx
        · exact ⟨by omega, h1, h3⟩
        · have hx' := hi.2 x hx
          exact ⟨by omega, hx'.2.1, hx'.2.2⟩
    · rename_i g' h
      -- a refusal leaves the allocator exhausted: nothing is handed out afterwards
      rw [allocs_exhausted n g' (refused_exhausted g g' h)]
      simp

/-- non-vacuity: the range 1..3 with ID 2 predefined for every client: five requests hand out
    1 and 3 and then nothing -/
example : allocs 5 (Gw.init ⟨false, none, none, 10, 2, [([0x2A], [(2, [0x78])])]⟩ 1 3) = [1, 3] := by decide

end Bisquitt.Gw

/-! ## the registry over whole runs

  Invariant `K`: every bound or reserved ID lies behind the allocation position (unless the allocator
  is exhausted), a reserved ID (`regIds`: the gateway's own registrations) is unbound or bound to its
  own name, reservations are injective, and every REGISTER exchange waiting for its REGACK is for a
  reserved (name, ID).  `F4 g g'`: a model function keeps `K` and never rebinds (`Stable`). -/

namespace Bisquitt.Gw
open Bisquitt Gw

/-- the ID lies behind the allocation position, or nothing is allocated any more -/
def Behind (g : Gw) (i : UInt16) : Prop :=
  g.exhausted = true ∨ g.idseq.overflow = true ∨ i.toNat < g.idseq.next.toNat

/-- a REGISTER exchange waiting for its REGACK is for a reserved (name, ID) -/
def txOk4 (R : List (Bytes × UInt16)) (k : TxKind) : Prop :=
  ∀ q id m name snp n, k = .brokerPub q .awaitingRegack (.sn (.register id m name)) snp n → R.lookup name = some id

structure K (g : Gw) : Prop where
  gb : ∀ i n, g.registered.lookup i = some n → Behind g i
  rb : ∀ n i, g.regIds.lookup n = some i → Behind g i
  rc : ∀ n i, g.regIds.lookup n = some i → g.registered.lookup i = none ∨ g.registered.lookup i = some n
  ri : ∀ n n' i, g.regIds.lookup n = some i → g.regIds.lookup n' = some i → n = n'
  sq : g.exhausted = true ∨ SeqOk g.idseq
  tx : ∀ t ∈ g.txs, txOk4 g.regIds t.kind

/-- no binding of the registry is lost or changed -/
def Stable (g g' : Gw) : Prop := ∀ i n, g.registered.lookup i = some n → g'.registered.lookup i = some n

def F4 (g g' : Gw) : Prop := K g → K g' ∧ Stable g g'

theorem Stable.refl (g : Gw) : Stable g g := fun _ _ h => h
theorem Stable.trans {a b c : Gw} (h1 : Stable a b) (h2 : Stable b c) : Stable a c := fun i n h => h2 i n (h1 i n h)
theorem F4.refl (g : Gw) : F4 g g := fun h => ⟨h, Stable.refl g⟩
theorem F4.trans {a b c : Gw} (h1 : F4 a b) (h2 : F4 b c) : F4 a c :=
  fun h => ⟨(h2 (h1 h).1).1, (h1 h).2.trans (h2 (h1 h).1).2⟩

/-- nothing the invariant reads has changed, except possibly the transactions, each of which is still fine -/
theorem F4.of_tables {g g' : Gw} (hr : g'.registered = g.registered) (hi : g'.regIds = g.regIds) (hs : g'.idseq = g.idseq)
    (he : g'.exhausted = g.exhausted) (ht : K g → ∀ t ∈ g'.txs, txOk4 g.regIds t.kind) : F4 g g' := by
  intro h
  refine ⟨⟨?_, ?_, ?_, ?_, ?_, ?_⟩, ?_⟩
  · intro i n hl; rw [hr] at hl; have := h.gb i n hl; unfold Behind at *; rw [hs, he]; exact this
  · intro n i hl; rw [hi] at hl; have := h.rb n i hl; unfold Behind at *; rw [hs, he]; exact this
  · intro n i hl; rw [hi] at hl; rw [hr]; exact h.rc n i hl
  · intro n n' i h1 h2; rw [hi] at h1 h2; exact h.ri n n' i h1 h2
  · rw [he, hs]; exact h.sq
  · rw [hi]; exact ht h
  · intro i n hl; rw [hr]; exact hl

theorem F4.of_eq {g g' : Gw} (hr : g'.registered = g.registered) (hi : g'.regIds = g.regIds) (hs : g'.idseq = g.idseq)
    (he : g'.exhausted = g.exhausted) (ht : g'.txs = g.txs) : F4 g g' :=
  F4.of_tables hr hi hs he (fun h t hm => h.tx t (by rw [← ht]; exact hm))

theorem F4.emit (g : Gw) (o : Out) : F4 g (g.emit o) := F4.of_eq rfl rfl rfl rfl rfl
theorem F4.snSend (g : Gw) (p : Pkt) (tx : Option Nat) : F4 g (g.snSend p tx) := by
  unfold Gw.snSend; split
  · exact F4.of_eq rfl rfl rfl rfl rfl
  · exact F4.emit g _
theorem F4.snSendNow (g : Gw) (p : Pkt) : F4 g (g.snSendNow p) := F4.emit g _
theorem F4.mqttSend (g : Gw) (p : MqPkt) : F4 g (g.mqttSend p) := F4.emit g _

theorem F4.setTx (g : Gw) (t : Tx) (h : K g → txOk4 g.regIds t.kind) : F4 g (g.setTx t) := by
  refine F4.of_tables rfl rfl rfl rfl (fun hK x hx => ?_)
  unfold Gw.setTx at hx
  simp only [List.mem_map] at hx
  obtain ⟨y, hy, rfl⟩ := hx
  split
  · exact h hK
  · exact hK.tx y hy

theorem F4.runFinally (g : Gw) (t : Tx) : F4 g (g.runFinally t) := by
  unfold Gw.runFinally
  split
  · split <;> exact F4.of_eq rfl rfl rfl rfl rfl
  · split <;> exact F4.of_eq rfl rfl rfl rfl rfl
  · exact F4.of_eq rfl rfl rfl rfl rfl

theorem F4.finishTx (g : Gw) (id : Nat) : F4 g (g.finishTx id) := by
  unfold Gw.finishTx
  split
  · rename_i t ht
    split
    · exact F4.refl g
    · exact F4.trans (F4.setTx g { t with done := true, timer := none } (fun hK => hK.tx t (getTx_mem' ht))) (F4.runFinally _ t)
  · exact F4.refl g

theorem F4.fail (g : Gw) (c : EndCls) : F4 g (g.fail c) := by
  unfold Gw.fail; split <;> exact F4.of_eq rfl rfl rfl rfl rfl

theorem F4.newTx (g : Gw) (k : TxKind) (key : TxKey) (tm : Option Nat) (h : K g → txOk4 g.regIds k) : F4 g (g.newTx k key tm).2 := by
  refine F4.of_tables rfl rfl rfl rfl (fun hK x hx => ?_)
  unfold Gw.newTx at hx
  simp only [List.mem_append, List.mem_singleton] at hx
  rcases hx with hx | rfl
  · exact hK.tx x hx
  · exact h hK

theorem ok4_of_not_bp {R : List (Bytes × UInt16)} {k : TxKind} (h : ∀ q st d snp n, k ≠ .brokerPub q st d snp n) : txOk4 R k :=
  fun q id m name snp n hk => absurd hk (h _ _ _ _ _)

theorem F4.storeById (g : Gw) (m : UInt16) (id : Nat) : F4 g (g.storeById m id) := F4.of_eq rfl rfl rfl rfl rfl
theorem F4.storeByIdB (g : Gw) (m : UInt16) (id : Nat) : F4 g (g.storeByIdB m id) := F4.of_eq rfl rfl rfl rfl rfl
theorem F4.setConnectTx (g : Gw) (id : Nat) : F4 g (g.setConnectTx id) := F4.of_eq rfl rfl rfl rfl rfl
theorem F4.setSt (g : Gw) (s : CState) : F4 g (g.setSt s) := F4.of_eq rfl rfl rfl rfl rfl
theorem F4.setNow (g : Gw) (t : Nat) : F4 g (g.setNow t) := F4.of_eq rfl rfl rfl rfl rfl
theorem F4.clearBuffer (g : Gw) : F4 g g.clearBuffer := F4.of_eq rfl rfl rfl rfl rfl
theorem F4.cancelSleepPinger (g : Gw) : F4 g g.cancelSleepPinger := F4.of_eq rfl rfl rfl rfl rfl
theorem F4.startSleepPinger (g : Gw) (d : UInt16) : F4 g (g.startSleepPinger d) := F4.of_eq rfl rfl rfl rfl rfl
theorem F4.armSleepPinger (g : Gw) (d : UInt16) : F4 g (g.armSleepPinger d) := by
  unfold Gw.armSleepPinger
  split
  · exact F4.cancelSleepPinger g
  · exact (F4.cancelSleepPinger g).trans (F4.startSleepPinger _ _)
theorem F4.pingBroker (g : Gw) : F4 g g.pingBroker := by
  unfold Gw.pingBroker
  have h0 : F4 g ({ g with ownPings := g.ownPings + 1 } : Gw) := F4.of_eq rfl rfl rfl rfl rfl
  exact h0.trans (F4.mqttSend _ _)
theorem F4.keepBrokerAlive (g : Gw) : F4 g g.keepBrokerAlive := by
  unfold Gw.keepBrokerAlive
  split
  · exact F4.refl g
  · split
    · split
      · exact F4.refl g
      · exact F4.pingBroker g
    · exact F4.pingBroker g

/-! ### the allocator -/

theorem newTopicId_frame (g : Gw) : g.newTopicId.2.registered = g.registered ∧ g.newTopicId.2.regIds = g.regIds ∧
    g.newTopicId.2.txs = g.txs := by
  unfold Gw.newTopicId
  split
  · exact ⟨rfl, rfl, rfl⟩
  · simp only
    split
    · exact ⟨rfl, rfl, rfl⟩
    · split <;> exact ⟨rfl, rfl, rfl⟩

theorem newTopicId_success (g g' : Gw) (id : UInt16) (h : g.newTopicId = (some id, g')) :
    g.exhausted = false ∧ g.idseq.overflow = false ∧ g'.exhausted = false := by
  have he : g.exhausted = false := by
    cases hx : g.exhausted with
    | false => rfl
    | true => rw [c04_exhausted_sticky g hx] at h; cases h
  have ho : g.idseq.overflow = false := by
    cases hx : g.idseq.overflow with
    | false => rfl
    | true => have := (c04_after_wrap g hx).1; rw [h] at this; cases this
  refine ⟨he, ho, ?_⟩
  unfold Gw.newTopicId at h
  simp only [he, Bool.false_eq_true, if_false] at h
  split at h
  · cases h
  · split at h
    · simp only [Prod.mk.injEq, Option.some.injEq] at h
      rw [← h.2]
    · cases h

/-- a successful allocation keeps `K`, and the new ID is unbound, unreserved and `Behind` afterwards -/
theorem alloc_ok (g g' : Gw) (id : UInt16) (h : g.newTopicId = (some id, g')) (hK : K g) :
    K g' ∧ Stable g g' ∧ g'.registered = g.registered ∧ g'.regIds = g.regIds ∧ Behind g' id ∧
    g.registered.lookup id = none ∧ (∀ n, g.regIds.lookup n ≠ some id) := by
  obtain ⟨he, ho, he'⟩ := newTopicId_success g g' id h
  have hfr := newTopicId_frame g
  rw [h] at hfr
  obtain ⟨hr, hi, ht⟩ := hfr
  have hsq : SeqOk g.idseq := by
    rcases hK.sq with hx | hx
    · rw [he] at hx; cases hx
    · exact hx
  have inc := c04_increasing g g' id h hsq
  have hge : g.idseq.next.toNat ≤ id.toNat := inc.2.1
  have hlt : g'.idseq.overflow = false → id.toNat < g'.idseq.next.toNat := inc.2.2.2.2.2.2
  have old : ∀ i, Behind g i → Behind g' i := by
    intro i hb
    rcases hb with hb | hb | hb
    · rw [he] at hb; cases hb
    · rw [ho] at hb; cases hb
    · cases hov : g'.idseq.overflow with
      | true => exact .inr (.inl hov)
      | false => exact .inr (.inr (by have := hlt hov; omega))
  have hnew : Behind g' id := by
    cases hov : g'.idseq.overflow with
    | true => exact .inr (.inl hov)
    | false => exact .inr (.inr (hlt hov))
  have fresh : ∀ i, Behind g i → i ≠ id := by
    intro i hb e
    rcases hb with hb | hb | hb
    · rw [he] at hb; cases hb
    · rw [ho] at hb; cases hb
    · rw [e] at hb; omega
  refine ⟨⟨?_, ?_, ?_, ?_, .inr inc.2.2.2.1, ?_⟩, ?_, hr, hi, hnew, ?_, ?_⟩
  · intro i n hl; rw [hr] at hl; exact old i (hK.gb i n hl)
  · intro n i hl; rw [hi] at hl; exact old i (hK.rb n i hl)
  · intro n i hl; rw [hi] at hl; rw [hr]; exact hK.rc n i hl
  · intro n n' i h1 h2; rw [hi] at h1 h2; exact hK.ri n n' i h1 h2
  · rw [hi, ht]; exact hK.tx
  · intro i n hl; rw [hr]; exact hl
  · cases hx : g.registered.lookup id with
    | none => rfl
    | some n => exact absurd rfl (fresh id (hK.gb id n hx))
  · intro n hx; exact absurd rfl (fresh id (hK.rb n id hx))

theorem alloc_fail (g g' : Gw) (h : g.newTopicId = (none, g')) : F4 g g' := by
  intro hK
  have hfr := newTopicId_frame g
  rw [h] at hfr
  obtain ⟨hr, hi, ht⟩ := hfr
  have hex := refused_exhausted g g' h
  refine ⟨⟨?_, ?_, ?_, ?_, .inl hex, ?_⟩, ?_⟩
  · intro i n _; exact .inl hex
  · intro n i _; exact .inl hex
  · intro n i hl; rw [hi] at hl; rw [hr]; exact hK.rc n i hl
  · intro n n' i h1 h2; rw [hi] at h1 h2; exact hK.ri n n' i h1 h2
  · rw [hi, ht]; exact hK.tx
  · intro i n hl; rw [hr]; exact hl

/-- binding a fresh ID (REGISTER / SUBSCRIBE of a new name) -/
theorem F4.alloc_store (g g1 : Gw) (id : UInt16) (name : Bytes) (h : g.newTopicId = (some id, g1)) :
    F4 g (g1.storeRegistered id name) := by
  intro hK
  obtain ⟨hK1, hst, hr, hi, hb, hfr, hfi⟩ := alloc_ok g g1 id h hK
  have hG : ∀ i, i ≠ id → (g1.storeRegistered id name).registered.lookup i = g.registered.lookup i := by
    intro i hi'; unfold Gw.storeRegistered; simp only; rw [hr]
    simp only [List.lookup_cons]
    have : (i == id) = false := by simpa using hi'
    simp [this]
  refine ⟨⟨?_, ?_, ?_, ?_, hK1.sq, ?_⟩, ?_⟩
  · intro i n hl
    by_cases hi' : i = id
    · rw [hi']; exact hb
    · rw [hG i hi'] at hl; exact hK1.gb i n (by rw [hr]; exact hl)
  · exact hK1.rb
  · intro n i hl
    have hl' : g.regIds.lookup n = some i := by rw [← hi]; exact hl
    have hne : i ≠ id := fun e => hfi n (by rw [← e]; exact hl')
    rw [hG i hne]; exact hK.rc n i hl'
  · exact hK1.ri
  · exact hK1.tx
  · intro i n hl
    have hne : i ≠ id := by intro e; rw [e, hfr] at hl; cases hl
    rw [hG i hne]; exact hl

/-- binding a reserved ID (the REGACK of the gateway's own REGISTER) -/
theorem F4.store_reserved (g : Gw) (id : UInt16) (name : Bytes) (hR : K g → g.regIds.lookup name = some id) :
    F4 g (g.storeRegistered id name) := by
  intro hK
  have hR := hR hK
  have hG : ∀ i, i ≠ id → (g.storeRegistered id name).registered.lookup i = g.registered.lookup i := by
    intro i hi'; unfold Gw.storeRegistered; simp only [List.lookup_cons]
    have : (i == id) = false := by simpa using hi'
    simp [this]
  have hGid : (g.storeRegistered id name).registered.lookup id = some name := by
    unfold Gw.storeRegistered; simp
  refine ⟨⟨?_, hK.rb, ?_, hK.ri, hK.sq, hK.tx⟩, ?_⟩
  · intro i n hl
    by_cases hi' : i = id
    · rw [hi']; exact hK.rb name id hR
    · rw [hG i hi'] at hl; exact hK.gb i n hl
  · intro n i hl
    by_cases hi' : i = id
    · rw [hi'] at hl
      rw [hi', hGid, hK.ri n name id hl hR]; exact .inr rfl
    · rw [hG i hi']; exact hK.rc n i hl
  · intro i n hl
    by_cases hi' : i = id
    · rw [hi'] at hl
      rcases hK.rc name id hR with h2 | h2
      · rw [h2] at hl; cases hl
      · rw [h2] at hl; rw [hi', hGid]; exact hl
    · rw [hG i hi']; exact hl

/-- `registrationTopicId`: the reserved ID of the name, or a fresh one which is reserved now -/
theorem registrationTopicId_ok (g g' : Gw) (topic : Bytes) (r : Option UInt16) (h : g.registrationTopicId topic = (r, g')) :
    F4 g g' ∧ (∀ id, r = some id → g'.regIds.lookup topic = some id) := by
  unfold Gw.registrationTopicId at h
  split at h
  · rename_i id hl
    simp only [Prod.mk.injEq] at h
    obtain ⟨rfl, rfl⟩ := h
    exact ⟨F4.refl g, fun id' e => by injection e with e; rw [← e]; exact hl⟩
  · rename_i hnone
    split at h
    · rename_i id g1 hn
      simp only [Prod.mk.injEq] at h
      obtain ⟨rfl, rfl⟩ := h
      refine ⟨?_, fun id' e => by injection e with e; rw [← e]; simp [Gw.storeRegId]⟩
      intro hK
      obtain ⟨hK1, hst, hr, hi, hb, hfr, hfi⟩ := alloc_ok g g1 id hn hK
      have hR : ∀ n, n ≠ topic → (g1.storeRegId topic id).regIds.lookup n = g.regIds.lookup n := by
        intro n hne; unfold Gw.storeRegId; simp only [List.lookup_cons]; rw [hi]
        have : (n == topic) = false := by simpa using hne
        simp [this]
      have hRt : (g1.storeRegId topic id).regIds.lookup topic = some id := by simp [Gw.storeRegId]
      refine ⟨⟨hK1.gb, ?_, ?_, ?_, hK1.sq, ?_⟩, hst⟩
      · intro n i hl
        by_cases hne : n = topic
        · rw [hne, hRt] at hl; injection hl with hl; rw [← hl]; exact hb
        · rw [hR n hne] at hl; exact hK1.rb n i (by rw [hi]; exact hl)
      · intro n i hl
        show g1.registered.lookup i = none ∨ g1.registered.lookup i = some n
        rw [hr]
        by_cases hne : n = topic
        · rw [hne, hRt] at hl; injection hl with hl; rw [← hl, hne]; exact .inl hfr
        · rw [hR n hne] at hl; exact hK.rc n i hl
      · intro n n' i h1 h2
        by_cases hne : n = topic
        · by_cases hne' : n' = topic
          · rw [hne, hne']
          · rw [hne, hRt] at h1; injection h1 with h1
            rw [hR n' hne', ← h1] at h2; exact absurd h2 (hfi n')
        · by_cases hne' : n' = topic
          · rw [hne', hRt] at h2; injection h2 with h2
            rw [hR n hne, ← h2] at h1; exact absurd h1 (hfi n)
          · rw [hR n hne] at h1; rw [hR n' hne'] at h2; exact hK.ri n n' i h1 h2
      · intro t ht q id' m name snp k hk
        have ht' : t ∈ g.txs := by
          have := (newTopicId_frame g).2.2; rw [hn] at this; simp only at this
          rw [← this]; exact ht
        have := hK.tx t ht' q id' m name snp k hk
        by_cases hne : name = topic
        · rw [hne, hnone] at this; cases this
        · rw [hR name hne]; exact this
    · rename_i g1 hn
      simp only [Prod.mk.injEq] at h
      obtain ⟨rfl, rfl⟩ := h
      exact ⟨alloc_fail g _ hn, fun id e => by cases e⟩

/-! ### transactions -/

theorem ok4_bp_not_awaiting {R : List (Bytes × UInt16)} (q : UInt8) (st : BpSt) (d : BpData) (snp : Option Pkt) (n : Nat)
    (h : st ≠ .awaitingRegack) : txOk4 R (.brokerPub q st d snp n) := by
  intro q' id m name snp' n' hk
  injection hk with _ h2
  exact absurd h2 h

theorem ok4_bp_mq {R : List (Bytes × UInt16)} (q : UInt8) (st : BpSt) (p : MqPkt) (snp : Option Pkt) (n : Nat) :
    txOk4 R (.brokerPub q st (.mq p) snp n) := by
  intro q' id m name snp' n' hk
  injection hk with _ _ h3
  cases h3

theorem ok4_connect {R : List (Bytes × UInt16)} (st : ConnSt) (f : ConnFields) : txOk4 R (.connect st f) :=
  ok4_of_not_bp (fun _ _ _ _ _ h => by cases h)

theorem F4.armBp (g : Gw) (t : Tx) (q : UInt8) (s : BpSt) (d : BpData) (snp : Option Pkt)
    (h : K g → txOk4 g.regIds (.brokerPub q s d snp 0)) : F4 g (g.armBp t q s d snp) := by
  unfold Gw.armBp
  split
  · exact F4.refl g
  · exact F4.setTx g _ h
theorem F4.finishIfDone (g : Gw) (id : Nat) (s : BpSt) : F4 g (g.finishIfDone id s) := by
  unfold Gw.finishIfDone; split
  · exact F4.finishTx g id
  · exact F4.refl g
/-- `ProceedSN` to a state other than "awaiting REGACK" -/
theorem F4.proceedSN (g : Gw) (id : Nat) (s : BpSt) (p : Pkt) (hs : s ≠ .awaitingRegack) : F4 g (g.proceedSN id s p) := by
  unfold Gw.proceedSN
  split
  · split
    · exact ((F4.armBp g _ _ _ _ _ (fun _ => ok4_bp_not_awaiting _ _ _ _ _ hs)).trans (F4.snSend _ _ _)).trans (F4.finishIfDone _ _ _)
    · exact F4.refl g
  · exact F4.refl g
/-- `ProceedSN` with the REGISTER of a reserved (name, ID) -/
theorem F4.proceedSN_register (g : Gw) (id : Nat) (tid m : UInt16) (name : Bytes) (hR : K g → g.regIds.lookup name = some tid) :
    F4 g (g.proceedSN id .awaitingRegack (.register tid m name)) := by
  unfold Gw.proceedSN
  split
  · split
    · refine ((F4.armBp g _ _ _ _ _ (fun hK => ?_)).trans (F4.snSend _ _ _)).trans (F4.finishIfDone _ _ _)
      intro q' id' m' name' snp' n' hk
      injection hk with _ _ h3
      injection h3 with h3
      injection h3 with e1 _ e3
      rw [← e1, ← e3]; exact hR hK
    · exact F4.refl g
  · exact F4.refl g
theorem F4.proceedMQ (g : Gw) (id : Nat) (s : BpSt) (p : MqPkt) : F4 g (g.proceedMQ id s p) := by
  unfold Gw.proceedMQ
  split
  · split
    · exact ((F4.armBp g _ _ _ _ _ (fun _ => ok4_bp_mq _ _ _ _ _)).trans (F4.mqttSend _ _)).trans (F4.finishIfDone _ _ _)
    · exact F4.refl g
  · exact F4.refl g

theorem F4.storeClientPub1 (g : Gw) (q : UInt8) (tid mid : UInt16) : F4 g (g.storeClientPub1 q tid mid) := by
  unfold Gw.storeClientPub1
  split
  · exact (F4.newTx g _ _ _ (fun _ => ok4_of_not_bp (fun _ _ _ _ _ h => by cases h))).trans (F4.storeById _ _ _)
  · exact F4.refl g
theorem F4.handleClientPublish (g : Gw) (dup : Bool) (q : UInt8) (r : Bool) (tit : UInt8) (tid mid : UInt16) (d : Bytes) :
    F4 g (g.handleClientPublish dup q r tit tid mid d) := by
  unfold Gw.handleClientPublish
  split
  · exact F4.fail g _
  · exact F4.fail g _
  · split
    · exact F4.fail g _
    · exact (F4.storeClientPub1 g _ _ _).trans (F4.mqttSend _ _)
theorem F4.forwardSubscribe (g : Gw) (dup : Bool) (q : UInt8) (mid : UInt16) (tp : Bytes) (tid : UInt16) :
    F4 g (g.forwardSubscribe dup q mid tp tid) := by
  unfold Gw.forwardSubscribe
  split
  · exact F4.fail g _
  · exact ((F4.newTx g _ _ _ (fun _ => ok4_of_not_bp (fun _ _ _ _ _ h => by cases h))).trans (F4.storeById _ _ _)).trans (F4.mqttSend _ _)
theorem F4.handleSubscribe (g : Gw) (dup : Bool) (q tit : UInt8) (mid tid : UInt16) (n : Bytes) :
    F4 g (g.handleSubscribe dup q tit mid tid n) := by
  unfold Gw.handleSubscribe
  split
  · exact F4.snSend g _ _
  · split
    · split
      · split
        · exact F4.forwardSubscribe g _ _ _ _ _
        · split
          · rename_i hn
            exact (F4.alloc_store g _ _ n hn).trans (F4.forwardSubscribe _ _ _ _ _ _)
          · rename_i hn
            exact (alloc_fail g _ hn).trans (F4.snSend _ _ _)
      · exact F4.forwardSubscribe g _ _ _ _ _
    · split
      · split
        · exact F4.forwardSubscribe g _ _ _ _ _
        · exact F4.fail g _
      · split <;> exact F4.forwardSubscribe g _ _ _ _ _
theorem F4.forwardUnsubscribe (g : Gw) (mid : UInt16) (tp : Bytes) : F4 g (g.forwardUnsubscribe mid tp) := by
  unfold Gw.forwardUnsubscribe
  split
  · exact F4.fail g _
  · exact F4.mqttSend g _
theorem F4.handleUnsubscribe (g : Gw) (tit : UInt8) (mid tid : UInt16) (n : Bytes) : F4 g (g.handleUnsubscribe tit mid tid n) := by
  unfold Gw.handleUnsubscribe
  split
  · exact F4.forwardUnsubscribe g _ _
  · split
    · split
      · exact F4.forwardUnsubscribe g _ _
      · exact F4.fail g _
    · split <;> exact F4.forwardUnsubscribe g _ _
theorem F4.handleRegister (g : Gw) (mid : UInt16) (n : Bytes) : F4 g (g.handleRegister mid n) := by
  unfold Gw.handleRegister
  split
  · exact F4.snSend g _ _
  · split
    · exact F4.snSend g _ _
    · split
      · rename_i hn
        exact (F4.alloc_store g _ _ n hn).trans (F4.snSend _ _ _)
      · rename_i hn
        exact (alloc_fail g _ hn).trans (F4.snSend _ _ _)

/-- the REGACK of a REGISTER exchange: the transaction is one of the session's, so its (name, ID) is reserved -/
theorem F4.bpRegack (g : Gw) (t : Tx) (q : UInt8) (s : BpSt) (d : BpData) (snp : Option Pkt) (rc : UInt8) (n : Nat)
    (ht : t ∈ g.txs) (hk : t.kind = .brokerPub q s d snp n) : F4 g (g.bpRegack t q s d snp rc) := by
  unfold Gw.bpRegack
  split
  · exact F4.refl g
  · rename_i hs
    split
    · exact F4.finishTx g _
    · split
      · rename_i tid m name pub
        have hs' : s = .awaitingRegack := by simpa using hs
        have hR : K g → g.regIds.lookup name = some tid := fun hK => hK.tx t ht q tid m name (some pub) n (by rw [hk, hs'])
        refine (F4.store_reserved g tid name hR).trans (F4.proceedSN _ _ _ _ ?_)
        split <;> (try split) <;> simp
      · exact F4.refl g

theorem F4.startBrokerPub (g : Gw) (q : UInt8) (m : UInt16) (s0 : BpSt) (snp : Option Pkt) (s : BpSt) (p : Pkt)
    (h0 : s0 ≠ .awaitingRegack ∨ True) (hp : F4 ((g.newTx (.brokerPub q s0 .none snp 0) (.byIdB m) none).2.storeByIdB m g.nextTx)
      (((g.newTx (.brokerPub q s0 .none snp 0) (.byIdB m) none).2.storeByIdB m g.nextTx).proceedSN g.nextTx s p)) :
    F4 g (g.startBrokerPub q m s0 snp s p) := by
  unfold Gw.startBrokerPub
  refine ((F4.newTx g _ _ _ (fun _ => ?_)).trans (F4.storeByIdB _ _ _)).trans hp
  intro q' id m' name snp' n' hk
  injection hk with _ _ h3
  cases h3

theorem F4.handleBrokerPublish (g : Gw) (dup : Bool) (q : UInt8) (r : Bool) (mid : UInt16) (tp pl : Bytes) :
    F4 g (g.handleBrokerPublish dup q r mid tp pl) := by
  unfold Gw.handleBrokerPublish
  split
  · exact F4.refl g
  · split
    · exact F4.refl g
    · split
      · split
        · exact F4.snSend g _ _
        · split
          · exact F4.fail g _
          · refine F4.startBrokerPub g _ _ _ _ _ _ (.inr trivial) (F4.proceedSN _ _ _ _ ?_)
            split <;> simp
      · split
        · exact F4.fail g _
        · split
          · exact F4.fail g _
          · split
            · rename_i hn; exact (registrationTopicId_ok g _ tp _ hn).1.trans (F4.fail _ _)
            · rename_i newId g' hn
              have hok := registrationTopicId_ok g g' tp _ hn
              refine hok.1.trans (F4.startBrokerPub g' _ _ _ _ _ _ (.inr trivial) (F4.proceedSN_register _ _ _ _ _ (fun _ => ?_)))
              exact hok.2 newId rfl

/-! ### the connect exchange, sleep, disconnect -/

theorem F4.connAuthenticated (g : Gw) (t : Tx) (f : ConnFields) : F4 g (g.connAuthenticated t f) := by
  unfold Gw.connAuthenticated
  split
  · exact (F4.setTx g _ (fun _ => ok4_connect _ _)).trans (F4.snSend _ _ _)
  · exact (F4.setTx g _ (fun _ => ok4_connect _ _)).trans (F4.mqttSend _ _)
theorem F4.connAuth (g : Gw) (t : Tx) (st : ConnSt) (f : ConnFields) (m d : Bytes) : F4 g (g.connAuth t st f m d) := by
  unfold Gw.connAuth
  split
  · exact F4.refl g
  · split
    · split
      · exact (F4.finishTx g _).trans (F4.fail _ _)
      · exact F4.connAuthenticated g _ _
    · unfold Gw.sendConnack
      exact ((F4.snSend g _ _).trans (F4.finishTx _ _)).trans (F4.fail _ _)
theorem F4.connWillTopic (g : Gw) (t : Tx) (st : ConnSt) (f : ConnFields) (q : UInt8) (r : Bool) (tp : Bytes) :
    F4 g (g.connWillTopic t st f q r tp) := by
  unfold Gw.connWillTopic
  split
  · exact F4.refl g
  · split
    · exact (F4.finishTx g _).trans (F4.fail _ _)
    · exact (F4.setTx g _ (fun _ => ok4_connect _ _)).trans (F4.snSend _ _ _)
theorem F4.connWillMsg (g : Gw) (t : Tx) (st : ConnSt) (f : ConnFields) (m : Bytes) : F4 g (g.connWillMsg t st f m) := by
  unfold Gw.connWillMsg
  split
  · exact F4.refl g
  · exact (F4.setTx g _ (fun _ => ok4_connect _ _)).trans (F4.mqttSend _ _)
theorem F4.connConnack (g : Gw) (t : Tx) (st : ConnSt) (rc : UInt8) : F4 g (g.connConnack t st rc) := by
  unfold Gw.connConnack Gw.sendConnack
  split
  · exact F4.refl g
  · split
    · exact ((F4.snSend g _ _).trans (F4.finishTx _ _)).trans (F4.fail _ _)
    · have h0 : F4 g ({ g with st := .active } : Gw) := F4.of_eq rfl rfl rfl rfl rfl
      exact (h0.trans (F4.snSend _ _ _)).trans (F4.finishTx _ _)
theorem F4.cancelOldConnect (g : Gw) : F4 g g.cancelOldConnect := by
  unfold Gw.cancelOldConnect
  split
  · exact F4.finishTx g _
  · exact F4.refl g
theorem F4.startConnect (g : Gw) (f : ConnFields) : F4 g (g.startConnect f) := by
  unfold Gw.startConnect
  have h1 : F4 g (g.newTx (.connect .awaitingAuth f) .connectType (some (g.now + Gen.connectTransactionTimeout))).2 :=
    F4.newTx g _ _ _ (fun _ => ok4_connect _ _)
  refine (h1.trans (F4.setConnectTx _ g.nextTx)).trans ?_
  unfold Gw.startConnectTx
  split
  · exact F4.refl _
  · split
    · exact F4.connAuthenticated _ _ _
    · exact F4.refl _
theorem foldl_snSend_F4 (its : List BufItem) : ∀ g : Gw, F4 g (its.foldl (fun acc it => acc.snSend it.pkt it.tx) g) := by
  induction its with
  | nil => intro g; exact F4.refl g
  | cons x xs ih => intro g; simp only [List.foldl_cons]; exact (F4.snSend g _ _).trans (ih _)
theorem F4.flushBuffer (g : Gw) : F4 g g.flushBuffer := by
  unfold Gw.flushBuffer
  simp only
  have h0 : F4 g ({ g with buffer := [] } : Gw) := F4.of_eq rfl rfl rfl rfl rfl
  exact (h0.trans (foldl_snSend_F4 g.buffer _)).trans (F4.of_eq rfl rfl rfl rfl rfl)
theorem F4.handleConnect (g : Gw) (will clean : Bool) (dur : UInt16) (cid : Bytes) : F4 g (g.handleConnect will clean dur cid) := by
  unfold Gw.handleConnect
  split
  · have h0 : F4 g ({ g.cancelSleepPinger with st := .active } : Gw) := F4.of_eq rfl rfl rfl rfl rfl
    exact (h0.trans (F4.snSend _ _ _)).trans (F4.flushBuffer _)
  · split
    · exact F4.snSend g _ _
    · have h0 : F4 g ({ g with keepAlive := dur, clientId := cid } : Gw) := F4.of_eq rfl rfl rfl rfl rfl
      exact (h0.trans (F4.cancelOldConnect _)).trans (F4.startConnect _ _)
theorem F4.handlePingreq (g : Gw) : F4 g g.handlePingreq := by
  unfold Gw.handlePingreq
  split
  · exact ((((F4.setSt g _).trans (F4.flushBuffer _)).trans (F4.snSend _ _ _)).trans (F4.setSt _ _)).trans (F4.armSleepPinger _ _)
  · exact F4.mqttSend g _
theorem F4.handleSleep (g : Gw) (d : UInt16) : F4 g (g.handleSleep d) := by
  unfold Gw.handleSleep
  have h0 : F4 g ({ g with sleepDur := d } : Gw) := F4.of_eq rfl rfl rfl rfl rfl
  have h1 : F4 g (({ g with sleepDur := d } : Gw).armSleepPinger d) := h0.trans (F4.armSleepPinger _ _)
  have h2 : ∀ x : Gw, F4 x x.clearBufferUnlessAsleep := by
    intro x; unfold Gw.clearBufferUnlessAsleep; split
    · exact F4.clearBuffer x
    · exact F4.refl x
  exact ((h1.trans (h2 _)).trans (F4.snSendNow _ _)).trans (F4.setSt _ _)
theorem F4.handleDisconnect (g : Gw) (d : UInt16) : F4 g (g.handleDisconnect d) := by
  unfold Gw.handleDisconnect Gw.handlePlainDisconnect
  split
  · exact (((F4.mqttSend g _).trans (F4.setSt _ _)).trans (F4.snSend _ _ _)).trans (F4.fail _ _)
  · exact F4.handleSleep g d

/-! ## every run: a TopicID once bound to a name never denotes another name -/

theorem setDup_register {p : Pkt} {id m : UInt16} {name : Bytes} (h : setDup p = .register id m name) : p = .register id m name := by
  cases p <;> simp_all [setDup]

theorem F4.retryExpire (g : Gw) (t : Tx) (ht : t ∈ g.txs) : F4 g (g.retryExpire t) := by
  have keep : ∀ (tm : Option Nat), K g → txOk4 g.regIds ({ t with timer := tm } : Tx).kind := fun _ hK => hK.tx t ht
  unfold Gw.retryExpire
  split
  · rename_i q st data snp n hk0
    split
    · exact F4.setTx g _ (keep none)
    · split
      · exact F4.setTx g _ (keep _)
      · split
        · exact F4.finishTx g _
        · split
          · rename_i p _
            have h1 : F4 g ({ g with buffer := g.buffer.map (fun (b : BufItem) =>
                if b.tx == some t.id && b.pkt == p then { b with pkt := setDup p } else b) } : Gw) := F4.of_eq rfl rfl rfl rfl rfl
            refine (h1.trans (F4.setTx _ _ (fun hK => ?_))).trans (F4.snSend _ _ _)
            intro q' id m name snp' n' hk
            injection hk with e1 e2 e3 e4 _
            injection e3 with e3
            have hp := setDup_register e3
            have : t.kind = .brokerPub q' .awaitingRegack (.sn (.register id m name)) snp' n := by
              rw [hk0, e1, e2, hp, e4]
            exact hK.tx t ht q' id m name snp' n this
          · exact (F4.setTx g _ (fun _ => ok4_bp_mq _ _ _ _ _)).trans (F4.mqttSend _ _)
          · exact F4.finishTx g _
  · exact F4.refl g

theorem F4.txExpire (g : Gw) (t : Tx) (ht : t ∈ g.txs) : F4 g (g.txExpire t) := by
  have keep : ∀ (tm : Option Nat), K g → txOk4 g.regIds ({ t with timer := tm } : Tx).kind := fun _ hK => hK.tx t ht
  unfold Gw.txExpire
  split
  · split
    · exact F4.setTx g _ (keep none)
    · exact (F4.finishTx g _).trans (F4.fail _ _)
  · split
    · exact F4.setTx g _ (keep none)
    · exact F4.finishTx g _
  · split
    · exact F4.setTx g _ (keep none)
    · exact F4.finishTx g _
  · exact F4.retryExpire g t ht

theorem F4.fireDue (g : Gw) (d : Due) : F4 g (g.fireDue d) := by
  unfold Gw.fireDue
  split
  · unfold Gw.fireTx
    split
    · rename_i t ht
      exact (F4.setNow g _).trans (F4.txExpire _ t (getTx_mem' ht))
    · exact F4.setNow g _
  · unfold Gw.firePing
    have h0 : ∀ (x : Gw) (i : Nat), F4 x ({ x with pingers := x.pingers.mapIdx (fun j (p : Pinger) =>
        if j = i then { p with next := p.next + p.period } else p) } : Gw) := fun x i => F4.of_eq rfl rfl rfl rfl rfl
    exact ((F4.setNow g _).trans (h0 _ _)).trans (F4.pingBroker _)
  · exact F4.of_eq rfl rfl rfl rfl rfl

theorem F4.finishSession (g : Gw) : F4 g g.finishSession := by
  unfold Gw.finishSession
  split
  · split
    · exact F4.refl g
    · unfold Gw.shutdownDisconnect Gw.stopTimers Gw.emitEnd
      have h1 : ∀ x : Gw, F4 x (if x.st = .active ∨ x.st = .awake then x.emit (.sn (encode (.disconnect 0))) else x) := by
        intro x; split
        · exact F4.emit x _
        · exact F4.refl x
      have h2 : ∀ x : Gw, F4 x ((x.emit (.ended x.endCls)).emit .mqClose) := fun x => (F4.emit x _).trans (F4.emit _ _)
      refine (((F4.setNow g _).trans (h1 _)).trans (h2 _)).trans (F4.of_tables rfl rfl rfl rfl (fun hK t ht => ?_))
      simp only [List.mem_map] at ht
      obtain ⟨y, hy, rfl⟩ := ht
      exact hK.tx y hy
  · exact F4.refl g

theorem F4.advance : ∀ (fuel : Nat) (g : Gw) (t : Nat), F4 g (advance fuel g t) := by
  intro fuel
  induction fuel with
  | zero => intro g t; exact F4.setNow g _
  | succ n ih =>
    intro g t
    unfold Gw.advance
    split
    · exact (F4.finishSession g).trans (F4.setNow _ _)
    · split
      · exact ((F4.fireDue g _).trans (F4.finishSession _)).trans (ih _ t)
      · exact F4.setNow g _

theorem F4.sample (g : Gw) : F4 g g.sample := by
  unfold Gw.sample Gw.sampleBuf Gw.sampleReg Gw.sampleState
  have e : ∀ (x y : Gw) (o : Out), y.registered = x.registered → y.regIds = x.regIds → y.idseq = x.idseq →
      y.exhausted = x.exhausted → y.txs = x.txs → F4 x (y.emit o) :=
    fun x y o h1 h2 h3 h4 h5 => (F4.of_eq h1 h2 h3 h4 h5).trans (F4.emit y o)
  split <;> split <;> split <;>
    first
    | exact F4.refl g
    | exact (e _ _ _ rfl rfl rfl rfl rfl)
    | exact (e _ _ _ rfl rfl rfl rfl rfl).trans (e _ _ _ rfl rfl rfl rfl rfl)
    | exact ((e _ _ _ rfl rfl rfl rfl rfl).trans (e _ _ _ rfl rfl rfl rfl rfl)).trans (e _ _ _ rfl rfl rfl rfl rfl)

theorem lookupByIdB_mem {g : Gw} {mid : UInt16} {t : Tx} (h : g.lookupByIdB mid = some t) : t ∈ g.txs := by
  unfold lookupByIdB at h
  cases hx : g.byIdB.lookup mid with
  | none => simp [hx] at h
  | some id => simp only [hx, Option.bind_some] at h; exact getTx_mem' h

theorem F4.handleSn (g : Gw) (p : Pkt) : F4 g (g.handleSn p) := by
  unfold Gw.handleSn
  split
  · exact F4.fail g _
  · split
    · exact F4.handleConnect g _ _ _ _
    · split
      · exact F4.connAuth g _ _ _ _ _
      · exact F4.refl g
    · split
      · exact F4.connWillTopic g _ _ _ _ _ _
      · exact F4.refl g
    · split
      · exact F4.connWillMsg g _ _ _ _
      · exact F4.refl g
    · exact F4.handleRegister g _ _
    · exact F4.handleClientPublish g _ _ _ _ _ _ _
    · exact F4.mqttSend g _
    · exact F4.handleSubscribe g _ _ _ _ _ _
    · exact F4.handleUnsubscribe g _ _ _ _
    · exact F4.handlePingreq g
    · exact F4.handleDisconnect g _
    · split
      · rename_i t hl
        split
        · rename_i q st data snp n hk
          exact F4.bpRegack g t q st data snp _ n (lookupByIdB_mem hl) hk
        · exact F4.refl g
      · exact F4.refl g
    · split
      · split
        · split
          · exact F4.refl g
          · split
            · exact F4.finishTx g _
            · exact F4.proceedMQ g _ _ _
        · exact F4.refl g
      · exact F4.refl g
    · split
      · split
        · split
          · exact F4.refl g
          · exact F4.proceedMQ g _ _ _
        · exact F4.refl g
      · exact F4.refl g
    · split
      · split
        · split
          · exact F4.refl g
          · exact F4.proceedMQ g _ _ _
        · exact F4.refl g
      · exact F4.refl g
    · exact F4.fail g _

theorem F4.handleMq (g : Gw) (p : MqPkt) : F4 g (g.handleMq p) := by
  unfold Gw.handleMq
  split
  · split
    · exact F4.connConnack g _ _ _
    · exact F4.refl g
  · split
    · split
      · exact (F4.finishTx g _).trans (F4.snSend _ _ _)
      · exact F4.refl g
    · exact F4.refl g
  · exact F4.snSend g _ _
  · exact F4.snSend g _ _
  · split
    · split
      · split
        · split
          · exact (F4.finishTx g _).trans (F4.snSend _ _ _)
          · exact (F4.finishTx g _).trans (F4.snSend _ _ _)
        · exact (F4.finishTx g _).trans (F4.fail _ _)
      · exact F4.refl g
    · exact F4.refl g
  · exact F4.snSend g _ _
  · split
    · exact F4.of_eq rfl rfl rfl rfl rfl
    · split
      · exact F4.refl g
      · exact F4.snSend g _ _
  · exact F4.handleBrokerPublish g _ _ _ _ _ _
  · split
    · split
      · split
        · exact F4.refl g
        · exact F4.proceedSN g _ _ _ (by decide)
      · exact F4.refl g
    · exact F4.refl g
  · exact F4.fail g _

theorem F4.handleEvent (g : Gw) (ev : Event) : F4 g (g.handleEvent ev) := by
  unfold Gw.handleEvent
  split
  · split
    · exact (F4.handleSn g _).trans (F4.keepBrokerAlive _)
    · exact F4.fail g _
  · exact F4.handleMq g _
  · exact F4.fail g _
  · split <;> exact F4.fail g _
  · exact F4.fail g _
  · exact F4.refl g

theorem F4.step (g : Gw) (t : Nat) (ev : Event) : F4 g (g.step t ev) := by
  unfold Gw.step Gw.stepCore Gw.deliver
  have q1 := F4.advance 100000 g t
  split
  · exact (q1.trans (F4.finishSession _)).trans (F4.sample _)
  · exact ((((q1.trans (F4.handleEvent _ ev)).trans (F4.advance 100000 _ t)).trans (F4.finishSession _))).trans (F4.sample _)

theorem F4.run (g : Gw) (evs : List (Nat × Event)) : F4 g (g.run evs) := by
  unfold Gw.run
  induction evs generalizing g with
  | nil => exact F4.refl g
  | cons e rest ih => simp only [List.foldl_cons]; exact (F4.step g e.1 e.2).trans (ih _)

theorem K_init (cfg : Cfg) (a b : UInt16) (h : a.toNat ≤ b.toNat) : K (Gw.init cfg a b) := by
  refine ⟨?_, ?_, ?_, ?_, .inr (seqOk_new a b h), ?_⟩
  · intro i n hl; simp [Gw.init] at hl
  · intro n i hl; simp [Gw.init] at hl
  · intro n i hl; simp [Gw.init] at hl
  · intro n n' i hl; simp [Gw.init] at hl
  · intro t ht; simp [Gw.init] at ht

/-- **C04 (ALL runs).** Within one session — whatever the client and the broker send, in any order and
    with any timing: REGISTERs, SUBSCRIBEs, REGACKs for the gateway's own registrations (also stray or
    repeated ones), broker messages on new topics, exhaustion of the ID range, everything else — a
    TopicID that denotes a name in the gateway's registry at some point denotes the same name at every
    later point. -/
theorem c04_never_reassigned (cfg : Cfg) (a b : UInt16) (hab : a.toNat ≤ b.toNat) (evs1 evs2 : List (Nat × Event))
    (i : UInt16) (n : Bytes) (h : ((Gw.init cfg a b).run evs1).registered.lookup i = some n) :
    ((Gw.init cfg a b).run (evs1 ++ evs2)).registered.lookup i = some n := by
  have hK1 := (F4.run (Gw.init cfg a b) evs1 (K_init cfg a b hab)).1
  have e : (Gw.init cfg a b).run (evs1 ++ evs2) = ((Gw.init cfg a b).run evs1).run evs2 := by
    unfold Gw.run; rw [List.foldl_append]
  rw [e]
  exact (F4.run _ evs2 hK1).2 i n h

end Bisquitt.Gw
