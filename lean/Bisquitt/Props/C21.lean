/-
  C21 — Encoding then decoding gives back the same packet.

  `Spec.Legal` is the explicit, decidable reading of "field values in their legal
  ranges".  For every legal packet of each of the 28 types (payloads and names of any
  length up to MaxPayloadLength, IDs over the full uint16 range — no enumeration):
  * `c21_roundtrip`   : decode (encode p) = ok p (and the header the constructor built),
  * `c21_lengthField` : the length field equals the datagram size,
  * `c21_form`        : the 1-byte length form is used iff the size is ≤ 255,
  * `c21_short_*`     : the 2-byte short-topic coding is a bijection.
-/
import Bisquitt.Lemmas.WireRoundtrip3

namespace Bisquitt
open Gen Spec

theorem setVar_setVar (h : Header) (a b : UInt16) :
    (h.setVarPartLength a).setVarPartLength b = h.setVarPartLength b := by
  unfold Header.setVarPartLength; split <;> split <;> rfl

theorem computeLength_idem (h : Header) (p : Pkt) :
    computeLength (computeLength h p) p = computeLength h p := by
  cases p <;> simp only [computeLength, setVar_setVar] <;> (try split) <;> simp only [setVar_setVar]

theorem encode_eq (p : Pkt) : encode p = (newHeader p).packToBuffer ++ packBody (newHeader p) p := by
  unfold encode pack newHeader
  simp only [computeLength_idem]

/-- **C21 (round trip).** -/
theorem c21_roundtrip {p : Pkt} (h : Legal p = true) : decode (encode p) = .ok (newHeader p, p) := by
  have hb := legal_len_bound h
  have hbody := unpackBody_packBody h
  rw [encode_eq]
  generalize packBody (newHeader p) p = body at hbody ⊢
  rw [newHeader_eq h]
  unfold decode
  rw [hdrFor_unpack _ _ hb]
  simp only [Res.ok_bind]
  have hl : (hdrFor p.typeCode (varLen p)).headerLength.toNat ≤
      ((hdrFor p.typeCode (varLen p)).packToBuffer ++ body).length := by
    unfold hdrFor; split <;> simp [Header.headerLength, Header.packToBuffer, enc16] <;> (gen_norm; omega)
  rw [sliceFrom_ok hl, hdrFor_drop, hdrFor_type]
  simp only [Res.ok_bind, hbody, Res.pure_eq]

/-- **C21 (length field).** -/
theorem c21_lengthField {p : Pkt} (h : Legal p = true) :
    lengthField (encode p) = (encode p).length := by
  rw [encode_eq]
  have hlen := packBody_length h
  generalize packBody (newHeader p) p = body at hlen ⊢
  rw [newHeader_eq h]
  exact (hdrFor_lengthField _ _ (legal_len_bound h) body hlen).1

/-- **C21 (length form).** -/
theorem c21_form {p : Pkt} (h : Legal p = true) :
    usesShortForm (encode p) = decide ((encode p).length ≤ 255) := by
  rw [encode_eq]
  have hlen := packBody_length h
  generalize packBody (newHeader p) p = body at hlen ⊢
  rw [newHeader_eq h]
  exact (hdrFor_lengthField _ _ (legal_len_bound h) body hlen).2

/-- the datagram of a legal packet fits the transport maximum -/
theorem c21_size {p : Pkt} (h : Legal p = true) : (encode p).length ≤ Gen.MaxPacketLen := by
  rw [encode_eq]
  have hlen := packBody_length h
  have hv : varLen p ≤ 7168 + 260 := by
    cases p <;> simp [Legal, varLen, maxPayload, MaxPayloadLength] at * <;> (try split) <;> omega
  generalize packBody (newHeader p) p = body at hlen ⊢
  rw [newHeader_eq h]
  unfold hdrFor
  split <;> simp [Header.packToBuffer, enc16, hlen, MaxPacketLen] <;> omega

/-- **C21 (short topics), names → IDs → names.** -/
theorem c21_short_name (n : Bytes) (h : n.length = 2) : decodeShortTopic (encodeShortTopic n) = n := by
  match n, h with
  | [a, b], _ =>
    have e : encodeShortTopic [a, b] = mk16 a b := by
      apply UInt16.toNat_inj.mp
      have := a.toNat_lt; have := b.toNat_lt
      simp [encodeShortTopic, mk16, UInt16.toNat_or, UInt16.toNat_shiftLeft, Nat.shiftLeft_eq]
      rw [Nat.mod_eq_of_lt (by omega), Nat.mod_eq_of_lt (by omega)]
      have : a.toNat * 256 = a.toNat <<< 8 := by simp [Nat.shiftLeft_eq]
      rw [this, ← Nat.shiftLeft_add_eq_or_of_lt (by omega)]
    simp [decodeShortTopic, enc16, e, hi8_mk16, lo8_mk16]

/-- **C21 (short topics), IDs → names → IDs** (for every 16-bit ID, algebraically). -/
theorem c21_short_id (i : UInt16) : encodeShortTopic (decodeShortTopic i) = i := by
  have e : encodeShortTopic [hi8 i, lo8 i] = mk16 (hi8 i) (lo8 i) := by
    apply UInt16.toNat_inj.mp
    have := (hi8 i).toNat_lt; have := (lo8 i).toNat_lt
    simp [encodeShortTopic, mk16, UInt16.toNat_or, UInt16.toNat_shiftLeft, Nat.shiftLeft_eq]
    rw [Nat.mod_eq_of_lt (by omega), Nat.mod_eq_of_lt (by omega)]
    have : (hi8 i).toNat * 256 = (hi8 i).toNat <<< 8 := by simp [Nat.shiftLeft_eq]
    rw [this, ← Nat.shiftLeft_add_eq_or_of_lt (by omega)]
  simp [decodeShortTopic, enc16, e, mk16_hi_lo]

theorem c21_short_len (i : UInt16) : (decodeShortTopic i).length = 2 := rfl

/-- non-vacuity: non-trivial packets are `Legal` (a 300-byte payload crosses the header-form
    boundary; a QoS-3 short-topic PUBLISH; a string SUBSCRIBE). -/
example (d : Bytes) (h : d.length = 300) : Legal (.publish true 2 true 1 0xFFFE 0xFFFF d) = true := by
  simp [Legal, maxPayload, h]; decide
example : Legal (.subscribe false 1 0 7 0 [0x61, 0x2f, 0x23]) = true := by decide
example : Legal (.connect true true 1 60 [0x63]) = true := by decide

end Bisquitt
