/-
  C26 — Bisquitt client and gateway interoperate for any API usage.

  The full property quantifies over all scripts of API calls run by the two implementations
  together.  It is stated over the composed model (`Model/System.lean`: client model ‖ lossless
  link ‖ gateway model ‖ conforming broker) and the specification `Spec/System.lean`; the composed
  statement for ALL scripts (`C26Full` below) is NOT proved — what is proved, for all states of the
  two models, are the agreements between the two sides on which the exchanges rest (partial):

  * `c26_registration_id_stable`, `c26_partial_burst_same_id`: a topic name the gateway is
    registering with the client keeps its TopicID — every REGISTER of a burst of messages on a not
    yet registered topic carries the same ID (repaired defect);
  * `c26_client_register_new / _repeated / _conflict`: the client accepts a REGISTER of a new name
    and of a (name, ID) pair it has already, and refuses only a name it knows under another ID — so
    it accepts every REGISTER of such a burst (repaired defect);
  * `c26_subscribe_keeps_id`: a SUBSCRIBE to a plain name that is registered already is answered
    under that name's TopicID, no second ID is created (repaired defect);
  * `c26_register_gateway(_known)` with `c26_register_client`: after the REGISTER exchange the client
    knows the name under exactly the TopicID that denotes that name in the gateway;
  * `c26_subscribe_client`: the accepted SUBACK installs the handler and the name ↔ ID binding;
  * the topic tables of the two sides AGREE (`Agree`: every name the client has a TopicID for is what
    that ID denotes in the gateway): kept by each exchange (`c26_agree_register_new/_known`,
    `c26_agree_gateway_register`, `c26_agree_suback`), and — `reach_inv`,
    `c26_partial_publish_after_any_history` — by ANY history of REGISTER / SUBSCRIBE exchanges (the
    model's handlers are shown to be such steps: `step_handle*`, `step_client_*`) from the initial
    states; consequence (`c26_agree_publish`, with C01): a Publish on a registered name reaches the
    broker under exactly the name the application gave; `Inv2` / `reach2_inv` /
    `c26_partial_publish_after_any_history2` extend this to histories that also contain the
    gateway's OWN registrations for broker messages (choose the TopicID — `regIds` —, the client
    accepts the REGISTER, the gateway binds the ID at the REGACK, in any interleaving with everything
    else: `step2_handleBrokerPublish_new`, `step2_client_register(_repeated)`, `step2_bpRegack`), and
    `c26_partial_ids_mean_one_name`: after any such history no TopicID the client holds for a name is
    bound to another name in the gateway;
  * `c26_sleep_from_awake_silent` with `c11_wake`: after PINGRESP the gateway takes the client for
    asleep again, and the client's next Sleep() from `awake` sends nothing — the two sides agree on
    the state without a DISCONNECT;
  * `c26_spec_*`: sanity of the specification (every well-formed call is expected to succeed;
    a routed message with a matching subscription is expected at a handler), and
    `c26_spec_agrees_with_broker`: the specification expects a delivery exactly when the conforming
    broker sends the session a PUBLISH, with the same topic, payload and QoS.

  The composed model is executed beside the real client + real gateway + broker on generated
  scripts by the system suite; the specification is evaluated on the implementation's results.
-/
import Bisquitt.Props.C11
import Bisquitt.Props.C01
import Bisquitt.Props.C02
import Bisquitt.Props.C04
import Bisquitt.Props.C33
import Bisquitt.Spec.System

namespace Bisquitt.Gw
open Bisquitt Gw

/-- **C26.** The TopicID chosen for registering a topic name is kept for that name. -/
theorem c26_registration_id_stable (g g' : Gw) (topic : Bytes) (id : UInt16)
    (h : g.registrationTopicId topic = (some id, g')) : g'.registrationTopicId topic = (some id, g') := by
  unfold registrationTopicId at h
  split at h
  · rename_i id' hl
    simp only [Prod.mk.injEq, Option.some.injEq] at h
    obtain ⟨rfl, rfl⟩ := h
    unfold registrationTopicId
    simp [hl]
  · split at h
    · rename_i id' g'' hn
      simp only [Prod.mk.injEq, Option.some.injEq] at h
      obtain ⟨rfl, rfl⟩ := h
      unfold registrationTopicId
      simp [storeRegId]
    · simp at h

/-- what topic-ID allocation depends on -/
structure TopicView where
  regIds : List (Bytes × UInt16)
  registered : List (UInt16 × Bytes)
  idseq : IdSeq
  exhausted : Bool
  clientId : Bytes
  predef : Predef

def Gw.topicView (g : Gw) : TopicView :=
  { regIds := g.regIds, registered := g.registered, idseq := g.idseq, exhausted := g.exhausted,
    clientId := g.clientId, predef := g.cfg.predef }

theorem runFinally_topicView (g : Gw) (t : Tx) : (g.runFinally t).topicView = g.topicView := by
  unfold runFinally; split <;> (try split) <;> rfl

theorem finishTx_topicView (g : Gw) (id : Nat) : (g.finishTx id).topicView = g.topicView := by
  unfold finishTx
  split
  · split
    · rfl
    · rw [runFinally_topicView]; rfl
  · rfl

theorem snSend_topicView (g : Gw) (p : Pkt) (tx : Option Nat) : (g.snSend p tx).topicView = g.topicView := by
  unfold snSend; split <;> rfl

theorem proceedSN_topicView (g : Gw) (id : Nat) (st : BpSt) (p : Pkt) : (g.proceedSN id st p).topicView = g.topicView := by
  unfold proceedSN
  split
  · split
    · unfold finishIfDone
      split
      · rw [finishTx_topicView, snSend_topicView]; unfold armBp; split <;> rfl
      · rw [snSend_topicView]; unfold armBp; split <;> rfl
    · rfl
  · rfl

theorem startBrokerPub_topicView (g : Gw) (qos : UInt8) (msgId : UInt16) (st0 : BpSt) (snp : Option Pkt) (st : BpSt)
    (first : Pkt) : (g.startBrokerPub qos msgId st0 snp st first).topicView = g.topicView := by
  unfold startBrokerPub
  rw [proceedSN_topicView]
  rfl

theorem registrationTopicId_congr (g h : Gw) (topic : Bytes) (e : g.topicView = h.topicView) :
    (g.registrationTopicId topic).1 = (h.registrationTopicId topic).1 := by
  have e1 : g.regIds = h.regIds := congrArg TopicView.regIds e
  have e2 : g.idseq = h.idseq := congrArg TopicView.idseq e
  have e3 : g.exhausted = h.exhausted := congrArg TopicView.exhausted e
  have e4 : g.clientId = h.clientId := congrArg TopicView.clientId e
  have e5 : g.cfg.predef = h.cfg.predef := congrArg TopicView.predef e
  unfold registrationTopicId
  rw [e1]
  split
  · rfl
  · -- a fresh ID: the allocation reads only the fields of the view
    have hn : g.newTopicId.1 = h.newTopicId.1 := by
      have hl : ∀ fuel id s, (g.newTopicIdLoop fuel id s) = (h.newTopicIdLoop fuel id s) := by
        intro fuel
        induction fuel with
        | zero => intros; rfl
        | succ n ih =>
          intro id s
          unfold newTopicIdLoop
          have : g.predefName id = h.predefName id := by unfold predefName; rw [e4, e5]
          rw [this]
          split
          · rfl
          · simp only [ih]
      unfold newTopicId
      rw [e3, e2]
      split
      · rfl
      · simp only [hl]
        split
        · rfl
        · split <;> rfl
    cases hg : g.newTopicId with
    | mk r1 g1 =>
      cases hh : h.newTopicId with
      | mk r2 h1 =>
        rw [hg, hh] at hn
        simp only at hn
        subst hn
        cases r1 <;> rfl

/-- **C26 (partial: QoS 1/2, two messages).** A second broker message for a topic whose REGISTER is
    still waiting for its REGACK is registered under the same TopicID. -/
theorem c26_partial_burst_same_id (g g' : Gw) (q : UInt8) (msgId newId : UInt16) (snp : Option Pkt) (first : Pkt)
    (topic : Bytes) (ha : g.registrationTopicId topic = (some newId, g')) :
    ((g'.startBrokerPub q msgId .awaitingRegack snp .awaitingRegack first).registrationTopicId topic).1 = some newId := by
  rw [registrationTopicId_congr _ g' topic (startBrokerPub_topicView _ _ _ _ _ _ _)]
  rw [c26_registration_id_stable g g' topic newId ha]

/-- non-vacuity: a fresh session registers "a" under ID 1, again under ID 1, and "b" under ID 2 -/
def exampleGw : Gw :=
  Gw.init { auth := false, user := none, pass := none, retryDelay := 500, retryCount := 3, predef := [] } 1 0xFFFE

example : (exampleGw.registrationTopicId [0x61]).1 = some 1 ∧
    ((exampleGw.registrationTopicId [0x61]).2.registrationTopicId [0x61]).1 = some 1 ∧
    ((exampleGw.registrationTopicId [0x61]).2.registrationTopicId [0x62]).1 = some 2 := by decide

/-- **C26.** SUBSCRIBE to a plain topic name that is registered already: answered under that ID,
    no new registration. -/
theorem c26_subscribe_keeps_id (g : Gw) (dup : Bool) (qos : UInt8) (mid tid id : UInt16) (name : Bytes)
    (hq : ¬ qos > 2) (hw : hasWildcard name = false) (hr : g.findRegisteredId name = some id) :
    g.handleSubscribe dup qos Gen.TIT_STRING mid tid name = g.forwardSubscribe dup qos mid name id := by
  unfold handleSubscribe
  simp [hq, hw, hr]

end Bisquitt.Gw

namespace Bisquitt.Cl
open Bisquitt Cl

/-- **C26.** The client accepts a REGISTER of a name it does not know yet, and learns it. -/
theorem c26_client_register_new (c : Cl) (tid mid : UInt16) (name : Bytes) (h : c.registered.lookup name = none) :
    c.handlePacket (.register tid mid name) =
      ({ c with registered := (name, tid) :: c.registered } : Cl).sendOrFail (.regack tid mid Gen.RC_ACCEPTED) := by
  unfold handlePacket
  simp [h]

/-- **C26.** A REGISTER repeating a registration the client has already is acknowledged again. -/
theorem c26_client_register_repeated (c : Cl) (tid mid : UInt16) (name : Bytes) (h : c.registered.lookup name = some tid) :
    c.handlePacket (.register tid mid name) =
      ({ c with registered := (name, tid) :: c.registered } : Cl).sendOrFail (.regack tid mid Gen.RC_ACCEPTED) := by
  unfold handlePacket
  simp [h]

/-- **C26.** Only a name known under another TopicID is refused; the table is left alone. -/
theorem c26_client_register_conflict (c : Cl) (tid tid' mid : UInt16) (name : Bytes)
    (h : c.registered.lookup name = some tid') (hne : tid' ≠ tid) :
    c.handlePacket (.register tid mid name) = c.sendOrFail (.regack tid mid Gen.RC_INVALID_TOPIC_ID) := by
  unfold handlePacket
  simp [h, hne]

theorem notifyState_outs_st (d : Cl) (s : CState) : (d.notifyState s).outs = d.outs ∧ (d.notifyState s).st = d.st := by
  unfold notifyState; split <;> (try split) <;> exact ⟨rfl, rfl⟩

theorem finishTx_outs_st (d : Cl) (id : Nat) (e : Err) : (d.finishTx id e).outs = d.outs ∧ (d.finishTx id e).st = d.st := by
  unfold finishTx
  split
  · split
    · exact ⟨rfl, rfl⟩
    · unfold runFinally; split <;> (try split) <;> exact ⟨rfl, rfl⟩
  · exact ⟨rfl, rfl⟩

/-- a state change of the client sends nothing by itself -/
theorem setState_outs_st (c : Cl) (s : CState) : (c.setState s).outs = c.outs ∧ (c.setState s).st = s := by
  unfold setState
  split
  · rename_i h; exact ⟨rfl, h⟩
  · simp only
    split
    · split
      · split
        · rw [(finishTx_outs_st _ _ _).1, (finishTx_outs_st _ _ _).2, (notifyState_outs_st _ _).1, (notifyState_outs_st _ _).2]
          exact ⟨rfl, rfl⟩
        · rw [(notifyState_outs_st _ _).1, (notifyState_outs_st _ _).2]; exact ⟨rfl, rfl⟩
      · rw [(notifyState_outs_st _ _).1, (notifyState_outs_st _ _).2]; exact ⟨rfl, rfl⟩
    · rw [(notifyState_outs_st _ _).1, (notifyState_outs_st _ _).2]; exact ⟨rfl, rfl⟩

/-- **C26.** `Sleep()` from the `awake` state sends nothing — no DISCONNECT —: the client just falls
    asleep again (the gateway took it for asleep right after its PINGRESP, `c11_wake`). -/
theorem c26_sleep_from_awake_silent (c : Cl) (call : String) (dur : Nat) (h : c.st = .awake) :
    (c.apiSleep call dur).outs = c.outs ∧ (c.apiSleep call dur).st = .asleep := by
  unfold apiSleep
  simp only [newTx, store, h]
  have h1 : ¬ (CState.awake = CState.active) := by decide
  simp only [h1, if_false, if_true]
  unfold startSleep
  simp only
  split
  · split
    · simp only [setTx]
      rw [(setState_outs_st _ _).1, (setState_outs_st _ _).2]; exact ⟨rfl, rfl⟩
    · rw [(setState_outs_st _ _).1, (setState_outs_st _ _).2]; exact ⟨rfl, rfl⟩
  · rw [(setState_outs_st _ _).1, (setState_outs_st _ _).2]; exact ⟨rfl, rfl⟩

end Bisquitt.Cl

namespace Bisquitt.Sys
open Bisquitt

/-- observable results of a run of the composed model -/
def Sys.rets (s : Sys) : List (String × Cl.Err) :=
  s.obs.reverse.filterMap fun o => match o with | .ret c e => some (c, e) | _ => none

def Sys.delivered (s : Sys) (topic payload : Bytes) : Bool :=
  s.obs.any fun o => match o with | .handler _ t p _ => t == topic && p == payload | _ => false

/-- **C26 at full strength, over the composed model — NOT proved** (and false of the unchanged code
    for the recorded finding `message-not-delivered/long-sleep/new-topic`): every call returns what
    the specification expects, the broker has received exactly the expected publishes and holds the
    expected subscriptions, and every expected delivery has reached a handler. The system suite
    evaluates exactly this on the implementation's results and on the composed model, script by script. -/
def C26Full : Prop :=
  ∀ (ccfg : Cl.Cfg) (gcfg : Gw.Cfg) (ops : List Sys.Op),
    let s := Sys.run (Sys.init ccfg gcfg) ops
    let a := expect ccfg.cid ccfg.predef gcfg.retryDelay gcfg.retryCount ops
    s.rets = a.exp.rets ∧ s.br.recv.reverse = a.exp.recv ∧
    (∀ d ∈ a.exp.deliveries, s.delivered d.topic d.payload = true)

/-- **C26 (specification).** A message routed to a live session with a matching subscription is
    expected at a handler of one of the matching subscriptions, under its own topic and payload. -/
theorem c26_spec_routed_expected (a : Abs) (topic payload : Bytes) (qos : UInt8) (ctx : String)
    (hl : a.live = true) (hm : (a.subs.filter fun s => Broker.filterMatches s.1 topic) ≠ []) :
    ∃ d, (a.routed topic payload qos ctx).exp.deliveries = a.exp.deliveries ++ [d] ∧
      d.topic = topic ∧ d.payload = payload ∧
      d.labels = (a.subs.filter fun s => Broker.filterMatches s.1 topic).map (·.2.2) := by
  unfold Abs.routed
  simp only [hl, Bool.not_true, Bool.false_eq_true, if_false]
  have : (a.subs.filter fun s => Broker.filterMatches s.1 topic).isEmpty = false := by
    cases h : (a.subs.filter fun s => Broker.filterMatches s.1 topic) with
    | nil => exact absurd h hm
    | cons _ _ => rfl
  simp only [this, Bool.false_eq_true, if_false]
  exact ⟨_, rfl, rfl, rfl, rfl⟩

/-- **C26 (specification).** No subscription matches, or no session: nothing is expected. -/
theorem c26_spec_unrouted (a : Abs) (topic payload : Bytes) (qos : UInt8) (ctx : String)
    (h : a.live = false ∨ (a.subs.filter fun s => Broker.filterMatches s.1 topic) = []) :
    (a.routed topic payload qos ctx).exp = a.exp := by
  unfold Abs.routed
  rcases h with h | h
  · simp [h]
  · simp [h]

/-- **C26 (specification).** The calls that need no topic knowledge are expected to succeed, whatever
    came before. -/
theorem c26_spec_calls_ok (a : Abs) (c : String) (n : Bytes) (q : UInt8) (d : Nat) :
    (a.op (.api c .connect)).exp.rets = a.exp.rets ++ [(c, .ok)] ∧
    (a.op (.api c (.register n))).exp.rets = a.exp.rets ++ [(c, .ok)] ∧
    (a.op (.api c (.subscribe n q))).exp.rets = a.exp.rets ++ [(c, .ok)] ∧
    (a.op (.api c (.unsubscribe n))).exp.rets = a.exp.rets ++ [(c, .ok)] ∧
    (a.op (.api c .ping)).exp.rets = a.exp.rets ++ [(c, .ok)] ∧
    (a.op (.api c (.sleep d))).exp.rets = a.exp.rets ++ [(c, .ok)] ∧
    (a.op (.api c .disconnect)).exp.rets = a.exp.rets ++ [(c, .ok)] := by
  refine ⟨rfl, rfl, rfl, rfl, rfl, rfl, rfl⟩

/-- non-vacuity: a concrete specification state with a matching subscription -/
def exampleAbs : Abs :=
  { cid := [0x63], predef := [], rd := 500, rc := 3, live := true,
    subs := [([0x61, 0x2F, 0x23], 1, [0x61, 0x2F, 0x23])] }

example : exampleAbs.live = true ∧ (exampleAbs.subs.filter fun s => Broker.filterMatches s.1 [0x61, 0x2F, 0x6E]) ≠ [] := by
  decide

theorem matching_of_table (a : Abs) (b : Broker) (h : b.subs = a.subsTable) (topic : Bytes) :
    b.matching topic = (a.subs.filter fun s => Broker.filterMatches s.1 topic).map fun s => (s.1, s.2.1) := by
  unfold Broker.matching
  rw [h]
  unfold Abs.subsTable
  rw [List.filter_map]
  rfl

theorem foldl_max_map (l : List (Bytes × UInt8 × Bytes)) (z : UInt8) :
    (l.map fun s => (s.1, s.2.1)).foldl (fun a (s : Bytes × UInt8) => max a s.2) z = l.foldl (fun acc s => max acc s.2.1) z := by
  induction l generalizing z with
  | nil => rfl
  | cons x xs ih => simp only [List.map_cons, List.foldl_cons]; exact ih _

/-- **C26 (specification vs. broker).** When the broker's subscription table is the one the
    specification tracks, the specification expects a delivery exactly when the broker sends the
    session a PUBLISH, for the same topic and payload and at the same QoS. -/
theorem c26_spec_agrees_with_broker (a : Abs) (b : Broker) (h : b.subs = a.subsTable) (hl : a.live = true)
    (topic payload : Bytes) (qos : UInt8) (ctx : String) :
    ((b.route topic payload qos).2 = [] ∧ (a.routed topic payload qos ctx).exp = a.exp) ∨
    (∃ mid d, (b.route topic payload qos).2 = [.publish false d.qos false mid topic payload] ∧
      (a.routed topic payload qos ctx).exp.deliveries = a.exp.deliveries ++ [d] ∧ d.topic = topic ∧ d.payload = payload) := by
  unfold Broker.route Abs.routed
  simp only [hl, Bool.not_true, Bool.false_eq_true, if_false]
  rw [matching_of_table a b h]
  cases hm : (a.subs.filter fun s => Broker.filterMatches s.1 topic) with
  | nil => left; simp
  | cons x xs =>
    right
    simp only [List.map_cons, List.isEmpty_cons, Bool.false_eq_true, if_false]
    have hf := foldl_max_map (x :: xs) 0
    simp only [List.map_cons] at hf
    rw [hf]
    exact ⟨_, _, rfl, rfl, rfl, rfl⟩

end Bisquitt.Sys

/-! ## the REGISTER exchange: both sides end up with the same name ↔ ID binding -/

namespace Bisquitt.Gw
open Bisquitt Gw

/-- **C26 (REGISTER exchange, gateway side).** A REGISTER of a new plain name is acknowledged with a
    TopicID that from then on denotes exactly that name in the gateway. -/
theorem c26_register_gateway (g g' : Gw) (mid id : UInt16) (name : Bytes) (hw : hasWildcard name = false)
    (hn : g.findRegisteredId name = none) (ha : g.newTopicId = (some id, g')) :
    g.handleRegister mid name = (g'.storeRegistered id name).snSend (.regack id mid Gen.RC_ACCEPTED) ∧
    (g.handleRegister mid name).registered.lookup id = some name := by
  have h1 : g.handleRegister mid name = (g'.storeRegistered id name).snSend (.regack id mid Gen.RC_ACCEPTED) := by
    unfold handleRegister
    simp [hw, hn, ha]
  refine ⟨h1, ?_⟩
  rw [h1]
  unfold snSend storeRegistered
  split
  · simp
  · simp [emit]

/-- … and of a name registered already with the ID it has. -/
theorem c26_register_gateway_known (g : Gw) (mid id : UInt16) (name : Bytes) (hw : hasWildcard name = false)
    (hn : g.findRegisteredId name = some id) :
    g.handleRegister mid name = g.snSend (.regack id mid Gen.RC_ACCEPTED) := by
  unfold handleRegister
  simp [hw, hn]

end Bisquitt.Gw

namespace Bisquitt.Cl
open Bisquitt Cl

/-- **C26 (REGISTER exchange, client side).** The accepted REGACK of its REGISTER makes the client
    know the name under the gateway's TopicID, and ends the exchange successfully. -/
theorem c26_register_client (c : Cl) (t : Tx) (id mid : UInt16) (name : Bytes)
    (hl : c.lookupById mid = some t) (hk : t.kind = .register name) :
    c.handlePacket (.regack id mid Gen.RC_ACCEPTED) =
      ({ c with registered := (name, id) :: c.registered } : Cl).finishTx t.id .ok ∧
    (c.handlePacket (.regack id mid Gen.RC_ACCEPTED)).registered.lookup name = some id := by
  have h1 : c.handlePacket (.regack id mid Gen.RC_ACCEPTED) =
      ({ c with registered := (name, id) :: c.registered } : Cl).finishTx t.id .ok := by
    unfold handlePacket
    simp [hl, hk]
  refine ⟨h1, ?_⟩
  rw [h1]
  have : ∀ (d : Cl) (i : Nat) (e : Err), (d.finishTx i e).registered = d.registered := by
    intro d i e
    unfold finishTx
    split
    · split
      · rfl
      · unfold runFinally; split <;> (try split) <;> rfl
    · rfl
  rw [this]
  simp

end Bisquitt.Cl

/-! ## the SUBSCRIBE exchange -/

namespace Bisquitt.Cl
open Bisquitt Cl

theorem finishTx_tables (d : Cl) (i : Nat) (e : Err) :
    (d.finishTx i e).registered = d.registered ∧ (d.finishTx i e).handlers = d.handlers := by
  unfold finishTx
  split
  · split
    · exact ⟨rfl, rfl⟩
    · unfold runFinally; split <;> (try split) <;> exact ⟨rfl, rfl⟩
  · exact ⟨rfl, rfl⟩

/-- **C26 (SUBSCRIBE exchange, client side).** The accepted SUBACK of a subscription to a plain
    name installs the handler for that name and, when the gateway assigned a TopicID (C03:
    `c03_suback`, the ID it registered the name under — `c26_subscribe_keeps_id`), makes the
    client know the name under that ID. -/
theorem c26_subscribe_client (c : Cl) (t : Tx) (label name : Bytes) (fl : UInt8) (tid mid stid : UInt16) (d : Bool) (q : UInt8)
    (hl : c.lookupById mid = some t) (hk : t.kind = .subscribe label)
    (hd : t.data = some (.subscribe d q Gen.TIT_STRING mid stid name)) (hz : tid ≠ 0) :
    (c.handlePacket (.suback fl tid mid Gen.RC_ACCEPTED)).registered.lookup name = some tid ∧
    (c.handlePacket (.suback fl tid mid Gen.RC_ACCEPTED)).handlers.lookup name = some label := by
  unfold handlePacket
  simp only [hl, hk, hd]
  simp only [ne_eq, not_true_eq_false, if_false, if_true, hz, not_false_eq_true]
  rw [(finishTx_tables _ _ _).1, (finishTx_tables _ _ _).2]
  simp

end Bisquitt.Cl

/-! ## the two topic tables agree -/

namespace Bisquitt.Sys
open Bisquitt

/-- the two topic tables agree: every name the client has a TopicID for is what that ID denotes
    in the gateway -/
def Agree (c : Cl.Cl) (g : Gw.Gw) : Prop :=
  ∀ name id, c.registered.lookup name = some id → g.registered.lookup id = some name

theorem agree_init (ccfg : Cl.Cfg) (g : Gw.Gw) : Agree ({ cfg := ccfg } : Cl.Cl) g := by
  intro name id h
  simp at h

/-- the client learns a binding the gateway already has -/
theorem agree_client_learns (c : Cl.Cl) (g : Gw.Gw) (name : Bytes) (id : UInt16) (h : Agree c g)
    (hg : g.registered.lookup id = some name) :
    Agree ({ c with registered := (name, id) :: c.registered } : Cl.Cl) g := by
  intro n i hl
  simp only [List.lookup_cons] at hl
  by_cases hn : n == name
  · simp only [hn, Option.some.injEq] at hl
    subst hl
    rw [eq_of_beq hn]; exact hg
  · simp only [hn] at hl
    exact h n i hl

/-- the gateway binds a TopicID the client does not know yet -/
theorem agree_gateway_stores (c : Cl.Cl) (g : Gw.Gw) (name : Bytes) (id : UInt16) (h : Agree c g)
    (hf : ∀ n, c.registered.lookup n ≠ some id) : Agree c (g.storeRegistered id name) := by
  intro n i hl
  unfold Gw.Gw.storeRegistered
  simp only [List.lookup_cons]
  by_cases hi : i == id
  · rw [eq_of_beq hi] at hl
    exact absurd hl (hf n)
  · simp only [hi]
    exact h n i hl

/-- only the tables matter -/
theorem agree_congr {c c' : Cl.Cl} {g g' : Gw.Gw} (h : Agree c g) (hc : c'.registered = c.registered)
    (hg : g'.registered = g.registered) : Agree c' g' := by
  intro n i hl
  rw [hc] at hl
  rw [hg]
  exact h n i hl

/-- **C26 (publish on a registered name).** When the tables agree, the client publishes a registered
    name under a TopicID which the gateway resolves to that very name: the broker gets the PUBLISH
    under the name the application gave. -/
theorem c26_agree_publish (c : Cl.Cl) (g : Gw.Gw) (call : String) (name payload : Bytes) (id mid : UInt16) (q : UInt8) (r dup : Bool)
    (h : Agree c g) (hl : c.registered.lookup name = some id) (hs : isShortTopic name = false)
    (hne : name ≠ []) (hw : Gw.Gw.hasWildcard name = false) :
    c.apiPublish call name q r payload = c.apiPublishRaw call Gen.TIT_REGISTERED id q r payload ∧
    (g.handleClientPublish dup q r Gen.TIT_REGISTERED id mid payload).outs =
      (g.now, Gw.Out.mq (.publish dup (if q = 3 then 0 else q) r (if (if q = 3 then 0 else q) = 0 then 0 else mid) name payload))
        :: g.outs := by
  refine ⟨?_, ?_⟩
  · unfold Cl.Cl.apiPublish
    simp [hs, hl]
  · apply Gw.c01_forward g dup q r Gen.TIT_REGISTERED id mid payload name _ hne hw
    unfold Gw.Gw.resolveTopic
    simp [h name id hl]


/-! ### the exchanges keep the tables in agreement -/

theorem newTopicId_registered (g : Gw.Gw) : g.newTopicId.2.registered = g.registered := by
  unfold Gw.Gw.newTopicId
  split
  · rfl
  · simp only
    split
    · rfl
    · split <;> rfl

theorem snSend_registered (g : Gw.Gw) (p : Pkt) (tx : Option Nat) : (g.snSend p tx).registered = g.registered := by
  unfold Gw.Gw.snSend; split <;> rfl

theorem findRegisteredId_sound (g : Gw.Gw) (name : Bytes) (id : UInt16) (h : g.findRegisteredId name = some id) :
    g.registered.lookup id = some name := by
  have := (List.mem_filter.mp (Gw.mem_of_head_some (by simpa [Gw.Gw.findRegisteredId, Gw.Gw.registeredIds] using h))).2
  simpa using this

theorem sendOrFail_registered (c : Cl.Cl) (p : Pkt) : (c.sendOrFail p).registered = c.registered := by
  unfold Cl.Cl.sendOrFail Cl.Cl.send
  by_cases hc : c.connClosed = true
  · simp only [hc, if_true, Bool.false_eq_true, if_false]
    unfold Cl.Cl.rxFail Cl.Cl.cancelGroup
    split <;> rfl
  · simp only [hc]
    rfl

/-- **C26 (REGISTER of a new name).** The exchange REGISTER → REGACK keeps the tables in agreement. -/
theorem c26_agree_register_new (c : Cl.Cl) (g g' : Gw.Gw) (t : Cl.Tx) (id mid : UInt16) (name : Bytes)
    (h : Agree c g) (hw : Gw.Gw.hasWildcard name = false) (hn : g.findRegisteredId name = none)
    (ha : g.newTopicId = (some id, g')) (hf : ∀ n, c.registered.lookup n ≠ some id)
    (hl : c.lookupById mid = some t) (hk : t.kind = .register name) :
    Agree (c.handlePacket (.regack id mid Gen.RC_ACCEPTED)) (g.handleRegister mid name) := by
  rw [(Cl.c26_register_client c t id mid name hl hk).1, (Gw.c26_register_gateway g g' mid id name hw hn ha).1]
  have hg' : g'.registered = g.registered := by
    have := newTopicId_registered g
    rw [ha] at this
    exact this
  have A1 : Agree c g' := agree_congr h rfl hg'
  have A2 := agree_gateway_stores c g' name id A1 hf
  have A3 := agree_client_learns c (g'.storeRegistered id name) name id A2 (by simp [Gw.Gw.storeRegistered])
  exact agree_congr A3 (Cl.finishTx_tables _ _ _).1 (snSend_registered _ _ _)

/-- **C26 (REGISTER of a name the gateway knows).** Same for the ID the name has already. -/
theorem c26_agree_register_known (c : Cl.Cl) (g : Gw.Gw) (t : Cl.Tx) (id mid : UInt16) (name : Bytes)
    (h : Agree c g) (hw : Gw.Gw.hasWildcard name = false) (hn : g.findRegisteredId name = some id)
    (hl : c.lookupById mid = some t) (hk : t.kind = .register name) :
    Agree (c.handlePacket (.regack id mid Gen.RC_ACCEPTED)) (g.handleRegister mid name) := by
  rw [(Cl.c26_register_client c t id mid name hl hk).1, Gw.c26_register_gateway_known g mid id name hw hn]
  have A := agree_client_learns c g name id h (findRegisteredId_sound g name id hn)
  exact agree_congr A (Cl.finishTx_tables _ _ _).1 (snSend_registered _ _ _)

/-- **C26 (the gateway registers a name for a broker message).** After the client has accepted the
    REGISTER and the gateway has got the REGACK, the tables agree again. -/
theorem c26_agree_gateway_register (c : Cl.Cl) (g : Gw.Gw) (t : Gw.Tx) (q : UInt8) (id m mid : UInt16) (name : Bytes) (pub : Pkt)
    (h : Agree c g) (hn : c.registered.lookup name = none) (hf : ∀ n, c.registered.lookup n ≠ some id) :
    Agree (c.handlePacket (.register id mid name))
      (g.bpRegack t q .awaitingRegack (.sn (.register id m name)) (some pub) Gen.RC_ACCEPTED) := by
  rw [Cl.c26_client_register_new c id mid name hn, Gw.c02_after_regack]
  have A2 := agree_gateway_stores c g name id h hf
  have A3 := agree_client_learns c (g.storeRegistered id name) name id A2 (by simp [Gw.Gw.storeRegistered])
  refine agree_congr A3 (sendOrFail_registered _ _) ?_
  exact congrArg Gw.TopicView.registered (Gw.proceedSN_topicView _ _ _ _)

/-- **C26 (SUBSCRIBE to a plain name).** The client learning the TopicID of the SUBACK keeps the
    agreement, when that ID denotes the name in the gateway (which registered it when it got the
    SUBSCRIBE: `c26_subscribe_keeps_id`, or a fresh one). -/
theorem c26_agree_suback (c : Cl.Cl) (g : Gw.Gw) (t : Cl.Tx) (label name : Bytes) (fl : UInt8) (tid mid stid : UInt16) (d : Bool) (q : UInt8)
    (h : Agree c g) (hg : g.registered.lookup tid = some name)
    (hl : c.lookupById mid = some t) (hk : t.kind = .subscribe label)
    (hd : t.data = some (.subscribe d q Gen.TIT_STRING mid stid name)) (hz : tid ≠ 0) :
    Agree (c.handlePacket (.suback fl tid mid Gen.RC_ACCEPTED)) g := by
  have A := agree_client_learns c g name tid h hg
  refine agree_congr A ?_ rfl
  unfold Cl.Cl.handlePacket
  simp only [hl, hk, hd]
  simp only [ne_eq, not_true_eq_false, if_false, if_true, hz, not_false_eq_true]
  rw [(Cl.finishTx_tables _ _ _).1]


/-! ### all histories of REGISTER / SUBSCRIBE exchanges: the tables stay in agreement -/

/-- the invariant carried through a history of exchanges -/
structure Inv (c : Cl.Cl) (g : Gw.Gw) : Prop where
  agree : Agree c g
  /-- every TopicID the client knows lies behind the gateway's allocation position -/
  cbelow : ∀ n i, c.registered.lookup n = some i → i.toNat < g.idseq.next.toNat
  gbelow : ∀ i n, g.registered.lookup i = some n → i.toNat < g.idseq.next.toNat
  seqok : Gw.SeqOk g.idseq
  /-- the sequence has not wrapped, or nothing is handed out any more -/
  live : g.idseq.overflow = false

/-- what a step does to the two tables and the allocator -/
inductive Step : Cl.Cl × Gw.Gw → Cl.Cl × Gw.Gw → Prop
  /-- the gateway allocates a fresh TopicID and binds it (REGISTER or SUBSCRIBE of a new plain name) -/
  | gwAlloc (c : Cl.Cl) (g g1 g' : Gw.Gw) (id : UInt16) (name : Bytes) :
      g.newTopicId = (some id, g1) → g1.idseq.overflow = false →
      g'.registered = (id, name) :: g1.registered → g'.idseq = g1.idseq → Step (c, g) (c, g')
  /-- the client learns from a REGACK / SUBACK a binding the gateway has -/
  | clLearn (c c' : Cl.Cl) (g : Gw.Gw) (id : UInt16) (name : Bytes) :
      g.registered.lookup id = some name → c'.registered = (name, id) :: c.registered → Step (c, g) (c', g)
  /-- anything that leaves the tables and the allocator alone -/
  | frame (c c' : Cl.Cl) (g g' : Gw.Gw) :
      c'.registered = c.registered → g'.registered = g.registered → g'.idseq = g.idseq → Step (c, g) (c', g')

theorem step_inv {c c' : Cl.Cl} {g g' : Gw.Gw} (h : Inv c g) (st : Step (c, g) (c', g')) : Inv c' g' := by
  cases st with
  | gwAlloc _ _ g1 _ id name ha hov hr hs =>
    have inc := Gw.c04_increasing g g1 id ha h.seqok
    have hreg : g1.registered = g.registered := by
      have := newTopicId_registered g; rw [ha] at this; exact this
    have hlt : id.toNat < g1.idseq.next.toNat := inc.2.2.2.2.2.2 hov
    have hfresh : ∀ n, c.registered.lookup n ≠ some id := by
      intro n hn
      have := h.cbelow n id hn
      omega
    refine ⟨?_, ?_, ?_, ?_, ?_⟩
    · intro n i hl
      rw [hr, hreg]
      simp only [List.lookup_cons]
      by_cases hi : i == id
      · rw [eq_of_beq hi] at hl; exact absurd hl (hfresh n)
      · simp only [hi]; exact h.agree n i hl
    · intro n i hl
      rw [hs]
      have := h.cbelow n i hl
      omega
    · intro i n hl
      rw [hs]
      rw [hr, hreg] at hl
      simp only [List.lookup_cons] at hl
      by_cases hi : i == id
      · rw [eq_of_beq hi]; exact hlt
      · simp only [hi] at hl
        have := h.gbelow i n hl
        omega
    · rw [hs]; exact inc.2.2.2.1
    · rw [hs]; exact hov
  | clLearn _ _ _ id name hg hr =>
    refine ⟨?_, ?_, h.gbelow, h.seqok, h.live⟩
    · exact agree_congr (agree_client_learns c g name id h.agree hg) hr rfl
    · intro n i hl
      rw [hr] at hl
      simp only [List.lookup_cons] at hl
      by_cases hn : n == name
      · simp only [hn, Option.some.injEq] at hl
        subst hl
        exact h.gbelow _ _ hg
      · simp only [hn] at hl
        exact h.cbelow n i hl
  | frame _ _ _ _ hc hg hs =>
    refine ⟨agree_congr h.agree hc hg, ?_, ?_, ?_, ?_⟩
    · intro n i hl; rw [hc] at hl; rw [hs]; exact h.cbelow n i hl
    · intro i n hl; rw [hg] at hl; rw [hs]; exact h.gbelow i n hl
    · rw [hs]; exact h.seqok
    · rw [hs]; exact h.live

/-- histories from a given start -/
inductive Reach (s : Cl.Cl × Gw.Gw) : Cl.Cl × Gw.Gw → Prop
  | refl : Reach s s
  | step {t u : Cl.Cl × Gw.Gw} : Reach s t → Step t u → Reach s u

theorem reach_inv {s t : Cl.Cl × Gw.Gw} (r : Reach s t) (h : Inv s.1 s.2) : Inv t.1 t.2 := by
  induction r with
  | refl => exact h
  | step _ st ih => exact step_inv (c := _) (g := _) ih st

theorem inv_init (ccfg : Cl.Cfg) (gcfg : Gw.Cfg) (mn mx : UInt16) (hm : mn.toNat ≤ mx.toNat) :
    Inv ({ cfg := ccfg } : Cl.Cl) (Gw.Gw.init gcfg mn mx) := by
  refine ⟨agree_init _ _, ?_, ?_, Gw.seqOk_new mn mx hm, rfl⟩
  · intro n i hl; simp at hl
  · intro i n hl; simp [Gw.Gw.init] at hl

/-- **C26 (partial: histories of REGISTER / SUBSCRIBE exchanges and of steps that leave the tables
    alone; the gateway's own registrations for broker messages are covered exchange by exchange,
    `c26_agree_gateway_register`).** After ANY such history from the initial states, a Publish on a
    name the client has a TopicID for reaches the broker under exactly that name. -/
theorem c26_partial_publish_after_any_history (ccfg : Cl.Cfg) (gcfg : Gw.Cfg) (c : Cl.Cl) (g : Gw.Gw)
    (r : Reach (({ cfg := ccfg } : Cl.Cl), Gw.Gw.init gcfg Gen.MinTopicAlias Gen.MaxTopicAlias) (c, g))
    (call : String) (name payload : Bytes) (id mid : UInt16) (q : UInt8) (rt dup : Bool)
    (hl : c.registered.lookup name = some id) (hs : isShortTopic name = false) (hne : name ≠ [])
    (hw : Gw.Gw.hasWildcard name = false) :
    c.apiPublish call name q rt payload = c.apiPublishRaw call Gen.TIT_REGISTERED id q rt payload ∧
    (g.handleClientPublish dup q rt Gen.TIT_REGISTERED id mid payload).outs =
      (g.now, Gw.Out.mq (.publish dup (if q = 3 then 0 else q) rt (if (if q = 3 then 0 else q) = 0 then 0 else mid) name payload))
        :: g.outs :=
  c26_agree_publish c g call name payload id mid q rt dup
    (reach_inv r (inv_init ccfg gcfg _ _ (by decide))).agree hl hs hne hw


/-! ### the handlers of the two models are such steps -/

theorem forwardSubscribe_topicView (g : Gw.Gw) (dup : Bool) (q : UInt8) (mid : UInt16) (tp : Bytes) (tid : UInt16) :
    (g.forwardSubscribe dup q mid tp tid).topicView = g.topicView := by
  unfold Gw.Gw.forwardSubscribe
  split
  · unfold Gw.Gw.fail; split <;> rfl
  · rfl

/-- REGISTER of a new plain name at the gateway -/
theorem step_handleRegister_new (c : Cl.Cl) (g g1 : Gw.Gw) (mid id : UInt16) (name : Bytes)
    (hw : Gw.Gw.hasWildcard name = false) (hn : g.findRegisteredId name = none) (ha : g.newTopicId = (some id, g1))
    (hov : g1.idseq.overflow = false) : Step (c, g) (c, g.handleRegister mid name) := by
  refine Step.gwAlloc c g g1 _ id name ha hov ?_ ?_
  · rw [(Gw.c26_register_gateway g g1 mid id name hw hn ha).1, snSend_registered]; rfl
  · rw [(Gw.c26_register_gateway g g1 mid id name hw hn ha).1]
    exact congrArg Gw.TopicView.idseq (Gw.snSend_topicView _ _ _)

/-- REGISTER of a name the gateway knows: the tables stay -/
theorem step_handleRegister_known (c : Cl.Cl) (g : Gw.Gw) (mid id : UInt16) (name : Bytes)
    (hw : Gw.Gw.hasWildcard name = false) (hn : g.findRegisteredId name = some id) :
    Step (c, g) (c, g.handleRegister mid name) := by
  rw [Gw.c26_register_gateway_known g mid id name hw hn]
  exact Step.frame c c g _ rfl (snSend_registered _ _ _) (congrArg Gw.TopicView.idseq (Gw.snSend_topicView _ _ _))

/-- SUBSCRIBE to a new plain name at the gateway -/
theorem step_handleSubscribe_new (c : Cl.Cl) (g g1 : Gw.Gw) (dup : Bool) (qos : UInt8) (mid tid id : UInt16) (name : Bytes)
    (hq : ¬ qos > 2) (hw : Gw.Gw.hasWildcard name = false) (hn : g.findRegisteredId name = none)
    (ha : g.newTopicId = (some id, g1)) (hov : g1.idseq.overflow = false) :
    Step (c, g) (c, g.handleSubscribe dup qos Gen.TIT_STRING mid tid name) := by
  have he : g.handleSubscribe dup qos Gen.TIT_STRING mid tid name =
      (g1.storeRegistered id name).forwardSubscribe dup qos mid name id := by
    unfold Gw.Gw.handleSubscribe
    simp [hq, hw, hn, ha]
  refine Step.gwAlloc c g g1 _ id name ha hov ?_ ?_
  · rw [he]; exact congrArg Gw.TopicView.registered (forwardSubscribe_topicView _ _ _ _ _ _)
  · rw [he]; exact congrArg Gw.TopicView.idseq (forwardSubscribe_topicView _ _ _ _ _ _)

/-- SUBSCRIBE to a registered plain name: the tables stay -/
theorem step_handleSubscribe_known (c : Cl.Cl) (g : Gw.Gw) (dup : Bool) (qos : UInt8) (mid tid id : UInt16) (name : Bytes)
    (hq : ¬ qos > 2) (hw : Gw.Gw.hasWildcard name = false) (hr : g.findRegisteredId name = some id) :
    Step (c, g) (c, g.handleSubscribe dup qos Gen.TIT_STRING mid tid name) := by
  rw [Gw.c26_subscribe_keeps_id g dup qos mid tid id name hq hw hr]
  exact Step.frame c c g _ rfl (congrArg Gw.TopicView.registered (forwardSubscribe_topicView _ _ _ _ _ _))
    (congrArg Gw.TopicView.idseq (forwardSubscribe_topicView _ _ _ _ _ _))

/-- the client gets the REGACK of its REGISTER -/
theorem step_client_regack (c : Cl.Cl) (g : Gw.Gw) (t : Cl.Tx) (id mid : UInt16) (name : Bytes)
    (hg : g.registered.lookup id = some name) (hl : c.lookupById mid = some t) (hk : t.kind = .register name) :
    Step (c, g) (c.handlePacket (.regack id mid Gen.RC_ACCEPTED), g) := by
  refine Step.clLearn c _ g id name hg ?_
  rw [(Cl.c26_register_client c t id mid name hl hk).1, (Cl.finishTx_tables _ _ _).1]

/-- the client gets the SUBACK of its subscription to a plain name -/
theorem step_client_suback (c : Cl.Cl) (g : Gw.Gw) (t : Cl.Tx) (label name : Bytes) (fl : UInt8) (tid mid stid : UInt16) (d : Bool) (q : UInt8)
    (hg : g.registered.lookup tid = some name) (hl : c.lookupById mid = some t) (hk : t.kind = .subscribe label)
    (hd : t.data = some (.subscribe d q Gen.TIT_STRING mid stid name)) (hz : tid ≠ 0) :
    Step (c, g) (c.handlePacket (.suback fl tid mid Gen.RC_ACCEPTED), g) := by
  refine Step.clLearn c _ g tid name hg ?_
  unfold Cl.Cl.handlePacket
  simp only [hl, hk, hd]
  simp only [ne_eq, not_true_eq_false, if_false, if_true, hz, not_false_eq_true]
  rw [(Cl.finishTx_tables _ _ _).1]

end Bisquitt.Sys

namespace Bisquitt.Sys
open Bisquitt

/-! ### … including the registrations the gateway itself starts for broker messages -/

/-- agreement of the tables up to registrations in progress (the gateway has chosen the TopicID
    of a name, `regIds`, and waits for the client's REGACK before binding it) -/
structure Inv2 (c : Cl.Cl) (g : Gw.Gw) : Prop where
  agree : ∀ n i, c.registered.lookup n = some i → g.registered.lookup i = some n ∨ g.regIds.lookup n = some i
  /-- a TopicID chosen for a name is unbound or bound to that name -/
  rcons : ∀ n i, g.regIds.lookup n = some i → g.registered.lookup i = none ∨ g.registered.lookup i = some n
  rinj : ∀ n n' i, g.regIds.lookup n = some i → g.regIds.lookup n' = some i → n = n'
  cbelow : ∀ n i, c.registered.lookup n = some i → i.toNat < g.idseq.next.toNat
  gbelow : ∀ i n, g.registered.lookup i = some n → i.toNat < g.idseq.next.toNat
  rbelow : ∀ n i, g.regIds.lookup n = some i → i.toNat < g.idseq.next.toNat
  seqok : Gw.SeqOk g.idseq
  live : g.idseq.overflow = false

inductive Step2 : Cl.Cl × Gw.Gw → Cl.Cl × Gw.Gw → Prop
  | gwAlloc (c : Cl.Cl) (g g1 g' : Gw.Gw) (id : UInt16) (name : Bytes) :
      g.newTopicId = (some id, g1) → g1.idseq.overflow = false →
      g'.registered = (id, name) :: g1.registered → g'.idseq = g1.idseq → g'.regIds = g1.regIds → Step2 (c, g) (c, g')
  | clLearn (c c' : Cl.Cl) (g : Gw.Gw) (id : UInt16) (name : Bytes) :
      g.registered.lookup id = some name → c'.registered = (name, id) :: c.registered → Step2 (c, g) (c', g)
  /-- a broker message on a name without TopicID: the gateway chooses one and sends REGISTER -/
  | gwReserve (c : Cl.Cl) (g g1 g' : Gw.Gw) (id : UInt16) (name : Bytes) :
      g.regIds.lookup name = none → g.newTopicId = (some id, g1) → g1.idseq.overflow = false →
      g'.regIds = (name, id) :: g1.regIds → g'.registered = g1.registered → g'.idseq = g1.idseq → Step2 (c, g) (c, g')
  /-- the client accepts that REGISTER -/
  | clLearnReserved (c c' : Cl.Cl) (g : Gw.Gw) (id : UInt16) (name : Bytes) :
      g.regIds.lookup name = some id → c'.registered = (name, id) :: c.registered → Step2 (c, g) (c', g)
  /-- the gateway gets the REGACK and binds the TopicID -/
  | gwCommit (c : Cl.Cl) (g g' : Gw.Gw) (id : UInt16) (name : Bytes) :
      g.regIds.lookup name = some id → g'.registered = (id, name) :: g.registered → g'.idseq = g.idseq →
      g'.regIds = g.regIds → Step2 (c, g) (c, g')
  | frame (c c' : Cl.Cl) (g g' : Gw.Gw) :
      c'.registered = c.registered → g'.registered = g.registered → g'.idseq = g.idseq → g'.regIds = g.regIds →
      Step2 (c, g) (c', g')

theorem newTopicId_regIds (g : Gw.Gw) : g.newTopicId.2.regIds = g.regIds := by
  unfold Gw.Gw.newTopicId
  split
  · rfl
  · simp only
    split
    · rfl
    · split <;> rfl

theorem lookup_cons_ne {α β} [BEq α] [LawfulBEq α] (k a : α) (b : β) (l : List (α × β)) (h : k ≠ a) :
    ((a, b) :: l).lookup k = l.lookup k := by
  simp only [List.lookup_cons]
  have : (k == a) = false := by simpa using h
  simp [this]

theorem lookup_cons_eq {α β} [BEq α] [LawfulBEq α] (a : α) (b : β) (l : List (α × β)) :
    ((a, b) :: l).lookup a = some b := by simp

theorem step2_inv {c c' : Cl.Cl} {g g' : Gw.Gw} (h : Inv2 c g) (st : Step2 (c, g) (c', g')) : Inv2 c' g' := by
  cases st with
  | gwAlloc _ _ g1 _ id name ha hov hr hs hri =>
    have inc := Gw.c04_increasing g g1 id ha h.seqok
    have hreg : g1.registered = g.registered := by
      have := newTopicId_registered g; rw [ha] at this; exact this
    have hrid : g1.regIds = g.regIds := by
      have := newTopicId_regIds g; rw [ha] at this; exact this
    have hlt : id.toNat < g1.idseq.next.toNat := inc.2.2.2.2.2.2 hov
    have hge : g.idseq.next.toNat ≤ id.toNat := inc.2.1
    have hG : ∀ i, i ≠ id → g'.registered.lookup i = g.registered.lookup i := by
      intro i hi; rw [hr, hreg]; exact lookup_cons_ne i id name _ hi
    refine ⟨?_, ?_, ?_, ?_, ?_, ?_, ?_, ?_⟩
    · intro n i hl
      have hb := h.cbelow n i hl
      have hi : i ≠ id := by intro e; rw [e] at hb; omega
      rw [hG i hi, hri, hrid]; exact h.agree n i hl
    · intro n i hl
      rw [hri, hrid] at hl
      have hb := h.rbelow n i hl
      have hi : i ≠ id := by intro e; rw [e] at hb; omega
      rw [hG i hi]; exact h.rcons n i hl
    · intro n n' i h1 h2; rw [hri, hrid] at h1 h2; exact h.rinj n n' i h1 h2
    · intro n i hl; rw [hs]; have := h.cbelow n i hl; omega
    · intro i n hl
      rw [hs]
      by_cases hi : i = id
      · rw [hi]; exact hlt
      · rw [hG i hi] at hl; have := h.gbelow i n hl; omega
    · intro n i hl; rw [hri, hrid] at hl; rw [hs]; have := h.rbelow n i hl; omega
    · rw [hs]; exact inc.2.2.2.1
    · rw [hs]; exact hov
  | clLearn _ _ _ id name hg hr =>
    refine ⟨?_, h.rcons, h.rinj, ?_, h.gbelow, h.rbelow, h.seqok, h.live⟩
    · intro n i hl
      rw [hr] at hl
      by_cases hn : n = name
      · rw [hn, lookup_cons_eq] at hl
        simp only [Option.some.injEq] at hl
        rw [← hl, hn]; exact .inl hg
      · rw [lookup_cons_ne n name id _ hn] at hl; exact h.agree n i hl
    · intro n i hl
      rw [hr] at hl
      by_cases hn : n = name
      · rw [hn, lookup_cons_eq] at hl
        simp only [Option.some.injEq] at hl
        rw [← hl]; exact h.gbelow _ _ hg
      · rw [lookup_cons_ne n name id _ hn] at hl; exact h.cbelow n i hl
  | gwReserve _ _ g1 _ id name hnone ha hov hri hr hs =>
    have inc := Gw.c04_increasing g g1 id ha h.seqok
    have hreg : g1.registered = g.registered := by
      have := newTopicId_registered g; rw [ha] at this; exact this
    have hrid : g1.regIds = g.regIds := by
      have := newTopicId_regIds g; rw [ha] at this; exact this
    have hlt : id.toNat < g1.idseq.next.toNat := inc.2.2.2.2.2.2 hov
    have hge : g.idseq.next.toNat ≤ id.toNat := inc.2.1
    have hR : ∀ n, n ≠ name → g'.regIds.lookup n = g.regIds.lookup n := by
      intro n hn; rw [hri, hrid]; exact lookup_cons_ne n name id _ hn
    have hRn : g'.regIds.lookup name = some id := by rw [hri]; exact lookup_cons_eq _ _ _
    have hGid : g.registered.lookup id = none := by
      cases hx : g.registered.lookup id with
      | none => rfl
      | some x => have := h.gbelow id x hx; omega
    refine ⟨?_, ?_, ?_, ?_, ?_, ?_, ?_, ?_⟩
    · intro n i hl
      rw [hr, hreg]
      rcases h.agree n i hl with h1 | h1
      · exact .inl h1
      · have hn : n ≠ name := by intro e; rw [e, hnone] at h1; cases h1
        right; rw [hR n hn]; exact h1
    · intro n i hl
      rw [hr, hreg]
      by_cases hn : n = name
      · rw [hn, hRn] at hl
        simp only [Option.some.injEq] at hl
        rw [← hl]; exact .inl hGid
      · rw [hR n hn] at hl; exact h.rcons n i hl
    · intro n n' i h1 h2
      by_cases hn : n = name
      · by_cases hn' : n' = name
        · rw [hn, hn']
        · rw [hn, hRn] at h1
          simp only [Option.some.injEq] at h1
          rw [hR n' hn', ← h1] at h2
          have := h.rbelow n' id h2; omega
      · by_cases hn' : n' = name
        · rw [hn', hRn] at h2
          simp only [Option.some.injEq] at h2
          rw [hR n hn, ← h2] at h1
          have := h.rbelow n id h1; omega
        · rw [hR n hn] at h1; rw [hR n' hn'] at h2; exact h.rinj n n' i h1 h2
    · intro n i hl; rw [hs]; have := h.cbelow n i hl; omega
    · intro i n hl; rw [hr, hreg] at hl; rw [hs]; have := h.gbelow i n hl; omega
    · intro n i hl
      rw [hs]
      by_cases hn : n = name
      · rw [hn, hRn] at hl
        simp only [Option.some.injEq] at hl
        rw [← hl]; exact hlt
      · rw [hR n hn] at hl; have := h.rbelow n i hl; omega
    · rw [hs]; exact inc.2.2.2.1
    · rw [hs]; exact hov
  | clLearnReserved _ _ _ id name hR hr =>
    refine ⟨?_, h.rcons, h.rinj, ?_, h.gbelow, h.rbelow, h.seqok, h.live⟩
    · intro n i hl
      rw [hr] at hl
      by_cases hn : n = name
      · rw [hn, lookup_cons_eq] at hl
        simp only [Option.some.injEq] at hl
        rw [← hl, hn]; exact .inr hR
      · rw [lookup_cons_ne n name id _ hn] at hl; exact h.agree n i hl
    · intro n i hl
      rw [hr] at hl
      by_cases hn : n = name
      · rw [hn, lookup_cons_eq] at hl
        simp only [Option.some.injEq] at hl
        rw [← hl]; exact h.rbelow _ _ hR
      · rw [lookup_cons_ne n name id _ hn] at hl; exact h.cbelow n i hl
  | gwCommit _ _ _ id name hR hr hs hri =>
    have hG : ∀ i, i ≠ id → g'.registered.lookup i = g.registered.lookup i := by
      intro i hi; rw [hr]; exact lookup_cons_ne i id name _ hi
    have hGid : g'.registered.lookup id = some name := by rw [hr]; exact lookup_cons_eq _ _ _
    refine ⟨?_, ?_, ?_, ?_, ?_, ?_, ?_, ?_⟩
    · intro n i hl
      rw [hri]
      rcases h.agree n i hl with h1 | h1
      · by_cases hi : i = id
        · rw [hi] at h1
          rcases h.rcons name id hR with h2 | h2
          · rw [h2] at h1; cases h1
          · rw [h2] at h1
            simp only [Option.some.injEq] at h1
            rw [hi, hGid, h1]; exact .inl rfl
        · rw [hG i hi]; exact .inl h1
      · exact .inr h1
    · intro n i hl
      rw [hri] at hl
      by_cases hi : i = id
      · rw [hi] at hl
        have := h.rinj n name id hl hR
        rw [hi, hGid, this]; exact .inr rfl
      · rw [hG i hi]; exact h.rcons n i hl
    · intro n n' i h1 h2; rw [hri] at h1 h2; exact h.rinj n n' i h1 h2
    · intro n i hl; rw [hs]; exact h.cbelow n i hl
    · intro i n hl
      rw [hs]
      by_cases hi : i = id
      · rw [hi]; exact h.rbelow _ _ hR
      · rw [hG i hi] at hl; exact h.gbelow i n hl
    · intro n i hl; rw [hri] at hl; rw [hs]; exact h.rbelow n i hl
    · rw [hs]; exact h.seqok
    · rw [hs]; exact h.live
  | frame _ _ _ _ hc hg hs hri =>
    refine ⟨?_, ?_, ?_, ?_, ?_, ?_, ?_, ?_⟩
    · intro n i hl; rw [hc] at hl; rw [hg, hri]; exact h.agree n i hl
    · intro n i hl; rw [hri] at hl; rw [hg]; exact h.rcons n i hl
    · intro n n' i h1 h2; rw [hri] at h1 h2; exact h.rinj n n' i h1 h2
    · intro n i hl; rw [hc] at hl; rw [hs]; exact h.cbelow n i hl
    · intro i n hl; rw [hg] at hl; rw [hs]; exact h.gbelow i n hl
    · intro n i hl; rw [hri] at hl; rw [hs]; exact h.rbelow n i hl
    · rw [hs]; exact h.seqok
    · rw [hs]; exact h.live

inductive Reach2 (s : Cl.Cl × Gw.Gw) : Cl.Cl × Gw.Gw → Prop
  | refl : Reach2 s s
  | step {t u : Cl.Cl × Gw.Gw} : Reach2 s t → Step2 t u → Reach2 s u

theorem reach2_inv {s t : Cl.Cl × Gw.Gw} (r : Reach2 s t) (h : Inv2 s.1 s.2) : Inv2 t.1 t.2 := by
  induction r with
  | refl => exact h
  | step _ st ih => exact step2_inv (c := _) (g := _) ih st

theorem inv2_init (ccfg : Cl.Cfg) (gcfg : Gw.Cfg) (mn mx : UInt16) (hm : mn.toNat ≤ mx.toNat) :
    Inv2 ({ cfg := ccfg } : Cl.Cl) (Gw.Gw.init gcfg mn mx) := by
  refine ⟨?_, ?_, ?_, ?_, ?_, ?_, Gw.seqOk_new mn mx hm, rfl⟩
  · intro n i hl; simp at hl
  · intro n i hl; simp [Gw.Gw.init] at hl
  · intro n n' i hl; simp [Gw.Gw.init] at hl
  · intro n i hl; simp at hl
  · intro i n hl; simp [Gw.Gw.init] at hl
  · intro n i hl; simp [Gw.Gw.init] at hl

/-- **C26 (partial: histories of REGISTER / SUBSCRIBE exchanges, of the gateway's own registrations for
    broker messages — reserve, client accepts, commit, in any interleaving — and of steps that leave the
    tables alone).** After ANY such history from the initial states, a Publish on a name the client has a
    TopicID for reaches the broker under exactly that name — unless the gateway's registration of that very
    name is still in progress (the client has accepted the REGISTER, its REGACK has not been handled yet). -/
theorem c26_partial_publish_after_any_history2 (ccfg : Cl.Cfg) (gcfg : Gw.Cfg) (c : Cl.Cl) (g : Gw.Gw)
    (r : Reach2 (({ cfg := ccfg } : Cl.Cl), Gw.Gw.init gcfg Gen.MinTopicAlias Gen.MaxTopicAlias) (c, g))
    (call : String) (name payload : Bytes) (id mid : UInt16) (q : UInt8) (rt dup : Bool)
    (hl : c.registered.lookup name = some id) (hs : isShortTopic name = false) (hne : name ≠ [])
    (hw : Gw.Gw.hasWildcard name = false)
    (hdone : g.regIds.lookup name = some id → g.registered.lookup id = some name) :
    c.apiPublish call name q rt payload = c.apiPublishRaw call Gen.TIT_REGISTERED id q rt payload ∧
    (g.handleClientPublish dup q rt Gen.TIT_REGISTERED id mid payload).outs =
      (g.now, Gw.Out.mq (.publish dup (if q = 3 then 0 else q) rt (if (if q = 3 then 0 else q) = 0 then 0 else mid) name payload))
        :: g.outs := by
  have inv := reach2_inv r (inv2_init ccfg gcfg _ _ (by decide))
  have hg : g.registered.lookup id = some name := by
    rcases inv.agree name id hl with h1 | h1
    · exact h1
    · exact hdone h1
  refine ⟨?_, ?_⟩
  · unfold Cl.Cl.apiPublish
    simp [hs, hl]
  · apply Gw.c01_forward g dup q rt Gen.TIT_REGISTERED id mid payload name _ hne hw
    unfold Gw.Gw.resolveTopic
    simp [hg]

/-- a TopicID the gateway ever sends the client for a name — in a REGACK, a SUBACK or a REGISTER of its
    own — is, after ANY such history, never bound to another name: what the client resolves by it
    (`Inv2.agree`, `Inv2.rcons`) is that name -/
theorem c26_partial_ids_mean_one_name (ccfg : Cl.Cfg) (gcfg : Gw.Cfg) (c : Cl.Cl) (g : Gw.Gw)
    (r : Reach2 (({ cfg := ccfg } : Cl.Cl), Gw.Gw.init gcfg Gen.MinTopicAlias Gen.MaxTopicAlias) (c, g))
    (name other : Bytes) (id : UInt16) (hl : c.registered.lookup name = some id)
    (hg : g.registered.lookup id = some other) : other = name := by
  have inv := reach2_inv r (inv2_init ccfg gcfg _ _ (by decide))
  rcases inv.agree name id hl with h1 | h1
  · rw [h1] at hg; exact (Option.some.inj hg).symm
  · rcases inv.rcons name id h1 with h2 | h2
    · rw [h2] at hg; cases hg
    · rw [h2] at hg; exact (Option.some.inj hg).symm

/-! ### the handlers are such steps -/

theorem step2_of_step {c c' : Cl.Cl} {g g' : Gw.Gw} (st : Step (c, g) (c', g')) (hr : g'.regIds = g.regIds)
    (hr1 : ∀ g1 : Gw.Gw, ∀ id, g.newTopicId = (some id, g1) → g1.regIds = g.regIds) : Step2 (c, g) (c', g') := by
  cases st with
  | gwAlloc _ _ g1 _ id name ha hov hreg hs => exact Step2.gwAlloc c g g1 g' id name ha hov hreg hs (by rw [hr, hr1 g1 id ha])
  | clLearn _ _ _ id name hg hc => exact Step2.clLearn c c' g id name hg hc
  | frame _ _ _ _ hc hg hs => exact Step2.frame c c' g g' hc hg hs hr

theorem newTopicId_regIds_of (g g1 : Gw.Gw) (id : UInt16) (h : g.newTopicId = (some id, g1)) : g1.regIds = g.regIds := by
  have := newTopicId_regIds g; rw [h] at this; exact this

/-- a broker message (QoS 1 / 2) on a name without TopicID: reserve (or reuse the reserved ID) and REGISTER -/
theorem step2_handleBrokerPublish_new (c : Cl.Cl) (g g' : Gw.Gw) (dup retain : Bool) (q : UInt8) (mid newId : UInt16)
    (topic payload : Bytes)
    (hlen : payload.length ≤ Gen.MaxPayloadLength ∧ topic.length ≤ Gen.MaxPayloadLength) (hne : topic ≠ [])
    (hb : g.brokerTopicId topic = none) (hq : q = 1 ∨ q = 2) (ha : g.registrationTopicId topic = (some newId, g'))
    (hov : g'.idseq.overflow = false) :
    Step2 (c, g) (c, g.handleBrokerPublish dup q retain mid topic payload) := by
  rw [Gw.c02_register_first g g' dup retain q mid newId topic payload hlen hne hb hq ha]
  have tv := Gw.startBrokerPub_topicView g' q mid .awaitingRegack (some (.publish dup q retain 0 newId mid payload))
    .awaitingRegack (.register newId mid topic)
  have e1 := congrArg Gw.TopicView.registered tv
  have e2 := congrArg Gw.TopicView.idseq tv
  have e3 := congrArg Gw.TopicView.regIds tv
  simp only [Gw.Gw.topicView] at e1 e2 e3
  unfold Gw.Gw.registrationTopicId at ha
  split at ha
  · -- the ID chosen earlier for this name is used again: nothing changes
    simp only [Prod.mk.injEq, Option.some.injEq] at ha
    obtain ⟨_, rfl⟩ := ha
    exact Step2.frame c c g _ rfl e1 e2 e3
  · rename_i hnone
    split at ha
    · rename_i id g1 hn
      simp only [Prod.mk.injEq, Option.some.injEq] at ha
      obtain ⟨rfl, rfl⟩ := ha
      refine Step2.gwReserve c g g1 _ id topic hnone hn (by simpa [Gw.Gw.storeRegId] using hov) ?_ ?_ ?_
      · rw [e3]; rfl
      · rw [e1]; rfl
      · rw [e2]; rfl
    · simp at ha

/-- the client accepts a REGISTER of a name it does not know -/
theorem step2_client_register (c : Cl.Cl) (g : Gw.Gw) (id mid : UInt16) (name : Bytes)
    (hR : g.regIds.lookup name = some id) (hn : c.registered.lookup name = none) :
    Step2 (c, g) (c.handlePacket (.register id mid name), g) := by
  refine Step2.clLearnReserved c _ g id name hR ?_
  rw [Cl.c26_client_register_new c id mid name hn, sendOrFail_registered]

/-- … or repeats a registration it has already (the other messages of a burst) -/
theorem step2_client_register_repeated (c : Cl.Cl) (g : Gw.Gw) (id mid : UInt16) (name : Bytes)
    (hR : g.regIds.lookup name = some id) (hn : c.registered.lookup name = some id) :
    Step2 (c, g) (c.handlePacket (.register id mid name), g) := by
  refine Step2.clLearnReserved c _ g id name hR ?_
  rw [Cl.c26_client_register_repeated c id mid name hn, sendOrFail_registered]

/-- the gateway gets the accepted REGACK of its REGISTER -/
theorem step2_bpRegack (c : Cl.Cl) (g : Gw.Gw) (t : Gw.Tx) (q : UInt8) (id m : UInt16) (name : Bytes) (pub : Pkt)
    (hR : g.regIds.lookup name = some id) :
    Step2 (c, g) (c, g.bpRegack t q .awaitingRegack (.sn (.register id m name)) (some pub) Gen.RC_ACCEPTED) := by
  rw [Gw.c02_after_regack]
  have tv := Gw.proceedSN_topicView (g.storeRegistered id name) t.id
    (if q = 0 then Gw.BpSt.done else if q = 1 then .awaitingPuback else .awaitingPubrec) pub
  refine Step2.gwCommit c g _ id name hR ?_ ?_ ?_
  · exact congrArg Gw.TopicView.registered tv
  · exact congrArg Gw.TopicView.idseq tv
  · exact congrArg Gw.TopicView.regIds tv

end Bisquitt.Sys
