/-
  C26 — Bisquitt client and gateway interoperate for any API usage.

  The full property quantifies over all scripts of API calls run by the two implementations
  together.  It is stated over the composed model (`Model/System.lean`: client model ‖ lossless
  link ‖ gateway model ‖ conforming broker) and the specification `Spec/System.lean`; the composed
  statement for ALL scripts (`C26Full` below) is NOT proved — what is proved, for all states of the
  two models, are the agreements between the two sides on which the exchanges rest (partial):

  * `c26_registration_id_stable`, `c26_partial_burst_same_id`: a topic name the gateway is
    registering with the client keeps its TopicID — every REGISTER of a burst of messages on a not
    yet registered topic carries the same ID (repaired defect);
  * `c26_client_register_new / _repeated / _conflict`: the client accepts a REGISTER of a new name
    and of a (name, ID) pair it has already, and refuses only a name it knows under another ID — so
    it accepts every REGISTER of such a burst (repaired defect);
  * `c26_subscribe_keeps_id`: a SUBSCRIBE to a plain name that is registered already is answered
    under that name's TopicID, no second ID is created (repaired defect);
  * `c26_register_gateway(_known)` with `c26_register_client`: after the REGISTER exchange the client
    knows the name under exactly the TopicID that denotes that name in the gateway;
  * `c26_subscribe_client`: the accepted SUBACK installs the handler and the name ↔ ID binding;
  * `c26_sleep_from_awake_silent` with `c11_wake`: after PINGRESP the gateway takes the client for
    asleep again, and the client's next Sleep() from `awake` sends nothing — the two sides agree on
    the state without a DISCONNECT;
  * `c26_spec_*`: sanity of the specification (every well-formed call is expected to succeed;
    a routed message with a matching subscription is expected at a handler), and
    `c26_spec_agrees_with_broker`: the specification expects a delivery exactly when the conforming
    broker sends the session a PUBLISH, with the same topic, payload and QoS.

  The composed model is executed beside the real client + real gateway + broker on generated
  scripts by the system suite; the specification is evaluated on the implementation's results.
-/
import Bisquitt.Props.C11
import Bisquitt.Props.C02
import Bisquitt.Props.C33
import Bisquitt.Spec.System

namespace Bisquitt.Gw
open Bisquitt Gw

/-- **C26.** The TopicID chosen for registering a topic name is kept for that name. -/
theorem c26_registration_id_stable (g g' : Gw) (topic : Bytes) (id : UInt16)
    (h : g.registrationTopicId topic = (some id, g')) : g'.registrationTopicId topic = (some id, g') := by
  unfold registrationTopicId at h
  split at h
  · rename_i id' hl
    simp only [Prod.mk.injEq, Option.some.injEq] at h
    obtain ⟨rfl, rfl⟩ := h
    unfold registrationTopicId
    simp [hl]
  · split at h
    · rename_i id' g'' hn
      simp only [Prod.mk.injEq, Option.some.injEq] at h
      obtain ⟨rfl, rfl⟩ := h
      unfold registrationTopicId
      simp [storeRegId]
    · simp at h

/-- what topic-ID allocation depends on -/
structure TopicView where
  regIds : List (Bytes × UInt16)
  registered : List (UInt16 × Bytes)
  idseq : IdSeq
  exhausted : Bool
  clientId : Bytes
  predef : Predef

def Gw.topicView (g : Gw) : TopicView :=
  { regIds := g.regIds, registered := g.registered, idseq := g.idseq, exhausted := g.exhausted,
    clientId := g.clientId, predef := g.cfg.predef }

theorem runFinally_topicView (g : Gw) (t : Tx) : (g.runFinally t).topicView = g.topicView := by
  unfold runFinally; split <;> (try split) <;> rfl

theorem finishTx_topicView (g : Gw) (id : Nat) : (g.finishTx id).topicView = g.topicView := by
  unfold finishTx
  split
  · split
    · rfl
    · rw [runFinally_topicView]; rfl
  · rfl

theorem snSend_topicView (g : Gw) (p : Pkt) (tx : Option Nat) : (g.snSend p tx).topicView = g.topicView := by
  unfold snSend; split <;> rfl

theorem proceedSN_topicView (g : Gw) (id : Nat) (st : BpSt) (p : Pkt) : (g.proceedSN id st p).topicView = g.topicView := by
  unfold proceedSN
  split
  · split
    · unfold finishIfDone
      split
      · rw [finishTx_topicView, snSend_topicView]; unfold armBp; split <;> rfl
      · rw [snSend_topicView]; unfold armBp; split <;> rfl
    · rfl
  · rfl

theorem startBrokerPub_topicView (g : Gw) (qos : UInt8) (msgId : UInt16) (st0 : BpSt) (snp : Option Pkt) (st : BpSt)
    (first : Pkt) : (g.startBrokerPub qos msgId st0 snp st first).topicView = g.topicView := by
  unfold startBrokerPub
  rw [proceedSN_topicView]
  rfl

theorem registrationTopicId_congr (g h : Gw) (topic : Bytes) (e : g.topicView = h.topicView) :
    (g.registrationTopicId topic).1 = (h.registrationTopicId topic).1 := by
  have e1 : g.regIds = h.regIds := congrArg TopicView.regIds e
  have e2 : g.idseq = h.idseq := congrArg TopicView.idseq e
  have e3 : g.exhausted = h.exhausted := congrArg TopicView.exhausted e
  have e4 : g.clientId = h.clientId := congrArg TopicView.clientId e
  have e5 : g.cfg.predef = h.cfg.predef := congrArg TopicView.predef e
  unfold registrationTopicId
  rw [e1]
  split
  · rfl
  · -- a fresh ID: the allocation reads only the fields of the view
    have hn : g.newTopicId.1 = h.newTopicId.1 := by
      have hl : ∀ fuel id s, (g.newTopicIdLoop fuel id s) = (h.newTopicIdLoop fuel id s) := by
        intro fuel
        induction fuel with
        | zero => intros; rfl
        | succ n ih =>
          intro id s
          unfold newTopicIdLoop
          have : g.predefName id = h.predefName id := by unfold predefName; rw [e4, e5]
          rw [this]
          split
          · rfl
          · simp only [ih]
      unfold newTopicId
      rw [e3, e2]
      split
      · rfl
      · simp only [hl]
        split
        · rfl
        · split <;> rfl
    cases hg : g.newTopicId with
    | mk r1 g1 =>
      cases hh : h.newTopicId with
      | mk r2 h1 =>
        rw [hg, hh] at hn
        simp only at hn
        subst hn
        cases r1 <;> rfl

/-- **C26 (partial: QoS 1/2, two messages).** A second broker message for a topic whose REGISTER is
    still waiting for its REGACK is registered under the same TopicID. -/
theorem c26_partial_burst_same_id (g g' : Gw) (q : UInt8) (msgId newId : UInt16) (snp : Option Pkt) (first : Pkt)
    (topic : Bytes) (ha : g.registrationTopicId topic = (some newId, g')) :
    ((g'.startBrokerPub q msgId .awaitingRegack snp .awaitingRegack first).registrationTopicId topic).1 = some newId := by
  rw [registrationTopicId_congr _ g' topic (startBrokerPub_topicView _ _ _ _ _ _ _)]
  rw [c26_registration_id_stable g g' topic newId ha]

/-- non-vacuity: a fresh session registers "a" under ID 1, again under ID 1, and "b" under ID 2 -/
def exampleGw : Gw :=
  Gw.init { auth := false, user := none, pass := none, retryDelay := 500, retryCount := 3, predef := [] } 1 0xFFFE

example : (exampleGw.registrationTopicId [0x61]).1 = some 1 ∧
    ((exampleGw.registrationTopicId [0x61]).2.registrationTopicId [0x61]).1 = some 1 ∧
    ((exampleGw.registrationTopicId [0x61]).2.registrationTopicId [0x62]).1 = some 2 := by decide

/-- **C26.** SUBSCRIBE to a plain topic name that is registered already: answered under that ID,
    no new registration. -/
theorem c26_subscribe_keeps_id (g : Gw) (dup : Bool) (qos : UInt8) (mid tid id : UInt16) (name : Bytes)
    (hq : ¬ qos > 2) (hw : hasWildcard name = false) (hr : g.findRegisteredId name = some id) :
    g.handleSubscribe dup qos Gen.TIT_STRING mid tid name = g.forwardSubscribe dup qos mid name id := by
  unfold handleSubscribe
  simp [hq, hw, hr]

end Bisquitt.Gw

namespace Bisquitt.Cl
open Bisquitt Cl

/-- **C26.** The client accepts a REGISTER of a name it does not know yet, and learns it. -/
theorem c26_client_register_new (c : Cl) (tid mid : UInt16) (name : Bytes) (h : c.registered.lookup name = none) :
    c.handlePacket (.register tid mid name) =
      ({ c with registered := (name, tid) :: c.registered } : Cl).sendOrFail (.regack tid mid Gen.RC_ACCEPTED) := by
  unfold handlePacket
  simp [h]

/-- **C26.** A REGISTER repeating a registration the client has already is acknowledged again. -/
theorem c26_client_register_repeated (c : Cl) (tid mid : UInt16) (name : Bytes) (h : c.registered.lookup name = some tid) :
    c.handlePacket (.register tid mid name) =
      ({ c with registered := (name, tid) :: c.registered } : Cl).sendOrFail (.regack tid mid Gen.RC_ACCEPTED) := by
  unfold handlePacket
  simp [h]

/-- **C26.** Only a name known under another TopicID is refused; the table is left alone. -/
theorem c26_client_register_conflict (c : Cl) (tid tid' mid : UInt16) (name : Bytes)
    (h : c.registered.lookup name = some tid') (hne : tid' ≠ tid) :
    c.handlePacket (.register tid mid name) = c.sendOrFail (.regack tid mid Gen.RC_INVALID_TOPIC_ID) := by
  unfold handlePacket
  simp [h, hne]

theorem notifyState_outs_st (d : Cl) (s : CState) : (d.notifyState s).outs = d.outs ∧ (d.notifyState s).st = d.st := by
  unfold notifyState; split <;> (try split) <;> exact ⟨rfl, rfl⟩

theorem finishTx_outs_st (d : Cl) (id : Nat) (e : Err) : (d.finishTx id e).outs = d.outs ∧ (d.finishTx id e).st = d.st := by
  unfold finishTx
  split
  · split
    · exact ⟨rfl, rfl⟩
    · unfold runFinally; split <;> (try split) <;> exact ⟨rfl, rfl⟩
  · exact ⟨rfl, rfl⟩

/-- a state change of the client sends nothing by itself -/
theorem setState_outs_st (c : Cl) (s : CState) : (c.setState s).outs = c.outs ∧ (c.setState s).st = s := by
  unfold setState
  split
  · rename_i h; exact ⟨rfl, h⟩
  · simp only
    split
    · split
      · split
        · rw [(finishTx_outs_st _ _ _).1, (finishTx_outs_st _ _ _).2, (notifyState_outs_st _ _).1, (notifyState_outs_st _ _).2]
          exact ⟨rfl, rfl⟩
        · rw [(notifyState_outs_st _ _).1, (notifyState_outs_st _ _).2]; exact ⟨rfl, rfl⟩
      · rw [(notifyState_outs_st _ _).1, (notifyState_outs_st _ _).2]; exact ⟨rfl, rfl⟩
    · rw [(notifyState_outs_st _ _).1, (notifyState_outs_st _ _).2]; exact ⟨rfl, rfl⟩

/-- **C26.** `Sleep()` from the `awake` state sends nothing — no DISCONNECT —: the client just falls
    asleep again (the gateway took it for asleep right after its PINGRESP, `c11_wake`). -/
theorem c26_sleep_from_awake_silent (c : Cl) (call : String) (dur : Nat) (h : c.st = .awake) :
    (c.apiSleep call dur).outs = c.outs ∧ (c.apiSleep call dur).st = .asleep := by
  unfold apiSleep
  simp only [newTx, store, h]
  have h1 : ¬ (CState.awake = CState.active) := by decide
  simp only [h1, if_false, if_true]
  unfold startSleep
  simp only
  split
  · split
    · simp only [setTx]
      rw [(setState_outs_st _ _).1, (setState_outs_st _ _).2]; exact ⟨rfl, rfl⟩
    · rw [(setState_outs_st _ _).1, (setState_outs_st _ _).2]; exact ⟨rfl, rfl⟩
  · rw [(setState_outs_st _ _).1, (setState_outs_st _ _).2]; exact ⟨rfl, rfl⟩

end Bisquitt.Cl

namespace Bisquitt.Sys
open Bisquitt

/-- observable results of a run of the composed model -/
def Sys.rets (s : Sys) : List (String × Cl.Err) :=
  s.obs.reverse.filterMap fun o => match o with | .ret c e => some (c, e) | _ => none

def Sys.delivered (s : Sys) (topic payload : Bytes) : Bool :=
  s.obs.any fun o => match o with | .handler _ t p _ => t == topic && p == payload | _ => false

/-- **C26 at full strength, over the composed model — NOT proved** (and false of the unchanged code
    for the recorded finding `message-not-delivered/long-sleep/new-topic`): every call returns what
    the specification expects, the broker has received exactly the expected publishes and holds the
    expected subscriptions, and every expected delivery has reached a handler. The system suite
    evaluates exactly this on the implementation's results and on the composed model, script by script. -/
def C26Full : Prop :=
  ∀ (ccfg : Cl.Cfg) (gcfg : Gw.Cfg) (ops : List Sys.Op),
    let s := Sys.run (Sys.init ccfg gcfg) ops
    let a := expect ccfg.cid ccfg.predef gcfg.retryDelay gcfg.retryCount ops
    s.rets = a.exp.rets ∧ s.br.recv.reverse = a.exp.recv ∧
    (∀ d ∈ a.exp.deliveries, s.delivered d.topic d.payload = true)

/-- **C26 (specification).** A message routed to a live session with a matching subscription is
    expected at a handler of one of the matching subscriptions, under its own topic and payload. -/
theorem c26_spec_routed_expected (a : Abs) (topic payload : Bytes) (qos : UInt8) (ctx : String)
    (hl : a.live = true) (hm : (a.subs.filter fun s => Broker.filterMatches s.1 topic) ≠ []) :
    ∃ d, (a.routed topic payload qos ctx).exp.deliveries = a.exp.deliveries ++ [d] ∧
      d.topic = topic ∧ d.payload = payload ∧
      d.labels = (a.subs.filter fun s => Broker.filterMatches s.1 topic).map (·.2.2) := by
  unfold Abs.routed
  simp only [hl, Bool.not_true, Bool.false_eq_true, if_false]
  have : (a.subs.filter fun s => Broker.filterMatches s.1 topic).isEmpty = false := by
    cases h : (a.subs.filter fun s => Broker.filterMatches s.1 topic) with
    | nil => exact absurd h hm
    | cons _ _ => rfl
  simp only [this, Bool.false_eq_true, if_false]
  exact ⟨_, rfl, rfl, rfl, rfl⟩

/-- **C26 (specification).** No subscription matches, or no session: nothing is expected. -/
theorem c26_spec_unrouted (a : Abs) (topic payload : Bytes) (qos : UInt8) (ctx : String)
    (h : a.live = false ∨ (a.subs.filter fun s => Broker.filterMatches s.1 topic) = []) :
    (a.routed topic payload qos ctx).exp = a.exp := by
  unfold Abs.routed
  rcases h with h | h
  · simp [h]
  · simp [h]

/-- **C26 (specification).** The calls that need no topic knowledge are expected to succeed, whatever
    came before. -/
theorem c26_spec_calls_ok (a : Abs) (c : String) (n : Bytes) (q : UInt8) (d : Nat) :
    (a.op (.api c .connect)).exp.rets = a.exp.rets ++ [(c, .ok)] ∧
    (a.op (.api c (.register n))).exp.rets = a.exp.rets ++ [(c, .ok)] ∧
    (a.op (.api c (.subscribe n q))).exp.rets = a.exp.rets ++ [(c, .ok)] ∧
    (a.op (.api c (.unsubscribe n))).exp.rets = a.exp.rets ++ [(c, .ok)] ∧
    (a.op (.api c .ping)).exp.rets = a.exp.rets ++ [(c, .ok)] ∧
    (a.op (.api c (.sleep d))).exp.rets = a.exp.rets ++ [(c, .ok)] ∧
    (a.op (.api c .disconnect)).exp.rets = a.exp.rets ++ [(c, .ok)] := by
  refine ⟨rfl, rfl, rfl, rfl, rfl, rfl, rfl⟩

/-- non-vacuity: a concrete specification state with a matching subscription -/
def exampleAbs : Abs :=
  { cid := [0x63], predef := [], rd := 500, rc := 3, live := true,
    subs := [([0x61, 0x2F, 0x23], 1, [0x61, 0x2F, 0x23])] }

example : exampleAbs.live = true ∧ (exampleAbs.subs.filter fun s => Broker.filterMatches s.1 [0x61, 0x2F, 0x6E]) ≠ [] := by
  decide

theorem matching_of_table (a : Abs) (b : Broker) (h : b.subs = a.subsTable) (topic : Bytes) :
    b.matching topic = (a.subs.filter fun s => Broker.filterMatches s.1 topic).map fun s => (s.1, s.2.1) := by
  unfold Broker.matching
  rw [h]
  unfold Abs.subsTable
  rw [List.filter_map]
  rfl

theorem foldl_max_map (l : List (Bytes × UInt8 × Bytes)) (z : UInt8) :
    (l.map fun s => (s.1, s.2.1)).foldl (fun a (s : Bytes × UInt8) => max a s.2) z = l.foldl (fun acc s => max acc s.2.1) z := by
  induction l generalizing z with
  | nil => rfl
  | cons x xs ih => simp only [List.map_cons, List.foldl_cons]; exact ih _

/-- **C26 (specification vs. broker).** When the broker's subscription table is the one the
    specification tracks, the specification expects a delivery exactly when the broker sends the
    session a PUBLISH, for the same topic and payload and at the same QoS. -/
theorem c26_spec_agrees_with_broker (a : Abs) (b : Broker) (h : b.subs = a.subsTable) (hl : a.live = true)
    (topic payload : Bytes) (qos : UInt8) (ctx : String) :
    ((b.route topic payload qos).2 = [] ∧ (a.routed topic payload qos ctx).exp = a.exp) ∨
    (∃ mid d, (b.route topic payload qos).2 = [.publish false d.qos false mid topic payload] ∧
      (a.routed topic payload qos ctx).exp.deliveries = a.exp.deliveries ++ [d] ∧ d.topic = topic ∧ d.payload = payload) := by
  unfold Broker.route Abs.routed
  simp only [hl, Bool.not_true, Bool.false_eq_true, if_false]
  rw [matching_of_table a b h]
  cases hm : (a.subs.filter fun s => Broker.filterMatches s.1 topic) with
  | nil => left; simp
  | cons x xs =>
    right
    simp only [List.map_cons, List.isEmpty_cons, Bool.false_eq_true, if_false]
    have hf := foldl_max_map (x :: xs) 0
    simp only [List.map_cons] at hf
    rw [hf]
    exact ⟨_, _, rfl, rfl, rfl, rfl⟩

end Bisquitt.Sys

/-! ## the REGISTER exchange: both sides end up with the same name ↔ ID binding -/

namespace Bisquitt.Gw
open Bisquitt Gw

/-- **C26 (REGISTER exchange, gateway side).** A REGISTER of a new plain name is acknowledged with a
    TopicID that from then on denotes exactly that name in the gateway. -/
theorem c26_register_gateway (g g' : Gw) (mid id : UInt16) (name : Bytes) (hw : hasWildcard name = false)
    (hn : g.findRegisteredId name = none) (ha : g.newTopicId = (some id, g')) :
    g.handleRegister mid name = (g'.storeRegistered id name).snSend (.regack id mid Gen.RC_ACCEPTED) ∧
    (g.handleRegister mid name).registered.lookup id = some name := by
  have h1 : g.handleRegister mid name = (g'.storeRegistered id name).snSend (.regack id mid Gen.RC_ACCEPTED) := by
    unfold handleRegister
    simp [hw, hn, ha]
  refine ⟨h1, ?_⟩
  rw [h1]
  unfold snSend storeRegistered
  split
  · simp
  · simp [emit]

/-- … and of a name registered already with the ID it has. -/
theorem c26_register_gateway_known (g : Gw) (mid id : UInt16) (name : Bytes) (hw : hasWildcard name = false)
    (hn : g.findRegisteredId name = some id) :
    g.handleRegister mid name = g.snSend (.regack id mid Gen.RC_ACCEPTED) := by
  unfold handleRegister
  simp [hw, hn]

end Bisquitt.Gw

namespace Bisquitt.Cl
open Bisquitt Cl

/-- **C26 (REGISTER exchange, client side).** The accepted REGACK of its REGISTER makes the client
    know the name under the gateway's TopicID, and ends the exchange successfully. -/
theorem c26_register_client (c : Cl) (t : Tx) (id mid : UInt16) (name : Bytes)
    (hl : c.lookupById mid = some t) (hk : t.kind = .register name) :
    c.handlePacket (.regack id mid Gen.RC_ACCEPTED) =
      ({ c with registered := (name, id) :: c.registered } : Cl).finishTx t.id .ok ∧
    (c.handlePacket (.regack id mid Gen.RC_ACCEPTED)).registered.lookup name = some id := by
  have h1 : c.handlePacket (.regack id mid Gen.RC_ACCEPTED) =
      ({ c with registered := (name, id) :: c.registered } : Cl).finishTx t.id .ok := by
    unfold handlePacket
    simp [hl, hk]
  refine ⟨h1, ?_⟩
  rw [h1]
  have : ∀ (d : Cl) (i : Nat) (e : Err), (d.finishTx i e).registered = d.registered := by
    intro d i e
    unfold finishTx
    split
    · split
      · rfl
      · unfold runFinally; split <;> (try split) <;> rfl
    · rfl
  rw [this]
  simp

end Bisquitt.Cl

/-! ## the SUBSCRIBE exchange -/

namespace Bisquitt.Cl
open Bisquitt Cl

theorem finishTx_tables (d : Cl) (i : Nat) (e : Err) :
    (d.finishTx i e).registered = d.registered ∧ (d.finishTx i e).handlers = d.handlers := by
  unfold finishTx
  split
  · split
    · exact ⟨rfl, rfl⟩
    · unfold runFinally; split <;> (try split) <;> exact ⟨rfl, rfl⟩
  · exact ⟨rfl, rfl⟩

/-- **C26 (SUBSCRIBE exchange, client side).** The accepted SUBACK of a subscription to a plain
    name installs the handler for that name and, when the gateway assigned a TopicID (C03:
    `c03_suback`, the ID it registered the name under — `c26_subscribe_keeps_id`), makes the
    client know the name under that ID. -/
theorem c26_subscribe_client (c : Cl) (t : Tx) (label name : Bytes) (fl : UInt8) (tid mid stid : UInt16) (d : Bool) (q : UInt8)
    (hl : c.lookupById mid = some t) (hk : t.kind = .subscribe label)
    (hd : t.data = some (.subscribe d q Gen.TIT_STRING mid stid name)) (hz : tid ≠ 0) :
    (c.handlePacket (.suback fl tid mid Gen.RC_ACCEPTED)).registered.lookup name = some tid ∧
    (c.handlePacket (.suback fl tid mid Gen.RC_ACCEPTED)).handlers.lookup name = some label := by
  unfold handlePacket
  simp only [hl, hk, hd]
  simp only [ne_eq, not_true_eq_false, if_false, if_true, hz, not_false_eq_true]
  rw [(finishTx_tables _ _ _).1, (finishTx_tables _ _ _).2]
  simp

end Bisquitt.Cl
