/-
  C30 — Predefined-topic configuration means the same in every tool.

  All three tools compute their mapping as `Cli.effective file options` (tie: the regenerated AST
  facts `Gen.cliPipeline_*` say that each tool's action calls ReadPredefinedTopicsFile, then
  ParsePredefinedTopicOptions, then Merge of the options INTO the file's map, and the cli suite
  runs the real tools).  Theorems, for ALL files, option lists, clients and IDs:
  * `entry_add`, `c30_merge`: `Merge` overrides entry by entry — the result binds (client, ID) to
    the option's name when the options bind it, otherwise to the file's;
  * `c30_options_later_wins`: among the options, a later one overrides an earlier one for the same
    (client, ID), and only for it;
  * `c30_no_client_is_star`: an option without a client ID is an entry of "*", which
    `GetTopicName` applies to every client that has no entry of its own (C05 `c05_name`);
  * `c30_effective`: the binding the tools use = the last option for (client, ID), else the file's;
  * `c30_bad_option_refuses`: an option that does not parse makes the tool refuse to start, never
    silently ignore it.
-/
import Bisquitt.Model.Cli
import Bisquitt.Props.C05
import Bisquitt.Gen.Facts

namespace Bisquitt.Cli
open Bisquitt Predef

theorem lookup_cons_self {α β} [BEq α] [LawfulBEq α] (a : α) (b : β) (l : List (α × β)) :
    ((a, b) :: l).lookup a = some b := by simp [List.lookup_cons]

/-- `Add` binds exactly one (client, ID) pair -/
theorem entry_add (t : Predef) (c n : Bytes) (id : UInt16) (c' : Bytes) (id' : UInt16) :
    entry (t.add c n id) c' id' = if c' = c ∧ id' = id then some n else entry t c' id' := by
  unfold entry Predef.add
  by_cases hc : c' = c
  · subst hc
    cases h : t.lookup c' with
    | none =>
      simp only [List.lookup_cons, beq_self_eq_true, Option.bind_some, h, Option.bind_none]
      by_cases hi : id' = id
      · subst hi; simp
      · have : (id' == id) = false := by simpa using hi
        simp [List.lookup_cons, this, hi]
    | some m =>
      simp only [List.lookup_cons, beq_self_eq_true, Option.bind_some]
      by_cases hi : id' = id
      · subst hi; simp
      · have : (id' == id) = false := by simpa using hi
        simp [this, hi]
  · have hb : (c' == c) = false := by simpa using hc
    cases h : t.lookup c <;> simp [List.lookup_cons, hb, hc]

theorem lookup_isSome_iff {α β} [BEq α] [LawfulBEq α] (l : List (α × β)) (a : α) :
    (l.lookup a).isSome ↔ a ∈ l.map (·.1) := by
  induction l with
  | nil => simp
  | cons x xs ih =>
    obtain ⟨k, v⟩ := x
    simp only [List.lookup_cons, List.map_cons, List.mem_cons]
    by_cases h : a = k
    · subst h; simp
    · have : (a == k) = false := by simpa using h
      simp [this, h, ih]

/-- the inner loop of `Merge` for one client: every live entry of `m` is (re)bound -/
theorem entry_foldl_ids (m : TopicMap) (c : Bytes) (ids : List UInt16) : ∀ (acc : Predef) (c' : Bytes) (id' : UInt16),
    entry (mergeIds m c ids acc) c' id' =
      if c' = c ∧ id' ∈ ids ∧ (m.lookup id').isSome then m.lookup id' else entry acc c' id' := by
  induction ids with
  | nil => intro acc c' id'; simp [mergeIds]
  | cons i rest ih =>
    intro acc c' id'
    have hstep : mergeIds m c (i :: rest) acc =
        mergeIds m c rest (match m.lookup i with | some n => acc.add c n i | none => acc) := rfl
    rw [hstep, ih]
    cases hm : m.lookup i with
    | none =>
      simp only
      by_cases hc : c' = c
      · by_cases hi : id' = i
        · subst hi; simp [hm]
        · have h : (id' ∈ i :: rest) ↔ id' ∈ rest := by simp [hi]
          simp only [h]
      · simp [hc]
    | some n =>
      simp only [entry_add]
      by_cases hc : c' = c
      · by_cases hi : id' = i
        · subst hi; simp [hc, hm]
        · have h : (id' ∈ i :: rest) ↔ id' ∈ rest := by simp [hi]
          simp only [h, hi, and_false, if_false]
      · simp [hc]

theorem mem_liveIds (m : TopicMap) (id : UInt16) : id ∈ liveIds m ↔ (m.lookup id).isSome := by
  unfold liveIds
  rw [List.mem_eraseDups, lookup_isSome_iff]

/-- making sure the client has an inner map changes no binding -/
theorem entry_ensure (acc : Predef) (c c' : Bytes) (id' : UInt16) :
    entry (ensureClient acc c) c' id' = entry acc c' id' := by
  unfold ensureClient
  cases h : acc.lookup c with
  | some _ => rfl
  | none =>
    simp only
    unfold entry
    by_cases hc : c' = c
    · subst hc; simp [List.lookup_cons, h]
    · have : (c' == c) = false := by simpa using hc
      simp [List.lookup_cons, this]

/-- one client of `src` merged in -/
theorem entry_merge_client (src : Predef) (acc : Predef) (c c' : Bytes) (id' : UInt16) :
    entry (mergeClient src acc c) c' id' =
    if c' = c ∧ (entry src c' id').isSome then entry src c' id' else entry acc c' id' := by
  unfold mergeClient
  cases hs : src.lookup c with
  | none =>
    simp only
    by_cases hc : c' = c
    · subst hc; simp [entry, hs]
    · simp [hc]
  | some m =>
    simp only
    rw [entry_foldl_ids, entry_ensure]
    by_cases hc : c' = c
    · subst hc
      simp only [true_and, entry, hs, Option.bind_some, mem_liveIds]
      by_cases h : (m.lookup id').isSome <;> simp [h]
    · simp [hc]

theorem entry_merge_clients (src : Predef) (cs : List Bytes) : ∀ (acc : Predef) (c' : Bytes) (id' : UInt16),
    entry (cs.foldl (mergeClient src) acc) c' id' =
    if c' ∈ cs ∧ (entry src c' id').isSome then entry src c' id' else entry acc c' id' := by
  induction cs with
  | nil => intro acc c' id'; simp
  | cons c rest ih =>
    intro acc c' id'
    simp only [List.foldl_cons]
    rw [ih, entry_merge_client]
    by_cases hs : (entry src c' id').isSome
    · by_cases h1 : c' ∈ rest
      · simp [h1, hs]
      · by_cases h2 : c' = c
        · subst h2; simp [h1, hs]
        · have h : (c' ∈ c :: rest) ↔ c' ∈ rest := by simp [h2]
          simp only [h, h1, h2, false_and, if_false]
    · simp [hs]

/-- **C30 (Merge is entry by entry).** The merged map binds (client, ID) to `src`'s name where
    `src` binds it and to the receiver's otherwise. -/
theorem c30_merge (t src : Predef) (c : Bytes) (id : UInt16) :
    entry (t.merge src) c id = match entry src c id with
      | some n => some n
      | none => entry t c id := by
  unfold Predef.merge
  rw [entry_merge_clients]
  cases hs : entry src c id with
  | none => simp
  | some n =>
    have hc : c ∈ (src.map (·.1)).eraseDups := by
      rw [List.mem_eraseDups, ← lookup_isSome_iff]
      unfold entry at hs
      cases h : src.lookup c with
      | none => simp [h] at hs
      | some _ => rfl
    simp [hc]

/-- one more option after a list that parsed -/
theorem parseOptions_snoc (opts : List Bytes) (o : Bytes) :
    parseOptions (opts ++ [o]) = (parseOptions opts).bind fun acc => optStep acc o := by
  unfold parseOptions
  rw [List.foldlM_append]
  cases h : List.foldlM optStep [] opts with
  | none => rfl
  | some acc => simp [List.foldlM_cons, List.foldlM_nil]

/-- **C30 (later options override earlier ones, for the same client and ID only).** -/
theorem c30_options_later_wins (opts : List Bytes) (o : Bytes) (acc : Predef) (c n : Bytes) (id : UInt16)
    (h1 : parseOptions opts = some acc) (h2 : parseOption o = some (c, n, id)) (c' : Bytes) (id' : UInt16) :
    ∃ r, parseOptions (opts ++ [o]) = some r ∧
      entry r c' id' = if c' = c ∧ id' = id then some n else entry acc c' id' := by
  refine ⟨acc.add c n id, ?_, entry_add acc c n id c' id'⟩
  rw [parseOptions_snoc, h1]
  simp [optStep, h2]

/-- **C30 (an option without a client ID is an entry of "*").** -/
theorem c30_no_client_is_star (line name idS : Bytes) (h : splitOn 0x3B line = [name, idS]) :
    parseOption line = (parseUint16 idS).map fun id => (starId, name, id) := by
  unfold parseOption; rw [h]

theorem c30_with_client (line c name idS : Bytes) (h : splitOn 0x3B line = [c, name, idS]) :
    parseOption line = (parseUint16 idS).map fun id => (c, name, id) := by
  unfold parseOption; rw [h]

theorem foldlM_none_of_bad (f : Predef → Bytes → Option Predef) (bad : Bytes) (hbad : ∀ acc, f acc bad = none) :
    ∀ (opts : List Bytes), bad ∈ opts → ∀ acc, opts.foldlM f acc = none := by
  intro opts
  induction opts with
  | nil => intro h; simp at h
  | cons x xs ih =>
    intro h acc
    simp only [List.foldlM_cons]
    rcases List.mem_cons.mp h with rfl | h
    · simp [hbad]
    · cases f acc x with
      | none => rfl
      | some a => exact ih h a

/-- **C30 (a malformed option is never ignored).** -/
theorem c30_bad_option_refuses (yaml : Predef) (opts : List Bytes) (o : Bytes) (ho : o ∈ opts) (hb : parseOption o = none) :
    effective yaml opts = none := by
  unfold effective parseOptions
  rw [foldlM_none_of_bad _ o (by intro acc; simp [optStep, hb]) opts ho]
  rfl

/-- **C30 (the mapping every tool uses).** The file's binding, overridden entry by entry by the
    options' binding. -/
theorem c30_effective (yaml : Predef) (opts : List Bytes) (m : Predef) (h : effective yaml opts = some m) :
    ∃ o, parseOptions opts = some o ∧ ∀ c id, entry m c id = match entry o c id with
      | some n => some n
      | none => entry yaml c id := by
  unfold effective at h
  cases ho : parseOptions opts with
  | none => simp [ho] at h
  | some o =>
    simp only [ho, Option.map_some, Option.some.injEq] at h
    subst h
    exact ⟨o, rfl, fun c id => c30_merge yaml o c id⟩

/-- … and what a client then reads for an ID: its own binding, otherwise the "*" binding -/
theorem c30_reads (m : Predef) (c : Bytes) (id : UInt16) :
    m.getTopicName c id = match entry m c id with
      | some n => some n
      | none => entry m starId id := by
  unfold Predef.getTopicName entry; rfl

/-- non-vacuity: file {c1: {1: a}, *: {2: b}}, options "c1;x;1" and "y;2" and again "c1;z;1":
    c1 reads 1 as z (last option) and 2 as y (the "*" option) -/
example : (effective (fromYaml [([0x63, 0x31], 1, [0x61]), ([0x2A], 2, [0x62])] [])
      [[0x63, 0x31, 0x3B, 0x78, 0x3B, 0x31], [0x79, 0x3B, 0x32], [0x63, 0x31, 0x3B, 0x7A, 0x3B, 0x31]]).map
      (fun m => (m.getTopicName [0x63, 0x31] 1, m.getTopicName [0x63, 0x31] 2)) =
    some (some [0x7A], some [0x79]) := by decide

/-! ### the three tools run the same pipeline (regenerated facts) -/

/-- the statements of a tool's action that touch the predefined-topics mapping, each with the
    conditions it is guarded by (extracted from cmd/*/actions.go on every run) -/
def expectedPipeline : List String := [
  " :: predefinedTopics := topics.PredefinedTopics{}",
  "c.IsSet(PredefinedTopicsFileFlag) :: v, err := topics.ReadPredefinedTopicsFile(c.Path(PredefinedTopicsFileFlag))",
  "c.IsSet(PredefinedTopicsFileFlag) :: predefinedTopics = v",
  "c.IsSet(PredefinedTopicFlag) :: v, err := topics.ParsePredefinedTopicOptions(c.StringSlice(PredefinedTopicFlag)...)",
  "c.IsSet(PredefinedTopicFlag) :: predefinedTopics.Merge(v)"]

/-- **C30 (same pipeline).** All three tools: the file first, then the options parsed as a whole,
    merged INTO the file's map (so options take precedence); pub and sub then only look IDs up. -/
theorem c30_same_pipeline :
    Gen.cliPipeline_bisquitt = expectedPipeline ∧
    Gen.cliPipeline_bisquitt_pub = expectedPipeline ++
      [" :: topicID, isPredefinedTopic := predefinedTopics.GetTopicID(clientID, topic)"] ∧
    Gen.cliPipeline_bisquitt_sub = expectedPipeline ++
      ["range topicList :: topicID, isPredefinedTopic := predefinedTopics.GetTopicID(clientID, topic)"] :=
  ⟨rfl, rfl, rfl⟩

end Bisquitt.Cli
