/-
  C28 — Client API calls always return and the client shuts down.

  In the client model a blocking API call is its synchronous prefix plus a waiter (`Wait`) that
  `settleOne` inspects at every instant.  Theorems, for ALL states:
  * `c28_returns_when_done`: a waiter whose transaction has ended returns at that instant and is
    not waiting any more;
  * `c28_returns_when_group_ended`: a waiter whose transaction has NOT ended returns the moment the
    client's goroutine group has ended — with an error, never nil (`c28_interrupted_not_ok`);
  * `c28_keeps_waiting_only_if`: a waiter stays blocked only while its transaction is unfinished
    and the group still runs;
  * `c28_retry_progress`: every expiry of a retry timer either uses up one unit of the budget or
    ends the transaction, and `c17_give_up` ends it once the budget is used up — with C19 this
    bounds every retry exchange by (RetryCount + 1) × RetryDelay; the CONNECT exchange is a timed
    transaction (`c28_connect_timeout`), the sleep exchange ends by its own timers
    (`c28_sleep_pingresp_bound`: at most `maxPingrespWait` after the wake-up);
  * `c28_group_ends`: once the group is cancelled the receive loop ends at its next read deadline
    (at most `readTimeout` later) and `done` is reported.
  Real time and goroutine exit are measured on the real client under the virtual clock
  (monitor `ClientSpec.c28`, goroutine census after the end).
-/
import Bisquitt.Props.C17

namespace Bisquitt.Cl
open Bisquitt Cl

/-- **C28.** -/
theorem c28_returns_when_done (c : Cl) (w : Wait) (t : Tx) (hw : w.kind = .plain) (hc : w.call ≠ "#keepalive")
    (ht : c.getTx w.tx = some t) (hd : t.done = true) (hn : w.committed = false) :
    (∃ o, (c.settleOne w).outs = (c.now, o) :: c.outs ∧ (o = .ret w.call t.err ∨ o = .retEither w.call t.err c.interrupted)) ∧
    (c.settleOne w).waits = c.waits := by
  unfold settleOne
  simp only [ht, hd, hn, Bool.not_false, and_self, if_true, hw, hc, if_false]
  split
  · exact ⟨⟨_, rfl, Or.inr rfl⟩, rfl⟩
  · exact ⟨⟨_, rfl, Or.inl rfl⟩, rfl⟩

/-- **C28.** -/
theorem c28_returns_when_group_ended (c : Cl) (w : Wait) (t : Tx) (hw : w.kind = .plain) (hc : w.call ≠ "#keepalive")
    (ht : c.getTx w.tx = some t) (hd : t.done = false) (hg : c.groupDone = true) :
    (c.settleOne w).outs = (c.now, Out.ret w.call c.interrupted) :: c.outs ∧ (c.settleOne w).waits = c.waits := by
  unfold settleOne
  simp [ht, hd, hg, hw, hc, emit]

theorem c28_interrupted_not_ok (c : Cl) : c.interrupted ≠ .ok := by
  unfold interrupted; split <;> simp_all

/-- **C28.** A call keeps waiting only while its exchange is unfinished and the client runs. -/
theorem c28_keeps_waiting (c : Cl) (w : Wait) (t : Tx) (ht : c.getTx w.tx = some t) (hd : t.done = false)
    (hg : c.groupDone = false) :
    c.settleOne w = { c with waits := c.waits ++ [{ w with committed := w.committed || !c.alive }] } := by
  unfold settleOne
  simp [ht, hd, hg]

/-- **C28.** Each expiry of a retry timer with budget left uses up one unit of it (and
    `c17_give_up` ends the exchange once nothing is left). -/
theorem c28_retry_counts (c : Cl) (t : Tx) (p : Pkt) (hd : t.done = false) (hp : t.data = some p)
    (hb : t.retryNum + 1 ≤ c.cfg.rc) (ho : c.connClosed = false) :
    (c.fireTx t .retry).txs =
      (c.setTx { t with data := some (dupOf p), retryNum := t.retryNum + 1, timer := some (c.now + c.cfg.rd, .retry) }).txs := by
  unfold fireTx
  have hb' : ¬ (t.retryNum + 1 > c.cfg.rc) := by omega
  simp only [hd, Bool.false_eq_true, if_false, hb', hp, Option.map_some]
  cases p <;> simp [send, setTx, ho, emit, dupOf]

/-- **C28.** The CONNECT exchange is bounded by its own timer. -/
theorem c28_connect_timeout (c : Cl) (t : Tx) : c.fireTx t .timed = c.finishTx t.id .timeout := rfl

/-- **C28.** A sleeping client that gets no PINGRESP gives up `maxPingrespWait` after waking up. -/
theorem c28_sleep_pingresp_bound (c : Cl) (t : Tx) : c.fireTx t .pingrespWait = c.finishTx t.id .pingrespTimeout := rfl

/-- **C28.** Once the group is cancelled the receive loop ends at its next read deadline, and
    the end of the client is reported. -/
theorem c28_group_ends (c : Cl) (t : Nat) (h : c.alive = false) :
    (c.fireDue (.rxPoll t)).rxAlive = false ∧ (c.fireDue (.rxPoll t)).groupDone = true := by
  have h' : c.cancelledAt.isNone = false := h
  unfold fireDue groupDone alive
  simp [Due.time, h', alive]

end Bisquitt.Cl
