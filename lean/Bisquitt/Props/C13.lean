/-
  C13 — Sessions always terminate cleanly and release everything.

  Theorems about the model, for ALL states:
  * `c13_end`: when the session context has been cancelled, ending the session emits — at the
    cancellation time — a DISCONNECT to the client exactly when it was active or awake, then the
    end marker and the closing of the broker connection, stops every timer and pinger, and does
    so once (`c13_end_once`);
  * `c13_causes`: gateway shutdown, broker EOF, broker garbage, an undecodable datagram and an
    illegal packet each cancel the session (`alive = false`) in the very step that handles them,
    and `c13_step_ends`: the same scripted step emits the end;
  * `c13_plain_disconnect`: the client's own DISCONNECT is answered, the state becomes
    disconnected first (so the end sends no second DISCONNECT), and the session is cancelled.
  Bounded real time (poll interval, pending send) and goroutine exit are runtime facts: they are
  measured by the harness on the real handler (virtual clock, goroutine census after the end)
  and checked by the monitor `Spec.c13`.
-/
import Bisquitt.Lemmas.GwSt
import Bisquitt.Props.C07
import Bisquitt.Spec.Gateway

namespace Bisquitt.Gw
open Bisquitt Gw

/-- **C13 (the end).** -/
theorem c13_end (g : Gw) (tc : Nat) (hc : g.cancelledAt = some tc) (he : g.endedEmitted = false) :
    g.finishSession.outs =
      (tc, Out.mqClose) :: (tc, Out.ended g.endCls) ::
        ((if g.st = .active ∨ g.st = .awake then [(tc, Out.sn (encode (.disconnect 0)))] else []) ++ g.outs) ∧
    g.finishSession.endedEmitted = true ∧ g.finishSession.pingers = [] ∧
    ∀ t ∈ g.finishSession.txs, t.timer = none := by
  unfold finishSession
  simp only [hc, he, Bool.false_eq_true, if_false]
  unfold stopTimers emitEnd shutdownDisconnect
  refine ⟨?_, rfl, rfl, ?_⟩
  · split <;> simp_all [emit, setNow]
  · intro t ht
    simp only [List.mem_map] at ht
    obtain ⟨y, _, rfl⟩ := ht
    rfl

theorem c13_end_once (g : Gw) (he : g.endedEmitted = true) : g.finishSession = g := by
  unfold finishSession; split <;> simp [he]

/-- **C13 (causes).** Shutdown, broker EOF or garbage, and undecodable datagrams cancel the session. -/
theorem c13_causes (g : Gw) (ev : Event)
    (h : ev = .shutdown ∨ ev = .mqEof ∨ ev = .mqGarbage ∨
      (∃ bytes, ev = .sn bytes ∧ ∀ hp, decode (bytes.take Gen.MaxPacketLen) ≠ .ok hp) ∨
      (∃ bytes hd p, ev = .sn bytes ∧ decode (bytes.take Gen.MaxPacketLen) = .ok (hd, p) ∧ g.packetLegal p = false)) :
    (g.handleEvent ev).alive = false := by
  rcases h with rfl | rfl | rfl | ⟨bytes, rfl, hb⟩ | ⟨bytes, hd, p, rfl, hdec, hl⟩
  · simp [handleEvent, fail_alive]
  · simp only [handleEvent]; split <;> exact fail_alive _ _
  · simp [handleEvent, fail_alive]
  · simp only [handleEvent]
    split
    · rename_i h1 p1 hd1
      exact absurd hd1 (hb _)
    · exact fail_alive _ _
  · simp only [handleEvent, hdec]
    exact (c07_illegal g p hl).2

theorem finishSession_emitted (g : Gw) (h : g.alive = false) : g.finishSession.endedEmitted = true := by
  unfold finishSession
  split
  · split
    · assumption
    · rfl
  · rename_i hn
    simp [alive, hn] at h

theorem finishSession_alive (g : Gw) : g.finishSession.alive = g.alive := by
  unfold finishSession
  split
  · split
    · rfl
    · unfold stopTimers emitEnd shutdownDisconnect
      split <;> rfl
  · rfl

/-- **C13.** The step that cancels the session also emits its end. -/
theorem c13_step_ends (g : Gw) (t : Nat) (ev : Event) (h : ((advance 100000 g t).handleEvent ev).alive = false) :
    (g.step t ev).endedEmitted = true := by
  have key : ((advance 100000 g t).deliver t ev).endedEmitted = true := by
    unfold deliver
    split
    · rename_i h0
      exact finishSession_emitted _ (by simpa using h0)
    · -- the handler cancelled the session: `advance` ends it at once
      have : (advance 100000 ((advance 100000 g t).handleEvent ev) t).endedEmitted = true := by
        show (advance (99999 + 1) _ t).endedEmitted = true
        unfold advance
        simp only [h, Bool.not_false, if_true]
        exact finishSession_emitted _ h
      rw [c13_end_once _ this]
      exact this
  unfold step stepCore sample sampleBuf sampleReg sampleState
  repeat' split
  all_goals simp_all [emit]

/-- **C13.** The client's own DISCONNECT: answered, state disconnected, session cancelled. -/
theorem c13_plain_disconnect (g : Gw) :
    g.handlePlainDisconnect.outs = (g.now, Out.sn (encode (.disconnect 0))) :: (g.now, Out.mq .disconnect) :: g.outs ∧
    g.handlePlainDisconnect.st = .disconnected ∧ g.handlePlainDisconnect.alive = false := by
  unfold handlePlainDisconnect
  refine ⟨?_, by simp, fail_alive _ _⟩
  simp [snSend, mqttSend, emit, setSt]

end Bisquitt.Gw
