/-
  C13 — Sessions always terminate cleanly and release everything.

  Theorems about the model, for ALL states:
  * `c13_end`: when the session context has been cancelled, ending the session emits — at the
    cancellation time — a DISCONNECT to the client exactly when it was active or awake, then the
    end marker and the closing of the broker connection, stops every timer and pinger, and does
    so once (`c13_end_once`);
  * `c13_causes`: gateway shutdown, broker EOF, broker garbage, an undecodable datagram and an
    illegal packet each cancel the session (`alive = false`) in the very step that handles them,
    and `c13_step_ends`: the same scripted step emits the end;
  * `c13_plain_disconnect`: the client's own DISCONNECT is answered, the state becomes
    disconnected first (so the end sends no second DISCONNECT), and the session is cancelled.
  * **all runs** — `c13_step_reaches_ended` + `c13_ended_runs_are_silent`: the step in which a session
    is cancelled leaves it `Ended`, and from an `Ended` session ANY further sequence of events and any
    passage of time emits nothing at all — no datagram, no MQTT packet, no second end;
  Bounded real time (poll interval, pending send) and goroutine exit are runtime facts: they are
  measured by the harness on the real handler (virtual clock, goroutine census after the end)
  and checked by the monitor `Spec.c13`.
-/
import Bisquitt.Lemmas.GwSt
import Bisquitt.Props.C07
import Bisquitt.Spec.Gateway

namespace Bisquitt.Gw
open Bisquitt Gw

/-- **C13 (the end).** -/
theorem c13_end (g : Gw) (tc : Nat) (hc : g.cancelledAt = some tc) (he : g.endedEmitted = false) :
    g.finishSession.outs =
      (tc, Out.mqClose) :: (tc, Out.ended g.endCls) ::
        ((if g.st = .active ∨ g.st = .awake then [(tc, Out.sn (encode (.disconnect 0)))] else []) ++ g.outs) ∧
    g.finishSession.endedEmitted = true ∧ g.finishSession.pingers = [] ∧
    ∀ t ∈ g.finishSession.txs, t.timer = none := by
  unfold finishSession
  simp only [hc, he, Bool.false_eq_true, if_false]
  unfold stopTimers emitEnd shutdownDisconnect
  refine ⟨?_, rfl, rfl, ?_⟩
  · split <;> simp_all [emit, setNow]
  · intro t ht
    simp only [List.mem_map] at ht
    obtain ⟨y, _, rfl⟩ := ht
    rfl

theorem c13_end_once (g : Gw) (he : g.endedEmitted = true) : g.finishSession = g := by
  unfold finishSession; split <;> simp [he]

/-- **C13 (causes).** Shutdown, broker EOF or garbage, and undecodable datagrams cancel the session. -/
theorem c13_causes (g : Gw) (ev : Event)
    (h : ev = .shutdown ∨ ev = .mqEof ∨ ev = .mqGarbage ∨
      (∃ bytes, ev = .sn bytes ∧ ∀ hp, decode (bytes.take Gen.MaxPacketLen) ≠ .ok hp) ∨
      (∃ bytes hd p, ev = .sn bytes ∧ decode (bytes.take Gen.MaxPacketLen) = .ok (hd, p) ∧ g.packetLegal p = false)) :
    (g.handleEvent ev).alive = false := by
  rcases h with rfl | rfl | rfl | ⟨bytes, rfl, hb⟩ | ⟨bytes, hd, p, rfl, hdec, hl⟩
  · simp [handleEvent, fail_alive]
  · simp only [handleEvent]; split <;> exact fail_alive _ _
  · simp [handleEvent, fail_alive]
  · simp only [handleEvent]
    split
    · rename_i h1 p1 hd1
      exact absurd hd1 (hb _)
    · exact fail_alive _ _
  · simp only [handleEvent, hdec]
    have hd := (c07_illegal g p hl).2
    have : (g.handleSn p).keepBrokerAlive = g.handleSn p := by
      unfold keepBrokerAlive; simp [hd]
    rw [this]; exact hd

theorem finishSession_emitted (g : Gw) (h : g.alive = false) : g.finishSession.endedEmitted = true := by
  unfold finishSession
  split
  · split
    · assumption
    · rfl
  · rename_i hn
    simp [alive, hn] at h

theorem finishSession_alive (g : Gw) : g.finishSession.alive = g.alive := by
  unfold finishSession
  split
  · split
    · rfl
    · unfold stopTimers emitEnd shutdownDisconnect
      split <;> rfl
  · rfl

/-- **C13.** The step that cancels the session also emits its end. -/
theorem c13_step_ends (g : Gw) (t : Nat) (ev : Event) (h : ((advance 100000 g t).handleEvent ev).alive = false) :
    (g.step t ev).endedEmitted = true := by
  have key : ((advance 100000 g t).deliver t ev).endedEmitted = true := by
    unfold deliver
    split
    · rename_i h0
      exact finishSession_emitted _ (by simpa using h0)
    · -- the handler cancelled the session: `advance` ends it at once
      have : (advance 100000 ((advance 100000 g t).handleEvent ev) t).endedEmitted = true := by
        show (advance (99999 + 1) _ t).endedEmitted = true
        unfold advance
        simp only [h, Bool.not_false, if_true]
        exact finishSession_emitted _ h
      rw [c13_end_once _ this]
      exact this
  unfold step stepCore sample sampleBuf sampleReg sampleState
  repeat' split
  all_goals simp_all [emit]

/-- **C13.** The client's own DISCONNECT: answered, state disconnected, session cancelled. -/
theorem c13_plain_disconnect (g : Gw) :
    g.handlePlainDisconnect.outs = (g.now, Out.sn (encode (.disconnect 0))) :: (g.now, Out.mq .disconnect) :: g.outs ∧
    g.handlePlainDisconnect.st = .disconnected ∧ g.handlePlainDisconnect.alive = false := by
  unfold handlePlainDisconnect
  refine ⟨?_, by simp, fail_alive _ _⟩
  simp [snSend, mqttSend, emit, setSt]

end Bisquitt.Gw

namespace Bisquitt.Gw
open Bisquitt Gw

/-! ## every run: a session that has ended does nothing any more -/

/-- the session has ended and the instrumentation has reported its last state -/
def Ended (g : Gw) : Prop :=
  g.alive = false ∧ g.endedEmitted = true ∧ g.sampledState = g.st ∧ g.sampledReg = g.liveRegistry ∧ g.sampledBuf = g.bufferBytes

theorem finishSession_ended (g : Gw) (_h : g.alive = false) (he : g.endedEmitted = true) : g.finishSession = g := by
  unfold finishSession
  split
  · simp [he]
  · rfl

theorem sample_ended (g : Gw) (h : Ended g) : g.sample = g := by
  unfold sample sampleBuf sampleReg sampleState
  obtain ⟨_, _, h1, h2, h3⟩ := h
  simp [h1.symm, h2.symm, h3.symm]

theorem advance_ended (fuel : Nat) (g : Gw) (t : Nat) (h : g.alive = false) (he : g.endedEmitted = true) :
    advance fuel g t = g.setNow (max g.now t) := by
  cases fuel with
  | zero => rfl
  | succ n => unfold advance; simp [h, finishSession_ended g h he]

/-- **C13 (one whole step).** Once a session has ended, no event and no passage of time makes it emit
    anything: no datagram, no MQTT packet, no second end. -/
theorem c13_ended_step (g : Gw) (t : Nat) (ev : Event) (h : Ended g) :
    (g.step t ev).outs = g.outs ∧ Ended (g.step t ev) := by
  obtain ⟨ha, he, h1, h2, h3⟩ := h
  unfold step stepCore deliver
  rw [advance_ended _ g t ha he]
  have ha' : (g.setNow (max g.now t)).alive = false := by simpa [setNow, alive] using ha
  have he' : (g.setNow (max g.now t)).endedEmitted = true := by simpa [setNow] using he
  simp only [ha', Bool.not_false, if_true]
  rw [finishSession_ended _ ha' he']
  have hE : Ended (g.setNow (max g.now t)) := ⟨ha', he', h1, h2, h3⟩
  rw [sample_ended _ hE]
  exact ⟨rfl, hE⟩

/-- **C13 (ALL runs).** After its end a session is silent for ever, whatever still arrives. -/
theorem c13_ended_runs_are_silent (g : Gw) (evs : List (Nat × Event)) (h : Ended g) :
    (g.run evs).outs = g.outs ∧ Ended (g.run evs) := by
  unfold run
  induction evs generalizing g with
  | nil => exact ⟨rfl, h⟩
  | cons e rest ih =>
    simp only [List.foldl_cons]
    have q := c13_ended_step g e.1 e.2 h
    have q2 := ih _ q.2
    exact ⟨q2.1.trans q.1, q2.2⟩

theorem finishSession_marks (g : Gw) (h : g.alive = false) : g.finishSession.endedEmitted = true ∧ g.finishSession.alive = false := by
  unfold finishSession
  cases hc : g.cancelledAt with
  | none => simp [alive, hc] at h
  | some tc =>
    simp only
    split
    · rename_i he; exact ⟨he, h⟩
    · unfold stopTimers emitEnd shutdownDisconnect setNow
      split <;> simp [alive, emit, hc]

theorem sample_syncs (g : Gw) : g.sample.sampledState = g.sample.st ∧ g.sample.sampledReg = g.sample.liveRegistry ∧
    g.sample.sampledBuf = g.sample.bufferBytes ∧ g.sample.alive = g.alive ∧ g.sample.endedEmitted = g.endedEmitted := by
  unfold sample sampleBuf sampleReg sampleState
  split <;> split <;> split <;> simp_all [emit, liveRegistry, bufferBytes, alive]

/-- **C13.** The step in which a session is cancelled leaves it `Ended`: from then on
    `c13_ended_runs_are_silent` applies. -/
theorem c13_step_reaches_ended (g : Gw) (t : Nat) (ev : Event) (h : (g.step t ev).alive = false) : Ended (g.step t ev) := by
  have hs := sample_syncs (g.stepCore t ev)
  have ha : (g.stepCore t ev).alive = false := by rw [← hs.2.2.2.1]; exact h
  have he : (g.stepCore t ev).endedEmitted = true := by
    unfold stepCore deliver at ha ⊢
    split
    · rename_i hd
      exact (finishSession_marks _ (by simpa using hd)).1
    · rename_i hd
      have : ((advance 100000 ((advance 100000 g t).handleEvent ev) t).finishSession).alive = false := by
        simpa [hd] using ha
      by_cases hx : (advance 100000 ((advance 100000 g t).handleEvent ev) t).alive = false
      · exact (finishSession_marks _ hx).1
      · -- still alive before `finishSession`: it changes nothing, contradiction
        have hx' : (advance 100000 ((advance 100000 g t).handleEvent ev) t).cancelledAt = none := by
          cases hc : (advance 100000 ((advance 100000 g t).handleEvent ev) t).cancelledAt with
          | none => rfl
          | some _ => simp [alive, hc] at hx
        have e : (advance 100000 ((advance 100000 g t).handleEvent ev) t).finishSession =
            advance 100000 ((advance 100000 g t).handleEvent ev) t := by unfold finishSession; simp [hx']
        rw [e] at this
        exact absurd this hx
  unfold step
  exact ⟨h, by rw [hs.2.2.2.2]; exact he, hs.1, hs.2.1, hs.2.2.1⟩

end Bisquitt.Gw
