/-
  C12 — Broker keep-alive is kept for connected and sleeping clients.

  The property is FALSE of the code (and of the model, which agrees with it): three families of
  histories in which the client meets its obligations and the broker nevertheless sees nothing for
  more than 1.5 × keep-alive are recorded as known findings (known_findings.json, signatures
  `broker-starved/…`): (1) client traffic the gateway answers without talking to the broker (a
  REGISTER of a known topic, a CONNECT of a sleeping client, an acknowledgement nobody waits for …),
  (2) a sleep no longer than the keep-alive starts no pinger, (3) the pinger's first PINGREQ goes
  out a full keep-alive after the client fell asleep, whatever time has passed since the last packet
  to the broker.  What IS proved (`…_partial`), for ALL states of the gateway model:
  * `c12_partial_forwarded`: while the client is active a PINGREQ, and every PUBREL, is forwarded
    to the broker at once (with C01 `c01_forward`, C03 `c03_subscribe` / `c03_unsubscribe` for
    PUBLISH / SUBSCRIBE / UNSUBSCRIBE that have an MQTT counterpart);
  * `c12_partial_pinger`: a sleep longer than the keep-alive starts a pinger whose ticks are one
    keep-alive apart, from one keep-alive after falling asleep until the end of the announced sleep
    (`c12_partial_pinger_ticks`: a tick sends PINGREQ and re-arms one period later);
  * `c12_no_pinger_for_short_sleep`: the second family, stated as what the code does.
  The monitor `Spec.c12` evaluates the full property on implementation traces of clients that
  meet their obligations (generator profile `keepalive`); a starvation outside the three recorded
  families (`…/sleep-pinger-silent`, `…/unexplained`) is a violation.
-/
import Bisquitt.Props.C03
import Bisquitt.Spec.Gateway

namespace Bisquitt.Gw
open Bisquitt Gw

/-- **C12 (partial).** PINGREQ and PUBREL of an active client reach the broker at once. -/
theorem c12_partial_forwarded (g : Gw) (h : g.st = .active) (mid : UInt16) (cid : Bytes) :
    (g.handleSn (.pingreq cid)).outs = (g.now, Out.mq .pingreq) :: g.outs ∧
    (g.handleSn (.pubrel mid)).outs = (g.now, Out.mq (.pubrel mid)) :: g.outs :=
  ⟨(c03_sn_simple g h mid cid).2, (c03_sn_simple g h mid cid).1⟩

/-- **C12 (partial).** A sleep longer than the keep-alive starts a pinger: first tick one keep-alive
    after falling asleep, period one keep-alive, cancelled at the end of the announced sleep. -/
theorem c12_partial_pinger (g : Gw) (d : UInt16) (h : g.keepAlive ≠ 0 ∧ d > g.keepAlive) :
    (g.maybeSleepPinger d).pingers = g.pingers ++
      [{ next := g.now + g.keepAlive.toNat * 1000, cancelAt := g.now + d.toNat * 1000, period := g.keepAlive.toNat * 1000 }] := by
  unfold maybeSleepPinger startSleepPinger
  simp [h]

/-- the second family of known findings, as what the code does: no pinger for a short sleep -/
theorem c12_no_pinger_for_short_sleep (g : Gw) (d : UInt16) (h : ¬ (g.keepAlive ≠ 0 ∧ d > g.keepAlive)) :
    (g.maybeSleepPinger d).pingers = g.pingers := by
  unfold maybeSleepPinger; simp [h]

/-- **C12 (partial).** A tick of a pinger: PINGREQ to the broker, next tick one period later. -/
theorem c12_partial_pinger_ticks (g : Gw) (i : Nat) :
    (g.firePing i).outs = (g.now, Out.mq .pingreq) :: g.outs ∧
    ∀ p, g.pingers[i]? = some p → (g.firePing i).pingers[i]? = some { p with next := p.next + p.period } := by
  unfold firePing
  refine ⟨by simp [mqttSend, emit], ?_⟩
  intro p hp
  simp [mqttSend, emit, List.getElem?_mapIdx, hp]

end Bisquitt.Gw
