/-
  C12 — Broker keep-alive is kept for connected and sleeping clients.

  (Until the repair "fix: keep the broker connection alive on the client's behalf" the property was
  false of the code: four families of histories were recorded as known findings — client traffic the
  gateway answers itself, sleeps no longer than the keep-alive, the first sleep ping a full keep-alive
  late, sleep cycles continued by PINGREQ.  They are `fixed:` entries of known_findings.json now; their
  witnesses `w-c12-*` stay in the corpus.)

  Theorems about the gateway model, for ALL states:
  * `c12_forwarded`: while the client is active a PINGREQ, and every PUBREL, is forwarded to the broker at
    once (with C01 `c01_forward`, C03 `c03_subscribe` / `c03_unsubscribe` for PUBLISH / SUBSCRIBE /
    UNSUBSCRIBE that have an MQTT counterpart);
  * `c12_fresh_after_keepBrokerAlive` / `c12_client_datagram_refreshes`: after EVERY client datagram that a
    connected session (active, asleep or awake; keep-alive ≠ 0) has handled without an error, the newest
    packet written to the broker is less than half a keep-alive old — whatever the gateway answered
    itself (a REGISTER of a known topic, a CONNECT or PINGREQ of a sleeping client, a DISCONNECT with a
    duration, an acknowledgement nobody waits for): if nothing younger is in the log, a PINGREQ is written
    at that instant;
  * `c12_pinger_for_every_sleep`: EVERY announced sleep (shorter or longer than the keep-alive) starts
    one pinger: first tick one keep-alive after falling asleep, period one keep-alive, until the end of
    the announced duration; `c12_pinger_for_every_cycle`: so does every wake-up, for the next cycle;
  * `c12_pinger_ticks`: a tick writes a PINGREQ and re-arms one period later.
  Together: while active, two client datagrams are at most one keep-alive apart (the client's obligation)
  and each leaves a broker packet younger than half a keep-alive, so two broker packets are less than 1.5
  keep-alives apart; asleep, the datagram that begins a cycle (DISCONNECT, PINGREQ) does the same and the
  pinger ticks one keep-alive apart until the client shows up again (its obligation: within the announced
  duration).  That composition over a whole timed history is NOT a Lean theorem: the monitor `Spec.c12`
  evaluates the full property on implementation traces of clients that meet their obligations
  (generator profile `keepalive`); any starvation is a violation.
-/
import Bisquitt.Props.C03
import Bisquitt.Props.C34
import Bisquitt.Spec.Gateway

namespace Bisquitt.Gw
open Bisquitt Gw

/-- **C12.** PINGREQ and PUBREL of an active client reach the broker at once. -/
theorem c12_forwarded (g : Gw) (h : g.st = .active) (mid : UInt16) (cid : Bytes) :
    (g.handleSn (.pingreq cid)).outs = (g.now, Out.mq .pingreq) :: g.outs ∧
    (g.handleSn (.pubrel mid)).outs = (g.now, Out.mq (.pubrel mid)) :: g.outs :=
  ⟨(c03_sn_simple g h mid cid).2, (c03_sn_simple g h mid cid).1⟩

/-- the newest packet to the broker is less than half a keep-alive old -/
def BrokerFresh (g : Gw) : Prop :=
  ∃ t, g.lastMqTime = some t ∧ (g.now - t) * 2 < g.keepAlive.toNat * 1000

theorem lastMqTime_pingBroker (g : Gw) : g.pingBroker.lastMqTime = some g.now := by
  simp [pingBroker, mqttSend, emit, lastMqTime, isMqOut]

/-- **C12.** The hook that runs after every client datagram leaves the broker connection fresh. -/
theorem c12_fresh_after_keepBrokerAlive (g : Gw) (ha : g.alive = true) (hk : g.keepAlive ≠ 0) (hs : g.st ≠ .disconnected) :
    BrokerFresh g.keepBrokerAlive := by
  have hpos : 0 < g.keepAlive.toNat * 1000 := by
    have : g.keepAlive.toNat ≠ 0 := fun e => hk (by
      apply UInt16.toNat_inj.mp; simpa using e)
    omega
  have hping : BrokerFresh g.pingBroker := by
    refine ⟨g.now, lastMqTime_pingBroker g, ?_⟩
    have : g.pingBroker.now = g.now := rfl
    have hka : g.pingBroker.keepAlive = g.keepAlive := rfl
    rw [this, hka]; simpa using hpos
  unfold keepBrokerAlive
  simp only [ha, hk, hs, Bool.not_true, Bool.false_eq_true, or_self, if_false]
  split
  · rename_i t ht
    split
    · rename_i hf; exact ⟨t, ht, hf⟩
    · exact hping
  · exact hping

/-- **C12.** Every client datagram that a connected session handles without an error leaves the broker
    connection fresh, whether or not the gateway has forwarded anything for it. -/
theorem c12_client_datagram_refreshes (g : Gw) (bytes : Bytes) (hd : Header) (p : Pkt)
    (hdec : decode (bytes.take Gen.MaxPacketLen) = .ok (hd, p))
    (ha : (g.handleSn p).alive = true) (hk : (g.handleSn p).keepAlive ≠ 0) (hs : (g.handleSn p).st ≠ .disconnected) :
    BrokerFresh (g.handleEvent (.sn bytes)) := by
  simp only [handleEvent, hdec]
  exact c12_fresh_after_keepBrokerAlive _ ha hk hs

/-- **C12.** Every announced sleep starts one pinger (`c34_pinger_replaced`: and only one), whatever its
    length, and remembers the duration for the cycles to come. -/
theorem c12_pinger_for_every_sleep (g : Gw) (d : UInt16) (hk : g.keepAlive ≠ 0) :
    (g.handleSleep d).pingers =
      [{ next := g.now + g.keepAlive.toNat * 1000, cancelAt := g.now + d.toNat * 1000, period := g.keepAlive.toNat * 1000 }] ∧
    (g.handleSleep d).sleepDur = d := by
  refine ⟨by rw [c34_pinger_replaced]; simp [hk], ?_⟩
  unfold handleSleep clearBufferUnlessAsleep armSleepPinger
  split <;> (split <;> simp [snSendNow, emit, setSt, startSleepPinger, cancelSleepPinger, clearBuffer])

/-- **C12.** A wake-up starts the pinger of the next cycle: the announced duration applies again. -/
theorem c12_pinger_for_every_cycle (g : Gw) (h : g.st = .asleep) (hk : g.keepAlive ≠ 0) :
    g.handlePingreq.pingers =
      [{ next := g.now + g.keepAlive.toNat * 1000, cancelAt := g.now + g.sleepDur.toNat * 1000,
         period := g.keepAlive.toNat * 1000 }] := by
  rw [c34_pinger_of_the_next_cycle g h]; simp [hk]

/-- **C12.** A tick of a pinger: PINGREQ to the broker, next tick one period later. -/
theorem c12_pinger_ticks (g : Gw) (i : Nat) :
    (g.firePing i).outs = (g.now, Out.mq .pingreq) :: g.outs ∧
    ∀ p, g.pingers[i]? = some p → (g.firePing i).pingers[i]? = some { p with next := p.next + p.period } := by
  unfold firePing pingBroker
  refine ⟨by simp [mqttSend, emit], ?_⟩
  intro p hp
  simp [mqttSend, emit, List.getElem?_mapIdx, hp]

/-- non-vacuity: a connected session whose last packet to the broker is 40 s old (keep-alive 60 s) and
    which has just answered a client datagram itself pings the broker; one that wrote 10 s ago does not -/
example :
    let g : Gw := { (Gw.init ⟨false, none, none, 10, 2, []⟩ 1 10) with
      st := .active, keepAlive := 60, now := 50000, outs := [(10000, .mq .pingreq)] }
    g.keepBrokerAlive.outs = [(50000, .mq .pingreq), (10000, .mq .pingreq)] ∧
    ({ g with now := 20000 } : Gw).keepBrokerAlive.outs = [(10000, .mq .pingreq)] := by decide

end Bisquitt.Gw
