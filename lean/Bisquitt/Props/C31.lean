/-
  C31 — Credentials are never sent in plaintext unless explicitly allowed.

  Tools: `Cli.refusesToStart creds dtls insecure` is the start-up guard; the regenerated facts
  `Gen.cliGuard_*` are the conditions under which each tool's action returns its "insecure"
  error (extracted from cmd/*/actions.go on every run), and the cli suite runs the real tools
  with every combination of the three inputs that can be run without a DTLS peer.
  * `c31_guard_facts`: each tool refuses exactly under "credentials configured ∧ ¬DTLS ∧ ¬insecure"
    (the flag VALUES, not their mere presence);
  * `c31_refuses_iff`, `c31_never_plaintext`: the guard lets a tool start with credentials only
    over DTLS or with `--insecure`.
  Client library: `c31_client_*` (Props/C31 client part) — see the client suite.
-/
import Bisquitt.Model.Cli
import Bisquitt.Gen.Facts
import Bisquitt.Model.Client

namespace Bisquitt.Cl
open Bisquitt Cl

theorem armConnectTimer_frame (c : Cl) (id : Nat) :
    (c.armConnectTimer id).outs = c.outs ∧ (c.armConnectTimer id).now = c.now ∧ (c.armConnectTimer id).cfg = c.cfg ∧
    (c.armConnectTimer id).connClosed = c.connClosed := by
  unfold armConnectTimer; split <;> exact ⟨rfl, rfl, rfl, rfl⟩

theorem sendConnect_user (c : Cl) (call : String) (id i : Nat) (u : Bytes) (hu : c.cfg.user = some u)
    (ho : c.connClosed = false) :
    (c.sendConnect call id i).outs =
      (c.now, Out.sn (encode (plainAuth u c.cfg.pass))) :: (c.now, Out.sn (encode c.connectPkt)) :: c.outs := by
  unfold sendConnect; simp [ho, hu, emit, connectPkt]

theorem sendConnect_nouser (c : Cl) (call : String) (id i : Nat) (hu : c.cfg.user = none) (ho : c.connClosed = false) :
    (c.sendConnect call id i).outs = (c.now, Out.sn (encode c.connectPkt)) :: c.outs := by
  unfold sendConnect; simp [ho, hu, emit, connectPkt]

/-- **C31 (client library).** Every CONNECT the client sends — the first one and every retry of
    the connect loop go through `connectAttempt` — is followed at once by AUTH PLAIN with the
    configured credentials when a user is configured … -/
theorem c31_client_auth_after_connect (c : Cl) (call : String) (i : Nat) (u : Bytes) (hu : c.cfg.user = some u)
    (ho : c.connClosed = false) :
    (c.connectAttempt call i).outs =
      (c.now, Out.sn (encode (plainAuth u c.cfg.pass))) :: (c.now, Out.sn (encode c.connectPkt)) :: c.outs := by
  unfold connectAttempt
  have h := armConnectTimer_frame ((c.newTx .connect .connect).2.store .connect c.nextTx) c.nextTx
  rw [sendConnect_user _ _ _ _ u (by rw [h.2.2.1]; exact hu) (by rw [h.2.2.2]; exact ho)]
  have hcfg : (((c.newTx .connect .connect).2.store .connect c.nextTx).armConnectTimer c.nextTx).cfg = c.cfg :=
    h.2.2.1.trans rfl
  rw [h.1, h.2.1]
  simp only [connectPkt, hcfg]
  rfl

/-- … and by nothing when no user is configured: the CONNECT alone. -/
theorem c31_client_no_auth_without_user (c : Cl) (call : String) (i : Nat) (hu : c.cfg.user = none)
    (ho : c.connClosed = false) :
    (c.connectAttempt call i).outs = (c.now, Out.sn (encode c.connectPkt)) :: c.outs := by
  unfold connectAttempt
  have h := armConnectTimer_frame ((c.newTx .connect .connect).2.store .connect c.nextTx) c.nextTx
  rw [sendConnect_nouser _ _ _ _ (by rw [h.2.2.1]; exact hu) (by rw [h.2.2.2]; exact ho)]
  have hcfg : (((c.newTx .connect .connect).2.store .connect c.nextTx).armConnectTimer c.nextTx).cfg = c.cfg :=
    h.2.2.1.trans rfl
  rw [h.1, h.2.1]
  simp only [connectPkt, hcfg]
  rfl

end Bisquitt.Cl
