/-
  C31 — Credentials are never sent in plaintext unless explicitly allowed.

  Tools: `Cli.refusesToStart creds dtls insecure` is the start-up guard; the regenerated facts
  `Gen.cliGuard_*` are the conditions under which each tool's action returns its "insecure"
  error (extracted from cmd/*/actions.go on every run), and the cli suite runs the real tools
  with every combination of the three inputs that can be run without a DTLS peer.
  * `c31_guard_facts`: each tool refuses exactly under "credentials configured ∧ ¬DTLS ∧ ¬insecure"
    (the flag VALUES, not their mere presence);
  * `c31_refuses_iff`, `c31_never_plaintext`: the guard lets a tool start with credentials only
    over DTLS or with `--insecure`.
  Client library: `c31_client_*` (Props/C31 client part) — see the client suite.
-/
import Bisquitt.Model.Cli
import Bisquitt.Gen.Facts

namespace Bisquitt.Cli
open Bisquitt

/-- **C31 (the guards in the code).** -/
theorem c31_guard_facts :
    Gen.cliGuard_bisquitt = ["authEnabled && !useDTLS && !c.Bool(InsecureFlag)"] ∧
    Gen.cliGuard_bisquitt_pub = ["c.IsSet(UserFlag) && !useDTLS && !insecure"] ∧
    Gen.cliGuard_bisquitt_sub = ["c.IsSet(UserFlag) && !useDTLS && !insecure"] := ⟨rfl, rfl, rfl⟩

/-- **C31.** The guard refuses exactly when credentials would travel in plaintext without consent. -/
theorem c31_refuses_iff (creds dtls insecure : Bool) :
    refusesToStart creds dtls insecure = true ↔ creds = true ∧ dtls = false ∧ insecure = false := by
  cases creds <;> cases dtls <;> cases insecure <;> simp [refusesToStart]

/-- **C31.** A tool that starts with credentials configured runs over DTLS or was told `--insecure`. -/
theorem c31_never_plaintext (creds dtls insecure : Bool) (hstart : refusesToStart creds dtls insecure = false)
    (hc : creds = true) : dtls = true ∨ insecure = true := by
  cases creds <;> cases dtls <;> cases insecure <;> simp_all [refusesToStart]

end Bisquitt.Cli
