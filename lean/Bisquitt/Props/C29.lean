/-
  C29 — ID sequence and transaction store behave atomically.

  Sequential part: for EVERY range min ≤ max (no enumeration), the j-th call of `Next`
  (0-based) returns min + (j mod n), n = max-min+1, and reports overflow iff j > 0 and
  j mod n = 0 (exactly the first value after a wrap); within a cycle the IDs are min..max,
  pairwise distinct; the store is two independent finite maps.
  Schedule part: `Mutex.lean` (every run of lock-protected critical sections is a sequential
  run in lock-acquisition order) + the regenerated lock facts.
-/
import Bisquitt.Model.IdSeq
import Bisquitt.Gen.Facts

namespace Bisquitt
open IdSeq

theorem succ_mod_cases (k n : Nat) (hn : 0 < n) :
    (k + 1) % n = if k % n + 1 = n then 0 else k % n + 1 := by
  have hlt := Nat.mod_lt k hn
  have hdm := Nat.div_add_mod k n
  split
  · rename_i h
    have : k + 1 = n * (k / n + 1) := by rw [Nat.mul_add, Nat.mul_one]; omega
    rw [this]; exact Nat.mul_mod_right _ _
  · rename_i h
    have : k + 1 = k % n + 1 + n * (k / n) := by omega
    rw [this, Nat.add_mul_mod_self_left]
    exact Nat.mod_eq_of_lt (by omega)

/-- closed form of the state after `k` calls on a fresh sequence over [mn, mx] -/
def IdSeq.Inv (mn mx : UInt16) (k : Nat) (c : IdSeq) : Prop :=
  c.min = mn ∧ c.max = mx ∧
  c.next.toNat = mn.toNat + k % (mx.toNat - mn.toNat + 1) ∧
  c.overflow = decide (0 < k ∧ k % (mx.toNat - mn.toNat + 1) = 0)

theorem IdSeq.inv_new (mn mx : UInt16) : Inv mn mx 0 (IdSeq.new mn mx) := by
  simp [Inv, IdSeq.new]

/-- what the `k`-th call (0-based) returns -/
def IdSeq.expected (mn mx : UInt16) (k : Nat) : UInt16 × Bool :=
  (UInt16.ofNat (mn.toNat + k % (mx.toNat - mn.toNat + 1)),
   decide (0 < k ∧ k % (mx.toNat - mn.toNat + 1) = 0))

theorem IdSeq.step_spec (mn mx : UInt16) (hle : mn.toNat ≤ mx.toNat) (k : Nat) (c : IdSeq)
    (h : Inv mn mx k c) : c.step.1 = expected mn mx k ∧ Inv mn mx (k + 1) c.step.2 := by
  obtain ⟨hmin, hmax, hnext, hov⟩ := h
  have hmx := mx.toNat_lt
  simp only [Inv, expected]
  generalize hn : mx.toNat - mn.toNat + 1 = n at *
  have hn0 : 0 < n := by omega
  have hr := Nat.mod_lt k hn0
  have hsucc := succ_mod_cases k n hn0
  have hid : c.next = UInt16.ofNat (mn.toNat + k % n) := by
    apply UInt16.toNat_inj.mp
    rw [hnext, UInt16.toNat_ofNat']; omega
  unfold IdSeq.step
  by_cases hm : c.next = c.max
  · have hk : k % n + 1 = n := by
      have := congrArg UInt16.toNat hm
      rw [hnext, hmax] at this; omega
    rw [if_pos hk] at hsucc
    rw [if_pos hm]
    refine ⟨?_, hmin, hmax, ?_, ?_⟩
    · simp only [hid, hov]
    · show c.min.toNat = _
      rw [hsucc, hmin]; omega
    · show true = _
      simp [hsucc]
  · have hk : ¬ (k % n + 1 = n) := by
      intro hk
      apply hm
      apply UInt16.toNat_inj.mp
      rw [hnext, hmax]; omega
    rw [if_neg hk] at hsucc
    rw [if_neg hm]
    refine ⟨?_, hmin, hmax, ?_, ?_⟩
    · simp only [hid, hov]
    · show (c.next + 1).toNat = _
      rw [UInt16.toNat_add, hnext, hsucc]
      simp; omega
    · show false = _
      simp [hsucc]

/-- **C29 (sequential spec of the ID sequence).** For every range `mn ≤ mx`, starting after
    any number `k0` of earlier calls, the next `k` calls return `expected (k0+j)`. -/
theorem c29_idseq (mn mx : UInt16) (hle : mn.toNat ≤ mx.toNat) (k : Nat) :
    ∀ (k0 : Nat) (c : IdSeq), Inv mn mx k0 c →
      (steps k c).1 = (List.range k).map (fun j => expected mn mx (k0 + j)) ∧
      Inv mn mx (k0 + k) (steps k c).2 := by
  induction k with
  | zero => intro k0 c h; simpa [steps] using h
  | succ k ih =>
    intro k0 c h
    obtain ⟨ho, hi⟩ := IdSeq.step_spec mn mx hle k0 c h
    obtain ⟨ho', hi'⟩ := ih (k0 + 1) c.step.2 hi
    simp only [steps]
    refine ⟨?_, ?_⟩
    · rw [List.range_succ_eq_map, List.map_cons, List.map_map, ho, ho']
      congr 1
      apply List.map_congr_left
      intro j _
      simp only [Function.comp, Nat.succ_eq_add_one]
      congr 1; omega
    · have : k0 + (k + 1) = k0 + 1 + k := by omega
      rw [this]; exact hi'

/-- from a fresh sequence -/
theorem c29_idseq_fresh (mn mx : UInt16) (hle : mn.toNat ≤ mx.toNat) (k : Nat) :
    (steps k (IdSeq.new mn mx)).1 = (List.range k).map (fun j => expected mn mx j) := by
  have := (c29_idseq mn mx hle k 0 _ (IdSeq.inv_new mn mx)).1
  simpa using this

/-- in the `q`-th cycle the `j`-th value is `min + j`: the cycle is min, min+1, …, max -/
theorem c29_cycle_value (mn mx : UInt16) (q j : Nat) (hj : j < mx.toNat - mn.toNat + 1) :
    (expected mn mx (q * (mx.toNat - mn.toNat + 1) + j)).1 = UInt16.ofNat (mn.toNat + j) := by
  simp only [expected]
  rw [Nat.add_comm (q * _) j, Nat.add_mul_mod_self_right, Nat.mod_eq_of_lt hj]

/-- overflow is reported exactly on the first value after a wrap -/
theorem c29_overflow (mn mx : UInt16) (q j : Nat) (hj : j < mx.toNat - mn.toNat + 1) :
    (expected mn mx (q * (mx.toNat - mn.toNat + 1) + j)).2 = decide (0 < q ∧ j = 0) := by
  simp only [expected]
  rw [Nat.add_comm (q * _) j, Nat.add_mul_mod_self_right, Nat.mod_eq_of_lt hj]
  by_cases hq : q = 0
  · subst hq; simp; omega
  · have : 0 < j + q * (mx.toNat - mn.toNat + 1) := by
      have : 0 < q * (mx.toNat - mn.toNat + 1) := Nat.mul_pos (by omega) (by omega)
      omega
    simp [this]; omega

/-- no two calls of one cycle get the same ID -/
theorem c29_distinct (mn mx : UInt16) (hle : mn.toNat ≤ mx.toNat) (i j : Nat)
    (hi : i < mx.toNat - mn.toNat + 1) (hj : j < mx.toNat - mn.toNat + 1) (hij : i ≠ j) :
    UInt16.ofNat (mn.toNat + i) ≠ UInt16.ofNat (mn.toNat + j) := by
  intro h
  have := mx.toNat_lt
  have e := congrArg UInt16.toNat h
  rw [UInt16.toNat_ofNat', UInt16.toNat_ofNat', Nat.mod_eq_of_lt (by omega), Nat.mod_eq_of_lt (by omega)] at e
  omega

/-! ### the store: two independent finite maps -/
theorem lookup_filter_ne {α β} [DecidableEq α] (l : List (α × β)) (a b : α) :
    (l.filter (·.1 != a)).lookup b = if b = a then none else l.lookup b := by
  induction l with
  | nil => simp
  | cons x xs ih =>
    obtain ⟨k, v⟩ := x
    by_cases hk : k = a
    · subst hk
      by_cases hb : b = k
      · subst hb; simpa [List.filter] using ih
      · have : (b == k) = false := by simpa using hb
        simpa [List.filter, List.lookup_cons, this, hb] using ih
    · have hka : (k != a) = true := by simpa using hk
      by_cases hb : b = k
      · subst hb; simp [List.filter, hka, List.lookup_cons, hk]
      · have : (b == k) = false := by simpa using hb
        simpa [List.filter, hka, List.lookup_cons, this] using ih

theorem store_get_store {τ} (s : Store τ) (a b : UInt16) (t : τ) :
    (s.store a t).get b = if b = a then some t else s.get b := by
  by_cases h : b = a
  · simp [Store.store, Store.get, List.lookup_cons, h]
  · have : (b == a) = false := by simpa using h
    simp [Store.store, Store.get, List.lookup_cons, h, this]

theorem store_get_delete {τ} (s : Store τ) (a b : UInt16) :
    (s.delete a).get b = if b = a then none else s.get b :=
  lookup_filter_ne s.byId a b

theorem store_getByType_storeByType {τ} (s : Store τ) (a b : UInt8) (t : τ) :
    (s.storeByType a t).getByType b = if b = a then some t else s.getByType b := by
  by_cases h : b = a
  · simp [Store.storeByType, Store.getByType, List.lookup_cons, h]
  · have : (b == a) = false := by simpa using h
    simp [Store.storeByType, Store.getByType, List.lookup_cons, h, this]

theorem store_getByType_deleteByType {τ} (s : Store τ) (a b : UInt8) :
    (s.deleteByType a).getByType b = if b = a then none else s.getByType b :=
  lookup_filter_ne s.byType a b

/-- the two key spaces never interfere -/
theorem store_independent {τ} (s : Store τ) (a : UInt16) (ty : UInt8) (t : τ) :
    (s.store a t).getByType ty = s.getByType ty ∧ (s.delete a).getByType ty = s.getByType ty ∧
    (s.storeByType ty t).get a = s.get a ∧ (s.deleteByType ty).get a = s.get a := by
  simp [Store.store, Store.delete, Store.storeByType, Store.deleteByType, Store.get, Store.getByType]

/-! ### lock discipline (regenerated from the source on every run)
    every method of `IDSequence` and `TransactionStore` starts with `Lock(); defer Unlock()`
    (or the R-variants), and every method that writes takes the write lock. With that, any
    interleaving of calls is a sequence of method bodies (`Mutex.serialised`). -/
def lockOk (facts : List (String × String × Bool)) : Bool :=
  !facts.isEmpty && facts.all (fun (_, l, w) => l != "none" && (!w || l == "Lock"))

theorem c29_lock_idsequence : lockOk Gen.lockFacts_IDSequence = true := by decide
theorem c29_lock_store : lockOk Gen.lockFacts_TransactionStore = true := by decide

/-- non-vacuity: a 3-ID range over two cycles -/
example : (steps 7 (IdSeq.new 5 7)).1 =
    [(5, false), (6, false), (7, false), (5, true), (6, false), (7, false), (5, true)] := by decide

end Bisquitt
