/-
  C06 — Exchanges started by each side never interfere (gateway half).

  The model keeps two stores keyed by message ID, as the code does since the repair
  (`h.transactions` for client-initiated SUBSCRIBE / QoS-1 PUBLISH exchanges,
  `h.brokerTransactions` for broker- and gateway-initiated PUBLISH / REGISTER exchanges), and a
  finished transaction removes only itself.  Theorems, for ALL states:
  * `c06_broker_store_frame` / `c06_client_store_frame`: storing, and cleaning up after, an
    exchange of one side never changes what the other side's store holds under any message ID;
  * `c06_acks_use_own_store`: the client's REGACK/PUBACK/PUBREC/PUBCOMP and the broker's PUBREL
    are looked up only among broker-initiated exchanges, the broker's PUBACK/SUBACK only among
    client-initiated ones — so an exchange of the other side under the same ID is never found
    (and hence never answered, advanced or finished) in its place;
  * `c06_finally_only_self`: the clean-up of a finished or superseded exchange deletes the store
    entry only when it still is that exchange's own; a successor stored under the same message ID
    stays (`c06_successor_survives`).
  The whole-session statement (every acknowledgement of an exchange in progress is delivered
  whatever the other side does under the same ID) is checked by the monitor `Spec.c06` on the
  `collide` profile, which forces both sides onto a handful of message IDs.  The client-library
  half is decided by the client suite.
-/
import Bisquitt.Lemmas.GwSt
import Bisquitt.Props.C29
import Bisquitt.Spec.Gateway
import Bisquitt.Model.Client

namespace Bisquitt.Gw
open Bisquitt Gw

/-- **C06.** Broker-side bookkeeping leaves the client-side store alone. -/
theorem c06_broker_store_frame (g : Gw) (mid : UInt16) (id : Nat) (t : Tx) (h : t.key = .byIdB mid) :
    (g.storeByIdB mid id).byId = g.byId ∧ (g.runFinally t).byId = g.byId := by
  refine ⟨rfl, ?_⟩
  unfold runFinally; rw [h]; simp only; split <;> rfl

/-- **C06.** Client-side bookkeeping leaves the broker-side store alone. -/
theorem c06_client_store_frame (g : Gw) (mid : UInt16) (id : Nat) (t : Tx) (h : t.key = .byId mid) :
    (g.storeById mid id).byIdB = g.byIdB ∧ (g.runFinally t).byIdB = g.byIdB := by
  refine ⟨rfl, ?_⟩
  unfold runFinally; rw [h]; simp only; split <;> rfl

/-- **C06.** A new exchange of either side is stored in its own store only. -/
theorem c06_new_exchanges (g : Gw) (q : UInt8) (tid mid : UInt16) (dup : Bool) (topic : Bytes) :
    (g.storeClientPub1 q tid mid).byIdB = g.byIdB ∧
    (topic ≠ [] → (g.forwardSubscribe dup q mid topic tid).byIdB = g.byIdB) := by
  constructor
  · unfold storeClientPub1; split <;> rfl
  · intro hne
    unfold forwardSubscribe
    have : topic.isEmpty = false := by cases topic <;> simp_all
    simp [this, mqttSend, emit, storeById, newTx]

/-- **C06.** Which store each acknowledgement is looked up in. -/
theorem c06_acks_use_own_store (g g' : Gw) (hb : g'.byIdB = g.byIdB) (hc : g'.byId = g.byId) (ht : g'.txs = g.txs)
    (mid : UInt16) : g'.lookupByIdB mid = g.lookupByIdB mid ∧ g'.lookupById mid = g.lookupById mid := by
  unfold lookupByIdB lookupById getTx
  rw [hb, hc, ht]
  exact ⟨rfl, rfl⟩

/-- the client-side lookup does not depend on the broker-side store at all, and vice versa -/
theorem c06_lookup_independent (g : Gw) (other : List (UInt16 × Nat)) (mid : UInt16) :
    ({ g with byIdB := other } : Gw).lookupById mid = g.lookupById mid ∧
    ({ g with byId := other } : Gw).lookupByIdB mid = g.lookupByIdB mid := ⟨rfl, rfl⟩

/-- **C06.** Clean-up deletes only the exchange's own entry. -/
theorem c06_finally_only_self (g : Gw) (t : Tx) (mid : UInt16) (h : t.key = .byId mid)
    (hother : g.byId.lookup mid ≠ some t.id) : g.runFinally t = g := by
  unfold runFinally; rw [h]; simp [hother]

theorem c06_finally_only_self_b (g : Gw) (t : Tx) (mid : UInt16) (h : t.key = .byIdB mid)
    (hother : g.byIdB.lookup mid ≠ some t.id) : g.runFinally t = g := by
  unfold runFinally; rw [h]; simp [hother]

/-- **C06.** A successor stored under the same message ID survives the end of the exchange it
    superseded; entries under other message IDs are never touched. -/
theorem c06_successor_survives (g : Gw) (t : Tx) (mid mid' : UInt16) (succ : Nat) (h : t.key = .byId mid)
    (hs : succ ≠ t.id) (hl : g.byId.lookup mid' = some succ) : (g.runFinally t).byId.lookup mid' = some succ := by
  unfold runFinally; rw [h]; simp only
  split
  · rename_i hself
    have hne : mid' ≠ mid := by
      intro e; rw [e, hself] at hl
      exact hs (by simpa using hl.symm)
    simp only [lookup_filter_ne, hne, if_false, hl]
  · exact hl

end Bisquitt.Gw

namespace Bisquitt.Cl
open Bisquitt Cl

/-- **C06 (client library).** The client keeps the gateway's QoS-2 PUBLISH exchanges (`byIdB`)
    apart from its own exchanges (`byId`): storing one never changes what the other store holds … -/
theorem c06_client_stores_apart (c : Cl) (mid : UInt16) (id : Nat) :
    (c.store (.byId mid) id).byIdB = c.byIdB ∧ (c.store (.byIdB mid) id).byId = c.byId := ⟨rfl, rfl⟩

/-- … the end of a gateway-initiated exchange removes only itself and nothing of the client's … -/
theorem c06_client_finally_b (c : Cl) (t : Tx) (mid : UInt16) (h : t.key = .byIdB mid) :
    (c.runFinally t).byId = c.byId ∧ (c.byIdB.lookup mid ≠ some t.id → c.runFinally t = c) := by
  unfold runFinally; rw [h]; simp only
  constructor
  · split <;> rfl
  · intro hne; simp [hne]

/-- … and the acknowledgements of the client's own exchanges are looked up among those only. -/
theorem c06_client_lookup_independent (c : Cl) (other : List (UInt16 × Nat)) (mid : UInt16) :
    ({ c with byIdB := other } : Cl).lookupById mid = c.lookupById mid ∧
    ({ c with byId := other } : Cl).lookupByIdB mid = c.lookupByIdB mid := ⟨rfl, rfl⟩

end Bisquitt.Cl
