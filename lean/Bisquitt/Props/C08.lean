/-
  C08 — Authentication is enforced exactly as configured.

  Theorems about the model's connect exchange, for ALL states and inputs:
  * `c08_auth_enabled_waits`: with authentication enabled, starting the exchange sends nothing
    to the broker — the CONNECT waits for AUTH;
  * `c08_plain`: a PLAIN AUTH with well-formed data (`\0user\0password`) puts exactly those
    credentials (and both flags) into the CONNECT under construction; without a will that
    CONNECT is sent at once (`c08_plain_sent`);
  * `c08_malformed` / `c08_unknown_method`: malformed PLAIN data ends the exchange with nothing
    sent to the broker; an unknown method is answered with CONNACK "not supported" and nothing is
    sent to the broker;
  * `c08_auth_disabled`: with authentication disabled the CONNECT carries exactly the configured
    credentials, and AUTH packets arriving later find the exchange past `awaitingAuth` and change
    nothing (`c08_auth_ignored`).
  The monitor `Spec.c0809` checks the whole-session statement on implementation traces.
-/
import Bisquitt.Props.C0809
import Bisquitt.Spec.Gateway

namespace Bisquitt.Gw
open Bisquitt Gw

/-- **C08.** With authentication enabled the exchange starts silently. -/
theorem c08_auth_enabled_waits (g : Gw) (id : Nat) (f : ConnFields) (h : g.cfg.auth = true) :
    g.startConnectTx id f = g := by
  unfold startConnectTx; simp [h]

/-- **C08.** The CONNECT prepared by `handleConnect` carries the configured credentials. -/
theorem c08_configured (cfg : Cfg) (w c : Bool) (d : UInt16) (cid : Bytes) :
    (mkConnFields cfg w c d cid).uflag = cfg.user.isSome ∧ (mkConnFields cfg w c d cid).user = cfg.user.getD [] ∧
    (mkConnFields cfg w c d cid).pflag = cfg.pass.isSome ∧ (mkConnFields cfg w c d cid).pass = cfg.pass.getD [] ∧
    (mkConnFields cfg w c d cid).cid = cid ∧ (mkConnFields cfg w c d cid).ka = d ∧
    (mkConnFields cfg w c d cid).clean = c ∧ (mkConnFields cfg w c d cid).will = w :=
  ⟨rfl, rfl, rfl, rfl, rfl, rfl, rfl, rfl⟩

/-- **C08.** With authentication disabled and no will, starting the exchange sends exactly the
    prepared CONNECT. -/
theorem c08_auth_disabled (g : Gw) (t : Tx) (f : ConnFields) (h : g.cfg.auth = false)
    (ht : g.getTx t.id = some t) (hw : f.will = false) :
    (g.startConnectTx t.id f).outs = (g.now, Out.mq f.toPkt) :: g.outs := by
  unfold startConnectTx
  simp only [h, Bool.false_eq_true, if_false, ht]
  exact c07_connect_sent_nowill g t f hw

/-- **C08.** PLAIN with well-formed data: exactly those credentials. -/
theorem c08_plain (g : Gw) (t : Tx) (f : ConnFields) (data u p : Bytes) (hd : decodePlain data = some (u, p)) :
    g.connAuth t .awaitingAuth f plainMethod data =
      g.connAuthenticated t { f with uflag := true, user := u, pflag := true, pass := p } := by
  unfold connAuth; simp [hd]

theorem c08_plain_sent (g : Gw) (t : Tx) (f : ConnFields) (data u p : Bytes) (hd : decodePlain data = some (u, p))
    (hw : f.will = false) :
    (g.connAuth t .awaitingAuth f plainMethod data).outs =
      (g.now, Out.mq (.connect f.cid f.clean f.ka true u true p false f.wq f.wr f.wt f.wm)) :: g.outs := by
  rw [c08_plain g t f data u p hd, c07_connect_sent_nowill _ _ _ (by simpa using hw)]
  simp [ConnFields.toPkt, hw]

/-- **C08.** Malformed PLAIN data: nothing is sent, the session ends. -/
theorem c08_malformed (g : Gw) (t : Tx) (f : ConnFields) (data : Bytes) (hd : decodePlain data = none) :
    (g.connAuth t .awaitingAuth f plainMethod data).outs = g.outs ∧
    (g.connAuth t .awaitingAuth f plainMethod data).alive = false := by
  unfold connAuth; simp [hd, fail_alive]

/-- **C08.** Unknown method: CONNACK "not supported", nothing to the broker, the session ends. -/
theorem c08_unknown_method (g : Gw) (t : Tx) (f : ConnFields) (m data : Bytes) (hm : m ≠ plainMethod)
    (hs : g.st ≠ .asleep) :
    (g.connAuth t .awaitingAuth f m data).outs = (g.now, Out.sn (encode (.connack Gen.RC_NOT_SUPPORTED))) :: g.outs ∧
    (g.connAuth t .awaitingAuth f m data).alive = false := by
  unfold connAuth; simp [hm, fail_alive, sendConnack, snSend, hs, emit]

/-- **C08.** AUTH outside `awaitingAuth` (in particular: whenever authentication is disabled,
    because the exchange then starts authenticated) changes nothing. -/
theorem c08_auth_ignored (g : Gw) (t : Tx) (st : ConnSt) (f : ConnFields) (m data : Bytes) (h : st ≠ .awaitingAuth) :
    g.connAuth t st f m data = g := by
  unfold connAuth; simp [h]

/-- non-vacuity: "\0u\0p" is well-formed PLAIN data, "u\0p" and "\0u" are not -/
example : decodePlain [0, 0x75, 0, 0x70] = some ([0x75], [0x70]) := by decide
example : decodePlain [0x75, 0, 0x70] = none := by decide
example : decodePlain [0, 0x75] = none := by decide

end Bisquitt.Gw
