/-
  C08 — Authentication is enforced exactly as configured.

  Theorems about the model's connect exchange, for ALL states and inputs:
  * `c08_auth_enabled_waits`: with authentication enabled, starting the exchange sends nothing
    to the broker — the CONNECT waits for AUTH;
  * `c08_plain`: a PLAIN AUTH with well-formed data (`\0user\0password`) puts exactly those
    credentials (and both flags) into the CONNECT under construction; without a will that
    CONNECT is sent at once (`c08_plain_sent`);
  * `c08_malformed` / `c08_unknown_method`: malformed PLAIN data ends the exchange with nothing
    sent to the broker; an unknown method is answered with CONNACK "not supported" and nothing is
    sent to the broker;
  * `c08_auth_disabled`: with authentication disabled the CONNECT carries exactly the configured
    credentials, and AUTH packets arriving later find the exchange past `awaitingAuth` and change
    nothing (`c08_auth_ignored`).
  * **all runs** — `c08_no_connect_without_auth`: with authentication enabled, after ANY sequence of
    timed events that contains no AUTH datagram of the client (CONNECTs with or without a will, will
    packets, every other datagram, malformed ones, broker packets, every timer on the way, EOF,
    shutdown) NO MQTT CONNECT has been written to the broker; invariant: every connect exchange still
    waits for AUTH (`AllAwait`, `Lemmas/GwAuth.lean`: `F8` carried through every model function).
  * **all runs, authentication disabled** — `c08_configured_credentials_in_every_connect`: after ANY sequence of
    timed events (AUTH packets with any method and data at any moment of any number of connect exchanges, will
    packets, everything else) every MQTT CONNECT in the log carries exactly the configured credentials;
    invariant `J` (`Lemmas/GwCreds.lean`: every stored connect exchange is past `awaitingAuth` and carries the
    configured credentials, and so does every CONNECT written), frame `FC` carried through every model function.
  The monitor `Spec.c0809` checks the whole-session statement on implementation traces.
-/
import Bisquitt.Lemmas.GwAuth
import Bisquitt.Lemmas.GwCreds
import Bisquitt.Props.C0809
import Bisquitt.Spec.Gateway

namespace Bisquitt.Gw
open Bisquitt Gw

/-- **C08.** With authentication enabled the exchange starts silently. -/
theorem c08_auth_enabled_waits (g : Gw) (id : Nat) (f : ConnFields) (h : g.cfg.auth = true) :
    g.startConnectTx id f = g := by
  unfold startConnectTx; simp [h]

/-- **C08.** The CONNECT prepared by `handleConnect` carries the configured credentials. -/
theorem c08_configured (cfg : Cfg) (w c : Bool) (d : UInt16) (cid : Bytes) :
    (mkConnFields cfg w c d cid).uflag = cfg.user.isSome ∧ (mkConnFields cfg w c d cid).user = cfg.user.getD [] ∧
    (mkConnFields cfg w c d cid).pflag = cfg.pass.isSome ∧ (mkConnFields cfg w c d cid).pass = cfg.pass.getD [] ∧
    (mkConnFields cfg w c d cid).cid = cid ∧ (mkConnFields cfg w c d cid).ka = d ∧
    (mkConnFields cfg w c d cid).clean = c ∧ (mkConnFields cfg w c d cid).will = w :=
  ⟨rfl, rfl, rfl, rfl, rfl, rfl, rfl, rfl⟩

/-- **C08.** With authentication disabled and no will, starting the exchange sends exactly the
    prepared CONNECT. -/
theorem c08_auth_disabled (g : Gw) (t : Tx) (f : ConnFields) (h : g.cfg.auth = false)
    (ht : g.getTx t.id = some t) (hw : f.will = false) :
    (g.startConnectTx t.id f).outs = (g.now, Out.mq f.toPkt) :: g.outs := by
  unfold startConnectTx
  simp only [h, Bool.false_eq_true, if_false, ht]
  exact c07_connect_sent_nowill g t f hw

/-- **C08.** PLAIN with well-formed data: exactly those credentials. -/
theorem c08_plain (g : Gw) (t : Tx) (f : ConnFields) (data u p : Bytes) (hd : decodePlain data = some (u, p)) :
    g.connAuth t .awaitingAuth f plainMethod data =
      g.connAuthenticated t { f with uflag := true, user := u, pflag := true, pass := p } := by
  unfold connAuth; simp [hd]

theorem c08_plain_sent (g : Gw) (t : Tx) (f : ConnFields) (data u p : Bytes) (hd : decodePlain data = some (u, p))
    (hw : f.will = false) :
    (g.connAuth t .awaitingAuth f plainMethod data).outs =
      (g.now, Out.mq (.connect f.cid f.clean f.ka true u true p false f.wq f.wr f.wt f.wm)) :: g.outs := by
  rw [c08_plain g t f data u p hd, c07_connect_sent_nowill _ _ _ (by simpa using hw)]
  simp [ConnFields.toPkt, hw]

/-- **C08.** Malformed PLAIN data: nothing is sent, the session ends. -/
theorem c08_malformed (g : Gw) (t : Tx) (f : ConnFields) (data : Bytes) (hd : decodePlain data = none) :
    (g.connAuth t .awaitingAuth f plainMethod data).outs = g.outs ∧
    (g.connAuth t .awaitingAuth f plainMethod data).alive = false := by
  unfold connAuth; simp [hd, fail_alive]

/-- **C08.** Unknown method: CONNACK "not supported", nothing to the broker, the session ends. -/
theorem c08_unknown_method (g : Gw) (t : Tx) (f : ConnFields) (m data : Bytes) (hm : m ≠ plainMethod)
    (hs : g.st ≠ .asleep) :
    (g.connAuth t .awaitingAuth f m data).outs = (g.now, Out.sn (encode (.connack Gen.RC_NOT_SUPPORTED))) :: g.outs ∧
    (g.connAuth t .awaitingAuth f m data).alive = false := by
  unfold connAuth; simp [hm, fail_alive, sendConnack, snSend, hs, emit]

/-- **C08.** AUTH outside `awaitingAuth` (in particular: whenever authentication is disabled,
    because the exchange then starts authenticated) changes nothing. -/
theorem c08_auth_ignored (g : Gw) (t : Tx) (st : ConnSt) (f : ConnFields) (m data : Bytes) (h : st ≠ .awaitingAuth) :
    g.connAuth t st f m data = g := by
  unfold connAuth; simp [h]

/-- non-vacuity: "\0u\0p" is well-formed PLAIN data, "u\0p" and "\0u" are not -/
example : decodePlain [0, 0x75, 0, 0x70] = some ([0x75], [0x70]) := by decide
example : decodePlain [0x75, 0, 0x70] = none := by decide
example : decodePlain [0, 0x75] = none := by decide

end Bisquitt.Gw

namespace Bisquitt.Gw
open Bisquitt Gw

/-! ## every run: with authentication enabled, no MQTT CONNECT before an AUTH datagram -/

theorem F8.finishSession (g : Gw) : F8 g g.finishSession := by
  unfold Gw.finishSession
  split
  · split
    · exact F8.refl g
    · unfold Gw.shutdownDisconnect Gw.stopTimers Gw.emitEnd
      have h1 : ∀ x : Gw, F8 x (if x.st = .active ∨ x.st = .awake then x.emit (.sn (encode (.disconnect 0))) else x) := by
        intro x; split
        · exact F8.emit x _ rfl
        · exact F8.refl x
      have h2 : ∀ x : Gw, F8 x ((x.emit (.ended x.endCls)).emit .mqClose) := fun x => (F8.emit x _ rfl).trans (F8.emit _ _ rfl)
      refine (((F8.setNow g _).trans (h1 _)).trans (h2 _)).trans ⟨rfl, fun hA => ⟨?_, rfl⟩⟩
      intro t ht
      simp only [List.mem_map] at ht
      obtain ⟨y, hy, rfl⟩ := ht
      exact hA y hy
  · exact F8.refl g

theorem F8.advance : ∀ (fuel : Nat) (g : Gw) (t : Nat), F8 g (advance fuel g t) := by
  intro fuel
  induction fuel with
  | zero => intro g t; exact F8.setNow g _
  | succ n ih =>
    intro g t
    unfold Gw.advance
    split
    · exact (F8.finishSession g).trans (F8.setNow _ _)
    · split
      · exact ((F8.fireDue g _).trans (F8.finishSession _)).trans (ih _ t)
      · exact F8.setNow g _

theorem F8.sample (g : Gw) : F8 g g.sample := by
  unfold Gw.sample Gw.sampleBuf Gw.sampleReg Gw.sampleState
  have e : ∀ (x y : Gw) (o : Out), isMqConnect (y.now, o) = false → y.cfg = x.cfg → y.txs = x.txs → y.outs = x.outs →
      F8 x (y.emit o) := fun x y o ho hc ht hou => (F8.of_eq hc hou ht).trans (F8.emit y o ho)
  split <;> split <;> split <;>
    first
    | exact F8.refl g
    | exact (e _ _ _ rfl rfl rfl rfl)
    | exact (e _ _ _ rfl rfl rfl rfl).trans (e _ _ _ rfl rfl rfl rfl)
    | exact ((e _ _ _ rfl rfl rfl rfl).trans (e _ _ _ rfl rfl rfl rfl)).trans (e _ _ _ rfl rfl rfl rfl)

@[simp] theorem snSend_cfg (g : Gw) (p : Pkt) (tx : Option Nat) : (g.snSend p tx).cfg = g.cfg := (F8.snSend g p tx).cfg
@[simp] theorem finishTx_cfg (g : Gw) (id : Nat) : (g.finishTx id).cfg = g.cfg := (F8.finishTx g id).cfg
@[simp] theorem fail_cfg (g : Gw) (c : EndCls) : (g.fail c).cfg = g.cfg := (F8.fail g c).cfg
@[simp] theorem setTx_cfg (g : Gw) (t : Tx) : (g.setTx t).cfg = g.cfg := rfl
@[simp] theorem mqttSend_cfg (g : Gw) (p : MqPkt) : (g.mqttSend p).cfg = g.cfg := rfl

theorem connWillTopic_cfg (g : Gw) (t : Tx) (st : ConnSt) (f : ConnFields) (q : UInt8) (r : Bool) (tp : Bytes) :
    (g.connWillTopic t st f q r tp).cfg = g.cfg := by
  unfold Gw.connWillTopic; split <;> (try split) <;> simp
theorem connWillMsg_cfg (g : Gw) (t : Tx) (st : ConnSt) (f : ConnFields) (m : Bytes) : (g.connWillMsg t st f m).cfg = g.cfg := by
  unfold Gw.connWillMsg; split <;> simp
theorem connConnack_cfg (g : Gw) (t : Tx) (st : ConnSt) (rc : UInt8) : (g.connConnack t st rc).cfg = g.cfg := by
  unfold Gw.connConnack Gw.sendConnack; split <;> (try split) <;> simp

/-- client packets other than AUTH -/
def notAuth : Pkt → Bool | .auth .. => false | _ => true

theorem F8.handleSn (g : Gw) (p : Pkt) (ha : g.cfg.auth = true) (hp : notAuth p = true) : F8 g (g.handleSn p) := by
  unfold Gw.handleSn
  split
  · exact F8.fail g _
  · split
    · exact F8.handleConnect g _ _ _ _ ha
    · simp [notAuth] at hp
    · split
      · rename_i t st f hc
        exact ⟨connWillTopic_cfg _ _ _ _ _ _ _, fun hA => (F8.connWillTopic g t st f _ _ _ (awaiting_of hA hc)).keep hA⟩
      · exact F8.refl g
    · split
      · rename_i t st f hc
        exact ⟨connWillMsg_cfg _ _ _ _ _, fun hA => (F8.connWillMsg g t st f _ (awaiting_of hA hc)).keep hA⟩
      · exact F8.refl g
    · exact F8.handleRegister g _ _
    · exact F8.handleClientPublish g _ _ _ _ _ _ _
    · exact F8.mqttSend g _ rfl
    · exact F8.handleSubscribe g _ _ _ _ _ _
    · exact F8.handleUnsubscribe g _ _ _ _
    · exact F8.handlePingreq g
    · exact F8.handleDisconnect g _
    · split
      · split
        · exact F8.bpRegack g _ _ _ _ _ _
        · exact F8.refl g
      · exact F8.refl g
    · split
      · split
        · split
          · exact F8.refl g
          · split
            · exact F8.finishTx g _
            · exact F8.proceedMQ g _ _ _ rfl
        · exact F8.refl g
      · exact F8.refl g
    · split
      · split
        · split
          · exact F8.refl g
          · exact F8.proceedMQ g _ _ _ rfl
        · exact F8.refl g
      · exact F8.refl g
    · split
      · split
        · split
          · exact F8.refl g
          · exact F8.proceedMQ g _ _ _ rfl
        · exact F8.refl g
      · exact F8.refl g
    · exact F8.fail g _

theorem F8.handleMq (g : Gw) (p : MqPkt) : F8 g (g.handleMq p) := by
  unfold Gw.handleMq
  split
  · split
    · rename_i t st f hc
      exact ⟨connConnack_cfg _ _ _ _, fun hA => (F8.connConnack g t st _ (awaiting_of hA hc)).keep hA⟩
    · exact F8.refl g
  · split
    · split
      · exact (F8.finishTx g _).trans (F8.snSend _ _ _)
      · exact F8.refl g
    · exact F8.refl g
  · exact F8.snSend g _ _
  · exact F8.snSend g _ _
  · split
    · split
      · split
        · split
          · exact (F8.finishTx g _).trans (F8.snSend _ _ _)
          · exact (F8.finishTx g _).trans (F8.snSend _ _ _)
        · exact (F8.finishTx g _).trans (F8.fail _ _)
      · exact F8.refl g
    · exact F8.refl g
  · exact F8.snSend g _ _
  · split
    · exact F8.of_eq rfl rfl rfl
    · split
      · exact F8.refl g
      · exact F8.snSend g _ _
  · exact F8.handleBrokerPublish g _ _ _ _ _ _
  · split
    · split
      · split
        · exact F8.refl g
        · exact F8.proceedSN g _ _ _
      · exact F8.refl g
    · exact F8.refl g
  · exact F8.fail g _

/-- events other than an AUTH datagram from the client -/
def noAuthEvent : Event → Bool
  | .sn bytes => match decode (bytes.take Gen.MaxPacketLen) with
    | .ok (_, p) => notAuth p
    | _ => true
  | _ => true

theorem F8.handleEvent (g : Gw) (ev : Event) (ha : g.cfg.auth = true) (hq : noAuthEvent ev = true) : F8 g (g.handleEvent ev) := by
  unfold Gw.handleEvent
  split
  · split
    · rename_i hd p hdec
      exact (F8.handleSn g p ha (by simpa [noAuthEvent, hdec] using hq)).trans (F8.keepBrokerAlive _)
    · exact F8.fail g _
  · exact F8.handleMq g _
  · exact F8.fail g _
  · split <;> exact F8.fail g _
  · exact F8.fail g _
  · exact F8.refl g

theorem F8.step (g : Gw) (t : Nat) (ev : Event) (ha : g.cfg.auth = true) (hq : noAuthEvent ev = true) : F8 g (g.step t ev) := by
  unfold Gw.step Gw.stepCore Gw.deliver
  have q1 := F8.advance 100000 g t
  split
  · exact (q1.trans (F8.finishSession _)).trans (F8.sample _)
  · have q2 := F8.handleEvent _ ev (by rw [q1.cfg]; exact ha) hq
    exact ((((q1.trans q2).trans (F8.advance 100000 _ t)).trans (F8.finishSession _))).trans (F8.sample _)

/-- **C08 (ALL runs).** With authentication enabled, whatever the client, the broker and the clock do —
    CONNECTs (with or without a will), will packets, every other datagram, malformed ones, broker
    packets, every timer, EOF, shutdown — as long as the client has sent no AUTH datagram the gateway
    writes NO MQTT CONNECT to the broker. -/
theorem c08_no_connect_without_auth (cfg : Cfg) (a b : UInt16) (evs : List (Nat × Event)) (ha : cfg.auth = true)
    (hq : ∀ e ∈ evs, noAuthEvent e.2 = true) : mqConnects ((Gw.init cfg a b).run evs) = [] := by
  have gen : ∀ (evs : List (Nat × Event)) (g : Gw), g.cfg.auth = true → AllAwait g → mqConnects g = [] →
      (∀ e ∈ evs, noAuthEvent e.2 = true) →
      mqConnects (evs.foldl (fun g (te : Nat × Event) => g.step te.1 te.2) g) = [] := by
    intro evs
    induction evs with
    | nil => intro g _ _ h0 _; exact h0
    | cons e rest ih =>
      intro g hga hA h0 hq
      simp only [List.foldl_cons]
      have st := F8.step g e.1 e.2 hga (hq e (by simp))
      exact ih _ (by rw [st.cfg]; exact hga) (st.txs hA) (by rw [st.outs hA]; exact h0)
        (fun x hx => hq x (by simp [hx]))
  unfold Gw.run
  exact gen evs _ ha (by intro t ht; simp [Gw.init] at ht) rfl hq

end Bisquitt.Gw

namespace Bisquitt.Gw
open Bisquitt Gw

/-! ## every run, authentication disabled: every MQTT CONNECT carries the configured credentials -/

theorem FC.finishSession (g : Gw) : FC g g.finishSession := by
  unfold Gw.finishSession
  split
  · split
    · exact FC.refl g
    · unfold Gw.shutdownDisconnect Gw.stopTimers Gw.emitEnd
      have h1 : ∀ x : Gw, FC x (if x.st = .active ∨ x.st = .awake then x.emit (.sn (encode (.disconnect 0))) else x) := by
        intro x; split
        · exact FC.emit x _ (connOutOk_sn _ _ _)
        · exact FC.refl x
      have h2 : ∀ x : Gw, FC x ((x.emit (.ended x.endCls)).emit .mqClose) := fun x => (FC.emit x _ (by intro _ _ _ _ _ _ _ _ _ _ _ _ e; cases e)).trans (FC.emit _ _ (by intro _ _ _ _ _ _ _ _ _ _ _ _ e; cases e))
      refine (((FC.setNow g _).trans (h1 _)).trans (h2 _)).trans ⟨rfl, fun hJ => ⟨?_, hJ.2⟩⟩
      intro t ht
      simp only [List.mem_map] at ht
      obtain ⟨y, hy, rfl⟩ := ht
      exact hJ.1 y hy
  · exact FC.refl g

theorem FC.advance : ∀ (fuel : Nat) (g : Gw) (t : Nat), FC g (advance fuel g t) := by
  intro fuel
  induction fuel with
  | zero => intro g t; exact FC.setNow g _
  | succ n ih =>
    intro g t
    unfold Gw.advance
    split
    · exact (FC.finishSession g).trans (FC.setNow _ _)
    · split
      · exact ((FC.fireDue g _).trans (FC.finishSession _)).trans (ih _ t)
      · exact FC.setNow g _

theorem FC.sample (g : Gw) : FC g g.sample := by
  unfold Gw.sample Gw.sampleBuf Gw.sampleReg Gw.sampleState
  have e : ∀ (x y : Gw) (o : Out), isMqConnect (y.now, o) = false → y.cfg = x.cfg → y.txs = x.txs → y.outs = x.outs →
      FC x (y.emit o) := fun x y o ho hc ht hou => (FC.of_eq hc hou ht).trans (FC.emit y o (by
        intro _ _ _ _ _ _ _ _ _ _ _ _ e
        simp only at e
        rw [e] at ho
        simp [isMqConnect] at ho))
  split <;> split <;> split <;>
    first
    | exact FC.refl g
    | exact (e _ _ _ rfl rfl rfl rfl)
    | exact (e _ _ _ rfl rfl rfl rfl).trans (e _ _ _ rfl rfl rfl rfl)
    | exact ((e _ _ _ rfl rfl rfl rfl).trans (e _ _ _ rfl rfl rfl rfl)).trans (e _ _ _ rfl rfl rfl rfl)


theorem connAuthenticated_cfg (g : Gw) (t : Tx) (f : ConnFields) : (g.connAuthenticated t f).cfg = g.cfg := by
  unfold Gw.connAuthenticated; split <;> simp

theorem connAuth_cfg (g : Gw) (t : Tx) (st : ConnSt) (f : ConnFields) (m d : Bytes) : (g.connAuth t st f m d).cfg = g.cfg := by
  unfold Gw.connAuth Gw.sendConnack
  split
  · rfl
  · split
    · split
      · simp
      · exact connAuthenticated_cfg _ _ _
    · simp

theorem FC.handleSn (g : Gw) (p : Pkt) (ha : g.cfg.auth = false) : FC g (g.handleSn p) := by
  unfold Gw.handleSn
  split
  · exact FC.fail g _
  · split
    · exact FC.handleConnect g _ _ _ _ ha
    · split
      · rename_i t st f hc
        exact ⟨connAuth_cfg _ _ _ _ _ _, fun hJ => (FC.connAuth g t st f _ _ (connTx_kind hJ hc).1).keep hJ⟩
      · exact FC.refl g
    · split
      · rename_i t st f hc
        exact ⟨connWillTopic_cfg _ _ _ _ _ _ _, fun hJ => (FC.connWillTopic g t st f _ _ _ (connTx_kind hJ hc).2).keep hJ⟩
      · exact FC.refl g
    · split
      · rename_i t st f hc
        exact ⟨connWillMsg_cfg _ _ _ _ _, fun hJ => (FC.connWillMsg g t st f _ (connTx_kind hJ hc).2).keep hJ⟩
      · exact FC.refl g
    · exact FC.handleRegister g _ _
    · exact FC.handleClientPublish g _ _ _ _ _ _ _
    · exact FC.mqttSend g _ rfl
    · exact FC.handleSubscribe g _ _ _ _ _ _
    · exact FC.handleUnsubscribe g _ _ _ _
    · exact FC.handlePingreq g
    · exact FC.handleDisconnect g _
    · split
      · split
        · exact FC.bpRegack g _ _ _ _ _ _
        · exact FC.refl g
      · exact FC.refl g
    · split
      · split
        · split
          · exact FC.refl g
          · split
            · exact FC.finishTx g _
            · exact FC.proceedMQ g _ _ _ rfl
        · exact FC.refl g
      · exact FC.refl g
    · split
      · split
        · split
          · exact FC.refl g
          · exact FC.proceedMQ g _ _ _ rfl
        · exact FC.refl g
      · exact FC.refl g
    · split
      · split
        · split
          · exact FC.refl g
          · exact FC.proceedMQ g _ _ _ rfl
        · exact FC.refl g
      · exact FC.refl g
    · exact FC.fail g _

theorem FC.handleMq (g : Gw) (p : MqPkt) : FC g (g.handleMq p) := by
  unfold Gw.handleMq
  split
  · split
    · rename_i t st f hc
      exact FC.connConnack g t st _
    · exact FC.refl g
  · split
    · split
      · exact (FC.finishTx g _).trans (FC.snSend _ _ _)
      · exact FC.refl g
    · exact FC.refl g
  · exact FC.snSend g _ _
  · exact FC.snSend g _ _
  · split
    · split
      · split
        · split
          · exact (FC.finishTx g _).trans (FC.snSend _ _ _)
          · exact (FC.finishTx g _).trans (FC.snSend _ _ _)
        · exact (FC.finishTx g _).trans (FC.fail _ _)
      · exact FC.refl g
    · exact FC.refl g
  · exact FC.snSend g _ _
  · split
    · exact FC.of_eq rfl rfl rfl
    · split
      · exact FC.refl g
      · exact FC.snSend g _ _
  · exact FC.handleBrokerPublish g _ _ _ _ _ _
  · split
    · split
      · split
        · exact FC.refl g
        · exact FC.proceedSN g _ _ _
      · exact FC.refl g
    · exact FC.refl g
  · exact FC.fail g _


theorem FC.handleEvent (g : Gw) (ev : Event) (ha : g.cfg.auth = false) : FC g (g.handleEvent ev) := by
  unfold Gw.handleEvent
  split
  · split
    · exact (FC.handleSn g _ ha).trans (FC.keepBrokerAlive _)
    · exact FC.fail g _
  · exact FC.handleMq g _
  · exact FC.fail g _
  · split <;> exact FC.fail g _
  · exact FC.fail g _
  · exact FC.refl g

theorem FC.step (g : Gw) (t : Nat) (ev : Event) (ha : g.cfg.auth = false) : FC g (g.step t ev) := by
  unfold Gw.step Gw.stepCore Gw.deliver
  have q1 := FC.advance 100000 g t
  split
  · exact (q1.trans (FC.finishSession _)).trans (FC.sample _)
  · have q2 := FC.handleEvent _ ev (by rw [q1.cfg]; exact ha)
    exact ((((q1.trans q2).trans (FC.advance 100000 _ t)).trans (FC.finishSession _))).trans (FC.sample _)

/-- **C08 (ALL runs, authentication disabled).** Whatever the client sends — AUTH packets with any method and
    data at any moment of any number of connect exchanges included — every MQTT CONNECT the gateway ever writes
    carries exactly the configured credentials (user flag and name, password flag and password). -/
theorem c08_configured_credentials_in_every_connect (cfg : Cfg) (a b : UInt16) (evs : List (Nat × Event))
    (ha : cfg.auth = false) : ∀ o ∈ ((Gw.init cfg a b).run evs).outs, connOutOk cfg o := by
  have gen : ∀ (evs : List (Nat × Event)) (g : Gw), g.cfg.auth = false → J g →
      J (evs.foldl (fun g (te : Nat × Event) => g.step te.1 te.2) g) ∧
      (evs.foldl (fun g (te : Nat × Event) => g.step te.1 te.2) g).cfg = g.cfg := by
    intro evs
    induction evs with
    | nil => intro g _ hJ; exact ⟨hJ, rfl⟩
    | cons e rest ih =>
      intro g hga hJ
      simp only [List.foldl_cons]
      have st := FC.step g e.1 e.2 hga
      have r := ih _ (by rw [st.cfg]; exact hga) (st.keep hJ)
      exact ⟨r.1, r.2.trans st.cfg⟩
  have hJ0 : J (Gw.init cfg a b) :=
    ⟨by intro t ht; simp [Gw.init] at ht, by intro o ho; simp [Gw.init] at ho⟩
  have h := gen evs (Gw.init cfg a b) ha hJ0
  have hrun : (Gw.init cfg a b).run evs = evs.foldl (fun g (te : Nat × Event) => g.step te.1 te.2) (Gw.init cfg a b) := rfl
  intro o ho
  rw [hrun] at ho
  have := h.1.2 o ho
  rw [h.2] at this
  exact this

/-- non-vacuity: authentication disabled, configured credentials u / p; the client connects and sends a PLAIN AUTH
    with other credentials: the one MQTT CONNECT written carries u / p -/
example : (((Gw.init ⟨false, some [0x75], some [0x70], 10, 2, []⟩ 1 10).run
    [(100, .sn (encode (.connect false true 1 60 [0x63]))),
     (200, .sn (encode (.auth 0 [0x50, 0x4C, 0x41, 0x49, 0x4E] [0, 0x78, 0, 0x79])))]).outs.filterMap
    fun o => match o.2 with | .mq (.connect _ _ _ uf u pf p ..) => some (uf, u, pf, p) | _ => none) =
    [(true, [0x75], true, [0x70])] := by decide

end Bisquitt.Gw
