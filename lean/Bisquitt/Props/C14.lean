/-
  C14 — Last will is cancelled only by a plain client DISCONNECT.

  Theorem `c14`: take ANY reachable state of the gateway model (any configuration and event
  history) and ANY next event at any time.  Unless that event is a datagram that decodes to a
  DISCONNECT without duration, nothing the model emits while handling it — including every
  timer that fires on the way, the session end (timeout, illegal packet, decode error,
  shutdown, broker EOF) and going to sleep — is an MQTT DISCONNECT.
  `c14_end`: the session end itself closes the broker connection (`mqClose`) and never sends one.
-/
import Bisquitt.Lemmas.GwRun
import Bisquitt.Spec.Gateway

namespace Bisquitt.Gw
open Bisquitt Gw Spec

/-- the event is a datagram that decodes to a plain DISCONNECT -/
def isPlainDisconnect : Event → Prop
  | .sn bytes => ∃ h, decode (bytes.take Gen.MaxPacketLen) = .ok (h, .disconnect 0)
  | _ => False

theorem sites_c14 : Sites (fun _ => True) (fun p => p ≠ .disconnect) where
  connack := fun _ => trivial
  willtopicreq := trivial
  willmsgreq := trivial
  regack := fun _ _ _ => trivial
  suback := fun _ _ _ _ _ => trivial
  puback := fun _ _ _ => trivial
  pubrec := fun _ => trivial
  pubcomp := fun _ => trivial
  pubrel := fun _ => trivial
  unsuback := fun _ => trivial
  pingresp := trivial
  disconnect0 := trivial
  publish := fun _ _ _ _ _ _ _ _ _ _ => trivial
  register := fun _ _ _ _ _ => trivial
  dup := fun _ _ => trivial
  mqConnect := fun f _ => by simp [ConnFields.toPkt]
  mqPublish := fun _ _ _ _ _ _ _ _ _ => by simp
  mqSubscribe := fun _ _ _ _ _ _ => by simp
  mqUnsubscribe := fun _ _ _ => by simp
  mqPuback := fun _ => by simp
  mqPubrec := fun _ => by simp
  mqPubrel := fun _ => by simp
  mqPubcomp := fun _ => by simp
  mqPingreq := by simp

/-- **C14.** From any reachable state, handling any event other than a plain client DISCONNECT
    extends the output log by outputs none of which is an MQTT DISCONNECT. -/
theorem c14 (cfg : Cfg) (idMin idMax : UInt16) (hist : List (Nat × Event)) (t : Nat) (ev : Event)
    (hev : ¬ isPlainDisconnect ev) :
    ∃ new, (((Gw.init cfg idMin idMax).run hist).step t ev).outs = new ++ ((Gw.init cfg idMin idMax).run hist).outs ∧
      ∀ x ∈ new, x.2 ≠ Out.mq .disconnect := by
  have hw := run_wf sites_c14 cfg idMin idMax hist
  have hd : AllowsDisconnect (fun _ => False) ev := by
    unfold AllowsDisconnect
    split
    · intro h; exact hev h
    · trivial
  obtain ⟨new, hnew, hall⟩ := (step_spec sites_c14 _ t ev hd hw).1
  refine ⟨new, hnew, ?_⟩
  intro x hx e
  have := hall x hx
  rw [e] at this
  rcases this with h | h
  · exact h rfl
  · exact h

/-- the session end closes the broker connection and sends no MQTT packet at all -/
theorem c14_end (g : Gw) (tc : Nat) (hc : g.cancelledAt = some tc) (he : g.endedEmitted = false) :
    (tc, Out.mqClose) ∈ g.finishSession.outs ∧
    ∀ x ∈ g.finishSession.outs, (∃ p, x.2 = Out.mq p) → x ∈ g.outs := by
  unfold Gw.finishSession
  simp only [hc, he, Bool.false_eq_true, if_false]
  unfold Gw.stopTimers Gw.emitEnd Gw.shutdownDisconnect
  split <;> simp [Gw.emit, Gw.setNow] <;> (intro a b h _ _; exact h)

/-- non-vacuity: the plain DISCONNECT datagram `02 18` is the excluded event, `04 18 00 05`
    (sleep for 5 s) is not -/
example : isPlainDisconnect (.sn [2, 0x18]) :=
  ⟨{ pktLength := 2, pktType := 0x18, long := false }, by decide⟩
example : ¬ isPlainDisconnect (.sn [4, 0x18, 0, 5]) := by
  intro ⟨h, hd⟩
  have : decode (List.take Gen.MaxPacketLen [4, 0x18, 0, 5]) =
      .ok ({ pktLength := 4, pktType := 0x18, long := false }, .disconnect 5) := by decide
  rw [this] at hd
  simp at hd

end Bisquitt.Gw
