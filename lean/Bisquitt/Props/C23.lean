/-
  C23 — Every MQTT-SN datagram sent is well-formed (gateway half).

  `Spec.datagramOk b`: `b` is at most 8192 bytes, its length field equals its size, and it
  decodes as a packet of a type valid in the gateway → client direction.  Theorem `c23`: in
  EVERY run of the gateway model every datagram emitted satisfies it.  The proof combines the
  per-site permissions (`Sites`: every packet the model builds is `Legal` and of a valid type,
  including packets parked for retransmission and in the sleep buffer, and their DUP variants)
  with the codec theorems of C21 (round trip, length field, size bound) for Legal packets.
  The client-library half is decided by the client suite.
-/
import Bisquitt.Lemmas.GwRun
import Bisquitt.Spec.Gateway
import Bisquitt.Props.C21

namespace Bisquitt.Gw
open Bisquitt Gw Spec

/-- what the gateway may hand to `snSend`: a Legal packet of a gateway → client type -/
def SnOk (p : Pkt) : Prop := Legal p = true ∧ gwToClientTypes.contains p.typeCode = true

theorem datagramOk_of_snOk {p : Pkt} (h : SnOk p) : datagramOk (encode p) = true := by
  unfold datagramOk
  have h1 := c21_size h.1
  have h2 := c21_lengthField h.1
  have h3 := c21_roundtrip h.1
  have h2' : lengthFieldOf (encode p) = (encode p).length := h2
  simp only [h3, h2', Bool.and_eq_true, decide_eq_true_eq, beq_self_eq_true, and_true]
  exact ⟨h1, h.2⟩

theorem le3_of_le2 {q : UInt8} (h : q ≤ 2) : q ≤ 3 := UInt8.le_trans h (by decide)

theorem sites_c23 : Sites SnOk (fun _ => True) where
  connack := fun _ => ⟨rfl, by simp only [Pkt.typeCode]; decide⟩
  willtopicreq := ⟨rfl, by simp only [Pkt.typeCode]; decide⟩
  willmsgreq := ⟨rfl, by simp only [Pkt.typeCode]; decide⟩
  regack := fun _ _ _ => ⟨rfl, by simp only [Pkt.typeCode]; decide⟩
  suback := fun q _ _ _ hq => ⟨by simpa [Legal] using le3_of_le2 hq, by simp only [Pkt.typeCode]; decide⟩
  puback := fun _ _ _ => ⟨rfl, by simp only [Pkt.typeCode]; decide⟩
  pubrec := fun _ => ⟨rfl, by simp only [Pkt.typeCode]; decide⟩
  pubcomp := fun _ => ⟨rfl, by simp only [Pkt.typeCode]; decide⟩
  pubrel := fun _ => ⟨rfl, by simp only [Pkt.typeCode]; decide⟩
  unsuback := fun _ => ⟨rfl, by simp only [Pkt.typeCode]; decide⟩
  pingresp := ⟨rfl, by simp only [Pkt.typeCode]; decide⟩
  disconnect0 := ⟨rfl, by simp only [Pkt.typeCode]; decide⟩
  publish := fun _ q _ tit _ _ d hq ht hl =>
    ⟨by simpa [Legal] using ⟨⟨le3_of_le2 hq, le3_of_le2 ht⟩, hl⟩, by simp only [Pkt.typeCode]; decide⟩
  register := fun _ _ n hne hl => by
    refine ⟨?_, by simp only [Pkt.typeCode]; decide⟩
    have : 1 ≤ n.length := by
      cases n with
      | nil => exact absurd rfl hne
      | cons _ _ => simp
    simpa [Legal] using ⟨this, hl⟩
  dup := fun p h => by
    cases p <;> exact h
  mqConnect := fun _ _ => trivial
  mqPublish := fun _ _ _ _ _ _ _ _ _ => trivial
  mqSubscribe := fun _ _ _ _ _ _ => trivial
  mqUnsubscribe := fun _ _ _ => trivial
  mqPuback := fun _ => trivial
  mqPubrec := fun _ => trivial
  mqPubrel := fun _ => trivial
  mqPubcomp := fun _ => trivial
  mqPingreq := trivial

/-- **C23 (gateway).** Every datagram in the output of every run is well-formed. -/
theorem c23 (cfg : Cfg) (idMin idMax : UInt16) (evs : List (Nat × Event)) (t : Nat) (b : Bytes)
    (h : (t, Out.sn b) ∈ ((Gw.init cfg idMin idMax).run evs).outs) : datagramOk b = true := by
  obtain ⟨p, hp, rfl⟩ := run_outs sites_c23 cfg idMin idMax evs _ h
  exact datagramOk_of_snOk hp

/-- non-vacuity: a QoS-2 PUBLISH with a 7168-byte payload (MaxPayloadLength, the largest the
    gateway relays) is permitted -/
example (d : Bytes) (h : d.length = 7168) : SnOk (.publish false 2 false 0 1 1 d) :=
  ⟨by simp [Legal, h, maxPayload, Gen.MaxPayloadLength], by simp only [Pkt.typeCode]; decide⟩

/-- **C23 (tie of the all-runs theorem).** The inventory of places where the gateway's code writes to the client
    link — every call of `snSend`, `snSendNow`, `ProceedSN`, `flushPktBuffer` in the package, regenerated from the
    source on every run — is the reviewed one the model's emission sites (`Sites`, `Lemmas/GwEmits.lean`) were
    written against.  A change that adds, removes or moves such a call breaks this obligation. -/
theorem c23_emission_sites :
    Gen.snSendSites_gateway =
     ["broker_publish_qos2_transaction.go:Pubrel:ProceedSN",
      "broker_publish_transaction.go:ProceedSN:snSend",
      "broker_publish_transaction.go:regack:ProceedSN",
      "broker_publish_transaction.go:resend:snSend",
      "client_publish_qos1_transaction.go:Puback:snSend",
      "connect_transaction.go:SendConnack:snSend",
      "connect_transaction.go:WillTopic:snSend",
      "connect_transaction.go:authenticated:snSend",
      "handler1.go:flushPktBuffer:snSend",
      "handler1.go:handleBrokerPublish:ProceedSN",
      "handler1.go:handleBrokerPublish:snSend",
      "handler1.go:handleConnect:flushPktBuffer",
      "handler1.go:handleConnect:snSend",
      "handler1.go:handleConnect:snSend",
      "handler1.go:handleConnect:snSend",
      "handler1.go:handleMqtt:snSend",
      "handler1.go:handleMqtt:snSend",
      "handler1.go:handleMqtt:snSend",
      "handler1.go:handleMqtt:snSend",
      "handler1.go:handleMqttSn:flushPktBuffer",
      "handler1.go:handleMqttSn:snSend",
      "handler1.go:handleMqttSn:snSend",
      "handler1.go:handleMqttSn:snSend",
      "handler1.go:handleMqttSn:snSend",
      "handler1.go:handleMqttSn:snSendNow",
      "handler1.go:handleSubscribe:snSend",
      "handler1.go:handleSubscribe:snSend",
      "handler1.go:run:snSend",
      "handler1.go:run:snSend",
      "handler1.go:snSend:snSendNow",
      "subscribe_transaction.go:Suback:snSend"] := rfl

end Bisquitt.Gw
