/-
  C01 — Client PUBLISH reaches the broker unchanged.

  Theorems about `handleClientPublish` (the model of handler1.handlePublish for a client
  PUBLISH), for ALL states and field values:
  * `c01_forward`: when the topic ID denotes a usable name, the output log grows by EXACTLY ONE
    entry, the MQTT PUBLISH with the same payload, retain and DUP flags, QoS (3 ↦ 0), the
    message ID for QoS 1/2, and that name;
  * `c01_name`: the name is the registry binding / the predefined name for this client / the
    decoded short name, by topic-ID type;
  * `c01_drop`: when the topic ID denotes nothing (or an unusable name) nothing is forwarded —
    the log is unchanged and the session is failed.
  * **all runs** (`Lemmas/GwPub.lean`: the frame `F1` carried through every model function):
    `c01_publish_only_for_publish_datagram` — in ANY reachable state, handling ANY event that is not a
    datagram decoding to PUBLISH (every other datagram, broker packets, every timer and retransmission
    on the way, EOF, shutdown, the session end) writes NO MQTT PUBLISH; `c01_at_most_one_per_datagram` —
    a PUBLISH datagram adds at most one; `c01_publishes_bounded` — over any run the MQTT PUBLISH packets
    written are at most as many as the PUBLISH datagrams received ("exactly one", never repeated, never
    invented: `c01_forward` says which one).
  The monitor `Spec.c01` checks the same statement on the implementation's own traces, and
  the correspondence suite ties the model to the code.
-/
import Bisquitt.Lemmas.GwRun
import Bisquitt.Lemmas.GwPub
import Bisquitt.Spec.Gateway

namespace Bisquitt.Gw
open Bisquitt Gw

@[simp] theorem storeClientPub1_outs (g : Gw) (q : UInt8) (tid mid : UInt16) :
    (g.storeClientPub1 q tid mid).outs = g.outs := by
  unfold storeClientPub1; split <;> rfl

@[simp] theorem storeClientPub1_now (g : Gw) (q : UInt8) (tid mid : UInt16) :
    (g.storeClientPub1 q tid mid).now = g.now := by
  unfold storeClientPub1; split <;> rfl

/-- **C01 (forwarding).** -/
theorem c01_forward (g : Gw) (dup : Bool) (q : UInt8) (r : Bool) (tit : UInt8) (tid mid : UInt16) (data topic : Bytes)
    (hres : g.resolveTopic tit tid = .ok topic) (hne : topic ≠ []) (hw : hasWildcard topic = false) :
    (g.handleClientPublish dup q r tit tid mid data).outs =
      (g.now, Out.mq (.publish dup (if q = 3 then 0 else q) r (if (if q = 3 then 0 else q) = 0 then 0 else mid) topic data))
        :: g.outs := by
  unfold handleClientPublish
  rw [hres]
  have : (topic.isEmpty || hasWildcard topic) = false := by
    cases topic with
    | nil => exact absurd rfl hne
    | cons _ _ => simpa using hw
  simp [this, mqttSend, emit, mqQos]

/-- **C01 (the name the topic ID denotes).** -/
theorem c01_name (g : Gw) (tit : UInt8) (tid : UInt16) (topic : Bytes) (h : g.resolveTopic tit tid = .ok topic) :
    (tit = Gen.TIT_REGISTERED ∧ g.registered.lookup tid = some topic) ∨
    (tit = Gen.TIT_PREDEFINED ∧ g.cfg.predef.getTopicName g.clientId tid = some topic) ∨
    (tit = Gen.TIT_SHORT ∧ topic = decodeShortTopic tid) := by
  unfold resolveTopic at h
  split at h
  · rename_i h0
    left
    split at h
    · rename_i n hn
      simp only [TopicRes.ok.injEq] at h
      exact ⟨h0, by rw [hn, h]⟩
    · simp at h
  · split at h
    · rename_i h1
      right; left
      unfold predefName at h
      split at h
      · rename_i n hn
        simp only [TopicRes.ok.injEq] at h
        exact ⟨h1, by rw [hn, h]⟩
      · simp at h
    · split at h
      · rename_i h2
        right; right
        simp only [TopicRes.ok.injEq] at h
        exact ⟨h2, h.symm⟩
      · simp at h

/-- **C01 (nothing is forwarded for a topic ID that denotes nothing usable).** -/
theorem c01_drop (g : Gw) (dup : Bool) (q : UInt8) (r : Bool) (tit : UInt8) (tid mid : UInt16) (data : Bytes)
    (h : ∀ topic, g.resolveTopic tit tid = .ok topic → topic = [] ∨ hasWildcard topic = true) :
    (g.handleClientPublish dup q r tit tid mid data).outs = g.outs ∧
    (g.handleClientPublish dup q r tit tid mid data).alive = false := by
  unfold handleClientPublish
  split
  · simp [fail, alive]; split <;> simp_all
  · simp [fail, alive]; split <;> simp_all
  · rename_i topic hres
    have := h topic hres
    have hc : (topic.isEmpty || hasWildcard topic) = true := by
      rcases this with h1 | h1
      · simp [h1]
      · simp [h1]
    simp only [hc, if_true]
    simp [fail, alive]; split <;> simp_all

end Bisquitt.Gw

namespace Bisquitt.Gw
open Bisquitt Gw

/-! ## every run: an MQTT PUBLISH only for a PUBLISH datagram, at most one each -/

theorem F1.stopTimers (g : Gw) : F1 0 g g.stopTimers := by
  refine ⟨fun hA => ⟨?_, [], rfl, Nat.le_refl _⟩⟩
  intro x hx
  obtain ⟨y, hy, rfl⟩ := List.mem_map.mp hx
  exact hA y hy

theorem F1.finishSession (g : Gw) : F1 0 g g.finishSession := by
  unfold Gw.finishSession
  split
  · split
    · exact F1.refl g
    · unfold Gw.shutdownDisconnect Gw.emitEnd
      have h1 : ∀ x : Gw, F1 0 x (if x.st = .active ∨ x.st = .awake then x.emit (.sn (encode (.disconnect 0))) else x) := by
        intro x; split
        · exact F1.emit x _ rfl
        · exact F1.refl x
      have h2 : ∀ x : Gw, F1 0 x ((x.emit (.ended x.endCls)).emit .mqClose) := fun x => (F1.emit x _ rfl).trans (F1.emit _ _ rfl)
      exact (((F1.setNow g _).trans (h1 _)).trans (h2 _)).trans (F1.stopTimers _)
  · exact F1.refl g

theorem F1.advance : ∀ (fuel : Nat) (g : Gw) (t : Nat), F1 0 g (advance fuel g t) := by
  intro fuel
  induction fuel with
  | zero => intro g t; exact F1.setNow g _
  | succ n ih =>
    intro g t
    unfold Gw.advance
    split
    · exact (F1.finishSession g).trans (F1.setNow _ _)
    · split
      · exact ((F1.fireDue g _).trans (F1.finishSession _)).trans (ih _ t)
      · exact F1.setNow g _

theorem F1.sample (g : Gw) : F1 0 g g.sample := by
  unfold Gw.sample Gw.sampleBuf Gw.sampleReg Gw.sampleState
  have e : ∀ (x y : Gw) (o : Out), isMqPublish (y.now, o) = false → y.outs = x.outs → y.txs = x.txs →
      F1 0 x (y.emit o) := fun x y o ho hou ht => (F1.of_eq hou ht).trans (F1.emit y o ho)
  split <;> split <;> split <;>
    first
    | exact F1.refl g
    | exact (e _ _ _ rfl rfl rfl)
    | exact (e _ _ _ rfl rfl rfl).trans (e _ _ _ rfl rfl rfl)
    | exact ((e _ _ _ rfl rfl rfl).trans (e _ _ _ rfl rfl rfl)).trans (e _ _ _ rfl rfl rfl)

/-- what a client packet may add: a PUBLISH is forwarded once -/
def pubBudget : Pkt → Nat | .publish .. => 1 | _ => 0

theorem F1.handleSn (g : Gw) (p : Pkt) : F1 (pubBudget p) g (g.handleSn p) := by
  unfold Gw.handleSn
  split
  · exact (F1.fail g _).mono (Nat.zero_le _)
  · split
    · exact F1.handleConnect g _ _ _ _
    · split
      · exact F1.connAuth g _ _ _ _ _
      · exact F1.refl g
    · split
      · exact F1.connWillTopic g _ _ _ _ _ _
      · exact F1.refl g
    · split
      · exact F1.connWillMsg g _ _ _ _
      · exact F1.refl g
    · exact F1.handleRegister g _ _
    · exact F1.handleClientPublish g _ _ _ _ _ _ _
    · exact F1.mqttSend g _ rfl
    · exact F1.handleSubscribe g _ _ _ _ _ _
    · exact F1.handleUnsubscribe g _ _ _ _
    · exact F1.handlePingreq g
    · exact F1.handleDisconnect g _
    · split
      · split
        · exact F1.bpRegack g _ _ _ _ _ _
        · exact F1.refl g
      · exact F1.refl g
    · split
      · split
        · split
          · exact F1.refl g
          · split
            · exact F1.finishTx g _
            · exact F1.proceedMQ g _ _ _ rfl
        · exact F1.refl g
      · exact F1.refl g
    · split
      · split
        · split
          · exact F1.refl g
          · exact F1.proceedMQ g _ _ _ rfl
        · exact F1.refl g
      · exact F1.refl g
    · split
      · split
        · split
          · exact F1.refl g
          · exact F1.proceedMQ g _ _ _ rfl
        · exact F1.refl g
      · exact F1.refl g
    · exact (F1.fail g _).mono (Nat.zero_le _)

theorem F1.handleMq (g : Gw) (p : MqPkt) : F1 0 g (g.handleMq p) := by
  unfold Gw.handleMq
  split
  · split
    · exact F1.connConnack g _ _ _
    · exact F1.refl g
  · split
    · split
      · exact (F1.finishTx g _).trans (F1.snSend _ _ _)
      · exact F1.refl g
    · exact F1.refl g
  · exact F1.snSend g _ _
  · exact F1.snSend g _ _
  · split
    · split
      · split
        · split
          · exact (F1.finishTx g _).trans (F1.snSend _ _ _)
          · exact (F1.finishTx g _).trans (F1.snSend _ _ _)
        · exact (F1.finishTx g _).trans (F1.fail _ _)
      · exact F1.refl g
    · exact F1.refl g
  · exact F1.snSend g _ _
  · split
    · exact F1.of_eq rfl rfl
    · split
      · exact F1.refl g
      · exact F1.snSend g _ _
  · exact F1.handleBrokerPublish g _ _ _ _ _ _
  · split
    · split
      · split
        · exact F1.refl g
        · exact F1.proceedSN g _ _ _
      · exact F1.refl g
    · exact F1.refl g
  · exact F1.fail g _

/-- 1 for a datagram that decodes as a PUBLISH, 0 for every other event -/
def publishDatagram : Event → Nat
  | .sn bytes => match decode (bytes.take Gen.MaxPacketLen) with
    | .ok (_, p) => pubBudget p
    | _ => 0
  | _ => 0

theorem F1.handleEvent (g : Gw) (ev : Event) : F1 (publishDatagram ev) g (g.handleEvent ev) := by
  unfold Gw.handleEvent
  split
  · split
    · rename_i hd p hdec
      simp only [publishDatagram, hdec]
      exact (F1.handleSn g p).after (F1.keepBrokerAlive _)
    · exact (F1.fail g _).mono (Nat.zero_le _)
  · exact F1.handleMq g _
  · exact F1.fail g _
  · split <;> exact F1.fail g _
  · exact F1.fail g _
  · exact F1.refl g

theorem F1.step (g : Gw) (t : Nat) (ev : Event) : F1 (publishDatagram ev) g (g.step t ev) := by
  unfold Gw.step Gw.stepCore Gw.deliver
  have q1 := F1.advance 100000 g t
  split
  · exact ((q1.trans (F1.finishSession _)).trans (F1.sample _)).mono (Nat.zero_le _)
  · have q2 := F1.handleEvent (Gw.advance 100000 g t) ev
    exact ((q1.before q2).after (((F1.advance 100000 _ t).trans (F1.finishSession _)).trans (F1.sample _)))

theorem allNoPub_init (cfg : Cfg) (a b : UInt16) : AllNoPub (Gw.init cfg a b) := by
  intro t ht; simp [Gw.init] at ht

theorem allNoPub_run (cfg : Cfg) (a b : UInt16) (evs : List (Nat × Event)) : AllNoPub ((Gw.init cfg a b).run evs) := by
  have gen : ∀ (evs : List (Nat × Event)) (g : Gw), AllNoPub g →
      AllNoPub (evs.foldl (fun g (te : Nat × Event) => g.step te.1 te.2) g) := by
    intro evs
    induction evs with
    | nil => intro g h; exact h
    | cons e rest ih => intro g h; simp only [List.foldl_cons]; exact ih _ ((F1.step g e.1 e.2).inv h)
  exact gen evs _ (allNoPub_init cfg a b)

/-- **C01 (ALL runs).** In any reachable state, an event that is not a PUBLISH datagram of the client —
    any other datagram, any broker packet, every timer and retransmission fired on the way, EOF, shutdown,
    the end of the session — writes no MQTT PUBLISH to the broker. -/
theorem c01_publish_only_for_publish_datagram (cfg : Cfg) (a b : UInt16) (hist : List (Nat × Event)) (t : Nat) (ev : Event)
    (hev : publishDatagram ev = 0) :
    mqPublishes (((Gw.init cfg a b).run hist).step t ev) = mqPublishes ((Gw.init cfg a b).run hist) := by
  have h := F1.step ((Gw.init cfg a b).run hist) t ev
  rw [hev] at h
  exact h.same (allNoPub_run cfg a b hist)

/-- **C01 (ALL runs).** A PUBLISH datagram adds at most one MQTT PUBLISH (`c01_forward`: which one). -/
theorem c01_at_most_one_per_datagram (cfg : Cfg) (a b : UInt16) (hist : List (Nat × Event)) (t : Nat) (ev : Event) :
    ∃ new, mqPublishes (((Gw.init cfg a b).run hist).step t ev) = new ++ mqPublishes ((Gw.init cfg a b).run hist) ∧
      new.length ≤ 1 := by
  obtain ⟨_, new, e, l⟩ := (F1.step ((Gw.init cfg a b).run hist) t ev).keep (allNoPub_run cfg a b hist)
  refine ⟨new, e, Nat.le_trans l ?_⟩
  unfold publishDatagram
  split
  · split
    · rename_i p _; cases p <;> simp [pubBudget]
    · exact Nat.zero_le _
  · exact Nat.zero_le _

/-- **C01 (ALL runs).** Over any run the MQTT PUBLISH packets written are at most as many as the PUBLISH
    datagrams received. -/
theorem c01_publishes_bounded (cfg : Cfg) (a b : UInt16) (evs : List (Nat × Event)) :
    (mqPublishes ((Gw.init cfg a b).run evs)).length ≤ (evs.map fun e => publishDatagram e.2).sum := by
  have gen : ∀ (evs : List (Nat × Event)) (g : Gw), AllNoPub g →
      (mqPublishes (evs.foldl (fun g (te : Nat × Event) => g.step te.1 te.2) g)).length ≤
        (mqPublishes g).length + (evs.map fun e => publishDatagram e.2).sum := by
    intro evs
    induction evs with
    | nil => intro g _; simp
    | cons e rest ih =>
      intro g hA
      simp only [List.foldl_cons, List.map_cons, List.sum_cons]
      obtain ⟨hA', new, e1, l1⟩ := (F1.step g e.1 e.2).keep hA
      have := ih _ hA'
      rw [e1, List.length_append] at this
      omega
  have h : (mqPublishes ((Gw.init cfg a b).run evs)).length ≤
      (mqPublishes (Gw.init cfg a b)).length + (evs.map fun e => publishDatagram e.2).sum := gen evs _ (allNoPub_init cfg a b)
  have h0 : (mqPublishes (Gw.init cfg a b)).length = 0 := by simp [mqPublishes, Gw.init]
  omega

/-- non-vacuity: a PUBLISH datagram counts, a PINGREQ does not -/
example : publishDatagram (.sn (encode (.publish false 1 false 0 1 2 [0x61]))) = 1 ∧
    publishDatagram (.sn (encode (.pingreq []))) = 0 := by decide

end Bisquitt.Gw
