/-
  C01 — Client PUBLISH reaches the broker unchanged.

  Theorems about `handleClientPublish` (the model of handler1.handlePublish for a client
  PUBLISH), for ALL states and field values:
  * `c01_forward`: when the topic ID denotes a usable name, the output log grows by EXACTLY ONE
    entry, the MQTT PUBLISH with the same payload, retain and DUP flags, QoS (3 ↦ 0), the
    message ID for QoS 1/2, and that name;
  * `c01_name`: the name is the registry binding / the predefined name for this client / the
    decoded short name, by topic-ID type;
  * `c01_drop`: when the topic ID denotes nothing (or an unusable name) nothing is forwarded —
    the log is unchanged and the session is failed.
  The monitor `Spec.c01` checks the same statement on the implementation's own traces, and
  the correspondence suite ties the model to the code.
-/
import Bisquitt.Lemmas.GwRun
import Bisquitt.Spec.Gateway

namespace Bisquitt.Gw
open Bisquitt Gw

@[simp] theorem storeClientPub1_outs (g : Gw) (q : UInt8) (tid mid : UInt16) :
    (g.storeClientPub1 q tid mid).outs = g.outs := by
  unfold storeClientPub1; split <;> rfl

@[simp] theorem storeClientPub1_now (g : Gw) (q : UInt8) (tid mid : UInt16) :
    (g.storeClientPub1 q tid mid).now = g.now := by
  unfold storeClientPub1; split <;> rfl

/-- **C01 (forwarding).** -/
theorem c01_forward (g : Gw) (dup : Bool) (q : UInt8) (r : Bool) (tit : UInt8) (tid mid : UInt16) (data topic : Bytes)
    (hres : g.resolveTopic tit tid = .ok topic) (hne : topic ≠ []) (hw : hasWildcard topic = false) :
    (g.handleClientPublish dup q r tit tid mid data).outs =
      (g.now, Out.mq (.publish dup (if q = 3 then 0 else q) r (if (if q = 3 then 0 else q) = 0 then 0 else mid) topic data))
        :: g.outs := by
  unfold handleClientPublish
  rw [hres]
  have : (topic.isEmpty || hasWildcard topic) = false := by
    cases topic with
    | nil => exact absurd rfl hne
    | cons _ _ => simpa using hw
  simp [this, mqttSend, emit, mqQos]

/-- **C01 (the name the topic ID denotes).** -/
theorem c01_name (g : Gw) (tit : UInt8) (tid : UInt16) (topic : Bytes) (h : g.resolveTopic tit tid = .ok topic) :
    (tit = Gen.TIT_REGISTERED ∧ g.registered.lookup tid = some topic) ∨
    (tit = Gen.TIT_PREDEFINED ∧ g.cfg.predef.getTopicName g.clientId tid = some topic) ∨
    (tit = Gen.TIT_SHORT ∧ topic = decodeShortTopic tid) := by
  unfold resolveTopic at h
  split at h
  · rename_i h0
    left
    split at h
    · rename_i n hn
      simp only [TopicRes.ok.injEq] at h
      exact ⟨h0, by rw [hn, h]⟩
    · simp at h
  · split at h
    · rename_i h1
      right; left
      unfold predefName at h
      split at h
      · rename_i n hn
        simp only [TopicRes.ok.injEq] at h
        exact ⟨h1, by rw [hn, h]⟩
      · simp at h
    · split at h
      · rename_i h2
        right; right
        simp only [TopicRes.ok.injEq] at h
        exact ⟨h2, h.symm⟩
      · simp at h

/-- **C01 (nothing is forwarded for a topic ID that denotes nothing usable).** -/
theorem c01_drop (g : Gw) (dup : Bool) (q : UInt8) (r : Bool) (tit : UInt8) (tid mid : UInt16) (data : Bytes)
    (h : ∀ topic, g.resolveTopic tit tid = .ok topic → topic = [] ∨ hasWildcard topic = true) :
    (g.handleClientPublish dup q r tit tid mid data).outs = g.outs ∧
    (g.handleClientPublish dup q r tit tid mid data).alive = false := by
  unfold handleClientPublish
  split
  · simp [fail, alive]; split <;> simp_all
  · simp [fail, alive]; split <;> simp_all
  · rename_i topic hres
    have := h topic hres
    have hc : (topic.isEmpty || hasWildcard topic) = true := by
      rcases this with h1 | h1
      · simp [h1]
      · simp [h1]
    simp only [hc, if_true]
    simp [fail, alive]; split <;> simp_all

end Bisquitt.Gw
