/-
  C17 — Client library QoS guarantees under loss.

  Theorems about the client model (Model/Client.lean, tied to client/*.go by the client suite:
  exact equality of timestamped outputs under testing/synctest), for ALL states:
  * `c17_retry_dup`: a retry-timer expiry with budget left resends the stored packet; for a
    PUBLISH or SUBSCRIBE it carries DUP=1 and the same QoS, topic, message ID and payload;
  * `c17_give_up`: after RetryCount retransmissions the expiry sends nothing and fails the
    exchange with "no more retries" (the timing of the budget is C19);
  * `c17_puback` / `c17_pubrec` / `c17_pubcomp`: the QoS 1 exchange ends successfully exactly on
    the PUBACK with its message ID, the QoS 2 exchange on PUBREC-then-PUBCOMP, in that order;
  * `c17_returns_result`: the blocked `Publish` returns the result of its exchange the moment it ends;
  * `c17_pubrel_answered`: EVERY PUBREL — of an exchange in progress, of one whose message cannot be
    delivered, of one already finished, or of none at all — is answered with a PUBCOMP of the same
    message ID as long as the connection is open.
  The monitors `ClientSpec.c17*` check the whole-session statements on implementation traces.
-/
import Bisquitt.Spec.Client

namespace Bisquitt.Cl
open Bisquitt Cl

theorem send_open (c : Cl) (p : Pkt) (h : c.connClosed = false) :
    c.send p = (c.emit (.sn (encode p)), true) := by simp [send, h]

/-- the DUP variant a retransmission sends -/
def dupOf : Pkt → Pkt
  | .subscribe _ q tit m tid n => .subscribe true q tit m tid n
  | .publish _ q r tit tid m d => .publish true q r tit tid m d
  | p => p

/-- **C17.** A retransmission: the stored packet, with DUP set if it has such a flag. -/
theorem c17_retry_dup (c : Cl) (t : Tx) (p : Pkt) (hd : t.done = false) (hp : t.data = some p)
    (hb : t.retryNum + 1 ≤ c.cfg.rc) (ho : c.connClosed = false) :
    (c.fireTx t .retry).outs = (c.now, Out.sn (encode (dupOf p))) :: c.outs := by
  unfold fireTx
  have hb' : ¬ (t.retryNum + 1 > c.cfg.rc) := by omega
  simp only [hd, Bool.false_eq_true, if_false, hb', hp, Option.map_some]
  cases p <;> simp [send, setTx, ho, emit, dupOf]

/-- **C17.** Budget used up: nothing sent, the exchange fails with "no more retries". -/
theorem c17_give_up (c : Cl) (t : Tx) (hd : t.done = false) (hb : t.retryNum + 1 > c.cfg.rc) :
    c.fireTx t .retry = c.finishTx t.id .noMoreRetries := by
  unfold fireTx; simp [hd, hb]

/-- **C17.** QoS 1: the PUBACK with the exchange's message ID ends it successfully. -/
theorem c17_puback (c : Cl) (tid mid : UInt16) (rc : UInt8) (t : Tx) (hl : c.lookupById mid = some t) (hk : t.kind = .pub1) :
    c.handlePacket (.puback tid mid rc) = c.finishTx t.id .ok := by
  unfold handlePacket; simp [hl, hk]

/-- **C17.** QoS 2: PUBREC moves the exchange on (PUBREL sent, retry budget fresh) … -/
theorem c17_pubrec (c : Cl) (mid : UInt16) (t : Tx) (hl : c.lookupById mid = some t) (hk : t.kind = .pub2 .awaitingPubrec) :
    c.handlePacket (.pubrec mid) = (c.proceed t.id (.pub2 .awaitingPubcomp) (.pubrel mid)).sendOrFail (.pubrel mid) := by
  unfold handlePacket; simp [hl, hk]

/-- … and only then PUBCOMP ends it; a PUBCOMP before the PUBREC is ignored. -/
theorem c17_pubcomp (c : Cl) (mid : UInt16) (t : Tx) (st : P2St) (hl : c.lookupById mid = some t) (hk : t.kind = .pub2 st) :
    c.handlePacket (.pubcomp mid) = if st = .awaitingPubcomp then c.finishTx t.id .ok else c := by
  unfold handlePacket
  cases st <;> simp [hl, hk]

/-- **C17.** The blocked call returns the result of its exchange as soon as it has ended. -/
theorem c17_returns_result (c : Cl) (w : Wait) (t : Tx) (hw : w.kind = .plain) (hc : w.call ≠ "#keepalive")
    (ht : c.getTx w.tx = some t) (hd : t.done = true) (hg : c.groupDone = false) (hn : w.committed = false) :
    (c.settleOne w).outs = (c.now, Out.ret w.call t.err) :: c.outs ∧ (c.settleOne w).waits = c.waits := by
  unfold settleOne
  simp [ht, hd, hw, hc, hg, hn, emit]

theorem sendOrFail_open (c : Cl) (p : Pkt) (h : c.connClosed = false) : c.sendOrFail p = c.emit (.sn (encode p)) := by
  simp [sendOrFail, send, h]

theorem finishTx_outs (c : Cl) (id : Nat) (e : Err) : (c.finishTx id e).outs = c.outs := by
  unfold finishTx
  split
  · split
    · rfl
    · unfold runFinally; split <;> (try split) <;> rfl
  · rfl

@[simp] theorem deliver_connClosed (c : Cl) (topic : Bytes) (q : UInt8) (r : Bool) (d : Bytes) :
    (c.deliver topic q r d).connClosed = c.connClosed := by
  unfold deliver; simp only; split <;> rfl

@[simp] theorem deliver_now (c : Cl) (topic : Bytes) (q : UInt8) (r : Bool) (d : Bytes) :
    (c.deliver topic q r d).now = c.now := by
  unfold deliver; simp only; split <;> rfl

/-- **C17.** Every PUBREL is answered with a PUBCOMP of the same message ID. -/
theorem c17_pubrel_answered (c : Cl) (mid : UInt16) (ho : c.connClosed = false) :
    (c.now, Out.sn (encode (.pubcomp mid))) ∈ (c.handlePacket (.pubrel mid)).outs := by
  unfold handlePacket
  simp only
  split
  · rename_i t ht
    split
    · split
      · rename_i topic htopic
        simp only [send, deliver_connClosed, ho, Bool.false_eq_true, if_false, if_true, finishTx_outs]
        simp [emit, deliver_now]
      · simp only [send, ho, Bool.false_eq_true, if_false, if_true, finishTx_outs]
        simp [emit]
    · simp [sendOrFail_open _ _ ho, emit]
  · simp [sendOrFail_open _ _ ho, emit]

end Bisquitt.Cl
