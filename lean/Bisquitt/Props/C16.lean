/-
  C16 — QoS 1/2 delivery to clients survives datagram loss (gateway half).

  Theorems about the model's broker-publish transaction, for ALL states:
  * `c16_setDup`: a retransmission is the stored packet with only the DUP flag set — same type,
    QoS, retain flag, topic ID, message ID and payload;
  * `c16_retry_resends`: a retry-timer expiry on an unfinished exchange that has retries left
    sends exactly that packet, counts the retry and re-arms the timer one RetryDelay ahead;
  * `c16_retry_gives_up`: after RetryCount unanswered retransmissions the expiry sends nothing
    and finishes the transaction (the timing of the budget is C19, `c19_retry`);
  * `c16_puback` / `c16_pubrec` / `c16_pubrel` / `c16_pubcomp`: in the state that awaits it, each
    acknowledgement is relayed once with the same message ID and moves the exchange on; in any
    other state (a duplicate after loss) it is ignored — so the broker sees each once.
  That the client library runs the handler exactly once and survives loss on its side is decided by
  the client / system suites; the monitor `Spec.c16` checks the retransmission rules on every
  implementation trace.
-/
import Bisquitt.Lemmas.GwSt
import Bisquitt.Lemmas.GwEmits
import Bisquitt.Spec.Gateway

namespace Bisquitt.Gw
open Bisquitt Gw

/-- **C16.** What a retransmission changes. -/
theorem c16_setDup (dup : Bool) (q : UInt8) (r : Bool) (tit : UInt8) (t m : UInt16) (d : Bytes) :
    setDup (.publish dup q r tit t m d) = .publish true q r tit t m d ∧
    (∀ tid mid name, setDup (.register tid mid name) = .register tid mid name) ∧
    (∀ mid, setDup (.pubrel mid) = .pubrel mid) := ⟨rfl, fun _ _ _ => rfl, fun _ => rfl⟩

theorem snSend_txs_eq (g : Gw) (p : Pkt) (tx : Option Nat) : (g.snSend p tx).txs = g.txs := by
  unfold snSend; split <;> rfl

/-- **C16.** A retry with budget left: the same packet with DUP, retry counted, timer re-armed. -/
theorem c16_retry_resends (g : Gw) (t : Tx) (q : UInt8) (st : BpSt) (p : Pkt) (snp : Option Pkt) (n : Nat)
    (hk : t.kind = .brokerPub q st (.sn p) snp n) (hd : t.done = false) (hb : n + 1 ≤ g.cfg.retryCount)
    (hs : g.st ≠ .asleep) :
    (g.retryExpire t).outs = (g.now, Out.sn (encode (setDup p))) :: g.outs ∧
    (g.retryExpire t).txs =
      (g.setTx { t with kind := .brokerPub q st (.sn (setDup p)) snp (n + 1),
                        timer := some (g.now + g.cfg.retryDelay) }).txs := by
  unfold retryExpire
  have hb' : ¬ (n + 1 > g.cfg.retryCount) := by omega
  simp only [hk, hd, Bool.false_eq_true, if_false, hb', hs, false_and]
  constructor
  · simp [snSend, hs, emit, setTx]
  · rw [snSend_txs_eq]
    rfl

/-- **C16.** Budget used up: nothing is sent, the transaction ends. -/
theorem c16_retry_gives_up (g : Gw) (t : Tx) (q : UInt8) (st : BpSt) (data : BpData) (snp : Option Pkt) (n : Nat)
    (hk : t.kind = .brokerPub q st data snp n) (hd : t.done = false) (hb : n + 1 > g.cfg.retryCount)
    (hs : ¬ (g.st = .asleep ∧ data.toClient = true)) :
    g.retryExpire t = g.finishTx t.id ∧ (g.retryExpire t).outs = g.outs := by
  unfold retryExpire
  simp only [hk, hd, Bool.false_eq_true, if_false, hb, if_true, hs]
  exact ⟨trivial, finishTx_outs g t.id⟩

/-- **C16.** While the client sleeps, an exchange that waits for the client neither retransmits nor
    uses up its retries: the timer is re-armed, nothing else changes (the packet waits in the queue). -/
theorem c16_retry_suspended_while_asleep (g : Gw) (t : Tx) (q : UInt8) (st : BpSt) (p : Pkt) (snp : Option Pkt) (n : Nat)
    (hk : t.kind = .brokerPub q st (.sn p) snp n) (hd : t.done = false) (hs : g.st = .asleep) :
    g.retryExpire t = g.setTx { t with timer := some (g.now + g.cfg.retryDelay) } := by
  unfold retryExpire
  simp [hk, hd, hs, BpData.toClient]

/-- **C16.** The client's PUBACK for a QoS-1 exchange awaiting it: one MQTT PUBACK, same ID. -/
theorem c16_puback (g : Gw) (h : g.st = .active) (tid mid : UInt16) (t : Tx) (d : BpData) (snp : Option Pkt) (n : Nat)
    (hl : g.lookupByIdB mid = some t) (hk : t.kind = .brokerPub 1 .awaitingPuback d snp n) :
    g.handleSn (.puback tid mid Gen.RC_ACCEPTED) = g.proceedMQ t.id .done (.puback mid) := by
  unfold handleSn
  have : (!g.packetLegal (.puback tid mid Gen.RC_ACCEPTED)) = false := by unfold packetLegal; simp [h]
  simp [this, hl, hk]

/-- … and a duplicate (any other state of the exchange) is ignored -/
theorem c16_puback_dup (g : Gw) (h : g.st = .active) (tid mid : UInt16) (rc : UInt8) (t : Tx) (st : BpSt) (d : BpData)
    (snp : Option Pkt) (n : Nat) (hl : g.lookupByIdB mid = some t) (hk : t.kind = .brokerPub 1 st d snp n)
    (hst : st ≠ .awaitingPuback) : g.handleSn (.puback tid mid rc) = g := by
  unfold handleSn
  have : (!g.packetLegal (.puback tid mid rc)) = false := by unfold packetLegal; simp [h]
  simp [this, hl, hk, hst]

theorem c16_pubrec (g : Gw) (h : g.st = .active) (mid : UInt16) (t : Tx) (st : BpSt) (d : BpData) (snp : Option Pkt) (n : Nat)
    (hl : g.lookupByIdB mid = some t) (hk : t.kind = .brokerPub 2 st d snp n) :
    g.handleSn (.pubrec mid) =
      if st ≠ .awaitingPubrec then g else g.proceedMQ t.id .awaitingPubrel (.pubrec mid) := by
  unfold handleSn
  have : (!g.packetLegal (.pubrec mid)) = false := by unfold packetLegal; simp [h]
  simp [this, hl, hk]

theorem c16_pubrel (g : Gw) (mid : UInt16) (t : Tx) (st : BpSt) (d : BpData) (snp : Option Pkt) (n : Nat)
    (hl : g.lookupByIdB mid = some t) (hk : t.kind = .brokerPub 2 st d snp n) :
    g.handleMq (.pubrel mid) =
      if st ≠ .awaitingPubrel then g else g.proceedSN t.id .awaitingPubcomp (.pubrel mid) := by
  unfold handleMq
  simp [hl, hk]

theorem c16_pubcomp (g : Gw) (h : g.st = .active) (mid : UInt16) (t : Tx) (st : BpSt) (d : BpData) (snp : Option Pkt) (n : Nat)
    (hl : g.lookupByIdB mid = some t) (hk : t.kind = .brokerPub 2 st d snp n) :
    g.handleSn (.pubcomp mid) =
      if st ≠ .awaitingPubcomp then g else g.proceedMQ t.id .done (.pubcomp mid) := by
  unfold handleSn
  have : (!g.packetLegal (.pubcomp mid)) = false := by unfold packetLegal; simp [h]
  simp [this, hl, hk]

end Bisquitt.Gw
