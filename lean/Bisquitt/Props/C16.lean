/-
  C16 — QoS 1/2 delivery to clients survives datagram loss (gateway half).

  Theorems about the model's broker-publish transaction, for ALL states:
  * `c16_setDup`: a retransmission is the stored packet with only the DUP flag set — same type,
    QoS, retain flag, topic ID, message ID and payload;
  * `c16_retry_resends`: a retry-timer expiry on an unfinished exchange that has retries left
    sends exactly that packet, counts the retry and re-arms the timer one RetryDelay ahead;
  * `c16_retry_gives_up`: after RetryCount unanswered retransmissions the expiry sends nothing
    and finishes the transaction (the timing of the budget is C19, `c19_retry`);
  * `c16_puback` / `c16_pubrec` / `c16_pubrel` / `c16_pubcomp`: in the state that awaits it, each
    acknowledgement is relayed once with the same message ID and moves the exchange on; in any
    other state (a duplicate after loss) it is ignored — so the broker sees each once.
  * **all runs** — `c16_retry_counter_bounded`: in EVERY reachable state the retry counter of every
    gateway-initiated exchange is at most RetryCount (invariant `AllB`, frame `FB` of `Lemmas/GwRetry.lean`
    carried through every model function): no step is ever retransmitted more than RetryCount times.
  The monitor `Spec.c16` checks the retransmission rules on every implementation trace.

  CLIENT HALF (the client model, ALL states) — "the client's handler run exactly once":
  * `c16_client_publish2_silent`: a QoS-2 PUBLISH — the first one or a retransmission — never
    runs a handler;
  * `c16_client_publish2_opens`: the first one opens an exchange under its message ID;
  * `c16_client_pubrel_once`: the PUBREL of an open exchange runs the delivery once, answers with
    PUBCOMP and forgets the exchange;
  * `c16_client_pubrel_unknown_silent` / `c16_client_second_pubrel_silent`: a PUBREL for which no
    exchange is open (a retransmission after the exchange ended) runs no handler (it is answered all
    the same: `c17_pubrel_answered`).
  The monitor `ClientSpec.c16` states the whole-session form (a QoS-2 handler run is covered by
  exactly one PUBREL of an open exchange) on traces of the real client.
-/
import Bisquitt.Lemmas.GwSt
import Bisquitt.Lemmas.GwEmits
import Bisquitt.Spec.Gateway
import Bisquitt.Props.C17
import Bisquitt.Props.C08
import Bisquitt.Lemmas.GwRetry

namespace Bisquitt.Gw
open Bisquitt Gw

/-- **C16.** What a retransmission changes. -/
theorem c16_setDup (dup : Bool) (q : UInt8) (r : Bool) (tit : UInt8) (t m : UInt16) (d : Bytes) :
    setDup (.publish dup q r tit t m d) = .publish true q r tit t m d ∧
    (∀ tid mid name, setDup (.register tid mid name) = .register tid mid name) ∧
    (∀ mid, setDup (.pubrel mid) = .pubrel mid) := ⟨rfl, fun _ _ _ => rfl, fun _ => rfl⟩

theorem snSend_txs_eq (g : Gw) (p : Pkt) (tx : Option Nat) : (g.snSend p tx).txs = g.txs := by
  unfold snSend; split <;> rfl

/-- **C16.** A retry with budget left: the same packet with DUP, retry counted, timer re-armed. -/
theorem c16_retry_resends (g : Gw) (t : Tx) (q : UInt8) (st : BpSt) (p : Pkt) (snp : Option Pkt) (n : Nat)
    (hk : t.kind = .brokerPub q st (.sn p) snp n) (hd : t.done = false) (hb : n + 1 ≤ g.cfg.retryCount)
    (hs : g.st ≠ .asleep) :
    (g.retryExpire t).outs = (g.now, Out.sn (encode (setDup p))) :: g.outs ∧
    (g.retryExpire t).txs =
      (g.setTx { t with kind := .brokerPub q st (.sn (setDup p)) snp (n + 1),
                        timer := some (g.now + g.cfg.retryDelay) }).txs := by
  unfold retryExpire
  have hb' : ¬ (n + 1 > g.cfg.retryCount) := by omega
  simp only [hk, hd, Bool.false_eq_true, if_false, hb', hs, false_and]
  constructor
  · simp [snSend, hs, emit, setTx]
  · rw [snSend_txs_eq]
    rfl

/-- **C16.** Budget used up: nothing is sent, the transaction ends. -/
theorem c16_retry_gives_up (g : Gw) (t : Tx) (q : UInt8) (st : BpSt) (data : BpData) (snp : Option Pkt) (n : Nat)
    (hk : t.kind = .brokerPub q st data snp n) (hd : t.done = false) (hb : n + 1 > g.cfg.retryCount)
    (hs : ¬ (g.st = .asleep ∧ data.toClient = true)) :
    g.retryExpire t = g.finishTx t.id ∧ (g.retryExpire t).outs = g.outs := by
  unfold retryExpire
  simp only [hk, hd, Bool.false_eq_true, if_false, hb, if_true, hs]
  exact ⟨trivial, finishTx_outs g t.id⟩

/-- **C16.** While the client sleeps, an exchange that waits for the client neither retransmits nor
    uses up its retries: the timer is re-armed, nothing else changes (the packet waits in the queue). -/
theorem c16_retry_suspended_while_asleep (g : Gw) (t : Tx) (q : UInt8) (st : BpSt) (p : Pkt) (snp : Option Pkt) (n : Nat)
    (hk : t.kind = .brokerPub q st (.sn p) snp n) (hd : t.done = false) (hs : g.st = .asleep) :
    g.retryExpire t = g.setTx { t with timer := some (g.now + g.cfg.retryDelay) } := by
  unfold retryExpire
  simp [hk, hd, hs, BpData.toClient]

/-- **C16.** The client's PUBACK for a QoS-1 exchange awaiting it: one MQTT PUBACK, same ID. -/
theorem c16_puback (g : Gw) (h : g.st = .active) (tid mid : UInt16) (t : Tx) (d : BpData) (snp : Option Pkt) (n : Nat)
    (hl : g.lookupByIdB mid = some t) (hk : t.kind = .brokerPub 1 .awaitingPuback d snp n) :
    g.handleSn (.puback tid mid Gen.RC_ACCEPTED) = g.proceedMQ t.id .done (.puback mid) := by
  unfold handleSn
  have : (!g.packetLegal (.puback tid mid Gen.RC_ACCEPTED)) = false := by unfold packetLegal; simp [h]
  simp [this, hl, hk]

/-- … and a duplicate (any other state of the exchange) is ignored -/
theorem c16_puback_dup (g : Gw) (h : g.st = .active) (tid mid : UInt16) (rc : UInt8) (t : Tx) (st : BpSt) (d : BpData)
    (snp : Option Pkt) (n : Nat) (hl : g.lookupByIdB mid = some t) (hk : t.kind = .brokerPub 1 st d snp n)
    (hst : st ≠ .awaitingPuback) : g.handleSn (.puback tid mid rc) = g := by
  unfold handleSn
  have : (!g.packetLegal (.puback tid mid rc)) = false := by unfold packetLegal; simp [h]
  simp [this, hl, hk, hst]

theorem c16_pubrec (g : Gw) (h : g.st = .active) (mid : UInt16) (t : Tx) (st : BpSt) (d : BpData) (snp : Option Pkt) (n : Nat)
    (hl : g.lookupByIdB mid = some t) (hk : t.kind = .brokerPub 2 st d snp n) :
    g.handleSn (.pubrec mid) =
      if st ≠ .awaitingPubrec then g else g.proceedMQ t.id .awaitingPubrel (.pubrec mid) := by
  unfold handleSn
  have : (!g.packetLegal (.pubrec mid)) = false := by unfold packetLegal; simp [h]
  simp [this, hl, hk]

theorem c16_pubrel (g : Gw) (mid : UInt16) (t : Tx) (st : BpSt) (d : BpData) (snp : Option Pkt) (n : Nat)
    (hl : g.lookupByIdB mid = some t) (hk : t.kind = .brokerPub 2 st d snp n) :
    g.handleMq (.pubrel mid) =
      if st ≠ .awaitingPubrel then g else g.proceedSN t.id .awaitingPubcomp (.pubrel mid) := by
  unfold handleMq
  simp [hl, hk]

theorem c16_pubcomp (g : Gw) (h : g.st = .active) (mid : UInt16) (t : Tx) (st : BpSt) (d : BpData) (snp : Option Pkt) (n : Nat)
    (hl : g.lookupByIdB mid = some t) (hk : t.kind = .brokerPub 2 st d snp n) :
    g.handleSn (.pubcomp mid) =
      if st ≠ .awaitingPubcomp then g else g.proceedMQ t.id .done (.pubcomp mid) := by
  unfold handleSn
  have : (!g.packetLegal (.pubcomp mid)) = false := by unfold packetLegal; simp [h]
  simp [this, hl, hk]

end Bisquitt.Gw

namespace Bisquitt.Gw
open Bisquitt Gw

/-! ## every run: the retry counter of an exchange never exceeds RetryCount -/

theorem FB.finishSession (g : Gw) : FB g g.finishSession := by
  unfold Gw.finishSession
  split
  · split
    · exact FB.refl g
    · unfold Gw.shutdownDisconnect Gw.stopTimers Gw.emitEnd
      have h1 : ∀ x : Gw, FB x (if x.st = .active ∨ x.st = .awake then x.emit (.sn (encode (.disconnect 0))) else x) := by
        intro x; split
        · exact FB.emit x _
        · exact FB.refl x
      have h2 : ∀ x : Gw, FB x ((x.emit (.ended x.endCls)).emit .mqClose) := fun x => (FB.emit x _).trans (FB.emit _ _)
      refine (((FB.setNow g _).trans (h1 _)).trans (h2 _)).trans ⟨rfl, fun hA => ?_⟩
      intro t ht
      simp only [List.mem_map] at ht
      obtain ⟨y, hy, rfl⟩ := ht
      exact hA y hy
  · exact FB.refl g

theorem FB.advance : ∀ (fuel : Nat) (g : Gw) (t : Nat), FB g (advance fuel g t) := by
  intro fuel
  induction fuel with
  | zero => intro g t; exact FB.setNow g _
  | succ n ih =>
    intro g t
    unfold Gw.advance
    split
    · exact (FB.finishSession g).trans (FB.setNow _ _)
    · split
      · exact ((FB.fireDue g _).trans (FB.finishSession _)).trans (ih _ t)
      · exact FB.setNow g _

theorem FB.sample (g : Gw) : FB g g.sample := by
  unfold Gw.sample Gw.sampleBuf Gw.sampleReg Gw.sampleState
  have e : ∀ (x y : Gw) (o : Out), isMqConnect (y.now, o) = false → y.cfg = x.cfg → y.txs = x.txs → y.outs = x.outs →
      FB x (y.emit o) := fun x y o _ hc ht hou => (FB.of_eq hc hou ht).trans (FB.emit y o)
  split <;> split <;> split <;>
    first
    | exact FB.refl g
    | exact (e _ _ _ rfl rfl rfl rfl)
    | exact (e _ _ _ rfl rfl rfl rfl).trans (e _ _ _ rfl rfl rfl rfl)
    | exact ((e _ _ _ rfl rfl rfl rfl).trans (e _ _ _ rfl rfl rfl rfl)).trans (e _ _ _ rfl rfl rfl rfl)


theorem FB.handleSn (g : Gw) (p : Pkt) : FB g (g.handleSn p) := by
  unfold Gw.handleSn
  split
  · exact FB.fail g _
  · split
    · exact FB.handleConnect g _ _ _ _
    · split
      · exact FB.connAuth g _ _ _ _ _
      · exact FB.refl g
    · split
      · exact FB.connWillTopic g _ _ _ _ _ _
      · exact FB.refl g
    · split
      · exact FB.connWillMsg g _ _ _ _
      · exact FB.refl g
    · exact FB.handleRegister g _ _
    · exact FB.handleClientPublish g _ _ _ _ _ _ _
    · exact FB.mqttSend g _
    · exact FB.handleSubscribe g _ _ _ _ _ _
    · exact FB.handleUnsubscribe g _ _ _ _
    · exact FB.handlePingreq g
    · exact FB.handleDisconnect g _
    · split
      · split
        · exact FB.bpRegack g _ _ _ _ _ _
        · exact FB.refl g
      · exact FB.refl g
    · split
      · split
        · split
          · exact FB.refl g
          · split
            · exact FB.finishTx g _
            · exact FB.proceedMQ g _ _ _
        · exact FB.refl g
      · exact FB.refl g
    · split
      · split
        · split
          · exact FB.refl g
          · exact FB.proceedMQ g _ _ _
        · exact FB.refl g
      · exact FB.refl g
    · split
      · split
        · split
          · exact FB.refl g
          · exact FB.proceedMQ g _ _ _
        · exact FB.refl g
      · exact FB.refl g
    · exact FB.fail g _

theorem FB.handleMq (g : Gw) (p : MqPkt) : FB g (g.handleMq p) := by
  unfold Gw.handleMq
  split
  · split
    · rename_i t st f hc
      exact FB.connConnack g t st _
    · exact FB.refl g
  · split
    · split
      · exact (FB.finishTx g _).trans (FB.snSend _ _ _)
      · exact FB.refl g
    · exact FB.refl g
  · exact FB.snSend g _ _
  · exact FB.snSend g _ _
  · split
    · split
      · split
        · split
          · exact (FB.finishTx g _).trans (FB.snSend _ _ _)
          · exact (FB.finishTx g _).trans (FB.snSend _ _ _)
        · exact (FB.finishTx g _).trans (FB.fail _ _)
      · exact FB.refl g
    · exact FB.refl g
  · exact FB.snSend g _ _
  · split
    · exact FB.of_eq rfl rfl rfl
    · split
      · exact FB.refl g
      · exact FB.snSend g _ _
  · exact FB.handleBrokerPublish g _ _ _ _ _ _
  · split
    · split
      · split
        · exact FB.refl g
        · exact FB.proceedSN g _ _ _
      · exact FB.refl g
    · exact FB.refl g
  · exact FB.fail g _


theorem FB.handleEvent (g : Gw) (ev : Event) : FB g (g.handleEvent ev) := by
  unfold Gw.handleEvent
  split
  · split
    · exact (FB.handleSn g _).trans (FB.keepBrokerAlive _)
    · exact FB.fail g _
  · exact FB.handleMq g _
  · exact FB.fail g _
  · split <;> exact FB.fail g _
  · exact FB.fail g _
  · exact FB.refl g

theorem FB.step (g : Gw) (t : Nat) (ev : Event) : FB g (g.step t ev) := by
  unfold Gw.step Gw.stepCore Gw.deliver
  have q1 := FB.advance 100000 g t
  split
  · exact (q1.trans (FB.finishSession _)).trans (FB.sample _)
  · exact ((((q1.trans (FB.handleEvent _ ev)).trans (FB.advance 100000 _ t)).trans (FB.finishSession _))).trans (FB.sample _)

/-- **C16 (ALL runs, gateway half).** In every reachable state every gateway-initiated exchange has made at most
    RetryCount retransmissions of its current step: the counter `c16_retry_resends` increments never exceeds the
    configured budget, whatever the client, the broker and the clock do (`c16_retry_gives_up`: when it is used up
    the expiry sends nothing and the exchange ends). -/
theorem c16_retry_counter_bounded (cfg : Cfg) (a b : UInt16) (evs : List (Nat × Event)) (t : Tx)
    (ht : t ∈ ((Gw.init cfg a b).run evs).txs) (q : UInt8) (st : BpSt) (d : BpData) (snp : Option Pkt) (n : Nat)
    (hk : t.kind = .brokerPub q st d snp n) : n ≤ cfg.retryCount := by
  have gen : ∀ (evs : List (Nat × Event)) (g : Gw), AllB g →
      AllB (evs.foldl (fun g (te : Nat × Event) => g.step te.1 te.2) g) ∧
      (evs.foldl (fun g (te : Nat × Event) => g.step te.1 te.2) g).cfg = g.cfg := by
    intro evs
    induction evs with
    | nil => intro g h; exact ⟨h, rfl⟩
    | cons e rest ih =>
      intro g h
      simp only [List.foldl_cons]
      have st := FB.step g e.1 e.2
      have r := ih _ (st.keep h)
      exact ⟨r.1, r.2.trans st.cfg⟩
  have h0 : AllB (Gw.init cfg a b) := by intro x hx; simp [Gw.init] at hx
  have h := gen evs (Gw.init cfg a b) h0
  have hrun : (Gw.init cfg a b).run evs = evs.foldl (fun g (te : Nat × Event) => g.step te.1 te.2) (Gw.init cfg a b) := rfl
  rw [hrun] at ht
  have := h.1 t ht q st d snp n hk
  rw [h.2] at this
  exact this

/-- non-vacuity: RetryDelay 200 ms, RetryCount 2; a QoS-1 message from the broker is never acknowledged by the client:
    500 ms later the exchange has made its two retransmissions (counter at the bound), later it is finished -/
example :
    let g := (Gw.init ⟨false, none, none, 200, 2, []⟩ 1 10).run
      [(100, .sn (encode (.connect false true 1 60 [0x63]))), (200, .mq (.connack 0)),
       (300, .mq (.publish false 1 false 5 [0x61, 0x62] [0x42])), (800, .tick)]
    (g.txs.filterMap fun t => match t.kind with | .brokerPub q _ _ _ n => some (q, n, t.done) | _ => none) = [(1, 2, false)] ∧
    ((g.run [(2000, .tick)]).txs.filterMap fun t => match t.kind with | .brokerPub q _ _ _ n => some (q, n, t.done) | _ => none) =
      [(1, 2, true)] := by decide

end Bisquitt.Gw

namespace Bisquitt.Cl
open Bisquitt Cl

def isHandlerOut (o : Nat × Out) : Bool := match o.2 with | .handler .. => true | _ => false
/-- the callback invocations so far -/
def handlerOuts (c : Cl) : List (Nat × Out) := c.outs.filter isHandlerOut

theorem handlerOuts_of_outs {c c' : Cl} (h : c'.outs = c.outs) : handlerOuts c' = handlerOuts c := by
  unfold handlerOuts; rw [h]

theorem emit_sn_handlerOuts (c : Cl) (b : Bytes) : handlerOuts (c.emit (.sn b)) = handlerOuts c := by
  simp [handlerOuts, emit, isHandlerOut]

theorem rxFail_outs (c : Cl) (e : Err) : (c.rxFail e).outs = c.outs := by
  unfold rxFail cancelGroup; split <;> rfl

theorem sendOrFail_handlerOuts (c : Cl) (p : Pkt) : handlerOuts (c.sendOrFail p) = handlerOuts c := by
  by_cases h : c.connClosed = true
  · simp only [sendOrFail, send, h, if_true, Bool.false_eq_true, if_false]
    exact handlerOuts_of_outs (rxFail_outs c _)
  · simp only [sendOrFail, send, h, if_false, if_true]
    exact emit_sn_handlerOuts c _

theorem setTx_outs (c : Cl) (t : Tx) : (c.setTx t).outs = c.outs := rfl

/-- **C16 (client).** A QoS-2 PUBLISH, first or retransmitted, runs no handler. -/
theorem c16_client_publish2_silent (c : Cl) (dup retain : Bool) (tit : UInt8) (tid mid : UInt16) (data : Bytes) :
    handlerOuts (c.handlePacket (.publish dup 2 retain tit tid mid data)) = handlerOuts c := by
  unfold handlePacket
  simp only [if_true]
  cases hl : c.byIdB.lookup mid with
  | some id =>
    simp only
    split
    · split
      · rw [sendOrFail_handlerOuts]; exact handlerOuts_of_outs rfl
      · rfl
    · rfl
  | none =>
    simp only
    split
    · split
      · rw [sendOrFail_handlerOuts]; exact handlerOuts_of_outs rfl
      · exact handlerOuts_of_outs (by simp [store, newTx])
    · exact handlerOuts_of_outs (by simp [store, newTx])

theorem getTx_id {c : Cl} {id : Nat} {t : Tx} (h : c.getTx id = some t) : t.id = id := by
  unfold getTx at h
  have := List.find?_some h
  simpa using this

theorem lookupByIdB_spec {c : Cl} {mid : UInt16} {t : Tx} (h : c.lookupByIdB mid = some t) :
    c.byIdB.lookup mid = some t.id ∧ c.getTx t.id = some t := by
  unfold lookupByIdB at h
  cases hl : c.byIdB.lookup mid with
  | none => simp [hl] at h
  | some id =>
    simp only [hl, Option.bind_some] at h
    have := getTx_id h
    subst this
    exact ⟨rfl, h⟩

theorem lookup_filter_ne {β} (l : List (UInt16 × β)) (m : UInt16) : (l.filter (·.1 != m)).lookup m = none := by
  simp
  intro a b _ h e
  exact h e.symm

theorem find_none_map {α} (l : List α) (p : α → Bool) (v : α) (h : l.find? p = none) :
    l.map (fun x => if p x then v else x) = l := by
  have h' := List.find?_eq_none.mp h
  conv => rhs; rw [← List.map_id l]
  apply List.map_congr_left
  intro a ha
  simp [h' a ha]

/-- **C16 (client).** The first QoS-2 PUBLISH of a message ID opens an exchange under that ID
    (and is answered with PUBREC). -/
theorem c16_client_publish2_opens (c : Cl) (dup retain : Bool) (tit : UInt8) (tid mid : UInt16) (data : Bytes)
    (hnew : c.byIdB.lookup mid = none) (hfresh : c.getTx c.nextTx = none) (ho : c.connClosed = false) :
    let c' := c.handlePacket (.publish dup 2 retain tit tid mid data)
    ∃ t, c'.lookupByIdB mid = some t ∧ t.kind = .brokerPub2 (.publish dup 2 retain tit tid mid data) ∧
      t.key = .byIdB mid ∧ t.done = false ∧
      c'.outs = (c.now, Out.sn (encode (.pubrec mid))) :: c.outs := by
  unfold getTx at hfresh
  have hmap := find_none_map c.txs (·.id == c.nextTx)
    { id := c.nextTx, kind := .brokerPub2 (.publish dup 2 retain tit tid mid data), key := .byIdB mid } hfresh
  simp only [handlePacket, if_true, hnew, newTx, store, getTx, List.find?_append, hfresh, Option.none_or,
    List.find?_cons, beq_self_eq_true, setTx]
  refine ⟨{ id := c.nextTx, kind := .brokerPub2 (.publish dup 2 retain tit tid mid data), key := .byIdB mid }, ?_, rfl, rfl, rfl, ?_⟩
  · simp only [sendOrFail, send, ho, emit, lookupByIdB, getTx, List.map_append, hmap, Bool.false_eq_true, if_false, if_true,
      List.lookup_cons, beq_self_eq_true, Option.bind_some, List.find?_append, hfresh, Option.none_or, List.map_cons,
      List.map_nil, List.find?_cons]
  · simp [sendOrFail, send, ho, emit]

/-- **C16 (client).** The PUBREL of an open exchange: the message is delivered (one callback
    invocation at most, none if no subscription matches), PUBCOMP is sent, the exchange is forgotten. -/
theorem c16_client_pubrel_once (c : Cl) (mid : UInt16) (t : Tx) (dup r : Bool) (q tit : UInt8) (tid m : UInt16)
    (data topic : Bytes)
    (hl : c.lookupByIdB mid = some t) (hk : t.kind = .brokerPub2 (.publish dup q r tit tid m data))
    (hkey : t.key = .byIdB mid) (hd : t.done = false) (htopic : c.topicFor tit tid = some topic)
    (ho : c.connClosed = false) :
    let c' := c.handlePacket (.pubrel mid)
    handlerOuts c' = handlerOuts (c.deliver topic q r data) ∧
    (handlerOuts c').length ≤ (handlerOuts c).length + 1 ∧
    c'.lookupByIdB mid = none := by
  obtain ⟨hlk, hget⟩ := lookupByIdB_spec hl
  have hdel : ∀ x : Cl, x = c.deliver topic q r data →
      x.txs = c.txs ∧ x.byIdB = c.byIdB ∧ x.connClosed = c.connClosed := by
    intro x hx; subst hx; unfold deliver; simp only; split <;> exact ⟨rfl, rfl, rfl⟩
  obtain ⟨hdt, hdb, hdc⟩ := hdel _ rfl
  simp only [handlePacket, hl, hk, htopic, send, hdc, ho, Bool.false_eq_true, if_false, if_true]
  have hget' : ((c.deliver topic q r data).emit (.sn (encode (.pubcomp mid)))).getTx t.id = some t := by
    unfold getTx emit; simp only [hdt]; exact hget
  refine ⟨?_, ?_, ?_⟩
  · rw [handlerOuts_of_outs (finishTx_outs _ _ _)]
    exact emit_sn_handlerOuts _ _
  · rw [handlerOuts_of_outs (finishTx_outs _ _ _), emit_sn_handlerOuts]
    unfold deliver; simp only
    split
    · omega
    · simp only [handlerOuts, emit, List.filter_cons]
      split <;> simp
  · unfold finishTx
    simp only [hget', hd, Bool.false_eq_true, if_false]
    unfold runFinally
    simp only [hkey]
    have : ((c.deliver topic q r data).emit (.sn (encode (.pubcomp mid)))).byIdB = c.byIdB := by
      unfold emit; exact hdb
    simp only [setTx, this, hlk, if_true]
    unfold lookupByIdB
    simp only [lookup_filter_ne, Option.bind_none]

/-- **C16 (client).** A PUBREL for which no exchange is open (a retransmission after the end of
    the exchange) runs no handler. -/
theorem c16_client_pubrel_unknown_silent (c : Cl) (mid : UInt16) (hl : c.lookupByIdB mid = none) :
    handlerOuts (c.handlePacket (.pubrel mid)) = handlerOuts c := by
  simp only [handlePacket, hl]
  exact sendOrFail_handlerOuts c _

/-- **C16 (client).** Exactly once: after the PUBREL of an open exchange, a retransmitted PUBREL
    of the same message ID runs no handler any more. -/
theorem c16_client_second_pubrel_silent (c : Cl) (mid : UInt16) (t : Tx) (dup r : Bool) (q tit : UInt8) (tid m : UInt16)
    (data topic : Bytes)
    (hl : c.lookupByIdB mid = some t) (hk : t.kind = .brokerPub2 (.publish dup q r tit tid m data))
    (hkey : t.key = .byIdB mid) (hd : t.done = false) (htopic : c.topicFor tit tid = some topic)
    (ho : c.connClosed = false) :
    handlerOuts ((c.handlePacket (.pubrel mid)).handlePacket (.pubrel mid)) = handlerOuts (c.handlePacket (.pubrel mid)) :=
  c16_client_pubrel_unknown_silent _ mid (c16_client_pubrel_once c mid t dup r q tit tid m data topic hl hk hkey hd htopic ho).2.2

/-! Non-vacuity: a concrete client with one subscription receives a QoS-2 PUBLISH twice (a
    retransmission) and the PUBREL twice: the hypotheses of `c16_client_pubrel_once` are met after
    the PUBLISH, and the callback runs exactly once. -/
def c16Client0 : Cl :=
  { cfg := { cid := [0x63], user := none, pass := [], ka := 0, ct := 1000, rd := 1000, rc := 2, clean := true,
             will := none, predef := [] },
    st := .active, handlers := [([0x61, 0x62], [0x61, 0x62])] }
def c16Pub2 : Pkt := .publish false 2 false Gen.TIT_SHORT 0x6162 7 [1, 2, 3]

example : ((c16Client0.handlePacket c16Pub2).lookupByIdB 7).map (fun t => (t.kind, t.key, t.done)) =
    some (.brokerPub2 c16Pub2, .byIdB 7, false) ∧
    (c16Client0.handlePacket c16Pub2).topicFor Gen.TIT_SHORT 0x6162 = some [0x61, 0x62] ∧
    (c16Client0.handlePacket c16Pub2).connClosed = false := by decide
example : (handlerOuts (c16Client0.handlePacket c16Pub2)).length = 0 ∧
    (handlerOuts (((c16Client0.handlePacket c16Pub2).handlePacket c16Pub2).handlePacket (.pubrel 7))).length = 1 ∧
    (handlerOuts ((((c16Client0.handlePacket c16Pub2).handlePacket c16Pub2).handlePacket (.pubrel 7)).handlePacket
      (.pubrel 7))).length = 1 := by decide

end Bisquitt.Cl
