/-
  C34 — Sessions of vanished clients are reaped (gateway side, under the stated assumption of a
  broker that enforces keep-alive and drops connections that never send CONNECT).

  The broker is the environment: the gateway's part is (a) not to keep the broker connection alive
  on behalf of a client that has fallen silent, and (b) to end the session when the broker closes.
  Theorems about the gateway model, for ALL states:
  * `c34_pinger_stops`: a sleep pinger has a tick pending only strictly before the end of the
    announced sleep, and its cancellation removes it — after the announced sleep it never pings;
  * `c34_retries_stop`: retransmissions (to either side) stop once the retry budget is used up (C16);
  * `c34_broker_eof_ends`: the broker closing the connection cancels the session in that very step
    (C13 `c13_causes`, `c13_step_ends` emit the end), and
  * `c34_half_open_connect`: before the connect exchange has completed, the connect timer ends the
    session (C10 `c10_expire`).
  Every other packet to the broker is the immediate translation of a client datagram or the answer
  to a broker packet (C01–C03), so a silent client produces none.  The monitor `Spec.c34` checks on
  implementation traces (generator profile `keepalive`: the client vanishes at a random point, the
  case runs on for several keep-alive periods, sometimes with the broker's EOF) that nothing is sent
  to the broker of the gateway's own accord after the announced sleep plus the retry budget, and
  the session-end rules of C13 apply to the broker's EOF.
-/
import Bisquitt.Props.C13
import Bisquitt.Props.C16
import Bisquitt.Props.C10

namespace Bisquitt.Gw
open Bisquitt Gw

/-- **C34.** A pinger ticks only before the end of the announced sleep. -/
theorem c34_pinger_stops (p : Pinger) (i t : Nat) :
    ∀ d ∈ pingerDue p i t, ∀ j at_, d = Due.ping j at_ → at_ < p.cancelAt := by
  intro d hd j at_ he
  unfold pingerDue at hd
  rcases List.mem_append.mp hd with h | h
  · split at h
    · simp at h; rw [h] at he; cases he
    · simp at h
  · split at h
    · rename_i hc
      simp at h
      rw [h] at he
      cases he
      exact hc.2
    · simp at h

/-- … and its cancellation removes it for good. -/
theorem c34_pinger_cancelled (g : Gw) (i : Nat) : (g.dropPinger i).pingers = g.pingers.eraseIdx i := rfl

/-- **C34.** Retransmissions end with the retry budget. -/
theorem c34_retries_stop (g : Gw) (t : Tx) (q : UInt8) (st : BpSt) (data : BpData) (snp : Option Pkt) (n : Nat)
    (hk : t.kind = .brokerPub q st data snp n) (hd : t.done = false) (hb : n + 1 > g.cfg.retryCount) :
    (g.retryExpire t).outs = g.outs := by
  by_cases hs : g.st = .asleep ∧ data.toClient = true
  · -- suspended while the client sleeps: nothing is sent either (and the sleep itself is bounded: C11 / `c34_pinger_stops`)
    unfold retryExpire
    simp [hk, hd, hs, setTx]
  · exact (c16_retry_gives_up g t q st data snp n hk hd hb hs).2

/-- **C34.** The broker closing the connection cancels the session at once. -/
theorem c34_broker_eof_ends (g : Gw) : (g.handleEvent .mqEof).alive = false :=
  c13_causes g .mqEof (Or.inr (Or.inl rfl))

/-- **C34.** A connect exchange that never completes is ended by its timer. -/
theorem c34_half_open_connect (g : Gw) (t : Tx) (st : ConnSt) (f : ConnFields) (hk : t.kind = .connect st f)
    (hd : t.done = false) (ha : g.alive = true) : (g.txExpire t).alive = false :=
  (c10_expire g t st f hk hd ha).1

end Bisquitt.Gw

namespace Bisquitt.Gw
open Bisquitt Gw

theorem snSend_pingers (g : Gw) (p : Pkt) (tx : Option Nat) : (g.snSend p tx).pingers = g.pingers := by
  unfold snSend; split <;> rfl

theorem foldl_snSend_pingers (its : List BufItem) : ∀ g : Gw,
    (its.foldl (fun g (it : BufItem) => g.snSend it.pkt it.tx) g).pingers = g.pingers := by
  induction its with
  | nil => intro g; rfl
  | cons x xs ih => intro g; simp only [List.foldl_cons]; rw [ih, snSend_pingers]

/-- **C34.** A new sleep period replaces the pinger of the previous one: at most one pinger runs,
    the one started for the period announced now; it is cancelled at the end of that period. -/
theorem c34_pinger_replaced (g : Gw) (d : UInt16) :
    (g.handleSleep d).pingers =
      if g.keepAlive ≠ 0 then
        [{ next := g.now + g.keepAlive.toNat * 1000, cancelAt := g.now + d.toNat * 1000, period := g.keepAlive.toNat * 1000 }]
      else [] := by
  unfold handleSleep clearBufferUnlessAsleep armSleepPinger
  split <;> (split <;> simp_all [snSendNow, emit, setSt, startSleepPinger, cancelSleepPinger, clearBuffer])

theorem snSend_keepAlive (g : Gw) (p : Pkt) (tx : Option Nat) : (g.snSend p tx).keepAlive = g.keepAlive := by
  unfold snSend; split <;> rfl
theorem snSend_now34 (g : Gw) (p : Pkt) (tx : Option Nat) : (g.snSend p tx).now = g.now := by
  unfold snSend; split <;> rfl
theorem foldl_snSend_ka_now (its : List BufItem) : ∀ g : Gw,
    (its.foldl (fun g (it : BufItem) => g.snSend it.pkt it.tx) g).keepAlive = g.keepAlive ∧
    (its.foldl (fun g (it : BufItem) => g.snSend it.pkt it.tx) g).now = g.now := by
  induction its with
  | nil => intro g; exact ⟨rfl, rfl⟩
  | cons x xs ih =>
    intro g; simp only [List.foldl_cons]
    exact ⟨(ih _).1.trans (snSend_keepAlive _ _ _), (ih _).2.trans (snSend_now34 _ _ _)⟩
theorem flushBuffer_ka_now (g : Gw) : g.flushBuffer.keepAlive = g.keepAlive ∧ g.flushBuffer.now = g.now := by
  unfold flushBuffer
  simp only
  exact foldl_snSend_ka_now g.buffer _

/-- **C34.** A wake-up (PINGREQ of a sleeping client) starts the next sleep cycle: again one pinger, which
    is cancelled one announced duration after THIS wake-up — a client that never wakes up again is
    pinged for no longer than the duration it announced. -/
theorem c34_pinger_of_the_next_cycle (g : Gw) (h : g.st = .asleep) :
    g.handlePingreq.pingers =
      if g.keepAlive ≠ 0 then
        [{ next := g.now + g.keepAlive.toNat * 1000, cancelAt := g.now + g.sleepDur.toNat * 1000,
           period := g.keepAlive.toNat * 1000 }]
      else [] := by
  have hk : (((g.setSt .awake).flushBuffer.snSend .pingresp).setSt .asleep).keepAlive = g.keepAlive := by
    show ((g.setSt .awake).flushBuffer.snSend .pingresp).keepAlive = g.keepAlive
    rw [snSend_keepAlive, (flushBuffer_ka_now _).1]; rfl
  have hn : (((g.setSt .awake).flushBuffer.snSend .pingresp).setSt .asleep).now = g.now := by
    show ((g.setSt .awake).flushBuffer.snSend .pingresp).now = g.now
    rw [snSend_now34, (flushBuffer_ka_now _).2]; rfl
  have hsd : (((g.setSt .awake).flushBuffer.snSend .pingresp).setSt .asleep).sleepDur = g.sleepDur := by
    show ((g.setSt .awake).flushBuffer.snSend .pingresp).sleepDur = g.sleepDur
    have e1 : ∀ (x : Gw) (p : Pkt) (tx : Option Nat), (x.snSend p tx).sleepDur = x.sleepDur := by
      intro x p tx; unfold snSend; split <;> rfl
    have e2 : ∀ (its : List BufItem) (x : Gw), (its.foldl (fun g (it : BufItem) => g.snSend it.pkt it.tx) x).sleepDur = x.sleepDur := by
      intro its; induction its with
      | nil => intro x; rfl
      | cons y ys ih => intro x; simp only [List.foldl_cons]; rw [ih, e1]
    rw [e1]; unfold flushBuffer; simp only; rw [e2]; rfl
  unfold handlePingreq
  simp only [h, if_true]
  unfold armSleepPinger
  rw [hk]
  split
  · rename_i h0; simp [h0, cancelSleepPinger]
  · rename_i h0
    simp only [startSleepPinger, cancelSleepPinger, h0, ne_eq, not_false_eq_true, if_true, List.nil_append]
    rw [hk, hn]

/-- **C34.** A sleeping client that re-CONNECTs has no pinger any more: from then on only its own
    traffic keeps the broker connection alive, so a client vanishing afterwards is dropped by the broker. -/
theorem c34_pinger_cancelled_on_reconnect (g : Gw) (will clean : Bool) (dur : UInt16) (cid : Bytes)
    (h : g.st = .awake ∨ g.st = .asleep) : (g.handleConnect will clean dur cid).pingers = [] := by
  unfold handleConnect
  simp only [h, if_true]
  unfold flushBuffer
  simp only
  rw [foldl_snSend_pingers]
  simp [snSend_pingers, cancelSleepPinger]

end Bisquitt.Gw
