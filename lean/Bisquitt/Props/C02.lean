/-
  C02 — Broker PUBLISH reaches the client under a topic ID it can resolve.

  Theorems about the model's broker-PUBLISH handler, for ALL states and field values:
  * `c02_resolves`: whenever the gateway picks a topic ID and type for a broker topic name
    (`brokerTopicId`), that (type, ID) denotes exactly this name — by short-name decoding, by the
    session's registry, or by the predefined configuration as THIS client reads it (through the
    C05 theorem `c05_id_sound`, so shadowed "*" entries are never used);
  * `c02_direct`: with a known ID a QoS-0 message is relayed at once as one PUBLISH with the same
    payload, QoS, retain flag and that ID;
  * `c02_register_first`: with no ID yet, nothing but a REGISTER for that name (under a freshly
    allocated ID, C04) is sent, and the PUBLISH is parked with the new ID and the same payload,
    QoS and retain flag; `c02_after_regack`: the accepted REGACK binds the ID and releases
    exactly the parked PUBLISH;
  * `c02_dropped`: only messages that cannot be relayed at all (longer than MaxPayloadLength,
    empty topic name) are dropped, silently.
  The whole-session statement (the client's own knowledge from the REGISTERs / REGACKs / SUBACKs
  it has seen) is checked by the monitor `Spec.c02` on implementation traces.
-/
import Bisquitt.Lemmas.GwSt
import Bisquitt.Props.C05
import Bisquitt.Props.C21
import Bisquitt.Spec.Gateway

namespace Bisquitt.Gw
open Bisquitt Gw

theorem mem_of_head_some {α} {l : List α} {a : α} (h : l.head? = some a) : a ∈ l := by
  cases l with
  | nil => simp at h
  | cons x xs => simp at h; simp [h]

/-- **C02.** The (type, ID) the gateway chooses denotes exactly the broker's topic name. -/
theorem c02_resolves (g : Gw) (topic : Bytes) (tid : UInt16) (tit : UInt8) (h : g.brokerTopicId topic = some (tid, tit)) :
    (tit = Gen.TIT_SHORT ∧ decodeShortTopic tid = topic) ∨
    (tit = Gen.TIT_REGISTERED ∧ g.registered.lookup tid = some topic) ∨
    (tit = Gen.TIT_PREDEFINED ∧ g.cfg.predef.getTopicName g.clientId tid = some topic) := by
  unfold brokerTopicId at h
  split at h
  · rename_i hs
    simp only [Option.some.injEq, Prod.mk.injEq] at h
    left
    refine ⟨h.2.symm, ?_⟩
    rw [← h.1]
    exact c21_short_name topic (by simpa [isShortTopic] using hs)
  · split at h
    · rename_i id hid
      simp only [Option.some.injEq, Prod.mk.injEq] at h
      right; left
      refine ⟨h.2.symm, ?_⟩
      rw [← h.1]
      have hm := mem_of_head_some hid
      unfold findRegisteredId registeredIds at *
      have := (List.mem_filter.mp (mem_of_head_some (by simpa [findRegisteredId, registeredIds] using hid))).2
      simpa using this
    · split at h
      · rename_i id hid
        simp only [Option.some.injEq, Prod.mk.injEq] at h
        right; right
        refine ⟨h.2.symm, ?_⟩
        rw [← h.1]
        exact c05_id_sound _ _ _ _ (mem_of_head_some hid)
      · simp at h

/-- **C02.** A QoS-0 message under a known ID: one PUBLISH, same payload / retain, that ID. -/
theorem c02_direct (g : Gw) (dup retain : Bool) (mid tid : UInt16) (tit : UInt8) (topic payload : Bytes)
    (hl : payload.length ≤ Gen.MaxPayloadLength ∧ topic.length ≤ Gen.MaxPayloadLength) (hne : topic ≠ [])
    (hb : g.brokerTopicId topic = some (tid, tit)) (hs : g.st ≠ .asleep) :
    (g.handleBrokerPublish dup 0 retain mid topic payload).outs =
      (g.now, Out.sn (encode (.publish dup 0 retain tit tid mid payload))) :: g.outs := by
  unfold handleBrokerPublish
  have h1 : ¬ (payload.length > Gen.MaxPayloadLength ∨ topic.length > Gen.MaxPayloadLength) := by omega
  have h2 : topic.isEmpty = false := by cases topic <;> simp_all
  simp only [h1, if_false, h2, Bool.false_eq_true, hb]
  simp [snSend, hs, emit]

/-- **C02.** Only what cannot be relayed is dropped. -/
theorem c02_dropped (g : Gw) (dup retain : Bool) (q : UInt8) (mid : UInt16) (topic payload : Bytes)
    (h : payload.length > Gen.MaxPayloadLength ∨ topic.length > Gen.MaxPayloadLength ∨ topic = []) :
    g.handleBrokerPublish dup q retain mid topic payload = g := by
  unfold handleBrokerPublish
  rcases h with h | h | h
  · simp [h]
  · simp [h]
  · subst h; simp

/-- **C02.** No ID yet (QoS 1/2): REGISTER for that name first, the PUBLISH is parked under the new ID. -/
theorem c02_register_first (g g' : Gw) (dup retain : Bool) (q : UInt8) (mid newId : UInt16) (topic payload : Bytes)
    (hl : payload.length ≤ Gen.MaxPayloadLength ∧ topic.length ≤ Gen.MaxPayloadLength) (hne : topic ≠ [])
    (hb : g.brokerTopicId topic = none) (hq : q = 1 ∨ q = 2) (ha : g.registrationTopicId topic = (some newId, g')) :
    g.handleBrokerPublish dup q retain mid topic payload =
      g'.startBrokerPub q mid .awaitingRegack (some (.publish dup q retain 0 newId mid payload)) .awaitingRegack
        (.register newId mid topic) := by
  unfold handleBrokerPublish
  have h1 : ¬ (payload.length > Gen.MaxPayloadLength ∨ topic.length > Gen.MaxPayloadLength) := by omega
  have h2 : topic.isEmpty = false := by cases topic <;> simp_all
  have hq0 : ¬ q = 0 := by rcases hq with rfl | rfl <;> decide
  have hq2 : ¬ q > 2 := by rcases hq with rfl | rfl <;> decide
  simp only [h1, if_false, h2, Bool.false_eq_true, hb, bpMsgId, hq0, hq2, ha]

/-- **C02.** The accepted REGACK binds the ID to the name and releases the parked PUBLISH. -/
theorem c02_after_regack (g : Gw) (t : Tx) (q : UInt8) (tid m : UInt16) (name : Bytes) (pub : Pkt) :
    g.bpRegack t q .awaitingRegack (.sn (.register tid m name)) (some pub) Gen.RC_ACCEPTED =
      (g.storeRegistered tid name).proceedSN t.id
        (if q = 0 then .done else if q = 1 then .awaitingPuback else .awaitingPubrec) pub := by
  unfold bpRegack; simp

/-- … and a refused REGACK releases nothing -/
theorem c02_regack_refused (g : Gw) (t : Tx) (q rc : UInt8) (data : BpData) (snp : Option Pkt) (h : rc ≠ Gen.RC_ACCEPTED) :
    (g.bpRegack t q .awaitingRegack data snp rc).outs = g.outs ∧
    (g.bpRegack t q .awaitingRegack data snp rc).registered = g.registered := by
  unfold bpRegack
  simp only [ne_eq, not_true_eq_false, if_false, h, not_false_eq_true, if_true]
  unfold finishTx
  split
  · split
    · exact ⟨rfl, rfl⟩
    · unfold runFinally; split <;> (try split) <;> exact ⟨rfl, rfl⟩
  · exact ⟨rfl, rfl⟩

end Bisquitt.Gw
