/-
  C09 — Connect exchange follows the will protocol and sends one CONNECT.

  Theorems about the model's connect exchange, for ALL states and inputs:
  * `c09_will_topicreq`: with the Will flag the authenticated exchange sends WILLTOPICREQ and
    nothing to the broker; `c09_nowill`: without it, no WILL* request, the CONNECT at once;
  * `c09_willtopic`: WILLMSGREQ is sent only as the answer to a WILLTOPIC received in
    `awaitingWillTopic`, anything else leaves the exchange alone (`c09_willtopic_ignored`);
  * `c09_willmsg`: the CONNECT goes out only on WILLMSG in `awaitingWillMsg`, carrying the will
    topic, QoS and retain flag of the WILLTOPIC and the message (`c09_will_fields`);
  * `c09_one_connect`: from `awaitingConnack` no client packet of the exchange sends anything —
    at most one CONNECT per exchange;
  * `c09_connack`: the client's CONNACK is "accepted" exactly when the broker's code is 0,
    otherwise "congestion"; `c09_zero_keepalive`: "not supported" for a zero keep-alive, with
    nothing sent to the broker.
-/
import Bisquitt.Props.C0809
import Bisquitt.Spec.Gateway

namespace Bisquitt.Gw
open Bisquitt Gw

theorem c09_will_topicreq (g : Gw) (t : Tx) (f : ConnFields) (hw : f.will = true) (hs : g.st ≠ .asleep) :
    (g.connAuthenticated t f).outs = (g.now, Out.sn (encode .willtopicreq)) :: g.outs :=
  connAuthenticated_will g t f hw hs

theorem c09_nowill (g : Gw) (t : Tx) (f : ConnFields) (hw : f.will = false) :
    (g.connAuthenticated t f).outs = (g.now, Out.mq f.toPkt) :: g.outs :=
  c07_connect_sent_nowill g t f hw

/-- **C09.** WILLTOPIC in `awaitingWillTopic` (will QoS ≤ 2): WILLMSGREQ, nothing to the broker. -/
theorem c09_willtopic (g : Gw) (t : Tx) (f : ConnFields) (q : UInt8) (r : Bool) (topic : Bytes) (hq : ¬ q > 2)
    (hs : g.st ≠ .asleep) :
    (g.connWillTopic t .awaitingWillTopic f q r topic).outs = (g.now, Out.sn (encode .willmsgreq)) :: g.outs := by
  unfold connWillTopic; simp [hq, snSend, hs, emit, setTx]

theorem c09_willtopic_ignored (g : Gw) (t : Tx) (st : ConnSt) (f : ConnFields) (q : UInt8) (r : Bool) (topic : Bytes)
    (h : st ≠ .awaitingWillTopic) : g.connWillTopic t st f q r topic = g := by
  unfold connWillTopic; simp [h]

/-- the fields remembered from the WILLTOPIC -/
theorem c09_will_fields (g : Gw) (t : Tx) (f : ConnFields) (q : UInt8) (r : Bool) (topic : Bytes) (hq : ¬ q > 2)
    (hne : topic ≠ []) :
    (g.connWillTopic t .awaitingWillTopic f q r topic).txs =
      (g.setTx { t with kind := .connect .awaitingWillMsg { f with wq := q, wr := r, wt := topic } }).txs := by
  unfold connWillTopic
  have : topic.isEmpty = false := by cases topic <;> simp_all
  simp only [ne_eq, not_true_eq_false, if_false, hq, this, Bool.false_eq_true]
  unfold snSend; split <;> rfl

/-- **C09.** WILLMSG in `awaitingWillMsg`: the one CONNECT, with the will of the exchange. -/
theorem c09_willmsg (g : Gw) (t : Tx) (f : ConnFields) (m : Bytes) (hw : f.will = true) :
    (g.connWillMsg t .awaitingWillMsg f m).outs =
      (g.now, Out.mq (.connect f.cid f.clean f.ka f.uflag f.user f.pflag f.pass true f.wq f.wr f.wt m)) :: g.outs := by
  rw [c07_connect_sent_will]; simp [hw, ConnFields.toPkt]

theorem c09_willmsg_ignored (g : Gw) (t : Tx) (st : ConnSt) (f : ConnFields) (m : Bytes)
    (h : st ≠ .awaitingWillMsg) : g.connWillMsg t st f m = g := by
  unfold connWillMsg; simp [h]

/-- **C09.** At most one CONNECT per exchange: once it awaits the broker's CONNACK, AUTH,
    WILLTOPIC and WILLMSG do nothing. -/
theorem c09_one_connect (g : Gw) (t : Tx) (f : ConnFields) (a b : Bytes) (q : UInt8) (r : Bool) :
    g.connAuth t .awaitingConnack f a b = g ∧ g.connWillTopic t .awaitingConnack f q r a = g ∧
    g.connWillMsg t .awaitingConnack f a = g := by
  refine ⟨?_, ?_, ?_⟩
  · unfold connAuth; simp
  · unfold connWillTopic; simp
  · unfold connWillMsg; simp

/-- **C09.** The CONNACK the client gets. -/
theorem c09_connack (g : Gw) (t : Tx) (rc : UInt8) (hs : g.st ≠ .asleep) :
    (g.connConnack t .awaitingConnack rc).outs =
      (g.now, Out.sn (encode (.connack (if rc = 0 then Gen.RC_ACCEPTED else Gen.RC_CONGESTION)))) :: g.outs := by
  unfold connConnack
  by_cases h : rc = 0
  · simp [h, sendConnack, snSend, emit]
  · simp [h, sendConnack, snSend, emit, hs]

theorem c09_connack_ignored (g : Gw) (t : Tx) (st : ConnSt) (rc : UInt8) (h : st ≠ .awaitingConnack) :
    g.connConnack t st rc = g := by
  unfold connConnack; simp [h]

/-- **C09.** Zero keep-alive: "not supported", nothing to the broker, no exchange. -/
theorem c09_zero_keepalive (g : Gw) (w c : Bool) (cid : Bytes) (h : g.st = .disconnected ∨ g.st = .active) :
    (g.handleConnect w c 0 cid).outs = (g.now, Out.sn (encode (.connack Gen.RC_NOT_SUPPORTED))) :: g.outs ∧
    (g.handleConnect w c 0 cid).txs = g.txs := by
  unfold handleConnect
  rcases h with h | h <;> simp [h, snSend, emit]

end Bisquitt.Gw
