/-
  C09 — Connect exchange follows the will protocol and sends one CONNECT.

  Theorems about the model's connect exchange, for ALL states and inputs:
  * `c09_will_topicreq`: with the Will flag the authenticated exchange sends WILLTOPICREQ and
    nothing to the broker; `c09_nowill`: without it, no WILL* request, the CONNECT at once;
  * `c09_willtopic`: WILLMSGREQ is sent only as the answer to a WILLTOPIC received in
    `awaitingWillTopic`, anything else leaves the exchange alone (`c09_willtopic_ignored`);
  * `c09_willmsg`: the CONNECT goes out only on WILLMSG in `awaitingWillMsg`, carrying the will
    topic, QoS and retain flag of the WILLTOPIC and the message (`c09_will_fields`);
  * `c09_one_connect`: from `awaitingConnack` no client packet of the exchange sends anything —
    at most one CONNECT per exchange;
  * `c09_connack`: the client's CONNACK is "accepted" exactly when the broker's code is 0,
    otherwise "congestion"; `c09_zero_keepalive`: "not supported" for a zero keep-alive, with
    nothing sent to the broker.
  * **all runs** — `c09_connects_bounded`: after ANY sequence of timed events (datagrams of every kind,
    malformed ones, broker packets, every timer on the way, EOF, shutdown) the number of MQTT CONNECT
    packets written to the broker is at most the number of CONNECT datagrams the client has sent: every
    connect exchange writes at most one, and nothing else ever writes one.  Potential argument
    (`Lemmas/GwConnCount.lean`): MQTT CONNECTs written + connect exchanges that have not written theirs
    yet grows only by the handler of a CONNECT datagram, by one (`F9` carried through every model
    function, under the bookkeeping invariant `I9`: transaction ids unique and below `nextTx`).
-/
import Bisquitt.Props.C0809
import Bisquitt.Props.C08
import Bisquitt.Lemmas.GwConnCount
import Bisquitt.Spec.Gateway

namespace Bisquitt.Gw
open Bisquitt Gw

theorem c09_will_topicreq (g : Gw) (t : Tx) (f : ConnFields) (hw : f.will = true) (hs : g.st ≠ .asleep) :
    (g.connAuthenticated t f).outs = (g.now, Out.sn (encode .willtopicreq)) :: g.outs :=
  connAuthenticated_will g t f hw hs

theorem c09_nowill (g : Gw) (t : Tx) (f : ConnFields) (hw : f.will = false) :
    (g.connAuthenticated t f).outs = (g.now, Out.mq f.toPkt) :: g.outs :=
  c07_connect_sent_nowill g t f hw

/-- **C09.** WILLTOPIC in `awaitingWillTopic` (will QoS ≤ 2): WILLMSGREQ, nothing to the broker. -/
theorem c09_willtopic (g : Gw) (t : Tx) (f : ConnFields) (q : UInt8) (r : Bool) (topic : Bytes) (hq : ¬ q > 2)
    (hs : g.st ≠ .asleep) :
    (g.connWillTopic t .awaitingWillTopic f q r topic).outs = (g.now, Out.sn (encode .willmsgreq)) :: g.outs := by
  unfold connWillTopic; simp [hq, snSend, hs, emit, setTx]

theorem c09_willtopic_ignored (g : Gw) (t : Tx) (st : ConnSt) (f : ConnFields) (q : UInt8) (r : Bool) (topic : Bytes)
    (h : st ≠ .awaitingWillTopic) : g.connWillTopic t st f q r topic = g := by
  unfold connWillTopic; simp [h]

/-- the fields remembered from the WILLTOPIC -/
theorem c09_will_fields (g : Gw) (t : Tx) (f : ConnFields) (q : UInt8) (r : Bool) (topic : Bytes) (hq : ¬ q > 2)
    (hne : topic ≠ []) :
    (g.connWillTopic t .awaitingWillTopic f q r topic).txs =
      (g.setTx { t with kind := .connect .awaitingWillMsg { f with wq := q, wr := r, wt := topic } }).txs := by
  unfold connWillTopic
  have : topic.isEmpty = false := by cases topic <;> simp_all
  simp only [ne_eq, not_true_eq_false, if_false, hq, this, Bool.false_eq_true]
  unfold snSend; split <;> rfl

/-- **C09.** WILLMSG in `awaitingWillMsg`: the one CONNECT, with the will of the exchange. -/
theorem c09_willmsg (g : Gw) (t : Tx) (f : ConnFields) (m : Bytes) (hw : f.will = true) :
    (g.connWillMsg t .awaitingWillMsg f m).outs =
      (g.now, Out.mq (.connect f.cid f.clean f.ka f.uflag f.user f.pflag f.pass true f.wq f.wr f.wt m)) :: g.outs := by
  rw [c07_connect_sent_will]; simp [hw, ConnFields.toPkt]

theorem c09_willmsg_ignored (g : Gw) (t : Tx) (st : ConnSt) (f : ConnFields) (m : Bytes)
    (h : st ≠ .awaitingWillMsg) : g.connWillMsg t st f m = g := by
  unfold connWillMsg; simp [h]

/-- **C09.** At most one CONNECT per exchange: once it awaits the broker's CONNACK, AUTH,
    WILLTOPIC and WILLMSG do nothing. -/
theorem c09_one_connect (g : Gw) (t : Tx) (f : ConnFields) (a b : Bytes) (q : UInt8) (r : Bool) :
    g.connAuth t .awaitingConnack f a b = g ∧ g.connWillTopic t .awaitingConnack f q r a = g ∧
    g.connWillMsg t .awaitingConnack f a = g := by
  refine ⟨?_, ?_, ?_⟩
  · unfold connAuth; simp
  · unfold connWillTopic; simp
  · unfold connWillMsg; simp

/-- **C09.** The CONNACK the client gets. -/
theorem c09_connack (g : Gw) (t : Tx) (rc : UInt8) (hs : g.st ≠ .asleep) :
    (g.connConnack t .awaitingConnack rc).outs =
      (g.now, Out.sn (encode (.connack (if rc = 0 then Gen.RC_ACCEPTED else Gen.RC_CONGESTION)))) :: g.outs := by
  unfold connConnack
  by_cases h : rc = 0
  · simp [h, sendConnack, snSend, emit]
  · simp [h, sendConnack, snSend, emit, hs]

theorem c09_connack_ignored (g : Gw) (t : Tx) (st : ConnSt) (rc : UInt8) (h : st ≠ .awaitingConnack) :
    g.connConnack t st rc = g := by
  unfold connConnack; simp [h]

/-- **C09.** Zero keep-alive: "not supported", nothing to the broker, no exchange. -/
theorem c09_zero_keepalive (g : Gw) (w c : Bool) (cid : Bytes) (h : g.st = .disconnected ∨ g.st = .active) :
    (g.handleConnect w c 0 cid).outs = (g.now, Out.sn (encode (.connack Gen.RC_NOT_SUPPORTED))) :: g.outs ∧
    (g.handleConnect w c 0 cid).txs = g.txs := by
  unfold handleConnect
  rcases h with h | h <;> simp [h, snSend, emit]

end Bisquitt.Gw

namespace Bisquitt.Gw
open Bisquitt Gw

/-! ## every run: at most one MQTT CONNECT per CONNECT datagram -/

theorem filter_unsent_stop (l : List Tx) :
    ((l.map fun t => ({ t with timer := none } : Tx)).filter unsentTx).length = (l.filter unsentTx).length := by
  induction l with
  | nil => rfl
  | cons x xs ih =>
    have hx : unsentTx ({ x with timer := none } : Tx) = unsentTx x := rfl
    simp only [List.map_cons, List.filter_cons, hx]
    split <;> simp [ih]

theorem F9.stopTimers (g : Gw) : F9 0 g g.stopTimers := by
  refine ⟨fun hI => ⟨⟨?_, ?_, ?_⟩, ?_⟩⟩
  · show ((g.txs.map fun t => ({ t with timer := none } : Tx)).map (·.id)).Nodup
    rw [List.map_map]; exact hI.nodup
  · intro x hx
    obtain ⟨y, hy, rfl⟩ := List.mem_map.mp hx
    exact hI.lt y hy
  · intro x hx
    obtain ⟨y, hy, rfl⟩ := List.mem_map.mp hx
    exact hI.bp y hy
  · have h : unsent g.stopTimers = unsent g := filter_unsent_stop g.txs
    have h2 : mqConnects g.stopTimers = mqConnects g := rfl
    unfold pot; rw [h, h2]
    exact ⟨Nat.le_refl _, fun _ => rfl, Or.inl rfl⟩

theorem F9.finishSession (g : Gw) : F9 0 g g.finishSession := by
  unfold Gw.finishSession
  split
  · split
    · exact F9.refl g
    · unfold Gw.shutdownDisconnect Gw.emitEnd
      have h1 : ∀ x : Gw, F9 0 x (if x.st = .active ∨ x.st = .awake then x.emit (.sn (encode (.disconnect 0))) else x) := by
        intro x; split
        · exact F9.emit x _ rfl
        · exact F9.refl x
      have h2 : ∀ x : Gw, F9 0 x ((x.emit (.ended x.endCls)).emit .mqClose) := fun x => (F9.emit x _ rfl).trans (F9.emit _ _ rfl)
      exact (((F9.setNow g _).trans (h1 _)).trans (h2 _)).trans (F9.stopTimers _)
  · exact F9.refl g

theorem F9.advance : ∀ (fuel : Nat) (g : Gw) (t : Nat), F9 0 g (advance fuel g t) := by
  intro fuel
  induction fuel with
  | zero => intro g t; exact F9.setNow g _
  | succ n ih =>
    intro g t
    unfold Gw.advance
    split
    · exact (F9.finishSession g).trans (F9.setNow _ _)
    · split
      · exact ((F9.fireDue g _).trans (F9.finishSession _)).trans (ih _ t)
      · exact F9.setNow g _

theorem F9.sample (g : Gw) : F9 0 g g.sample := by
  unfold Gw.sample Gw.sampleBuf Gw.sampleReg Gw.sampleState
  have e : ∀ (x y : Gw) (o : Out), isMqConnect (y.now, o) = false → y.outs = x.outs → y.txs = x.txs → y.nextTx = x.nextTx →
      y.endedEmitted = x.endedEmitted →
      F9 0 x (y.emit o) := fun x y o ho hou ht hn he => (F9.of_eq hou ht hn he).trans (F9.emit y o ho)
  split <;> split <;> split <;>
    first
    | exact F9.refl g
    | exact (e _ _ _ rfl rfl rfl rfl rfl)
    | exact (e _ _ _ rfl rfl rfl rfl rfl).trans (e _ _ _ rfl rfl rfl rfl rfl)
    | exact ((e _ _ _ rfl rfl rfl rfl rfl).trans (e _ _ _ rfl rfl rfl rfl rfl)).trans (e _ _ _ rfl rfl rfl rfl rfl)

/-- what a client packet may add to the potential: a CONNECT opens one exchange -/
def connBudget : Pkt → Nat | .connect .. => 1 | _ => 0

theorem F9.handleSn (g : Gw) (p : Pkt) : F9 (connBudget p) g (g.handleSn p) := by
  unfold Gw.handleSn
  split
  · exact (F9.fail g _).mono (Nat.zero_le _)
  · split
    · exact F9.handleConnect g _ _ _ _
    · split
      · rename_i t st f hc
        exact F9.connAuth g t st f _ _ (connTx_spec hc).1 (connTx_spec hc).2
      · exact F9.refl g
    · split
      · rename_i t st f hc
        exact F9.connWillTopic g t st f _ _ _ (connTx_spec hc).1 (connTx_spec hc).2
      · exact F9.refl g
    · split
      · rename_i t st f hc
        exact F9.connWillMsg g t st f _ (connTx_spec hc).1 (connTx_spec hc).2
      · exact F9.refl g
    · exact F9.handleRegister g _ _
    · exact F9.handleClientPublish g _ _ _ _ _ _ _
    · exact F9.mqttSend g _ rfl
    · exact F9.handleSubscribe g _ _ _ _ _ _
    · exact F9.handleUnsubscribe g _ _ _ _
    · exact F9.handlePingreq g
    · exact F9.handleDisconnect g _
    · split
      · split
        · exact F9.bpRegack g _ _ _ _ _ _
        · exact F9.refl g
      · exact F9.refl g
    · split
      · split
        · split
          · exact F9.refl g
          · split
            · exact F9.finishTx g _
            · exact F9.proceedMQ g _ _ _ rfl
        · exact F9.refl g
      · exact F9.refl g
    · split
      · split
        · split
          · exact F9.refl g
          · exact F9.proceedMQ g _ _ _ rfl
        · exact F9.refl g
      · exact F9.refl g
    · split
      · split
        · split
          · exact F9.refl g
          · exact F9.proceedMQ g _ _ _ rfl
        · exact F9.refl g
      · exact F9.refl g
    · exact (F9.fail g _).mono (Nat.zero_le _)

theorem F9.handleMq (g : Gw) (p : MqPkt) : F9 0 g (g.handleMq p) := by
  unfold Gw.handleMq
  split
  · split
    · exact F9.connConnack g _ _ _
    · exact F9.refl g
  · split
    · split
      · exact (F9.finishTx g _).trans (F9.snSend _ _ _)
      · exact F9.refl g
    · exact F9.refl g
  · exact F9.snSend g _ _
  · exact F9.snSend g _ _
  · split
    · split
      · split
        · split
          · exact (F9.finishTx g _).trans (F9.snSend _ _ _)
          · exact (F9.finishTx g _).trans (F9.snSend _ _ _)
        · exact (F9.finishTx g _).trans (F9.fail _ _)
      · exact F9.refl g
    · exact F9.refl g
  · exact F9.snSend g _ _
  · split
    · exact F9.of_eq rfl rfl rfl rfl
    · split
      · exact F9.refl g
      · exact F9.snSend g _ _
  · exact F9.handleBrokerPublish g _ _ _ _ _ _
  · split
    · split
      · split
        · exact F9.refl g
        · exact F9.proceedSN g _ _ _
      · exact F9.refl g
    · exact F9.refl g
  · exact F9.fail g _

/-- 1 for a datagram that decodes as a CONNECT, 0 for every other event -/
def connectDatagram : Event → Nat
  | .sn bytes => match decode (bytes.take Gen.MaxPacketLen) with
    | .ok (_, p) => connBudget p
    | _ => 0
  | _ => 0

theorem F9.handleEvent (g : Gw) (ev : Event) : F9 (connectDatagram ev) g (g.handleEvent ev) := by
  unfold Gw.handleEvent
  split
  · split
    · rename_i hd p hdec
      simp only [connectDatagram, hdec]
      exact (F9.handleSn g p).after (F9.keepBrokerAlive _)
    · exact (F9.fail g _).mono (Nat.zero_le _)
  · exact F9.handleMq g _
  · exact F9.fail g _
  · split <;> exact F9.fail g _
  · exact F9.fail g _
  · exact F9.refl g

theorem F9.step (g : Gw) (t : Nat) (ev : Event) : F9 (connectDatagram ev) g (g.step t ev) := by
  unfold Gw.step Gw.stepCore Gw.deliver
  have q1 := F9.advance 100000 g t
  split
  · exact ((q1.trans (F9.finishSession _)).trans (F9.sample _)).mono (Nat.zero_le _)
  · have q2 := F9.handleEvent (Gw.advance 100000 g t) ev
    exact ((q1.before q2).after (((F9.advance 100000 _ t).trans (F9.finishSession _)).trans (F9.sample _)))

theorem i9_init (cfg : Cfg) (a b : UInt16) : I9 (Gw.init cfg a b) :=
  ⟨by simp [Gw.init], by intro t ht; simp [Gw.init] at ht, by intro t ht; simp [Gw.init] at ht⟩

/-- **C09 (ALL runs).** Whatever the client, the broker and the clock do, the gateway writes at most as
    many MQTT CONNECT packets as the client has sent CONNECT datagrams: each connect exchange produces
    at most one, and no other packet, timer or retransmission ever produces one. -/
theorem c09_connects_bounded (cfg : Cfg) (a b : UInt16) (evs : List (Nat × Event)) :
    (mqConnects ((Gw.init cfg a b).run evs)).length ≤ (evs.map fun e => connectDatagram e.2).sum := by
  have gen : ∀ (evs : List (Nat × Event)) (g : Gw), I9 g →
      I9 (evs.foldl (fun g (te : Nat × Event) => g.step te.1 te.2) g) ∧
      pot (evs.foldl (fun g (te : Nat × Event) => g.step te.1 te.2) g) ≤ pot g + (evs.map fun e => connectDatagram e.2).sum := by
    intro evs
    induction evs with
    | nil => intro g hI; exact ⟨hI, by simp⟩
    | cons e rest ih =>
      intro g hI
      simp only [List.foldl_cons, List.map_cons, List.sum_cons]
      have st := (F9.step g e.1 e.2).keep hI
      have := ih _ st.1
      exact ⟨this.1, by have := this.2; have := st.2; omega⟩
  have h : pot ((Gw.init cfg a b).run evs) ≤ pot (Gw.init cfg a b) + (evs.map fun e => connectDatagram e.2).sum :=
    (gen evs _ (i9_init cfg a b)).2
  have h0 : pot (Gw.init cfg a b) = 0 := by simp [pot, unsent, mqConnects, Gw.init]
  have hle : (mqConnects ((Gw.init cfg a b).run evs)).length ≤ pot ((Gw.init cfg a b).run evs) := Nat.le_add_right _ _
  omega

/-- non-vacuity: a CONNECT datagram counts, another datagram does not -/
example : connectDatagram (.sn (encode (.connect false true 1 60 [0x63]))) = 1 ∧
    connectDatagram (.sn (encode (.pingreq []))) = 0 := by decide

end Bisquitt.Gw
