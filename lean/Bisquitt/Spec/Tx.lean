/-
  Specifications (= monitors over implementation logs) for C18 and C19.
-/
import Bisquitt.Model.Tx

namespace Bisquitt.Spec
open Bisquitt.Tx

/-- one observed line of a transaction run -/
inductive TxObs where
  | cb (t k : Nat)
  | fin (t : Nat)                 -- the `finally` callback ran
  | done (t : Nat) (e : Option Err)
  | err (t : Nat) (e : Option Err)     -- Err() sampled and found changed
  | final (done : Bool) (e : Option Err) (finallyRuns cbs : Nat)
  deriving Repr, DecidableEq

/-- **C18** over one observed run: the transaction completes at most once; after `done` the
    error never changes, `finally` has run exactly once, no retry callback starts. -/
def c18ok (log : List TxObs) : Bool :=
  let dones := log.filterMap (fun o => match o with | .done t e => some (t, e) | _ => none)
  let fins := log.filter (fun o => match o with | .fin _ => true | _ => false)
  let afterDone := (log.dropWhile (fun o => match o with | .done .. => false | _ => true)).drop 1
  let doneErr := dones.head?.map (·.2)
  dones.length ≤ 1 &&
  fins.length == dones.length &&
  afterDone.all (fun o => match o with
    | .cb .. => false
    | .fin _ => false
    | .done .. => false
    | .err _ e => some e == doneErr
    | .final d e f _ => d && some e == doneErr && f == 1) &&
  (log.all fun o => match o with
    | .final d _ f _ => (d == (dones.length == 1)) && f == dones.length
    | _ => true)

/-- operations of a scripted run -/
inductive TxOp where
  | proceed (t : Nat) | success (t : Nat) | fail (t : Nat) (n : Nat) | cancel (t : Nat) | stop (t : Nat)
  deriving Repr, DecidableEq

def TxOp.time : TxOp → Nat
  | .proceed t | .success t | .fail t _ | .cancel t | .stop t => t

/-- **C19** (retry budget) over one observed run: for every `Proceed` at time `p` on a live
    transaction that is followed by silence (no other operation) until `p + (N+1)·D`, the log
    contains the callbacks `p + k·D` (k = 1..N), nothing else in between, and
    `done noMoreRetries` at `p + (N+1)·D`.  (callbacks that return errors are excluded by the caller) -/
def c19RetryOk (count delay : Nat) (ops : List TxOp) (log : List TxObs) : Bool :=
  let rec go (ops : List TxOp) (live : Bool) : Bool :=
    match ops with
    | [] => true
    | .proceed p :: rest =>
      let next := (rest.head?.map TxOp.time).getD 0
      let silent := next ≥ p + (count + 1) * delay
      let cbTimes := log.filterMap (fun o => match o with
        | .cb t _ => if p < t ∧ t < p + (count + 1) * delay ∨ (delay = 0 ∧ t = p) then some t else none
        | _ => none)
      -- (a Proceed after the context was cancelled re-arms the timer: the chain it starts may have ended
      -- the transaction before this Proceed)
      let ended := log.any fun o => match o with | .done t _ => t ≤ p | _ => false
      let okHere := if live && !ended && silent then
          cbTimes == (List.range count).map (fun k => p + (k + 1) * delay) &&
          log.contains (.done (p + (count + 1) * delay) (some .noMoreRetries))
        else true
      okHere && go rest (live && !silent)
    | .success _ :: rest | .fail _ _ :: rest => go rest false
    | _ :: rest => go rest live
  go ops true

/-- **C19** (timed transaction): fails with `timeout` at exactly `T` iff not completed before. -/
def c19TimedOk (timeout : Nat) (ops : List TxOp) (log : List TxObs) : Bool :=
  let firstEnd := ops.find? (fun o => match o with | .success _ | .fail _ _ | .cancel _ => true | _ => false)
  match firstEnd with
  | some o =>
    if o.time < timeout then !(log.any fun x => match x with | .done _ (some .timeout) => true | _ => false)
    else log.contains (.done timeout (some .timeout))
  | none => log.contains (.done timeout (some .timeout))

end Bisquitt.Spec
