/-
  C26, the specification side: what an application and the operator of the broker are entitled to
  see for a script of API calls and broker-side publishes — read off the property text and the API
  documentation, with no reference to packets:

  * every call returns nil (a Publish on a name the client has no TopicID for is documented to
    fail with "topic not registered"; the generator marks these);
  * the broker has received exactly the application's publishes, in order, under their names;
  * the broker's subscription table is what Subscribe/Unsubscribe made it;
  * every message routed to the session (its own publishes looped back, other clients' publishes,
    bursts, messages arriving while it sleeps) has reached a handler of a matching subscription.
-/
import Bisquitt.Model.System

namespace Bisquitt.Sys
open Bisquitt

structure Delivery where
  labels : List Bytes        -- the handlers that may get it (labels of the matching subscriptions)
  topic : Bytes
  payload : Bytes
  qos : UInt8
  ctx : String               -- in which situation the message was routed (for the reports)
  deriving Repr

structure Expect where
  rets : List (String × Cl.Err) := []
  recv : List (Bytes × Bytes × UInt8 × Bool) := []
  deliveries : List Delivery := []
  deriving Repr

structure Abs where
  cid : Bytes
  predef : Predef
  rd : Nat                   -- retry delay and count of the gateway (ms)
  rc : Nat
  live : Bool := false       -- a session exists at the broker
  asleep : Bool := false
  names : List Bytes := []   -- names the client has a TopicID for
  subs : List (Bytes × UInt8 × Bytes) := []     -- filter, granted QoS, handler label
  exp : Expect := {}
  deriving Repr

namespace Abs

def known (a : Abs) (topic : Bytes) : Bool :=
  isShortTopic topic || a.names.contains topic || !(a.predef.getTopicIdSet a.cid topic).isEmpty

/-- the broker routes a message to the session -/
def routed (a : Abs) (topic payload : Bytes) (qos : UInt8) (ctx : String) : Abs :=
  if !a.live then a else
  let ms := a.subs.filter fun s => Broker.filterMatches s.1 topic
  if ms.isEmpty then a
  else
    let best := ms.foldl (fun acc s => max acc s.2.1) 0
    let kn := if a.known topic && !ctx.endsWith "burst-of-new-topic" then "known-topic" else "new-topic"
    let d : Delivery := { labels := ms.map (·.2.2), topic := topic, payload := payload, qos := min best qos,
                          ctx := s!"{ctx}/{kn}" }
    { a with exp := { a.exp with deliveries := a.exp.deliveries ++ [d] }, names := topic :: a.names }

def ret (a : Abs) (call : String) (e : Cl.Err) : Abs := { a with exp := { a.exp with rets := a.exp.rets ++ [(call, e)] } }

def published (a : Abs) (call : String) (topic payload : Bytes) (qos : UInt8) (retain : Bool) : Abs :=
  let q := if qos = 3 then 0 else qos
  let a := { a with exp := { a.exp with recv := a.exp.recv ++ [(topic, payload, q, retain)] } }
  (a.routed topic payload q "own-publish").ret call .ok

def op (a : Abs) (o : Sys.Op) : Abs :=
  match o with
  | .api c .connect => ({ a with live := true, asleep := false }).ret c .ok
  | .api c (.register n) => ({ a with names := n :: a.names }).ret c .ok
  | .api c (.subscribe f q) =>
    let names := if isShortTopic f || Gw.Gw.hasWildcard f then a.names else f :: a.names
    ({ a with subs := (f, q, f) :: a.subs.filter (·.1 ≠ f), names := names }).ret c .ok
  | .api c (.subscribePre id q) =>
    match a.predef.getTopicName a.cid id with
    | some n => ({ a with subs := (n, q, Cl.Cl.preLabel id) :: a.subs.filter (·.1 ≠ n) }).ret c .ok
    | none => a.ret c .badTopicId
  | .api c (.unsubscribe f) => ({ a with subs := a.subs.filter (·.1 ≠ f) }).ret c .ok
  | .api c (.publish n q r p) => if a.known n then a.published c n p q r else a.ret c .notRegistered
  | .api c (.publishPre id q r p) =>
    match a.predef.getTopicName a.cid id with
    | some n => a.published c n p q r
    | none => a.ret c .ok
  | .api c (.unsubscribePre id) =>
    match a.predef.getTopicName a.cid id with
    | some n => ({ a with subs := a.subs.filter (·.1 ≠ n) }).ret c .ok
    | none => a.ret c .badTopicId
  | .api c (.sleep _) => ({ a with asleep := true }).ret c .ok
  | .api c .disconnect => ({ a with live := false }).ret c .ok
  | .api c _ => a.ret c .ok
  | .inject topic payload qos => a.routed topic payload qos (if a.asleep then "asleep" else "active")
  | .burst topic qos payloads =>
    let kind := if a.known topic then "burst" else "burst-of-new-topic"
    payloads.foldl (fun a p => a.routed topic p qos (if a.asleep then s!"asleep-{kind}" else kind)) a
  | .sleepInject c d topic payload qos =>
    -- the message arrives 300 ms into the sleep; a REGISTER waits for its REGACK for rd·(rc+1) at most
    let long := decide (d * 1000 > 300 + a.rd * (a.rc + 1))
    (({ a with asleep := true }).routed topic payload qos (if long then "long-sleep" else "sleep")).ret c .ok

def subsTable (a : Abs) : List (Bytes × UInt8) := a.subs.map fun s => (s.1, s.2.1)

end Abs

def expect (cid : Bytes) (predef : Predef) (rd rc : Nat) (ops : List Sys.Op) : Abs :=
  ops.foldl Abs.op { cid := cid, predef := predef, rd := rd, rc := rc }

end Bisquitt.Sys
