/-
  Specifications for the codec properties C20, C21, C22 (statements only; the proofs are
  in Bisquitt/Props).  Everything here is executable and doubles as a monitor over the
  results the real implementation produced.
-/
import Bisquitt.Model.Wire

namespace Bisquitt.Spec

open Bisquitt

/-! ## C22: independent positional reader, written from the MQTT-SN 1.2 field tables.
    It never looks at lengths: it just reads each field at its specified offset
    *after the actual header* (4 bytes iff the first byte is 0x01, else 2). -/

def refHeaderLen (bs : Bytes) : Nat := if bs.getD 0 0 = 1 then 4 else 2
def refType (bs : Bytes) : UInt8 := bs.getD (refHeaderLen bs - 1) 0
def refBody (bs : Bytes) : Bytes := bs.drop (refHeaderLen bs)

def b8 (body : Bytes) (i : Nat) : UInt8 := body.getD i 0
def b16 (body : Bytes) (i : Nat) : UInt16 := mk16 (b8 body i) (b8 body (i + 1))
def flagSet (f m : UInt8) : Bool := (f &&& m) == m
def flagQos (f : UInt8) : UInt8 := (f &&& 0x60) >>> 5

/-- type code → positional reading of the body (MQTT-SN 1.2 §5.4). -/
def refFields (t : UInt8) (body : Bytes) : Option Pkt :=
  match t.toNat with
  | 0x00 => some (.advertise (b8 body 0) (b16 body 1))
  | 0x01 => some (.searchgw (b8 body 0))
  | 0x02 => some (.gwinfo (b8 body 0) (body.drop 1))
  | 0x03 => some (.auth (b8 body 0) ((body.drop 2).take (b8 body 1).toNat)
                    (body.drop (2 + (b8 body 1).toNat)))
  | 0x04 => some (.connect (flagSet (b8 body 0) 0x08) (flagSet (b8 body 0) 0x04) (b8 body 1)
                    (b16 body 2) (body.drop 4))
  | 0x05 => some (.connack (b8 body 0))
  | 0x06 => some .willtopicreq
  | 0x07 => some (.willtopic (flagQos (b8 body 0)) (flagSet (b8 body 0) 0x10) (body.drop 1))
  | 0x08 => some .willmsgreq
  | 0x09 => some (.willmsg body)
  | 0x0A => some (.register (b16 body 0) (b16 body 2) (body.drop 4))
  | 0x0B => some (.regack (b16 body 0) (b16 body 2) (b8 body 4))
  | 0x0C => some (.publish (flagSet (b8 body 0) 0x80) (flagQos (b8 body 0))
                    (flagSet (b8 body 0) 0x10) (b8 body 0 &&& 0x03) (b16 body 1) (b16 body 3)
                    (body.drop 5))
  | 0x0D => some (.puback (b16 body 0) (b16 body 2) (b8 body 4))
  | 0x0E => some (.pubcomp (b16 body 0))
  | 0x0F => some (.pubrec (b16 body 0))
  | 0x10 => some (.pubrel (b16 body 0))
  | 0x12 =>
      let f := b8 body 0
      if f &&& 0x03 = 0 then
        some (.subscribe (flagSet f 0x80) (flagQos f) 0 (b16 body 1) 0 (body.drop 3))
      else
        some (.subscribe (flagSet f 0x80) (flagQos f) (f &&& 0x03) (b16 body 1) (b16 body 3) [])
  | 0x13 => some (.suback (flagQos (b8 body 0)) (b16 body 1) (b16 body 3) (b8 body 5))
  | 0x14 =>
      let f := b8 body 0
      if f &&& 0x03 = 0 then some (.unsubscribe 0 (b16 body 1) 0 (body.drop 3))
      else some (.unsubscribe (f &&& 0x03) (b16 body 1) (b16 body 3) [])
  | 0x15 => some (.unsuback (b16 body 0))
  | 0x16 => some (.pingreq body)
  | 0x17 => some .pingresp
  | 0x18 => some (.disconnect (b16 body 0))
  | 0x1A => some (.willtopicupd (flagQos (b8 body 0)) (flagSet (b8 body 0) 0x10) (body.drop 1))
  | 0x1B => some (.willtopicresp (b8 body 0))
  | 0x1C => some (.willmsgupd body)
  | 0x1D => some (.willmsgresp (b8 body 0))
  | _ => none

def refParse (bs : Bytes) : Option Pkt := refFields (refType bs) (refBody bs)

/-- flag bits that carry information for the packet type (all others are ignored). -/
def flagMask : Pkt → Option UInt8
  | .connect .. => some 0x0C
  | .willtopic .. | .willtopicupd .. => some 0x70
  | .publish .. => some 0xF3
  | .subscribe .. => some 0xE3
  | .suback .. => some 0x60
  | .unsubscribe .. => some 0x03
  | _ => none

/-- the datagram body with exactly the differences C22 allows removed: ignored flag
    bits cleared, a zero DISCONNECT duration dropped. -/
def normBody (p : Pkt) (body : Bytes) : Bytes :=
  match p with
  | .disconnect 0 => []
  | _ =>
    match flagMask p, body with
    | some m, f :: rest => (f &&& m) :: rest
    | _, _ => body

/-- C22 as a monitor over one implementation result: the datagram `bs` decoded to `p`
    and re-encoded to `re`. -/
def c22ok (bs : Bytes) (p : Pkt) (re : Bytes) : Bool :=
  refParse bs == some p &&
  refType re == refType bs &&
  refBody re == normBody p (refBody bs)

/-! ## C21: legal packets -/

abbrev maxPayload : Nat := Gen.MaxPayloadLength

/-- Field values "in their legal ranges" (C21): the widths are those of the struct
    fields; names the decoder requires to be non-empty are non-empty; variable parts are at
    most MaxPayloadLength; QoS ≤ 3; topic-ID types as the packet type allows; an empty will
    topic carries no flags; protocol ID 1; unused alternative fields are zero. -/
def Legal : Pkt → Bool
  | .gwinfo _ a => a.length ≤ maxPayload
  | .auth _ m d => m.length ≤ 255 && m.length + d.length ≤ maxPayload
  | .connect _ _ proto _ cid => proto == 1 && 1 ≤ cid.length && cid.length ≤ maxPayload
  | .willtopic q r t | .willtopicupd q r t =>
      t.length ≤ maxPayload && q ≤ 3 && (t.length == 0 → (q == 0 && r == false))
  | .willmsg m | .willmsgupd m => m.length ≤ maxPayload
  | .register _ _ n => 1 ≤ n.length && n.length ≤ maxPayload
  | .publish _ q _ tit _ _ d => q ≤ 3 && tit ≤ 3 && d.length ≤ maxPayload
  | .subscribe _ q tit _ tid n =>
      q ≤ 3 && tit ≤ 2 && n.length ≤ maxPayload &&
      (if tit == 0 then 1 ≤ n.length && tid == 0 else n.length == 0)
  | .suback q .. => q ≤ 3
  | .unsubscribe tit _ tid n =>
      tit ≤ 2 && n.length ≤ maxPayload &&
      (if tit == 0 then 1 ≤ n.length && tid == 0 else n.length == 0)
  | .pingreq cid => cid.length ≤ maxPayload
  | _ => true

/-- the length field of an encoded datagram -/
def lengthField (bs : Bytes) : Nat :=
  if bs.getD 0 0 = 1 then (mk16 (bs.getD 1 0) (bs.getD 2 0)).toNat else (bs.getD 0 0).toNat

def usesShortForm (bs : Bytes) : Bool := bs.getD 0 0 != 1

/-- C21 as a monitor over one implementation result: legal packet `p` was packed to `out`
    which decoded to `back`. -/
def c21ok (p : Pkt) (out : Bytes) (back : Option Pkt) : Bool :=
  back == some p && lengthField out == out.length && (usesShortForm out == decide (out.length ≤ 255))

end Bisquitt.Spec
