/-
  MQTT 3.1.1 §4.7 topic-filter matching, stated positionally (the specification side of C27).
-/
import Bisquitt.Model.Match

namespace Bisquitt

def levelOk (f t : Bytes) : Bool := f == plusLevel || f == t

def specMatch (f t : List Bytes) : Bool :=
  let k := f.findIdx (· == hashLevel)
  if k < f.length then
    decide (k ≤ t.length) && ((f.take k).zip (t.take k)).all (fun p => levelOk p.1 p.2)
  else
    decide (f.length = t.length) && (f.zip t).all (fun p => levelOk p.1 p.2)


end Bisquitt
