/-
  Specifications of the gateway properties as predicates over OBSERVABLE traces
  (inputs and outputs of one session, in order, with virtual timestamps).  The same
  definitions are (a) what the theorems in Props/ say about `Gw.run`, and (b) monitors run
  over the traces recorded from the real implementation.  Nothing here looks at model state.
-/
import Bisquitt.Model.Gateway

namespace Bisquitt.Spec
open Bisquitt Bisquitt.Gw

/-- one entry of an observable trace -/
inductive TE where
  | inp (t : Nat) (e : Gw.Event)
  | out (t : Nat) (o : Out)
  deriving Repr

/-- a step: an input (none for what happens before the first one) and the outputs up to the next input -/
structure Step where
  t : Nat
  ev : Option Gw.Event
  /-- outputs of the event itself (same timestamp) -/
  outs : List (Nat × Out)
  /-- outputs of timers firing before the next input -/
  later : List (Nat × Out) := []
  deriving Repr

def steps (tr : List TE) : List Step :=
  let rec go (tr : List TE) (cur : Step) (acc : List Step) : List Step :=
    match tr with
    | [] => (cur :: acc).reverse
    | .inp t e :: rest => go rest { t := t, ev := some e, outs := [] } (cur :: acc)
    | .out t o :: rest =>
      if t == cur.t && cur.ev.isSome && cur.later.isEmpty then go rest { cur with outs := cur.outs ++ [(t, o)] } acc
      else go rest { cur with later := cur.later ++ [(t, o)] } acc
  go tr { t := 0, ev := none, outs := [] } []

/-- decoded client packet of a step, if its input is a decodable datagram -/
def Step.snIn (s : Step) : Option Pkt :=
  match s.ev with
  | some (.sn b) => match decode (b.take Gen.MaxPacketLen) with
    | .ok (_, p) => some p
    | _ => none
  | _ => none

def Step.mqIn (s : Step) : Option MqPkt :=
  match s.ev with
  | some (.mq p) => some p
  | _ => none

def Step.snOuts (s : Step) : List Pkt :=
  s.outs.filterMap fun (_, o) => match o with
    | .sn b => (match decode b with | .ok (_, p) => some p | _ => none)
    | _ => none

def Step.mqOuts (s : Step) : List MqPkt :=
  s.outs.filterMap fun (_, o) => match o with | .mq p => some p | _ => none

def Step.hasEnded (s : Step) : Bool := s.outs.any fun (_, o) => match o with | .ended _ => true | _ => false

/-- a violation: rule signature + human-readable detail -/
structure Viol where
  sig : String
  detail : String
  deriving Repr

/-! ## what the observable history tells about the session -/

/-- facts accumulated over the history (all derivable by an observer of both links) -/
structure Hist where
  clientId : Bytes := []
  keepAlive : UInt16 := 0
  mqConnectSent : Bool := false       -- an MQTT CONNECT was written in this session
  brokerAccepted : Bool := false      -- ... and the broker answered CONNACK 0 after it
  clientConnacked : Bool := false     -- the client was told CONNACK accepted
  asleep : Bool := false              -- between the ack of DISCONNECT(d>0) and the next wake-up
  /-- the same fact read off the two links alone, not off the handler's own state: the client has been told
      DISCONNECT in answer to its DISCONNECT(duration > 0) and has not been sent a CONNACK since -/
  protoAsleep : Bool := false
  ended : Bool := false
  /-- topic IDs the gateway bound, with the name: (id, name) -/
  bound : List (UInt16 × Bytes) := []
  /-- topic IDs the client accepted, with the name (REGACK/SUBACK it received; gateway REGISTERs it acknowledged) -/
  clientKnows : List (UInt16 × Bytes) := []
  pendingRegister : List (UInt16 × Bytes) := []           -- client REGISTER: msgId ↦ name
  pendingSubscribe : List (UInt16 × (UInt8 × UInt16 × Bytes × UInt8)) := []  -- msgId ↦ (tit, tid, name, qos)
  gwRegisters : List (UInt16 × UInt16 × Bytes) := []      -- gateway REGISTER: (msgId, id, name)
  /-- names of forwarded non-wildcard string SUBSCRIBEs: the gateway binds an ID for them at once,
      the observer learns which one only from the SUBACK -/
  subscribedNames : List Bytes := []
  exhaustedSeen : Bool := false
  /-- instrumentation: the handler's own state and registry, as last sampled -/
  gwState : CState := .disconnected
  gwReg : List (UInt16 × Bytes) := []
  gwBuf : List Bytes := []
  endedAt : Option Nat := none
  /-- when the newest packet was written to the broker -/
  lastMqOut : Option Nat := none
  /-- PINGREQs the gateway has written on its own (sleep pinger, keep-alive hook) — every PINGREQ that is not
      the translation of an active client's PINGREQ — minus the PINGRESPs that have come back since -/
  ownPings : Nat := 0
  deriving Repr

def predefVisible (cfg : Cfg) (cid : Bytes) (id : UInt16) : Option Bytes := cfg.predef.getTopicName cid id

/-- names a client topic ID may denote for the gateway, from the history -/
def denotes (cfg : Cfg) (h : Hist) (tit : UInt8) (id : UInt16) : List Bytes :=
  if tit = 0 then ((h.bound.filter (·.1 == id)).map (·.2) ++ (h.gwReg.lookup id).toList) |>.eraseDups
  else if tit = 1 then (predefVisible cfg h.clientId id).toList
  else if tit = 2 then [decodeShortTopic id]
  else []

/-- names a topic ID denotes by the CLIENT's own knowledge -/
def clientReads (cfg : Cfg) (h : Hist) (tit : UInt8) (id : UInt16) : List Bytes :=
  if tit = 0 then (h.clientKnows.filter (·.1 == id)).map (·.2) |>.eraseDups
  else if tit = 1 then (predefVisible cfg h.clientId id).toList
  else if tit = 2 then [decodeShortTopic id]
  else []

/-- update the history with one step (input first, then its outputs) -/
def Hist.afterStep (h : Hist) (s : Step) : Hist :=
  let h0 := h
  -- input
  let h := match s.snIn with
    | some (.connect _ _ _ d cid) => if h.asleep then h else
        (if d != 0 then { h with clientId := cid, keepAlive := d } else h)
    | some (.register _ mid name) => { h with pendingRegister := (mid, name) :: h.pendingRegister }
    | some (.subscribe _ q tit mid tid name) =>
        { h with pendingSubscribe := (mid, (tit, tid, name, q)) :: h.pendingSubscribe }
    | some (.regack tid mid rc) =>
        if rc == 0 then
          -- a REGACK answers the REGISTER with its message ID (the gateway does not look at the topic ID)
          match h.gwRegisters.find? (fun (m, _, _) => m == mid) with
          | some (_, i, n) => { h with clientKnows := (i, n) :: h.clientKnows, bound := (i, n) :: h.bound }
          | none => h
        else h
    | some (.pingreq _) => h
    | _ => h
  let h := match s.mqIn with
    | some (.connack rc) => if rc == 0 && h.mqConnectSent then { h with brokerAccepted := true } else h
    | _ => h
  -- outputs
  let h : Hist := (s.outs ++ s.later).foldl (fun (h : Hist) (x : Nat × Out) => match x.2 with
    | .mq (.connect ..) => { h with mqConnectSent := true }
    | .mq (.subscribe _ _ topic _) =>
      (match s.snIn with
        | some (.subscribe _ _ 0 _ _ _) => if Gw.hasWildcard topic then h else { h with subscribedNames := topic :: h.subscribedNames }
        | _ => h)
    | .ended _ => { h with ended := true }
    | .state st => { h with gwState := st, asleep := st == .asleep }
    | .reg l => { h with gwReg := l }
    | .buf l =>
      -- the queue only grows (or starts again after a flush): what is new in it has been issued now
      let fresh := if l.take h.gwBuf.length == h.gwBuf then l.drop h.gwBuf.length else l
      let h := { h with gwBuf := l }
      -- REGISTERs queued for the sleeping client are REGISTERs the gateway issued
      let h := l.foldl (fun h b => match decode b with
        | .ok (_, .register tid mid name) =>
          if h.gwRegisters.contains (mid, tid, name) then h else { h with gwRegisters := (mid, tid, name) :: h.gwRegisters }
        | _ => h) h
      -- a REGISTER issued again (a later exchange for the same name has the same TopicID and may have the
      -- same message ID) is the one a REGACK with its message ID answers from now on
      fresh.foldl (fun h b => match decode b with
        | .ok (_, .register tid mid name) =>
          { h with gwRegisters := (mid, tid, name) :: h.gwRegisters.erase (mid, tid, name) }
        | _ => h) h
    | .sn b => (match decode b with
      | .ok (_, .disconnect 0) =>
        (match s.snIn with
          | some (.disconnect d) => if d != 0 then { h with protoAsleep := true } else h
          | _ => h)
      | .ok (_, .connack rc) => if rc == 0 then { h with clientConnacked := true, protoAsleep := false } else h
      | .ok (_, .regack tid mid rc) =>
        if rc == 0 then
          match h.pendingRegister.lookup mid with
          | some n => { h with bound := (tid, n) :: h.bound, clientKnows := (tid, n) :: h.clientKnows }
          | none => h
        else if rc == Gen.RC_INVALID_TOPIC_ID then { h with exhaustedSeen := true } else h
      | .ok (_, .suback _ tid mid rc) =>
        (match h.pendingSubscribe.lookup mid with
          | some (tit, _, n, _) =>
            if tit == 0 && tid != 0 then
              { h with bound := (tid, n) :: h.bound, clientKnows := (tid, n) :: h.clientKnows }
            else if rc == Gen.RC_INVALID_TOPIC_ID then { h with exhaustedSeen := true } else h
          | none => h)
      | .ok (_, .register tid mid name) => { h with gwRegisters := (mid, tid, name) :: h.gwRegisters }
      | _ => h)
    | _ => h) h
  -- the broker link: the newest packet written, and the gateway's own pings still unanswered
  let mqTimes := (s.outs ++ s.later).filterMap fun (x : Nat × Out) => match x.2 with | .mq _ => some x.1 | _ => none
  let pings := ((s.outs ++ s.later).filter fun (x : Nat × Out) => x.2 == Out.mq .pingreq).length
  let translated := match s.snIn with | some (.pingreq _) => if h0.asleep then 0 else 1 | _ => 0
  let answered := match s.mqIn with | some .pingresp => 1 | _ => 0
  let h := { h with lastMqOut := (mqTimes.getLast?).orElse (fun _ => h0.lastMqOut),
                    ownPings := (h0.ownPings - answered) + (pings - translated) }
  -- a wake-up PINGREQ leaves the client asleep again after the PINGRESP; the gateway binds the
  -- ID of a string SUBSCRIBE when it forwards it (MQTT allows publishes before the SUBACK)
  h

def connected (h : Hist) : Bool := h.clientConnacked && !h.ended

def endedAtOf (tr : List TE) : Option Nat :=
  tr.findSome? fun e => match e with | .out t (.ended _) => some t | _ => none

/-- the session is certainly still processing input at this step (the end is reported up to one
    poll interval after its cause, and input arriving in that window may go unanswered) -/
def Hist.live (h : Hist) (s : Step) : Bool :=
  !h.ended && (match h.endedAt with | some te => s.t + Gen.connTimeout < te | none => true)

/-! ## C01 -/
def c01 (cfg : Cfg) (tr : List TE) : List Viol :=
  let (_, vs) := (steps tr).foldl (fun (acc : Hist × List Viol) s =>
    let (h, vs) := acc
    let pubs := s.mqOuts.filterMap fun p => match p with
      | .publish dup q r mid topic payload => some (dup, q, r, mid, topic, payload)
      | _ => none
    let v := match s.snIn with
      | some (.publish dup q r tit tid mid data) =>
        let names := denotes cfg h tit tid
        let q' : UInt8 := if q == 3 then 0 else q
        match pubs with
        | [] =>
          -- must be forwarded when the session is connected and the ID denotes a publishable name
          if connected h && h.live s && (names.any fun n => !n.isEmpty && !Gw.hasWildcard n) && names.length == 1
          then [{ sig := "publish-not-forwarded", detail := s!"t={s.t} tit={tit} id={tid}" : Viol }] else []
        | [(d2, q2, r2, m2, topic, payload)] =>
          let names := if tit == 0 then names ++ h.subscribedNames else names
          (if names.isEmpty then [{ sig := "forwarded-undenoted-topic-id", detail := s!"t={s.t} tit={tit} id={tid}" : Viol }] else []) ++
          (if !names.isEmpty && !names.contains topic then [{ sig := "wrong-topic-name", detail := s!"t={s.t} tit={tit} id={tid}" : Viol }] else []) ++
          (if payload != data then [{ sig := "payload-changed", detail := s!"t={s.t}" : Viol }] else []) ++
          (if d2 != dup || r2 != r then [{ sig := "flags-changed", detail := s!"t={s.t}" : Viol }] else []) ++
          (if q2 != q' then [{ sig := "qos-changed", detail := s!"t={s.t} sn={q} mqtt={q2}" : Viol }] else []) ++
          (if q' != 0 && m2 != mid then [{ sig := "msgid-changed", detail := s!"t={s.t}" : Viol }] else [])
        | _ => [{ sig := "forwarded-more-than-once", detail := s!"t={s.t}" : Viol }]
      | _ => if pubs.isEmpty then [] else [{ sig := "mqtt-publish-without-client-publish", detail := s!"t={s.t}" : Viol }]
    (h.afterStep s, vs ++ v)) ({ endedAt := endedAtOf tr }, [])
  vs

/-! ## C14 -/
def c14 (tr : List TE) : List Viol :=
  (steps tr).flatMap fun s =>
    if s.mqOuts.contains .disconnect then
      match s.snIn with
      | some (.disconnect 0) => []
      | _ => [{ sig := "mqtt-disconnect-without-client-disconnect", detail := s!"t={s.t}" }]
    else []

/-! ## C23 -/
def gwToClientTypes : List UInt8 :=
  [Gen.tCONNACK, Gen.tWILLTOPICREQ, Gen.tWILLMSGREQ, Gen.tREGISTER, Gen.tREGACK, Gen.tPUBLISH, Gen.tPUBACK,
   Gen.tPUBCOMP, Gen.tPUBREC, Gen.tPUBREL, Gen.tSUBACK, Gen.tUNSUBACK, Gen.tPINGRESP, Gen.tDISCONNECT,
   Gen.tADVERTISE, Gen.tGWINFO, Gen.tWILLTOPICRESP, Gen.tWILLMSGRESP]

def lengthFieldOf (bs : Bytes) : Nat :=
  if bs.getD 0 0 = 1 then (mk16 (bs.getD 1 0) (bs.getD 2 0)).toNat else (bs.getD 0 0).toNat

def datagramOk (b : Bytes) : Bool :=
  b.length ≤ Gen.MaxPacketLen && lengthFieldOf b == b.length &&
  (match decode b with
   | .ok (_, p) => gwToClientTypes.contains p.typeCode
   | _ => false)

def c23 (tr : List TE) : List Viol :=
  tr.filterMap fun e => match e with
    | .out t (.sn b) => if datagramOk b then none else
        some { sig := "malformed-datagram", detail := s!"t={t} size={b.length} first-bytes={(b.take 6).map (·.toNat)}" }
    | _ => none

/-! ## C24 -/
def valid311 : MqPkt → Bool
  | .publish _ q _ _ topic _ => q ≤ 2 && !topic.isEmpty && !Gw.hasWildcard topic
  | .subscribe _ _ topic q => !topic.isEmpty && q ≤ 2
  | .unsubscribe _ topic => !topic.isEmpty
  | .connect _ _ _ _ _ _ _ will wq _ wt _ => (will == !wt.isEmpty) && wq ≤ 2
  | .other => false
  | _ => true

def c24 (tr : List TE) : List Viol :=
  tr.filterMap fun e => match e with
    | .out t (.mq p) => if valid311 p then none else
        some { sig := "invalid-mqtt-packet", detail := (s!"t={t} {repr p}".take 300).toString }
    | _ => none

end Bisquitt.Spec

namespace Bisquitt.Spec
open Bisquitt Bisquitt.Gw

/-- fold a per-step rule over the trace with the history so far -/
def overSteps (tr : List TE) (rule : Hist → Step → List Viol) : List Viol :=
  ((steps tr).foldl (fun (acc : Hist × List Viol) s => (acc.1.afterStep s, acc.2 ++ rule acc.1 s))
    ({ endedAt := endedAtOf tr }, [])).2

/-! ## C03 — control packets are translated one-to-one -/
def resolveFilter (cfg : Cfg) (h : Hist) (tit : UInt8) (tid : UInt16) (name : Bytes) : Option Bytes :=
  if tit = 0 then some name
  else if tit = 1 then predefVisible cfg h.clientId tid
  else if tit = 2 then some (decodeShortTopic tid)
  else none

def c03 (cfg : Cfg) (tr : List TE) : List Viol :=
  overSteps tr fun h s0 =>
    if !connected h || !h.live s0 then [] else
    let v (sig : String) : List Viol := [{ sig := sig, detail := s!"t={s0.t}" }]
    -- a client datagram handled while nothing has been written to the broker for half a keep-alive is followed
    -- by a PINGREQ of the gateway itself (it proves the client alive): that ping is not part of the translation
    let stale := match h.lastMqOut with
      | some t0 => (s0.t - t0) * 2 ≥ h.keepAlive.toNat * 1000
      | none => true
    let isMq := fun (x : Nat × Out) => match x.2 with | Out.mq _ => true | _ => false
    let mqs := s0.outs.filter isMq
    let ownPing := s0.snIn.isSome && stale && mqs.length == 1 && mqs.getLast?.map (·.2) == some (Out.mq .pingreq) &&
      !(match s0.snIn with | some (.pingreq _) => !h.asleep | _ => false)
    let s : Step := if ownPing then { s0 with outs := s0.outs.filter fun x => !isMq x } else s0
    match s.snIn, s.mqIn with
    | some (.subscribe _ q tit mid tid name), _ =>
      if q > 2 then (if s.mqOuts.isEmpty then [] else v "subscribe-qos3-forwarded")
      else match resolveFilter cfg h tit tid name with
        | some f => if f.isEmpty then [] else
            -- an exhausted ID space refuses string subscriptions locally
            let refusedLocally := s.snOuts.any fun p => match p with | .suback _ _ _ rc => rc != 0 | _ => false
            if refusedLocally || (h.asleep && s.mqOuts.isEmpty) then [] else
            (match s.mqOuts with
             | [.subscribe m2 _ f2 q2] => if m2 == mid && f2 == f && q2 == q then [] else v "subscribe-changed"
             | _ => v "subscribe-not-one-to-one")
        | none => []
    | some (.unsubscribe tit mid tid name), _ =>
      (match resolveFilter cfg h tit tid name with
        | some f => if f.isEmpty then [] else
            (match s.mqOuts with
             | [.unsubscribe m2 f2] => if m2 == mid && f2 == f then [] else v "unsubscribe-changed"
             | _ => v "unsubscribe-not-one-to-one")
        | none => [])
    | some (.pubrel mid), _ => if s.mqOuts == [.pubrel mid] then [] else v "pubrel-not-one-to-one"
    | some (.pingreq _), _ =>
      if h.asleep then
        -- a wake-up is answered by the gateway; it is not forwarded — but it proves the client alive, and the
        -- gateway pings the broker on its behalf when nothing has been written for half a keep-alive
        (if s.mqOuts.isEmpty then [] else v "wakeup-pingreq-forwarded")
      else (if s.mqOuts == [.pingreq] then [] else v "pingreq-not-one-to-one")
    | some (.disconnect 0), _ => if s.mqOuts == [.disconnect] then [] else v "disconnect-not-one-to-one"
    | _, some (.pubrec mid) => if h.asleep || s.snOuts == [.pubrec mid] then [] else v "pubrec-not-one-to-one"
    | _, some (.pubcomp mid) => if h.asleep || s.snOuts == [.pubcomp mid] then [] else v "pubcomp-not-one-to-one"
    | _, some (.unsuback mid) => if h.asleep || s.snOuts == [.unsuback mid] then [] else v "unsuback-not-one-to-one"
    | _, some (.suback mid _ codes) =>
      (match h.pendingSubscribe.lookup mid, codes with
       | some (tit, tid, name, _), [c] =>
         if h.asleep then [] else
         (match s.snOuts with
          | [.suback q2 tid2 m2 rc] =>
            let expId : Option UInt16 :=
              if tit == 0 then (if Gw.hasWildcard name then some 0 else none)   -- assigned ID: checked by C04
              else if tit == 1 then some tid else some 0
            (if m2 != mid then v "suback-msgid-changed" else []) ++
            (if (rc == 0) != (c ≤ 2) then v "suback-acceptance-wrong" else []) ++
            (if rc == 0 && q2 != c then v "suback-granted-qos-wrong" else []) ++
            (match expId with | some e => if rc == 0 && tid2 != e then v "suback-topic-id-wrong" else [] | none => [])
          | [] => []     -- the subscribe transaction may have timed out, or been overwritten (C06)
          | _ => v "suback-not-one-to-one")
       | _, _ => [])
    | _, some .pingresp =>
      if h.asleep then (if s.snOuts.isEmpty then [] else v "pingresp-sent-to-sleeping-client")
      -- the answer to a PINGREQ of the gateway itself is not the translation of anything
      else if h.ownPings > 0 then (if s.snOuts.isEmpty then [] else v "own-ping-reply-passed-to-client")
      else (if s.snOuts == [.pingresp] then [] else v "pingresp-not-one-to-one")
    | _, _ => []

/-! ## C04 — topic IDs -/
def c04 (cfg : Cfg) (tr : List TE) : List Viol :=
  let (_, _, vs) := (steps tr).foldl (fun (acc : Hist × List (UInt16 × Bytes) × List Viol) s =>
    let (h, handed, vs) := acc
    -- IDs handed out in this step, with the name they are for
    let news : List (UInt16 × Bytes × Bool) := s.snOuts.filterMap fun p => match p with
      | .regack tid mid rc => if rc == 0 then (h.pendingRegister.lookup mid |>.orElse fun _ =>
            (match s.snIn with | some (.register _ m n) => if m == mid then some n else none | _ => none)).map fun n => (tid, n, false)
          else none
      | .suback _ tid mid rc =>
        let sub := (match s.snIn with
          | some (.subscribe _ q tit m t n) => if m == mid then some (tit, t, n, q) else none
          | _ => none).orElse fun _ => h.pendingSubscribe.lookup mid
        (match sub with
         | some (tit, _, n, _) => if rc == 0 && tit == 0 && tid != 0 then some (tid, n, false) else none
         | none => none)
      | .register tid _ name => some (tid, name, true)
      | _ => none
    let v := news.flatMap fun (id, n, _) =>
      (if id.toNat < Gen.MinTopicAlias.toNat || id.toNat > Gen.MaxTopicAlias.toNat then
        [{ sig := "topic-id-out-of-range", detail := s!"t={s.t} id={id}" : Viol }] else []) ++
      (if (predefVisible cfg h.clientId id).isSome then
        [{ sig := "topic-id-collides-with-predefined", detail := s!"t={s.t} id={id}" : Viol }] else []) ++
      (match handed.lookup id with
       | some n0 => if n0 != n then [{ sig := "topic-id-reassigned", detail := s!"t={s.t} id={id}" : Viol }] else []
       | none =>
         -- (an ID the registry had bound to this very name before — e.g. at a SUBSCRIBE the broker then refused —
         -- is communicated late, not allocated now)
         if h.exhaustedSeen && !h.gwReg.contains (id, n) then
           [{ sig := "new-topic-id-after-exhaustion", detail := s!"t={s.t} id={id}" : Viol }] else [])
    -- every new binding in the handler's registry is justified by what was exchanged
    let h' := h.afterStep s
    let newBindings := h'.gwReg.filter fun b => !h.gwReg.contains b
    let vj := newBindings.flatMap fun (id, n) =>
      let ok := match s.snIn with
        | some (.register _ _ name) => name == n
        | some (.subscribe _ q 0 _ _ name) => name == n && q ≤ 2 && !Gw.hasWildcard name
        -- (the gateway pairs a REGACK with its REGISTER by message ID only)
        | some (.regack _ mid rc) => rc == 0 && h'.gwRegisters.contains (mid, id, n)
        | _ => false
      if ok then [] else [{ sig := "unjustified-registry-binding", detail := s!"t={s.t} id={id}" : Viol }]
    (h', handed ++ (news.map fun (id, n, _) => (id, n)), vs ++ v ++ vj)) ({ endedAt := endedAtOf tr }, [], [])
  vs

/-! ## C07 — no active session without a broker-accepted CONNECT -/
def connectExchangeType : Pkt → Bool
  | .connect .. | .auth .. | .willtopic .. | .willmsg .. => true
  | _ => false

def c07 (cfg : Cfg) (tr : List TE) : List Viol :=
  overSteps tr fun h s =>
    let v (sig : String) : List Viol := [{ sig := sig, detail := s!"t={s.t}" }]
    -- the history including the MQTT side of this very step (a CONNACK arriving in this step)
    let acceptedNow := h.brokerAccepted || (match s.mqIn with | some (.connack 0) => h.mqConnectSent | _ => false)
    let a := if (s.snOuts.any fun p => p == .connack 0) && !acceptedNow then v "connack-accepted-without-broker-accept" else []
    let b := s.mqOuts.flatMap fun p => match p with
      | .connect .. => []
      | .publish .. =>
        if acceptedNow then [] else
        (match s.snIn with
         | some (.publish _ 3 _ tit _ _ _) => if !cfg.auth && (tit == 1 || tit == 2) then [] else v "relayed-before-broker-accept"
         | _ => v "relayed-before-broker-accept")
      | .disconnect => if acceptedNow then [] else v "mqtt-disconnect-before-connect"
      | _ => if acceptedNow then [] else v "relayed-before-broker-accept"
    let c := match s.snIn with
      | some p =>
        if !h.clientConnacked && !h.mqConnectSent && !connectExchangeType p then
          let exempt := match p with
            | .publish _ 3 _ tit _ _ _ => !cfg.auth && (tit == 1 || tit == 2)
            | .disconnect 0 => true          -- closes the session (and is relayed: known finding above)
            | _ => false
          if exempt then [] else
          (if s.mqOuts.isEmpty then [] else v "forwarded-before-connect")
        else []
      | none => []
    a ++ b ++ c

/-! ## C08 / C09 — the connect exchange -/
/-- the client packets of the current connect exchange (since the last CONNECT), oldest first -/
structure Exch where
  active : Bool := false
  will : Bool := false
  keepAlive : UInt16 := 0
  pkts : List Pkt := []
  mqConnects : Nat := 0
  willTopic : Option (UInt8 × Bool × Bytes) := none   -- the WILLTOPIC answered with WILLMSGREQ
  deriving Repr

def plainCreds (data : Bytes) : Option (Bytes × Bytes) := Gw.decodePlain data

def c0809 (cfg : Cfg) (tr : List TE) : List Viol :=
  let (_, _, vs) := (steps tr).foldl (fun (acc : Hist × Exch × List Viol) s =>
    let (h, ex, vs) := acc
    let v (sig : String) : List Viol := [{ sig := sig, detail := s!"t={s.t}" }]
    -- a CONNECT from a sleeping client is not a connect exchange
    let ex := match s.snIn with
      | some (.connect w _ _ d _) =>
        -- neither a CONNECT from a sleeping client nor a refused zero keep-alive CONNECT starts an exchange
        if h.asleep || d == 0 then ex else { active := true, will := w, keepAlive := d, pkts := [], mqConnects := 0, willTopic := none }
      | some p => if ex.active then { ex with pkts := ex.pkts ++ [p] } else ex
      | none => ex
    let conns := s.mqOuts.filterMap fun p => match p with
      | .connect cid clean ka uflag user pflag pass will wq wr wt wm => some (cid, clean, ka, uflag, user, pflag, pass, will, wq, wr, wt, wm)
      | _ => none
    let ex' := { ex with mqConnects := ex.mqConnects + conns.length }
    let ex' := match s.snIn with
      | some (.willtopic q r t) => if s.snOuts.contains .willmsgreq && ex'.willTopic.isNone then { ex' with willTopic := some (q, r, t) } else ex'
      | _ => ex' 
    let auths := ex.pkts.filterMap fun p => match p with
      | .auth _ m d => if m == Gw.plainMethod then (plainCreds d) else none
      | _ => none
    let c08 := conns.flatMap fun (_, _, _, uflag, user, pflag, pass, _, _, _, _, _) =>
      if cfg.auth then
        (if auths.isEmpty then v "C08:connect-without-plain-auth"
         else if uflag && pflag && auths.contains (user, pass) then [] else v "C08:connect-with-other-credentials")
      else
        (if uflag == cfg.user.isSome && user == cfg.user.getD [] && pflag == cfg.pass.isSome && pass == cfg.pass.getD []
         then [] else v "C08:configured-credentials-not-used")
    -- unknown AUTH method while waiting for AUTH
    let unk := match s.snIn with
      | some (.auth _ m _) =>
        if cfg.auth && ex.active && m != Gw.plainMethod && auths.isEmpty && ex.mqConnects == 0 && h.live s then
          (if s.snOuts.contains (.connack Gen.RC_NOT_SUPPORTED) && conns.isEmpty then [] else
            (if (ex.pkts.dropLast.any fun p => match p with | .auth .. => true | _ => false) then [] else v "C08:unknown-auth-method-not-refused"))
        else []
      | _ => []
    -- C09: order of the will requests and the single CONNECT
    let wtr := s.snOuts.contains .willtopicreq
    let wmr := s.snOuts.contains .willmsgreq
    let c09a := if wtr then
        (if !ex.will then v "C09:willtopicreq-without-will-flag" else
         match s.snIn with
         | some (.connect ..) => if cfg.auth then v "C09:willtopicreq-before-auth" else []
         | some (.auth ..) => if cfg.auth then [] else v "C09:willtopicreq-out-of-order"
         | _ => v "C09:willtopicreq-out-of-order")
      else []
    let c09b := if wmr then
        (match s.snIn with
         | some (.willtopic ..) => if ex.will then [] else v "C09:willmsgreq-without-will-flag"
         | _ => v "C09:willmsgreq-out-of-order")
      else []
    let c09c := conns.flatMap fun (_, _, ka, _, _, _, _, will, wq, wr, wt, wm) =>
      (if ex'.mqConnects > 1 then v "C09:second-mqtt-connect-in-one-exchange" else []) ++
      (if ka != ex.keepAlive then v "C09:keepalive-changed" else []) ++
      (if ex.will then
        (match s.snIn with
         | some (.willmsg m) =>
           (match ex.willTopic with
            | some (q, r, t) =>
              if t.isEmpty then (if will then v "C09:will-flag-with-empty-will-topic" else [])
              else (if will && wq == q && wr == r && wt == t && wm == m then [] else v "C09:will-fields-changed")
            | none => v "C09:connect-without-willtopic")
         | _ => v "C09:connect-before-willmsg")
       else (if will || !wt.isEmpty || !wm.isEmpty then v "C09:will-without-will-flag" else []))
    -- CONNACK mapping
    let c09d := match s.mqIn with
      | some (.connack rc) =>
        if ex.active && ex.mqConnects == 1 && h.live s && !h.asleep then
          (match s.snOuts.filterMap (fun p => match p with | .connack c => some c | _ => none) with
           | [c] => if (rc == 0 && c == Gen.RC_ACCEPTED) || (rc != 0 && c == Gen.RC_CONGESTION) then [] else v "C09:connack-code-mapping"
           | [] => []
           | _ => v "C09:several-connacks")
        else []
      | _ => []
    let c09e := match s.snIn with
      | some (.connect _ _ _ 0 _) =>
        if h.asleep || !h.live s then [] else
        (if s.snOuts == [.connack Gen.RC_NOT_SUPPORTED] && conns.isEmpty then [] else v "C09:zero-keepalive-not-refused")
      | _ => []
    (h.afterStep s, ex', vs ++ c08 ++ unk ++ c09a ++ c09b ++ c09c ++ c09d ++ c09e)) ({ endedAt := endedAtOf tr }, {}, [])
  vs

/-! ## C13 / C10 — termination -/
/-- the termination cause carried by a step, as an observer sees it -/
def c13 (_cfg : Cfg) (tr : List TE) (tEnd : Nat) : List Viol :=
  let sts := steps tr
  let endedAt : Option Nat := tr.findSome? fun e => match e with | .out t (.ended _) => some t | _ => none
  let closeAt : Option Nat := tr.findSome? fun e => match e with | .out t .mqClose => some t | _ => none
  -- (1) close accompanies the end
  let v1 := match endedAt, closeAt with
    | some te, some tc => if te == tc then [] else [{ sig := "broker-connection-not-closed-at-end", detail := s!"ended={te} close={tc}" : Viol }]
    | some te, none => [{ sig := "broker-connection-not-closed-at-end", detail := s!"ended={te}" }]
    | none, some tc => [{ sig := "broker-connection-closed-without-end", detail := s!"close={tc}" }]
    | none, none => []
  -- (2) every observable termination cause is followed by the end within the poll interval
  let (_, v2) := sts.foldl (fun (acc : Hist × List Viol) s =>
    let (h, vs) := acc
    let firstDying := match endedAt with
      | some te => s.t + Gen.connTimeout ≥ te && !(sts.any fun s' => s'.t < s.t && s'.t + Gen.connTimeout ≥ te && s'.ev.isSome)
      | none => true
    let cause : Option String :=
      if h.ended || !firstDying then none else
      match s.ev with
      | some .shutdown => some "shutdown"
      | some .mqEof => some "broker-closed"
      | some .mqGarbage => some "broker-garbage"
      | some (.sn b) =>
        (match decode (b.take Gen.MaxPacketLen) with
         | .ok (_, .disconnect 0) => some "client-disconnect"
         | .ok _ => none
         | _ => some "decode-error")
      | _ => none
    let v := match cause with
      | some c =>
        if s.t + 150 > tEnd then [] else
        (match endedAt with
         | some te => if te ≤ s.t + Gen.connTimeout then [] else [{ sig := s!"late-end/{c}", detail := s!"cause at {s.t}, ended at {te}" : Viol }]
         | none => [{ sig := s!"no-end/{c}", detail := s!"cause at {s.t}" }])
      | none => []
    -- (3) the client is told exactly when it was active or awake and did not disconnect itself
    let discs := s.outs.filter fun (_, o) => match o with | .sn b => decode b == .ok (Header.new Gen.tDISCONNECT 0, .disconnect 0) | _ => false
    let v3 := match cause with
      | some c =>
        if s.t + 150 > tEnd then [] else
        let shouldTell := connected h && !h.asleep && c != "client-disconnect"
        if c == "client-disconnect" then [] else
        (if shouldTell && discs.isEmpty then [{ sig := s!"client-not-told/{c}", detail := s!"t={s.t}" : Viol }]
         else if !shouldTell && !discs.isEmpty && !(connected h) then [{ sig := s!"client-told-though-not-connected/{c}", detail := s!"t={s.t}" }]
         else [])
      | none => []
    (h.afterStep s, vs ++ v ++ v3)) ({ endedAt := endedAtOf tr }, [])
  v1 ++ v2

/-- C10: a connect exchange that is not completed is reaped -/
def c10 (tr : List TE) (tEnd : Nat) : List Viol :=
  let sts := steps tr
  let endedAt : Option Nat := tr.findSome? fun e => match e with | .out t (.ended _) => some t | _ => none
  -- the last CONNECT that starts an exchange (not from sleep, keep-alive ≠ 0)
  let (_, last) := sts.foldl (fun (acc : Hist × Option (Nat × Bool)) s =>
    let (h, last) := acc
    let last := match s.snIn with
      | some (.connect _ _ _ d _) => if !h.asleep && d != 0 && !h.ended then some (s.t, false) else last
      | _ => last
    -- a broker CONNACK processed for the current exchange completes (or fails) it
    let last := match s.mqIn, last with
      | some (.connack _), some (t0, _) => if h.mqConnectSent then some (t0, true) else last
      | _, _ => last
    (h.afterStep s, last)) ({ endedAt := endedAtOf tr }, none)
  match last with
  | some (t0, false) =>
    let deadline := t0 + Gen.connectTransactionTimeout + Gen.connTimeout
    if deadline + 50 > tEnd then [] else
    (match endedAt with
     | some te => if te ≤ deadline then [] else [{ sig := "half-open-exchange-reaped-late", detail := s!"connect at {t0}, ended at {te}" }]
     | none => [{ sig := "half-open-exchange-not-reaped", detail := s!"connect at {t0}" }])
  | _ => []

/-! ## C11 — sleeping clients -/
def clearDup (b : Bytes) : Bytes :=
  match decode b with
  | .ok (_, .publish _ q r tit t m d) => encode (.publish false q r tit t m d)
  | _ => b

/-- `xs` occurs in `ys` as a subsequence -/
def isSubseq : List Bytes → List Bytes → Bool
  | [], _ => true
  | _ :: _, [] => false
  | x :: xs, y :: ys => if x == y then isSubseq xs ys else isSubseq (x :: xs) ys

def c11 (tr : List TE) : List Viol :=
  overSteps tr fun h s =>
    if h.ended then [] else
    let isPingresp := fun (b : Bytes) => decode b == .ok (Header.new Gen.tPINGRESP 0, .pingresp)
    -- the gateway's own keep-alive replies are never queued for the client
    let vq := (s.outs ++ s.later).flatMap fun (t, o) => match o with
      | .buf l => if l.any isPingresp then [{ sig := "pinger-reply-queued-for-client", detail := s!"t={t}" : Viol }] else []
      | _ => []
    let sent : List Bytes := s.outs.filterMap fun (_, o) => match o with | .sn b => some b | _ => none
    let v := match s.snIn with
      | some (.pingreq _) =>
        if h.asleep && h.live s then
          -- everything that was queued, in order, each once, then exactly one PINGRESP at the end
          let body := sent.dropLast
          (match sent.getLast? with
           | some b => if isPingresp b then [] else [{ sig := "wakeup-not-ended-by-pingresp", detail := s!"t={s.t}" : Viol }]
           | none => [{ sig := "wakeup-not-ended-by-pingresp", detail := s!"t={s.t}" }]) ++
          (if body.any isPingresp then [{ sig := "extra-pingresp-in-wakeup-flush", detail := s!"t={s.t}" : Viol }] else []) ++
          (if isSubseq (h.gwBuf.map clearDup) (body.map clearDup) then [] else
            [{ sig := "queued-packet-lost-or-reordered", detail := s!"t={s.t}" : Viol }]) ++
          []
        else []
      | some (.connect ..) => []
      | some (.disconnect d) =>
        -- a sleeping client repeating its DISCONNECT (the reply got lost): answered at once, and
        -- whatever has been queued for it stays queued
        if d != 0 && h.asleep && h.live s then
          let after := (h.afterStep s).gwBuf
          (if sent.any (fun b => decode b == .ok (Header.new Gen.tDISCONNECT 0, .disconnect 0)) then [] else
            [{ sig := "repeated-sleep-request-not-answered", detail := s!"t={s.t}" : Viol }]) ++
          (if isSubseq (h.gwBuf.map clearDup) (after.map clearDup) then [] else
            [{ sig := "queued-packet-dropped-on-repeated-sleep-request", detail := s!"t={s.t}" : Viol }])
        else []
      | _ =>
        let connackIn := match s.mqIn with | some (.connack _) => true | _ => false
        -- (asleep by the handler's own account, or by the protocol: a gateway that forgets that the client
        -- went back to sleep after its PINGRESP must not get away with it)
        if (h.asleep || h.protoAsleep) && !sent.isEmpty && !s.hasEnded && !connackIn then
          [{ sig := "datagram-sent-to-sleeping-client", detail := s!"t={s.t}" }]
        else []
    -- timers must not send to a sleeping client either
    let vt := if h.asleep && (s.later.any fun (_, o) => match o with | .sn _ => true | _ => false) &&
        !(s.later.any fun (_, o) => match o with | .ended _ => true | _ => false) &&
        !(match s.snIn with | some (.pingreq _) => true | some (.connect ..) => true | some (.disconnect _) => true | _ => false)
      then [{ sig := "datagram-sent-to-sleeping-client", detail := s!"t={s.t} (timer)" : Viol }] else []
    vq ++ v ++ vt

/-! ## C06 — exchanges started by each side never interfere -/
structure Exchg where
  kind : String        -- "client-pub1" | "subscribe" | "broker-pub1" | "broker-pub2"
  mid : UInt16
  t0 : Nat             -- opened
  tLast : Nat          -- last (re)transmission / progress
  stage : Nat := 0     -- broker-pub2: 0 awaiting PUBREC, 1 awaiting PUBREL, 2 awaiting PUBCOMP
  deriving Repr

def c06 (cfg : Cfg) (tr : List TE) : List Viol :=
  let budget := (cfg.retryCount + 1) * cfg.retryDelay
  let (_, _, _, vs) := (steps tr).foldl (fun (acc : Hist × List Exchg × List (UInt16 × Nat × String) × List Viol) s =>
    let (h, open_, opens, vs) := acc
    let live := h.live s && connected h && !h.asleep
    -- was another exchange with the same message ID opened while this one was in progress?
    let others := fun (e : Exchg) =>
      let os := opens.filter fun (m, t, _) => m == e.mid && t + budget + cfg.retryDelay ≥ e.t0 && t ≤ s.t
      -- drop one opening of the exchange's own kind (itself)
      let ks := (os.map fun (_, _, k) => k).filter (· != "queued-ack")
      let ks := match ks.idxOf? e.kind with | some i => ks.eraseIdx i | none => ks
      (ks.eraseDups.toArray.qsort (· < ·)).toList
    -- the side that opened an exchange; an exchange superseded by a LATER exchange of its own side
    -- under the same message ID (a peer reusing an ID that is still in flight) is not protected
    let sideOf := fun (k : String) => if k == "client-pub1" || k == "client-pub2" || k == "client-pub0" || k == "subscribe" then "client" else "broker"
    let supersededBySameSide := fun (e : Exchg) =>
      opens.any fun (m, t, k) => m == e.mid && t > e.t0 && t ≤ s.t && sideOf k == sideOf e.kind
    let miss := fun (e : Exchg) (what : String) =>
      let ks := others e
      if supersededBySameSide e then [] else
      [{ sig := s!"ack-lost/{e.kind}/{what}{if ks.isEmpty then "" else "/same-msgid-collision/with=" ++ String.intercalate "+" ks}", detail := s!"t={s.t} mid={e.mid}" : Viol }]
    let find := fun (kind : String) (mid : UInt16) (stage : Nat) =>
      open_.find? fun (e : Exchg) => e.kind == kind && e.mid == mid && e.stage == stage
    -- expectations raised by this step's input
    let v := if !live then [] else
      match s.snIn, s.mqIn with
      | _, some (.puback m) =>
        (match find "client-pub1" m 0 with
         | some e => if s.t < e.t0 + cfg.retryDelay && !(s.snOuts.any fun p => match p with | .puback _ m2 _ => m2 == m | _ => false)
                     then miss e "puback-not-delivered" else []
         | none => [])
      | _, some (.suback m _ [_]) =>
        (match find "subscribe" m 0 with
         | some e => if s.t < e.t0 + cfg.retryDelay && !(s.snOuts.any fun p => match p with | .suback _ _ m2 _ => m2 == m | _ => false)
                     then miss e "suback-not-delivered" else []
         | none => [])
      | some (.puback _ m 0), _ =>
        (match find "broker-pub1" m 0 with
         | some e => if s.t < e.tLast + cfg.retryDelay && !(s.mqOuts.contains (.puback m)) then miss e "puback-not-relayed" else []
         | none => [])
      | some (.pubrec m), _ =>
        (match find "broker-pub2" m 0 with
         | some e => if s.t < e.tLast + cfg.retryDelay && !(s.mqOuts.contains (.pubrec m)) then miss e "pubrec-not-relayed" else []
         | none => [])
      | _, some (.pubrel m) =>
        (match find "broker-pub2" m 1 with
         | some e => if s.t < e.tLast + cfg.retryDelay && !(s.snOuts.contains (.pubrel m)) then miss e "pubrel-not-delivered" else []
         | none => [])
      | some (.pubcomp m), _ =>
        (match find "broker-pub2" m 2 with
         | some e => if s.t < e.tLast + cfg.retryDelay && !(s.mqOuts.contains (.pubcomp m)) then miss e "pubcomp-not-relayed" else []
         | none => [])
      | _, _ => []
    -- bookkeeping: close / advance / open
    let open_ : List Exchg := match s.snIn, s.mqIn with
      | _, some (.puback m) => open_.filter fun (e : Exchg) => !(e.kind == "client-pub1" && e.mid == m)
      | _, some (.suback m _ _) => open_.filter fun (e : Exchg) => !(e.kind == "subscribe" && e.mid == m)
      | some (.puback _ m _), _ => open_.filter fun (e : Exchg) => !(e.kind == "broker-pub1" && e.mid == m)
      | some (.pubrec m), _ => open_.map fun (e : Exchg) => if e.kind == "broker-pub2" && e.mid == m && e.stage == 0 && s.mqOuts.contains (.pubrec m) then { e with stage := 1, tLast := s.t } else e
      | _, some (.pubrel m) => open_.map fun (e : Exchg) => if e.kind == "broker-pub2" && e.mid == m && e.stage == 1 && s.snOuts.contains (.pubrel m) then { e with stage := 2, tLast := s.t } else e
      | some (.pubcomp m), _ => open_.filter fun (e : Exchg) => !(e.kind == "broker-pub2" && e.mid == m && e.stage == 2)
      | _, _ => open_
    -- (re)transmissions by timers keep an exchange alive
    let open_ := s.later.foldl (fun op (t, o) => match o with
      | .sn b => (match decode b with
        | .ok (_, .publish _ _ _ _ _ m _) => op.map fun (e : Exchg) => if e.mid == m && (e.kind == "broker-pub1" || (e.kind == "broker-pub2" && e.stage == 0)) then { e with tLast := t } else e
        | .ok (_, .pubrel m) => op.map fun (e : Exchg) => if e.mid == m && e.kind == "broker-pub2" && e.stage == 2 then { e with tLast := t } else e
        | _ => op)
      | _ => op) open_
    let newOpen : List Exchg := (match s.snIn with
      | some (.publish _ 1 _ _ _ m _) => if s.mqOuts.any (fun p => match p with | .publish .. => true | _ => false) then [{ kind := "client-pub1", mid := m, t0 := s.t, tLast := s.t }] else []
      | some (.subscribe _ _ _ m _ _) => if s.mqOuts.any (fun p => match p with | .subscribe .. => true | _ => false) then [{ kind := "subscribe", mid := m, t0 := s.t, tLast := s.t }] else []
      | _ => []) ++
      (s.snOuts.filterMap fun p =>
        -- a PUBLISH that the client acknowledged while it was still queued (it never saw it: a client answering
        -- blindly) has no exchange left when the queue is flushed at a wake-up or re-CONNECT
        let flush := match s.snIn with | some (.pingreq _) => true | some (.connect ..) => true | _ => false
        let spent := fun (m : UInt16) => flush && opens.any fun (m2, _, k) => m2 == m && k == "queued-ack"
        match p with
        | .publish _ 1 _ _ _ m _ => if spent m then none else some { kind := "broker-pub1", mid := m, t0 := s.t, tLast := s.t }
        | .publish _ 2 _ _ _ m _ => if spent m then none else some { kind := "broker-pub2", mid := m, t0 := s.t, tLast := s.t }
        | _ => none)
    -- a new exchange under a key replaces the bookkeeping of an older one of the same kind
    let open_ := (open_.filter fun (e : Exchg) => !(newOpen.any fun (n : Exchg) => n.kind == e.kind && n.mid == e.mid)) ++ newOpen
    let opens := opens ++ (newOpen.map fun (e : Exchg) => (e.mid, e.t0, e.kind)) ++
      (match s.snIn with
        | some (.publish _ 2 _ _ _ m _) => if s.mqOuts.isEmpty then [] else [(m, s.t, "client-pub2")]
        | some (.publish _ 0 _ _ _ m _) => if s.mqOuts.isEmpty || m == 0 then [] else [(m, s.t, "client-pub0")]
        | _ => []) ++
      (s.snOuts.filterMap fun p => match p with | .register _ m _ => some (m, s.t, "gw-register") | _ => none) ++
      (let queued := fun (m : UInt16) => h.gwBuf.any fun b => match decode b with
          | .ok (_, .publish _ q _ _ _ m2 _) => m2 == m && (q == 1 || q == 2)
          | _ => false
       match s.snIn with
        | some (.puback _ m _) => if queued m then [(m, s.t, "queued-ack")] else []
        | some (.pubrec m) => if queued m then [(m, s.t, "queued-ack")] else []
        | _ => [])
    (h.afterStep s, open_, opens, vs ++ v)) ({ endedAt := endedAtOf tr }, [], [], [])
  vs

/-! ## C25 / leaks are decided on the raw log by the driver (panic and leak lines) -/

end Bisquitt.Spec

namespace Bisquitt.Spec
open Bisquitt Bisquitt.Gw

/-! ## C02 — broker PUBLISH reaches the client under a topic ID it can resolve -/

/-- a broker PUBLISH the gateway can relay at all (C23/C24: oversize and empty-topic messages are dropped) -/
def relayable (topic payload : Bytes) : Bool :=
  !topic.isEmpty && topic.length ≤ Gen.MaxPayloadLength && payload.length ≤ Gen.MaxPayloadLength

def c02 (cfg : Cfg) (tr : List TE) : List Viol :=
  let (_, _, _, _, vs) := (steps tr).foldl
    (fun (acc : Hist × List (Bytes × Bytes × UInt8 × Bool) × List (UInt16 × UInt16) × List (UInt16 × UInt16 × Nat) × List Viol) s =>
    let (h, seen, regacked, regTimes, vs) := acc
    -- a broker that reuses a message ID (QoS > 0) which is still in flight overwrites its own earlier exchange:
    -- a REGISTER issued under that ID no longer waits for anything
    let regTimes := match s.mqIn with
      | some (.publish _ q _ m _ _) => if q != 0 then regTimes.filter (fun e => e.1 != m) else regTimes
      | _ => regTimes
    let h' := h.afterStep s
    let v (sig : String) (d : String) : List Viol := [{ sig := sig, detail := s!"t={s.t} {d}" }]
    -- broker PUBLISHes seen so far, including this step's
    let seen := match s.mqIn with
      | some (.publish _ q r _ topic payload) => (topic, payload, q, r) :: seen
      | _ => seen
    let allOuts : List Pkt := (s.outs ++ s.later).filterMap fun (_, o) => match o with
      | .sn b => (match decode b with | .ok (_, p) => some p | _ => none)
      | _ => none
    -- safety: every PUBLISH sent to the client is a broker message, under an ID the client reads as its topic
    let v1 := allOuts.flatMap fun p => match p with
      | .publish _ q r tit tid _ data =>
        let cands := seen.filter fun (_, pl, q2, r2) => pl == data && q2 == q && r2 == r
        if cands.isEmpty then v "publish-without-broker-publish" s!"tit={tit} id={tid}"
        else
          let names := clientReads cfg h' tit tid
          if names.length > 1 then v "topic-id-ambiguous-for-client" s!"tit={tit} id={tid}"
          else if cands.any fun (topic, _, _, _) => names.contains topic then []
          -- a string SUBSCRIBE in flight: the gateway has bound an ID the client learns from the SUBACK
          else if tit == 0 && names.isEmpty && (cands.any fun (topic, _, _, _) => h'.subscribedNames.contains topic) then []
          else if names.isEmpty then v "client-cannot-resolve-topic-id" s!"tit={tit} id={tid}"
          else v "client-reads-other-name" s!"tit={tit} id={tid}"
      | _ => []
    -- liveness: a relayable broker PUBLISH to an active client is answered at once by the PUBLISH or by a REGISTER for its name
    let v2 := match s.mqIn with
      | some (.publish _ q r _ topic payload) =>
        if connected h && h.live s && h.gwState == CState.active && relayable topic payload && q ≤ 2 && !h.exhaustedSeen then
          let ok := s.snOuts.any fun p => match p with
            | .publish _ q2 r2 _ _ _ data => data == payload && q2 == q && r2 == r
            | .register _ _ name => name == topic
            | .suback _ _ _ rc => rc != 0
            | _ => false
          if ok then [] else v "broker-publish-not-relayed" s!"qos={q} topic-len={topic.length}"
        else []
      | _ => []
    -- liveness: the first accepted REGACK for a gateway REGISTER releases the PUBLISH under the registered ID
    let (v3, regacked) := match s.snIn with
      | some (.regack _ mid rc) =>
        (match h.gwRegisters.find? (fun (m, _, _) => m == mid) with
         | some (_, tid, _) =>
           if rc == 0 && !regacked.contains (mid, tid) then
             let ok := s.snOuts.any fun p => match p with
               | .publish _ _ _ tit tid2 _ _ => tit == 0 && tid2 == tid
               | _ => false
             -- the gateway waits for the REGACK for (RetryCount + 1) * RetryDelay after the first REGISTER
             let inTime := match regTimes.find? (fun (m, i, _) => m == mid && i == tid) with
               | some (_, _, t0) => s.t < t0 + (cfg.retryCount + 1) * cfg.retryDelay
               | none => false
             ((if connected h && h.live s && h.gwState == CState.active && inTime && !ok then
                 v "publish-not-sent-after-regack" s!"id={tid}" else []), (mid, tid) :: regacked)
           -- a refusal ends the exchange as well
           else ([], if rc != 0 then (mid, tid) :: regacked else regacked)
         | none => ([], regacked))
      | _ => ([], regacked)
    -- first time each gateway REGISTER was issued (sent, or queued for a sleeping client)
    let regOf := fun (t : Nat) (b : Bytes) => match decode b with
      | .ok (_, .register tid mid _) => [((mid, tid, t) : UInt16 × UInt16 × Nat)]
      | _ => []
    let issued : List (UInt16 × UInt16 × Nat) := (s.outs ++ s.later).flatMap fun (x : Nat × Out) =>
      match x.2 with
      | Out.sn b => regOf x.1 b
      | Out.buf l => l.flatMap (regOf x.1)
      | _ => []
    let regTimes : List (UInt16 × UInt16 × Nat) := issued.foldl (fun (acc : List (UInt16 × UInt16 × Nat)) (e : UInt16 × UInt16 × Nat) =>
      if acc.any (fun e2 => e2.1 == e.1 && e2.2.1 == e.2.1) then acc else e :: acc) regTimes
    (h', seen, regacked, regTimes, vs ++ v1 ++ v2 ++ v3)) ({ endedAt := endedAtOf tr }, [], [], [], [])
  vs

/-! ## C16 — QoS 1/2 delivery to clients: retransmissions -/

/-- Gateway side of C16 on one trace: every retransmission of a PUBLISH / REGISTER / PUBREL to
    the client repeats an earlier datagram of the same exchange with only the DUP flag changed
    (same message ID and payload), a given datagram goes out at most 1 + RetryCount times, and a
    PUBACK / PUBREC / PUBCOMP of the client is relayed to the broker at most once per exchange. -/
def c16Retransmissions (cfg : Cfg) (tr : List TE) : List Viol :=
  let snOf := fun (l : List (Nat × Out)) => l.filterMap fun (x : Nat × Out) => match x.2 with
    | Out.sn b => (match decode b with
      | .ok (_, .publish ..) | .ok (_, .register ..) | .ok (_, .pubrel ..) => some (x.1, b)
      | _ => none)
    | _ => none
  -- (datagrams sent in answer to an input, datagrams sent by timers), oldest first
  let (direct, timed, vs) := (steps tr).foldl (fun (acc : List Bytes × List Bytes × List Viol) s =>
    let (direct, timed, vs) := acc
    let now := (snOf s.outs).map (·.2)
    let v := (snOf s.later).flatMap fun (x : Nat × Bytes) =>
      let known := (direct ++ now ++ timed).any fun b => clearDup b == clearDup x.2
      (match decode x.2 with
       | .ok (_, .publish dup ..) =>
         if dup then [] else [{ sig := "retransmission-without-dup", detail := s!"t={x.1}" : Viol }]
       | _ => []) ++
      (if known then [] else [{ sig := "retransmission-of-a-datagram-never-sent", detail := s!"t={x.1}" : Viol }])
    (direct ++ now, timed ++ (snOf s.later).map (·.2), vs ++ v)) ([], [], [])
  -- budget: at most RetryCount timer-driven copies per transmission the gateway made on its own
  let keys := (timed.map clearDup).eraseDups
  vs ++ keys.flatMap fun k =>
    let nt := (timed.filter fun b => clearDup b == k).length
    let nd := (direct.filter fun b => clearDup b == k).length
    if nt > cfg.retryCount * (max nd 1) then
      [{ sig := "retransmitted-beyond-budget", detail := s!"timer-copies={nt} direct={nd}" : Viol }] else []

/-- message ID of a gateway → client datagram that opens a step of a QoS 1/2 delivery and awaits an
    answer of the client: REGISTER (REGACK), PUBLISH QoS 1/2 (PUBACK / PUBREC), PUBREL (PUBCOMP) -/
def awaitsAnswer (b : Bytes) : Option UInt16 :=
  match decode b with
  | .ok (_, .register _ mid _) => some mid
  | .ok (_, .publish _ q _ _ _ mid _) => if q == 1 || q == 2 then some mid else none
  | .ok (_, .pubrel mid) => some mid
  | _ => none

/-- "survives datagram loss": a datagram of a QoS 1/2 delivery that the gateway sent to an ACTIVE
    client on its own and that nothing has answered is sent again one RetryDelay later.  Judged only
    where nothing else can have happened to the exchange: RetryCount ≥ 1; the client was active and no
    state change is sampled before the deadline; the session (one poll interval of slack: its end is
    reported that late) and the trace go on beyond the deadline, and the gateway has not hung up; no answer of the client with that message ID (REGACK / PUBACK / PUBREC / PUBCOMP), no
    CONNECT / DISCONNECT / undecodable datagram, no broker packet with that message ID and no end of the
    broker connection arrives before the deadline. -/
def c16Unanswered (cfg : Cfg) (tr : List TE) : List Viol :=
  if cfg.retryCount == 0 then [] else
  let tEnd := tr.foldl (fun m e => max m (match e with | .inp t _ => t | .out t _ => t)) 0
  let endT := (endedAtOf tr).getD (tEnd + 1000000)
  let isState := fun (x : Nat × Out) => match x.2 with | Out.state _ => true | _ => false
  let lastState := fun (st : CState) (l : List (Nat × Out)) => l.foldl (fun acc x => match x.2 with | Out.state s => s | _ => acc) st
  let rec go (sts : List Step) (st : CState) (acc : List Viol) : List Viol :=
    match sts with
    | [] => acc
    | s :: rest =>
      let v := if st != CState.active || s.ev.isNone then [] else
        s.outs.flatMap fun (x : Nat × Out) => match x.2 with
          | Out.sn b =>
            (match awaitsAnswer b with
             | some mid =>
               let w := x.1 + cfg.retryDelay + 5
               -- the end of a session is reported up to one poll interval after its cause
               if w ≥ tEnd || w + Gen.connTimeout ≥ endT then [] else
               let laterOuts := (s.later ++ rest.flatMap fun r => r.outs ++ r.later).filter (·.1 ≤ w)
               let stateChanged := (s.outs ++ laterOuts).any isState
               let disturbed := (rest.filter (·.t ≤ w)).any fun r =>
                 (match r.ev with
                  | some (Gw.Event.sn _) =>
                    (match r.snIn with
                     | some (.regack _ m _) | some (.puback _ m _) | some (.pubrec m) | some (.pubcomp m) => m == mid
                     | some (.connect ..) | some (.disconnect _) => true
                     | some _ => false
                     | none => true)
                  | some (Gw.Event.mq (.publish _ _ _ m _ _)) | some (Gw.Event.mq (.pubrel m)) => m == mid
                  | some (Gw.Event.mq _) => false
                  | some Gw.Event.tick => false
                  | some _ => true
                  | none => false)
               let copy := laterOuts.any fun y => match y.2 with
                 | Out.sn b2 => clearDup b2 == clearDup b || b2 == encode (.disconnect 0)   -- (or the gateway has hung up)
                 | _ => false
               if stateChanged || disturbed || copy then []
               else [{ sig := "unanswered-datagram-not-retransmitted", detail := s!"t={x.1} mid={mid}" : Viol }]
             | none => [])
          | _ => []
      go rest (lastState st (s.outs ++ s.later)) (acc ++ v)
  go (steps tr) CState.disconnected []

def c16 (cfg : Cfg) (tr : List TE) : List Viol := c16Retransmissions cfg tr ++ c16Unanswered cfg tr

end Bisquitt.Spec

namespace Bisquitt.Spec
open Bisquitt Bisquitt.Gw

/-! ## C12 / C34 — the broker's keep-alive -/

/-- times of everything the gateway wrote to the broker -/
def mqOutTimes (tr : List TE) : List Nat := tr.filterMap fun e => match e with
  | .out t (.mq _) => some t
  | _ => none

/-- (time, datagram) of every decodable client datagram -/
def clientDatagrams (tr : List TE) : List (Nat × Pkt) := tr.filterMap fun e => match e with
  | .inp t (.sn b) => (match decode (b.take Gen.MaxPacketLen) with | .ok (_, p) => some (t, p) | _ => none)
  | _ => none

/-- C12 on one trace.  As long as the client meets its own obligations (a datagram within every
    keep-alive period while active, a wake-up within every announced sleep), the gateway writes
    something to the broker within every 1.5 × keep-alive window. -/
def c12 (tr : List TE) (tEnd : Nat) : List Viol :=
  let sts := steps tr
  -- the accepted CONNECT: keep-alive in ms, and when the broker accepted
  let (_, info) := sts.foldl (fun (acc : Hist × Option (Nat × Nat)) s =>
    let (h, info) := acc
    let h' := h.afterStep s
    let info := match info with
      | some x => some x
      | none => if !h.brokerAccepted && h'.brokerAccepted then some (h'.keepAlive.toNat * 1000, s.t) else none
    (h', info)) ({ endedAt := endedAtOf tr }, none)
  match info with
  | none => []
  | some (ka, t0) =>
    if ka = 0 then [] else
    let tStop := ((endedAtOf tr).getD tEnd)
    let cds := (clientDatagrams tr).filter fun (t, _) => t ≥ t0
    -- sleep intervals: DISCONNECT(d) at ts … next PINGREQ / CONNECT / DISCONNECT at tw
    let sleeps : List (Nat × Nat × Nat) := cds.filterMap fun (t, p) => match p with
      | .disconnect d => if d == 0 then none else
          -- the client stays asleep (a wake-up PINGREQ leaves it asleep again after the PINGRESP) until it
          -- sends CONNECT or another DISCONNECT
          let tw := ((cds.find? fun (t2, p2) => t2 > t && (match p2 with | .connect .. | .disconnect _ => true | _ => false)).map (·.1)).getD tStop
          some (t, tw, d.toNat * 1000)
      | _ => none
    let asleepAt := fun (t : Nat) => sleeps.any fun (ts, tw, _) => ts ≤ t && t < tw
    -- first moment the client breaks its obligations (then the property says nothing any more)
    let times := t0 :: cds.map (·.1)
    let breaksActive := ((times.zip (times.drop 1 ++ [tStop])).filterMap fun (a, b) =>
      if b > a + ka && !asleepAt a && !asleepAt (a + ka) then some (a + ka) else none)
    -- asleep, the client shows up (PINGREQ, CONNECT, DISCONNECT) at least once per announced duration
    let breaksSleep := sleeps.flatMap fun (ts, tw, d) =>
      -- (waking up is PINGREQ / CONNECT / DISCONNECT: an acknowledgement a blindly answering client sends in
      -- its sleep is not a wake-up, and no sleep cycle begins with it)
      let shows := ts :: ((cds.filter fun (t, p) => t > ts && t ≤ tw &&
        (match p with | .pingreq _ | .connect .. | .disconnect _ => true | _ => false)).map (·.1))
      (shows.zip (shows.drop 1 ++ [tw])).filterMap fun (a, b) => if b > a + d then some (a + d) else none
    let tOk := (breaksActive ++ breaksSleep).foldl min tStop
    let outs := t0 :: (mqOutTimes tr).filter fun t => t > t0
    let gaps := outs.zip (outs.drop 1 ++ [tOk])
    gaps.flatMap fun (a, b) =>
      let lim := a + ka * 3 / 2
      if b > lim && lim < tOk then
        let inGap := cds.filter fun (t, _) => a < t && t ≤ lim
        -- the sleep (if any) the client is in when the 1.5 × keep-alive window runs out
        let sl := sleeps.find? fun (ts, tw, _) => ts ≤ lim && lim < tw
        let kind := match sl with
          | some (ts, _, d) =>
            if d ≤ ka then "sleep-not-longer-than-keep-alive-has-no-pinger"
            -- the pinger covers the first announced period only; a client that wakes up with PINGREQ and
            -- goes on sleeping (the same duration applies again) has none afterwards
            else if lim > ts + d then "sleep-cycle-continued-by-pingreq-has-no-pinger"
            else if a < ts + ka then "first-sleep-ping-a-full-keep-alive-after-falling-asleep"
            else "sleep-pinger-silent"
          | none => if inGap.isEmpty then "unexplained" else "client-traffic-answered-locally"
        [{ sig := s!"broker-starved/{kind}", detail := s!"no packet to the broker from t={a} to t={min b tOk} keep-alive={ka}" }]
      else []

/-- C34 (gateway side) on one trace: once the client has vanished, the gateway stops talking to
    the broker — no later than the end of the announced sleep (its pinger) plus the retry budget —
    so that a keep-alive-enforcing broker drops the connection; and the broker's EOF ends the session. -/
def c34 (cfg : Cfg) (tr : List TE) (tEnd : Nat) : List Viol :=
  let cds := clientDatagrams tr
  match cds.getLast? with
  | none => []
  | some (tv, lastPkt) =>
    let budget := (cfg.retryCount + 1) * cfg.retryDelay
    -- an announced sleep keeps the pinger running until its end; the announced duration applies to every
    -- sleep cycle (C11: after a wake-up the client is asleep again), so a client that falls silent after a
    -- wake-up PINGREQ is pinged for one more announced duration — the bound of the property is "the announced
    -- sleep duration plus 1.5 x keep-alive" from the point of silence
    let lastSleep : Option UInt16 := cds.foldl (fun acc (x : Nat × Pkt) => match x.2 with
      | .disconnect d => if d != 0 then some d else none
      | .connect .. => none
      | _ => acc) none
    -- (whatever the last datagram of a client that is asleep at the end was: the bound runs from the point of silence)
    let sleepEnd := match lastPkt, lastSleep with
      | .disconnect d, _ => tv + d.toNat * 1000
      | _, some d => tv + d.toNat * 1000
      | _, _ => ((cds.filterMap fun (t, p) => match p with
          | .disconnect d => if d != 0 then some (t + d.toNat * 1000) else none
          | _ => none).foldl max tv)
    let quietFrom := max tv sleepEnd + budget + Gen.connTimeout
    let late := (tr.filterMap fun e => match e with
      | .out t (.mq p) => if t > quietFrom then some (t, p) else none
      | _ => none)
    -- outputs that answer a broker packet are not the gateway's own initiative
    let brokerIn : List Nat := tr.filterMap fun e => match e with | .inp t (.mq _) => some t | _ => none
    let own := late.filter fun (t, _) => !brokerIn.contains t
    let _ := tEnd
    -- (known finding) the pinger of an EARLIER sleep announcement is neither stopped by a CONNECT nor replaced by a
    -- later DISCONNECT: it pings until the end of the period it was started for
    let staleEnd := (cds.filterMap fun (t, p) => match p with
      | .disconnect d => if d != 0 then some (t + d.toNat * 1000) else none
      | _ => none).foldl max 0
    match own.head? with
    | some (t, p) =>
      let stale := p == MqPkt.pingreq && t ≤ staleEnd && own.all fun (t2, p2) => p2 == MqPkt.pingreq && t2 ≤ staleEnd
      [{ sig := if stale then "broker-kept-alive-for-a-vanished-client/pinger-of-an-earlier-sleep-still-running"
                else "broker-kept-alive-for-a-vanished-client",
         detail := s!"client silent since t={tv}, packet to the broker at t={t}" }]
    | none => []

end Bisquitt.Spec
