import Bisquitt.Model.Topics
namespace Bisquitt.Spec
open Bisquitt

/-- C05, first sentence: the client-specific entry when one exists and otherwise the `"*"` entry. -/
def specName (t : Predef) (c : Bytes) (id : UInt16) : Option Bytes :=
  let own := (t.lookup c).bind (·.lookup id)
  if own.isSome then own else (t.lookup starId).bind (·.lookup id)

/-- monitor for one `GetTopicID` answer of the implementation: a returned ID must read back
    as the name (for that client); "not found" is only allowed when no ID reads back as it. -/
def c05IdOk (t : Predef) (c name : Bytes) (answer : Option UInt16) : Bool :=
  match answer with
  | some id => specName t c id == some name
  | none =>
    -- every ID mentioned anywhere in the configuration
    let ids := (t.map (fun e => e.2.map (·.1))).flatten
    ids.all (fun id => specName t c id != some name)

end Bisquitt.Spec
