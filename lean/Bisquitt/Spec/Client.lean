/-
  Specifications of the client-library properties as predicates over OBSERVABLE traces of one
  client: inputs (API calls started by the application, datagrams from the gateway) and outputs
  (datagrams to the gateway, API calls returning, handler invocations, state samples, the end of
  the client's goroutines), in order, with virtual timestamps.  They are monitors run over the
  traces of the real client, and the statements the theorems in Props/ refer to.
-/
import Bisquitt.Model.Client
import Bisquitt.Spec.Gateway
import Bisquitt.Spec.Match

namespace Bisquitt.Spec.ClientSpec
open Bisquitt Bisquitt.Cl

inductive CE where
  | api (t : Nat) (call : String) (a : Cl.Api)
  | snIn (t : Nat) (b : Bytes)
  | out (t : Nat) (o : Cl.Out)
  /-- implementation-only lines: handler with the filter that ran, leak, panic -/
  | handlerRan (t : Nat) (filter topic : Bytes) (qos : Nat := 0) (payload : Bytes := [])
  | note (t : Nat) (what : String)
  deriving Repr

def CE.time : CE → Nat
  | .api t .. | .snIn t _ | .out t _ | .handlerRan t .. | .note t _ => t

def pktOf (b : Bytes) : Option Pkt := match decode b with | .ok (_, p) => some p | _ => none

def snOuts (tr : List CE) : List (Nat × Pkt) := tr.filterMap fun e => match e with
  | .out t (.sn b) => (pktOf b).map fun p => (t, p)
  | _ => none

def snIns (tr : List CE) : List (Nat × Pkt) := tr.filterMap fun e => match e with
  | .snIn t b => (pktOf (b.take Gen.MaxPacketLen)).map fun p => (t, p)
  | _ => none

def rets (tr : List CE) : List (Nat × String × Err) := tr.filterMap fun e => match e with
  | .out t (.ret c e) => some (t, c, e)
  | _ => none

def doneAt (tr : List CE) : Option Nat := tr.findSome? fun e => match e with
  | .out t (.done _) => some t
  | _ => none

def eventTimes (tr : List CE) : List Nat := tr.filterMap fun e => match e with
  | .api t .. | .snIn t _ => some t
  | _ => none

def mk (sig detail : String) : Viol := { sig := sig, detail := detail }

/-! ## C23 (client half): every datagram the client sends is well-formed -/
def clientToGwTypes : List UInt8 :=
  [Gen.tCONNECT, Gen.tAUTH, Gen.tWILLTOPIC, Gen.tWILLMSG, Gen.tREGISTER, Gen.tREGACK, Gen.tPUBLISH, Gen.tPUBACK,
   Gen.tPUBCOMP, Gen.tPUBREC, Gen.tPUBREL, Gen.tSUBSCRIBE, Gen.tUNSUBSCRIBE, Gen.tPINGREQ, Gen.tDISCONNECT,
   Gen.tSEARCHGW, Gen.tWILLTOPICUPD, Gen.tWILLMSGUPD]

def clientDatagramOk (b : Bytes) : Bool :=
  b.length ≤ Gen.MaxPacketLen && lengthFieldOf b == b.length &&
  (match decode b with
   | .ok (_, p) => clientToGwTypes.contains p.typeCode
   | _ => false)

def c23 (tr : List CE) : List Viol := tr.filterMap fun e => match e with
  | .out t (.sn b) => if clientDatagramOk b then none else
      some (mk "malformed-datagram" s!"t={t} size={b.length} first-bytes={(b.take 6).map (·.toNat)}")
  | _ => none

/-! ## C31 (client half): AUTH right after every CONNECT iff a user is configured -/
def c31 (cfg : Cl.Cfg) (tr : List CE) : List Viol :=
  let outs := snOuts tr
  let rec go : List (Nat × Pkt) → List Viol
    | [] => []
    | (t, .connect ..) :: rest =>
      (match cfg.user, rest with
       | some _, (t2, .auth ..) :: _ => if t2 == t then [] else [mk "auth-not-right-after-connect" s!"t={t}"]
       | some _, _ => [mk "connect-without-auth" s!"t={t}"]
       | none, _ => []) ++ go rest
    | (t, .auth ..) :: rest =>
      -- an AUTH not consumed by the CONNECT before it
      (if cfg.user.isNone then [mk "auth-sent-without-user" s!"t={t}"] else []) ++ go rest
    | _ :: rest => go rest
  -- AUTHs that directly follow a CONNECT are consumed above: strip them first
  let rec strip : List (Nat × Pkt) → List (Nat × Pkt)
    | (t, .connect a b c d e) :: (t2, .auth x y z) :: rest =>
      if cfg.user.isSome && t2 == t then (t, .connect a b c d e) :: (t2, .auth x y z) :: strip rest
      else (t, .connect a b c d e) :: strip ((t2, .auth x y z) :: rest)
    | x :: rest => x :: strip rest
    | [] => []
  let vs := go (strip outs)
  -- with a user, the AUTH following a CONNECT is legitimate: remove the false "without user" alarms
  vs

/-! ## C17: QoS guarantees of the client library under loss -/

/-- the datagram with the DUP flag cleared (PUBLISH and SUBSCRIBE have one) -/
def noDup (b : Bytes) : Bytes :=
  match decode b with
  | .ok (_, .publish _ q r tit t m d) => encode (.publish false q r tit t m d)
  | .ok (_, .subscribe _ q tit m t n) => encode (.subscribe false q tit m t n)
  | _ => b

/-- retransmissions (datagrams sent by a timer, i.e. not at the instant of an input) of PUBLISH /
    SUBSCRIBE repeat an earlier datagram with only the DUP flag added -/
def c17Retransmissions (tr : List CE) : List Viol :=
  let evT := eventTimes tr
  let (_, vs) := tr.foldl (fun (acc : List Bytes × List Viol) e =>
    let (sent, vs) := acc
    match e with
    | .out t (.sn b) =>
      let timerDriven := !evT.contains t
      let v := match pktOf b with
        | some (.publish dup ..) | some (.subscribe dup ..) =>
          let known := sent.any fun x => noDup x == noDup b
          if timerDriven then
            (if dup then [] else [mk "retransmission-without-dup" s!"t={t}"]) ++
            (if known then [] else [mk "retransmission-of-a-datagram-never-sent" s!"t={t}"])
          else []
        | _ => []
      (sent ++ [b], vs ++ v)
    | _ => (sent, vs)) ([], [])
  vs

/-- every PUBREL received while the client runs is answered with a PUBCOMP of the same message ID -/
def c17Pubrel (tr : List CE) : List Viol :=
  let dn := doneAt tr
  let outs := snOuts tr
  (snIns tr).flatMap fun (t, p) => match p with
    | .pubrel mid =>
      let running := match dn with | some td => t < td | none => true
      if running && !(outs.any fun (t2, q) => t2 == t && q == .pubcomp mid) then
        [mk "pubrel-not-answered" s!"t={t} mid={mid}"] else []
    | _ => []

/-- the message ID a call used: the first datagram sent at the instant of the call -/
def callDatagram (tr : List CE) (tcall : Nat) : Option Pkt :=
  (snOuts tr).findSome? fun (t, p) => if t == tcall then some p else none

/-- Publish(QoS 1/2) returns nil exactly when the gateway acknowledged within the exchange -/
def c17Publish (cfg : Cl.Cfg) (tr : List CE) : List Viol :=
  let ins := snIns tr
  let rs := rets tr
  let cancelT : Option Nat := doneAt tr
  tr.flatMap fun e => match e with
    | .api t call (.publish _ q ..) | .api t call (.publishPre _ q ..) =>
      if q != 1 && q != 2 then [] else
      (match callDatagram tr t, rs.find? (fun (_, c, _) => c == call) with
       | some (.publish _ _ _ _ _ mid _), some (tr_, _, err) =>
         let acked : Option Nat :=
           if q == 1 then (ins.find? fun (ta, p) => ta > t && ta ≤ tr_ && (match p with | .puback _ m _ => m == mid | _ => false)).map (·.1)
           else
             match ins.find? (fun (ta, p) => ta > t && ta ≤ tr_ && p == .pubrec mid) with
             | some (t1, _) => (ins.find? fun (ta, p) => ta > t1 && ta ≤ tr_ && p == .pubcomp mid).map (·.1)
             | none => none
         -- the group ending for another reason may pre-empt the result (C28 / C33 look at that)
         let preempted := match cancelT with | some td => td ≤ tr_ | none => false
         (if err == .ok && acked.isNone then [mk "publish-ok-without-acknowledgement" s!"call={call} t={tr_}"] else []) ++
         (if err != .ok && acked.isSome && !preempted then [mk "publish-failed-despite-acknowledgement" s!"call={call} t={tr_}"] else []) ++
         (if err == .ok && acked.isSome && acked != some tr_ then [mk "publish-returned-late" s!"call={call}"] else []) ++
         (if err == .noMoreRetries && tr_ != t + (cfg.rc + 1) * cfg.rd && q == 1 && !preempted then
            [mk "retry-budget-wrong" s!"call={call} returned-after={tr_ - t}"] else [])
       | _, _ => [])
    | _ => []

def c17 (cfg : Cl.Cfg) (tr : List CE) : List Viol :=
  c17Retransmissions tr ++ c17Pubrel tr ++ c17Publish cfg tr

/-! ## C28: API calls always return; the client shuts down -/
def callBound (cfg : Cl.Cfg) (a : Cl.Api) : Nat :=
  let retry := (cfg.rc + 1) * cfg.rd
  let slack := Gen.readTimeout + 100
  match a with
  | .connect => (cfg.rc + 1) * cfg.ct + slack
  | .publish _ q .. | .publishPre _ q .. => (if q == 2 then 2 * retry else retry) + slack
  | .sleep d => retry + d * 1000 + Gen.maxPingrespWait + slack
  | .close | .disconnect => retry + 2 * slack
  | _ => retry + slack

def c28 (cfg : Cl.Cfg) (tr : List CE) (tEnd : Nat) : List Viol :=
  let rs := rets tr
  let v1 := tr.flatMap fun e => match e with
    | .api t call a =>
      (match rs.find? (fun (_, c, _) => c == call) with
       | some (tr_, _, _) => if tr_ > t + callBound cfg a then [mk "api-call-returned-late" s!"call={call} after={tr_ - t}"] else []
       | none => if tEnd > t + callBound cfg a then [mk "api-call-never-returned" s!"call={call} t={t}"] else [])
    | _ => []
  -- after Close / Disconnect returned nil, or a DISCONNECT from the gateway that nobody asked for, the goroutines end
  let closers : List Nat := tr.filterMap fun e => match e with
    | .out t (.ret call .ok) =>
      if tr.any (fun e2 => match e2 with | .api _ c .close | .api _ c .disconnect => c == call | _ => false) then
        -- a Disconnect() of a client that is not connected returns at once and ends nothing
        (match tr.find? (fun e2 => match e2 with | .api _ c _ => c == call | _ => false) with
         | some (.api t0 _ .close) => some (max t t0)
         | some (.api t0 _ .disconnect) => if t > t0 then some t else none
         | _ => none)
      else none
    | _ => none
  let v2 := closers.flatMap fun t =>
    match doneAt tr with
    | some td => if td > t + Gen.readTimeout + 100 then [mk "goroutines-outlive-close" s!"closed={t} done={td}"] else []
    | none => if tEnd > t + Gen.readTimeout + 100 then [mk "goroutines-never-end" s!"closed={t}"] else []
  let v3 := tr.filterMap fun e => match e with
    | .note t w => if w.startsWith "leak" then some (mk "goroutine-leak" s!"t={t} {w.take 200}") else none
    | _ => none
  v1 ++ v2 ++ v3

/-! ## C25 (client half) -/
def c25 (tr : List CE) : List Viol := tr.filterMap fun e => match e with
  | .note t w => if w.startsWith "panic" then some (mk "panic" s!"t={t} {w.take 200}") else none
  | _ => none

/-! ## C27 (history half): callbacks of current, matching subscriptions only -/
structure Sub where
  filter : Bytes        -- the topic filter (for a predefined subscription: the predefined name)
  label : Bytes         -- what the harness prints as `filter=`
  deriving Repr

/-- the current subscriptions after event `e`: a Subscribe / Unsubscribe that succeeded changes them -/
def updSubs (cfg : Cl.Cfg) (tr : List CE) (subs : List Sub) (e : CE) : List Sub :=
  match e with
  | .out _ (.ret call .ok) =>
    let api? : Option Cl.Api := tr.findSome? fun e2 => match e2 with
      | .api _ c a => if c == call then some a else none
      | _ => none
    (match api? with
     | some (.subscribe name _) => { filter := name, label := name } :: subs.filter (·.filter != name)
     | some (.subscribePre id _) =>
       (match cfg.predef.getTopicName cfg.cid id with
        | some n => { filter := n, label := Cl.preLabel id } :: subs.filter (·.filter != n)
        | none => subs)
     | some (.unsubscribe name) => subs.filter (·.filter != name)
     | some (.unsubscribePre id) =>
       (match cfg.predef.getTopicName cfg.cid id with
        | some n => subs.filter (·.filter != n)
        | none => subs)
     | _ => subs)
  | _ => subs

def c27 (cfg : Cl.Cfg) (tr : List CE) : List Viol :=
  let (_, vs) := tr.foldl (fun (acc : List Sub × List Viol) e =>
    let (subs, vs) := acc
    match e with
    | .handlerRan t label topic _ _ =>
      (match subs.find? (·.label == label) with
       | some s =>
         if specMatch (splitTopic s.filter) (splitTopic topic) then (subs, vs)
         else (subs, vs ++ [mk "callback-of-non-matching-filter" s!"t={t}"])
       | none => (subs, vs ++ [mk "callback-of-a-subscription-that-is-not-current" s!"t={t}"]))
    | _ => (updSubs cfg tr subs e, vs)) ([], [])
  vs

/-! ## C33: keep-alive pings only while active -/
/-- the keep-alive PINGREQ carries no client ID and is sent by a timer -/
def c33 (cfg : Cl.Cfg) (tr : List CE) (tEnd : Nat) : List Viol :=
  if cfg.ka = 0 then [] else
  let evT := eventTimes tr
  let period := cfg.ka * 1000
  -- state as sampled after every event
  let states : List (Nat × Cl.CState) := tr.filterMap fun e => match e with
    | .out t (.state s) => some (t, s)
    | _ => none
  let stateAt := fun (t : Nat) => ((states.filter fun (ts, _) => ts ≤ t).getLast?.map (·.2)).getD Cl.CState.disconnected
  let nextStateAfter := fun (t : Nat) => ((states.find? fun (ts, _) => ts > t).map (·.2))
  -- retransmissions of a Ping() the application called are not keep-alive traffic
  let userPings : List Nat := tr.filterMap fun e => match e with
    | .api t _ .ping => some t
    | _ => none
  -- every PINGREQ without a client ID that went out (the application's, the keep-alive's, retransmissions)
  let allPings : List Nat := tr.filterMap fun e => match e with
    | .out t (.sn b) => if pktOf b == some (.pingreq []) then some t else none
    | _ => none
  -- there is one PINGREQ exchange at a time: a Ping() of the application while an exchange is in progress
  -- joins it, and from then on it is the application's (not stopped with the keep-alive); its
  -- retransmissions are counted from the start of the exchange it joined
  let isUserRetry := fun (t : Nat) => userPings.any fun tc =>
    let bases := tc :: (allPings.filter fun tk => tk ≤ tc && tc ≤ tk + (cfg.rc + 1) * cfg.rd)
    bases.any fun b => t > b && t ≥ tc && (t - b) % cfg.rd == 0 && t - b ≤ cfg.rc * cfg.rd
  let kaPings : List Nat := tr.filterMap fun e => match e with
    -- (a PINGREQ at the instant of a Ping() call is the application's; one sent at the instant a late PINGRESP
    -- arrives is the keep-alive's: the tick that fell into the outstanding exchange is served at once)
    | .out t (.sn b) => if pktOf b == some (.pingreq []) && !userPings.contains t && !isUserRetry t then some t else none
    | _ => none
  -- an unanswered ping exchange ends the client: from then on nothing is due
  let pingresps : List Nat := (snIns tr).filterMap fun (t, p) => if p == .pingresp then some t else none
  -- (an exchange of the application which a keep-alive tick has joined ends the client in the same way when
  -- it is never answered: where the trace shows that the client did end, an unanswered exchange of the
  -- application counts too)
  let clientEnded := (doneAt tr).isSome
  -- (a keep-alive tick that joined the exchange shows as a PINGREQ of its own inside it)
  let joinedByKeepalive := fun (tu : Nat) => kaPings.any fun tk => tk > tu && tk < tu + (cfg.rc + 1) * cfg.rd
  let exchangeStarts : List Nat := kaPings ++ (userPings.filter fun tu => allPings.contains tu && (clientEnded || joinedByKeepalive tu))
  let deadFrom : Nat := ((exchangeStarts.filterMap fun t =>
      let lim := t + (cfg.rc + 1) * cfg.rd
      -- (an exchange stopped because the client left `active` meanwhile does not end the client)
      if pingresps.any (fun tp => tp > t && tp ≤ lim) || states.any (fun (ts, s) => ts > t && ts ≤ lim && s != .active)
      then none else some lim).foldl min tEnd)
  -- a Ping() of the application while a keep-alive PINGREQ is unanswered takes over the single PINGREQ
  -- slot and the PINGRESP (known finding): the orphaned keep-alive exchange can neither be answered nor stopped
  let takenOverBefore := fun (t : Nat) =>
    userPings.any fun tu => tu ≤ t && kaPings.any fun tk => tk < tu && tu ≤ tk + (cfg.rc + 1) * cfg.rd
  -- the same single slot, the other way round (known finding): a keep-alive PINGREQ that starts while a
  -- Ping() of the application is unanswered replaces it in the slot, and the clean-up of the application's
  -- exchange then empties the slot: the keep-alive exchange can no longer be stopped
  let startedDuringUserPing := fun (t : Nat) =>
    kaPings.any fun tk => tk ≤ t && userPings.any fun tu => tu < tk && tk ≤ tu + (cfg.rc + 1) * cfg.rd
  let suffix := fun (t : Nat) =>
    if takenOverBefore t then "/user-ping-took-over-the-keepalive-exchange"
    else if startedDuringUserPing t then "/keepalive-ping-started-during-a-user-ping"
    else ""
  -- (b) none while asleep or disconnected
  let v1 := kaPings.flatMap fun t =>
    let s := stateAt t
    if (s == .asleep || s == .disconnected) && (nextStateAfter t).all (fun s2 => s2 != .active) &&
       -- the sampled state is exact only at event instants: a wake-up by timer shows up later
       !(states.any fun (ts, s2) => ts ≥ t && s2 == .awake && s == .asleep)
    then [mk ("keepalive-ping-while-not-active" ++ suffix t) s!"t={t} state={repr s}"] else []
  -- (a) at least one per period while active (as long as the client runs)
  let dn := min ((doneAt tr).getD tEnd) deadFrom
  let activeSpans : List (Nat × Nat) :=
    (states.zip (states.drop 1 ++ [(dn, Cl.CState.disconnected)])).filterMap fun ((t1, s1), (t2, _)) =>
      if s1 == .active then some (t1, min t2 dn) else none
  let v2 := activeSpans.flatMap fun (a, b) =>
    -- every window [x, x + period + slack] inside the span contains a ping: check gaps between consecutive pings
    -- (any PINGREQ tells the gateway that the client is alive: a keep-alive tick that finds an exchange of the
    -- application in progress joins it instead of sending another PINGREQ)
    let ps := a :: (allPings.filter fun t => t > a && t ≤ b)
    let gaps := (ps.zip (ps.drop 1 ++ [b]))
    gaps.flatMap fun (x, y) =>
      if y > x + period + 50 then
        -- a Ping() of the application while a keep-alive PINGREQ is unanswered takes over the single
        -- PINGREQ slot and the PINGRESP: the keep-alive exchange then runs out of retries
        [mk ("no-keepalive-ping-for-a-whole-period" ++ suffix y) s!"from={x} to={y}"]
      else []
  v1 ++ v2

/-! ## C06 (client half): exchanges of the two sides do not interfere -/
def c06 (tr : List CE) : List Viol :=
  let dn := doneAt tr
  let outs := snOuts tr
  -- every QoS-2 PUBLISH from the gateway is answered with PUBREC whatever the client has in flight
  (snIns tr).flatMap fun (t, p) => match p with
    | .publish _ 2 _ tit _ mid _ =>
      let running := match dn with | some td => t < td | none => true
      if running && tit ≤ 2 && !(outs.any fun (t2, q) => t2 == t && q == .pubrec mid) then
        [mk "gateway-publish-qos2-not-acknowledged" s!"t={t} mid={mid}"] else []
    | _ => []

/-! ## C16 (client half): the callback of a QoS-2 message runs exactly once

  Walking the trace in order: a QoS-2 PUBLISH from the gateway (first or retransmitted) opens the
  exchange of its message ID (the newest copy is the one kept); the PUBREL of an open exchange
  releases the message — one credit with its payload — and closes the exchange; a PUBREL with no
  open exchange (a retransmission) releases nothing.  Every callback run for a QoS-2 message must
  use up one credit with its payload: a run without one is a second delivery of the same message,
  or a delivery before the release.  The other half — a released message that a current subscription matches
  DOES reach a callback — is judged for short and predefined topic IDs (which the observer reads as the client
  does without knowing its registry); for registered IDs it is decided by the comparison with the model. -/
structure C16St where
  opened : List (UInt16 × UInt8 × UInt16 × Bytes) := []   -- message ID ↦ topic-ID type, topic ID, payload
  credits : List Bytes := []
  /-- released messages a current subscription matches (by the client's own reading of a short or predefined
      topic ID): (time of the PUBREL, payload) -/
  owed : List (Nat × Bytes) := []
  subs : List Sub := []
  vs : List Viol := []

def c16 (cfg : Cl.Cfg) (tr : List CE) : List Viol :=
  let dn := doneAt tr
  let st := tr.foldl (fun (s : C16St) e =>
    let s := { s with subs := updSubs cfg tr s.subs e }
    match e with
    | .snIn t b =>
      (match pktOf (b.take Gen.MaxPacketLen) with
       | some (.publish _ 2 _ tit tid mid data) =>
         { s with opened := (mid, tit, tid, data) :: s.opened.filter (·.1 != mid) }
       | some (.pubrel mid) =>
         (match s.opened.lookup mid with
          | some (tit, tid, data) =>
            -- the other half: a released message that a current subscription matches must reach a callback.
            -- Judged where the observer can read the topic ID as the client does without knowing its registry
            -- (short and predefined IDs), while the client runs.
            let topic? : Option Bytes :=
              if tit == Gen.TIT_SHORT then some (decodeShortTopic tid)
              else if tit == Gen.TIT_PREDEFINED then cfg.predef.getTopicName cfg.cid tid
              else none
            let running := match dn with | some td => t < td | none => true
            let due := running && (match topic? with
              | some topic => s.subs.any fun sb => specMatch (splitTopic sb.filter) (splitTopic topic)
              | none => false)
            { s with opened := s.opened.filter (·.1 != mid), credits := s.credits ++ [data],
                     owed := if due then s.owed ++ [(t, data)] else s.owed }
          | none => s)
       | _ => s)
    | .handlerRan t _ _ 2 payload =>
      if s.credits.contains payload then
        { s with credits := s.credits.erase payload,
                 owed := match s.owed.find? (·.2 == payload) with | some x => s.owed.erase x | none => s.owed }
      else { s with vs := s.vs ++ [mk "qos2-callback-without-a-release" s!"t={t}"] }
    | _ => s) ({} : C16St)
  st.vs ++ st.owed.map fun (t, _) => mk "qos2-message-released-but-not-delivered" s!"t={t}"

end Bisquitt.Spec.ClientSpec
