/-
  Frame lemmas for C01 (all runs): an MQTT PUBLISH is written to the broker only by the handler of a
  PUBLISH datagram of the client, and by it at most once.  `F1 n g g'` says that a model function keeps
  the invariant `AllNoPub` (no broker-publish exchange holds an MQTT PUBLISH as its packet to resend:
  retransmissions towards the broker are acknowledgements only) and extends the list of MQTT PUBLISH
  packets written so far by at most `n` new ones: `n = 1` for the PUBLISH handler, `n = 0` for
  everything else (every other handler, every timer, the session end).
-/
import Bisquitt.Lemmas.GwAuth

namespace Bisquitt.Gw
open Bisquitt Gw

def notPublish : MqPkt → Bool | .publish .. => false | _ => true
def bpNoPub (k : TxKind) : Prop := ∀ q st p snp n, k = .brokerPub q st (.mq p) snp n → notPublish p = true
def AllNoPub (g : Gw) : Prop := ∀ t ∈ g.txs, bpNoPub t.kind

def isMqPublish (o : Nat × Out) : Bool := match o.2 with | .mq (.publish ..) => true | _ => false
/-- the MQTT PUBLISH packets written so far (newest first) -/
def mqPublishes (g : Gw) : List (Nat × Out) := g.outs.filter isMqPublish

structure F1 (n : Nat) (g g' : Gw) : Prop where
  keep : AllNoPub g → AllNoPub g' ∧ ∃ new, mqPublishes g' = new ++ mqPublishes g ∧ new.length ≤ n

theorem F1.inv {n : Nat} {g g' : Gw} (h : F1 n g g') (hA : AllNoPub g) : AllNoPub g' := (h.keep hA).1
theorem F1.refl (g : Gw) : F1 0 g g := ⟨fun h => ⟨h, [], rfl, Nat.le_refl _⟩⟩
theorem F1.comp {m n : Nat} {a b c : Gw} (h1 : F1 m a b) (h2 : F1 n b c) : F1 (m + n) a c := by
  refine ⟨fun hA => ?_⟩
  obtain ⟨hb, n1, e1, l1⟩ := h1.keep hA
  obtain ⟨hc, n2, e2, l2⟩ := h2.keep hb
  exact ⟨hc, n2 ++ n1, by rw [e2, e1, List.append_assoc], by simp only [List.length_append]; omega⟩
theorem F1.mono {n m : Nat} {g g' : Gw} (h : F1 n g g') (hnm : n ≤ m) : F1 m g g' :=
  ⟨fun hA => by obtain ⟨hb, n1, e1, l1⟩ := h.keep hA; exact ⟨hb, n1, e1, Nat.le_trans l1 hnm⟩⟩
theorem F1.trans {a b c : Gw} (h1 : F1 0 a b) (h2 : F1 0 b c) : F1 0 a c := h1.comp h2
theorem F1.before {n : Nat} {a b c : Gw} (h1 : F1 0 a b) (h2 : F1 n b c) : F1 n a c := (h1.comp h2).mono (by omega)
theorem F1.after {n : Nat} {a b c : Gw} (h1 : F1 n a b) (h2 : F1 0 b c) : F1 n a c := h1.comp h2
/-- with budget 0 the list of MQTT PUBLISH packets is unchanged -/
theorem F1.same {g g' : Gw} (h : F1 0 g g') (hA : AllNoPub g) : mqPublishes g' = mqPublishes g := by
  obtain ⟨_, n1, e1, l1⟩ := h.keep hA
  have : n1 = [] := List.eq_nil_of_length_eq_zero (Nat.le_zero.mp l1)
  rw [e1, this]; rfl

theorem F1.of_eq {g g' : Gw} (ho : g'.outs = g.outs) (ht : g'.txs = g.txs) : F1 0 g g' :=
  ⟨fun h => ⟨by unfold AllNoPub; rw [ht]; exact h, [], by unfold mqPublishes; rw [ho]; rfl, Nat.le_refl _⟩⟩

theorem F1.emit (g : Gw) (o : Out) (h : isMqPublish (g.now, o) = false) : F1 0 g (g.emit o) :=
  ⟨fun hA => ⟨hA, [], by unfold mqPublishes Gw.emit; simp [h], Nat.le_refl _⟩⟩
/-- any single output adds at most one MQTT PUBLISH -/
theorem F1.emit1 (g : Gw) (o : Out) : F1 1 g (g.emit o) :=
  ⟨fun hA => ⟨hA, [(g.now, o)].filter isMqPublish, by
    unfold mqPublishes Gw.emit; simp only [List.filter_cons, List.filter_nil]; split <;> rfl, by
    simp only [List.filter_cons, List.filter_nil]; split <;> simp⟩⟩
theorem F1.snSend (g : Gw) (p : Pkt) (tx : Option Nat) : F1 0 g (g.snSend p tx) := by
  unfold Gw.snSend
  split
  · exact F1.of_eq rfl rfl
  · exact F1.emit g _ rfl
theorem F1.snSendNow (g : Gw) (p : Pkt) : F1 0 g (g.snSendNow p) := F1.emit g _ rfl
theorem F1.mqttSend (g : Gw) (p : MqPkt) (h : notPublish p = true) : F1 0 g (g.mqttSend p) := by
  unfold Gw.mqttSend
  refine F1.emit g _ ?_
  cases p <;> simp_all [isMqPublish, notPublish]
theorem F1.mqttSend1 (g : Gw) (p : MqPkt) : F1 1 g (g.mqttSend p) := F1.emit1 g _

theorem np_bp (q : UInt8) (st : BpSt) (d : BpData) (snp : Option Pkt) (n : Nat)
    (hd : ∀ p, d = .mq p → notPublish p = true) : bpNoPub (.brokerPub q st d snp n) := by
  intro q' st' p snp' n' hk
  have hdp : d = .mq p := by injection hk
  exact hd p hdp
theorem np_other {k : TxKind} (h : ∀ q st d snp n, k ≠ .brokerPub q st d snp n) : bpNoPub k :=
  fun q st p snp n e => absurd e (h q st (.mq p) snp n)
theorem np_subscribe (tid : UInt16) : bpNoPub (.subscribe tid) := np_other (fun _ _ _ _ _ e => by cases e)
theorem np_clientPub1 (tid : UInt16) : bpNoPub (.clientPub1 tid) := np_other (fun _ _ _ _ _ e => by cases e)
theorem np_connect (st : ConnSt) (f : ConnFields) : bpNoPub (.connect st f) := np_other (fun _ _ _ _ _ e => by cases e)

theorem F1.setTx (g : Gw) (t : Tx) (h : AllNoPub g → bpNoPub t.kind) : F1 0 g (g.setTx t) := by
  refine ⟨fun hA => ⟨?_, [], rfl, Nat.le_refl _⟩⟩
  intro x hx
  unfold Gw.setTx at hx
  simp only [List.mem_map] at hx
  obtain ⟨y, hy, rfl⟩ := hx
  split
  · exact h hA
  · exact hA y hy

theorem F1.runFinally (g : Gw) (t : Tx) : F1 0 g (g.runFinally t) := by
  unfold Gw.runFinally
  split
  · split <;> exact F1.of_eq rfl rfl
  · split <;> exact F1.of_eq rfl rfl
  · exact F1.of_eq rfl rfl

theorem F1.finishTx (g : Gw) (id : Nat) : F1 0 g (g.finishTx id) := by
  unfold Gw.finishTx
  split
  · rename_i t ht
    split
    · exact F1.refl g
    · exact F1.trans
        (F1.setTx g { t with done := true, timer := none } (fun hA => hA t (getTx_mem' ht)))
        (F1.runFinally _ t)
  · exact F1.refl g

theorem F1.fail (g : Gw) (c : EndCls) : F1 0 g (g.fail c) := by
  unfold Gw.fail; split <;> exact F1.of_eq rfl rfl

theorem F1.newTx (g : Gw) (k : TxKind) (key : TxKey) (tm : Option Nat) (h : bpNoPub k) : F1 0 g (g.newTx k key tm).2 := by
  refine ⟨fun hA => ⟨?_, [], rfl, Nat.le_refl _⟩⟩
  intro x hx
  unfold Gw.newTx at hx
  simp only [List.mem_append, List.mem_singleton] at hx
  rcases hx with hx | rfl
  · exact hA x hx
  · exact h

theorem F1.storeById (g : Gw) (m : UInt16) (id : Nat) : F1 0 g (g.storeById m id) := F1.of_eq rfl rfl
theorem F1.storeByIdB (g : Gw) (m : UInt16) (id : Nat) : F1 0 g (g.storeByIdB m id) := F1.of_eq rfl rfl
theorem F1.storeRegistered (g : Gw) (id : UInt16) (n : Bytes) : F1 0 g (g.storeRegistered id n) := F1.of_eq rfl rfl
theorem F1.setConnectTx (g : Gw) (id : Nat) : F1 0 g (g.setConnectTx id) := F1.of_eq rfl rfl
theorem F1.setSt (g : Gw) (s : CState) : F1 0 g (g.setSt s) := F1.of_eq rfl rfl
theorem F1.setNow (g : Gw) (t : Nat) : F1 0 g (g.setNow t) := F1.of_eq rfl rfl
theorem F1.clearBuffer (g : Gw) : F1 0 g g.clearBuffer := F1.of_eq rfl rfl
theorem F1.cancelSleepPinger (g : Gw) : F1 0 g g.cancelSleepPinger := F1.of_eq rfl rfl
theorem F1.startSleepPinger (g : Gw) (d : UInt16) : F1 0 g (g.startSleepPinger d) := F1.of_eq rfl rfl
theorem F1.armSleepPinger (g : Gw) (d : UInt16) : F1 0 g (g.armSleepPinger d) := by
  unfold Gw.armSleepPinger
  split
  · exact F1.cancelSleepPinger g
  · exact (F1.cancelSleepPinger g).trans (F1.startSleepPinger _ _)
theorem F1.pingBroker (g : Gw) : F1 0 g g.pingBroker := by
  unfold Gw.pingBroker
  have h0 : F1 0 g ({ g with ownPings := g.ownPings + 1 } : Gw) := F1.of_eq rfl rfl
  exact h0.trans (F1.mqttSend _ _ rfl)
theorem F1.keepBrokerAlive (g : Gw) : F1 0 g g.keepBrokerAlive := by
  unfold Gw.keepBrokerAlive
  split
  · exact F1.refl g
  · split
    · split
      · exact F1.refl g
      · exact F1.pingBroker g
    · exact F1.pingBroker g

theorem F1.newTopicId (g : Gw) : F1 0 g g.newTopicId.2 := by
  refine F1.of_eq (newTopicId_outs g) ?_
  · unfold Gw.newTopicId
    split
    · rfl
    · simp only
      split
      · rfl
      · split <;> rfl
theorem F1.newTopicId' {g g' : Gw} {r : Option UInt16} (h : g.newTopicId = (r, g')) : F1 0 g g' := by
  have : g' = g.newTopicId.2 := by rw [h]
  rw [this]; exact F1.newTopicId g
theorem F1.registrationTopicId' {g g' : Gw} {topic : Bytes} {r : Option UInt16} (h : g.registrationTopicId topic = (r, g')) :
    F1 0 g g' := by
  have : g' = (g.registrationTopicId topic).2 := by rw [h]
  rw [this]
  rcases registrationTopicId_proj g topic with h | h | ⟨id, h⟩ <;> rw [h]
  · exact F1.refl g
  · exact F1.newTopicId g
  · exact F1.trans (F1.newTopicId g) (F1.of_eq rfl rfl)

theorem F1.armBp (g : Gw) (t : Tx) (q : UInt8) (s : BpSt) (d : BpData) (snp : Option Pkt)
    (hd : ∀ p, d = .mq p → notPublish p = true) : F1 0 g (g.armBp t q s d snp) := by
  unfold Gw.armBp
  split
  · exact F1.refl g
  · exact F1.setTx g _ (fun _ => np_bp _ _ _ _ _ hd)
theorem F1.finishIfDone (g : Gw) (id : Nat) (s : BpSt) : F1 0 g (g.finishIfDone id s) := by
  unfold Gw.finishIfDone; split
  · exact F1.finishTx g id
  · exact F1.refl g
theorem F1.proceedSN (g : Gw) (id : Nat) (s : BpSt) (p : Pkt) : F1 0 g (g.proceedSN id s p) := by
  unfold Gw.proceedSN
  split
  · split
    · exact ((F1.armBp g _ _ _ _ _ (fun _ e => by cases e)).trans (F1.snSend _ _ _)).trans (F1.finishIfDone _ _ _)
    · exact F1.refl g
  · exact F1.refl g
theorem F1.proceedMQ (g : Gw) (id : Nat) (s : BpSt) (p : MqPkt) (h : notPublish p = true) : F1 0 g (g.proceedMQ id s p) := by
  unfold Gw.proceedMQ
  split
  · split
    · exact ((F1.armBp g _ _ _ _ _ (fun _ e => by cases e; exact h)).trans (F1.mqttSend _ _ h)).trans (F1.finishIfDone _ _ _)
    · exact F1.refl g
  · exact F1.refl g

theorem F1.storeClientPub1 (g : Gw) (q : UInt8) (tid mid : UInt16) : F1 0 g (g.storeClientPub1 q tid mid) := by
  unfold Gw.storeClientPub1
  split
  · exact (F1.newTx g _ _ _ (np_clientPub1 _)).trans (F1.storeById _ _ _)
  · exact F1.refl g
theorem F1.handleClientPublish (g : Gw) (dup : Bool) (q : UInt8) (r : Bool) (tit : UInt8) (tid mid : UInt16) (d : Bytes) :
    F1 1 g (g.handleClientPublish dup q r tit tid mid d) := by
  unfold Gw.handleClientPublish
  split
  · exact (F1.fail g _).mono (Nat.zero_le 1)
  · exact (F1.fail g _).mono (Nat.zero_le 1)
  · split
    · exact (F1.fail g _).mono (Nat.zero_le 1)
    · exact (F1.storeClientPub1 g _ _ _).before (F1.mqttSend1 _ _)
theorem F1.forwardSubscribe (g : Gw) (dup : Bool) (q : UInt8) (mid : UInt16) (tp : Bytes) (tid : UInt16) :
    F1 0 g (g.forwardSubscribe dup q mid tp tid) := by
  unfold Gw.forwardSubscribe
  split
  · exact F1.fail g _
  · exact ((F1.newTx g _ _ _ (np_subscribe _)).trans (F1.storeById _ _ _)).trans (F1.mqttSend _ _ rfl)
theorem F1.handleSubscribe (g : Gw) (dup : Bool) (q tit : UInt8) (mid tid : UInt16) (n : Bytes) :
    F1 0 g (g.handleSubscribe dup q tit mid tid n) := by
  unfold Gw.handleSubscribe
  split
  · exact F1.snSend g _ _
  · split
    · split
      · split
        · exact F1.forwardSubscribe g _ _ _ _ _
        · split
          · rename_i hn
            exact ((F1.newTopicId' hn).trans (F1.storeRegistered _ _ _)).trans (F1.forwardSubscribe _ _ _ _ _ _)
          · rename_i hn
            exact (F1.newTopicId' hn).trans (F1.snSend _ _ _)
      · exact F1.forwardSubscribe g _ _ _ _ _
    · split
      · split
        · exact F1.forwardSubscribe g _ _ _ _ _
        · exact F1.fail g _
      · split <;> exact F1.forwardSubscribe g _ _ _ _ _
theorem F1.forwardUnsubscribe (g : Gw) (mid : UInt16) (tp : Bytes) : F1 0 g (g.forwardUnsubscribe mid tp) := by
  unfold Gw.forwardUnsubscribe
  split
  · exact F1.fail g _
  · exact F1.mqttSend g _ rfl
theorem F1.handleUnsubscribe (g : Gw) (tit : UInt8) (mid tid : UInt16) (n : Bytes) : F1 0 g (g.handleUnsubscribe tit mid tid n) := by
  unfold Gw.handleUnsubscribe
  split
  · exact F1.forwardUnsubscribe g _ _
  · split
    · split
      · exact F1.forwardUnsubscribe g _ _
      · exact F1.fail g _
    · split <;> exact F1.forwardUnsubscribe g _ _
theorem F1.handleRegister (g : Gw) (mid : UInt16) (n : Bytes) : F1 0 g (g.handleRegister mid n) := by
  unfold Gw.handleRegister
  split
  · exact F1.snSend g _ _
  · split
    · exact F1.snSend g _ _
    · split
      · rename_i hn
        exact ((F1.newTopicId' hn).trans (F1.storeRegistered _ _ _)).trans (F1.snSend _ _ _)
      · rename_i hn
        exact (F1.newTopicId' hn).trans (F1.snSend _ _ _)
theorem F1.bpRegack (g : Gw) (t : Tx) (q : UInt8) (s : BpSt) (d : BpData) (snp : Option Pkt) (rc : UInt8) :
    F1 0 g (g.bpRegack t q s d snp rc) := by
  unfold Gw.bpRegack
  split
  · exact F1.refl g
  · split
    · exact F1.finishTx g _
    · split
      · exact (F1.storeRegistered g _ _).trans (F1.proceedSN _ _ _ _)
      · exact F1.refl g
theorem F1.startBrokerPub (g : Gw) (q : UInt8) (m : UInt16) (s0 : BpSt) (snp : Option Pkt) (s : BpSt) (p : Pkt) :
    F1 0 g (g.startBrokerPub q m s0 snp s p) := by
  unfold Gw.startBrokerPub
  exact ((F1.newTx g _ _ _ (np_bp _ _ _ _ _ (fun _ e => by cases e))).trans (F1.storeByIdB _ _ _)).trans (F1.proceedSN _ _ _ _)
theorem F1.handleBrokerPublish (g : Gw) (dup : Bool) (q : UInt8) (r : Bool) (mid : UInt16) (tp pl : Bytes) :
    F1 0 g (g.handleBrokerPublish dup q r mid tp pl) := by
  unfold Gw.handleBrokerPublish
  split
  · exact F1.refl g
  · split
    · exact F1.refl g
    · split
      · split
        · exact F1.snSend g _ _
        · split
          · exact F1.fail g _
          · exact F1.startBrokerPub g _ _ _ _ _ _
      · split
        · exact F1.fail g _
        · split
          · exact F1.fail g _
          · split
            · rename_i hn; exact (F1.registrationTopicId' hn).trans (F1.fail _ _)
            · rename_i hn; exact (F1.registrationTopicId' hn).trans (F1.startBrokerPub _ _ _ _ _ _ _)


/-! ### the connect exchange, timers -/

theorem toPkt_notPublish (f : ConnFields) : notPublish f.toPkt = true := by
  unfold ConnFields.toPkt; rfl

theorem F1.connAuthenticated (g : Gw) (t : Tx) (f : ConnFields) : F1 0 g (g.connAuthenticated t f) := by
  unfold Gw.connAuthenticated
  split
  · exact (F1.setTx g _ (fun _ => np_connect _ _)).trans (F1.snSend _ _ _)
  · exact (F1.setTx g _ (fun _ => np_connect _ _)).trans (F1.mqttSend _ _ (toPkt_notPublish f))

theorem F1.sendConnack (g : Gw) (rc : UInt8) : F1 0 g (g.sendConnack rc) := F1.snSend g _ _

theorem F1.connAuth (g : Gw) (t : Tx) (st : ConnSt) (f : ConnFields) (m d : Bytes) : F1 0 g (g.connAuth t st f m d) := by
  unfold Gw.connAuth
  split
  · exact F1.refl g
  · split
    · split
      · exact (F1.finishTx g _).trans (F1.fail _ _)
      · exact F1.connAuthenticated g t _
    · exact ((F1.sendConnack g _).trans (F1.finishTx _ _)).trans (F1.fail _ _)

theorem F1.connWillTopic (g : Gw) (t : Tx) (st : ConnSt) (f : ConnFields) (q : UInt8) (r : Bool) (tp : Bytes) :
    F1 0 g (g.connWillTopic t st f q r tp) := by
  unfold Gw.connWillTopic
  split
  · exact F1.refl g
  · split
    · exact (F1.finishTx g _).trans (F1.fail _ _)
    · exact (F1.setTx g _ (fun _ => np_connect _ _)).trans (F1.snSend _ _ _)

theorem F1.connWillMsg (g : Gw) (t : Tx) (st : ConnSt) (f : ConnFields) (m : Bytes) : F1 0 g (g.connWillMsg t st f m) := by
  unfold Gw.connWillMsg
  split
  · exact F1.refl g
  · exact (F1.setTx g _ (fun _ => np_connect _ _)).trans (F1.mqttSend _ _ (toPkt_notPublish _))

theorem F1.connConnack (g : Gw) (t : Tx) (st : ConnSt) (rc : UInt8) : F1 0 g (g.connConnack t st rc) := by
  unfold Gw.connConnack
  split
  · exact F1.refl g
  · split
    · exact ((F1.sendConnack g _).trans (F1.finishTx _ _)).trans (F1.fail _ _)
    · have h0 : F1 0 g ({ g with st := .active } : Gw) := F1.of_eq rfl rfl
      exact (h0.trans (F1.sendConnack _ _)).trans (F1.finishTx _ _)

theorem F1.cancelOldConnect (g : Gw) : F1 0 g g.cancelOldConnect := by
  unfold Gw.cancelOldConnect
  split
  · exact F1.finishTx g _
  · exact F1.refl g

theorem F1.startConnect (g : Gw) (f : ConnFields) : F1 0 g (g.startConnect f) := by
  unfold Gw.startConnect
  have h1 : F1 0 g (g.newTx (.connect .awaitingAuth f) .connectType (some (g.now + Gen.connectTransactionTimeout))).2 :=
    F1.newTx g _ _ _ (np_connect _ _)
  refine (h1.trans (F1.setConnectTx _ g.nextTx)).trans ?_
  unfold Gw.startConnectTx
  split
  · exact F1.refl _
  · split
    · exact F1.connAuthenticated _ _ _
    · exact F1.refl _

theorem foldl_snSend_F1 (its : List BufItem) : ∀ g : Gw, F1 0 g (its.foldl (fun acc it => acc.snSend it.pkt it.tx) g) := by
  induction its with
  | nil => intro g; exact F1.refl g
  | cons x xs ih => intro g; simp only [List.foldl_cons]; exact (F1.snSend g _ _).trans (ih _)

theorem F1.flushBuffer (g : Gw) : F1 0 g g.flushBuffer := by
  unfold Gw.flushBuffer
  simp only
  have h0 : F1 0 g ({ g with buffer := [] } : Gw) := F1.of_eq rfl rfl
  have h1 := h0.trans (foldl_snSend_F1 g.buffer _)
  exact h1.trans (F1.of_eq rfl rfl)

theorem F1.handleConnect (g : Gw) (will clean : Bool) (dur : UInt16) (cid : Bytes) :
    F1 0 g (g.handleConnect will clean dur cid) := by
  unfold Gw.handleConnect
  split
  · have h0 : F1 0 g ({ g.cancelSleepPinger with st := .active } : Gw) := F1.of_eq rfl rfl
    exact (h0.trans (F1.snSend _ _ _)).trans (F1.flushBuffer _)
  · split
    · exact F1.snSend g _ _
    · have h0 : F1 0 g ({ g with keepAlive := dur, clientId := cid } : Gw) := F1.of_eq rfl rfl
      exact (h0.trans (F1.cancelOldConnect _)).trans (F1.startConnect _ _)

theorem F1.handlePingreq (g : Gw) : F1 0 g g.handlePingreq := by
  unfold Gw.handlePingreq
  split
  · exact ((((F1.setSt g _).trans (F1.flushBuffer _)).trans (F1.snSend _ _ _)).trans (F1.setSt _ _)).trans (F1.armSleepPinger _ _)
  · exact F1.mqttSend g _ rfl

theorem F1.handleSleep (g : Gw) (d : UInt16) : F1 0 g (g.handleSleep d) := by
  unfold Gw.handleSleep
  have h0 : F1 0 g ({ g with sleepDur := d } : Gw) := F1.of_eq rfl rfl
  have h1 : F1 0 g (({ g with sleepDur := d } : Gw).armSleepPinger d) := h0.trans (F1.armSleepPinger _ _)
  have h2 : ∀ x : Gw, F1 0 x x.clearBufferUnlessAsleep := by
    intro x; unfold Gw.clearBufferUnlessAsleep; split
    · exact F1.clearBuffer x
    · exact F1.refl x
  exact ((h1.trans (h2 _)).trans (F1.snSendNow _ _)).trans (F1.setSt _ _)

theorem F1.handlePlainDisconnect (g : Gw) : F1 0 g g.handlePlainDisconnect := by
  unfold Gw.handlePlainDisconnect
  exact (((F1.mqttSend g _ rfl).trans (F1.setSt _ _)).trans (F1.snSend _ _ _)).trans (F1.fail _ _)

theorem F1.handleDisconnect (g : Gw) (d : UInt16) : F1 0 g (g.handleDisconnect d) := by
  unfold Gw.handleDisconnect
  split
  · exact F1.handlePlainDisconnect g
  · exact F1.handleSleep g d

theorem F1.retryExpire (g : Gw) (t : Tx) (ht : t ∈ g.txs) : F1 0 g (g.retryExpire t) := by
  have keepT : ∀ (tm : Option Nat), F1 0 g (g.setTx { t with timer := tm }) := fun tm => F1.setTx g _ (fun hA => hA t ht)
  unfold Gw.retryExpire
  split
  · rename_i q st data snp n hk0
    split
    · exact keepT none
    · split
      · exact keepT _
      · split
        · exact F1.finishTx g _
        · split
          · rename_i p _
            have h1 : F1 0 g ({ g with buffer := g.buffer.map (fun (b : BufItem) =>
                if b.tx == some t.id && b.pkt == p then { b with pkt := setDup p } else b) } : Gw) := F1.of_eq rfl rfl
            exact (h1.trans (F1.setTx _ _ (fun _ => np_bp _ _ _ _ _ (fun _ e => by cases e)))).trans (F1.snSend _ _ _)
          · rename_i p _
            refine ⟨fun hA => ?_⟩
            have hp : notPublish p = true := hA t ht q st p snp n hk0
            have h2 := (F1.setTx g { t with kind := .brokerPub q st (.mq p) snp (n + 1), timer := some (g.now + g.cfg.retryDelay) }
              (fun _ => np_bp _ _ _ _ _ (fun p' e => by cases e; exact hp))).trans (F1.mqttSend _ p hp)
            exact h2.keep hA
          · exact F1.finishTx g _
  · exact F1.refl g

theorem F1.txExpire (g : Gw) (t : Tx) (ht : t ∈ g.txs) : F1 0 g (g.txExpire t) := by
  have keepT : ∀ (tm : Option Nat), F1 0 g (g.setTx { t with timer := tm }) := fun tm => F1.setTx g _ (fun hA => hA t ht)
  unfold Gw.txExpire
  split
  · split
    · exact keepT none
    · exact (F1.finishTx g _).trans (F1.fail _ _)
  · split
    · exact keepT none
    · exact F1.finishTx g _
  · split
    · exact keepT none
    · exact F1.finishTx g _
  · exact F1.retryExpire g t ht

theorem F1.firePing (g : Gw) (i : Nat) : F1 0 g (g.firePing i) := by
  unfold Gw.firePing
  have h0 : F1 0 g ({ g with pingers := g.pingers.mapIdx (fun j (p : Pinger) =>
      if j = i then { p with next := p.next + p.period } else p) } : Gw) := F1.of_eq rfl rfl
  exact h0.trans (F1.pingBroker _)

theorem F1.fireDue (g : Gw) (d : Due) : F1 0 g (g.fireDue d) := by
  unfold Gw.fireDue
  split
  · unfold Gw.fireTx
    split
    · rename_i t ht
      exact (F1.setNow g _).trans (F1.txExpire _ t (getTx_mem' ht))
    · exact F1.setNow g _
  · exact (F1.setNow g _).trans (F1.firePing _ _)
  · exact F1.of_eq rfl rfl

end Bisquitt.Gw
