/-
  Helper lemmas for C22: whenever an `Unpack` of the model succeeds, its result is the
  positional reading `Spec.refFields` of the same body.
-/
import Bisquitt.Lemmas.WireTotal
import Bisquitt.Spec.Codec

namespace Bisquitt
open Gen Spec

theorem b8_eq {buf : Bytes} {i : Nat} (h : i < buf.length) : b8 buf i = buf[i] := by
  simp [b8, h]

set_option hygiene false in
/-- one step on the hypothesis `hu : unpackX buf = .ok p` -/
macro "hu_step" : tactic => `(tactic| first
  | (simp only [reduceCtorEq] at hu; done)
  | (simp (discharger := omega) only [getB_ok, get16_ok, sliceFrom_ok, slice_ok, Res.ok_bind,
      Res.pure_eq, Res.ok.injEq] at hu)
  | (split at hu <;> (try gen_norm)))

set_option hygiene false in
macro "ref_close" : tactic => `(tactic| (
  subst hu
  unfold refFields
  (try gen_norm)
  first | done | simp (discharger := omega) [b16, b8_eq, flagSet, hasBit, flagQos, qosOf, *]))

set_option hygiene false in
macro "ref_ok" : tactic => `(tactic| (
  repeat' hu_step
  all_goals (try ref_close)))

theorem refAdvertise {buf p} (hu : unpackAdvertise buf = .ok p) : refFields tADVERTISE buf = some p := by
  unfold unpackAdvertise at hu; ref_ok
theorem refSearchGw {buf p} (hu : unpackSearchGw buf = .ok p) : refFields tSEARCHGW buf = some p := by
  unfold unpackSearchGw at hu; ref_ok
theorem refGwInfo {buf p} (hu : unpackGwInfo buf = .ok p) : refFields tGWINFO buf = some p := by
  unfold unpackGwInfo at hu; ref_ok
theorem refAuth {buf p} (hu : unpackAuth buf = .ok p) : refFields tAUTH buf = some p := by
  unfold unpackAuth at hu; ref_ok
theorem refConnect {buf p} (hu : unpackConnect buf = .ok p) : refFields tCONNECT buf = some p := by
  unfold unpackConnect at hu; ref_ok
theorem refConnack {buf p} (hu : unpackConnack buf = .ok p) : refFields tCONNACK buf = some p := by
  unfold unpackConnack at hu; ref_ok
theorem refWillTopicReq {buf p} (hu : unpackWillTopicReq buf = .ok p) : refFields tWILLTOPICREQ buf = some p := by
  unfold unpackWillTopicReq at hu; ref_ok
theorem refWillMsgReq {buf p} (hu : unpackWillMsgReq buf = .ok p) : refFields tWILLMSGREQ buf = some p := by
  unfold unpackWillMsgReq at hu; ref_ok
theorem refWillMsg {buf p} (hu : unpackWillMsg buf = .ok p) : refFields tWILLMSG buf = some p := by
  unfold unpackWillMsg at hu; ref_ok
theorem refRegister {buf p} (hu : unpackRegister buf = .ok p) : refFields tREGISTER buf = some p := by
  unfold unpackRegister at hu; ref_ok
theorem refRegack {buf p} (hu : unpackRegack buf = .ok p) : refFields tREGACK buf = some p := by
  unfold unpackRegack at hu; ref_ok
theorem refPublish {buf p} (hu : unpackPublish buf = .ok p) : refFields tPUBLISH buf = some p := by
  unfold unpackPublish at hu; ref_ok
theorem refPuback {buf p} (hu : unpackPuback buf = .ok p) : refFields tPUBACK buf = some p := by
  unfold unpackPuback at hu; ref_ok
theorem refPubcomp {buf p} (hu : unpackMsgIdOnly .pubcomp pubcompVarPartLength buf = .ok p) :
    refFields tPUBCOMP buf = some p := by
  unfold unpackMsgIdOnly at hu; ref_ok
theorem refPubrec {buf p} (hu : unpackMsgIdOnly .pubrec pubrecVarPartLength buf = .ok p) :
    refFields tPUBREC buf = some p := by
  unfold unpackMsgIdOnly at hu; ref_ok
theorem refPubrel {buf p} (hu : unpackMsgIdOnly .pubrel pubrelVarPartLength buf = .ok p) :
    refFields tPUBREL buf = some p := by
  unfold unpackMsgIdOnly at hu; ref_ok
theorem refSubscribe {buf p} (hu : unpackSubscribe buf = .ok p) : refFields tSUBSCRIBE buf = some p := by
  unfold unpackSubscribe at hu; ref_ok
theorem refSuback {buf p} (hu : unpackSuback buf = .ok p) : refFields tSUBACK buf = some p := by
  unfold unpackSuback at hu; ref_ok
theorem refUnsubscribe {buf p} (hu : unpackUnsubscribe buf = .ok p) : refFields tUNSUBSCRIBE buf = some p := by
  unfold unpackUnsubscribe at hu; ref_ok
theorem refUnsuback {buf p} (hu : unpackMsgIdOnly .unsuback unsubackVarPartLength buf = .ok p) :
    refFields tUNSUBACK buf = some p := by
  unfold unpackMsgIdOnly at hu; ref_ok
theorem refPingreq {buf p} (hu : unpackPingreq buf = .ok p) : refFields tPINGREQ buf = some p := by
  unfold unpackPingreq at hu; ref_ok
theorem refPingresp {buf p} (hu : unpackPingresp buf = .ok p) : refFields tPINGRESP buf = some p := by
  unfold unpackPingresp at hu; ref_ok
theorem refDisconnect {buf p} (hu : unpackDisconnect buf = .ok p) : refFields tDISCONNECT buf = some p := by
  unfold unpackDisconnect at hu; ref_ok
  rename_i h
  have : buf = [] := List.length_eq_zero_iff.mp h
  subst this; decide
theorem refWillTopicResp {buf p} (hu : unpackRcOnly .willtopicresp willTopicRespVarPartLength buf = .ok p) :
    refFields tWILLTOPICRESP buf = some p := by
  unfold unpackRcOnly at hu; ref_ok
theorem refWillMsgUpd {buf p} (hu : unpackWillMsgUpd buf = .ok p) : refFields tWILLMSGUPD buf = some p := by
  unfold unpackWillMsgUpd at hu; ref_ok
theorem refWillMsgResp {buf p} (hu : unpackRcOnly .willmsgresp willMsgRespVarPartLength buf = .ok p) :
    refFields tWILLMSGRESP buf = some p := by
  unfold unpackRcOnly at hu; ref_ok

theorem refWillTopicLike {c : UInt8} {mk : UInt8 → Bool → Bytes → Pkt} {buf p}
    (hc : ∀ b, refFields c b = some (mk (flagQos (b8 b 0)) (flagSet (b8 b 0) 0x10) (b.drop 1)))
    (hu : unpackWillTopicLike mk buf = .ok p) : refFields c buf = some p := by
  unfold unpackWillTopicLike at hu
  split at hu
  · rename_i h
    have : buf = [] := List.length_eq_zero_iff.mp h
    subst this
    simp only [Res.pure_eq, Res.ok.injEq] at hu
    subst hu
    rw [hc]; rfl
  · simp at hu
  · rename_i h0 h1
    have h0' : buf.length ≠ 0 := h0
    have h1' : buf.length ≠ 1 := h1
    simp (discharger := omega) only [getB_ok, sliceFrom_ok, Res.ok_bind, Res.pure_eq, Res.ok.injEq] at hu
    subst hu
    rw [hc]
    simp (discharger := omega) [b8_eq, flagSet, hasBit, flagQos, qosOf]

theorem refWillTopic {buf p} (hu : unpackWillTopicLike .willtopic buf = .ok p) :
    refFields tWILLTOPIC buf = some p := refWillTopicLike (fun _ => rfl) hu
theorem refWillTopicUpd {buf p} (hu : unpackWillTopicLike .willtopicupd buf = .ok p) :
    refFields tWILLTOPICUPD buf = some p := refWillTopicLike (fun _ => rfl) hu

end Bisquitt
