/-
  Frame lemmas: which model functions leave the client state (`st`) alone.
-/
import Bisquitt.Lemmas.GwRegId

namespace Bisquitt.Gw
open Bisquitt Gw

@[simp] theorem emit_st (g : Gw) (o : Out) : (g.emit o).st = g.st := rfl
@[simp] theorem setTx_st (g : Gw) (t : Tx) : (g.setTx t).st = g.st := rfl
@[simp] theorem runFinally_st (g : Gw) (t : Tx) : (g.runFinally t).st = g.st := by
  unfold runFinally; split <;> (try split) <;> rfl
@[simp] theorem finishTx_st (g : Gw) (id : Nat) : (g.finishTx id).st = g.st := by
  unfold finishTx; split <;> (try split) <;> simp
@[simp] theorem fail_st (g : Gw) (c : EndCls) : (g.fail c).st = g.st := by
  unfold fail; split <;> rfl
@[simp] theorem snSend_st (g : Gw) (p : Pkt) (tx : Option Nat) : (g.snSend p tx).st = g.st := by
  unfold snSend; split <;> rfl
@[simp] theorem mqttSend_st (g : Gw) (p : MqPkt) : (g.mqttSend p).st = g.st := rfl
@[simp] theorem newTx_st (g : Gw) (k : TxKind) (key : TxKey) (tm : Option Nat) : (g.newTx k key tm).2.st = g.st := rfl
@[simp] theorem storeByIdB_st (g : Gw) (m : UInt16) (id : Nat) : (g.storeByIdB m id).st = g.st := rfl
@[simp] theorem storeById_st (g : Gw) (m : UInt16) (id : Nat) : (g.storeById m id).st = g.st := rfl
@[simp] theorem storeRegistered_st (g : Gw) (id : UInt16) (n : Bytes) : (g.storeRegistered id n).st = g.st := rfl
@[simp] theorem setConnectTx_st (g : Gw) (id : Nat) : (g.setConnectTx id).st = g.st := rfl
@[simp] theorem setNow_st (g : Gw) (t : Nat) : (g.setNow t).st = g.st := rfl
@[simp] theorem setSt_st (g : Gw) (s : CState) : (g.setSt s).st = s := rfl
@[simp] theorem clearBuffer_st (g : Gw) : g.clearBuffer.st = g.st := rfl
@[simp] theorem snSendNow_st (g : Gw) (p : Pkt) : (g.snSendNow p).st = g.st := rfl
@[simp] theorem clearBufferUnlessAsleep_st (g : Gw) : g.clearBufferUnlessAsleep.st = g.st := by
  unfold clearBufferUnlessAsleep; split <;> rfl
@[simp] theorem startSleepPinger_st (g : Gw) (d : UInt16) : (g.startSleepPinger d).st = g.st := rfl
@[simp] theorem armSleepPinger_st (g : Gw) (d : UInt16) : (g.armSleepPinger d).st = g.st := by
  unfold armSleepPinger; split <;> rfl
@[simp] theorem pingBroker_st (g : Gw) : g.pingBroker.st = g.st := rfl
@[simp] theorem keepBrokerAlive_st (g : Gw) : g.keepBrokerAlive.st = g.st := by
  unfold keepBrokerAlive; split
  · rfl
  · split
    · split <;> rfl
    · rfl
@[simp] theorem newTopicId_st (g : Gw) : g.newTopicId.2.st = g.st := by
  unfold newTopicId
  split
  · rfl
  · simp only
    split
    · rfl
    · split <;> rfl

theorem newTopicId_st' {g g' : Gw} {r : Option UInt16} (h : g.newTopicId = (r, g')) : g'.st = g.st := by
  have : g' = g.newTopicId.2 := by rw [h]
  rw [this]; exact newTopicId_st g

theorem registrationTopicId_st' {g g' : Gw} {topic : Bytes} {r : Option UInt16} (h : g.registrationTopicId topic = (r, g')) :
    g'.st = g.st := by
  have : g' = (g.registrationTopicId topic).2 := by rw [h]
  rw [this]
  rcases registrationTopicId_proj g topic with h | h | ⟨id, h⟩ <;> rw [h]
  · exact newTopicId_st g
  · exact newTopicId_st g

theorem foldl_snSend_st (its : List BufItem) : ∀ g : Gw,
    (its.foldl (fun acc it => acc.snSend it.pkt it.tx) g).st = g.st := by
  induction its with
  | nil => intro g; rfl
  | cons it rest ih => intro g; simp only [List.foldl_cons]; rw [ih]; simp

@[simp] theorem flushBuffer_st (g : Gw) : g.flushBuffer.st = g.st := by
  unfold flushBuffer
  simp only
  rw [foldl_snSend_st]

@[simp] theorem armBp_st (g : Gw) (t : Tx) (q : UInt8) (s : BpSt) (d : BpData) (snp : Option Pkt) :
    (g.armBp t q s d snp).st = g.st := by
  unfold armBp; split <;> rfl
@[simp] theorem finishIfDone_st (g : Gw) (id : Nat) (s : BpSt) : (g.finishIfDone id s).st = g.st := by
  unfold finishIfDone; split <;> simp
@[simp] theorem proceedSN_st (g : Gw) (id : Nat) (s : BpSt) (p : Pkt) : (g.proceedSN id s p).st = g.st := by
  unfold proceedSN; split <;> (try split) <;> simp
@[simp] theorem proceedMQ_st (g : Gw) (id : Nat) (s : BpSt) (p : MqPkt) : (g.proceedMQ id s p).st = g.st := by
  unfold proceedMQ; split <;> (try split) <;> simp
@[simp] theorem sendConnack_st (g : Gw) (rc : UInt8) : (g.sendConnack rc).st = g.st := by
  unfold sendConnack; simp
@[simp] theorem connAuthenticated_st (g : Gw) (t : Tx) (f : ConnFields) : (g.connAuthenticated t f).st = g.st := by
  unfold connAuthenticated; split <;> simp
@[simp] theorem cancelOldConnect_st (g : Gw) : g.cancelOldConnect.st = g.st := by
  unfold cancelOldConnect; split <;> simp
@[simp] theorem startConnectTx_st (g : Gw) (id : Nat) (f : ConnFields) : (g.startConnectTx id f).st = g.st := by
  unfold startConnectTx; split <;> (try split) <;> simp
@[simp] theorem startConnect_st (g : Gw) (f : ConnFields) : (g.startConnect f).st = g.st := by
  unfold startConnect; simp
@[simp] theorem connAuth_st (g : Gw) (t : Tx) (s : ConnSt) (f : ConnFields) (m d : Bytes) :
    (g.connAuth t s f m d).st = g.st := by
  unfold connAuth; split <;> (try split) <;> (try split) <;> simp
@[simp] theorem connWillTopic_st (g : Gw) (t : Tx) (s : ConnSt) (f : ConnFields) (q : UInt8) (r : Bool) (tp : Bytes) :
    (g.connWillTopic t s f q r tp).st = g.st := by
  unfold connWillTopic; split <;> (try split) <;> simp
@[simp] theorem connWillMsg_st (g : Gw) (t : Tx) (s : ConnSt) (f : ConnFields) (m : Bytes) :
    (g.connWillMsg t s f m).st = g.st := by
  unfold connWillMsg; split <;> simp
@[simp] theorem storeClientPub1_st (g : Gw) (q : UInt8) (tid mid : UInt16) : (g.storeClientPub1 q tid mid).st = g.st := by
  unfold storeClientPub1; split <;> simp
@[simp] theorem handleClientPublish_st (g : Gw) (dup : Bool) (q : UInt8) (r : Bool) (tit : UInt8) (tid mid : UInt16)
    (d : Bytes) : (g.handleClientPublish dup q r tit tid mid d).st = g.st := by
  unfold handleClientPublish; split <;> (try split) <;> simp
@[simp] theorem forwardSubscribe_st (g : Gw) (dup : Bool) (q : UInt8) (mid : UInt16) (tp : Bytes) (tid : UInt16) :
    (g.forwardSubscribe dup q mid tp tid).st = g.st := by
  unfold forwardSubscribe; split <;> simp
@[simp] theorem handleSubscribe_st (g : Gw) (dup : Bool) (q tit : UInt8) (mid tid : UInt16) (n : Bytes) :
    (g.handleSubscribe dup q tit mid tid n).st = g.st := by
  unfold handleSubscribe
  split
  · simp
  · split
    · split
      · split
        · simp
        · split
          · rename_i h; simp [newTopicId_st' h]
          · rename_i h; simp [newTopicId_st' h]
      · simp
    · split
      · split <;> simp
      · split <;> simp
@[simp] theorem forwardUnsubscribe_st (g : Gw) (mid : UInt16) (tp : Bytes) : (g.forwardUnsubscribe mid tp).st = g.st := by
  unfold forwardUnsubscribe; split <;> simp
@[simp] theorem handleUnsubscribe_st (g : Gw) (tit : UInt8) (mid tid : UInt16) (n : Bytes) :
    (g.handleUnsubscribe tit mid tid n).st = g.st := by
  unfold handleUnsubscribe
  split
  · simp
  · split
    · split <;> simp
    · split <;> simp
@[simp] theorem handleRegister_st (g : Gw) (mid : UInt16) (n : Bytes) : (g.handleRegister mid n).st = g.st := by
  unfold handleRegister
  split
  · simp
  · split
    · simp
    · split
      · rename_i h; simp [newTopicId_st' h]
      · rename_i h; simp [newTopicId_st' h]
@[simp] theorem bpRegack_st (g : Gw) (t : Tx) (q : UInt8) (s : BpSt) (d : BpData) (snp : Option Pkt) (rc : UInt8) :
    (g.bpRegack t q s d snp rc).st = g.st := by
  unfold bpRegack; split <;> (try split) <;> (try split) <;> simp
@[simp] theorem startBrokerPub_st (g : Gw) (q : UInt8) (m : UInt16) (s0 : BpSt) (snp : Option Pkt) (s : BpSt) (p : Pkt) :
    (g.startBrokerPub q m s0 snp s p).st = g.st := by
  unfold startBrokerPub; simp
@[simp] theorem handleBrokerPublish_st (g : Gw) (dup : Bool) (q : UInt8) (r : Bool) (mid : UInt16) (tp pl : Bytes) :
    (g.handleBrokerPublish dup q r mid tp pl).st = g.st := by
  unfold handleBrokerPublish
  split
  · rfl
  · split
    · rfl
    · split
      · split
        · simp
        · split <;> simp
      · split
        · simp
        · split
          · simp
          · split
            · rename_i h; simp [registrationTopicId_st' h]
            · rename_i h; simp [registrationTopicId_st' h]

end Bisquitt.Gw
