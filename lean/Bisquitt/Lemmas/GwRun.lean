/-
  Whole runs of the gateway model: `WF` is an invariant of every reachable state and every
  output ever produced is permitted by the emission sites.
-/
import Bisquitt.Lemmas.DecodeIn

namespace Bisquitt.Gw
open Bisquitt Gw

variable {Sn : Pkt → Prop} {Mq : MqPkt → Prop} {E : MqPkt → Prop}

theorem wf_init (cfg : Cfg) (a b : UInt16) : WF Sn Mq (Gw.init cfg a b) :=
  ⟨by simp [Gw.init], by simp [Gw.init]⟩

/-- one scripted event, any time, any state -/
theorem step_spec (S : Sites Sn Mq) (g : Gw) (t : Nat) (ev : Event) (hd : AllowsDisconnect E ev) :
    Step Sn Mq E g (g.step t ev) :=
  Step.step S g t ev (fun _ _ _ _ hdec => decode_in hdec) hd

theorem allowsDisconnect_true (ev : Event) : AllowsDisconnect (fun _ => True) ev := by
  unfold AllowsDisconnect; split <;> simp

theorem allowsDisconnect_self (ev : Event) : AllowsDisconnect (fun p => p = .disconnect) ev := by
  unfold AllowsDisconnect; split <;> simp

theorem Step.run (S : Sites Sn Mq) (hE : ∀ ev, AllowsDisconnect E ev) (evs : List (Nat × Event)) :
    ∀ g : Gw, Step Sn Mq E g (g.run evs) := by
  induction evs with
  | nil => intro g; exact Step.refl g
  | cons e rest ih =>
    intro g
    unfold Gw.run
    simp only [List.foldl_cons]
    exact Step.trans (step_spec S g e.1 e.2 (hE e.2)) (ih _)

/-- `WF` holds in every reachable state -/
theorem run_wf (S : Sites Sn Mq) (cfg : Cfg) (a b : UInt16) (evs : List (Nat × Event)) :
    WF Sn Mq ((Gw.init cfg a b).run evs) :=
  ((Step.run (E := fun _ => True) S allowsDisconnect_true evs _) (wf_init cfg a b)).2

/-- every output of every run is permitted (an MQTT DISCONNECT being the only extra) -/
theorem run_outs (S : Sites Sn Mq) (cfg : Cfg) (a b : UInt16) (evs : List (Nat × Event)) :
    ∀ x ∈ ((Gw.init cfg a b).run evs).outs, OutOk Sn Mq (fun p => p = .disconnect) x.2 := by
  obtain ⟨new, hnew, hall⟩ := ((Step.run S allowsDisconnect_self evs _) (wf_init (Sn := Sn) (Mq := Mq) cfg a b)).1
  intro x hx
  rw [hnew] at hx
  simp only [Gw.init, List.append_nil] at hx
  exact hall x hx

end Bisquitt.Gw
