/-
  `registrationTopicId` changes nothing but the ID sequence and its own name ↦ ID table.
-/
import Bisquitt.Model.Gateway

namespace Bisquitt.Gw
open Bisquitt Gw

theorem registrationTopicId_proj (g : Gw) (topic : Bytes) :
    (g.registrationTopicId topic).2 = g ∨ (g.registrationTopicId topic).2 = g.newTopicId.2 ∨
    ∃ id, (g.registrationTopicId topic).2 = g.newTopicId.2.storeRegId topic id := by
  unfold registrationTopicId
  split
  · exact .inl rfl
  · split
    · rename_i id g' h; exact .inr (.inr ⟨id, by simp [h]⟩)
    · rename_i h; exact .inr (.inl (by simp [h]))

end Bisquitt.Gw
