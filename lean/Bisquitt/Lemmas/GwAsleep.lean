/-
  Frame lemmas for C11: while the client is asleep (`st = asleep`) the model functions put no
  datagram on the wire — what they would send is queued (`snSend`); MQTT packets to the broker are
  not datagrams.  `snOuts` is the datagram part of the output log.
-/
import Bisquitt.Lemmas.GwSt
import Bisquitt.Lemmas.GwEmits

namespace Bisquitt.Gw
open Bisquitt Gw

def isSnOut (o : Nat × Out) : Bool := match o.2 with | .sn _ => true | _ => false

/-- the datagrams sent so far (newest first) -/
def snOuts (g : Gw) : List (Nat × Out) := g.outs.filter isSnOut

theorem snOuts_of_outs {g g' : Gw} (h : g'.outs = g.outs) : snOuts g' = snOuts g := by unfold snOuts; rw [h]

@[simp] theorem snOuts_emit_mq (g : Gw) (p : MqPkt) : snOuts (g.emit (.mq p)) = snOuts g := by
  unfold snOuts emit; simp [isSnOut]
@[simp] theorem snOuts_mqttSend (g : Gw) (p : MqPkt) : snOuts (g.mqttSend p) = snOuts g := by
  unfold mqttSend; simp
@[simp] theorem snOuts_setTx (g : Gw) (t : Tx) : snOuts (g.setTx t) = snOuts g := snOuts_of_outs (setTx_outs g t)
@[simp] theorem snOuts_finishTx (g : Gw) (id : Nat) : snOuts (g.finishTx id) = snOuts g := snOuts_of_outs (finishTx_outs g id)
@[simp] theorem snOuts_fail (g : Gw) (c : EndCls) : snOuts (g.fail c) = snOuts g := snOuts_of_outs (fail_outs g c)
@[simp] theorem snOuts_newTx (g : Gw) (k : TxKind) (key : TxKey) (tm : Option Nat) : snOuts (g.newTx k key tm).2 = snOuts g := rfl
@[simp] theorem snOuts_storeById (g : Gw) (m : UInt16) (id : Nat) : snOuts (g.storeById m id) = snOuts g := rfl
@[simp] theorem snOuts_storeByIdB (g : Gw) (m : UInt16) (id : Nat) : snOuts (g.storeByIdB m id) = snOuts g := rfl
@[simp] theorem snOuts_storeRegistered (g : Gw) (id : UInt16) (n : Bytes) : snOuts (g.storeRegistered id n) = snOuts g := rfl
@[simp] theorem snOuts_setConnectTx (g : Gw) (id : Nat) : snOuts (g.setConnectTx id) = snOuts g := rfl
@[simp] theorem snOuts_newTopicId (g : Gw) : snOuts g.newTopicId.2 = snOuts g := snOuts_of_outs (newTopicId_outs g)
theorem snOuts_newTopicId' {g g' : Gw} {r : Option UInt16} (h : g.newTopicId = (r, g')) : snOuts g' = snOuts g := by
  have : g' = g.newTopicId.2 := by rw [h]
  rw [this]; exact snOuts_newTopicId g
theorem snOuts_registrationTopicId' {g g' : Gw} {topic : Bytes} {r : Option UInt16} (h : g.registrationTopicId topic = (r, g')) :
    snOuts g' = snOuts g := by
  have : g' = (g.registrationTopicId topic).2 := by rw [h]
  rw [this]; exact snOuts_of_outs (registrationTopicId_outs g topic)

/-- **the** fact: a sleeping client's packet is queued, not sent -/
theorem snOuts_snSend (g : Gw) (p : Pkt) (tx : Option Nat) (h : g.st = .asleep) : snOuts (g.snSend p tx) = snOuts g := by
  unfold snSend; simp [h, snOuts]

theorem snOuts_armBp (g : Gw) (t : Tx) (q : UInt8) (s : BpSt) (d : BpData) (snp : Option Pkt) :
    snOuts (g.armBp t q s d snp) = snOuts g := by
  unfold armBp; split <;> simp
theorem snOuts_finishIfDone (g : Gw) (id : Nat) (s : BpSt) : snOuts (g.finishIfDone id s) = snOuts g := by
  unfold finishIfDone; split <;> simp
theorem snOuts_proceedSN (g : Gw) (id : Nat) (s : BpSt) (p : Pkt) (h : g.st = .asleep) : snOuts (g.proceedSN id s p) = snOuts g := by
  unfold proceedSN
  split
  · split
    · rw [snOuts_finishIfDone, snOuts_snSend _ _ _ (by simpa using h), snOuts_armBp]
    · rfl
  · rfl
theorem snOuts_proceedMQ (g : Gw) (id : Nat) (s : BpSt) (p : MqPkt) : snOuts (g.proceedMQ id s p) = snOuts g := by
  unfold proceedMQ
  split
  · split
    · rw [snOuts_finishIfDone, snOuts_mqttSend, snOuts_armBp]
    · rfl
  · rfl

@[simp] theorem snOuts_storeClientPub1 (g : Gw) (q : UInt8) (tid mid : UInt16) : snOuts (g.storeClientPub1 q tid mid) = snOuts g := by
  unfold storeClientPub1; split <;> simp

theorem snOuts_handleClientPublish (g : Gw) (dup : Bool) (q : UInt8) (r : Bool) (tit : UInt8) (tid mid : UInt16) (d : Bytes) :
    snOuts (g.handleClientPublish dup q r tit tid mid d) = snOuts g := by
  unfold handleClientPublish
  split
  · simp
  · simp
  · split <;> simp

theorem snOuts_forwardSubscribe (g : Gw) (dup : Bool) (q : UInt8) (mid : UInt16) (tp : Bytes) (tid : UInt16) :
    snOuts (g.forwardSubscribe dup q mid tp tid) = snOuts g := by
  unfold forwardSubscribe; split <;> simp

theorem snOuts_handleSubscribe (g : Gw) (dup : Bool) (q tit : UInt8) (mid tid : UInt16) (n : Bytes) (h : g.st = .asleep) :
    snOuts (g.handleSubscribe dup q tit mid tid n) = snOuts g := by
  unfold handleSubscribe
  split
  · exact snOuts_snSend _ _ _ h
  · split
    · split
      · split
        · exact snOuts_forwardSubscribe _ _ _ _ _ _
        · split
          · rename_i hn; rw [snOuts_forwardSubscribe, snOuts_storeRegistered, snOuts_newTopicId' hn]
          · rename_i hn; rw [snOuts_snSend _ _ _ (by rw [newTopicId_st' hn]; exact h), snOuts_newTopicId' hn]
      · exact snOuts_forwardSubscribe _ _ _ _ _ _
    · split
      · split
        · exact snOuts_forwardSubscribe _ _ _ _ _ _
        · simp
      · split <;> exact snOuts_forwardSubscribe _ _ _ _ _ _

theorem snOuts_forwardUnsubscribe (g : Gw) (mid : UInt16) (tp : Bytes) : snOuts (g.forwardUnsubscribe mid tp) = snOuts g := by
  unfold forwardUnsubscribe; split <;> simp

theorem snOuts_handleUnsubscribe (g : Gw) (tit : UInt8) (mid tid : UInt16) (n : Bytes) :
    snOuts (g.handleUnsubscribe tit mid tid n) = snOuts g := by
  unfold handleUnsubscribe
  split
  · exact snOuts_forwardUnsubscribe _ _ _
  · split
    · split
      · exact snOuts_forwardUnsubscribe _ _ _
      · simp
    · split <;> exact snOuts_forwardUnsubscribe _ _ _

theorem snOuts_handleRegister (g : Gw) (mid : UInt16) (n : Bytes) (h : g.st = .asleep) :
    snOuts (g.handleRegister mid n) = snOuts g := by
  unfold handleRegister
  split
  · exact snOuts_snSend _ _ _ h
  · split
    · exact snOuts_snSend _ _ _ h
    · split
      · rename_i hn
        rw [snOuts_snSend _ _ _ (by simp [newTopicId_st' hn, h]), snOuts_storeRegistered, snOuts_newTopicId' hn]
      · rename_i hn
        rw [snOuts_snSend _ _ _ (by rw [newTopicId_st' hn]; exact h), snOuts_newTopicId' hn]

theorem snOuts_bpRegack (g : Gw) (t : Tx) (q : UInt8) (s : BpSt) (d : BpData) (snp : Option Pkt) (rc : UInt8) (h : g.st = .asleep) :
    snOuts (g.bpRegack t q s d snp rc) = snOuts g := by
  unfold bpRegack
  split
  · rfl
  · split
    · simp
    · split
      · rw [snOuts_proceedSN _ _ _ _ (by simpa using h)]; simp
      · rfl

theorem snOuts_startBrokerPub (g : Gw) (q : UInt8) (m : UInt16) (s0 : BpSt) (snp : Option Pkt) (s : BpSt) (p : Pkt) (h : g.st = .asleep) :
    snOuts (g.startBrokerPub q m s0 snp s p) = snOuts g := by
  unfold startBrokerPub
  rw [snOuts_proceedSN _ _ _ _ (by simpa using h)]
  simp

theorem snOuts_handleBrokerPublish (g : Gw) (dup : Bool) (q : UInt8) (r : Bool) (mid : UInt16) (tp pl : Bytes) (h : g.st = .asleep) :
    snOuts (g.handleBrokerPublish dup q r mid tp pl) = snOuts g := by
  unfold handleBrokerPublish
  split
  · rfl
  · split
    · rfl
    · split
      · split
        · exact snOuts_snSend _ _ _ h
        · split
          · simp
          · exact snOuts_startBrokerPub _ _ _ _ _ _ _ h
      · split
        · simp
        · split
          · simp
          · split
            · rename_i hn; rw [snOuts_fail, snOuts_registrationTopicId' hn]
            · rename_i hn
              rw [snOuts_startBrokerPub _ _ _ _ _ _ _ (by rw [registrationTopicId_st' hn]; exact h), snOuts_registrationTopicId' hn]

/-! ### the connect exchange (a client that falls asleep with a CONNECT unfinished) -/

theorem snOuts_connAuthenticated (g : Gw) (t : Tx) (f : ConnFields) (h : g.st = .asleep) :
    snOuts (g.connAuthenticated t f) = snOuts g := by
  unfold connAuthenticated
  split
  · rw [snOuts_snSend _ _ _ (by simpa using h)]; simp
  · simp

theorem snOuts_connAuth (g : Gw) (t : Tx) (s : ConnSt) (f : ConnFields) (m d : Bytes) (h : g.st = .asleep) :
    snOuts (g.connAuth t s f m d) = snOuts g := by
  unfold connAuth
  split
  · rfl
  · split
    · split
      · simp
      · exact snOuts_connAuthenticated _ _ _ h
    · unfold sendConnack
      rw [snOuts_fail, snOuts_finishTx, snOuts_snSend _ _ _ h]

theorem snOuts_connWillTopic (g : Gw) (t : Tx) (s : ConnSt) (f : ConnFields) (q : UInt8) (r : Bool) (tp : Bytes) (h : g.st = .asleep) :
    snOuts (g.connWillTopic t s f q r tp) = snOuts g := by
  unfold connWillTopic
  split
  · rfl
  · split
    · simp
    · simp only
      rw [snOuts_snSend _ _ _ (by simpa using h)]; simp

theorem snOuts_connWillMsg (g : Gw) (t : Tx) (s : ConnSt) (f : ConnFields) (m : Bytes) :
    snOuts (g.connWillMsg t s f m) = snOuts g := by
  unfold connWillMsg
  split
  · rfl
  · simp

/-! ### timers -/

theorem snOuts_retryExpire (g : Gw) (t : Tx) (h : g.st = .asleep) : snOuts (g.retryExpire t) = snOuts g := by
  unfold retryExpire
  split
  · split
    · simp
    · split
      · simp
      · split
        · simp
        · split
          · rw [snOuts_snSend _ _ _ (by simpa [setTx] using h)]
            simp [snOuts]
          · simp
          · simp
  · rfl

theorem snOuts_txExpire (g : Gw) (t : Tx) (h : g.st = .asleep) : snOuts (g.txExpire t) = snOuts g := by
  unfold txExpire
  split
  · split <;> simp
  · split <;> simp
  · split <;> simp
  · exact snOuts_retryExpire g t h

end Bisquitt.Gw
