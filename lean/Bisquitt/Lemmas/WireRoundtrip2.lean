/-
  Helper lemmas for C21, part 2: per packet type, the header the constructor computes,
  the size of the body and the decoding of the body.
-/
import Bisquitt.Lemmas.WireRoundtrip

namespace Bisquitt
open Gen Spec

/-- variable-part length of a legal packet, as a natural number -/
def varLen : Pkt → Nat
  | .advertise .. => 3
  | .searchgw .. => 1
  | .gwinfo _ a => 1 + a.length
  | .auth _ m d => 2 + m.length + d.length
  | .connect _ _ _ _ cid => 4 + cid.length
  | .connack _ => 1
  | .willtopicreq => 0
  | .willtopic _ _ t | .willtopicupd _ _ t => if t.length = 0 then 0 else 1 + t.length
  | .willmsgreq => 0
  | .willmsg m | .willmsgupd m => m.length
  | .register _ _ n => 4 + n.length
  | .regack .. => 5
  | .publish _ _ _ _ _ _ d => 5 + d.length
  | .puback .. => 5
  | .pubcomp _ | .pubrec _ | .pubrel _ | .unsuback _ => 2
  | .subscribe _ _ tit _ _ n => 3 + (if tit = 0 then n.length else 2)
  | .suback .. => 6
  | .unsubscribe tit _ _ n => 3 + (if tit = 0 then n.length else 2)
  | .pingreq cid => cid.length
  | .pingresp => 0
  | .disconnect d => if d = 0 then 0 else 2
  | .willtopicresp _ | .willmsgresp _ => 1

theorem c16_add (c : UInt16) (x : Nat) : c + UInt16.ofNat x = UInt16.ofNat (c.toNat + x) := by
  apply UInt16.toNat_inj.mp
  simp [UInt16.toNat_add, UInt16.toNat_ofNat']

theorem c16_add3 (c : UInt16) (x y : Nat) :
    c + UInt16.ofNat x + UInt16.ofNat y = UInt16.ofNat (c.toNat + x + y) := by
  apply UInt16.toNat_inj.mp
  simp [UInt16.toNat_add, UInt16.toNat_ofNat']

theorem c16_self (c : UInt16) : c = UInt16.ofNat c.toNat := by
  apply UInt16.toNat_inj.mp
  simp

theorem new_ofNat (t : UInt8) (n : Nat) (hn : n ≤ 65000) :
    Header.new t (UInt16.ofNat n) = hdrFor t n := by
  unfold Header.new
  rw [setVarPartLength_ofNat _ _ hn]

theorem new_setVar (t : UInt8) (v : UInt16) (n : Nat) (hn : n ≤ 65000) :
    (Header.new t v).setVarPartLength (UInt16.ofNat n) = hdrFor t n := by
  rw [setVarPartLength_ofNat _ _ hn]
  congr 1
  unfold Header.new Header.setVarPartLength
  split <;> rfl

theorem legal_len_bound {p : Pkt} (h : Legal p = true) : varLen p ≤ 65000 := by
  cases p <;> simp [Legal, varLen, maxPayload, MaxPayloadLength] at * <;> (try split) <;> omega

theorem len16_eq (bs : Bytes) : len16 bs = UInt16.ofNat bs.length := rfl

theorem u8_le2 (q : UInt8) (h : q ≤ 2) : q = 0 ∨ q = 1 ∨ q = 2 := by
  rcases u8_le3 q (UInt8.le_trans h (by decide)) with r | r | r | r
  · exact Or.inl r
  · exact Or.inr (Or.inl r)
  · exact Or.inr (Or.inr r)
  · subst r; exact absurd h (by decide)

theorem legal_sub_tit {dup q tit m t n} (h : Legal (.subscribe dup q tit m t n) = true) : tit ≤ 2 := by
  simp only [Legal, Bool.and_eq_true, decide_eq_true_eq] at h; exact h.1.1.2
theorem legal_unsub_tit {tit m t n} (h : Legal (.unsubscribe tit m t n) = true) : tit ≤ 2 := by
  simp only [Legal, Bool.and_eq_true, decide_eq_true_eq] at h; exact h.1.1

/-- **Lemma A**: the header computed by the constructor + `computeLength`. -/
theorem newHeader_eq {p : Pkt} (h : Legal p = true) : newHeader p = hdrFor p.typeCode (varLen p) := by
  have hb := legal_len_bound h
  cases p with
  | subscribe dup q tit m t n =>
    simp only [newHeader, computeLength, fixedVarPartLength, Pkt.typeCode, varLen, len16_eq] at hb ⊢
    rcases u8_le2 tit (legal_sub_tit h) with rfl | rfl | rfl
    · simp only [TIT_STRING, if_true] at hb ⊢
      rw [c16_add]; gen_norm; exact new_setVar _ _ _ (by omega)
    · rfl
    · rfl
  | unsubscribe tit m t n =>
    simp only [newHeader, computeLength, fixedVarPartLength, Pkt.typeCode, varLen, len16_eq] at hb ⊢
    rcases u8_le2 tit (legal_unsub_tit h) with rfl | rfl | rfl
    · simp only [TIT_STRING, if_true] at hb ⊢
      rw [c16_add]; gen_norm; exact new_setVar _ _ _ (by omega)
    · rfl
    · rfl
  | _ =>
    simp only [newHeader, computeLength, fixedVarPartLength, Pkt.typeCode, varLen, len16_eq] at hb ⊢
    first
    | rfl
    | (rw [c16_add3]; gen_norm; exact new_setVar _ _ _ (by omega))
    | (rw [c16_add]; gen_norm; exact new_setVar _ _ _ (by omega))
    | exact new_setVar _ _ _ (by omega)
    | (split
       · rfl
       · first
         | rfl
         | (rename_i hne; simp only [if_neg hne] at hb
            rw [c16_add]; gen_norm; exact new_setVar _ _ _ (by omega)))

end Bisquitt
