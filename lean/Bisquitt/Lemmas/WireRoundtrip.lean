/-
  Helper lemmas for C21 (encode then decode).
-/
import Bisquitt.Lemmas.WireTotal
import Bisquitt.Spec.Codec

namespace Bisquitt
open Gen Spec

/-! ### small-number facts -/
theorem u8_le3 (q : UInt8) (h : q ≤ 3) : q = 0 ∨ q = 1 ∨ q = 2 ∨ q = 3 := by
  have h' : q.toNat ≤ 3 := by simpa using UInt8.le_iff_toNat_le.mp h
  have e : ∀ n : Nat, q.toNat = n → n < 256 → q = UInt8.ofNat n := by
    intro n hn hlt; apply UInt8.toNat_inj.mp; simp [hn]; omega
  rcases (by omega : q.toNat = 0 ∨ q.toNat = 1 ∨ q.toNat = 2 ∨ q.toNat = 3) with h0 | h0 | h0 | h0
  · exact Or.inl (e 0 h0 (by omega))
  · exact Or.inr (Or.inl (e 1 h0 (by omega)))
  · exact Or.inr (Or.inr (Or.inl (e 2 h0 (by omega))))
  · exact Or.inr (Or.inr (Or.inr (e 3 h0 (by omega))))

theorem publishFlags_rt (dup r : Bool) (q tit : UInt8) (hq : q ≤ 3) (ht : tit ≤ 3) :
    hasBit (publishFlags dup q r tit) flagsDUPBit = dup ∧ qosOf (publishFlags dup q r tit) = q ∧
    hasBit (publishFlags dup q r tit) flagsRetainBit = r ∧
    (publishFlags dup q r tit) &&& flagsTopicIDTypeBits = tit := by
  rcases u8_le3 q hq with rfl | rfl | rfl | rfl <;> rcases u8_le3 tit ht with rfl | rfl | rfl | rfl <;>
    cases dup <;> cases r <;> decide

theorem subscribeFlags_rt (dup : Bool) (q tit : UInt8) (hq : q ≤ 3) (ht : tit ≤ 3) :
    hasBit (subscribeFlags dup q tit) flagsDUPBit = dup ∧ qosOf (subscribeFlags dup q tit) = q ∧
    (subscribeFlags dup q tit) &&& flagsTopicIDTypeBits = tit := by
  rcases u8_le3 q hq with rfl | rfl | rfl | rfl <;> rcases u8_le3 tit ht with rfl | rfl | rfl | rfl <;>
    cases dup <;> decide

theorem willTopicFlags_rt (r : Bool) (q : UInt8) (hq : q ≤ 3) :
    qosOf (willTopicFlags q r) = q ∧ hasBit (willTopicFlags q r) flagsRetainBit = r := by
  rcases u8_le3 q hq with rfl | rfl | rfl | rfl <;> cases r <;> decide

theorem connectFlags_rt (w c : Bool) :
    hasBit (connectFlags w c) flagsWillBit = w ∧ hasBit (connectFlags w c) flagsCleanSessionBit = c := by
  cases w <;> cases c <;> decide

theorem qosBits_rt (q : UInt8) (hq : q ≤ 3) : qosOf (qosBits q) = q := by
  rcases u8_le3 q hq with rfl | rfl | rfl | rfl <;> decide

theorem tit_and (tit : UInt8) (ht : tit ≤ 3) : tit &&& flagsTopicIDTypeBits = tit := by
  rcases u8_le3 tit ht with rfl | rfl | rfl | rfl <;> decide

/-! ### headers -/

/-- header the constructors produce for a variable part of `n` bytes -/
def hdrFor (t : UInt8) (n : Nat) : Header :=
  if n + 2 ≤ 255 then { pktLength := UInt16.ofNat (n + 2), pktType := t, long := false }
  else { pktLength := UInt16.ofNat (n + 4), pktType := t, long := true }

theorem setVarPartLength_ofNat (h : Header) (n : Nat) (hn : n ≤ 65000) :
    h.setVarPartLength (UInt16.ofNat n) = hdrFor h.pktType n := by
  unfold Header.setVarPartLength hdrFor
  have e2 : (UInt16.ofNat n + shortHeaderLength ≤ 255) ↔ n + 2 ≤ 255 := by
    rw [UInt16.le_iff_toNat_le]
    simp [UInt16.toNat_add, UInt16.toNat_ofNat', shortHeaderLength]
    omega
  by_cases hc : n + 2 ≤ 255
  · rw [if_pos (e2.mpr hc), if_pos hc]
    congr 1
    apply UInt16.toNat_inj.mp
    simp [UInt16.toNat_add, UInt16.toNat_ofNat', shortHeaderLength]
  · rw [if_neg (fun h' => hc (e2.mp h')), if_neg hc]
    congr 1
    apply UInt16.toNat_inj.mp
    simp [UInt16.toNat_add, UInt16.toNat_ofNat', longHeaderLength]

theorem unpack_short (b t : UInt8) (body : Bytes) (hb : b ≠ longPacketFlag) :
    Header.unpack (b :: t :: body) = .ok { pktLength := b.toUInt16, pktType := t, long := false } := by
  simp [Header.unpack, getB, hb]

theorem unpack_long (L : UInt16) (t : UInt8) (body : Bytes) :
    Header.unpack (longPacketFlag :: hi8 L :: lo8 L :: t :: body) =
      .ok { pktLength := L, pktType := t, long := true } := by
  simp [Header.unpack, getB, get16, mk16_hi_lo, longHeaderLength, bind, Res.bind]
  split
  · omega
  · split
    · omega
    · rfl

theorem ofNat16_toNat {n : Nat} (hn : n < 65536) : (UInt16.ofNat n).toNat = n := by
  simp [UInt16.toNat_ofNat']; omega

theorem hdrFor_unpack (t : UInt8) (n : Nat) (hn : n ≤ 65000) (body : Bytes) :
    Header.unpack ((hdrFor t n).packToBuffer ++ body) = .ok (hdrFor t n) := by
  unfold hdrFor
  by_cases hc : n + 2 ≤ 255
  · rw [if_pos hc]
    have hLn : (UInt16.ofNat (n + 2)).toNat = n + 2 := ofNat16_toNat (by omega)
    generalize UInt16.ofNat (n + 2) = L at hLn ⊢
    have hb : L.toUInt8 ≠ longPacketFlag := by
      intro h
      have := congrArg UInt8.toNat h
      rw [UInt16.toNat_toUInt8, hLn] at this
      simp [longPacketFlag] at this
      omega
    have e : L.toUInt8.toUInt16 = L := by
      apply UInt16.toNat_inj.mp
      rw [UInt8.toNat_toUInt16, UInt16.toNat_toUInt8, hLn]
      omega
    show Header.unpack (L.toUInt8 :: t :: body) = _
    rw [unpack_short _ _ _ hb, e]
  · rw [if_neg hc]
    exact unpack_long _ _ _

theorem hdrFor_drop (t : UInt8) (n : Nat) (body : Bytes) :
    ((hdrFor t n).packToBuffer ++ body).drop (hdrFor t n).headerLength.toNat = body := by
  unfold hdrFor
  by_cases hc : n + 2 ≤ 255
  · rw [if_pos hc]; rfl
  · rw [if_neg hc]; rfl

theorem hdrFor_type (t : UInt8) (n : Nat) : (hdrFor t n).pktType = t := by
  unfold hdrFor; split <;> rfl

/-- length field, total size and header form of `header ++ body` when the body has the
    announced size -/
theorem packToBuffer_short (L : UInt16) (t : UInt8) :
    ({ pktLength := L, pktType := t, long := false } : Header).packToBuffer = [L.toUInt8, t] := rfl
theorem packToBuffer_long (L : UInt16) (t : UInt8) :
    ({ pktLength := L, pktType := t, long := true } : Header).packToBuffer =
      [longPacketFlag, hi8 L, lo8 L, t] := rfl

theorem hdrFor_lengthField (t : UInt8) (n : Nat) (hn : n ≤ 65000) (body : Bytes) (hb : body.length = n) :
    lengthField ((hdrFor t n).packToBuffer ++ body) = ((hdrFor t n).packToBuffer ++ body).length ∧
    (usesShortForm ((hdrFor t n).packToBuffer ++ body) =
      decide (((hdrFor t n).packToBuffer ++ body).length ≤ 255)) := by
  unfold hdrFor
  by_cases hc : n + 2 ≤ 255
  · rw [if_pos hc]
    have hLn : (UInt16.ofNat (n + 2)).toNat = n + 2 := ofNat16_toNat (by omega)
    generalize UInt16.ofNat (n + 2) = L at hLn ⊢
    have hb1 : L.toUInt8 ≠ 1 := by
      intro h
      have := congrArg UInt8.toNat h
      rw [UInt16.toNat_toUInt8, hLn] at this
      simp at this
      omega
    have hn8 : L.toUInt8.toNat = n + 2 := by rw [UInt16.toNat_toUInt8, hLn]; omega
    rw [packToBuffer_short]
    refine ⟨?_, ?_⟩
    · simp [lengthField, hb1, hn8, hb]
    · have e1 : usesShortForm ([L.toUInt8, t] ++ body) = true := by simp [usesShortForm, hb1]
      have e2 : decide (([L.toUInt8, t] ++ body).length ≤ 255) = true := by simp [hb]; omega
      rw [e1, e2]
  · rw [if_neg hc]
    have hLn : (UInt16.ofNat (n + 4)).toNat = n + 4 := ofNat16_toNat (by omega)
    generalize UInt16.ofNat (n + 4) = L at hLn ⊢
    rw [packToBuffer_long]
    refine ⟨?_, ?_⟩
    · simp [lengthField, mk16_hi_lo, longPacketFlag, hLn, hb]
    · have e1 : usesShortForm ([longPacketFlag, hi8 L, lo8 L, t] ++ body) = false := by
        simp [usesShortForm, longPacketFlag]
      have e2 : decide (([longPacketFlag, hi8 L, lo8 L, t] ++ body).length ≤ 255) = false := by
        simp [hb]; omega
      rw [e1, e2]

end Bisquitt
