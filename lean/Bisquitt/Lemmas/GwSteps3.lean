/-
  `Step` lemmas, continued: the two dispatchers, timers, session end, events and runs.
-/
import Bisquitt.Lemmas.GwSteps2

namespace Bisquitt.Gw
open Bisquitt Gw

variable {Sn : Pkt → Prop} {Mq : MqPkt → Prop} {E : MqPkt → Prop}

/-- what the decoder guarantees about a packet the handler sees: the QoS field has two bits -/
def PktIn : Pkt → Prop
  | .publish _ q _ _ _ _ _ => q ≤ 3
  | _ => True

theorem kind_of_lookup {g : Gw} {mid : UInt16} {t : Tx} (h : g.lookupById mid = some t) (w : WF Sn Mq g) :
    KindOk Sn Mq t.kind := w.2 t (lookupById_mem h)

theorem Step.handleSn (S : Sites Sn Mq) (g : Gw) (p : Pkt) (hp : PktIn p)
    (hd : p = .disconnect 0 → E .disconnect) : Step Sn Mq E g (g.handleSn p) := by
  unfold Gw.handleSn
  split
  · exact Step.fail g _
  · split
    · exact Step.handleConnect S g _ _ _ _
    · split
      · rename_i t st f h
        obtain ⟨hm, hk⟩ := connTx_spec h
        intro w
        have := w.2 t hm
        rw [hk] at this
        exact Step.connAuth S g t st f _ _ this w
      · exact Step.refl g
    · split
      · rename_i t st f h
        obtain ⟨hm, hk⟩ := connTx_spec h
        intro w
        have := w.2 t hm
        rw [hk] at this
        exact Step.connWillTopic S g t st f _ _ _ this w
      · exact Step.refl g
    · split
      · rename_i t st f h
        obtain ⟨hm, hk⟩ := connTx_spec h
        intro w
        have := w.2 t hm
        rw [hk] at this
        exact Step.connWillMsg S g t st f _ this w
      · exact Step.refl g
    · exact Step.handleRegister S g _ _
    · exact Step.handleClientPublish S g _ _ _ _ _ _ _ hp
    · exact Step.mqttSend g _ (S.mqPubrel _)
    · exact Step.handleSubscribe S g _ _ _ _ _ _
    · exact Step.handleUnsubscribe S g _ _ _ _
    · exact Step.handlePingreq S g
    · rename_i d _
      exact Step.handleDisconnect S g d (fun e => hd (by rw [e]))
    · -- REGACK
      split
      · rename_i t h
        split
        · rename_i q st data snp n hk
          exact Step.bpRegack g t (lookupByIdB_mem h) q st data snp n hk _
        · exact Step.refl g
      · exact Step.refl g
    · -- PUBACK
      split
      · split
        · split
          · exact Step.refl g
          · split
            · exact Step.finishTx g _
            · exact Step.proceedMQ g _ _ _ (S.mqPuback _)
        · exact Step.refl g
      · exact Step.refl g
    · -- PUBREC
      split
      · split
        · split
          · exact Step.refl g
          · exact Step.proceedMQ g _ _ _ (S.mqPubrec _)
        · exact Step.refl g
      · exact Step.refl g
    · -- PUBCOMP
      split
      · split
        · split
          · exact Step.refl g
          · exact Step.proceedMQ g _ _ _ (S.mqPubcomp _)
        · exact Step.refl g
      · exact Step.refl g
    · exact Step.fail g _

theorem Step.handleMq (S : Sites Sn Mq) (g : Gw) (p : MqPkt) : Step Sn Mq E g (g.handleMq p) := by
  unfold Gw.handleMq
  split
  · split
    · exact Step.connConnack S g _ _ _
    · exact Step.refl g
  · split
    · split
      · exact Step.trans (Step.finishTx g _) (Step.snSend _ _ none (S.puback _ _ _))
      · exact Step.refl g
    · exact Step.refl g
  · exact Step.snSend g _ none (S.pubrec _)
  · exact Step.snSend g _ none (S.pubcomp _)
  · split
    · split
      · split
        · split
          · rename_i hc
            exact Step.trans (Step.finishTx g _) (Step.snSend _ _ none (S.suback _ _ _ _ hc))
          · exact Step.trans (Step.finishTx g _) (Step.snSend _ _ none (S.suback _ _ _ _ (by decide)))
        · exact Step.trans (Step.finishTx g _) (Step.fail _ _)
      · exact Step.refl g
    · exact Step.refl g
  · exact Step.snSend g _ none (S.unsuback _)
  · split
    · exact Step.of_eq rfl rfl rfl
    · split
      · exact Step.refl g
      · exact Step.snSend g _ none S.pingresp
  · exact Step.handleBrokerPublish S g _ _ _ _ _ _
  · split
    · split
      · split
        · exact Step.refl g
        · exact Step.proceedSN g _ _ _ (S.pubrel _)
      · exact Step.refl g
    · exact Step.refl g
  · exact Step.fail g _

/-! ### time -/

theorem Step.fireTx (S : Sites Sn Mq) (g : Gw) (id : Nat) : Step Sn Mq E g (g.fireTx id) := by
  unfold Gw.fireTx
  split
  · rename_i t h
    exact Step.txExpire S g t (getTx_mem h)
  · exact Step.refl g

theorem Step.pingBroker (S : Sites Sn Mq) (g : Gw) : Step Sn Mq E g g.pingBroker := by
  unfold Gw.pingBroker
  refine Step.trans ?_ (Step.mqttSend _ _ S.mqPingreq)
  exact Step.of_eq rfl rfl rfl

theorem Step.keepBrokerAlive (S : Sites Sn Mq) (g : Gw) : Step Sn Mq E g g.keepBrokerAlive := by
  unfold Gw.keepBrokerAlive
  split
  · exact Step.refl g
  · split
    · split
      · exact Step.refl g
      · exact Step.pingBroker S g
    · exact Step.pingBroker S g

theorem Step.firePing (S : Sites Sn Mq) (g : Gw) (i : Nat) : Step Sn Mq E g (g.firePing i) := by
  unfold Gw.firePing
  refine Step.trans ?_ (Step.pingBroker S _)
  exact Step.of_eq rfl rfl rfl

theorem Step.dropPinger (g : Gw) (i : Nat) : Step Sn Mq E g (g.dropPinger i) := Step.of_eq rfl rfl rfl

theorem Step.fireDue (S : Sites Sn Mq) (g : Gw) (d : Due) : Step Sn Mq E g (g.fireDue d) := by
  unfold Gw.fireDue
  split
  · exact Step.trans (Step.setNow g _) (Step.fireTx S _ _)
  · exact Step.trans (Step.setNow g _) (Step.firePing S _ _)
  · exact Step.trans (Step.setNow g _) (Step.dropPinger _ _)

theorem Step.emit (g : Gw) (o : Out) (h : OutOk Sn Mq E o) : Step Sn Mq E g (g.emit o) := fun w =>
  ⟨Emits.emit g o h, w⟩

theorem Step.finishSession (S : Sites Sn Mq) (g : Gw) : Step Sn Mq E g g.finishSession := by
  unfold Gw.finishSession
  split
  · split
    · exact Step.refl g
    · rename_i tc _ _
      refine Step.trans (Step.setNow g tc) ?_
      refine Step.trans (b := (g.setNow tc).shutdownDisconnect) ?_ ?_
      · unfold Gw.shutdownDisconnect
        split
        · exact Step.emit _ _ ⟨_, S.disconnect0, rfl⟩
        · exact Step.refl _
      · refine Step.trans (b := ((g.setNow tc).shutdownDisconnect).emitEnd) ?_ ?_
        · unfold Gw.emitEnd
          exact Step.trans (Step.emit _ (.ended _) trivial) (Step.emit _ .mqClose trivial)
        · intro w
          refine ⟨Emits.of_outs_eq rfl, ⟨w.1, ?_⟩⟩
          intro x hx
          simp only [Gw.stopTimers, List.mem_map] at hx
          obtain ⟨y, hy, rfl⟩ := hx
          exact w.2 y hy
  · exact Step.refl g

theorem Step.advance (S : Sites Sn Mq) (t : Nat) : ∀ (fuel : Nat) (g : Gw), Step Sn Mq E g (advance fuel g t) := by
  intro fuel
  induction fuel with
  | zero => intro g; unfold Gw.advance; exact Step.setNow g _
  | succ n ih =>
    intro g
    unfold Gw.advance
    split
    · exact Step.trans (Step.finishSession S g) (Step.setNow _ _)
    · split
      · exact Step.trans (Step.trans (Step.fireDue S g _) (Step.finishSession S _)) (ih _)
      · exact Step.setNow g _

/-! ### events -/

/-- the hypothesis under which an event may make the gateway send an MQTT DISCONNECT -/
def AllowsDisconnect (E : MqPkt → Prop) : Event → Prop
  | .sn bytes => (∃ h, decode (bytes.take Gen.MaxPacketLen) = .ok (h, .disconnect 0)) → E .disconnect
  | _ => True

theorem Step.handleEvent (S : Sites Sn Mq) (g : Gw) (ev : Event)
    (hin : ∀ bytes h p, ev = .sn bytes → decode (bytes.take Gen.MaxPacketLen) = .ok (h, p) → PktIn p)
    (hd : AllowsDisconnect E ev) : Step Sn Mq E g (g.handleEvent ev) := by
  unfold Gw.handleEvent
  split
  · rename_i bytes
    split
    · rename_i h p hdec
      refine Step.trans (Step.handleSn S g p (hin bytes h p rfl hdec) ?_) (Step.keepBrokerAlive S _)
      intro e
      exact hd ⟨h, by rw [hdec, e]⟩
    · exact Step.fail g _
  · exact Step.handleMq S g _
  · exact Step.fail g _
  · split <;> exact Step.fail g _
  · exact Step.fail g _
  · exact Step.refl g

theorem Step.sample (g : Gw) : Step Sn Mq E g g.sample := by
  unfold Gw.sample
  refine Step.trans (b := g.sampleState) ?_ (Step.trans (b := g.sampleState.sampleReg) ?_ ?_)
  · unfold Gw.sampleState
    split
    · exact Step.trans (Step.of_eq (g' := { g with sampledState := g.st }) rfl rfl rfl) (Step.emit _ _ trivial)
    · exact Step.refl g
  · unfold Gw.sampleReg
    split
    · exact Step.trans (Step.of_eq (g' := { g.sampleState with sampledReg := g.sampleState.liveRegistry }) rfl rfl rfl)
        (Step.emit _ _ trivial)
    · exact Step.refl _
  · unfold Gw.sampleBuf
    split
    · exact Step.trans (Step.of_eq
        (g' := { g.sampleState.sampleReg with sampledBuf := g.sampleState.sampleReg.bufferBytes }) rfl rfl rfl)
        (Step.emit _ _ trivial)
    · exact Step.refl _

theorem Step.step (S : Sites Sn Mq) (g : Gw) (t : Nat) (ev : Event)
    (hin : ∀ bytes h p, ev = .sn bytes → decode (bytes.take Gen.MaxPacketLen) = .ok (h, p) → PktIn p)
    (hd : AllowsDisconnect E ev) : Step Sn Mq E g (g.step t ev) := by
  unfold Gw.step Gw.stepCore
  refine Step.trans ?_ (Step.sample _)
  refine Step.trans (Step.advance S t 100000 g) ?_
  unfold Gw.deliver
  split
  · exact Step.finishSession S _
  · exact Step.trans (Step.trans (Step.handleEvent S _ ev hin hd) (Step.advance S t 100000 _)) (Step.finishSession S _)

end Bisquitt.Gw
