/-
  `Step` lemmas, continued: client → broker and broker → client handlers, the dispatchers,
  timers, session end, and whole runs.
-/
import Bisquitt.Lemmas.GwSteps

namespace Bisquitt.Gw
open Bisquitt Gw

variable {Sn : Pkt → Prop} {Mq : MqPkt → Prop} {E : MqPkt → Prop}

/-! ### small state updates -/

theorem Step.setSt (g : Gw) (st : CState) : Step Sn Mq E g (g.setSt st) := Step.of_eq rfl rfl rfl
theorem Step.setNow (g : Gw) (t : Nat) : Step Sn Mq E g (g.setNow t) := Step.of_eq rfl rfl rfl
theorem Step.storeById (g : Gw) (m : UInt16) (id : Nat) : Step Sn Mq E g (g.storeById m id) := Step.of_eq rfl rfl rfl
theorem Step.storeByIdB (g : Gw) (m : UInt16) (id : Nat) : Step Sn Mq E g (g.storeByIdB m id) := Step.of_eq rfl rfl rfl
theorem Step.storeRegistered (g : Gw) (id : UInt16) (n : Bytes) : Step Sn Mq E g (g.storeRegistered id n) :=
  Step.of_eq rfl rfl rfl
theorem Step.clearBuffer (g : Gw) : Step Sn Mq E g g.clearBuffer := fun w =>
  ⟨Emits.of_outs_eq rfl, ⟨by simp [Gw.clearBuffer], w.2⟩⟩
theorem Step.clearBufferUnlessAsleep (g : Gw) : Step Sn Mq E g g.clearBufferUnlessAsleep := by
  unfold Gw.clearBufferUnlessAsleep
  split
  · exact Step.clearBuffer g
  · exact Step.refl g
theorem Step.snSendNow (g : Gw) (p : Pkt) (h : Sn p) : Step Sn Mq E g (g.snSendNow p) := fun w =>
  ⟨Emits.emit g _ ⟨p, h, rfl⟩, w⟩
theorem Step.startSleepPinger (g : Gw) (d : UInt16) : Step Sn Mq E g (g.startSleepPinger d) := Step.of_eq rfl rfl rfl
theorem Step.armSleepPinger (g : Gw) (d : UInt16) : Step Sn Mq E g (g.armSleepPinger d) := by
  unfold Gw.armSleepPinger; split <;> exact Step.of_eq rfl rfl rfl

@[simp] theorem newTopicId_buffer (g : Gw) : g.newTopicId.2.buffer = g.buffer := by
  unfold newTopicId
  split
  · rfl
  · simp only
    split
    · rfl
    · split <;> rfl

@[simp] theorem newTopicId_txs (g : Gw) : g.newTopicId.2.txs = g.txs := by
  unfold newTopicId
  split
  · rfl
  · simp only
    split
    · rfl
    · split <;> rfl

theorem Step.newTopicId (g : Gw) : Step Sn Mq E g g.newTopicId.2 :=
  Step.of_eq (newTopicId_outs g) (newTopicId_buffer g) (newTopicId_txs g)

theorem Step.newTopicId' {g g' : Gw} {r : Option UInt16} (h : g.newTopicId = (r, g')) : Step Sn Mq E g g' := by
  have : g' = g.newTopicId.2 := by rw [h]
  subst this
  exact Step.newTopicId g

@[simp] theorem registrationTopicId_buffer (g : Gw) (topic : Bytes) : (g.registrationTopicId topic).2.buffer = g.buffer := by
  rcases registrationTopicId_proj g topic with h | h | ⟨id, h⟩ <;> rw [h]
  · exact newTopicId_buffer g
  · exact newTopicId_buffer g

@[simp] theorem registrationTopicId_txs (g : Gw) (topic : Bytes) : (g.registrationTopicId topic).2.txs = g.txs := by
  rcases registrationTopicId_proj g topic with h | h | ⟨id, h⟩ <;> rw [h]
  · exact newTopicId_txs g
  · exact newTopicId_txs g

theorem Step.registrationTopicId' {g g' : Gw} {topic : Bytes} {r : Option UInt16} (h : g.registrationTopicId topic = (r, g')) :
    Step Sn Mq E g g' := by
  have : g' = (g.registrationTopicId topic).2 := by rw [h]
  subst this
  exact Step.of_eq (registrationTopicId_outs g topic) (registrationTopicId_buffer g topic) (registrationTopicId_txs g topic)

/-! ### client → broker -/

theorem mqQos_le {q : UInt8} (h : q ≤ 3) : mqQos q ≤ 2 := by
  unfold mqQos
  split
  · decide
  · rename_i hq
    have h1 : q.toNat ≤ 3 := UInt8.le_iff_toNat_le.mp h
    have h2 : q.toNat ≠ 3 := fun e => hq (UInt8.toNat_inj.mp (by simpa using e))
    exact UInt8.le_iff_toNat_le.mpr (by simp; omega)

theorem Step.storeClientPub1 (g : Gw) (qos : UInt8) (tid mid : UInt16) :
    Step Sn Mq E g (g.storeClientPub1 qos tid mid) := by
  unfold Gw.storeClientPub1
  split
  · refine Step.trans ?_ (Step.storeById _ _ _)
    exact Step.newTx g _ _ _ (fun _ => trivial)
  · exact Step.refl g

theorem Step.handleClientPublish (S : Sites Sn Mq) (g : Gw) (dup : Bool) (qos : UInt8) (retain : Bool) (tit : UInt8)
    (tid mid : UInt16) (data : Bytes) (hq : qos ≤ 3) :
    Step Sn Mq E g (g.handleClientPublish dup qos retain tit tid mid data) := by
  unfold Gw.handleClientPublish
  split
  · exact Step.fail g _
  · exact Step.fail g _
  · rename_i topic _
    split
    · exact Step.fail g _
    · rename_i hc
      simp only [Bool.or_eq_true, not_or, Bool.not_eq_true] at hc
      refine Step.trans (Step.storeClientPub1 g qos tid mid) (Step.mqttSend _ _ ?_)
      refine S.mqPublish _ _ _ _ _ _ (mqQos_le hq) ?_ hc.2
      intro e
      rw [e] at hc
      simp at hc

theorem Step.forwardSubscribe (S : Sites Sn Mq) (g : Gw) (dup : Bool) (qos : UInt8) (mid : UInt16) (topic : Bytes)
    (topicId : UInt16) (hq : qos ≤ 2) : Step Sn Mq E g (g.forwardSubscribe dup qos mid topic topicId) := by
  unfold Gw.forwardSubscribe
  split
  · exact Step.fail g _
  · rename_i hne
    refine Step.trans ?_ (Step.mqttSend _ _ (S.mqSubscribe _ _ _ _ ?_ hq))
    · refine Step.trans ?_ (Step.storeById _ _ _)
      exact Step.newTx g _ _ _ (fun _ => trivial)
    · intro e
      rw [e] at hne
      simp at hne

theorem Step.handleSubscribe (S : Sites Sn Mq) (g : Gw) (dup : Bool) (qos tit : UInt8) (mid tid : UInt16) (name : Bytes) :
    Step Sn Mq E g (g.handleSubscribe dup qos tit mid tid name) := by
  unfold Gw.handleSubscribe
  split
  · exact Step.snSend g _ none (S.suback _ _ _ _ (by decide))
  · rename_i hq
    have hq' : qos ≤ 2 := UInt8.not_lt.mp hq
    split
    · split
      · split
        · exact Step.forwardSubscribe S _ _ _ _ _ _ hq'
        · split
          · rename_i id g' h
            refine Step.trans (Step.newTopicId' h) ?_
            exact Step.trans (Step.storeRegistered _ _ _) (Step.forwardSubscribe S _ _ _ _ _ _ hq')
          · rename_i g' h
            exact Step.trans (Step.newTopicId' h) (Step.snSend _ _ none (S.suback _ _ _ _ (by decide)))
      · exact Step.forwardSubscribe S _ _ _ _ _ _ hq'
    · split
      · split
        · exact Step.forwardSubscribe S _ _ _ _ _ _ hq'
        · exact Step.fail g _
      · split
        · exact Step.forwardSubscribe S _ _ _ _ _ _ hq'
        · exact Step.forwardSubscribe S _ _ _ _ _ _ hq'

theorem Step.forwardUnsubscribe (S : Sites Sn Mq) (g : Gw) (mid : UInt16) (topic : Bytes) :
    Step Sn Mq E g (g.forwardUnsubscribe mid topic) := by
  unfold Gw.forwardUnsubscribe
  split
  · exact Step.fail g _
  · rename_i hne
    refine Step.mqttSend _ _ (S.mqUnsubscribe _ _ ?_)
    intro e
    rw [e] at hne
    simp at hne

theorem Step.handleUnsubscribe (S : Sites Sn Mq) (g : Gw) (tit : UInt8) (mid tid : UInt16) (name : Bytes) :
    Step Sn Mq E g (g.handleUnsubscribe tit mid tid name) := by
  unfold Gw.handleUnsubscribe
  split
  · exact Step.forwardUnsubscribe S _ _ _
  · split
    · split
      · exact Step.forwardUnsubscribe S _ _ _
      · exact Step.fail g _
    · split <;> exact Step.forwardUnsubscribe S _ _ _

theorem Step.handleRegister (S : Sites Sn Mq) (g : Gw) (mid : UInt16) (name : Bytes) :
    Step Sn Mq E g (g.handleRegister mid name) := by
  unfold Gw.handleRegister
  split
  · exact Step.snSend g _ none (S.regack _ _ _)
  · split
    · exact Step.snSend g _ none (S.regack _ _ _)
    · split
      · rename_i id g' h
        refine Step.trans (Step.newTopicId' h) ?_
        exact Step.trans (Step.storeRegistered _ _ _) (Step.snSend _ _ none (S.regack _ _ _))
      · rename_i g' h
        exact Step.trans (Step.newTopicId' h) (Step.snSend _ _ none (S.regack _ _ _))

theorem Step.handlePingreq (S : Sites Sn Mq) (g : Gw) : Step Sn Mq E g g.handlePingreq := by
  unfold Gw.handlePingreq
  split
  · refine Step.trans ?_ (Step.armSleepPinger _ _)
    refine Step.trans ?_ (Step.setSt _ _)
    refine Step.trans ?_ (Step.snSend _ _ none S.pingresp)
    refine Step.trans ?_ (Step.flushBuffer _)
    exact Step.setSt g _
  · exact Step.mqttSend g _ S.mqPingreq

theorem Step.handleSleep (S : Sites Sn Mq) (g : Gw) (d : UInt16) : Step Sn Mq E g (g.handleSleep d) := by
  unfold Gw.handleSleep
  refine Step.trans ?_ (Step.setSt _ _)
  refine Step.trans ?_ (Step.snSendNow _ _ S.disconnect0)
  refine Step.trans ?_ (Step.clearBufferUnlessAsleep _)
  exact Step.trans (Step.of_eq (g' := ({ g with sleepDur := d } : Gw)) rfl rfl rfl) (Step.armSleepPinger _ d)

/-- the only site that sends an MQTT DISCONNECT -/
theorem Step.handlePlainDisconnect (S : Sites Sn Mq) (g : Gw) (hd : E .disconnect) :
    Step Sn Mq E g g.handlePlainDisconnect := by
  unfold Gw.handlePlainDisconnect
  refine Step.trans ?_ (Step.fail _ _)
  refine Step.trans ?_ (Step.snSend _ _ none S.disconnect0)
  refine Step.trans ?_ (Step.setSt _ _)
  exact Step.mqttSendExtra g _ hd

theorem Step.handleDisconnect (S : Sites Sn Mq) (g : Gw) (d : UInt16) (hd : d = 0 → E .disconnect) :
    Step Sn Mq E g (g.handleDisconnect d) := by
  unfold Gw.handleDisconnect
  split
  · exact Step.handlePlainDisconnect S g (hd ‹_›)
  · exact Step.handleSleep S g d

/-! ### broker → client -/

theorem lookupByIdB_mem {g : Gw} {mid : UInt16} {t : Tx} (h : g.lookupByIdB mid = some t) : t ∈ g.txs := by
  unfold Gw.lookupByIdB at h
  obtain ⟨id, _, hg⟩ := Option.bind_eq_some_iff.mp h
  exact getTx_mem hg

theorem lookupById_mem {g : Gw} {mid : UInt16} {t : Tx} (h : g.lookupById mid = some t) : t ∈ g.txs := by
  unfold Gw.lookupById at h
  obtain ⟨id, _, hg⟩ := Option.bind_eq_some_iff.mp h
  exact getTx_mem hg

theorem Step.bpRegack (g : Gw) (t : Tx) (ht : t ∈ g.txs) (q : UInt8) (st : BpSt) (data : BpData) (snp : Option Pkt)
    (n : Nat) (hk : t.kind = .brokerPub q st data snp n) (rc : UInt8) :
    Step Sn Mq E g (g.bpRegack t q st data snp rc) := by
  intro w
  have hko := w.2 t ht
  rw [hk] at hko
  revert w
  unfold Gw.bpRegack
  split
  · exact Step.refl g
  · split
    · exact Step.finishTx g _
    · split
      · rename_i tid m name pub
        exact Step.trans (Step.storeRegistered g _ _) (Step.proceedSN _ _ _ _ (hko.2.2 pub rfl))
      · exact Step.refl g

theorem Step.startBrokerPub (g : Gw) (qos : UInt8) (msgId : UInt16) (st0 : BpSt) (snp : Option Pkt) (st : BpSt)
    (first : Pkt) (hs : ∀ p, snp = some p → Sn p) (hf : Sn first) :
    Step Sn Mq E g (g.startBrokerPub qos msgId st0 snp st first) := by
  unfold Gw.startBrokerPub
  refine Step.trans ?_ (Step.proceedSN _ _ _ _ hf)
  refine Step.trans ?_ (Step.storeByIdB _ _ _)
  exact Step.newTx g _ _ _ (fun _ => ⟨(fun p e => by cases e), (fun p e => by cases e), hs⟩)

theorem brokerTopicId_tit {g : Gw} {topic : Bytes} {tid : UInt16} {tit : UInt8}
    (h : g.brokerTopicId topic = some (tid, tit)) : tit ≤ 2 := by
  unfold Gw.brokerTopicId at h
  split at h
  · simp only [Option.some.injEq, Prod.mk.injEq] at h; rw [← h.2]; decide
  · split at h
    · simp only [Option.some.injEq, Prod.mk.injEq] at h; rw [← h.2]; decide
    · split at h
      · simp only [Option.some.injEq, Prod.mk.injEq] at h; rw [← h.2]; decide
      · simp at h

theorem Step.handleBrokerPublish (S : Sites Sn Mq) (g : Gw) (dup : Bool) (qos : UInt8) (retain : Bool) (mid : UInt16)
    (topic payload : Bytes) : Step Sn Mq E g (g.handleBrokerPublish dup qos retain mid topic payload) := by
  unfold Gw.handleBrokerPublish
  split
  · exact Step.refl g
  · rename_i hlen
    have hlen' : payload.length ≤ Gen.MaxPayloadLength ∧ topic.length ≤ Gen.MaxPayloadLength := by
      constructor <;> (apply Nat.le_of_not_gt; intro h; exact hlen (by simp [h]))
    split
    · exact Step.refl g
    · rename_i hne
      have hne' : topic ≠ [] := by
        intro e; rw [e] at hne; simp at hne
      split
      · rename_i tid tit hb
        have htit := brokerTopicId_tit hb
        split
        · rename_i h0
          exact Step.snSend g _ none (S.publish _ _ _ _ _ _ _ (by rw [h0]; decide) htit hlen'.1)
        · split
          · exact Step.fail g _
          · rename_i hq
            exact Step.startBrokerPub g _ _ _ _ _ _ (fun p e => by cases e)
              (S.publish _ _ _ _ _ _ _ (UInt8.not_lt.mp hq) htit hlen'.1)
      · split
        · exact Step.fail g _
        · split
          · exact Step.fail g _
          · rename_i hq
            split
            · rename_i g' h
              exact Step.trans (Step.registrationTopicId' h) (Step.fail _ _)
            · rename_i newId g' h
              refine Step.trans (Step.registrationTopicId' h) ?_
              refine Step.startBrokerPub g' _ _ _ _ _ _ (fun p e => ?_) (S.register _ _ _ hne' hlen'.2)
              cases e
              exact S.publish _ _ _ _ _ _ _ (UInt8.not_lt.mp hq) (by decide) hlen'.1

end Bisquitt.Gw
