/-
  Frame lemmas for C08 (all runs): with authentication enabled, as long as no AUTH datagram has
  come, every connect exchange is still waiting for it (`AllAwait`) and no MQTT CONNECT has been
  written (`mqConnects`).  `F8 g g'` says that a model function keeps the configuration, adds no
  MQTT CONNECT to the log and keeps `AllAwait`.
-/
import Bisquitt.Lemmas.GwAsleep

namespace Bisquitt.Gw
open Bisquitt Gw

def notConnect : MqPkt → Bool | .connect .. => false | _ => true

/-- a connect exchange, if this is one, still waits for AUTH; a broker-publish exchange never holds an
    MQTT CONNECT as the packet to resend -/
def kindOk8 (k : TxKind) : Prop :=
  (∀ st f, k = .connect st f → st = .awaitingAuth) ∧
  (∀ q st p snp n, k = .brokerPub q st (.mq p) snp n → notConnect p = true)
abbrev awaitAuthOnly (t : Tx) : Prop := kindOk8 t.kind

theorem ok_subscribe (tid : UInt16) : kindOk8 (.subscribe tid) :=
  ⟨fun _ _ hk => (by cases hk), fun _ _ _ _ _ hk => (by cases hk)⟩
theorem ok_clientPub1 (tid : UInt16) : kindOk8 (.clientPub1 tid) :=
  ⟨fun _ _ hk => (by cases hk), fun _ _ _ _ _ hk => (by cases hk)⟩
theorem ok_connect_awaitingAuth (f : ConnFields) : kindOk8 (.connect .awaitingAuth f) :=
  ⟨fun st f' hk => (by injection hk with h1 _; exact h1.symm), fun _ _ _ _ _ hk => (by cases hk)⟩
theorem ok_bp (q : UInt8) (st : BpSt) (d : BpData) (snp : Option Pkt) (n : Nat)
    (hd : ∀ p, d = .mq p → notConnect p = true) : kindOk8 (.brokerPub q st d snp n) := by
  refine ⟨fun _ _ hk => (by cases hk), fun q' st' p snp' n' hk => ?_⟩
  have hdp : d = .mq p := by injection hk
  exact hd p hdp
def AllAwait (g : Gw) : Prop := ∀ t ∈ g.txs, awaitAuthOnly t

def isMqConnect (o : Nat × Out) : Bool := match o.2 with | .mq (.connect ..) => true | _ => false
/-- the MQTT CONNECT packets written so far -/
def mqConnects (g : Gw) : List (Nat × Out) := g.outs.filter isMqConnect

structure F8 (g g' : Gw) : Prop where
  cfg : g'.cfg = g.cfg
  keep : AllAwait g → AllAwait g' ∧ mqConnects g' = mqConnects g

theorem F8.txs {g g' : Gw} (h : F8 g g') (hA : AllAwait g) : AllAwait g' := (h.keep hA).1
theorem F8.outs {g g' : Gw} (h : F8 g g') (hA : AllAwait g) : mqConnects g' = mqConnects g := (h.keep hA).2

theorem F8.refl (g : Gw) : F8 g g := ⟨rfl, fun h => ⟨h, rfl⟩⟩
theorem F8.trans {a b c : Gw} (h1 : F8 a b) (h2 : F8 b c) : F8 a c :=
  ⟨h2.cfg.trans h1.cfg, fun h => ⟨h2.txs (h1.txs h), (h2.outs (h1.txs h)).trans (h1.outs h)⟩⟩
theorem F8.of_eq {g g' : Gw} (hc : g'.cfg = g.cfg) (ho : g'.outs = g.outs) (ht : g'.txs = g.txs) : F8 g g' :=
  ⟨hc, fun h => ⟨by unfold AllAwait; rw [ht]; exact h, by unfold mqConnects; rw [ho]⟩⟩

theorem F8.emit (g : Gw) (o : Out) (h : isMqConnect (g.now, o) = false) : F8 g (g.emit o) :=
  ⟨rfl, fun hA => ⟨hA, by unfold mqConnects Gw.emit; simp [h]⟩⟩
theorem F8.snSend (g : Gw) (p : Pkt) (tx : Option Nat) : F8 g (g.snSend p tx) := by
  unfold Gw.snSend
  split
  · exact F8.of_eq rfl rfl rfl
  · exact F8.emit g _ rfl
theorem F8.snSendNow (g : Gw) (p : Pkt) : F8 g (g.snSendNow p) := F8.emit g _ rfl
theorem F8.mqttSend (g : Gw) (p : MqPkt) (h : notConnect p = true) : F8 g (g.mqttSend p) := by
  unfold Gw.mqttSend
  refine F8.emit g _ ?_
  cases p <;> simp_all [isMqConnect, notConnect]

theorem F8.setTx (g : Gw) (t : Tx) (h : AllAwait g → awaitAuthOnly t) : F8 g (g.setTx t) := by
  refine ⟨rfl, fun hA => ⟨?_, rfl⟩⟩
  intro x hx
  unfold Gw.setTx at hx
  simp only [List.mem_map] at hx
  obtain ⟨y, hy, rfl⟩ := hx
  split
  · exact h hA
  · exact hA y hy

theorem getTx_mem' {g : Gw} {id : Nat} {t : Tx} (h : g.getTx id = some t) : t ∈ g.txs := by
  unfold getTx at h
  exact List.mem_of_find?_eq_some h

theorem F8.runFinally (g : Gw) (t : Tx) : F8 g (g.runFinally t) := by
  unfold Gw.runFinally
  split
  · split <;> exact F8.of_eq rfl rfl rfl
  · split <;> exact F8.of_eq rfl rfl rfl
  · exact F8.of_eq rfl rfl rfl

theorem F8.finishTx (g : Gw) (id : Nat) : F8 g (g.finishTx id) := by
  unfold Gw.finishTx
  split
  · rename_i t ht
    split
    · exact F8.refl g
    · exact F8.trans
        (F8.setTx g { t with done := true, timer := none } (fun hA => hA t (getTx_mem' ht)))
        (F8.runFinally _ t)
  · exact F8.refl g

theorem F8.fail (g : Gw) (c : EndCls) : F8 g (g.fail c) := by
  unfold Gw.fail; split <;> exact F8.of_eq rfl rfl rfl

theorem F8.newTx (g : Gw) (k : TxKind) (key : TxKey) (tm : Option Nat) (h : kindOk8 k) : F8 g (g.newTx k key tm).2 := by
  refine ⟨rfl, fun hA => ⟨?_, rfl⟩⟩
  intro x hx
  unfold Gw.newTx at hx
  simp only [List.mem_append, List.mem_singleton] at hx
  rcases hx with hx | rfl
  · exact hA x hx
  · exact h

theorem F8.storeById (g : Gw) (m : UInt16) (id : Nat) : F8 g (g.storeById m id) := F8.of_eq rfl rfl rfl
theorem F8.storeByIdB (g : Gw) (m : UInt16) (id : Nat) : F8 g (g.storeByIdB m id) := F8.of_eq rfl rfl rfl
theorem F8.storeRegistered (g : Gw) (id : UInt16) (n : Bytes) : F8 g (g.storeRegistered id n) := F8.of_eq rfl rfl rfl
theorem F8.setConnectTx (g : Gw) (id : Nat) : F8 g (g.setConnectTx id) := F8.of_eq rfl rfl rfl
theorem F8.setSt (g : Gw) (s : CState) : F8 g (g.setSt s) := F8.of_eq rfl rfl rfl
theorem F8.setNow (g : Gw) (t : Nat) : F8 g (g.setNow t) := F8.of_eq rfl rfl rfl
theorem F8.clearBuffer (g : Gw) : F8 g g.clearBuffer := F8.of_eq rfl rfl rfl
theorem F8.cancelSleepPinger (g : Gw) : F8 g g.cancelSleepPinger := F8.of_eq rfl rfl rfl
theorem F8.startSleepPinger (g : Gw) (d : UInt16) : F8 g (g.startSleepPinger d) := F8.of_eq rfl rfl rfl
theorem F8.armSleepPinger (g : Gw) (d : UInt16) : F8 g (g.armSleepPinger d) := by
  unfold Gw.armSleepPinger
  split
  · exact F8.cancelSleepPinger g
  · exact (F8.cancelSleepPinger g).trans (F8.startSleepPinger _ _)
theorem F8.pingBroker (g : Gw) : F8 g g.pingBroker := by
  unfold Gw.pingBroker
  have h0 : F8 g ({ g with ownPings := g.ownPings + 1 } : Gw) := F8.of_eq rfl rfl rfl
  exact h0.trans (F8.mqttSend _ _ rfl)
theorem F8.keepBrokerAlive (g : Gw) : F8 g g.keepBrokerAlive := by
  unfold Gw.keepBrokerAlive
  split
  · exact F8.refl g
  · split
    · split
      · exact F8.refl g
      · exact F8.pingBroker g
    · exact F8.pingBroker g

theorem F8.newTopicId (g : Gw) : F8 g g.newTopicId.2 := by
  refine F8.of_eq ?_ (newTopicId_outs g) ?_
  · unfold Gw.newTopicId
    split
    · rfl
    · simp only
      split
      · rfl
      · split <;> rfl
  · unfold Gw.newTopicId
    split
    · rfl
    · simp only
      split
      · rfl
      · split <;> rfl
theorem F8.newTopicId' {g g' : Gw} {r : Option UInt16} (h : g.newTopicId = (r, g')) : F8 g g' := by
  have : g' = g.newTopicId.2 := by rw [h]
  rw [this]; exact F8.newTopicId g
theorem F8.registrationTopicId' {g g' : Gw} {topic : Bytes} {r : Option UInt16} (h : g.registrationTopicId topic = (r, g')) :
    F8 g g' := by
  have : g' = (g.registrationTopicId topic).2 := by rw [h]
  rw [this]
  rcases registrationTopicId_proj g topic with h | h | ⟨id, h⟩ <;> rw [h]
  · exact F8.refl g
  · exact F8.newTopicId g
  · exact F8.trans (F8.newTopicId g) (F8.of_eq rfl rfl rfl)

theorem F8.armBp (g : Gw) (t : Tx) (q : UInt8) (s : BpSt) (d : BpData) (snp : Option Pkt)
    (hd : ∀ p, d = .mq p → notConnect p = true) : F8 g (g.armBp t q s d snp) := by
  unfold Gw.armBp
  split
  · exact F8.refl g
  · exact F8.setTx g _ (fun _ => ok_bp _ _ _ _ _ hd)
theorem F8.finishIfDone (g : Gw) (id : Nat) (s : BpSt) : F8 g (g.finishIfDone id s) := by
  unfold Gw.finishIfDone; split
  · exact F8.finishTx g id
  · exact F8.refl g
theorem F8.proceedSN (g : Gw) (id : Nat) (s : BpSt) (p : Pkt) : F8 g (g.proceedSN id s p) := by
  unfold Gw.proceedSN
  split
  · split
    · exact ((F8.armBp g _ _ _ _ _ (fun _ e => by cases e)).trans (F8.snSend _ _ _)).trans (F8.finishIfDone _ _ _)
    · exact F8.refl g
  · exact F8.refl g
theorem F8.proceedMQ (g : Gw) (id : Nat) (s : BpSt) (p : MqPkt) (h : notConnect p = true) : F8 g (g.proceedMQ id s p) := by
  unfold Gw.proceedMQ
  split
  · split
    · exact ((F8.armBp g _ _ _ _ _ (fun _ e => by cases e; exact h)).trans (F8.mqttSend _ _ h)).trans (F8.finishIfDone _ _ _)
    · exact F8.refl g
  · exact F8.refl g

theorem F8.storeClientPub1 (g : Gw) (q : UInt8) (tid mid : UInt16) : F8 g (g.storeClientPub1 q tid mid) := by
  unfold Gw.storeClientPub1
  split
  · exact (F8.newTx g _ _ _ (ok_clientPub1 _)).trans (F8.storeById _ _ _)
  · exact F8.refl g
theorem F8.handleClientPublish (g : Gw) (dup : Bool) (q : UInt8) (r : Bool) (tit : UInt8) (tid mid : UInt16) (d : Bytes) :
    F8 g (g.handleClientPublish dup q r tit tid mid d) := by
  unfold Gw.handleClientPublish
  split
  · exact F8.fail g _
  · exact F8.fail g _
  · split
    · exact F8.fail g _
    · exact (F8.storeClientPub1 g _ _ _).trans (F8.mqttSend _ _ rfl)
theorem F8.forwardSubscribe (g : Gw) (dup : Bool) (q : UInt8) (mid : UInt16) (tp : Bytes) (tid : UInt16) :
    F8 g (g.forwardSubscribe dup q mid tp tid) := by
  unfold Gw.forwardSubscribe
  split
  · exact F8.fail g _
  · exact ((F8.newTx g _ _ _ (ok_subscribe _)).trans (F8.storeById _ _ _)).trans (F8.mqttSend _ _ rfl)
theorem F8.handleSubscribe (g : Gw) (dup : Bool) (q tit : UInt8) (mid tid : UInt16) (n : Bytes) :
    F8 g (g.handleSubscribe dup q tit mid tid n) := by
  unfold Gw.handleSubscribe
  split
  · exact F8.snSend g _ _
  · split
    · split
      · split
        · exact F8.forwardSubscribe g _ _ _ _ _
        · split
          · rename_i hn
            exact ((F8.newTopicId' hn).trans (F8.storeRegistered _ _ _)).trans (F8.forwardSubscribe _ _ _ _ _ _)
          · rename_i hn
            exact (F8.newTopicId' hn).trans (F8.snSend _ _ _)
      · exact F8.forwardSubscribe g _ _ _ _ _
    · split
      · split
        · exact F8.forwardSubscribe g _ _ _ _ _
        · exact F8.fail g _
      · split <;> exact F8.forwardSubscribe g _ _ _ _ _
theorem F8.forwardUnsubscribe (g : Gw) (mid : UInt16) (tp : Bytes) : F8 g (g.forwardUnsubscribe mid tp) := by
  unfold Gw.forwardUnsubscribe
  split
  · exact F8.fail g _
  · exact F8.mqttSend g _ rfl
theorem F8.handleUnsubscribe (g : Gw) (tit : UInt8) (mid tid : UInt16) (n : Bytes) : F8 g (g.handleUnsubscribe tit mid tid n) := by
  unfold Gw.handleUnsubscribe
  split
  · exact F8.forwardUnsubscribe g _ _
  · split
    · split
      · exact F8.forwardUnsubscribe g _ _
      · exact F8.fail g _
    · split <;> exact F8.forwardUnsubscribe g _ _
theorem F8.handleRegister (g : Gw) (mid : UInt16) (n : Bytes) : F8 g (g.handleRegister mid n) := by
  unfold Gw.handleRegister
  split
  · exact F8.snSend g _ _
  · split
    · exact F8.snSend g _ _
    · split
      · rename_i hn
        exact ((F8.newTopicId' hn).trans (F8.storeRegistered _ _ _)).trans (F8.snSend _ _ _)
      · rename_i hn
        exact (F8.newTopicId' hn).trans (F8.snSend _ _ _)
theorem F8.bpRegack (g : Gw) (t : Tx) (q : UInt8) (s : BpSt) (d : BpData) (snp : Option Pkt) (rc : UInt8) :
    F8 g (g.bpRegack t q s d snp rc) := by
  unfold Gw.bpRegack
  split
  · exact F8.refl g
  · split
    · exact F8.finishTx g _
    · split
      · exact (F8.storeRegistered g _ _).trans (F8.proceedSN _ _ _ _)
      · exact F8.refl g
theorem F8.startBrokerPub (g : Gw) (q : UInt8) (m : UInt16) (s0 : BpSt) (snp : Option Pkt) (s : BpSt) (p : Pkt) :
    F8 g (g.startBrokerPub q m s0 snp s p) := by
  unfold Gw.startBrokerPub
  exact ((F8.newTx g _ _ _ (ok_bp _ _ _ _ _ (fun _ e => by cases e))).trans (F8.storeByIdB _ _ _)).trans (F8.proceedSN _ _ _ _)
theorem F8.handleBrokerPublish (g : Gw) (dup : Bool) (q : UInt8) (r : Bool) (mid : UInt16) (tp pl : Bytes) :
    F8 g (g.handleBrokerPublish dup q r mid tp pl) := by
  unfold Gw.handleBrokerPublish
  split
  · exact F8.refl g
  · split
    · exact F8.refl g
    · split
      · split
        · exact F8.snSend g _ _
        · split
          · exact F8.fail g _
          · exact F8.startBrokerPub g _ _ _ _ _ _
      · split
        · exact F8.fail g _
        · split
          · exact F8.fail g _
          · split
            · rename_i hn; exact (F8.registrationTopicId' hn).trans (F8.fail _ _)
            · rename_i hn; exact (F8.registrationTopicId' hn).trans (F8.startBrokerPub _ _ _ _ _ _ _)

/-! ### the connect exchange while every exchange still waits for AUTH -/

theorem connTx_spec {g : Gw} {t : Tx} {st : ConnSt} {f : ConnFields} (h : g.connTx = some (t, st, f)) :
    t ∈ g.txs ∧ t.kind = .connect st f := by
  unfold connTx at h
  split at h
  · rename_i t' ht'
    split at h
    · rename_i st' f' hk
      simp only [Option.some.injEq, Prod.mk.injEq] at h
      obtain ⟨rfl, rfl, rfl⟩ := h
      refine ⟨?_, hk⟩
      cases hc : g.connectTx with
      | none => simp [hc] at ht'
      | some id => simp only [hc, Option.bind_some] at ht'; exact getTx_mem' ht'
    · cases h
  · cases h

theorem awaiting_of {g : Gw} {t : Tx} {st : ConnSt} {f : ConnFields} (hA : AllAwait g) (h : g.connTx = some (t, st, f)) :
    st = .awaitingAuth := (hA t (connTx_spec h).1).1 st f (connTx_spec h).2

theorem F8.connWillTopic (g : Gw) (t : Tx) (st : ConnSt) (f : ConnFields) (q : UInt8) (r : Bool) (tp : Bytes)
    (hs : st = .awaitingAuth) : F8 g (g.connWillTopic t st f q r tp) := by
  unfold Gw.connWillTopic
  simp [hs]
  exact F8.refl g
theorem F8.connWillMsg (g : Gw) (t : Tx) (st : ConnSt) (f : ConnFields) (m : Bytes)
    (hs : st = .awaitingAuth) : F8 g (g.connWillMsg t st f m) := by
  unfold Gw.connWillMsg
  simp [hs]
  exact F8.refl g
theorem F8.connConnack (g : Gw) (t : Tx) (st : ConnSt) (rc : UInt8) (hs : st = .awaitingAuth) : F8 g (g.connConnack t st rc) := by
  unfold Gw.connConnack
  simp [hs]
  exact F8.refl g

theorem F8.cancelOldConnect (g : Gw) : F8 g g.cancelOldConnect := by
  unfold Gw.cancelOldConnect
  split
  · exact F8.finishTx g _
  · exact F8.refl g

theorem F8.startConnect (g : Gw) (f : ConnFields) (ha : g.cfg.auth = true) : F8 g (g.startConnect f) := by
  unfold Gw.startConnect
  have h1 : F8 g (g.newTx (.connect .awaitingAuth f) .connectType (some (g.now + Gen.connectTransactionTimeout))).2 :=
    F8.newTx g _ _ _ (ok_connect_awaitingAuth f)
  have h2 := h1.trans (F8.setConnectTx _ g.nextTx)
  refine h2.trans ?_
  unfold Gw.startConnectTx
  have ha' : ((g.newTx (.connect .awaitingAuth f) .connectType (some (g.now + Gen.connectTransactionTimeout))).2.setConnectTx g.nextTx).cfg.auth = true := by
    rw [h2.cfg]; exact ha
  simp only [ha', if_true]
  exact F8.refl _

theorem foldl_snSend_F8 (its : List BufItem) : ∀ g : Gw, F8 g (its.foldl (fun acc it => acc.snSend it.pkt it.tx) g) := by
  induction its with
  | nil => intro g; exact F8.refl g
  | cons x xs ih => intro g; simp only [List.foldl_cons]; exact (F8.snSend g _ _).trans (ih _)

theorem F8.flushBuffer (g : Gw) : F8 g g.flushBuffer := by
  unfold Gw.flushBuffer
  simp only
  have h0 : F8 g ({ g with buffer := [] } : Gw) := F8.of_eq rfl rfl rfl
  have h1 := h0.trans (foldl_snSend_F8 g.buffer _)
  exact h1.trans (F8.of_eq rfl rfl rfl)

theorem F8.handleConnect (g : Gw) (will clean : Bool) (dur : UInt16) (cid : Bytes) (ha : g.cfg.auth = true) :
    F8 g (g.handleConnect will clean dur cid) := by
  unfold Gw.handleConnect
  split
  · have h0 : F8 g ({ g.cancelSleepPinger with st := .active } : Gw) := F8.of_eq rfl rfl rfl
    exact (h0.trans (F8.snSend _ _ _)).trans (F8.flushBuffer _)
  · split
    · exact F8.snSend g _ _
    · have h0 : F8 g ({ g with keepAlive := dur, clientId := cid } : Gw) := F8.of_eq rfl rfl rfl
      have h1 := h0.trans (F8.cancelOldConnect _)
      exact h1.trans (F8.startConnect _ _ (by rw [h1.cfg]; exact ha))

theorem F8.handlePingreq (g : Gw) : F8 g g.handlePingreq := by
  unfold Gw.handlePingreq
  split
  · exact ((((F8.setSt g _).trans (F8.flushBuffer _)).trans (F8.snSend _ _ _)).trans (F8.setSt _ _)).trans (F8.armSleepPinger _ _)
  · exact F8.mqttSend g _ rfl

theorem F8.handleSleep (g : Gw) (d : UInt16) : F8 g (g.handleSleep d) := by
  unfold Gw.handleSleep
  have h0 : F8 g ({ g with sleepDur := d } : Gw) := F8.of_eq rfl rfl rfl
  have h1 : F8 g (({ g with sleepDur := d } : Gw).armSleepPinger d) := h0.trans (F8.armSleepPinger _ _)
  have h2 : ∀ x : Gw, F8 x x.clearBufferUnlessAsleep := by
    intro x; unfold Gw.clearBufferUnlessAsleep; split
    · exact F8.clearBuffer x
    · exact F8.refl x
  exact ((h1.trans (h2 _)).trans (F8.snSendNow _ _)).trans (F8.setSt _ _)

theorem F8.handlePlainDisconnect (g : Gw) : F8 g g.handlePlainDisconnect := by
  unfold Gw.handlePlainDisconnect
  exact (((F8.mqttSend g _ rfl).trans (F8.setSt _ _)).trans (F8.snSend _ _ _)).trans (F8.fail _ _)

theorem F8.handleDisconnect (g : Gw) (d : UInt16) : F8 g (g.handleDisconnect d) := by
  unfold Gw.handleDisconnect
  split
  · exact F8.handlePlainDisconnect g
  · exact F8.handleSleep g d

/-! ### timers, the end of the session, the dispatchers -/

theorem F8.retryExpire (g : Gw) (t : Tx) (ht : t ∈ g.txs) : F8 g (g.retryExpire t) := by
  have keepKind : ∀ (tm : Option Nat), AllAwait g → awaitAuthOnly { t with timer := tm } := fun _ hA => hA t ht
  unfold Gw.retryExpire
  split
  · rename_i q st data snp n hk0
    split
    · exact F8.setTx g _ (keepKind none)
    · split
      · exact F8.setTx g _ (keepKind _)
      · split
        · exact F8.finishTx g _
        · split
          · rename_i p _
            have h1 : F8 g ({ g with buffer := g.buffer.map (fun (b : BufItem) =>
                if b.tx == some t.id && b.pkt == p then { b with pkt := setDup p } else b) } : Gw) := F8.of_eq rfl rfl rfl
            exact (h1.trans (F8.setTx _ _ (fun _ => ok_bp _ _ _ _ _ (fun _ e => by cases e)))).trans (F8.snSend _ _ _)
          · rename_i p _
            refine ⟨rfl, fun hA => ?_⟩
            have hp : notConnect p = true := (hA t ht).2 q st p snp n hk0
            have h2 := (F8.setTx g { t with kind := .brokerPub q st (.mq p) snp (n + 1), timer := some (g.now + g.cfg.retryDelay) }
              (fun _ => ok_bp _ _ _ _ _ (fun p' e => by cases e; exact hp))).trans (F8.mqttSend _ p hp)
            exact h2.keep hA
          · exact F8.finishTx g _
  · exact F8.refl g

theorem F8.txExpire (g : Gw) (t : Tx) (ht : t ∈ g.txs) : F8 g (g.txExpire t) := by
  have keepKind : ∀ (tm : Option Nat), AllAwait g → awaitAuthOnly { t with timer := tm } := fun _ hA => hA t ht
  unfold Gw.txExpire
  split
  · split
    · exact F8.setTx g _ (keepKind none)
    · exact (F8.finishTx g _).trans (F8.fail _ _)
  · split
    · exact F8.setTx g _ (keepKind none)
    · exact F8.finishTx g _
  · split
    · exact F8.setTx g _ (keepKind none)
    · exact F8.finishTx g _
  · exact F8.retryExpire g t ht

theorem F8.firePing (g : Gw) (i : Nat) : F8 g (g.firePing i) := by
  unfold Gw.firePing
  have h0 : F8 g ({ g with pingers := g.pingers.mapIdx (fun j (p : Pinger) =>
      if j = i then { p with next := p.next + p.period } else p) } : Gw) := F8.of_eq rfl rfl rfl
  exact h0.trans (F8.pingBroker _)

theorem F8.fireDue (g : Gw) (d : Due) : F8 g (g.fireDue d) := by
  unfold Gw.fireDue
  split
  · unfold Gw.fireTx
    split
    · rename_i t ht
      exact (F8.setNow g _).trans (F8.txExpire _ t (getTx_mem' ht))
    · exact F8.setNow g _
  · exact (F8.setNow g _).trans (F8.firePing _ _)
  · exact F8.of_eq rfl rfl rfl

end Bisquitt.Gw
