/-
  Helper lemmas for C20: no `Unpack` of the model can reach a Go bounds-check failure.
-/
import Bisquitt.Model.Wire

namespace Bisquitt
open Gen

theorem slice_ok {bs : Bytes} {i j : Nat} (h : i ≤ j ∧ j ≤ bs.length) :
    slice bs i j = .ok ((bs.drop i).take (j - i)) := by simp [slice, h]

/-- one step: rewrite bounds-checked reads that are in range to `.ok`, else split an `if`/`match` -/
macro "unpack_step" : tactic => `(tactic| first
  | (simp (discharger := omega) only [getB_ok, get16_ok, sliceFrom_ok, slice_ok, Res.ok_bind,
      Res.pure_eq, ne_eq, reduceCtorEq, not_false_eq_true]; done)
  | (simp (discharger := omega) only [getB_ok, get16_ok, sliceFrom_ok, slice_ok, Res.ok_bind,
      Res.pure_eq])
  | (split <;> (try gen_norm)))

macro "unpack_total" : tactic => `(tactic| (repeat' unpack_step))

theorem unpackAdvertise_total (buf : Bytes) : unpackAdvertise buf ≠ .panic := by
  unfold unpackAdvertise; unpack_total
theorem unpackSearchGw_total (buf : Bytes) : unpackSearchGw buf ≠ .panic := by
  unfold unpackSearchGw; unpack_total
theorem unpackGwInfo_total (buf : Bytes) : unpackGwInfo buf ≠ .panic := by
  unfold unpackGwInfo; unpack_total
theorem unpackAuth_total (buf : Bytes) : unpackAuth buf ≠ .panic := by
  unfold unpackAuth; unpack_total
theorem unpackConnect_total (buf : Bytes) : unpackConnect buf ≠ .panic := by
  unfold unpackConnect; unpack_total
theorem unpackConnack_total (buf : Bytes) : unpackConnack buf ≠ .panic := by
  unfold unpackConnack; unpack_total
theorem unpackWillTopicReq_total (buf : Bytes) : unpackWillTopicReq buf ≠ .panic := by
  unfold unpackWillTopicReq; unpack_total
theorem unpackWillTopicLike_total (mk) (buf : Bytes) : unpackWillTopicLike mk buf ≠ .panic := by
  unfold unpackWillTopicLike
  split
  · simp
  · simp
  · rename_i h0 h1
    have : 2 ≤ buf.length := by
      have h0' : buf.length ≠ 0 := h0
      have h1' : buf.length ≠ 1 := h1
      omega
    unpack_total
theorem unpackWillMsgReq_total (buf : Bytes) : unpackWillMsgReq buf ≠ .panic := by
  unfold unpackWillMsgReq; unpack_total
theorem unpackRegister_total (buf : Bytes) : unpackRegister buf ≠ .panic := by
  unfold unpackRegister; unpack_total
theorem unpackRegack_total (buf : Bytes) : unpackRegack buf ≠ .panic := by
  unfold unpackRegack; unpack_total
theorem unpackPublish_total (buf : Bytes) : unpackPublish buf ≠ .panic := by
  unfold unpackPublish; unpack_total
theorem unpackPuback_total (buf : Bytes) : unpackPuback buf ≠ .panic := by
  unfold unpackPuback; unpack_total
theorem unpackMsgIdOnly_total (mk) (n : UInt16) (buf : Bytes) (hn : 2 ≤ n.toNat) :
    unpackMsgIdOnly mk n buf ≠ .panic := by
  unfold unpackMsgIdOnly; unpack_total
theorem unpackSubscribe_total (buf : Bytes) : unpackSubscribe buf ≠ .panic := by
  unfold unpackSubscribe; unpack_total
theorem unpackSuback_total (buf : Bytes) : unpackSuback buf ≠ .panic := by
  unfold unpackSuback; unpack_total
theorem unpackUnsubscribe_total (buf : Bytes) : unpackUnsubscribe buf ≠ .panic := by
  unfold unpackUnsubscribe; unpack_total
theorem unpackDisconnect_total (buf : Bytes) : unpackDisconnect buf ≠ .panic := by
  unfold unpackDisconnect; unpack_total
theorem unpackRcOnly_total (mk) (n : UInt16) (buf : Bytes) (hn : 1 ≤ n.toNat) :
    unpackRcOnly mk n buf ≠ .panic := by
  unfold unpackRcOnly; unpack_total
theorem headerUnpack_total (buf : Bytes) : Header.unpack buf ≠ .panic := by
  unfold Header.unpack; unpack_total

end Bisquitt
