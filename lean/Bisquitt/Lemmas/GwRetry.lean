/-
  Frame lemmas for C16 (all runs, gateway half): the retry counter of a broker-publish exchange never exceeds
  RetryCount — `AllB g`: every stored exchange `brokerPub q st data snp n` has `n ≤ cfg.retryCount`.  `FB g g'`
  says that a model function keeps the configuration and `AllB`.  With `c16_retry_resends` (a retry-timer
  expiry with budget left sends exactly one copy and counts it) and `c16_retry_gives_up` (budget used up: nothing
  is sent, the exchange ends) this is "at most RetryCount retransmissions of any one step" for every run.
-/
import Bisquitt.Lemmas.GwCreds

namespace Bisquitt.Gw
open Bisquitt Gw

def kindOkB (cfg : Cfg) (k : TxKind) : Prop := ∀ q st d snp n, k = .brokerPub q st d snp n → n ≤ cfg.retryCount
def AllB (g : Gw) : Prop := ∀ t ∈ g.txs, kindOkB g.cfg t.kind

structure FB (g g' : Gw) : Prop where
  cfg : g'.cfg = g.cfg
  keep : AllB g → AllB g'

theorem FB.refl (g : Gw) : FB g g := ⟨rfl, fun h => h⟩
theorem FB.trans {a b c : Gw} (h1 : FB a b) (h2 : FB b c) : FB a c := ⟨h2.cfg.trans h1.cfg, fun h => h2.keep (h1.keep h)⟩
theorem FB.of_eq {g g' : Gw} (hc : g'.cfg = g.cfg) (ho : g'.outs = g.outs) (ht : g'.txs = g.txs) : FB g g' :=
  ⟨hc, fun h => by unfold AllB; rw [ht, hc]; exact h⟩

theorem okb_other {cfg : Cfg} {k : TxKind} (h : ∀ q st d snp n, k ≠ .brokerPub q st d snp n) : kindOkB cfg k :=
  fun q st d snp n e => absurd e (h q st d snp n)
theorem okb_bp {cfg : Cfg} (q : UInt8) (st : BpSt) (d : BpData) (snp : Option Pkt) (n : Nat) (hn : n ≤ cfg.retryCount) :
    kindOkB cfg (.brokerPub q st d snp n) := by
  intro q' st' d' snp' n' e
  injection e with _ _ _ _ e5
  rw [← e5]; exact hn

theorem FB.emit (g : Gw) (o : Out) : FB g (g.emit o) := FB.of_eq rfl rfl rfl |>.trans ⟨rfl, fun h => h⟩
theorem FB.snSend (g : Gw) (p : Pkt) (tx : Option Nat) : FB g (g.snSend p tx) := by
  unfold Gw.snSend
  split
  · exact FB.of_eq rfl rfl rfl
  · exact ⟨rfl, fun h => h⟩
theorem FB.snSendNow (g : Gw) (p : Pkt) : FB g (g.snSendNow p) := ⟨rfl, fun h => h⟩
theorem FB.mqttSend (g : Gw) (p : MqPkt) : FB g (g.mqttSend p) := ⟨rfl, fun h => h⟩

theorem FB.setTx (g : Gw) (t : Tx) (h : AllB g → kindOkB g.cfg t.kind) : FB g (g.setTx t) := by
  refine ⟨rfl, fun hA => ?_⟩
  intro x hx
  unfold Gw.setTx at hx
  simp only [List.mem_map] at hx
  obtain ⟨y, hy, rfl⟩ := hx
  split
  · exact h hA
  · exact hA y hy

theorem FB.runFinally (g : Gw) (t : Tx) : FB g (g.runFinally t) := by
  unfold Gw.runFinally
  split
  · split <;> exact FB.of_eq rfl rfl rfl
  · split <;> exact FB.of_eq rfl rfl rfl
  · exact FB.of_eq rfl rfl rfl

theorem FB.finishTx (g : Gw) (id : Nat) : FB g (g.finishTx id) := by
  unfold Gw.finishTx
  split
  · rename_i t ht
    split
    · exact FB.refl g
    · exact FB.trans
        (FB.setTx g { t with done := true, timer := none } (fun hA => hA t (getTx_mem' ht)))
        (FB.runFinally _ t)
  · exact FB.refl g

theorem FB.fail (g : Gw) (c : EndCls) : FB g (g.fail c) := by
  unfold Gw.fail; split <;> exact FB.of_eq rfl rfl rfl

theorem FB.newTx (g : Gw) (k : TxKind) (key : TxKey) (tm : Option Nat) (h : kindOkB g.cfg k) : FB g (g.newTx k key tm).2 := by
  refine ⟨rfl, fun hA => ?_⟩
  intro x hx
  unfold Gw.newTx at hx
  simp only [List.mem_append, List.mem_singleton] at hx
  rcases hx with hx | rfl
  · exact hA x hx
  · exact h

theorem FB.storeById (g : Gw) (m : UInt16) (id : Nat) : FB g (g.storeById m id) := FB.of_eq rfl rfl rfl
theorem FB.storeByIdB (g : Gw) (m : UInt16) (id : Nat) : FB g (g.storeByIdB m id) := FB.of_eq rfl rfl rfl
theorem FB.storeRegistered (g : Gw) (id : UInt16) (n : Bytes) : FB g (g.storeRegistered id n) := FB.of_eq rfl rfl rfl
theorem FB.setConnectTx (g : Gw) (id : Nat) : FB g (g.setConnectTx id) := FB.of_eq rfl rfl rfl
theorem FB.setSt (g : Gw) (s : CState) : FB g (g.setSt s) := FB.of_eq rfl rfl rfl
theorem FB.setNow (g : Gw) (t : Nat) : FB g (g.setNow t) := FB.of_eq rfl rfl rfl
theorem FB.clearBuffer (g : Gw) : FB g g.clearBuffer := FB.of_eq rfl rfl rfl
theorem FB.cancelSleepPinger (g : Gw) : FB g g.cancelSleepPinger := FB.of_eq rfl rfl rfl
theorem FB.startSleepPinger (g : Gw) (d : UInt16) : FB g (g.startSleepPinger d) := FB.of_eq rfl rfl rfl
theorem FB.armSleepPinger (g : Gw) (d : UInt16) : FB g (g.armSleepPinger d) := by
  unfold Gw.armSleepPinger
  split
  · exact FB.cancelSleepPinger g
  · exact (FB.cancelSleepPinger g).trans (FB.startSleepPinger _ _)
theorem FB.pingBroker (g : Gw) : FB g g.pingBroker := by
  unfold Gw.pingBroker
  have h0 : FB g ({ g with ownPings := g.ownPings + 1 } : Gw) := FB.of_eq rfl rfl rfl
  exact h0.trans (FB.mqttSend _ _)
theorem FB.keepBrokerAlive (g : Gw) : FB g g.keepBrokerAlive := by
  unfold Gw.keepBrokerAlive
  split
  · exact FB.refl g
  · split
    · split
      · exact FB.refl g
      · exact FB.pingBroker g
    · exact FB.pingBroker g

theorem FB.newTopicId (g : Gw) : FB g g.newTopicId.2 := by
  refine FB.of_eq ?_ (newTopicId_outs g) ?_
  · unfold Gw.newTopicId
    split
    · rfl
    · simp only
      split
      · rfl
      · split <;> rfl
  · unfold Gw.newTopicId
    split
    · rfl
    · simp only
      split
      · rfl
      · split <;> rfl
theorem FB.newTopicId' {g g' : Gw} {r : Option UInt16} (h : g.newTopicId = (r, g')) : FB g g' := by
  have : g' = g.newTopicId.2 := by rw [h]
  rw [this]; exact FB.newTopicId g
theorem FB.registrationTopicId' {g g' : Gw} {topic : Bytes} {r : Option UInt16} (h : g.registrationTopicId topic = (r, g')) :
    FB g g' := by
  have : g' = (g.registrationTopicId topic).2 := by rw [h]
  rw [this]
  rcases registrationTopicId_proj g topic with h | h | ⟨id, h⟩ <;> rw [h]
  · exact FB.refl g
  · exact FB.newTopicId g
  · exact FB.trans (FB.newTopicId g) (FB.of_eq rfl rfl rfl)

theorem FB.armBp (g : Gw) (t : Tx) (q : UInt8) (s : BpSt) (d : BpData) (snp : Option Pkt)
    : FB g (g.armBp t q s d snp) := by
  unfold Gw.armBp
  split
  · exact FB.refl g
  · exact FB.setTx g _ (fun _ => okb_bp _ _ _ _ 0 (Nat.zero_le _))
theorem FB.finishIfDone (g : Gw) (id : Nat) (s : BpSt) : FB g (g.finishIfDone id s) := by
  unfold Gw.finishIfDone; split
  · exact FB.finishTx g id
  · exact FB.refl g
theorem FB.proceedSN (g : Gw) (id : Nat) (s : BpSt) (p : Pkt) : FB g (g.proceedSN id s p) := by
  unfold Gw.proceedSN
  split
  · split
    · exact ((FB.armBp g _ _ _ _ _).trans (FB.snSend _ _ _)).trans (FB.finishIfDone _ _ _)
    · exact FB.refl g
  · exact FB.refl g
theorem FB.proceedMQ (g : Gw) (id : Nat) (s : BpSt) (p : MqPkt) : FB g (g.proceedMQ id s p) := by
  unfold Gw.proceedMQ
  split
  · split
    · exact ((FB.armBp g _ _ _ _ _).trans (FB.mqttSend _ _)).trans (FB.finishIfDone _ _ _)
    · exact FB.refl g
  · exact FB.refl g

theorem FB.storeClientPub1 (g : Gw) (q : UInt8) (tid mid : UInt16) : FB g (g.storeClientPub1 q tid mid) := by
  unfold Gw.storeClientPub1
  split
  · exact (FB.newTx g _ _ _ (okb_other (fun _ _ _ _ _ e => by cases e))).trans (FB.storeById _ _ _)
  · exact FB.refl g
theorem FB.handleClientPublish (g : Gw) (dup : Bool) (q : UInt8) (r : Bool) (tit : UInt8) (tid mid : UInt16) (d : Bytes) :
    FB g (g.handleClientPublish dup q r tit tid mid d) := by
  unfold Gw.handleClientPublish
  split
  · exact FB.fail g _
  · exact FB.fail g _
  · split
    · exact FB.fail g _
    · exact (FB.storeClientPub1 g _ _ _).trans (FB.mqttSend _ _)
theorem FB.forwardSubscribe (g : Gw) (dup : Bool) (q : UInt8) (mid : UInt16) (tp : Bytes) (tid : UInt16) :
    FB g (g.forwardSubscribe dup q mid tp tid) := by
  unfold Gw.forwardSubscribe
  split
  · exact FB.fail g _
  · exact ((FB.newTx g _ _ _ (okb_other (fun _ _ _ _ _ e => by cases e))).trans (FB.storeById _ _ _)).trans (FB.mqttSend _ _)
theorem FB.handleSubscribe (g : Gw) (dup : Bool) (q tit : UInt8) (mid tid : UInt16) (n : Bytes) :
    FB g (g.handleSubscribe dup q tit mid tid n) := by
  unfold Gw.handleSubscribe
  split
  · exact FB.snSend g _ _
  · split
    · split
      · split
        · exact FB.forwardSubscribe g _ _ _ _ _
        · split
          · rename_i hn
            exact ((FB.newTopicId' hn).trans (FB.storeRegistered _ _ _)).trans (FB.forwardSubscribe _ _ _ _ _ _)
          · rename_i hn
            exact (FB.newTopicId' hn).trans (FB.snSend _ _ _)
      · exact FB.forwardSubscribe g _ _ _ _ _
    · split
      · split
        · exact FB.forwardSubscribe g _ _ _ _ _
        · exact FB.fail g _
      · split <;> exact FB.forwardSubscribe g _ _ _ _ _
theorem FB.forwardUnsubscribe (g : Gw) (mid : UInt16) (tp : Bytes) : FB g (g.forwardUnsubscribe mid tp) := by
  unfold Gw.forwardUnsubscribe
  split
  · exact FB.fail g _
  · exact FB.mqttSend g _
theorem FB.handleUnsubscribe (g : Gw) (tit : UInt8) (mid tid : UInt16) (n : Bytes) : FB g (g.handleUnsubscribe tit mid tid n) := by
  unfold Gw.handleUnsubscribe
  split
  · exact FB.forwardUnsubscribe g _ _
  · split
    · split
      · exact FB.forwardUnsubscribe g _ _
      · exact FB.fail g _
    · split <;> exact FB.forwardUnsubscribe g _ _
theorem FB.handleRegister (g : Gw) (mid : UInt16) (n : Bytes) : FB g (g.handleRegister mid n) := by
  unfold Gw.handleRegister
  split
  · exact FB.snSend g _ _
  · split
    · exact FB.snSend g _ _
    · split
      · rename_i hn
        exact ((FB.newTopicId' hn).trans (FB.storeRegistered _ _ _)).trans (FB.snSend _ _ _)
      · rename_i hn
        exact (FB.newTopicId' hn).trans (FB.snSend _ _ _)
theorem FB.bpRegack (g : Gw) (t : Tx) (q : UInt8) (s : BpSt) (d : BpData) (snp : Option Pkt) (rc : UInt8) :
    FB g (g.bpRegack t q s d snp rc) := by
  unfold Gw.bpRegack
  split
  · exact FB.refl g
  · split
    · exact FB.finishTx g _
    · split
      · exact (FB.storeRegistered g _ _).trans (FB.proceedSN _ _ _ _)
      · exact FB.refl g
theorem FB.startBrokerPub (g : Gw) (q : UInt8) (m : UInt16) (s0 : BpSt) (snp : Option Pkt) (s : BpSt) (p : Pkt) :
    FB g (g.startBrokerPub q m s0 snp s p) := by
  unfold Gw.startBrokerPub
  exact ((FB.newTx g _ _ _ (okb_bp _ _ _ _ 0 (Nat.zero_le _))).trans (FB.storeByIdB _ _ _)).trans (FB.proceedSN _ _ _ _)
theorem FB.handleBrokerPublish (g : Gw) (dup : Bool) (q : UInt8) (r : Bool) (mid : UInt16) (tp pl : Bytes) :
    FB g (g.handleBrokerPublish dup q r mid tp pl) := by
  unfold Gw.handleBrokerPublish
  split
  · exact FB.refl g
  · split
    · exact FB.refl g
    · split
      · split
        · exact FB.snSend g _ _
        · split
          · exact FB.fail g _
          · exact FB.startBrokerPub g _ _ _ _ _ _
      · split
        · exact FB.fail g _
        · split
          · exact FB.fail g _
          · split
            · rename_i hn; exact (FB.registrationTopicId' hn).trans (FB.fail _ _)
            · rename_i hn; exact (FB.registrationTopicId' hn).trans (FB.startBrokerPub _ _ _ _ _ _ _)

/-! ### the connect exchange -/

theorem okb_connect {cfg : Cfg} (st : ConnSt) (f : ConnFields) : kindOkB cfg (.connect st f) := okb_other (fun _ _ _ _ _ e => by cases e)

theorem FB.connAuthenticated (g : Gw) (t : Tx) (f : ConnFields) : FB g (g.connAuthenticated t f) := by
  unfold Gw.connAuthenticated
  split
  · exact (FB.setTx g _ (fun _ => okb_connect _ _)).trans (FB.snSend _ _ _)
  · exact (FB.setTx g _ (fun _ => okb_connect _ _)).trans (FB.mqttSend _ _)

theorem FB.sendConnack (g : Gw) (rc : UInt8) : FB g (g.sendConnack rc) := FB.snSend g _ _

theorem FB.connAuth (g : Gw) (t : Tx) (st : ConnSt) (f : ConnFields) (m d : Bytes) : FB g (g.connAuth t st f m d) := by
  unfold Gw.connAuth
  split
  · exact FB.refl g
  · split
    · split
      · exact (FB.finishTx g _).trans (FB.fail _ _)
      · exact FB.connAuthenticated g t _
    · exact ((FB.sendConnack g _).trans (FB.finishTx _ _)).trans (FB.fail _ _)

theorem FB.connWillTopic (g : Gw) (t : Tx) (st : ConnSt) (f : ConnFields) (q : UInt8) (r : Bool) (tp : Bytes) :
    FB g (g.connWillTopic t st f q r tp) := by
  unfold Gw.connWillTopic
  split
  · exact FB.refl g
  · split
    · exact (FB.finishTx g _).trans (FB.fail _ _)
    · exact (FB.setTx g _ (fun _ => okb_connect _ _)).trans (FB.snSend _ _ _)

theorem FB.connWillMsg (g : Gw) (t : Tx) (st : ConnSt) (f : ConnFields) (m : Bytes) : FB g (g.connWillMsg t st f m) := by
  unfold Gw.connWillMsg
  split
  · exact FB.refl g
  · exact (FB.setTx g _ (fun _ => okb_connect _ _)).trans (FB.mqttSend _ _)

theorem FB.connConnack (g : Gw) (t : Tx) (st : ConnSt) (rc : UInt8) : FB g (g.connConnack t st rc) := by
  unfold Gw.connConnack
  split
  · exact FB.refl g
  · split
    · exact ((FB.sendConnack g _).trans (FB.finishTx _ _)).trans (FB.fail _ _)
    · have h0 : FB g ({ g with st := .active } : Gw) := FB.of_eq rfl rfl rfl
      exact (h0.trans (FB.sendConnack _ _)).trans (FB.finishTx _ _)

theorem FB.cancelOldConnect (g : Gw) : FB g g.cancelOldConnect := by
  unfold Gw.cancelOldConnect
  split
  · exact FB.finishTx g _
  · exact FB.refl g

theorem FB.startConnect (g : Gw) (f : ConnFields) : FB g (g.startConnect f) := by
  unfold Gw.startConnect
  have h1 : FB g (g.newTx (.connect .awaitingAuth f) .connectType (some (g.now + Gen.connectTransactionTimeout))).2 :=
    FB.newTx g _ _ _ (okb_connect _ _)
  refine (h1.trans (FB.setConnectTx _ g.nextTx)).trans ?_
  unfold Gw.startConnectTx
  split
  · exact FB.refl _
  · split
    · exact FB.connAuthenticated _ _ _
    · exact FB.refl _

theorem foldl_snSend_FB (its : List BufItem) : ∀ g : Gw, FB g (its.foldl (fun acc it => acc.snSend it.pkt it.tx) g) := by
  induction its with
  | nil => intro g; exact FB.refl g
  | cons x xs ih => intro g; simp only [List.foldl_cons]; exact (FB.snSend g _ _).trans (ih _)

theorem FB.flushBuffer (g : Gw) : FB g g.flushBuffer := by
  unfold Gw.flushBuffer
  simp only
  have h0 : FB g ({ g with buffer := [] } : Gw) := FB.of_eq rfl rfl rfl
  have h1 := h0.trans (foldl_snSend_FB g.buffer _)
  exact h1.trans (FB.of_eq rfl rfl rfl)

theorem FB.handleConnect (g : Gw) (will clean : Bool) (dur : UInt16) (cid : Bytes) :
    FB g (g.handleConnect will clean dur cid) := by
  unfold Gw.handleConnect
  split
  · have h0 : FB g ({ g.cancelSleepPinger with st := .active } : Gw) := FB.of_eq rfl rfl rfl
    exact (h0.trans (FB.snSend _ _ _)).trans (FB.flushBuffer _)
  · split
    · exact FB.snSend g _ _
    · have h0 : FB g ({ g with keepAlive := dur, clientId := cid } : Gw) := FB.of_eq rfl rfl rfl
      have h1 := h0.trans (FB.cancelOldConnect _)
      exact h1.trans (FB.startConnect _ _)

theorem FB.handlePingreq (g : Gw) : FB g g.handlePingreq := by
  unfold Gw.handlePingreq
  split
  · exact ((((FB.setSt g _).trans (FB.flushBuffer _)).trans (FB.snSend _ _ _)).trans (FB.setSt _ _)).trans (FB.armSleepPinger _ _)
  · exact FB.mqttSend g _

theorem FB.handleSleep (g : Gw) (d : UInt16) : FB g (g.handleSleep d) := by
  unfold Gw.handleSleep
  have h0 : FB g ({ g with sleepDur := d } : Gw) := FB.of_eq rfl rfl rfl
  have h1 : FB g (({ g with sleepDur := d } : Gw).armSleepPinger d) := h0.trans (FB.armSleepPinger _ _)
  have h2 : ∀ x : Gw, FB x x.clearBufferUnlessAsleep := by
    intro x; unfold Gw.clearBufferUnlessAsleep; split
    · exact FB.clearBuffer x
    · exact FB.refl x
  exact ((h1.trans (h2 _)).trans (FB.snSendNow _ _)).trans (FB.setSt _ _)

theorem FB.handlePlainDisconnect (g : Gw) : FB g g.handlePlainDisconnect := by
  unfold Gw.handlePlainDisconnect
  exact (((FB.mqttSend g _).trans (FB.setSt _ _)).trans (FB.snSend _ _ _)).trans (FB.fail _ _)

theorem FB.handleDisconnect (g : Gw) (d : UInt16) : FB g (g.handleDisconnect d) := by
  unfold Gw.handleDisconnect
  split
  · exact FB.handlePlainDisconnect g
  · exact FB.handleSleep g d


/-! ### timers -/

theorem FB.retryExpire (g : Gw) (t : Tx) (ht : t ∈ g.txs) : FB g (g.retryExpire t) := by
  have keepKind : ∀ (tm : Option Nat), AllB g → kindOkB g.cfg ({ t with timer := tm } : Tx).kind := fun _ hA => hA t ht
  unfold Gw.retryExpire
  split
  · rename_i q st data snp n hk0
    split
    · exact FB.setTx g _ (keepKind none)
    · split
      · exact FB.setTx g _ (keepKind _)
      · split
        · exact FB.finishTx g _
        · rename_i hbudget
          have hn : n + 1 ≤ g.cfg.retryCount := Nat.le_of_not_gt hbudget
          split
          · rename_i p _
            have h1 : FB g ({ g with buffer := g.buffer.map (fun (b : BufItem) =>
                if b.tx == some t.id && b.pkt == p then { b with pkt := setDup p } else b) } : Gw) := FB.of_eq rfl rfl rfl
            exact (h1.trans (FB.setTx _ _ (fun _ => okb_bp _ _ _ _ (n + 1) hn))).trans (FB.snSend _ _ _)
          · rename_i p _
            exact (FB.setTx g { t with kind := .brokerPub q st (.mq p) snp (n + 1), timer := some (g.now + g.cfg.retryDelay) }
              (fun _ => okb_bp _ _ _ _ (n + 1) hn)).trans (FB.mqttSend _ p)
          · exact FB.finishTx g _
  · exact FB.refl g

theorem FB.txExpire (g : Gw) (t : Tx) (ht : t ∈ g.txs) : FB g (g.txExpire t) := by
  have keepKind : ∀ (tm : Option Nat), AllB g → kindOkB g.cfg ({ t with timer := tm } : Tx).kind := fun _ hA => hA t ht
  unfold Gw.txExpire
  split
  · split
    · exact FB.setTx g _ (keepKind none)
    · exact (FB.finishTx g _).trans (FB.fail _ _)
  · split
    · exact FB.setTx g _ (keepKind none)
    · exact FB.finishTx g _
  · split
    · exact FB.setTx g _ (keepKind none)
    · exact FB.finishTx g _
  · exact FB.retryExpire g t ht

theorem FB.firePing (g : Gw) (i : Nat) : FB g (g.firePing i) := by
  unfold Gw.firePing
  have h0 : FB g ({ g with pingers := g.pingers.mapIdx (fun j (p : Pinger) =>
      if j = i then { p with next := p.next + p.period } else p) } : Gw) := FB.of_eq rfl rfl rfl
  exact h0.trans (FB.pingBroker _)

theorem FB.fireDue (g : Gw) (d : Due) : FB g (g.fireDue d) := by
  unfold Gw.fireDue
  split
  · unfold Gw.fireTx
    split
    · rename_i t ht
      exact (FB.setNow g _).trans (FB.txExpire _ t (getTx_mem' ht))
    · exact FB.setNow g _
  · exact (FB.setNow g _).trans (FB.firePing _ _)
  · exact FB.of_eq rfl rfl rfl

end Bisquitt.Gw
