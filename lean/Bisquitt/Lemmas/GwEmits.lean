/-
  Framework for output-shape theorems about the gateway model (used by C14, C23, C24, C01 …):
  every function of `Model/Gateway.lean` only ever EXTENDS the output log, and what it adds is
  constrained by a family of per-site permissions (`Sites`); the packets parked in the sleep
  buffer and in transactions satisfy the same permissions (`WF`), so that flushing / resending
  them later is covered too.
-/
import Bisquitt.Lemmas.GwRegId

namespace Bisquitt.Gw
open Bisquitt Gw

variable (Sn : Pkt → Prop) (Mq : MqPkt → Prop) (E : MqPkt → Prop)

/-- what an output may be: a datagram that is the encoding of a permitted packet, a permitted
    MQTT packet, or anything else (end / close / instrumentation) -/
def OutOk : Out → Prop
  | .sn b => ∃ p, Sn p ∧ b = encode p
  | .mq p => Mq p ∨ E p
  | _ => True

/-- `g'` extends the output log of `g` by permitted outputs only -/
def Emits (g g' : Gw) : Prop :=
  ∃ new : List (Nat × Out), g'.outs = new ++ g.outs ∧ ∀ x ∈ new, OutOk Sn Mq E x.2

variable {Sn Mq E}

theorem Emits.refl (g : Gw) : Emits Sn Mq E g g := ⟨[], rfl, by simp⟩

theorem Emits.of_outs_eq {g g' : Gw} (h : g'.outs = g.outs) : Emits Sn Mq E g g' := ⟨[], by simp [h], by simp⟩

theorem Emits.trans {a b c : Gw} (h1 : Emits Sn Mq E a b) (h2 : Emits Sn Mq E b c) : Emits Sn Mq E a c := by
  obtain ⟨n1, e1, p1⟩ := h1
  obtain ⟨n2, e2, p2⟩ := h2
  refine ⟨n2 ++ n1, by rw [e2, e1, List.append_assoc], ?_⟩
  intro x hx
  rcases List.mem_append.mp hx with h | h
  · exact p2 x h
  · exact p1 x h

theorem Emits.emit (g : Gw) (o : Out) (h : OutOk Sn Mq E o) : Emits Sn Mq E g (g.emit o) :=
  ⟨[(g.now, o)], rfl, by simpa using h⟩

/-- an `Emits` step followed by a change that does not touch the log -/
theorem Emits.then_eq {a b c : Gw} (h1 : Emits Sn Mq E a b) (h : c.outs = b.outs) : Emits Sn Mq E a c :=
  h1.trans (Emits.of_outs_eq h)

/-! ### functions that never touch the output log -/
@[simp] theorem setTx_outs (g : Gw) (t : Tx) : (g.setTx t).outs = g.outs := rfl
@[simp] theorem runFinally_outs (g : Gw) (t : Tx) : (g.runFinally t).outs = g.outs := by
  unfold runFinally; split <;> (try split) <;> rfl
@[simp] theorem finishTx_outs (g : Gw) (id : Nat) : (g.finishTx id).outs = g.outs := by
  unfold finishTx; split <;> (try split) <;> simp
@[simp] theorem fail_outs (g : Gw) (c : EndCls) : (g.fail c).outs = g.outs := by
  unfold fail; split <;> rfl
@[simp] theorem newTx_outs (g : Gw) (k : TxKind) (key : TxKey) (tm : Option Nat) : (g.newTx k key tm).2.outs = g.outs := rfl
@[simp] theorem storeById_outs (g : Gw) (m : UInt16) (id : Nat) : (g.storeById m id).outs = g.outs := rfl
@[simp] theorem storeRegistered_outs (g : Gw) (id : UInt16) (n : Bytes) : (g.storeRegistered id n).outs = g.outs := rfl
@[simp] theorem startSleepPinger_outs (g : Gw) (d : UInt16) : (g.startSleepPinger d).outs = g.outs := rfl
@[simp] theorem newTopicId_outs (g : Gw) : g.newTopicId.2.outs = g.outs := by
  unfold newTopicId
  split
  · rfl
  · simp only
    split
    · rfl
    · split <;> rfl

@[simp] theorem registrationTopicId_outs (g : Gw) (topic : Bytes) : (g.registrationTopicId topic).2.outs = g.outs := by
  rcases registrationTopicId_proj g topic with h | h | ⟨id, h⟩ <;> rw [h]
  · exact newTopicId_outs g
  · exact newTopicId_outs g

/-! ### the two senders -/
theorem snSend_emits (g : Gw) (p : Pkt) (tx : Option Nat) (h : Sn p) : Emits Sn Mq E g (g.snSend p tx) := by
  unfold snSend
  split
  · exact Emits.of_outs_eq rfl
  · exact Emits.emit g _ ⟨p, h, rfl⟩

theorem mqttSend_emits (g : Gw) (p : MqPkt) (h : Mq p) : Emits Sn Mq E g (g.mqttSend p) :=
  Emits.emit g _ (Or.inl h)

/-- the extra permission `E` (used for the one site that may send an MQTT DISCONNECT) -/
theorem mqttSend_emits_extra (g : Gw) (p : MqPkt) (h : E p) : Emits Sn Mq E g (g.mqttSend p) :=
  Emits.emit g _ (Or.inr h)

end Bisquitt.Gw

namespace Bisquitt.Gw
open Bisquitt Gw

variable (Sn : Pkt → Prop) (Mq : MqPkt → Prop) (E : MqPkt → Prop)

/-- a CONNECT under construction is a valid MQTT CONNECT as far as the will is concerned -/
def ConnOk (f : ConnFields) : Prop := f.will = !f.wt.isEmpty ∧ f.wq ≤ 2

def ConnInv : ConnSt → ConnFields → Prop
  | .awaitingAuth, f => f.wt = [] ∧ f.wq = 0
  | .awaitingWillTopic, f => f.wt = [] ∧ f.wq = 0 ∧ f.will = true
  | .awaitingWillMsg, f | .awaitingConnack, f => ConnOk f

/-- packets parked in a transaction may be (re)sent later: they carry the same permissions -/
def KindOk : TxKind → Prop
  | .brokerPub _ _ data snp _ =>
    (∀ p, data = .sn p → Sn p) ∧ (∀ p, data = .mq p → Mq p) ∧ (∀ p, snp = some p → Sn p)
  | .connect st f => ConnInv st f
  | _ => True

def WF (g : Gw) : Prop := (∀ it ∈ g.buffer, Sn it.pkt) ∧ (∀ t ∈ g.txs, KindOk Sn Mq t.kind)

/-- one model function call: from a well-formed state it extends the log by permitted outputs
    only and ends in a well-formed state -/
def Step (g g' : Gw) : Prop := WF Sn Mq g → Emits Sn Mq E g g' ∧ WF Sn Mq g'

/-- the emission sites of the model and what each may send -/
structure Sites : Prop where
  connack : ∀ rc, Sn (.connack rc)
  willtopicreq : Sn .willtopicreq
  willmsgreq : Sn .willmsgreq
  regack : ∀ id mid rc, Sn (.regack id mid rc)
  suback : ∀ q id mid rc, q ≤ 2 → Sn (.suback q id mid rc)
  puback : ∀ id mid rc, Sn (.puback id mid rc)
  pubrec : ∀ mid, Sn (.pubrec mid)
  pubcomp : ∀ mid, Sn (.pubcomp mid)
  pubrel : ∀ mid, Sn (.pubrel mid)
  unsuback : ∀ mid, Sn (.unsuback mid)
  pingresp : Sn .pingresp
  disconnect0 : Sn (.disconnect 0)
  publish : ∀ dup q r tit tid mid data, q ≤ 2 → tit ≤ 2 → data.length ≤ Gen.MaxPayloadLength →
    Sn (.publish dup q r tit tid mid data)
  register : ∀ tid mid name, name ≠ [] → name.length ≤ Gen.MaxPayloadLength → Sn (.register tid mid name)
  dup : ∀ p, Sn p → Sn (setDup p)
  mqConnect : ∀ f, ConnOk f → Mq f.toPkt
  mqPublish : ∀ dup q r mid topic data, q ≤ 2 → topic ≠ [] → hasWildcard topic = false →
    Mq (.publish dup q r mid topic data)
  mqSubscribe : ∀ mid dup topic q, topic ≠ [] → q ≤ 2 → Mq (.subscribe mid dup topic q)
  mqUnsubscribe : ∀ mid topic, topic ≠ [] → Mq (.unsubscribe mid topic)
  mqPuback : ∀ mid, Mq (.puback mid)
  mqPubrec : ∀ mid, Mq (.pubrec mid)
  mqPubrel : ∀ mid, Mq (.pubrel mid)
  mqPubcomp : ∀ mid, Mq (.pubcomp mid)
  mqPingreq : Mq .pingreq

variable {Sn Mq E}

theorem Step.refl (g : Gw) : Step Sn Mq E g g := fun w => ⟨Emits.refl g, w⟩

theorem Step.trans {a b c : Gw} (h1 : Step Sn Mq E a b) (h2 : Step Sn Mq E b c) : Step Sn Mq E a c := fun w =>
  let ⟨e1, w1⟩ := h1 w
  let ⟨e2, w2⟩ := h2 w1
  ⟨e1.trans e2, w2⟩

/-- a change that touches neither the log nor the parked packets -/
theorem Step.of_eq {g g' : Gw} (ho : g'.outs = g.outs) (hb : g'.buffer = g.buffer) (ht : g'.txs = g.txs) :
    Step Sn Mq E g g' := fun w =>
  ⟨Emits.of_outs_eq ho, ⟨by rw [hb]; exact w.1, by rw [ht]; exact w.2⟩⟩

theorem Step.snSend (g : Gw) (p : Pkt) (tx : Option Nat) (h : Sn p) : Step Sn Mq E g (g.snSend p tx) := by
  intro w
  refine ⟨snSend_emits g p tx h, ?_⟩
  unfold Gw.snSend
  split
  · refine ⟨?_, w.2⟩
    intro it hit
    rcases List.mem_append.mp hit with h1 | h1
    · exact w.1 it h1
    · simp at h1; subst h1; exact h
  · exact w

theorem Step.mqttSend (g : Gw) (p : MqPkt) (h : Mq p) : Step Sn Mq E g (g.mqttSend p) := fun w =>
  ⟨mqttSend_emits g p h, w⟩

theorem Step.mqttSendExtra (g : Gw) (p : MqPkt) (h : E p) : Step Sn Mq E g (g.mqttSend p) := fun w =>
  ⟨mqttSend_emits_extra g p h, w⟩

theorem getTx_mem {g : Gw} {id : Nat} {t : Tx} (h : g.getTx id = some t) : t ∈ g.txs :=
  List.mem_of_find?_eq_some h

theorem Step.setTx (g : Gw) (t : Tx) (h : WF Sn Mq g → KindOk Sn Mq t.kind) : Step Sn Mq E g (g.setTx t) := by
  intro w
  refine ⟨Emits.of_outs_eq rfl, ⟨w.1, ?_⟩⟩
  intro x hx
  simp only [Gw.setTx, List.mem_map] at hx
  obtain ⟨y, hy, rfl⟩ := hx
  split
  · exact h w
  · exact w.2 y hy

theorem Step.newTx (g : Gw) (k : TxKind) (key : TxKey) (tm : Option Nat) (h : WF Sn Mq g → KindOk Sn Mq k) :
    Step Sn Mq E g (g.newTx k key tm).2 := by
  intro w
  refine ⟨Emits.of_outs_eq rfl, ⟨w.1, ?_⟩⟩
  intro x hx
  simp only [Gw.newTx, List.mem_append, List.mem_singleton] at hx
  rcases hx with hx | rfl
  · exact w.2 x hx
  · exact h w

theorem Step.runFinally (g : Gw) (t : Tx) : Step Sn Mq E g (g.runFinally t) := by
  unfold Gw.runFinally; split <;> (try split) <;> first | exact Step.refl g | exact Step.of_eq rfl rfl rfl

theorem Step.finishTx (g : Gw) (id : Nat) : Step Sn Mq E g (g.finishTx id) := by
  unfold Gw.finishTx
  split
  · rename_i t ht
    split
    · exact Step.refl g
    · exact Step.trans (Step.setTx g { t with done := true, timer := none } (fun w => w.2 t (getTx_mem ht)))
        (Step.runFinally _ t)
  · exact Step.refl g

theorem Step.fail (g : Gw) (c : EndCls) : Step Sn Mq E g (g.fail c) := by
  unfold Gw.fail; split <;> first | exact Step.refl g | exact Step.of_eq rfl rfl rfl

/-- sending a list of permitted packets -/
theorem Step.sendAll (its : List BufItem) : ∀ (g : Gw), (∀ it ∈ its, Sn it.pkt) →
    Step Sn Mq E g (its.foldl (fun acc it => acc.snSend it.pkt it.tx) g) := by
  induction its with
  | nil => intro g _; exact Step.refl g
  | cons it rest ih =>
    intro g h
    simp only [List.foldl_cons]
    exact Step.trans (Step.snSend g it.pkt it.tx (h it (by simp))) (ih _ (fun x hx => h x (by simp [hx])))

theorem Step.flushBuffer (g : Gw) : Step Sn Mq E g g.flushBuffer := by
  intro w
  unfold Gw.flushBuffer
  have h0 : Step Sn Mq E g { g with buffer := [] } := fun w => ⟨Emits.of_outs_eq rfl, ⟨by simp, w.2⟩⟩
  have h1 := Step.sendAll (Sn := Sn) (Mq := Mq) (E := E) g.buffer { g with buffer := [] } w.1
  obtain ⟨e, w'⟩ := (Step.trans h0 h1) w
  exact ⟨Emits.then_eq e rfl, ⟨by simp, w'.2⟩⟩

end Bisquitt.Gw
