/-
  Frame lemmas for the second half of C08 (all runs): with authentication DISABLED, whatever AUTH packets the
  client sends, every MQTT CONNECT the gateway writes carries exactly the configured credentials.  Invariant
  `J g`: every connect exchange in the store is past `awaitingAuth` (it starts authenticated) and carries the
  configured credentials (`AllCfg`), and every MQTT CONNECT in the log carries them (`AllConnOk`).  `FC g g'`
  says that a model function keeps the configuration and `J`.
-/
import Bisquitt.Lemmas.GwAuth

namespace Bisquitt.Gw
open Bisquitt Gw

def credsOk (cfg : Cfg) (f : ConnFields) : Prop :=
  f.uflag = cfg.user.isSome ∧ f.user = cfg.user.getD [] ∧ f.pflag = cfg.pass.isSome ∧ f.pass = cfg.pass.getD []

def kindOkC (cfg : Cfg) (k : TxKind) : Prop :=
  (∀ st f, k = .connect st f → st ≠ .awaitingAuth ∧ credsOk cfg f) ∧
  (∀ q st p snp n, k = .brokerPub q st (.mq p) snp n → notConnect p = true)

def AllCfg (g : Gw) : Prop := ∀ t ∈ g.txs, kindOkC g.cfg t.kind

/-- an MQTT CONNECT in the log carries the configured credentials -/
def connOutOk (cfg : Cfg) (o : Nat × Out) : Prop :=
  ∀ cid clean ka uflag user pflag pass will wq wr wt wm,
    o.2 = .mq (.connect cid clean ka uflag user pflag pass will wq wr wt wm) →
      uflag = cfg.user.isSome ∧ user = cfg.user.getD [] ∧ pflag = cfg.pass.isSome ∧ pass = cfg.pass.getD []

def AllConnOk (g : Gw) : Prop := ∀ o ∈ g.outs, connOutOk g.cfg o

def J (g : Gw) : Prop := AllCfg g ∧ AllConnOk g

structure FC (g g' : Gw) : Prop where
  cfg : g'.cfg = g.cfg
  keep : J g → J g'

theorem FC.refl (g : Gw) : FC g g := ⟨rfl, fun h => h⟩
theorem FC.trans {a b c : Gw} (h1 : FC a b) (h2 : FC b c) : FC a c := ⟨h2.cfg.trans h1.cfg, fun h => h2.keep (h1.keep h)⟩
theorem FC.of_eq {g g' : Gw} (hc : g'.cfg = g.cfg) (ho : g'.outs = g.outs) (ht : g'.txs = g.txs) : FC g g' :=
  ⟨hc, fun h => ⟨by unfold AllCfg; rw [ht, hc]; exact h.1, by unfold AllConnOk; rw [ho, hc]; exact h.2⟩⟩

theorem okc_bp {cfg : Cfg} (q : UInt8) (st : BpSt) (d : BpData) (snp : Option Pkt) (n : Nat)
    (hd : ∀ p, d = .mq p → notConnect p = true) : kindOkC cfg (.brokerPub q st d snp n) := by
  refine ⟨fun _ _ hk => (by cases hk), fun q' st' p snp' n' hk => ?_⟩
  have hdp : d = .mq p := by injection hk
  exact hd p hdp
theorem okc_other {cfg : Cfg} {k : TxKind} (h1 : ∀ st f, k ≠ .connect st f) (h2 : ∀ q st d snp n, k ≠ .brokerPub q st d snp n) :
    kindOkC cfg k :=
  ⟨fun st f e => absurd e (h1 st f), fun q st p snp n e => absurd e (h2 q st (.mq p) snp n)⟩
theorem okc_connect {cfg : Cfg} (st : ConnSt) (f : ConnFields) (hs : st ≠ .awaitingAuth) (hf : credsOk cfg f) :
    kindOkC cfg (.connect st f) :=
  ⟨fun st' f' e => by injection e with e1 e2; subst e1; subst e2; exact ⟨hs, hf⟩, fun _ _ _ _ _ e => (by cases e)⟩

/-- an output that is not an MQTT CONNECT, or one with the configured credentials -/
theorem FC.emit (g : Gw) (o : Out) (h : connOutOk g.cfg (g.now, o)) : FC g (g.emit o) :=
  ⟨rfl, fun hJ => ⟨hJ.1, by
    intro x hx
    unfold Gw.emit at hx
    simp only [List.mem_cons] at hx
    rcases hx with rfl | hx
    · exact h
    · exact hJ.2 x hx⟩⟩
theorem connOutOk_sn (cfg : Cfg) (t : Nat) (b : Bytes) : connOutOk cfg (t, .sn b) := by
  intro _ _ _ _ _ _ _ _ _ _ _ _ e; cases e
theorem connOutOk_mq (cfg : Cfg) (t : Nat) (p : MqPkt) (h : notConnect p = true) : connOutOk cfg (t, .mq p) := by
  intro _ _ _ _ _ _ _ _ _ _ _ _ e
  injection e with e; subst e; simp [notConnect] at h
theorem FC.snSend (g : Gw) (p : Pkt) (tx : Option Nat) : FC g (g.snSend p tx) := by
  unfold Gw.snSend
  split
  · exact FC.of_eq rfl rfl rfl
  · exact FC.emit g _ (connOutOk_sn _ _ _)
theorem FC.snSendNow (g : Gw) (p : Pkt) : FC g (g.snSendNow p) := FC.emit g _ (connOutOk_sn _ _ _)
theorem FC.mqttSend (g : Gw) (p : MqPkt) (h : notConnect p = true) : FC g (g.mqttSend p) := by
  unfold Gw.mqttSend
  exact FC.emit g _ (connOutOk_mq _ _ _ h)
/-- the CONNECT of an exchange that carries the configured credentials -/
theorem FC.mqttSendConnect (g : Gw) (f : ConnFields) (hf : credsOk g.cfg f) : FC g (g.mqttSend f.toPkt) := by
  unfold Gw.mqttSend
  refine FC.emit g _ ?_
  intro cid clean ka uflag user pflag pass will wq wr wt wm e
  unfold ConnFields.toPkt at e
  injection e with e
  injection e with _ _ _ e4 e5 e6 e7
  subst e4; subst e5; subst e6; subst e7
  exact hf

theorem FC.setTx (g : Gw) (t : Tx) (h : J g → kindOkC g.cfg t.kind) : FC g (g.setTx t) := by
  refine ⟨rfl, fun hJ => ⟨?_, hJ.2⟩⟩
  intro x hx
  unfold Gw.setTx at hx
  simp only [List.mem_map] at hx
  obtain ⟨y, hy, rfl⟩ := hx
  split
  · exact h hJ
  · exact hJ.1 y hy

theorem FC.runFinally (g : Gw) (t : Tx) : FC g (g.runFinally t) := by
  unfold Gw.runFinally
  split
  · split <;> exact FC.of_eq rfl rfl rfl
  · split <;> exact FC.of_eq rfl rfl rfl
  · exact FC.of_eq rfl rfl rfl

theorem FC.finishTx (g : Gw) (id : Nat) : FC g (g.finishTx id) := by
  unfold Gw.finishTx
  split
  · rename_i t ht
    split
    · exact FC.refl g
    · exact FC.trans
        (FC.setTx g { t with done := true, timer := none } (fun hJ => hJ.1 t (getTx_mem' ht)))
        (FC.runFinally _ t)
  · exact FC.refl g

theorem FC.fail (g : Gw) (c : EndCls) : FC g (g.fail c) := by
  unfold Gw.fail; split <;> exact FC.of_eq rfl rfl rfl

theorem FC.newTx (g : Gw) (k : TxKind) (key : TxKey) (tm : Option Nat) (h : kindOkC g.cfg k) : FC g (g.newTx k key tm).2 := by
  refine ⟨rfl, fun hJ => ⟨?_, hJ.2⟩⟩
  intro x hx
  unfold Gw.newTx at hx
  simp only [List.mem_append, List.mem_singleton] at hx
  rcases hx with hx | rfl
  · exact hJ.1 x hx
  · exact h

theorem FC.storeById (g : Gw) (m : UInt16) (id : Nat) : FC g (g.storeById m id) := FC.of_eq rfl rfl rfl
theorem FC.storeByIdB (g : Gw) (m : UInt16) (id : Nat) : FC g (g.storeByIdB m id) := FC.of_eq rfl rfl rfl
theorem FC.storeRegistered (g : Gw) (id : UInt16) (n : Bytes) : FC g (g.storeRegistered id n) := FC.of_eq rfl rfl rfl
theorem FC.setConnectTx (g : Gw) (id : Nat) : FC g (g.setConnectTx id) := FC.of_eq rfl rfl rfl
theorem FC.setSt (g : Gw) (s : CState) : FC g (g.setSt s) := FC.of_eq rfl rfl rfl
theorem FC.setNow (g : Gw) (t : Nat) : FC g (g.setNow t) := FC.of_eq rfl rfl rfl
theorem FC.clearBuffer (g : Gw) : FC g g.clearBuffer := FC.of_eq rfl rfl rfl
theorem FC.cancelSleepPinger (g : Gw) : FC g g.cancelSleepPinger := FC.of_eq rfl rfl rfl
theorem FC.startSleepPinger (g : Gw) (d : UInt16) : FC g (g.startSleepPinger d) := FC.of_eq rfl rfl rfl
theorem FC.armSleepPinger (g : Gw) (d : UInt16) : FC g (g.armSleepPinger d) := by
  unfold Gw.armSleepPinger
  split
  · exact FC.cancelSleepPinger g
  · exact (FC.cancelSleepPinger g).trans (FC.startSleepPinger _ _)
theorem FC.pingBroker (g : Gw) : FC g g.pingBroker := by
  unfold Gw.pingBroker
  have h0 : FC g ({ g with ownPings := g.ownPings + 1 } : Gw) := FC.of_eq rfl rfl rfl
  exact h0.trans (FC.mqttSend _ _ rfl)
theorem FC.keepBrokerAlive (g : Gw) : FC g g.keepBrokerAlive := by
  unfold Gw.keepBrokerAlive
  split
  · exact FC.refl g
  · split
    · split
      · exact FC.refl g
      · exact FC.pingBroker g
    · exact FC.pingBroker g

theorem FC.newTopicId (g : Gw) : FC g g.newTopicId.2 := by
  refine FC.of_eq ?_ (newTopicId_outs g) ?_
  · unfold Gw.newTopicId
    split
    · rfl
    · simp only
      split
      · rfl
      · split <;> rfl
  · unfold Gw.newTopicId
    split
    · rfl
    · simp only
      split
      · rfl
      · split <;> rfl
theorem FC.newTopicId' {g g' : Gw} {r : Option UInt16} (h : g.newTopicId = (r, g')) : FC g g' := by
  have : g' = g.newTopicId.2 := by rw [h]
  rw [this]; exact FC.newTopicId g
theorem FC.registrationTopicId' {g g' : Gw} {topic : Bytes} {r : Option UInt16} (h : g.registrationTopicId topic = (r, g')) :
    FC g g' := by
  have : g' = (g.registrationTopicId topic).2 := by rw [h]
  rw [this]
  rcases registrationTopicId_proj g topic with h | h | ⟨id, h⟩ <;> rw [h]
  · exact FC.refl g
  · exact FC.newTopicId g
  · exact FC.trans (FC.newTopicId g) (FC.of_eq rfl rfl rfl)

theorem FC.armBp (g : Gw) (t : Tx) (q : UInt8) (s : BpSt) (d : BpData) (snp : Option Pkt)
    (hd : ∀ p, d = .mq p → notConnect p = true) : FC g (g.armBp t q s d snp) := by
  unfold Gw.armBp
  split
  · exact FC.refl g
  · exact FC.setTx g _ (fun _ => okc_bp _ _ _ _ _ hd)
theorem FC.finishIfDone (g : Gw) (id : Nat) (s : BpSt) : FC g (g.finishIfDone id s) := by
  unfold Gw.finishIfDone; split
  · exact FC.finishTx g id
  · exact FC.refl g
theorem FC.proceedSN (g : Gw) (id : Nat) (s : BpSt) (p : Pkt) : FC g (g.proceedSN id s p) := by
  unfold Gw.proceedSN
  split
  · split
    · exact ((FC.armBp g _ _ _ _ _ (fun _ e => by cases e)).trans (FC.snSend _ _ _)).trans (FC.finishIfDone _ _ _)
    · exact FC.refl g
  · exact FC.refl g
theorem FC.proceedMQ (g : Gw) (id : Nat) (s : BpSt) (p : MqPkt) (h : notConnect p = true) : FC g (g.proceedMQ id s p) := by
  unfold Gw.proceedMQ
  split
  · split
    · exact ((FC.armBp g _ _ _ _ _ (fun _ e => by cases e; exact h)).trans (FC.mqttSend _ _ h)).trans (FC.finishIfDone _ _ _)
    · exact FC.refl g
  · exact FC.refl g

theorem FC.storeClientPub1 (g : Gw) (q : UInt8) (tid mid : UInt16) : FC g (g.storeClientPub1 q tid mid) := by
  unfold Gw.storeClientPub1
  split
  · exact (FC.newTx g _ _ _ (okc_other (fun _ _ e => by cases e) (fun _ _ _ _ _ e => by cases e))).trans (FC.storeById _ _ _)
  · exact FC.refl g
theorem FC.handleClientPublish (g : Gw) (dup : Bool) (q : UInt8) (r : Bool) (tit : UInt8) (tid mid : UInt16) (d : Bytes) :
    FC g (g.handleClientPublish dup q r tit tid mid d) := by
  unfold Gw.handleClientPublish
  split
  · exact FC.fail g _
  · exact FC.fail g _
  · split
    · exact FC.fail g _
    · exact (FC.storeClientPub1 g _ _ _).trans (FC.mqttSend _ _ rfl)
theorem FC.forwardSubscribe (g : Gw) (dup : Bool) (q : UInt8) (mid : UInt16) (tp : Bytes) (tid : UInt16) :
    FC g (g.forwardSubscribe dup q mid tp tid) := by
  unfold Gw.forwardSubscribe
  split
  · exact FC.fail g _
  · exact ((FC.newTx g _ _ _ (okc_other (fun _ _ e => by cases e) (fun _ _ _ _ _ e => by cases e))).trans (FC.storeById _ _ _)).trans (FC.mqttSend _ _ rfl)
theorem FC.handleSubscribe (g : Gw) (dup : Bool) (q tit : UInt8) (mid tid : UInt16) (n : Bytes) :
    FC g (g.handleSubscribe dup q tit mid tid n) := by
  unfold Gw.handleSubscribe
  split
  · exact FC.snSend g _ _
  · split
    · split
      · split
        · exact FC.forwardSubscribe g _ _ _ _ _
        · split
          · rename_i hn
            exact ((FC.newTopicId' hn).trans (FC.storeRegistered _ _ _)).trans (FC.forwardSubscribe _ _ _ _ _ _)
          · rename_i hn
            exact (FC.newTopicId' hn).trans (FC.snSend _ _ _)
      · exact FC.forwardSubscribe g _ _ _ _ _
    · split
      · split
        · exact FC.forwardSubscribe g _ _ _ _ _
        · exact FC.fail g _
      · split <;> exact FC.forwardSubscribe g _ _ _ _ _
theorem FC.forwardUnsubscribe (g : Gw) (mid : UInt16) (tp : Bytes) : FC g (g.forwardUnsubscribe mid tp) := by
  unfold Gw.forwardUnsubscribe
  split
  · exact FC.fail g _
  · exact FC.mqttSend g _ rfl
theorem FC.handleUnsubscribe (g : Gw) (tit : UInt8) (mid tid : UInt16) (n : Bytes) : FC g (g.handleUnsubscribe tit mid tid n) := by
  unfold Gw.handleUnsubscribe
  split
  · exact FC.forwardUnsubscribe g _ _
  · split
    · split
      · exact FC.forwardUnsubscribe g _ _
      · exact FC.fail g _
    · split <;> exact FC.forwardUnsubscribe g _ _
theorem FC.handleRegister (g : Gw) (mid : UInt16) (n : Bytes) : FC g (g.handleRegister mid n) := by
  unfold Gw.handleRegister
  split
  · exact FC.snSend g _ _
  · split
    · exact FC.snSend g _ _
    · split
      · rename_i hn
        exact ((FC.newTopicId' hn).trans (FC.storeRegistered _ _ _)).trans (FC.snSend _ _ _)
      · rename_i hn
        exact (FC.newTopicId' hn).trans (FC.snSend _ _ _)
theorem FC.bpRegack (g : Gw) (t : Tx) (q : UInt8) (s : BpSt) (d : BpData) (snp : Option Pkt) (rc : UInt8) :
    FC g (g.bpRegack t q s d snp rc) := by
  unfold Gw.bpRegack
  split
  · exact FC.refl g
  · split
    · exact FC.finishTx g _
    · split
      · exact (FC.storeRegistered g _ _).trans (FC.proceedSN _ _ _ _)
      · exact FC.refl g
theorem FC.startBrokerPub (g : Gw) (q : UInt8) (m : UInt16) (s0 : BpSt) (snp : Option Pkt) (s : BpSt) (p : Pkt) :
    FC g (g.startBrokerPub q m s0 snp s p) := by
  unfold Gw.startBrokerPub
  exact ((FC.newTx g _ _ _ (okc_bp _ _ _ _ _ (fun _ e => by cases e))).trans (FC.storeByIdB _ _ _)).trans (FC.proceedSN _ _ _ _)
theorem FC.handleBrokerPublish (g : Gw) (dup : Bool) (q : UInt8) (r : Bool) (mid : UInt16) (tp pl : Bytes) :
    FC g (g.handleBrokerPublish dup q r mid tp pl) := by
  unfold Gw.handleBrokerPublish
  split
  · exact FC.refl g
  · split
    · exact FC.refl g
    · split
      · split
        · exact FC.snSend g _ _
        · split
          · exact FC.fail g _
          · exact FC.startBrokerPub g _ _ _ _ _ _
      · split
        · exact FC.fail g _
        · split
          · exact FC.fail g _
          · split
            · rename_i hn; exact (FC.registrationTopicId' hn).trans (FC.fail _ _)
            · rename_i hn; exact (FC.registrationTopicId' hn).trans (FC.startBrokerPub _ _ _ _ _ _ _)

/-! ### the connect exchange with authentication disabled -/

theorem credsOk_mk (cfg : Cfg) (will clean : Bool) (dur : UInt16) (cid : Bytes) : credsOk cfg (mkConnFields cfg will clean dur cid) :=
  ⟨rfl, rfl, rfl, rfl⟩

theorem connTx_kind {g : Gw} {t : Tx} {st : ConnSt} {f : ConnFields} (hJ : J g) (h : g.connTx = some (t, st, f)) :
    st ≠ .awaitingAuth ∧ credsOk g.cfg f :=
  (hJ.1 t (connTx_spec h).1).1 st f (connTx_spec h).2

theorem FC.connAuthenticated (g : Gw) (t : Tx) (f : ConnFields) (hf : credsOk g.cfg f) : FC g (g.connAuthenticated t f) := by
  unfold Gw.connAuthenticated
  split
  · exact (FC.setTx g _ (fun _ => okc_connect _ _ (by decide) hf)).trans (FC.snSend _ _ _)
  · exact (FC.setTx g _ (fun _ => okc_connect _ _ (by decide) hf)).trans (FC.mqttSendConnect _ f hf)

theorem FC.sendConnack (g : Gw) (rc : UInt8) : FC g (g.sendConnack rc) := FC.snSend g _ _

/-- an AUTH packet finds the exchange past `awaitingAuth`: nothing happens -/
theorem FC.connAuth (g : Gw) (t : Tx) (st : ConnSt) (f : ConnFields) (m d : Bytes) (hs : st ≠ .awaitingAuth) :
    FC g (g.connAuth t st f m d) := by
  unfold Gw.connAuth
  simp only [hs, ne_eq, not_false_eq_true, if_true]
  exact FC.refl g

theorem FC.connWillTopic (g : Gw) (t : Tx) (st : ConnSt) (f : ConnFields) (q : UInt8) (r : Bool) (tp : Bytes)
    (hf : credsOk g.cfg f) : FC g (g.connWillTopic t st f q r tp) := by
  unfold Gw.connWillTopic
  split
  · exact FC.refl g
  · split
    · exact (FC.finishTx g _).trans (FC.fail _ _)
    · refine (FC.setTx g _ (fun _ => okc_connect _ _ (by decide) ?_)).trans (FC.snSend _ _ _)
      split <;> exact hf

theorem FC.connWillMsg (g : Gw) (t : Tx) (st : ConnSt) (f : ConnFields) (m : Bytes) (hf : credsOk g.cfg f) :
    FC g (g.connWillMsg t st f m) := by
  unfold Gw.connWillMsg
  split
  · exact FC.refl g
  · have hf' : credsOk g.cfg (if f.will then { f with wm := m } else f) := by split <;> exact hf
    exact (FC.setTx g _ (fun _ => okc_connect _ _ (by decide) hf')).trans (FC.mqttSendConnect _ _ hf')

theorem FC.connConnack (g : Gw) (t : Tx) (st : ConnSt) (rc : UInt8) : FC g (g.connConnack t st rc) := by
  unfold Gw.connConnack
  split
  · exact FC.refl g
  · split
    · exact ((FC.sendConnack g _).trans (FC.finishTx _ _)).trans (FC.fail _ _)
    · have h0 : FC g ({ g with st := .active } : Gw) := FC.of_eq rfl rfl rfl
      exact (h0.trans (FC.sendConnack _ _)).trans (FC.finishTx _ _)

theorem FC.cancelOldConnect (g : Gw) : FC g g.cancelOldConnect := by
  unfold Gw.cancelOldConnect
  split
  · exact FC.finishTx g _
  · exact FC.refl g

/-- a new exchange, authentication disabled: it starts authenticated, with the configured credentials.
    (No uniqueness of transaction ids is needed: whatever `getTx` finds under the new id, `setTx` rewrites
    every transaction with that id, the new one included.) -/
theorem FC.startConnect (g : Gw) (f : ConnFields) (ha : g.cfg.auth = false) (hf : credsOk g.cfg f) :
    FC g (g.startConnect f) := by
  have hcfg : (g.startConnect f).cfg = g.cfg := by
    unfold Gw.startConnect Gw.startConnectTx
    simp only [Gw.setConnectTx, Gw.newTx, ha, Bool.false_eq_true, if_false]
    split
    · unfold Gw.connAuthenticated; split
      · unfold Gw.snSend; split <;> rfl
      · rfl
    · rfl
  refine ⟨hcfg, fun hJ => ?_⟩
  -- the state after newTx + setConnectTx
  let g1 : Gw := ((g.newTx (.connect .awaitingAuth f) .connectType (some (g.now + Gen.connectTransactionTimeout))).2.setConnectTx g.nextTx)
  have hfind : ∃ t, g1.getTx g.nextTx = some t := by
    have : (g1.txs.find? (·.id == g.nextTx)).isSome = true := by
      rw [List.find?_isSome]
      exact ⟨{ id := g.nextTx, kind := .connect .awaitingAuth f, key := .connectType,
               timer := some (g.now + Gen.connectTransactionTimeout) }, by simp [g1, Gw.newTx, Gw.setConnectTx], by simp⟩
    exact Option.isSome_iff_exists.mp this
  obtain ⟨t, ht⟩ := hfind
  have htid : t.id = g.nextTx := by
    have := List.find?_some ht
    simpa using this
  have hres : g.startConnect f = g1.connAuthenticated t f := by
    unfold Gw.startConnect Gw.startConnectTx
    show (if g1.cfg.auth = true then g1 else match g1.getTx g.nextTx with | some t => g1.connAuthenticated t f | none => g1) = _
    have : g1.cfg.auth = false := ha
    simp only [this, Bool.false_eq_true, if_false, ht]
  rw [hres]
  -- J of the result, directly
  have hJ1out : AllConnOk g1 := hJ.2
  have hold : ∀ x ∈ g1.txs, x.id ≠ g.nextTx → kindOkC g.cfg x.kind := by
    intro x hx hne
    simp only [g1, Gw.newTx, Gw.setConnectTx, List.mem_append, List.mem_singleton] at hx
    rcases hx with hx | rfl
    · exact hJ.1 x hx
    · exact absurd rfl hne
  have key : ∀ (k : TxKind), kindOkC g.cfg k → AllCfg (g1.setTx { t with kind := k }) := by
    intro k hk x hx
    unfold Gw.setTx at hx
    simp only [List.mem_map] at hx
    obtain ⟨y, hy, rfl⟩ := hx
    split
    · exact hk
    · rename_i hne
      exact hold y hy (by simpa [htid] using hne)
  unfold Gw.connAuthenticated
  split
  · have h1 : J (g1.setTx { t with kind := .connect .awaitingWillTopic f }) :=
      ⟨key _ (okc_connect _ _ (by decide) hf), hJ1out⟩
    exact (FC.snSend (g1.setTx { t with kind := .connect .awaitingWillTopic f }) _ _).keep h1
  · have h1 : J (g1.setTx { t with kind := .connect .awaitingConnack f }) :=
      ⟨key _ (okc_connect _ _ (by decide) hf), hJ1out⟩
    exact (FC.mqttSendConnect (g1.setTx { t with kind := .connect .awaitingConnack f }) f hf).keep h1

theorem foldl_snSend_FC (its : List BufItem) : ∀ g : Gw, FC g (its.foldl (fun acc it => acc.snSend it.pkt it.tx) g) := by
  induction its with
  | nil => intro g; exact FC.refl g
  | cons x xs ih => intro g; simp only [List.foldl_cons]; exact (FC.snSend g _ _).trans (ih _)

theorem FC.flushBuffer (g : Gw) : FC g g.flushBuffer := by
  unfold Gw.flushBuffer
  simp only
  have h0 : FC g ({ g with buffer := [] } : Gw) := FC.of_eq rfl rfl rfl
  have h1 := h0.trans (foldl_snSend_FC g.buffer _)
  exact h1.trans (FC.of_eq rfl rfl rfl)

theorem FC.handleConnect (g : Gw) (will clean : Bool) (dur : UInt16) (cid : Bytes) (ha : g.cfg.auth = false) :
    FC g (g.handleConnect will clean dur cid) := by
  unfold Gw.handleConnect
  split
  · have h0 : FC g ({ g.cancelSleepPinger with st := .active } : Gw) := FC.of_eq rfl rfl rfl
    exact (h0.trans (FC.snSend _ _ _)).trans (FC.flushBuffer _)
  · split
    · exact FC.snSend g _ _
    · have h0 : FC g ({ g with keepAlive := dur, clientId := cid } : Gw) := FC.of_eq rfl rfl rfl
      have h1 := h0.trans (FC.cancelOldConnect _)
      exact h1.trans (FC.startConnect _ _ (by rw [h1.cfg]; exact ha) (by rw [h1.cfg]; exact credsOk_mk _ _ _ _ _))

theorem FC.handlePingreq (g : Gw) : FC g g.handlePingreq := by
  unfold Gw.handlePingreq
  split
  · exact ((((FC.setSt g _).trans (FC.flushBuffer _)).trans (FC.snSend _ _ _)).trans (FC.setSt _ _)).trans (FC.armSleepPinger _ _)
  · exact FC.mqttSend g _ rfl

theorem FC.handleSleep (g : Gw) (d : UInt16) : FC g (g.handleSleep d) := by
  unfold Gw.handleSleep
  have h0 : FC g ({ g with sleepDur := d } : Gw) := FC.of_eq rfl rfl rfl
  have h1 : FC g (({ g with sleepDur := d } : Gw).armSleepPinger d) := h0.trans (FC.armSleepPinger _ _)
  have h2 : ∀ x : Gw, FC x x.clearBufferUnlessAsleep := by
    intro x; unfold Gw.clearBufferUnlessAsleep; split
    · exact FC.clearBuffer x
    · exact FC.refl x
  exact ((h1.trans (h2 _)).trans (FC.snSendNow _ _)).trans (FC.setSt _ _)

theorem FC.handlePlainDisconnect (g : Gw) : FC g g.handlePlainDisconnect := by
  unfold Gw.handlePlainDisconnect
  exact (((FC.mqttSend g _ rfl).trans (FC.setSt _ _)).trans (FC.snSend _ _ _)).trans (FC.fail _ _)

theorem FC.handleDisconnect (g : Gw) (d : UInt16) : FC g (g.handleDisconnect d) := by
  unfold Gw.handleDisconnect
  split
  · exact FC.handlePlainDisconnect g
  · exact FC.handleSleep g d


/-! ### timers -/

theorem FC.retryExpire (g : Gw) (t : Tx) (ht : t ∈ g.txs) : FC g (g.retryExpire t) := by
  have keepKind : ∀ (tm : Option Nat), J g → kindOkC g.cfg ({ t with timer := tm } : Tx).kind := fun _ hJ => hJ.1 t ht
  unfold Gw.retryExpire
  split
  · rename_i q st data snp n hk0
    split
    · exact FC.setTx g _ (keepKind none)
    · split
      · exact FC.setTx g _ (keepKind _)
      · split
        · exact FC.finishTx g _
        · split
          · rename_i p _
            have h1 : FC g ({ g with buffer := g.buffer.map (fun (b : BufItem) =>
                if b.tx == some t.id && b.pkt == p then { b with pkt := setDup p } else b) } : Gw) := FC.of_eq rfl rfl rfl
            exact (h1.trans (FC.setTx _ _ (fun _ => okc_bp _ _ _ _ _ (fun _ e => by cases e)))).trans (FC.snSend _ _ _)
          · rename_i p _
            refine ⟨rfl, fun hA => ?_⟩
            have hp : notConnect p = true := (hA.1 t ht).2 q st p snp n hk0
            have h2 := (FC.setTx g { t with kind := .brokerPub q st (.mq p) snp (n + 1), timer := some (g.now + g.cfg.retryDelay) }
              (fun _ => okc_bp _ _ _ _ _ (fun p' e => by cases e; exact hp))).trans (FC.mqttSend _ p hp)
            exact h2.keep hA
          · exact FC.finishTx g _
  · exact FC.refl g

theorem FC.txExpire (g : Gw) (t : Tx) (ht : t ∈ g.txs) : FC g (g.txExpire t) := by
  have keepKind : ∀ (tm : Option Nat), J g → kindOkC g.cfg ({ t with timer := tm } : Tx).kind := fun _ hJ => hJ.1 t ht
  unfold Gw.txExpire
  split
  · split
    · exact FC.setTx g _ (keepKind none)
    · exact (FC.finishTx g _).trans (FC.fail _ _)
  · split
    · exact FC.setTx g _ (keepKind none)
    · exact FC.finishTx g _
  · split
    · exact FC.setTx g _ (keepKind none)
    · exact FC.finishTx g _
  · exact FC.retryExpire g t ht

theorem FC.firePing (g : Gw) (i : Nat) : FC g (g.firePing i) := by
  unfold Gw.firePing
  have h0 : FC g ({ g with pingers := g.pingers.mapIdx (fun j (p : Pinger) =>
      if j = i then { p with next := p.next + p.period } else p) } : Gw) := FC.of_eq rfl rfl rfl
  exact h0.trans (FC.pingBroker _)

theorem FC.fireDue (g : Gw) (d : Due) : FC g (g.fireDue d) := by
  unfold Gw.fireDue
  split
  · unfold Gw.fireTx
    split
    · rename_i t ht
      exact (FC.setNow g _).trans (FC.txExpire _ t (getTx_mem' ht))
    · exact FC.setNow g _
  · exact (FC.setNow g _).trans (FC.firePing _ _)
  · exact FC.of_eq rfl rfl rfl


end Bisquitt.Gw
