/-
  `Step` lemmas for every function of the gateway model (see GwEmits.lean).
-/
import Bisquitt.Lemmas.GwEmits

namespace Bisquitt.Gw
open Bisquitt Gw

variable {Sn : Pkt → Prop} {Mq : MqPkt → Prop} {E : MqPkt → Prop}

theorem kindOk_of_getTx {g : Gw} {id : Nat} {t : Tx} (h : g.getTx id = some t) (w : WF Sn Mq g) :
    KindOk Sn Mq t.kind := w.2 t (getTx_mem h)

theorem Step.ite {g a b : Gw} {c : Prop} [Decidable c] (ha : c → Step Sn Mq E g a) (hb : ¬c → Step Sn Mq E g b) :
    Step Sn Mq E g (if c then a else b) := by
  split
  · exact ha ‹_›
  · exact hb ‹_›

theorem Step.armBp (g : Gw) (t : Tx) (ht : t ∈ g.txs) (q : UInt8) (st : BpSt) (data : BpData) (snp : Option Pkt)
    (hd : WF Sn Mq g → KindOk Sn Mq (.brokerPub q st data snp 0)) : Step Sn Mq E g (g.armBp t q st data snp) := by
  unfold Gw.armBp
  split
  · exact Step.refl g
  · exact Step.setTx g _ hd

theorem Step.finishIfDone (g : Gw) (id : Nat) (st : BpSt) : Step Sn Mq E g (g.finishIfDone id st) := by
  unfold Gw.finishIfDone
  split
  · exact Step.finishTx g id
  · exact Step.refl g

theorem Step.proceedSN (g : Gw) (id : Nat) (st : BpSt) (p : Pkt) (hp : Sn p) :
    Step Sn Mq E g (g.proceedSN id st p) := by
  unfold Gw.proceedSN
  split
  · rename_i t ht
    split
    · rename_i q st0 d0 snp n hk
      refine Step.trans (Step.trans (Step.armBp g t (getTx_mem ht) q st (.sn p) snp ?_) (Step.snSend _ p (some id) hp))
        (Step.finishIfDone _ id st)
      intro w
      have hko := kindOk_of_getTx ht w
      rw [hk] at hko
      exact ⟨(fun p' e => by cases e; exact hp), (fun p' e => by cases e), hko.2.2⟩
    · exact Step.refl g
  · exact Step.refl g

theorem Step.proceedMQ (g : Gw) (id : Nat) (st : BpSt) (p : MqPkt) (hp : Mq p) :
    Step Sn Mq E g (g.proceedMQ id st p) := by
  unfold Gw.proceedMQ
  split
  · rename_i t ht
    split
    · rename_i q st0 d0 snp n hk
      refine Step.trans (Step.trans (Step.armBp g t (getTx_mem ht) q st (.mq p) snp ?_) (Step.mqttSend _ p hp))
        (Step.finishIfDone _ id st)
      intro w
      have hko := kindOk_of_getTx ht w
      rw [hk] at hko
      exact ⟨(fun p' e => by cases e), (fun p' e => by cases e; exact hp), hko.2.2⟩
    · exact Step.refl g
  · exact Step.refl g

/-- the retry callback: needs the parked packet to be permitted, which `WF` provides -/
theorem Step.retryExpire (S : Sites Sn Mq) (g : Gw) (t : Tx) (ht : t ∈ g.txs) :
    Step Sn Mq E g (g.retryExpire t) := by
  intro w
  have hko := w.2 t ht
  revert w
  unfold Gw.retryExpire
  split
  · rename_i q st data snp n hk
    rw [hk] at hko
    split
    · exact Step.setTx g _ (fun w => by rw [hk]; exact hko)
    · split
      · exact Step.setTx g _ (fun w => by rw [hk]; exact hko)
      · split
        · exact Step.finishTx g t.id
        · split
          · rename_i p _
            have hp : Sn p := hko.1 p rfl
            have hp' : Sn (setDup p) := S.dup p hp
            -- the queued references are updated in place
            have h1 : Step Sn Mq E g { g with buffer := g.buffer.map (fun (b : BufItem) =>
                if b.tx == some t.id && b.pkt == p then { b with pkt := setDup p } else b) } := by
              intro w
              refine ⟨Emits.of_outs_eq rfl, ⟨?_, w.2⟩⟩
              intro it hit
              simp only [List.mem_map] at hit
              obtain ⟨b, hb, rfl⟩ := hit
              split
              · exact hp'
              · exact w.1 b hb
            refine Step.trans h1 (Step.trans (Step.setTx _ _ (fun _ => ?_)) (Step.snSend _ _ _ hp'))
            exact ⟨(fun p' e => by cases e; exact hp'), (fun p' e => by cases e), hko.2.2⟩
          · rename_i p _
            have hp : Mq p := hko.2.1 p rfl
            refine Step.trans (Step.setTx _ _ (fun _ => ?_)) (Step.mqttSend _ _ hp)
            exact hko
          · exact Step.finishTx g t.id
  · exact Step.refl g

theorem Step.txExpire (S : Sites Sn Mq) (g : Gw) (t : Tx) (ht : t ∈ g.txs) : Step Sn Mq E g (g.txExpire t) := by
  unfold Gw.txExpire
  split
  · split
    · exact Step.setTx g _ (fun w => w.2 t ht)
    · exact Step.trans (Step.finishTx g t.id) (Step.fail _ _)
  · split
    · exact Step.setTx g _ (fun w => w.2 t ht)
    · exact Step.finishTx g t.id
  · split
    · exact Step.setTx g _ (fun w => w.2 t ht)
    · exact Step.finishTx g t.id
  · exact Step.retryExpire S g t ht

end Bisquitt.Gw

namespace Bisquitt.Gw
open Bisquitt Gw

variable {Sn : Pkt → Prop} {Mq : MqPkt → Prop} {E : MqPkt → Prop}

theorem Step.both {g a b : Gw} {c : Prop} [Decidable c] (ha : Step Sn Mq E g a) (hb : Step Sn Mq E g b) :
    Step Sn Mq E g (if c then a else b) := by
  split <;> assumption

/-! ### the connect exchange -/

theorem connTx_spec {g : Gw} {t : Tx} {st : ConnSt} {f : ConnFields} (h : g.connTx = some (t, st, f)) :
    t ∈ g.txs ∧ t.kind = .connect st f := by
  unfold Gw.connTx at h
  split at h
  · rename_i t' ht
    split at h
    · rename_i st' f' hk
      simp only [Option.some.injEq, Prod.mk.injEq] at h
      obtain ⟨rfl, rfl, rfl⟩ := h
      obtain ⟨id, hid, hg⟩ := Option.bind_eq_some_iff.mp ht
      exact ⟨getTx_mem hg, hk⟩
    · simp at h
  · simp at h

theorem Step.sendConnack (S : Sites Sn Mq) (g : Gw) (rc : UInt8) : Step Sn Mq E g (g.sendConnack rc) :=
  Step.snSend g _ none (S.connack rc)

theorem kindOk_connect {st : ConnSt} {f : ConnFields} (h : ConnInv st f) : KindOk Sn Mq (.connect st f) := h

theorem Step.connAuthenticated (S : Sites Sn Mq) (g : Gw) (t : Tx) (f : ConnFields)
    (hf : f.wt = [] ∧ f.wq = 0) : Step Sn Mq E g (g.connAuthenticated t f) := by
  unfold Gw.connAuthenticated
  split
  · rename_i hw
    refine Step.trans ?_ (Step.snSend _ _ none S.willtopicreq)
    exact Step.setTx g _ (fun _ => kindOk_connect (st := .awaitingWillTopic) ⟨hf.1, hf.2, hw⟩)
  · rename_i hw
    have hok : ConnOk f := by
      refine ⟨?_, by rw [hf.2]; decide⟩
      rw [hf.1]; simpa using hw
    refine Step.trans ?_ (Step.mqttSend _ _ (S.mqConnect f hok))
    exact Step.setTx g _ (fun _ => kindOk_connect (st := .awaitingConnack) hok)

theorem Step.cancelOldConnect (g : Gw) : Step Sn Mq E g g.cancelOldConnect := by
  unfold Gw.cancelOldConnect
  split
  · exact Step.finishTx g _
  · exact Step.refl g

theorem Step.startConnectTx (S : Sites Sn Mq) (g : Gw) (id : Nat) (f : ConnFields) (hf : f.wt = [] ∧ f.wq = 0) :
    Step Sn Mq E g (g.startConnectTx id f) := by
  unfold Gw.startConnectTx
  split
  · exact Step.refl g
  · split
    · exact Step.connAuthenticated S g _ f hf
    · exact Step.refl g

theorem Step.startConnect (S : Sites Sn Mq) (g : Gw) (f : ConnFields) (hf : f.wt = [] ∧ f.wq = 0) :
    Step Sn Mq E g (g.startConnect f) := by
  unfold Gw.startConnect
  refine Step.trans ?_ (Step.startConnectTx S _ _ f hf)
  refine Step.trans ?_ (Step.of_eq (g := (g.newTx _ _ _).2) rfl rfl rfl)
  exact Step.newTx g _ _ _ (fun _ => kindOk_connect (st := .awaitingAuth) hf)

theorem Step.handleConnect (S : Sites Sn Mq) (g : Gw) (will clean : Bool) (dur : UInt16) (cid : Bytes) :
    Step Sn Mq E g (g.handleConnect will clean dur cid) := by
  unfold Gw.handleConnect
  split
  · refine Step.trans ?_ (Step.flushBuffer _)
    refine Step.trans ?_ (Step.snSend _ _ none (S.connack _))
    exact Step.of_eq rfl rfl rfl
  · split
    · exact Step.snSend g _ none (S.connack _)
    · refine Step.trans ?_ (Step.startConnect S _ _ ⟨rfl, rfl⟩)
      refine Step.trans ?_ (Step.cancelOldConnect _)
      exact Step.of_eq rfl rfl rfl

theorem Step.connAuth (S : Sites Sn Mq) (g : Gw) (t : Tx) (st : ConnSt) (f : ConnFields) (m d : Bytes)
    (hf : ConnInv st f) : Step Sn Mq E g (g.connAuth t st f m d) := by
  unfold Gw.connAuth
  split
  · exact Step.refl g
  · rename_i hst
    have hst' : st = .awaitingAuth := by simpa using hst
    subst hst'
    split
    · split
      · exact Step.trans (Step.finishTx g _) (Step.fail _ _)
      · exact Step.connAuthenticated S g t _ hf
    · refine Step.trans ?_ (Step.fail _ _)
      refine Step.trans ?_ (Step.finishTx _ _)
      exact Step.sendConnack S g _

theorem Step.connWillTopic (S : Sites Sn Mq) (g : Gw) (t : Tx) (st : ConnSt) (f : ConnFields) (q : UInt8)
    (r : Bool) (topic : Bytes) (hf : ConnInv st f) : Step Sn Mq E g (g.connWillTopic t st f q r topic) := by
  unfold Gw.connWillTopic
  split
  · exact Step.refl g
  · rename_i hst
    have hst' : st = .awaitingWillTopic := by simpa using hst
    subst hst'
    obtain ⟨hwt, hwq, hwill⟩ := hf
    split
    · exact Step.trans (Step.finishTx g _) (Step.fail _ _)
    · rename_i hq
      refine Step.trans ?_ (Step.snSend _ _ none S.willmsgreq)
      apply Step.setTx
      intro _
      apply kindOk_connect (st := .awaitingWillMsg)
      show ConnOk _
      split
      · rename_i he
        exact ⟨by simp [hwt], by rw [hwq]; decide⟩
      · rename_i he
        refine ⟨by simpa [hwill] using he, ?_⟩
        exact UInt8.not_lt.mp hq

theorem Step.connWillMsg (S : Sites Sn Mq) (g : Gw) (t : Tx) (st : ConnSt) (f : ConnFields) (msg : Bytes)
    (hf : ConnInv st f) : Step Sn Mq E g (g.connWillMsg t st f msg) := by
  unfold Gw.connWillMsg
  split
  · exact Step.refl g
  · rename_i hst
    have hst' : st = .awaitingWillMsg := by simpa using hst
    subst hst'
    have hok : ConnOk (if f.will then { f with wm := msg } else f) := by
      split
      · exact hf
      · exact hf
    refine Step.trans ?_ (Step.mqttSend _ _ (S.mqConnect _ hok))
    exact Step.setTx g _ (fun _ => kindOk_connect (st := .awaitingConnack) hok)

theorem Step.connConnack (S : Sites Sn Mq) (g : Gw) (t : Tx) (st : ConnSt) (rc : UInt8) :
    Step Sn Mq E g (g.connConnack t st rc) := by
  unfold Gw.connConnack
  split
  · exact Step.refl g
  · split
    · refine Step.trans ?_ (Step.fail _ _)
      refine Step.trans ?_ (Step.finishTx _ _)
      exact Step.sendConnack S g _
    · refine Step.trans ?_ (Step.finishTx _ _)
      refine Step.trans ?_ (Step.sendConnack S _ _)
      exact Step.of_eq rfl rfl rfl

end Bisquitt.Gw
