/-
  What the decoder guarantees about the packets the gateway handler sees (`PktIn`):
  the QoS field of a decoded PUBLISH has two bits.
-/
import Bisquitt.Lemmas.GwSteps3
import Bisquitt.Props.C20

namespace Bisquitt
open Gen Gw

theorem qosOf_le (f : UInt8) : qosOf f ≤ 3 := by
  unfold qosOf
  apply UInt8.le_iff_toNat_le.mpr
  simp only [UInt8.toNat_shiftRight, UInt8.toNat_and]
  have h : f.toNat &&& flagsQOSBits.toNat ≤ flagsQOSBits.toNat := Nat.and_le_right
  have h96 : flagsQOSBits.toNat = 96 := by decide
  rw [h96] at h ⊢
  simp [Nat.shiftRight_eq_div_pow]
  omega

def ResIn (r : Res Pkt) : Prop := match r with
  | .ok p => PktIn p
  | _ => True

theorem resIn_of_notPublish {r : Res Pkt} (h : ∀ a b c d e f g, r ≠ .ok (.publish a b c d e f g)) : ResIn r := by
  unfold ResIn
  split
  · rename_i p
    cases p <;> first | trivial | exact absurd rfl (h _ _ _ _ _ _ _)
  · trivial

end Bisquitt

namespace Bisquitt
open Gen Gw

@[simp] theorem resIn_err : ResIn .err := trivial
@[simp] theorem resIn_panic : ResIn .panic := trivial

macro "resin_step" : tactic => `(tactic| first
  | (simp only [ResIn, PktIn, qosOf_le, resIn_err, resIn_panic, Res.pure_eq]; done)
  | (simp (discharger := omega) only [getB_ok, get16_ok, sliceFrom_ok, slice_ok, Res.ok_bind,
      Res.pure_eq]; simp only [ResIn, PktIn, qosOf_le]; done)
  | (simp (discharger := omega) only [getB_ok, get16_ok, sliceFrom_ok, slice_ok, Res.ok_bind,
      Res.pure_eq])
  | (split <;> (try gen_norm)))

macro "resin" : tactic => `(tactic| (repeat' resin_step))

theorem unpackPublish_in (buf : Bytes) : ResIn (unpackPublish buf) := by
  unfold unpackPublish; resin

end Bisquitt

namespace Bisquitt
open Gen Gw

theorem unpackTable_in : ∀ e ∈ unpackTable, ∀ buf, ResIn (e.2 buf) := by
  simp only [unpackTable, List.mem_cons, List.not_mem_nil, or_false, forall_eq_or_imp, forall_eq]
  refine ⟨?_, ?_, ?_, ?_, ?_, ?_, ?_, ?_, ?_, ?_, ?_, ?_, unpackPublish_in, ?_, ?_, ?_, ?_, ?_, ?_, ?_, ?_, ?_, ?_,
    ?_, ?_, ?_, ?_, ?_⟩
  all_goals intro buf
  · unfold unpackAdvertise; resin
  · unfold unpackSearchGw; resin
  · unfold unpackGwInfo; resin
  · unfold unpackAuth; resin
  · unfold unpackConnect; resin
  · unfold unpackConnack; resin
  · unfold unpackWillTopicReq; resin
  · unfold unpackWillTopicLike
    split
    · simp [ResIn, PktIn]
    · simp [ResIn]
    · rename_i h0 h1
      have : 2 ≤ buf.length := by
        have h0' : buf.length ≠ 0 := h0
        have h1' : buf.length ≠ 1 := h1
        omega
      resin
  · unfold unpackWillMsgReq; resin
  · unfold unpackWillMsg; resin
  · unfold unpackRegister; resin
  · unfold unpackRegack; resin
  · unfold unpackPuback; resin
  · unfold unpackMsgIdOnly; resin
  · unfold unpackMsgIdOnly; resin
  · unfold unpackMsgIdOnly; resin
  · unfold unpackSubscribe; resin
  · unfold unpackSuback; resin
  · unfold unpackUnsubscribe; resin
  · unfold unpackMsgIdOnly; resin
  · unfold unpackPingreq; resin
  · unfold unpackPingresp; resin
  · unfold unpackDisconnect; resin
  · unfold unpackWillTopicLike
    split
    · simp [ResIn, PktIn]
    · simp [ResIn]
    · rename_i h0 h1
      have : 2 ≤ buf.length := by
        have h0' : buf.length ≠ 0 := h0
        have h1' : buf.length ≠ 1 := h1
        omega
      resin
  · unfold unpackRcOnly; resin
  · unfold unpackWillMsgUpd; resin
  · unfold unpackRcOnly; resin

/-- every packet the decoder hands to a handler satisfies `PktIn` -/
theorem decode_in {bs : Bytes} {h : Header} {p : Pkt} (hd : decode bs = .ok (h, p)) : PktIn p := by
  unfold decode at hd
  cases hu : Header.unpack bs with
  | panic => simp [hu] at hd
  | err => simp [hu] at hd
  | ok h' =>
    have hl := headerUnpack_len hu
    simp only [hu, Res.ok_bind, sliceFrom_ok hl] at hd
    cases hb : unpackBody h'.pktType (bs.drop h'.headerLength.toNat) with
    | panic => simp [hb] at hd
    | err => simp [hb] at hd
    | ok p' =>
      simp only [hb, Res.ok_bind, Res.pure_eq, Res.ok.injEq, Prod.mk.injEq] at hd
      obtain ⟨_, rfl⟩ := hd
      unfold unpackBody at hb
      split at hb
      · rename_i f hf
        have := unpackTable_in (_, f) (mem_of_lookup hf) (bs.drop h'.headerLength.toNat)
        simp only [hb] at this
        exact this
      · simp at hb

end Bisquitt
