/-
  Helper lemmas for C21, part 3: size and decoding of the encoded body.
-/
import Bisquitt.Lemmas.WireRoundtrip2

namespace Bisquitt
open Gen Spec

theorem hdrFor_varPart (t : UInt8) (n : Nat) (hn : n ≤ 65000) :
    (hdrFor t n).varPartLength = UInt16.ofNat n := by
  unfold hdrFor Header.varPartLength Header.headerLength
  by_cases hc : n + 2 ≤ 255
  · simp only [if_pos hc]
    apply UInt16.toNat_inj.mp
    simp [UInt16.toNat_ofNat', shortHeaderLength]
  · simp only [if_neg hc]
    apply UInt16.toNat_inj.mp
    simp [UInt16.toNat_ofNat', longHeaderLength]

theorem hdrFor_varPart_pos (t : UInt8) (n : Nat) (hn : n ≤ 65000) :
    ((hdrFor t n).varPartLength > 0) ↔ 0 < n := by
  show (0 < (hdrFor t n).varPartLength) ↔ 0 < n
  rw [hdrFor_varPart t n hn]
  rw [UInt16.lt_iff_toNat_lt]
  simp [UInt16.toNat_ofNat']; omega

/-- **Lemma B**: the body has the announced size. -/
theorem packBody_length {p : Pkt} (h : Legal p = true) :
    (packBody (newHeader p) p).length = varLen p := by
  have hb := legal_len_bound h
  rw [newHeader_eq h]
  cases p with
  | willtopic q r t =>
    simp only [packBody, varLen] at hb ⊢
    by_cases ht : t.length = 0
    · simp only [if_pos ht] at hb ⊢
      rw [if_neg (by rw [hdrFor_varPart_pos _ _ hb]; omega)]; rfl
    · simp only [if_neg ht] at hb ⊢
      rw [if_pos (by rw [hdrFor_varPart_pos _ _ hb]; omega)]; simp; omega
  | willtopicupd q r t =>
    simp only [packBody, varLen] at hb ⊢
    by_cases ht : t.length = 0
    · simp only [if_pos ht] at hb ⊢
      rw [if_neg (by rw [hdrFor_varPart_pos _ _ hb]; omega)]; rfl
    · simp only [if_neg ht] at hb ⊢
      rw [if_pos (by rw [hdrFor_varPart_pos _ _ hb]; omega)]; simp; omega
  | disconnect d =>
    simp only [packBody, varLen] at hb ⊢
    by_cases hd : d = 0
    · simp only [if_pos hd] at hb ⊢
      rw [if_neg (by rw [hdrFor_varPart_pos _ _ hb]; omega)]; rfl
    · simp only [if_neg hd] at hb ⊢
      rw [if_pos (by rw [hdrFor_varPart_pos _ _ hb]; omega)]; rfl
  | subscribe dup q tit m t n =>
    rcases u8_le2 tit (legal_sub_tit h) with rfl | rfl | rfl <;>
      simp [packBody, varLen, enc16, TIT_STRING, TIT_PREDEFINED, TIT_SHORT] <;> omega
  | unsubscribe tit m t n =>
    rcases u8_le2 tit (legal_unsub_tit h) with rfl | rfl | rfl <;>
      simp [packBody, varLen, enc16, TIT_STRING, TIT_PREDEFINED, TIT_SHORT] <;> omega
  | _ => simp [packBody, varLen, enc16] <;> omega

/-! the dispatch of `NewPacketWithHeader`, evaluated per type code -/
theorem ub_advertise (b : Bytes) : unpackBody tADVERTISE b = unpackAdvertise b := rfl
theorem ub_searchgw (b : Bytes) : unpackBody tSEARCHGW b = unpackSearchGw b := rfl
theorem ub_gwinfo (b : Bytes) : unpackBody tGWINFO b = unpackGwInfo b := rfl
theorem ub_auth (b : Bytes) : unpackBody tAUTH b = unpackAuth b := rfl
theorem ub_connect (b : Bytes) : unpackBody tCONNECT b = unpackConnect b := rfl
theorem ub_connack (b : Bytes) : unpackBody tCONNACK b = unpackConnack b := rfl
theorem ub_willtopicreq (b : Bytes) : unpackBody tWILLTOPICREQ b = unpackWillTopicReq b := rfl
theorem ub_willtopic (b : Bytes) : unpackBody tWILLTOPIC b = unpackWillTopicLike .willtopic b := rfl
theorem ub_willmsgreq (b : Bytes) : unpackBody tWILLMSGREQ b = unpackWillMsgReq b := rfl
theorem ub_willmsg (b : Bytes) : unpackBody tWILLMSG b = unpackWillMsg b := rfl
theorem ub_register (b : Bytes) : unpackBody tREGISTER b = unpackRegister b := rfl
theorem ub_regack (b : Bytes) : unpackBody tREGACK b = unpackRegack b := rfl
theorem ub_publish (b : Bytes) : unpackBody tPUBLISH b = unpackPublish b := rfl
theorem ub_puback (b : Bytes) : unpackBody tPUBACK b = unpackPuback b := rfl
theorem ub_pubcomp (b : Bytes) : unpackBody tPUBCOMP b = unpackMsgIdOnly .pubcomp pubcompVarPartLength b := rfl
theorem ub_pubrec (b : Bytes) : unpackBody tPUBREC b = unpackMsgIdOnly .pubrec pubrecVarPartLength b := rfl
theorem ub_pubrel (b : Bytes) : unpackBody tPUBREL b = unpackMsgIdOnly .pubrel pubrelVarPartLength b := rfl
theorem ub_subscribe (b : Bytes) : unpackBody tSUBSCRIBE b = unpackSubscribe b := rfl
theorem ub_suback (b : Bytes) : unpackBody tSUBACK b = unpackSuback b := rfl
theorem ub_unsubscribe (b : Bytes) : unpackBody tUNSUBSCRIBE b = unpackUnsubscribe b := rfl
theorem ub_unsuback (b : Bytes) : unpackBody tUNSUBACK b = unpackMsgIdOnly .unsuback unsubackVarPartLength b := rfl
theorem ub_pingreq (b : Bytes) : unpackBody tPINGREQ b = unpackPingreq b := rfl
theorem ub_pingresp (b : Bytes) : unpackBody tPINGRESP b = unpackPingresp b := rfl
theorem ub_disconnect (b : Bytes) : unpackBody tDISCONNECT b = unpackDisconnect b := rfl
theorem ub_willtopicupd (b : Bytes) : unpackBody tWILLTOPICUPD b = unpackWillTopicLike .willtopicupd b := rfl
theorem ub_willtopicresp (b : Bytes) :
    unpackBody tWILLTOPICRESP b = unpackRcOnly .willtopicresp willTopicRespVarPartLength b := rfl
theorem ub_willmsgupd (b : Bytes) : unpackBody tWILLMSGUPD b = unpackWillMsgUpd b := rfl
theorem ub_willmsgresp (b : Bytes) :
    unpackBody tWILLMSGRESP b = unpackRcOnly .willmsgresp willMsgRespVarPartLength b := rfl

/-- closes `unpackX (explicit cons list) = .ok p` goals -/
macro "rt_simp" : tactic => `(tactic| (
  simp [packBody, unpackAdvertise, unpackSearchGw, unpackGwInfo, unpackConnack, unpackWillTopicReq,
    unpackWillMsgReq, unpackWillMsg, unpackWillMsgUpd, unpackPingreq, unpackPingresp, unpackRegack,
    unpackPuback, unpackMsgIdOnly, unpackRcOnly, unpackRegister, unpackSuback,
    enc16, getB, get16, sliceFrom, mk16_hi_lo, bind, Res.bind]
  all_goals (first | rfl | (gen_norm; omega))))

theorem legal_willtopic {q : UInt8} {r : Bool} {t : Bytes}
    (h : (decide (t.length ≤ maxPayload) && decide (q ≤ 3) &&
      decide (t.length == 0 → (q == 0 && r == false))) = true) :
    q ≤ 3 ∧ (t.length = 0 → q = 0 ∧ r = false) := by
  simp only [Bool.and_eq_true, decide_eq_true_eq, beq_iff_eq] at h
  exact ⟨h.1.2, fun h0 => by simpa using h.2 h0⟩

/-- body of the WILLTOPIC-shaped packets -/
theorem willTopicLike_rt (c : UInt8) (mk : UInt8 → Bool → Bytes → Pkt) (q : UInt8) (r : Bool) (t : Bytes)
    (hb : (if t.length = 0 then 0 else 1 + t.length) ≤ 65000)
    (hl : q ≤ 3 ∧ (t.length = 0 → q = 0 ∧ r = false)) :
    unpackWillTopicLike mk
      (if (hdrFor c (if t.length = 0 then 0 else 1 + t.length)).varPartLength > 0
        then willTopicFlags q r :: t else []) = .ok (mk q r t) := by
  by_cases ht : t.length = 0
  · obtain ⟨rfl, rfl⟩ := hl.2 ht
    have : t = [] := List.length_eq_zero_iff.mp ht
    subst this
    simp only [List.length_nil, if_true] at hb ⊢
    rw [if_neg (by rw [hdrFor_varPart_pos _ _ hb]; omega)]; rfl
  · simp only [if_neg ht] at hb ⊢
    rw [if_pos (by rw [hdrFor_varPart_pos _ _ hb]; omega)]
    obtain ⟨f1, f2⟩ := willTopicFlags_rt r q hl.1
    have hne : t ≠ [] := fun h0 => ht (by simp [h0])
    obtain ⟨x, xs, rfl⟩ := List.exists_cons_of_ne_nil hne
    simp [unpackWillTopicLike, getB, sliceFrom, bind, Res.bind, f1, f2]

/-- **Lemma C**: the body decodes to the packet. -/
theorem unpackBody_packBody {p : Pkt} (h : Legal p = true) :
    unpackBody p.typeCode (packBody (newHeader p) p) = .ok p := by
  have hb := legal_len_bound h
  rw [newHeader_eq h]
  cases p with
  | advertise g d => simp only [Pkt.typeCode, ub_advertise]; rt_simp
  | searchgw r => simp only [Pkt.typeCode, ub_searchgw]; rt_simp
  | gwinfo g a => simp only [Pkt.typeCode, ub_gwinfo]; rt_simp
  | connack rc => simp only [Pkt.typeCode, ub_connack]; rt_simp
  | willtopicreq => simp only [Pkt.typeCode, ub_willtopicreq]; rt_simp
  | willmsgreq => simp only [Pkt.typeCode, ub_willmsgreq]; rt_simp
  | willmsg m => simp only [Pkt.typeCode, ub_willmsg]; rt_simp
  | willmsgupd m => simp only [Pkt.typeCode, ub_willmsgupd]; rt_simp
  | pingreq c => simp only [Pkt.typeCode, ub_pingreq]; rt_simp
  | pingresp => simp only [Pkt.typeCode, ub_pingresp]; rt_simp
  | regack t m rc => simp only [Pkt.typeCode, ub_regack]; rt_simp
  | puback t m rc => simp only [Pkt.typeCode, ub_puback]; rt_simp
  | pubcomp m => simp only [Pkt.typeCode, ub_pubcomp]; rt_simp
  | pubrec m => simp only [Pkt.typeCode, ub_pubrec]; rt_simp
  | pubrel m => simp only [Pkt.typeCode, ub_pubrel]; rt_simp
  | unsuback m => simp only [Pkt.typeCode, ub_unsuback]; rt_simp
  | willtopicresp rc => simp only [Pkt.typeCode, ub_willtopicresp]; rt_simp
  | willmsgresp rc => simp only [Pkt.typeCode, ub_willmsgresp]; rt_simp
  | register t m n =>
    simp only [Pkt.typeCode, ub_register]
    have hn : 1 ≤ n.length := by
      simp only [Legal, Bool.and_eq_true, decide_eq_true_eq] at h; exact h.1
    simp [packBody, unpackRegister, enc16, getB, get16, sliceFrom, mk16_hi_lo, bind, Res.bind]
    all_goals (gen_norm; omega)
  | suback q t m rc =>
    simp only [Pkt.typeCode, ub_suback]
    have hq : q ≤ 3 := by simpa [Legal] using h
    simp [packBody, unpackSuback, enc16, getB, get16, mk16_hi_lo, bind, Res.bind, qosBits_rt q hq]
    rfl
  | publish dup q r tit t m d =>
    simp only [Pkt.typeCode, ub_publish]
    have hl : q ≤ 3 ∧ tit ≤ 3 := by
      simp only [Legal, Bool.and_eq_true, decide_eq_true_eq] at h; exact ⟨h.1.1, h.1.2⟩
    obtain ⟨f1, f2, f3, f4⟩ := publishFlags_rt dup r q tit hl.1 hl.2
    simp [packBody, unpackPublish, enc16, getB, get16, sliceFrom, mk16_hi_lo, bind, Res.bind, f1, f2, f3, f4]
    all_goals (gen_norm; omega)
  | connect w c proto dur cid =>
    simp only [Pkt.typeCode, ub_connect]
    have hl : proto = 1 ∧ 1 ≤ cid.length := by
      simp only [Legal, Bool.and_eq_true, decide_eq_true_eq, beq_iff_eq] at h; exact ⟨h.1.1, h.1.2⟩
    obtain ⟨rfl, hc1⟩ := hl
    obtain ⟨f1, f2⟩ := connectFlags_rt w c
    simp [packBody, unpackConnect, enc16, getB, get16, sliceFrom, mk16_hi_lo, bind, Res.bind, f1, f2,
      connectHeaderLength_toNat]
    omega
  | disconnect d =>
    simp only [Pkt.typeCode, ub_disconnect, packBody, varLen] at hb ⊢
    by_cases hd : d = 0
    · subst hd
      simp only [if_true] at hb ⊢
      rw [if_neg (by rw [hdrFor_varPart_pos _ _ hb]; omega)]; rfl
    · simp only [if_neg hd] at hb ⊢
      rw [if_pos (by rw [hdrFor_varPart_pos _ _ hb]; omega)]
      simp [unpackDisconnect, enc16, getB, get16, mk16_hi_lo, bind, Res.bind]
      rfl
  | auth r m d =>
    simp only [Pkt.typeCode, ub_auth]
    have hm : m.length ≤ 255 := by
      simp only [Legal, Bool.and_eq_true, decide_eq_true_eq] at h; exact h.1
    have e : (UInt8.ofNat m.length).toNat = m.length := by simp; omega
    simp only [packBody, unpackAuth, List.length_cons, List.length_append]
    rw [if_neg (by omega)]
    simp only [getB, List.getElem?_cons_zero, List.getElem?_cons_succ, Res.ok_bind, e]
    rw [if_neg (by omega)]
    simp [slice, sliceFrom, bind, Res.bind]
    have hle : 2 + m.length ≤ m.length + d.length + 1 + 1 := by omega
    have hd : List.drop (2 + m.length) (r :: UInt8.ofNat m.length :: (m ++ d)) = d := by
      rw [show 2 + m.length = m.length + 1 + 1 by omega]
      simp
    simp [hle, hd]
  | willtopic q r t =>
    simp only [Pkt.typeCode, ub_willtopic, packBody, varLen] at hb ⊢
    exact willTopicLike_rt _ _ q r t hb (legal_willtopic (by simpa [Legal] using h))
  | willtopicupd q r t =>
    simp only [Pkt.typeCode, ub_willtopicupd, packBody, varLen] at hb ⊢
    exact willTopicLike_rt _ _ q r t hb (legal_willtopic (by simpa [Legal] using h))
  | subscribe dup q tit m t n =>
    simp only [Pkt.typeCode, ub_subscribe]
    have hl : q ≤ 3 ∧ (if tit = 0 then 1 ≤ n.length ∧ t = 0 else n.length = 0) := by
      simp only [Legal, Bool.and_eq_true, decide_eq_true_eq, beq_iff_eq] at h
      refine ⟨h.1.1.1, ?_⟩
      have h2 := h.2
      split at h2 <;> simp_all
    rcases u8_le2 tit (legal_sub_tit h) with rfl | rfl | rfl
    · obtain ⟨f1, f2, f3⟩ := subscribeFlags_rt dup q 0 hl.1 (by decide)
      obtain ⟨hn, rfl⟩ : 1 ≤ n.length ∧ t = 0 := by simpa using hl.2
      simp [packBody, unpackSubscribe, enc16, getB, get16, sliceFrom, mk16_hi_lo, bind, Res.bind,
        f1, f2, f3, TIT_STRING, subscribeHeaderLength_toNat]
      intro h0; simp [h0] at hn
    · obtain ⟨f1, f2, f3⟩ := subscribeFlags_rt dup q 1 hl.1 (by decide)
      have hn : n = [] := List.length_eq_zero_iff.mp (by simpa using hl.2)
      subst hn
      simp [packBody, unpackSubscribe, enc16, getB, get16, sliceFrom, mk16_hi_lo, bind, Res.bind,
        f1, f2, f3, TIT_STRING, TIT_PREDEFINED, TIT_SHORT, subscribeHeaderLength_toNat]
    · obtain ⟨f1, f2, f3⟩ := subscribeFlags_rt dup q 2 hl.1 (by decide)
      have hn : n = [] := List.length_eq_zero_iff.mp (by simpa using hl.2)
      subst hn
      simp [packBody, unpackSubscribe, enc16, getB, get16, sliceFrom, mk16_hi_lo, bind, Res.bind,
        f1, f2, f3, TIT_STRING, TIT_PREDEFINED, TIT_SHORT, subscribeHeaderLength_toNat]
  | unsubscribe tit m t n =>
    simp only [Pkt.typeCode, ub_unsubscribe]
    have hl : (if tit = 0 then 1 ≤ n.length ∧ t = 0 else n.length = 0) := by
      simp only [Legal, Bool.and_eq_true, decide_eq_true_eq, beq_iff_eq] at h
      have h2 := h.2
      split at h2 <;> simp_all
    rcases u8_le2 tit (legal_unsub_tit h) with rfl | rfl | rfl
    · obtain ⟨hn, rfl⟩ : 1 ≤ n.length ∧ t = 0 := by simpa using hl
      have f := tit_and 0 (by decide)
      simp [packBody, unpackUnsubscribe, enc16, getB, get16, sliceFrom, mk16_hi_lo, bind, Res.bind,
        TIT_STRING, unsubscribeHeaderLength_toNat, f]
      intro h0; simp [h0] at hn
    · have hn : n = [] := List.length_eq_zero_iff.mp (by simpa using hl)
      subst hn
      have f := tit_and 1 (by decide)
      simp [packBody, unpackUnsubscribe, enc16, getB, get16, sliceFrom, mk16_hi_lo, bind, Res.bind,
        TIT_STRING, TIT_PREDEFINED, TIT_SHORT, unsubscribeHeaderLength_toNat, f]
    · have hn : n = [] := List.length_eq_zero_iff.mp (by simpa using hl)
      subst hn
      have f := tit_and 2 (by decide)
      simp [packBody, unpackUnsubscribe, enc16, getB, get16, sliceFrom, mk16_hi_lo, bind, Res.bind,
        TIT_STRING, TIT_PREDEFINED, TIT_SHORT, unsubscribeHeaderLength_toNat, f]

end Bisquitt
